//go:build verif

package db19

// C08: foreign key rules hold in every committed state.
// Random histories over six schema shapes (composite keys, self-referencing, chains, two
// sources, ...) x modes {block, cascade update, cascade}; every operation is replayed by the
// Lean model (Gsu.Model.LDb); direct oracles on the implementation:
//   dangling-fk:<op>:<mode>        a committed state has a non-empty foreign key without target
//   emptyfk-rewritten:<op>         a source row whose foreign key is empty was changed by a cascade
//   cascaded-under-block:<op>:<m>  a target change that the mode must refuse was cascaded
//   index-mismatch                 the indexes of a table disagree on its rows

import (
	"fmt"
	"testing"

	"github.com/apmckinlay/gsuneido/core"
	"github.com/apmckinlay/gsuneido/db19/meta/schema"
	lib "github.com/apmckinlay/gsuneido/util/zzverif"
)

func TestVerifC08Fkeys(t *testing.T) {
	tr := lib.Open()
	defer tr.Close()
	MakeSuTran = func(ut *UpdateTran) *core.SuTran { return core.NewSuTran(nil, true) }
	r := lib.Rand()
	n := lib.N(300)
	rawKeyRangeProbe(tr)
	selfLoopUpdateProbe(tr)
	overlapCascadeProbe(tr)
	cycleTargetProbe(tr)
	for hi := 0; hi < n; hi++ {
		h := &vHarness{tr: tr, r: r, raw: true, th: &core.Thread{},
			alpha: []string{"", "", "a", "b", "a\x00", "\x00", "a\x00\x00b", "\x00\x01"}}
		h.sch = vShape(r)
		if h.sch.hasRawSource() {
			// a single-column key as foreign key source is iterated by a raw (unencoded) range:
			// values that lie in each other's raw range give false matches there (rawKeyRangeProbe)
			h.alpha = vRawSafe
		}
		for t := range h.sch.tables {
			core.Global.TestDef("Trigger_"+vTname(t), nil)
			core.Global.SetNoDef("Trigger_" + vTname(t))
		}
		tr.Count("shape=" + h.sch.name)
		for _, tb := range h.sch.tables {
			for _, ix := range tb.idxs {
				if ix.fk != nil {
					tr.Count("mode=" + vModeName(ix.fk.mode))
				}
			}
		}
		h.db = vOpen()
		h.sch.create(h.db)
		tr.Q(h.sch.vSpec(), "ok")
		h.runFkHistory(hi)
		if !h.corrupt {
			h.db.Close()
		}
	}
}

func (h *vHarness) runFkHistory(hi int) {
	tr := h.tr
	hist := h.sch.vSpec()
	for step := 0; step < 30 && !h.failed; step++ {
		ut := h.db.NewUpdateTran()
		tr.Q("begin", "ok")
		hist += " ; begin"
		nops := 1 + h.r.Intn(3)
		alive := true
		cause := ""
		for k := 0; k < nops && alive && !h.failed; k++ {
			before := h.snapshot(ut)
			op := h.genOp(before)
			if op.kind == "upd" && vEmpty(op.old, h.sch.tables[op.t].idxs[0].cols) && !vEmpty(op.new, h.sch.tables[op.t].idxs[0].cols) {
				h.emptyKeyUpd = true // finding 19 may also corrupt the indexes of a self-referencing table
			}
			hist += " ; " + op.line()
			msg := h.apply(ut, op)
			tr.Count("op=" + op.kind)
			if msg != "" {
				out := vClassify(ut, msg)
				tr.Count("outcome=" + out)
				tr.Q(op.line(), out)
				if out == "!fkdel" {
					h.blockedOracle(op, before, hist)
				}
				if out != "!abort" {
					// the exception left the transaction usable: then it must not have changed anything
					// (a caller may catch it and commit)
					if after := vStateText(h.snapshot(ut)); after != vStateText(before) {
						h.fail("failed-op-changed-rows:"+op.kind, fmt.Sprintf("%s raised %q, the transaction is still usable but its rows changed from %s to %s; after: %s",
							op.line(), msg, vStateText(before), after, hist))
					}
				}
				if out == "!abort" {
					alive = false
					if len(msg) > 60 {
						msg = msg[:60]
					}
					tr.Count("abort=" + msg)
				}
				continue
			}
			tr.Count("outcome=ok")
			tr.Q(op.line(), "ok")
			after := h.snapshot(ut)
			h.cascadeOracles(op, before, after, hist)
			if d, m, tg := h.dangling(after); d != "" && cause == "" {
				_ = tg
				cause = fmt.Sprintf("%s:%s", op.kind, vModeName(m))
				if op.kind == "upd" && h.selfOldKey(op) {
					// the new row references the key its own update removes
					cause = "upd-self-old-key"
				}
			}
		}
		if !alive {
			// the caller caught the exception of the failed operation and commits anyway
			res := ut.Complete()
			if res == "" {
				tr.Q("commit", "ok")
			} else {
				tr.Q("commit", "!aborted")
			}
			hist += " ; commit"
			tr.Count("commit-after-abort")
		} else if h.r.Intn(8) != 0 {
			res := ut.Complete()
			if res != "" {
				tr.Q("commit", "!"+res)
			} else {
				tr.Q("commit", "ok")
			}
			hist += " ; commit"
		} else {
			ut.Abort()
			tr.Q("abort", "ok")
			hist += " ; abort"
		}
		rt := h.db.NewReadTran()
		snap := h.snapshot(rt)
		tr.Q("state", vStateText(snap))
		if d, _, _ := h.dangling(snap); d != "" {
			if cause == "" {
				cause = "unknown"
			}
			h.fail("dangling-fk:"+cause, d+" after: "+hist)
		}
		h.indexOracle(rt, hist)
		if hi < 2 && step == 3 {
			tr.Sample(hist)
		}
	}
}

func (h *vHarness) fail(sig, desc string) {
	h.failed = true
	h.tr.Fail(sig, desc)
}

// cascadeOracles: what the documentation says about a successful change of a target row
func (h *vHarness) cascadeOracles(op vOp, before, after [][]vLive, hist string) {
	// rows other than the operated one
	type key struct {
		t   int
		off uint64
	}
	aft := map[key]bool{}
	for t, rows := range after {
		for _, l := range rows {
			aft[key{t, l.off}] = true
		}
	}
	// target keys that this operation removed (rows deleted or whose key changed)
	gone := map[string]bool{}
	aftKeys := map[string]bool{}
	for t, rows := range after {
		for _, l := range rows {
			for i, ix := range h.sch.tables[t].idxs {
				aftKeys[fmt.Sprint(t, ".", i, ".", vProj(l.row, ix.cols))] = true
			}
		}
	}
	for t, rows := range before {
		for _, l := range rows {
			for i, ix := range h.sch.tables[t].idxs {
				if k := fmt.Sprint(t, ".", i, ".", vProj(l.row, ix.cols)); !aftKeys[k] {
					gone[k] = true
				}
			}
		}
	}
	for t, rows := range before {
		for _, l := range rows {
			if (t == op.t && l.off == op.off) || aft[key{t, l.off}] {
				continue
			}
			// this row was deleted or rewritten as a side effect: it must reference a removed key
			refsSomething, refsGone := false, false
			for _, ix := range h.sch.tables[t].idxs {
				if ix.fk != nil && !vEmpty(l.row, ix.cols) {
					refsSomething = true
					if gone[fmt.Sprint(ix.fk.table, ".", ix.fk.index, ".", vProj(l.row, ix.cols))] {
						refsGone = true
					}
				}
			}
			if !refsSomething {
				h.fail("emptyfk-rewritten:"+op.kind, fmt.Sprintf("row %s of %s has only empty foreign keys but was changed by %s; after: %s",
					l.row, vTname(t), op.line(), hist))
				return
			}
			if !refsGone {
				h.fail("unreferenced-row-changed:"+op.kind, fmt.Sprintf("row %s of %s references no key removed by %s but was changed; after: %s",
					l.row, vTname(t), op.line(), hist))
				return
			}
		}
	}
	if op.kind == "out" {
		return
	}
	// sources that referenced the operated row through a key that went away
	for i, ix := range h.sch.tables[op.t].idxs {
		if vEmpty(op.old, ix.cols) {
			continue
		}
		if op.kind == "upd" && vProj(op.old, ix.cols) == vProj(op.new, ix.cols) {
			continue
		}
		for s, stb := range h.sch.tables {
			for _, six := range stb.idxs {
				if six.fk == nil || six.fk.table != op.t || six.fk.index != i {
					continue
				}
				mayCascade := six.fk.mode&2 != 0
				if op.kind == "upd" {
					mayCascade = six.fk.mode&1 != 0
				}
				if mayCascade {
					continue
				}
				for _, l := range before[s] {
					if s == op.t && l.off == op.off {
						continue
					}
					if vProj(l.row, six.cols) == vProj(op.old, ix.cols) && !aft[key{s, l.off}] {
						h.fail(fmt.Sprintf("cascaded-under-block:%s:%s", op.kind, vModeName(six.fk.mode)),
							fmt.Sprintf("%s succeeded and changed referencing row %s of %s; after: %s", op.line(), l.row, vTname(s), hist))
						return
					}
				}
			}
		}
	}
}

// selfOldKey: the update gives the row a foreign key equal to its own old (changed) key
func (h *vHarness) selfOldKey(op vOp) bool {
	for _, ix := range h.sch.tables[op.t].idxs {
		if ix.fk == nil || ix.fk.table != op.t {
			continue
		}
		tcols := h.sch.tables[op.t].idxs[ix.fk.index].cols
		if !vEmpty(op.new, ix.cols) && vProj(op.new, ix.cols) == vProj(op.old, tcols) &&
			vProj(op.old, tcols) != vProj(op.new, tcols) {
			return true
		}
	}
	return false
}

// blockedOracle: a target change refused with "blocked by foreign key" needs a referencing row
func (h *vHarness) blockedOracle(op vOp, before [][]vLive, hist string) {
	for i, ix := range h.sch.tables[op.t].idxs {
		if vEmpty(op.old, ix.cols) {
			continue
		}
		for s, stb := range h.sch.tables {
			for _, six := range stb.idxs {
				if six.fk == nil || six.fk.table != op.t || six.fk.index != i {
					continue
				}
				for _, l := range before[s] {
					if vProj(l.row, six.cols) == vProj(op.old, ix.cols) {
						return
					}
				}
			}
		}
	}
	h.fail("fkdel-without-reference:"+op.kind, fmt.Sprintf("%s refused (blocked by foreign key) but no row references %s; after: %s", op.line(), op.old, hist))
}

// rawKeyRangeProbe: fixed scenario for the unencoded single-column key used as foreign key source
// (t1 key(c0) in t0(c0) cascade): deleting target "a" must not touch the source row "a\x00".
func rawKeyRangeProbe(tr *lib.Trace) {
	h := &vHarness{tr: tr, raw: true, th: &core.Thread{}}
	h.sch = vSchema{"probe", []vTable{
		{2, []vIndex{{mode: 'k', cols: []int{0}}}},
		{2, []vIndex{{mode: 'k', cols: []int{0}, fk: &vFk{0, 0, 3}}}}}}
	for t := range h.sch.tables {
		core.Global.TestDef("Trigger_"+vTname(t), nil)
		core.Global.SetNoDef("Trigger_" + vTname(t))
	}
	h.db = vOpen()
	defer h.db.Close()
	h.sch.create(h.db)
	ut := h.db.NewUpdateTran()
	for _, k := range []string{"a", "a\x00"} {
		ut.Output(h.th, "t0", h.mkrec(vRow{k, ""}))
		ut.Output(h.th, "t1", h.mkrec(vRow{k, ""}))
	}
	ut.Commit()
	ut = h.db.NewUpdateTran()
	msg := lib.Catch(func() { ut.Delete(h.th, "t0", h.scan(ut, 0)[0].off) })
	ut.Complete()
	rows := h.scan(h.db.NewReadTran(), 1)
	if msg != "" || len(rows) != 1 || rows[0].row[0] != "a\x00" {
		tr.Fail("fk-raw-key-range", fmt.Sprintf("t0 key(c0), t1 key(c0) in t0 cascade, rows a and a\\x00 in both; delete t0 a: %q, t1 afterwards %v (expected only the row x6100)", msg, rows))
	}
}

// overlapCascadeProbe (proposed KF-C08-4, Props.C08.fk_inv_overlap_counter): a cascade rewrites a
// column that a second foreign key of the row shares; update(…, block=false) does not re-check it.
// cycleTargetProbe (KF-C08-1 through two tables, Props.C08.fk_inv_cycle_counter): the row the new
// foreign key value points to is re-keyed by the cascade of the same update.
// Both only COUNT their outcome (histogram keys probe:…) until the findings are registered in
// known_findings.json; then `tr.Count` becomes `h.fail` with the signature given in findings/C08.md.
func overlapCascadeProbe(tr *lib.Trace) {
	h := &vHarness{tr: tr, raw: true, th: &core.Thread{}}
	h.sch = vSchema{"probe", []vTable{
		{2, []vIndex{{mode: 'k', cols: []int{0}}}},
		{2, []vIndex{{mode: 'k', cols: []int{0, 1}}}},
		{3, []vIndex{{mode: 'k', cols: []int{0}},
			{mode: 'i', cols: []int{1}, fk: &vFk{0, 0, 1}},
			{mode: 'i', cols: []int{1, 2}, fk: &vFk{1, 0, 0}}}}}}
	for t := range h.sch.tables {
		core.Global.TestDef("Trigger_"+vTname(t), nil)
		core.Global.SetNoDef("Trigger_" + vTname(t))
	}
	h.db = vOpen()
	defer h.db.Close()
	h.sch.create(h.db)
	ut := h.db.NewUpdateTran()
	ut.Output(h.th, "t0", h.mkrec(vRow{"a", ""}))
	ut.Output(h.th, "t1", h.mkrec(vRow{"a", "x"}))
	ut.Output(h.th, "t2", h.mkrec(vRow{"k", "a", "x"}))
	ut.Commit()
	ut = h.db.NewUpdateTran()
	msg := lib.Catch(func() { ut.Update(h.th, "t0", h.scan(ut, 0)[0].off, h.mkrec(vRow{"b", ""})) })
	res := ut.Complete()
	if msg != "" || res != "" {
		tr.Count("probe:overlap-cascade=refused")
		return
	}
	if d, _, _ := h.dangling(h.snapshot(h.db.NewReadTran())); d != "" {
		tr.Count("probe:overlap-cascade=dangling-fk:upd-cascade-shared-column")
		tr.Sample("KF-C08-4 " + d)
	} else {
		tr.Count("probe:overlap-cascade=ok")
	}
}

func cycleTargetProbe(tr *lib.Trace) {
	h := &vHarness{tr: tr, raw: true, th: &core.Thread{}}
	h.sch = vSchema{"probe", []vTable{
		{2, []vIndex{{mode: 'k', cols: []int{0}}}},
		{2, []vIndex{{mode: 'k', cols: []int{0}, fk: &vFk{0, 0, 1}}}}}}
	for t := range h.sch.tables {
		core.Global.TestDef("Trigger_"+vTname(t), nil)
		core.Global.SetNoDef("Trigger_" + vTname(t))
	}
	h.db = vOpen()
	defer h.db.Close()
	h.sch.create(h.db)
	// t0 gets its reference to the later table t1 afterwards: alter t0 create index(c1) in t1(c0)
	if msg := lib.Catch(func() {
		h.db.AlterCreate(&schema.Schema{Table: "t0", Indexes: []schema.Index{{Mode: 'i', Columns: vCols([]int{1}),
			Fk: schema.Fkey{Table: "t1", Columns: vCols([]int{0}), Mode: 0}}}})
	}); msg != "" {
		tr.Count("probe:cycle-target=alter-refused")
		return
	}
	h.sch.tables[0].idxs = append(h.sch.tables[0].idxs, vIndex{mode: 'i', cols: []int{1}, fk: &vFk{1, 0, 0}})
	ut := h.db.NewUpdateTran()
	ut.Output(h.th, "t0", h.mkrec(vRow{"a", ""}))
	ut.Output(h.th, "t1", h.mkrec(vRow{"a", ""}))
	ut.Commit()
	ut = h.db.NewUpdateTran()
	msg := lib.Catch(func() { ut.Update(h.th, "t0", h.scan(ut, 0)[0].off, h.mkrec(vRow{"b", "a"})) })
	res := ut.Complete()
	if msg != "" || res != "" {
		tr.Count("probe:cycle-target=refused")
		return
	}
	if d, _, _ := h.dangling(h.snapshot(h.db.NewReadTran())); d != "" {
		tr.Count("probe:cycle-target=dangling-fk:upd-target-rekeyed")
		tr.Sample("KF-C08-1b " + d)
	} else {
		tr.Count("probe:cycle-target=ok")
	}
}

func (h *vHarness) indexOracle(rt vReader, hist string) {
	for t, tb := range h.sch.tables {
		var base string
		for i := 0; i < len(tb.idxs); i++ {
			var x string
			if msg := lib.Catch(func() { x = h.scanIdx(rt, t, i) }); msg != "" {
				h.corrupt = true
				h.fail("index-corrupt", fmt.Sprintf("%s index %d: %s after: %s", vTname(t), i, msg, hist))
				return
			}
			if i == 0 {
				base = x
			} else if x != base {
				h.corrupt = true
				if h.emptyKeyUpd {
					h.fail("emptyfk-rewritten:upd+index-mismatch", fmt.Sprintf("%s index 0: %s index %d: %s after: %s", vTname(t), base, i, x, hist))
					return
				}
				h.fail("index-mismatch", fmt.Sprintf("%s index 0: %s index %d: %s after: %s", vTname(t), base, i, x, hist))
				return
			}
		}
	}
}

// selfLoopUpdateProbe: in ONE transaction make a row reference itself (cascade update) and then
// change its key: the cascade rewrites the row while its own update is in progress.
func selfLoopUpdateProbe(tr *lib.Trace) {
	h := &vHarness{tr: tr, raw: true, th: &core.Thread{}}
	h.sch = vSchema{"probe", []vTable{
		{2, []vIndex{{mode: 'k', cols: []int{0}}, {mode: 'i', cols: []int{1}, fk: &vFk{0, 0, 1}}}}}}
	core.Global.TestDef("Trigger_t0", nil)
	core.Global.SetNoDef("Trigger_t0")
	h.db = vOpen()
	defer func() {
		if !h.corrupt { // persisting the corrupted index at Close panics in a background goroutine
			h.db.Close()
		}
	}()
	h.sch.create(h.db)
	ut := h.db.NewUpdateTran()
	msg := lib.Catch(func() {
		ut.Output(h.th, "t0", h.mkrec(vRow{"a", ""}))
		ut.Update(h.th, "t0", h.scan(ut, 0)[0].off, h.mkrec(vRow{"a", "a"}))
		ut.Update(h.th, "t0", h.scan(ut, 0)[0].off, h.mkrec(vRow{"b", "a"}))
	})
	res := ut.Complete()
	if msg != "" || res != "" {
		return // refused: fine
	}
	before := h.failed
	h.indexOracle(h.db.NewReadTran(), "t0 (c0,c1) key(c0) index(c1) in t0(c0) cascade update; one transaction: output (a,''); update to (a,a); update to (b,a); commit")
	if !h.failed && !before {
		if d, _, _ := h.dangling(h.snapshot(h.db.NewReadTran())); d != "" {
			h.fail("dangling-fk:self-loop-key-update", d)
		}
	}
}
