package lib

// Source text generators shared by the C31 / C32 suites (external mains and the suites
// injected into /repo packages): grammar-directed programs and constants, then mutations
// (truncation, byte insertion/deletion, unbalanced brackets, stray bytes), literal-focused
// streams for numbers, strings and comments.

import (
	"math/rand"
	"strings"
)

var langVocab = []string{"function", "(", ")", "{", "}", "x", "=", "1", "+", "\"", "'", "`",
	"/*", "*/", "//", "\n", "\r\n", " ", "\t", "[", "]", "#", "#(", "#{", "class", ":", ";", ",", ".",
	"..", "::", "1e", "0x", "1_", "_", "_a", "@", "if", "if:", "default:", "true:", "is:", "return", "123",
	".5", "5.", "?", "$", "|>", "{|", "|", "<<=", ">>=", "<>", "=~", "!~", "!=", "!", "\\", "\x00", "\xff",
	"\\n", "\\x41", "\\x4", "\\\"", "\\'", "\\\\", "a?", "b!", "#abc", "#a?", "isnt", "not", "forever", "0xff",
	"1e5", "1e+", "1.5e-3", "12_345", "where", "join", "by", "sort", "-", "--", "-=", "/", "/=", "%", "&", "^", "~",
	"<", ">", "<=", ">=", "*", "*=", "$=", "+=", "++", "|=", "&=", "^=", "%=", "<<", ">>", "#20200101", "#20200101.1234"}

var langBase = []string{
	"function (a, b = 1) { x = {|y| y + a }; for i in ..5 { x(i) } return #(1, a: 'b') }",
	"#(1, 'two', three: 3, \"f o\": #{a: 1.5e3, b: #20200101}, -7, true)",
	"class { New(x) { .x = x } Get() { return .x $ \"\\n\\x41\" } /* c */ X: 12_000 }",
	"function () { if a is 1 and b isnt 2 or not c { return a < b ? `raw` : 'q\\'s' } // done\n }",
	"#{name: \"Fred\", age: 42, tags: #(a, b, 'c d'), 0x1f: .5, 1e3: 5.}",
	"function (@args) { try { throw 'x' } catch (e, 'pat') { } switch v { case 1, 2: x = 1 default: x = 0 } while x-- > 0 { continue } forever { break } }",
	"tables join by(a, b) (cols where x > 1 and y =~ 'a.*') sort reverse a, b",
	"(t extend z = x + 1, w = \"s\\tq\") summarize a, total b, max c by d project a, b rename a to aa",
	"update t where k < 50 set k = k + 20, s = 'it''s'",
	"\"abc\\n\"",
	"'it\\'s \\x00 \\xff'",
}

func langRandBytes(r *rand.Rand, max int) string {
	n := r.Intn(max + 1)
	b := make([]byte, n)
	for i := range b {
		switch r.Intn(6) {
		case 0:
			b[i] = byte(r.Intn(256))
		case 1:
			b[i] = "\"'`\\\n\t\r\x00\x7f\xff"[r.Intn(10)]
		case 2:
			b[i] = "(){}[]#:;,.@?$|<>=!~+-*/%&^_"[r.Intn(28)]
		case 3:
			b[i] = "0123456789"[r.Intn(10)]
		default:
			b[i] = byte('a' + r.Intn(4))
		}
	}
	return string(b)
}

func langFrom(r *rand.Rand, alphabet string, max int) string {
	n := 1 + r.Intn(max)
	b := make([]byte, n)
	for i := range b {
		b[i] = alphabet[r.Intn(len(alphabet))]
	}
	return string(b)
}

func langMutate(r *rand.Rand, s string, count func(string)) string {
	for k := 1 + r.Intn(2); k > 0; k-- {
		switch r.Intn(6) {
		case 0: // truncate
			s = s[:r.Intn(len(s)+1)]
			count("mut.truncate")
		case 1: // insert a stray byte
			i := r.Intn(len(s) + 1)
			s = s[:i] + langRandBytes(r, 1) + s[i:]
			count("mut.insert")
		case 2: // delete a byte
			if len(s) > 0 {
				i := r.Intn(len(s))
				s = s[:i] + s[i+1:]
			}
			count("mut.delete")
		case 3: // unbalance a bracket
			br := "(){}[]"
			i := r.Intn(len(s) + 1)
			s = s[:i] + string(br[r.Intn(len(br))]) + s[i:]
			count("mut.bracket")
		case 4: // drop a suffix then append soup
			s = s[:r.Intn(len(s)+1)] + langVocab[r.Intn(len(langVocab))]
			count("mut.cut+token")
		default: // duplicate a slice
			if len(s) > 1 {
				i := r.Intn(len(s))
				j := i + r.Intn(len(s)-i)
				s = s[:j] + s[i:j] + s[j:]
			}
			count("mut.dup")
		}
	}
	return s
}

// LangSrc returns one source text; count records which kind was chosen.
func LangSrc(r *rand.Rand, count func(string)) string {
	switch r.Intn(10) {
	case 0:
		count("src.random-bytes")
		return langRandBytes(r, 6) + langRandBytes(r, 6)
	case 1, 2:
		count("src.token-soup")
		var sb strings.Builder
		for j := r.Intn(12); j >= 0; j-- {
			sb.WriteString(langVocab[r.Intn(len(langVocab))])
		}
		return sb.String()
	case 3:
		count("src.valid")
		return langBase[r.Intn(len(langBase))]
	case 4, 5, 6:
		count("src.mutated")
		return langMutate(r, langBase[r.Intn(len(langBase))], count)
	case 7:
		count("src.number-ish")
		return langFrom(r, "0123456789__..eExX+-abfF ", 10)
	case 8:
		count("src.string-ish")
		q := "\"'`"[r.Intn(3)]
		s := string(q) + langFrom(r, "ab\\\\\\\"'`nxtr04fg\x00\n ", 8)
		if r.Intn(2) == 0 {
			s += string(q)
		}
		if r.Intn(3) == 0 {
			s += langFrom(r, "ab \"'", 3)
		}
		return s
	default:
		count("src.comment-ish")
		return langFrom(r, "/*/ \r\n\r\nab", 10)
	}
}

// ---------------------------------------------------------------------------------------
// Grammar-directed programs (statements, not only expressions/constants): functions and class
// bodies with every statement form, assignment and multi-assignment to every kind of target
// (local, member, .member, subscript, range, call, constant, this/super), calls with positional,
// named, `:name` shortcut, `@args` and block arguments, object/record expressions with named and
// shortcut members. Mostly valid; `sloppy` targets/arguments are deliberately ill-formed in a
// grammatical position (the parser must answer with a syntax error).

type langG struct {
	r     *rand.Rand
	count func(string)
}

func (g *langG) pick(ss ...string) string { return ss[g.r.Intn(len(ss))] }

func (g *langG) local() string {
	return g.pick("x", "y", "a", "b", "i", "it", "args", "_", "_x", "val?", "ok!")
}

func (g *langG) name() string {
	return g.pick("x", "y", "a", "b", "Name", "Obj", "Foo_bar", "this", "super", "default", "true", "is", "if", "A", "_")
}

func (g *langG) literal() string {
	return g.pick("1", "0", "-7", "12_000", "0x1f", ".5", "5.", "1e3", "1.5e-3", "'s'", "\"t\\n\"", "`r`", "''", "\"\"",
		"true", "false", "#sym", "#20200101", "#20200101.1234", "#(1, a: 2)", "#{k: 'v'}", "#()", "function () { }", "class { }")
}

// target: something on the left of an assignment (or in a multi-assignment list)
func (g *langG) target(d int) string {
	k := g.r.Intn(12)
	switch k {
	case 0, 1, 2, 3:
		g.count("target.local")
		return g.local()
	case 4:
		g.count("target.member")
		return g.primary(d-1) + "." + g.pick("c", "Name", "x")
	case 5:
		g.count("target.dotmember")
		return "." + g.pick("x", "Name", "y")
	case 6:
		g.count("target.subscript")
		return g.primary(d-1) + "[" + g.expr(d-1) + "]"
	case 7:
		g.count("target.range")
		return g.local() + "[" + g.pick("1..", "..2", "1..2", "1::2", "::1") + "]"
	case 8:
		g.count("target.call")
		return g.local() + "(" + g.args(d-1) + ")"
	case 9:
		g.count("target.constant")
		return g.literal()
	case 10:
		g.count("target.this-super")
		return g.pick("this", "super", "Global", "true")
	default:
		g.count("target.paren")
		return "(" + g.target(d-1) + ")"
	}
}

func (g *langG) primary(d int) string {
	if d <= 0 {
		return g.pick(g.local(), g.literal(), "this", ".x", "Global")
	}
	switch g.r.Intn(14) {
	case 0, 1, 2:
		return g.local()
	case 3:
		return g.literal()
	case 4:
		return g.primary(d-1) + "." + g.pick("x", "Name", "Method")
	case 5:
		return g.primary(d-1) + "[" + g.expr(d-1) + "]"
	case 6:
		g.count("expr.call")
		return g.primary(d-1) + "(" + g.args(d-1) + ")"
	case 7:
		return "(" + g.expr(d-1) + ")"
	case 8:
		g.count("expr.record")
		return "[" + g.args(d-1) + "]"
	case 9:
		g.count("expr.block")
		return "{|" + g.pick("", "x", "x, y", "@a") + "| " + g.stmts(d-1, 1) + "}"
	case 10:
		g.count("expr.new")
		return "new " + g.pick("Obj", "x", "this") + g.pick("", "()", "("+g.args(d-1)+")")
	case 11:
		return g.pick("super", "this") + "." + g.pick("F", "New") + "(" + g.args(d-1) + ")"
	case 12:
		return g.local() + "[" + g.pick("1..", "..2", "1..2", "1::2", "::1") + "]"
	default:
		return g.pick(".x", ".Name", ".f("+g.args(d-1)+")")
	}
}

func (g *langG) expr(d int) string {
	if d <= 0 {
		return g.primary(0)
	}
	switch g.r.Intn(12) {
	case 0, 1, 2:
		return g.primary(d)
	case 3, 4:
		return g.expr(d-1) + " " + g.pick("+", "-", "*", "/", "%", "$", "<", "<=", ">", ">=", "is", "isnt", "==", "!=", "=~", "!~",
			"and", "or", "&", "|", "^", "<<", ">>") + " " + g.expr(d-1)
	case 5:
		return g.pick("not ", "-", "+", "~", "++", "--") + g.primary(d-1)
	case 6:
		return g.primary(d-1) + g.pick("++", "--")
	case 7:
		g.count("expr.ternary")
		return g.expr(d-1) + " ? " + g.expr(d-1) + " : " + g.expr(d-1)
	case 8:
		g.count("expr.in")
		return g.primary(d-1) + g.pick(" in ", " not in ") + "(" + g.expr(d-1) + ", " + g.expr(d-1) + ")"
	case 9:
		g.count("expr.assign")
		return g.target(d-1) + " " + g.pick("=", "+=", "-=", "$=", "*=", "/=", "%=", "|=", "&=", "^=", "<<=", ">>=") + " " + g.expr(d-1)
	case 10:
		return g.primary(d-1) + "\n." + g.pick("x", "F()")
	default:
		return g.primary(d)
	}
}

// args: call arguments / record members — positional, named, :name shortcut, @args
func (g *langG) args(d int) string {
	if g.r.Intn(8) == 0 {
		g.count("args.at")
		return g.pick("@", "@+1 ", "@+1") + g.pick("args", "x", "")
	}
	n := g.r.Intn(4)
	parts := make([]string, 0, n)
	for i := 0; i < n; i++ {
		switch g.r.Intn(10) {
		case 0, 1, 2, 3:
			g.count("args.positional")
			parts = append(parts, g.expr(d-1))
		case 4, 5:
			g.count("args.named")
			parts = append(parts, g.pick(g.name(), "'s t'", "5", "#20200101", "''")+": "+g.expr(d-1))
		case 6:
			g.count("args.named-true")
			parts = append(parts, g.name()+":")
		case 7, 8:
			g.count("args.shortcut")
			parts = append(parts, ":"+g.pick(g.local(), g.local(), "Name", "1", "''", "'a'", "this", ""))
		default:
			g.count("args.sloppy")
			parts = append(parts, g.pick(":", ": :", "a: :b", ",", "a b", "@x"))
		}
	}
	return strings.Join(parts, g.pick(", ", ", ", ",", " "))
}

func (g *langG) stmt(d int) string {
	if d <= 0 {
		return g.expr(1)
	}
	switch g.r.Intn(20) {
	case 0, 1:
		g.count("stmt.assign")
		return g.target(d) + " = " + g.expr(d-1)
	case 2, 3, 4:
		g.count("stmt.multi-assign")
		n := 2 + g.r.Intn(2)
		ts := make([]string, n)
		for i := range ts {
			ts[i] = g.target(d)
		}
		return strings.Join(ts, ", ") + " = " + g.pick(g.local()+"("+g.args(d-1)+")", g.expr(d-1))
	case 5:
		g.count("stmt.if")
		s := "if " + g.expr(d-1) + " " + g.body(d-1)
		if g.r.Intn(2) == 0 {
			s += " else " + g.body(d-1)
		}
		return s
	case 6:
		g.count("stmt.while")
		return g.pick("while "+g.expr(d-1)+" "+g.body(d-1), "do "+g.body(d-1)+" while "+g.expr(d-1), "forever "+g.body(d-1))
	case 7:
		g.count("stmt.for")
		return g.pick("for "+g.local()+" in "+g.expr(d-1)+" "+g.body(d-1),
			"for ("+g.local()+" in "+g.expr(d-1)+") "+g.body(d-1),
			"for "+g.local()+", "+g.local()+" in "+g.expr(d-1)+" "+g.body(d-1),
			"for "+g.local()+" in .."+g.expr(d-1)+" "+g.body(d-1),
			"for ("+g.stmt(0)+"; "+g.expr(d-1)+"; "+g.stmt(0)+") "+g.body(d-1),
			"for (;;) "+g.body(d-1))
	case 8:
		g.count("stmt.switch")
		return "switch " + g.pick(g.expr(d-1), "") + " { case " + g.expr(d-1) + g.pick("", ", "+g.expr(d-1)) + ": " + g.stmts(d-1, 1) +
			g.pick("", " default: "+g.stmts(d-1, 1)) + " }"
	case 9:
		g.count("stmt.try")
		return "try " + g.body(d-1) + g.pick("", " catch "+g.body(d-1), " catch ("+g.local()+") "+g.body(d-1),
			" catch ("+g.local()+", 'pat') "+g.body(d-1))
	case 10, 11:
		g.count("stmt.return")
		return g.pick("return", "return "+g.expr(d-1), "return "+g.expr(d-1)+", "+g.expr(d-1), "return throw "+g.expr(d-1))
	case 12:
		g.count("stmt.throw")
		return "throw " + g.expr(d-1)
	case 13:
		return g.pick("break", "continue")
	case 14, 15:
		g.count("stmt.call")
		return g.primary(d-1) + "(" + g.args(d) + ")" + g.pick("", " "+"{ "+g.stmts(d-1, 1)+" }")
	default:
		g.count("stmt.expr")
		return g.expr(d)
	}
}

func (g *langG) body(d int) string {
	if g.r.Intn(3) == 0 {
		return g.stmt(d)
	}
	return "{ " + g.stmts(d, 2) + " }"
}

func (g *langG) stmts(d, max int) string {
	n := g.r.Intn(max + 1)
	parts := make([]string, n)
	for i := range parts {
		parts[i] = g.stmt(d)
	}
	return strings.Join(parts, g.pick("; ", "\n", " ", ";"))
}

func (g *langG) params() string {
	return g.pick("", "a", "a, b", "a, b = 1", "@args", ".x", "_a", "a = 'd', b = #(1)", "a, a", "a = b", "@", "a,")
}

func (g *langG) function(d int) string {
	return "function (" + g.params() + ") { " + g.stmts(d, 3) + " }"
}

func (g *langG) class(d int) string {
	var sb strings.Builder
	sb.WriteString(g.pick("class", "class : Base", "Base"))
	sb.WriteString(" { ")
	for i := g.r.Intn(4); i > 0; i-- {
		switch g.r.Intn(4) {
		case 0:
			sb.WriteString(g.pick("Name", "x", "New", "Default", "'s'", "5") + ": " + g.pick(g.literal(), g.function(d-1)))
		case 1, 2:
			sb.WriteString(g.pick("New", "Meth", "meth", "Get_x", "Call") + "(" + g.params() + ") { " + g.stmts(d-1, 2) + " }")
		default:
			sb.WriteString(g.name() + g.pick(":", ": ", "()"))
		}
		sb.WriteString(g.pick("; ", "\n", " ", ", "))
	}
	sb.WriteString("}")
	return sb.String()
}

// LangProgram returns one grammar-directed code constant (function or class).
func LangProgram(r *rand.Rand, count func(string)) string {
	g := &langG{r, count}
	if r.Intn(4) == 0 {
		count("prog.class")
		return g.class(3)
	}
	count("prog.function")
	return g.function(3)
}

// LangQuery returns one grammar-directed query whose expressions come from the same
// expression grammar (the query parser shares the expression parser).
func LangQuery(r *rand.Rand, count func(string)) string {
	g := &langG{r, count}
	count("prog.query")
	q := g.pick("table", "cus", "(table)", "table join cus", "cus leftjoin by(cnum) task")
	for i := 1 + r.Intn(3); i > 0; i-- {
		switch r.Intn(8) {
		case 0, 1, 2:
			q += " where " + g.expr(2)
		case 3, 4:
			q += " extend " + g.local() + " = " + g.expr(2) + g.pick("", ", z = "+g.expr(1), ", y")
		case 5:
			q += " summarize " + g.pick("count", "a, total b", "max c by d", "n = count, list a")
		case 6:
			q += g.pick(" project a, b", " remove a", " rename a to aa", " sort a", " sort reverse a, b")
		default:
			q += g.pick(" union ", " minus ", " intersect ", " times ", " join by(a) ") + g.pick("table2", "(cus where "+g.expr(1)+")")
		}
	}
	return q
}

// LangCuts returns the inputs derived from one valid-ish program: the program itself, every
// proper byte prefix of it (hence every token boundary, in particular right after `:` `(` `,`
// `[`), some prefixes followed by white space / newline, and variants in which one word is
// replaced by an empty string literal (an empty-text token in an identifier position).
func LangCuts(r *rand.Rand, s string, count func(string)) []string {
	out := make([]string, 0, len(s)+8)
	out = append(out, s)
	for k := 0; k < len(s); k++ {
		out = append(out, s[:k])
		if k > 0 && strings.IndexByte(":(,[{.=@", s[k-1]) >= 0 && r.Intn(2) == 0 {
			out = append(out, s[:k]+[]string{" ", "\n", " \n ", "''", " ''", "\"\")"}[r.Intn(6)])
		}
	}
	count("cuts.programs")
	words := strings.Fields(s)
	for k := 0; k < 3 && len(words) > 0; k++ {
		w := append([]string{}, words...)
		w[r.Intn(len(w))] = []string{"''", "\"\"", "``"}[r.Intn(3)]
		out = append(out, strings.Join(w, " "))
		count("cuts.empty-string-token")
	}
	return out
}
