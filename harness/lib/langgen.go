package lib

// Source text generators shared by the C31 / C32 suites (external mains and the suites
// injected into /repo packages): grammar-directed programs and constants, then mutations
// (truncation, byte insertion/deletion, unbalanced brackets, stray bytes), literal-focused
// streams for numbers, strings and comments.

import (
	"math/rand"
	"strings"
)

var langVocab = []string{"function", "(", ")", "{", "}", "x", "=", "1", "+", "\"", "'", "`",
	"/*", "*/", "//", "\n", "\r\n", " ", "\t", "[", "]", "#", "#(", "#{", "class", ":", ";", ",", ".",
	"..", "::", "1e", "0x", "1_", "_", "_a", "@", "if", "if:", "default:", "true:", "is:", "return", "123",
	".5", "5.", "?", "$", "|>", "{|", "|", "<<=", ">>=", "<>", "=~", "!~", "!=", "!", "\\", "\x00", "\xff",
	"\\n", "\\x41", "\\x4", "\\\"", "\\'", "\\\\", "a?", "b!", "#abc", "#a?", "isnt", "not", "forever", "0xff",
	"1e5", "1e+", "1.5e-3", "12_345", "where", "join", "by", "sort", "-", "--", "-=", "/", "/=", "%", "&", "^", "~",
	"<", ">", "<=", ">=", "*", "*=", "$=", "+=", "++", "|=", "&=", "^=", "%=", "<<", ">>", "#20200101", "#20200101.1234"}

var langBase = []string{
	"function (a, b = 1) { x = {|y| y + a }; for i in ..5 { x(i) } return #(1, a: 'b') }",
	"#(1, 'two', three: 3, \"f o\": #{a: 1.5e3, b: #20200101}, -7, true)",
	"class { New(x) { .x = x } Get() { return .x $ \"\\n\\x41\" } /* c */ X: 12_000 }",
	"function () { if a is 1 and b isnt 2 or not c { return a < b ? `raw` : 'q\\'s' } // done\n }",
	"#{name: \"Fred\", age: 42, tags: #(a, b, 'c d'), 0x1f: .5, 1e3: 5.}",
	"function (@args) { try { throw 'x' } catch (e, 'pat') { } switch v { case 1, 2: x = 1 default: x = 0 } while x-- > 0 { continue } forever { break } }",
	"tables join by(a, b) (cols where x > 1 and y =~ 'a.*') sort reverse a, b",
	"(t extend z = x + 1, w = \"s\\tq\") summarize a, total b, max c by d project a, b rename a to aa",
	"update t where k < 50 set k = k + 20, s = 'it''s'",
	"\"abc\\n\"",
	"'it\\'s \\x00 \\xff'",
}

func langRandBytes(r *rand.Rand, max int) string {
	n := r.Intn(max + 1)
	b := make([]byte, n)
	for i := range b {
		switch r.Intn(6) {
		case 0:
			b[i] = byte(r.Intn(256))
		case 1:
			b[i] = "\"'`\\\n\t\r\x00\x7f\xff"[r.Intn(10)]
		case 2:
			b[i] = "(){}[]#:;,.@?$|<>=!~+-*/%&^_"[r.Intn(28)]
		case 3:
			b[i] = "0123456789"[r.Intn(10)]
		default:
			b[i] = byte('a' + r.Intn(4))
		}
	}
	return string(b)
}

func langFrom(r *rand.Rand, alphabet string, max int) string {
	n := 1 + r.Intn(max)
	b := make([]byte, n)
	for i := range b {
		b[i] = alphabet[r.Intn(len(alphabet))]
	}
	return string(b)
}

func langMutate(r *rand.Rand, s string, count func(string)) string {
	for k := 1 + r.Intn(2); k > 0; k-- {
		switch r.Intn(6) {
		case 0: // truncate
			s = s[:r.Intn(len(s)+1)]
			count("mut.truncate")
		case 1: // insert a stray byte
			i := r.Intn(len(s) + 1)
			s = s[:i] + langRandBytes(r, 1) + s[i:]
			count("mut.insert")
		case 2: // delete a byte
			if len(s) > 0 {
				i := r.Intn(len(s))
				s = s[:i] + s[i+1:]
			}
			count("mut.delete")
		case 3: // unbalance a bracket
			br := "(){}[]"
			i := r.Intn(len(s) + 1)
			s = s[:i] + string(br[r.Intn(len(br))]) + s[i:]
			count("mut.bracket")
		case 4: // drop a suffix then append soup
			s = s[:r.Intn(len(s)+1)] + langVocab[r.Intn(len(langVocab))]
			count("mut.cut+token")
		default: // duplicate a slice
			if len(s) > 1 {
				i := r.Intn(len(s))
				j := i + r.Intn(len(s)-i)
				s = s[:j] + s[i:j] + s[j:]
			}
			count("mut.dup")
		}
	}
	return s
}

// LangSrc returns one source text; count records which kind was chosen.
func LangSrc(r *rand.Rand, count func(string)) string {
	switch r.Intn(10) {
	case 0:
		count("src.random-bytes")
		return langRandBytes(r, 6) + langRandBytes(r, 6)
	case 1, 2:
		count("src.token-soup")
		var sb strings.Builder
		for j := r.Intn(12); j >= 0; j-- {
			sb.WriteString(langVocab[r.Intn(len(langVocab))])
		}
		return sb.String()
	case 3:
		count("src.valid")
		return langBase[r.Intn(len(langBase))]
	case 4, 5, 6:
		count("src.mutated")
		return langMutate(r, langBase[r.Intn(len(langBase))], count)
	case 7:
		count("src.number-ish")
		return langFrom(r, "0123456789__..eExX+-abfF ", 10)
	case 8:
		count("src.string-ish")
		q := "\"'`"[r.Intn(3)]
		s := string(q) + langFrom(r, "ab\\\\\\\"'`nxtr04fg\x00\n ", 8)
		if r.Intn(2) == 0 {
			s += string(q)
		}
		if r.Intn(3) == 0 {
			s += langFrom(r, "ab \"'", 3)
		}
		return s
	default:
		count("src.comment-ish")
		return langFrom(r, "/*/ \r\n\r\nab", 10)
	}
}
