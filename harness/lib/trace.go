// Package lib is shared by every correspondence suite (external mains under harness/cNN and
// in-package suites injected into /repo packages through `go test -overlay`).
//
// A suite writes a trace file (path in VERIF_OUT), one record per line, tab separated:
//
//	Q <op line> <implementation output>   an operation the Lean driver replays; outputs are diffed
//	F <signature> <description>           the implementation itself violates the property on a
//	                                      concrete input (direct oracle); signature is matched
//	                                      against known_findings.json
//	S <json>                              statistics: histogram of generator choices, samples
//
// Op lines: fields separated by single spaces; byte strings as x<hex>; integers decimal.
// An implementation output starting with "!" marks an error/trivial case (not counted as
// non-trivial coverage). Every random choice derives from VERIF_SEED.
package lib

import (
	"bufio"
	"encoding/hex"
	"encoding/json"
	"fmt"
	"math/rand"
	"os"
	"sort"
	"strconv"
	"strings"
)

type Trace struct {
	f       *os.File
	w       *bufio.Writer
	hist    map[string]int
	samples []string
	nq, nf  int
	sigs    map[string]int
}

// Open creates the trace named by VERIF_OUT (stdout if unset).
func Open() *Trace {
	t := &Trace{hist: map[string]int{}}
	if p := os.Getenv("VERIF_OUT"); p != "" {
		f, err := os.Create(p)
		if err != nil {
			panic(err)
		}
		t.f = f
		t.w = bufio.NewWriterSize(f, 1<<20)
	} else {
		t.w = bufio.NewWriterSize(os.Stdout, 1<<20)
	}
	return t
}

func clean(s string) string {
	s = strings.ReplaceAll(s, "\t", " ")
	s = strings.ReplaceAll(s, "\n", "\\n")
	return strings.ReplaceAll(s, "\r", "\\r")
}

// Q records an operation for the model and what the implementation answered.
func (t *Trace) Q(in, out string) {
	t.nq++
	fmt.Fprintf(t.w, "Q\t%s\t%s\n", clean(in), clean(out))
}

// Qf is Q with a formatted op line.
func (t *Trace) Qf(out string, format string, args ...any) {
	t.Q(fmt.Sprintf(format, args...), out)
}

// Fail records a direct violation of the property by the implementation.
// sig must be stable for "the same defect" and differ between different defects.
func (t *Trace) Fail(sig, desc string) {
	t.nf++
	// keep traces bounded, but per signature: many instances of one (possibly known)
	// finding must never crowd out a different failing input; counts are still reported
	if t.sigs == nil {
		t.sigs = map[string]int{}
	}
	t.sigs[sig]++
	if t.sigs[sig] > 12 || len(t.sigs) > 400 {
		t.hist["F-suppressed:"+sig]++
		return
	}
	fmt.Fprintf(t.w, "F\t%s\t%s\n", clean(sig), clean(desc))
	t.w.Flush()
}

// Count adds to the generator histogram written into the evidence.
func (t *Trace) Count(key string) { t.hist[key]++ }

// CountN adds n to a histogram bucket.
func (t *Trace) CountN(key string, n int) { t.hist[key] += n }

// Sample keeps up to 5 example cases for the evidence.
func (t *Trace) Sample(s string) {
	if len(t.samples) < 5 {
		t.samples = append(t.samples, s)
	}
}

func (t *Trace) Close() {
	keys := make([]string, 0, len(t.hist))
	for k := range t.hist {
		keys = append(keys, k)
	}
	sort.Strings(keys)
	h := map[string]int{}
	for _, k := range keys {
		h[k] = t.hist[k]
	}
	js, _ := json.Marshal(map[string]any{"hist": h, "samples": t.samples,
		"q": t.nq, "f": t.nf})
	fmt.Fprintf(t.w, "S\t%s\n", js)
	t.w.Flush()
	if t.f != nil {
		t.f.Close()
	}
}

// Seed returns VERIF_SEED (default 1).
func Seed() int64 {
	if s := os.Getenv("VERIF_SEED"); s != "" {
		if n, err := strconv.ParseInt(s, 10, 64); err == nil {
			return n
		}
	}
	return 1
}

// N returns VERIF_N (the case count chosen by the tier) or def.
func N(def int) int {
	if s := os.Getenv("VERIF_N"); s != "" {
		if n, err := strconv.Atoi(s); err == nil && n > 0 {
			return n
		}
	}
	return def
}

// Tier returns "quick" or "thorough".
func Tier() string {
	if os.Getenv("VERIF_TIER") == "thorough" {
		return "thorough"
	}
	return "quick"
}

// Rand returns the PRNG every choice of a suite must come from.
func Rand() *rand.Rand { return rand.New(rand.NewSource(Seed())) }

// X writes a byte string as x<hex>.
func X(s string) string { return "x" + hex.EncodeToString([]byte(s)) }

// Xs joins byte strings as space separated x<hex> fields.
func Xs(ss []string) string {
	var sb strings.Builder
	for i, s := range ss {
		if i > 0 {
			sb.WriteByte(' ')
		}
		sb.WriteString(X(s))
	}
	return sb.String()
}

// Ints writes a list of ints as a,b,c ("-" when empty).
func Ints(a []int) string {
	if len(a) == 0 {
		return "-"
	}
	var sb strings.Builder
	for i, x := range a {
		if i > 0 {
			sb.WriteByte(',')
		}
		sb.WriteString(strconv.Itoa(x))
	}
	return sb.String()
}

// B is t/f.
func B(b bool) string {
	if b {
		return "t"
	}
	return "f"
}

// Catch runs f and returns "" or the panic message (first line), so a panic in the
// implementation becomes an observable outcome instead of killing the suite.
func Catch(f func()) (msg string) {
	defer func() {
		if e := recover(); e != nil {
			msg = fmt.Sprint(e)
			if i := strings.IndexByte(msg, '\n'); i >= 0 {
				msg = msg[:i]
			}
			if msg == "" {
				msg = "panic"
			}
		}
	}()
	f()
	return ""
}
