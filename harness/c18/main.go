// C18 correspondence suite: db19/stor Stor.Alloc on heap stors with small chunk sizes.
// (1) sequential histories: every offset must equal the offset of the Lean step machine
// (Gsu.Model.Alloc.tstep run single-threaded by drv_c18) — Q lines; (2) real multi-goroutine
// runs; both with the direct oracles of the property: no overlap, no straddle, within Size(),
// slice length/capacity, data written through the slice is found at the offset and survives.
package main

import (
	"fmt"
	"io"
	"log"
	"math/rand"
	"sort"
	"strings"
	"sync"

	"github.com/apmckinlay/gsuneido/db19/stor"
	"verif/harness/lib"
)

type alloc struct {
	off uint64
	n   int
	who int
}

// check evaluates the property on a set of allocations of one stor
func check(t *lib.Trace, st *stor.Stor, cs int, as []alloc, ctx string) {
	sort.Slice(as, func(i, j int) bool { return as[i].off < as[j].off })
	size := st.Size()
	for i, a := range as {
		if a.off/uint64(cs) != (a.off+uint64(a.n)-1)/uint64(cs) {
			t.Fail("straddle", fmt.Sprintf("allocation [%d,%d) crosses a chunk boundary (chunksize %d); %s", a.off, a.off+uint64(a.n), cs, ctx))
		}
		if a.off+uint64(a.n) > size {
			t.Fail("beyond-size", fmt.Sprintf("allocation [%d,%d) ends beyond Size()=%d; %s", a.off, a.off+uint64(a.n), size, ctx))
		}
		if i > 0 {
			p := as[i-1]
			if p.off+uint64(p.n) > a.off {
				t.Fail("overlap", fmt.Sprintf("allocations [%d,%d) (goroutine %d) and [%d,%d) (goroutine %d) overlap (chunksize %d); %s",
					p.off, p.off+uint64(p.n), p.who, a.off, a.off+uint64(a.n), a.who, cs, ctx))
			}
		}
		// the bytes written through the returned slice must be at that offset and intact
		msg := lib.Catch(func() {
			d := st.Data(a.off)
			if len(d) < a.n {
				t.Fail("straddle", fmt.Sprintf("Data(%d) has only %d bytes left in its chunk for an allocation of %d; %s", a.off, len(d), a.n, ctx))
				return
			}
			for k := 0; k < a.n; k++ {
				if d[k] != byte(a.who+1) {
					t.Fail("overlap", fmt.Sprintf("byte %d of allocation [%d,%d) of goroutine %d was overwritten (found %d); %s", k, a.off, a.off+uint64(a.n), a.who, d[k], ctx))
					break
				}
			}
		})
		if msg != "" {
			t.Fail("beyond-size", fmt.Sprintf("Data(%d) of a returned allocation panics: %s; %s", a.off, msg, ctx))
		}
	}
}

func fill(b []byte, who int) {
	for i := range b {
		b[i] = byte(who + 1)
	}
}

func genSize(r *rand.Rand, cs int, size uint64) int {
	room := cs - int(size%uint64(cs))
	switch r.Intn(12) {
	case 0:
		return cs
	case 1:
		return room // exactly to the chunk boundary
	case 2:
		if room+1 <= cs {
			return room + 1 // one byte too many: straddle → extend
		}
		return 1
	case 3:
		return 1
	case 4, 5:
		return 1 + r.Intn(cs)
	default:
		return 1 + r.Intn(cs/4+1)
	}
}

func sequential(t *lib.Trace, r *rand.Rand) {
	cs := []int{8, 16, 64, 256}[r.Intn(4)]
	st := stor.HeapStor(cs)
	// HeapStor starts without any chunk (allocChunk = -1); the model starts from a storage with at
	// least one chunk, as NewStor documents: the first allocation is made before the history
	w := 1 + r.Intn(cs)
	var off uint64
	var b []byte
	if msg := lib.Catch(func() { off, b = st.Alloc(w) }); msg != "" {
		t.Fail("sequential-panic", fmt.Sprintf("the first Alloc(%d) on an empty heap stor (chunksize %d) panicked: %s", w, cs, msg))
		return
	}
	fill(b, 0)
	as := []alloc{{off, w, 0}}
	t.Qf("ok", "reset %d %d %d", cs, st.Size(), 1)
	nops := 10 + r.Intn(150)
	var ops []string
	for i := 0; i < nops; i++ {
		if r.Intn(40) == 0 { // malformed request: must fail loudly and change nothing
			n := []int{0, cs + 1, cs * 2, -1}[r.Intn(4)]
			before := st.Size()
			msg := lib.Catch(func() { st.Alloc(n) })
			if n >= 0 {
				out := "!assert"
				if msg == "" {
					out = "accepted"
					t.Fail("bad-size-accepted", fmt.Sprintf("Alloc(%d) with chunksize %d did not fail", n, cs))
				}
				t.Qf(out, "alloc %d", n)
			}
			if st.Size() != before {
				t.Fail("bad-size-accepted", fmt.Sprintf("rejected Alloc(%d) changed Size() from %d to %d", n, before, st.Size()))
			}
			t.Count("alloc-malformed")
			continue
		}
		n := genSize(r, cs, st.Size())
		var o uint64
		var b []byte
		msg := lib.Catch(func() { o, b = st.Alloc(n) })
		if msg != "" {
			t.Qf("!retries", "alloc %d", n)
			t.Fail("sequential-panic", fmt.Sprintf("single-threaded Alloc(%d) panicked: %s (chunksize %d after %s)", n, msg, cs, strings.Join(ops, ",")))
			return
		}
		if len(b) != n || cap(b) != n {
			t.Fail("slice-len", fmt.Sprintf("Alloc(%d) returned a slice of len %d cap %d", n, len(b), cap(b)))
		}
		fill(b, 0)
		t.Qf(fmt.Sprint(o), "alloc %d", n)
		ops = append(ops, fmt.Sprint(n))
		as = append(as, alloc{o, n, 0})
		t.Count("alloc-seq")
		if o%uint64(cs) == 0 {
			t.Count("alloc-seq-new-chunk")
		}
		if r.Intn(10) == 0 {
			t.Qf(fmt.Sprint(st.Size()), "size")
		}
	}
	t.Qf(fmt.Sprint(st.Size()), "size")
	check(t, st, cs, as, fmt.Sprintf("sequential, chunksize %d, first %d then sizes %s", cs, w, strings.Join(ops, ",")))
}

func concurrent(t *lib.Trace, r *rand.Rand, round int) {
	cs := []int{64, 256, 1024}[r.Intn(3)]
	ng := 2 + r.Intn(7)
	per := 50 + r.Intn(400)
	sizes := make([][]int, ng)
	for g := range sizes {
		for k := 0; k < per; k++ {
			n := 1 + r.Intn(cs/4)
			if r.Intn(8) == 0 {
				n = 1 + r.Intn(cs)
			}
			sizes[g] = append(sizes[g], n)
		}
	}
	st := stor.HeapStor(cs)
	if msg := lib.Catch(func() { st.Alloc(1) }); msg != "" { // see sequential()
		t.Fail("sequential-panic", fmt.Sprintf("the first Alloc(1) on an empty heap stor (chunksize %d) panicked: %s", cs, msg))
		return
	}
	res := make([][]alloc, ng)
	panics := make([]string, ng)
	var wg sync.WaitGroup
	start := make(chan struct{})
	for g := 0; g < ng; g++ {
		wg.Add(1)
		go func(g int) {
			defer wg.Done()
			<-start
			for _, n := range sizes[g] {
				var o uint64
				var b []byte
				if msg := lib.Catch(func() { o, b = st.Alloc(n) }); msg != "" {
					panics[g] = msg // failing loudly is allowed (too many retries), anything else is not
					return
				}
				if len(b) != n || cap(b) != n {
					panics[g] = fmt.Sprintf("slice-len: Alloc(%d) returned len %d cap %d", n, len(b), cap(b))
					return
				}
				fill(b, g)
				res[g] = append(res[g], alloc{o, n, g})
			}
		}(g)
	}
	close(start)
	wg.Wait()
	var all []alloc
	for g := range res {
		all = append(all, res[g]...)
		switch {
		case panics[g] == "":
		case strings.Contains(panics[g], "too many retries"):
			t.Count("concurrent-panic-retries")
		case strings.HasPrefix(panics[g], "slice-len"):
			t.Fail("slice-len", panics[g])
		default:
			t.Fail("concurrent-panic", fmt.Sprintf("round %d: Alloc panicked with %q (%d goroutines, chunksize %d)", round, panics[g], ng, cs))
		}
	}
	check(t, st, cs, all, fmt.Sprintf("concurrent round %d, %d goroutines x %d allocations, chunksize %d", round, ng, per, cs))
	t.CountN("alloc-concurrent", len(all))
	t.Count(fmt.Sprintf("concurrent-goroutines-%d", ng))
}

func main() {
	// failed asserts log a stack trace: expected for the malformed requests
	log.SetOutput(io.Discard)
	t := lib.Open()
	defer t.Close()
	r := lib.Rand()
	n := lib.N(400)
	for h := 0; h < n; h++ {
		sequential(t, r)
	}
	rounds := n / 2
	for k := 0; k < rounds; k++ {
		concurrent(t, r, k)
	}
	t.Sample(fmt.Sprintf("%d sequential histories, %d concurrent rounds", n, rounds))
}
