// C26 correspondence suite: core.OpAdd/OpSub/OpMul/OpDiv/OpMod/OpUnaryMinus/OpAdd1,
// Compare/Equal/Hash of numbers in their three representations (*smi, SuInt64, SuDnum)
// against the Lean model Gsu.Model.NumOps, plus the direct oracles of the property
// (exact integer result when it fits int64, else the decimal result; cross-representation
// agreement of Compare/Equal and of exactly representable results).
package main

import (
	"fmt"
	"math"
	"math/big"
	"math/rand"

	. "github.com/apmckinlay/gsuneido/core"
	"github.com/apmckinlay/gsuneido/util/dnum"
	"verif/harness/lib"
)

func enc(v Value) string {
	switch x := v.(type) {
	case SuInt64:
		n, _ := x.ToInt()
		return fmt.Sprintf("l%d", n)
	case SuDnum:
		return fmt.Sprintf("d%d,%d,%d", x.Sign(), x.Coef(), x.Exp())
	}
	if n, ok := SuIntToInt(v); ok {
		return fmt.Sprintf("s%d", n)
	}
	return "?" + v.String()
}

var boundary = []int64{0, 1, -1, 2, -2, 3, 10, -10, 100, 32766, 32767, 32768, -32767, -32768, -32769,
	65535, 65536, 1 << 31, 1<<31 - 1, -(1 << 31), 1 << 32, 1<<32 + 1, -(1 << 32), 3037000499, 3037000500,
	-3037000500, 1 << 62, -(1 << 62), 1<<62 - 1, math.MaxInt64, math.MaxInt64 - 1, math.MinInt64,
	math.MinInt64 + 1, math.MaxInt64 / 2, math.MaxInt64/2 + 1, math.MinInt64 / 2, math.MinInt64/2 - 1,
	1e15, 1e16, 1e16 + 1, 1e16 - 1, 9999999999999999, -9999999999999999, 1e17, 1e17 + 1, 1e18,
	9223372036854775000, 9223372036854775499, 9223372036854775500, 4611686018427387904, 6074001000, 1518500250}

func genInt(r *rand.Rand) int64 {
	switch r.Intn(10) {
	case 0, 1, 2, 3:
		return boundary[r.Intn(len(boundary))]
	case 4:
		return int64(r.Intn(21) - 10)
	case 5:
		return int64(r.Intn(70000) - 35000)
	case 6:
		return boundary[r.Intn(len(boundary))] + int64(r.Intn(5)-2)
	case 7:
		bits := uint(r.Intn(63)) + 1
		n := int64(r.Uint64() >> (64 - bits))
		if r.Intn(2) == 0 {
			n = -n
		}
		return n
	case 8:
		return int64(r.Uint64())
	default:
		return int64(r.Intn(2000000) - 1000000)
	}
}

var decs = []string{"1e5", ".5", "2.5", "-2.5", "1e16", "1e17", "1e18", "9223372036854775807.5", "-9223372036854775808.5",
	"9223372036854776000", "9223372036854775000", "-9223372036854776000", "1e19", "1e-3", "100000", "32767", "-32768", "32768", "0.1",
	"1234567890123456", "9999999999999999", "12345678.12345678", "1e126", "-1e126", "1e-127", "3", "0", "200000", "1e15", "4294967296"}

func genDnum(r *rand.Rand) dnum.Dnum {
	switch r.Intn(8) {
	case 0, 1, 2:
		return dnum.FromStr(decs[r.Intn(len(decs))])
	case 3:
		return dnum.Inf(int8(1 - 2*r.Intn(2)))
	case 4:
		return dnum.FromInt(genInt(r))
	default:
		nd := 1 + r.Intn(16)
		var c uint64
		for i := 0; i < nd; i++ {
			c = c*10 + uint64(r.Intn(10))
		}
		sign := int8(1 - 2*r.Intn(2))
		return dnum.New(sign, c, r.Intn(26)-4)
	}
}

func genNum(r *rand.Rand, pInt int) Value {
	if r.Intn(100) < pInt {
		n := genInt(r)
		if (n == 32767 || n == -32768) && r.Intn(2) == 0 {
			return Int64Val(n) // SuInt64 holding a value of the smi range
		}
		return IntVal(int(n))
	}
	return SuDnum{Dnum: genDnum(r)}
}

func sgn(i int) int {
	if i < 0 {
		return -1
	} else if i > 0 {
		return 1
	}
	return 0
}

var bmin = big.NewInt(math.MinInt64)
var bmax = big.NewInt(math.MaxInt64)
var e16 = new(big.Int).Exp(big.NewInt(10), big.NewInt(16), nil)

func fits(b *big.Int) bool { return b.Cmp(bmin) >= 0 && b.Cmp(bmax) <= 0 }
func exact16(n int64) bool {
	b := new(big.Int).Abs(big.NewInt(n))
	return b.Cmp(e16) < 0
}

func main() {
	t := lib.Open()
	defer t.Close()
	r := lib.Rand()
	n := lib.N(4000)

	ops := []string{"add", "sub", "mul", "div", "mod", "neg", "add1", "cmp", "eq"}
	// the minimal inputs of finding 5 always run first
	type pair struct{ x, y int64 }
	fixed := []struct {
		op string
		p  pair
	}{{"mul", pair{4294967296, 4294967296}}, {"add", pair{math.MaxInt64, 1}}, {"neg", pair{math.MinInt64, 0}},
		{"sub", pair{math.MinInt64, 1}}, {"div", pair{math.MinInt64, -1}}, {"add1", pair{math.MaxInt64, 0}},
		{"mul", pair{math.MinInt64, -1}}, {"mul", pair{-1, math.MinInt64}}, {"mul", pair{3037000500, 3037000500}},
		{"mul", pair{3037000499, 3037000499}}, {"sub", pair{0, math.MinInt64}}, {"add", pair{math.MinInt64, -1}}}
	for i := 0; i < n+len(fixed); i++ {
		var op string
		var a, b Value
		if i < len(fixed) {
			op, a, b = fixed[i].op, IntVal(int(fixed[i].p.x)), IntVal(int(fixed[i].p.y))
		} else {
			op = ops[r.Intn(len(ops))]
			pInt := []int{100, 100, 85, 50, 0}[r.Intn(5)]
			a, b = genNum(r, pInt), genNum(r, pInt)
			if (op == "eq" || op == "cmp") && r.Intn(8) == 0 {
				// an int of more than 16 digits next to the decimal it rounds to
				k := []int64{1e16, 1e17, 1e18, 9223372036854776000 - 1000, 123456789012345600}[r.Intn(5)]
				a = IntVal(int(k + int64(r.Intn(3)) - 1))
				b = SuDnum{Dnum: dnum.FromInt(k)}
				if r.Intn(2) == 0 {
					a, b = b, a
				}
				t.Count("gen:int17-vs-dnum")
			}
			if xi, ok := SuIntToInt(a); ok && (op == "mul" || op == "div") && r.Intn(3) == 0 {
				// products near the int64 boundary / exact quotients
				if op == "mul" && xi != 0 {
					q := math.MaxInt64 / int64(xi)
					b = IntVal(int(q + int64(r.Intn(3)-1)))
				} else if yi, ok := SuIntToInt(b); ok && op == "div" {
					p := new(big.Int).Mul(big.NewInt(int64(xi)), big.NewInt(int64(yi)))
					if fits(p) {
						a = IntVal(int(p.Int64()))
					}
				}
			}
		}
		t.Count("op:" + op)
		ea, eb := enc(a), enc(b)
		t.Count("rep:" + ea[:1] + eb[:1])
		var res Value
		var out string
		switch op {
		case "add", "sub", "mul", "div", "mod":
			f := map[string]func(Value, Value) Value{"add": OpAdd, "sub": OpSub, "mul": OpMul, "div": OpDiv, "mod": OpMod}[op]
			msg := lib.Catch(func() { res = f(a, b) })
			if msg != "" {
				out = "!notint"
				if msg == "runtime error: integer divide by zero" || msg == "modulus by zero" {
					out = "!div0"
				}
				t.Count("err:" + out)
			} else {
				out = enc(res)
			}
			t.Q(op+" "+ea+" "+eb, out)
			if i < 3 {
				t.Sample(op + " " + ea + " " + eb + " -> " + out)
			}
		case "neg":
			res = OpUnaryMinus(a)
			t.Q("neg "+ea, enc(res))
		case "add1":
			res = OpAdd1(a)
			t.Q("add1 "+ea, enc(res))
		case "cmp":
			t.Q("cmp "+ea+" "+eb, fmt.Sprint(sgn(a.Compare(b))))
		case "eq":
			t.Q("eq "+ea+" "+eb, lib.B(a.Equal(b)))
		}

		// ---- direct oracles
		xi, xok := SuIntToInt(a)
		yi, yok := SuIntToInt(b)
		if xok && (yok || op == "neg" || op == "add1") && res != nil {
			x, y := big.NewInt(int64(xi)), big.NewInt(int64(yi))
			var exact *big.Int
			var dn dnum.Dnum
			dx, dy := dnum.FromInt(int64(xi)), dnum.FromInt(int64(yi))
			switch op {
			case "add":
				exact, dn = new(big.Int).Add(x, y), dnum.Add(dx, dy)
			case "sub":
				exact, dn = new(big.Int).Sub(x, y), dnum.Sub(dx, dy)
			case "mul":
				exact, dn = new(big.Int).Mul(x, y), dnum.Mul(dx, dy)
			case "neg":
				exact, dn = new(big.Int).Neg(x), dx.Neg()
			case "add1":
				exact, dn = new(big.Int).Add(x, big.NewInt(1)), dnum.Add(dx, dnum.One)
			case "div":
				dn = dnum.Div(dx, dy)
				if yi != 0 {
					q, m := new(big.Int).QuoRem(x, y, new(big.Int))
					if m.Sign() == 0 {
						exact = q
					}
				}
			}
			if op != "mod" {
				ri, rok := SuIntToInt(res)
				desc := fmt.Sprintf("%s %d %d = %v", op, xi, yi, res)
				switch {
				case exact != nil && fits(exact):
					t.Count("oracle:int-fits")
					if !rok || int64(ri) != exact.Int64() {
						t.Fail("int-exact:"+op, desc+" but the exact result "+exact.String()+" fits int64")
					}
				case exact != nil: // does not fit
					t.Count("oracle:int-overflow")
					if rok {
						t.Fail("int-wrap:"+op, desc+" wraps around; exact result is "+exact.String())
					} else if rd, ok := res.(SuDnum); !ok || !dnum.Equal(rd.Dnum, dn) {
						t.Fail("int-fallback:"+op, desc+" is not the decimal result "+dn.String())
					}
				default: // inexact division
					t.Count("oracle:int-inexact-div")
					if rd, ok := res.(SuDnum); !ok || !dnum.Equal(rd.Dnum, dn) {
						t.Fail("int-fallback:"+op, desc+" is not the decimal result "+dn.String())
					}
				}
			}
		}
		// cross representation: an exactly representable int behaves like its decimal twin
		if xok && exact16(int64(xi)) {
			twin := SuDnum{Dnum: dnum.FromInt(int64(xi))}
			big17 := false
			if yok && !exact16(int64(yi)) {
				big17 = true
			}
			suffix := ""
			if big17 {
				suffix = "-int17" // the other side is an int of more than 16 digits
			}
			if !a.Equal(twin) || !twin.Equal(a) {
				t.Fail("cross-rep:twin-eq", fmt.Sprintf("%d as int and as dnum: Equal %v/%v",
					xi, a.Equal(twin), twin.Equal(a)))
			}
			if sgn(a.Compare(b)) != sgn(twin.Compare(b)) || sgn(b.Compare(a)) != sgn(b.Compare(twin)) {
				t.Fail("cross-rep:cmp"+suffix, fmt.Sprintf("Compare(%v, %v) int=%d dnum=%d", xi, b, a.Compare(b), twin.Compare(b)))
			}
			if a.Equal(b) != twin.Equal(b) || b.Equal(a) != b.Equal(twin) {
				t.Fail("cross-rep:eq"+suffix, fmt.Sprintf("Equal(%v, %v) int=%v dnum=%v rev int=%v dnum=%v", xi, b,
					a.Equal(b), twin.Equal(b), b.Equal(a), b.Equal(twin)))
			}
			t.Count("oracle:cross-rep")
		}
		// Compare/Equal/Hash coherence for every pair
		if a.Equal(b) != b.Equal(a) {
			sig := "eq-asym"
			if (xok && !exact16(int64(xi))) || (yok && !exact16(int64(yi))) {
				sig = "eq-asym:int17-dnum" // SuDnum.Equal(int) rounds the int to 16 digits
			}
			t.Fail(sig, fmt.Sprintf("%s Equal %s = %v but reverse = %v", ea, eb, a.Equal(b), b.Equal(a)))
		}
		if a.Equal(b) && a.Compare(b) != 0 {
			t.Fail("eq-cmp", fmt.Sprintf("%s Equal %s but Compare = %d", ea, eb, a.Compare(b)))
		}
		if sgn(a.Compare(b)) != -sgn(b.Compare(a)) {
			t.Fail("cmp-antisym", fmt.Sprintf("%s %s", ea, eb))
		}
	}
}
