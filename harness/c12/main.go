// C12 correspondence suite: ixkey.Spec.Key/Compare, Encode, Decode, HasPrefix,
// SplitPrefixSuffix, JoinPrefixSuffix, Decode1, TruncFunc against the Lean model Gsu.Model.Ixkey,
// plus the direct oracles of the property on the implementation.
package main

import (
	"fmt"
	"math/rand"
	"strings"

	"github.com/apmckinlay/gsuneido/core"
	"github.com/apmckinlay/gsuneido/db19/index/ixkey"
	"verif/harness/lib"
)

var alphabet = []byte{0, 1, 2, 0xff, 'a'}

func genField(r *rand.Rand) string {
	n := 0
	switch r.Intn(10) {
	case 0, 1, 2:
		n = 0
	case 3, 4, 5:
		n = 1
	case 6, 7:
		n = 2
	case 8:
		n = 3
	default:
		n = r.Intn(6)
	}
	b := make([]byte, n)
	for i := range b {
		b[i] = alphabet[r.Intn(len(alphabet))]
	}
	return string(b)
}

func mkrec(fs []string) core.Record {
	var b core.RecordBuilder
	for _, f := range fs {
		b.AddRaw(f)
	}
	return b.Build()
}

func sign(n int) int {
	if n < 0 {
		return -1
	}
	if n > 0 {
		return 1
	}
	return 0
}

func main() {
	t := lib.Open()
	defer t.Close()
	r := lib.Rand()
	n := lib.N(3000)

	// exhaustive small part: all tuples of <=2 fields over strings of length <=2 over {0,1,2}
	small := []string{""}
	for _, a := range []byte{0, 1, 2} {
		small = append(small, string([]byte{a}))
		for _, b := range []byte{0, 1, 2} {
			small = append(small, string([]byte{a, b}))
		}
	}
	spec2 := &ixkey.Spec{Fields: []int{0, 1}}
	type kv struct {
		rec []string
		key string
	}
	var all []kv
	for _, a := range small {
		for _, b := range small {
			rec := []string{a, b}
			k := spec2.Key(mkrec(rec))
			t.Q(fmt.Sprintf("key 0,1 - %s", lib.Xs(rec)), lib.X(k))
			all = append(all, kv{rec, k})
		}
	}
	t.CountN("exhaustive.keys", len(all))
	// direct oracle on the exhaustive set: order and injectivity (modulo trailing empties)
	for i, x := range all {
		for j, y := range all {
			if j <= i {
				continue
			}
			want := spec2.Compare(mkrec(x.rec), mkrec(y.rec))
			got := strings.Compare(x.key, y.key)
			if sign(want) != sign(got) {
				t.Fail("key-order", fmt.Sprintf("fields %q vs %q: Compare=%d keys %q %q cmp=%d",
					x.rec, y.rec, want, x.key, y.key, got))
			}
		}
	}

	for i := 0; i < n; i++ {
		nf := 1 + r.Intn(4)
		nrec := nf + r.Intn(2)
		fields := r.Perm(nrec)[:nf]
		var fields2 []int
		if r.Intn(4) == 0 {
			fields2 = []int{r.Intn(nrec)}
			if r.Intn(3) == 0 {
				fields2 = append(fields2, r.Intn(nrec))
			}
		}
		spec := &ixkey.Spec{Fields: fields, Fields2: fields2}
		rec1 := make([]string, nrec)
		rec2 := make([]string, nrec)
		for j := range rec1 {
			rec1[j] = genField(r)
			if r.Intn(3) == 0 {
				rec2[j] = rec1[j]
			} else {
				rec2[j] = genField(r)
			}
		}
		if r.Intn(8) == 0 { // all-empty indexed fields → Fields2 rule
			for _, f := range fields {
				rec1[f] = ""
				if r.Intn(2) == 0 {
					rec2[f] = ""
				}
			}
		}
		t.Count(fmt.Sprintf("nfields=%d", nf))
		if len(fields2) > 0 {
			t.Count("fields2")
		}
		r1, r2 := mkrec(rec1), mkrec(rec2)
		k1, k2 := spec.Key(r1), spec.Key(r2)
		t.Q(fmt.Sprintf("key %s %s %s", lib.Ints(fields), lib.Ints(fields2), lib.Xs(rec1)), lib.X(k1))
		t.Q(fmt.Sprintf("key %s %s %s", lib.Ints(fields), lib.Ints(fields2), lib.Xs(rec2)), lib.X(k2))
		c := spec.Compare(r1, r2)
		t.Q(fmt.Sprintf("cmp %s %s %d %s %s", lib.Ints(fields), lib.Ints(fields2), nrec, lib.Xs(rec1), lib.Xs(rec2)),
			fmt.Sprint(sign(c)))
		if i < 3 {
			t.Sample(fmt.Sprintf("spec=%v/%v rec1=%q rec2=%q key1=%q cmp=%d", fields, fields2, rec1, rec2, k1, c))
		}
		// direct oracle: byte order of keys == field order
		if sign(strings.Compare(k1, k2)) != sign(c) {
			t.Fail("key-order", fmt.Sprintf("spec %v/%v recs %q %q: Compare=%d keys %q %q",
				fields, fields2, rec1, rec2, c, k1, k2))
		}
		// decode recovers the (trimmed) fields of an encoded key
		if spec.Encodes() && len(fields2) == 0 {
			vals := make([]string, nf)
			for j, f := range fields {
				vals[j] = rec1[f]
			}
			for len(vals) > 0 && vals[len(vals)-1] == "" {
				vals = vals[:len(vals)-1]
			}
			dec := ixkey.Decode(k1)
			if !eqStrs(dec, vals) {
				t.Fail("decode", fmt.Sprintf("fields %q key %q decode %q", vals, k1, dec))
			}
			t.Q("decode "+lib.X(k1), lib.Xs(dec))
			// prefix by field: the key of the first m fields is a HasPrefix prefix
			m := 1 + r.Intn(nf)
			pk := ixkey.CompKey(vals[:min(m, len(vals))]...)
			hp := ixkey.HasPrefix(k1, pk)
			t.Q(fmt.Sprintf("hasprefix %s %s", lib.X(k1), lib.X(pk)), lib.B(hp))
			if !hp {
				t.Fail("hasprefix", fmt.Sprintf("key %q prefix %q", k1, pk))
			}
			hp2 := ixkey.HasPrefix(k1, k2)
			t.Q(fmt.Sprintf("hasprefix %s %s", lib.X(k1), lib.X(k2)), lib.B(hp2))
			// split / join
			sn := 1 + r.Intn(nf)
			p, s := ixkey.SplitPrefixSuffix(k1, sn)
			t.Q(fmt.Sprintf("split %s %d", lib.X(k1), sn), lib.X(p)+" "+lib.X(s))
			if strings.Count(p, ixkey.Sep) < sn {
				j := ixkey.JoinPrefixSuffix(p, sn, s)
				t.Q(fmt.Sprintf("join %s %d %s", lib.X(p), sn, lib.X(s)), lib.X(j))
				// join ∘ split gives a key with the same decoded fields (up to trailing empties)
				if s != "" && !eqStrs(trim(ixkey.Decode(j)), vals) {
					t.Fail("split-join", fmt.Sprintf("key %q n=%d → %q %q → %q", k1, sn, p, s, j))
				}
			}
		}
		// Decode1 and TruncFunc on UNTRIMMED keys (TruncFunc's contract: "comp may not be
		// missing empty trailing fields"); spec1 = the loop's Fields without Fields2
		{
			fvals := make([]string, nf)
			for j, f := range fields {
				fvals[j] = rec1[f]
			}
			uk := untrimmedKey(fvals)
			if nf > 1 {
				di := r.Intn(nf + 2)
				d1 := ixkey.Decode1(uk, di)
				t.Q(fmt.Sprintf("decode1 %s %d", lib.X(uk), di), lib.X(d1))
				want := ""
				if di < nf {
					want = fvals[di]
				}
				if d1 != want {
					t.Fail("decode1", fmt.Sprintf("fields %q key %q i=%d got %q", fvals, uk, di, d1))
				}
				t.Count("decode1")
				// also on the trimmed key the real Spec.Key built (replay only)
				d1k := ixkey.Decode1(k1, di)
				t.Q(fmt.Sprintf("decode1 %s %d", lib.X(k1), di), lib.X(d1k))
			}
			m := 1 + r.Intn(nf)
			s1 := ixkey.Spec{Fields: fields}
			s2 := ixkey.Spec{Fields: fields[:m]}
			tk := ixkey.TruncFunc(s1, s2)(uk)
			t.Q(fmt.Sprintf("truncfn %d %d %s %s %s", nf, m, lib.B(s1.Encodes()), lib.B(s2.Encodes()), lib.X(uk)), lib.X(tk))
			if wantk := untrimmedKey(fvals[:m]); tk != wantk {
				t.Fail("truncfn", fmt.Sprintf("fields %q m=%d key %q got %q want %q", fvals, m, uk, tk, wantk))
			}
			t.Count(fmt.Sprintf("truncfn.%d->%d", nf, m))
		}
		e := genField(r) + genField(r)
		t.Q("enc "+lib.X(e), lib.X(ixkey.Encode(e)))
	}
	splitSection(t, r, n)
	lowerSection(t, r, n)
}

// joinAll is the composite encoding of vals with every field present (also for one field)
func joinAll(vals []string) string {
	var sb strings.Builder
	for i, v := range vals {
		if i > 0 {
			sb.WriteString(ixkey.Sep)
		}
		sb.WriteString(ixkey.Encode(v))
	}
	return sb.String()
}

// splitSection: SplitPrefixSuffix / JoinPrefixSuffix on keys of 2..6 fields with many empty
// fields (runs of empties inside the prefix, at its end, at the end of the key).
// Direct oracle: for a key with more than n (trimmed) fields the prefix is the canonical key
// (CompKey) of the first n fields and the suffix the encoding of the rest; otherwise the whole
// key and ""; Join(Split(k)) == k.
func splitSection(t *lib.Trace, r *rand.Rand, n int) {
	for c := 0; c < n/2; c++ {
		nf := 2 + r.Intn(5)
		vals := make([]string, nf)
		for j := range vals {
			if r.Intn(2) == 0 {
				vals[j] = genField(r)
			}
		}
		if r.Intn(3) != 0 && vals[nf-1] == "" {
			vals[nf-1] = string(alphabet[1+r.Intn(len(alphabet)-1)]) // non-empty last field
		}
		key := ixkey.CompKey(vals...)
		tv := trim(vals)
		sn := 1 + r.Intn(nf)
		p, s := ixkey.SplitPrefixSuffix(key, sn)
		t.Q(fmt.Sprintf("split %s %d", lib.X(key), sn), lib.X(p)+" "+lib.X(s))
		wantP, wantS := key, ""
		if sn < len(tv) {
			wantP, wantS = ixkey.CompKey(tv[:sn]...), joinAll(tv[sn:])
			trailing := 0
			for j := sn - 1; j >= 0 && tv[j] == ""; j-- {
				trailing++
			}
			t.Count(fmt.Sprintf("split.prefix-trailing-empties=%d", min(trailing, 3)))
		} else {
			t.Count("split.short-key")
		}
		if p != wantP || s != wantS {
			t.Fail("split-prefix", fmt.Sprintf("fields %q key %q n=%d: prefix %q suffix %q, want %q %q",
				vals, key, sn, p, s, wantP, wantS))
		}
		if strings.Count(p, ixkey.Sep) < sn {
			j := ixkey.JoinPrefixSuffix(p, sn, s)
			t.Q(fmt.Sprintf("join %s %d %s", lib.X(p), sn, lib.X(s)), lib.X(j))
			if sn < len(tv) && j != key {
				t.Fail("split-join-exact", fmt.Sprintf("fields %q key %q n=%d → %q %q → %q", vals, key, sn, p, s, j))
			}
		} else if sn < len(tv) {
			t.Fail("split-join-precondition", fmt.Sprintf("fields %q key %q n=%d: prefix %q has %d separators",
				vals, key, sn, p, strings.Count(p, ixkey.Sep)))
		}
		// the same prefix is obtained from a short key with the same leading fields
		if sn < len(tv) {
			short := ixkey.CompKey(tv[:sn]...)
			if p2, _ := ixkey.SplitPrefixSuffix(short, sn); p2 != p {
				t.Fail("split-prefix-canonical", fmt.Sprintf("fields %q n=%d: long key prefix %q, short key prefix %q", vals, sn, p, p2))
			}
		}
	}
}

var lowerAlphabet = []byte{'A', 'a', 'B', 'b', 'Z', 'z', '@', '[', 0, 0xff, 4, 'A', 'a'}

// genLowerField: mostly packed strings (tag 4) over mixed-case letters and their neighbours
func genLowerField(r *rand.Rand) string {
	switch r.Intn(8) {
	case 0:
		return ""
	case 1:
		return genField(r) // not a packed string (PackedToLower / PackedCmpLower leave it alone)
	}
	b := make([]byte, 1+r.Intn(4))
	b[0] = 4
	for i := 1; i < len(b); i++ {
		b[i] = lowerAlphabet[r.Intn(len(lowerAlphabet))]
	}
	return string(b)
}

func flipCase(s string) string {
	b := []byte(s)
	for i, c := range b {
		if i > 0 && ('A' <= c && c <= 'Z' || 'a' <= c && c <= 'z') {
			b[i] = c ^ 0x20
		}
	}
	return string(b)
}

// lowerSection: specs with `_lower!` fields (negative field numbers), with and without the
// secondary-field rule; records that agree up to case on the indexed fields are frequent.
func lowerSection(t *lib.Trace, r *rand.Rand, n int) {
	for c := 0; c < n/2; c++ {
		nf := 1 + r.Intn(3)
		nrec := nf + 1 + r.Intn(2)
		perm := r.Perm(nrec)
		fields := make([]int, nf)
		nlower := 0
		for j := range fields {
			fields[j] = perm[j]
			if r.Intn(3) != 0 {
				fields[j] = -perm[j] - 2 // _lower!
				nlower++
			}
		}
		var fields2 []int
		if r.Intn(2) == 0 {
			fields2 = []int{perm[nf]} // a column that is not an indexed field
		}
		spec := &ixkey.Spec{Fields: fields, Fields2: fields2}
		rec1 := make([]string, nrec)
		rec2 := make([]string, nrec)
		for j := range rec1 {
			rec1[j] = genLowerField(r)
			switch r.Intn(4) {
			case 0:
				rec2[j] = rec1[j]
			case 1, 2:
				rec2[j] = flipCase(rec1[j])
			default:
				rec2[j] = genLowerField(r)
			}
		}
		if len(fields2) > 0 && r.Intn(2) == 0 { // equal up to case on Fields, different on Fields2
			rec2[fields2[0]] = rec1[fields2[0]] + "x"
		}
		if r.Intn(8) == 0 {
			for j := 0; j < nf; j++ {
				rec1[perm[j]] = ""
				if r.Intn(2) == 0 {
					rec2[perm[j]] = ""
				}
			}
		}
		r1, r2 := mkrec(rec1), mkrec(rec2)
		k1, k2 := spec.Key(r1), spec.Key(r2)
		cmp := spec.Compare(r1, r2)
		t.Q(fmt.Sprintf("keyl %s %s %s", lib.Ints(fields), lib.Ints(fields2), lib.Xs(rec1)), lib.X(k1))
		t.Q(fmt.Sprintf("keyl %s %s %s", lib.Ints(fields), lib.Ints(fields2), lib.Xs(rec2)), lib.X(k2))
		t.Q(fmt.Sprintf("cmpl %s %s %d %s %s", lib.Ints(fields), lib.Ints(fields2), nrec, lib.Xs(rec1), lib.Xs(rec2)),
			fmt.Sprint(sign(cmp)))
		t.Count(fmt.Sprintf("lower.nlower=%d.fields2=%v.cmp=%d", nlower, len(fields2) > 0, sign(cmp)))
		if sign(strings.Compare(k1, k2)) != sign(cmp) {
			t.Fail("key-order-lower", fmt.Sprintf("spec %v/%v recs %q %q: Compare=%d keys %q %q",
				fields, fields2, rec1, rec2, cmp, k1, k2))
		}
		if sign(spec.Compare(r2, r1)) != -sign(cmp) {
			t.Fail("compare-antisym", fmt.Sprintf("spec %v/%v recs %q %q", fields, fields2, rec1, rec2))
		}
		if c < 1 {
			t.Sample(fmt.Sprintf("lower spec=%v/%v rec1=%q rec2=%q key1=%q key2=%q cmp=%d", fields, fields2, rec1, rec2, k1, k2, cmp))
		}
	}
}

// untrimmedKey is the composite key of vals with every field present
// (a single field is stored raw, as Spec.Key does when !Encodes())
func untrimmedKey(vals []string) string {
	if len(vals) == 1 {
		return vals[0]
	}
	var sb strings.Builder
	for i, v := range vals {
		if i > 0 {
			sb.WriteString(ixkey.Sep)
		}
		sb.WriteString(ixkey.Encode(v))
	}
	return sb.String()
}

func trim(v []string) []string {
	for len(v) > 0 && v[len(v)-1] == "" {
		v = v[:len(v)-1]
	}
	return v
}

func eqStrs(a, b []string) bool {
	if len(a) != len(b) {
		return false
	}
	for i := range a {
		if a[i] != b[i] {
			return false
		}
	}
	return true
}
