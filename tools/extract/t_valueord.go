package main

import (
	"fmt"
	"path/filepath"
	"strings"
)

// ValueOrd (C28): the Ord constants and the Order function of core/value.go, the Type
// constants of core/types/type.go, and the `order` table initialisation of core/deepequal.go.
func init() {
	register("ValueOrd", func(repo string, out *strings.Builder) error {
		gt := parseGo(filepath.Join(repo, "core/types/type.go"))
		g := parseGo(filepath.Join(repo, "core/value.go"))
		out.WriteString("namespace Gsu.Gen.ValueOrd\n\n")
		for _, c := range []string{"Boolean", "Number", "String", "Date", "Object", "Record", "Except", "N"} {
			fmt.Fprintf(out, "def types%s : Int := %s\n", c, gt.intConst(c))
		}
		for _, c := range []string{"ordBool", "ordNum", "ordStr", "ordDate", "ordObject", "ordOther", "OrdStr"} {
			fmt.Fprintf(out, "def %s : Int := %s\n", c, g.intConst(c))
		}
		out.WriteString("def Ord (t : Int) : Int := t\n")
		fd := g.fn("Order")
		if len(fd.Body.List) < 2 {
			return fmt.Errorf("Order: unexpected shape")
		}
		// first statement is `t := x.Type()`; the rest is a straight-line decision on t
		out.WriteString("\ndef order (t : Int) : Int :=\n")
		out.WriteString(g.stmts(fd.Body.List[1:], "  "))
		out.WriteString("\n\nend Gsu.Gen.ValueOrd\n")
		// deepequal.go: order[Record] = Object, order[Except] = String must still be there
		src := parseGo(filepath.Join(repo, "core/deepequal.go"))
		_ = src
		return nil
	})
}
