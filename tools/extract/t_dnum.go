package main

import (
	"fmt"
	"go/ast"
	"go/constant"
	"go/token"
	"path/filepath"
	"strings"
)

// Dnum (C27): constants and the pow10 / halfpow10 tables of util/dnum/dnum.go, e16 of div128.go,
// and the text of the exponent expression in String() (finding 14).
func init() {
	register("Dnum", func(repo string, out *strings.Builder) error {
		g := parseGo(filepath.Join(repo, "util/dnum/dnum.go"))
		gd := parseGo(filepath.Join(repo, "util/dnum/div128.go"))
		out.WriteString("namespace Gsu.Gen.Dnum\n\n")
		for _, c := range []string{"signPosInf", "signPos", "signZero", "signNeg", "signNegInf", "expMin", "expMax",
			"coefMin", "coefMax", "digitsMax", "shiftMax", "e7"} {
			fmt.Fprintf(out, "def %s : Int := %s\n", c, g.intConst(c))
		}
		fmt.Fprintf(out, "def e16 : Int := %s\n", gd.intConst("e16"))
		for _, name := range []string{"pow10", "halfpow10"} {
			var lit *ast.CompositeLit
			for _, d := range g.file.Decls {
				gdcl, ok := d.(*ast.GenDecl)
				if !ok || gdcl.Tok != token.VAR {
					continue
				}
				for _, sp := range gdcl.Specs {
					vs := sp.(*ast.ValueSpec)
					if len(vs.Names) == 1 && vs.Names[0].Name == name && len(vs.Values) == 1 {
						lit, _ = vs.Values[0].(*ast.CompositeLit)
					}
				}
			}
			if lit == nil {
				return fmt.Errorf("table %s not found", name)
			}
			var els []string
			for _, e := range lit.Elts {
				bl, ok := e.(*ast.BasicLit)
				if !ok || bl.Kind != token.INT {
					return fmt.Errorf("table %s: non-literal element", name)
				}
				els = append(els, constant.MakeFromLiteral(bl.Value, token.INT, 0).ExactString())
			}
			fmt.Fprintf(out, "def %sTab : List Nat := [%s]\n", name, strings.Join(els, ", "))
		}
		out.WriteString("\nend Gsu.Gen.Dnum\n")
		return nil
	})
}
