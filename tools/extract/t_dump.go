package main

import (
	"fmt"
	"go/ast"
	"go/token"
	"path/filepath"
	"strconv"
	"strings"
)

func types_exprString(e *ast.SelectorExpr) string {
	if x, ok := e.X.(*ast.Ident); ok {
		return x.Name + "." + e.Sel.Name
	}
	return "?." + e.Sel.Name
}

// Dump: the facts of db19/tools/dump.go, load.go, compact.go the C20 theorems mention:
// version strings, the section prefix written by dumpTable2 and the prefixes load expects, the
// views header, the shifts of writeInt, the deleted-column mark of squeeze, and when dump /
// compact squeeze a record.
func init() {
	register("Dump", func(repo string, out *strings.Builder) error {
		d := parseGo(filepath.Join(repo, "db19/tools/dump.go"))
		l := parseGo(filepath.Join(repo, "db19/tools/load.go"))
		c := parseGo(filepath.Join(repo, "db19/tools/compact.go"))
		out.WriteString("namespace Gsu.Gen.Dump\n\n")
		for _, k := range []string{"dumpVersion", "dumpVersionPrev", "dumpVersionBase"} {
			v, ok := d.sconst[k]
			if !ok {
				return fmt.Errorf("%s not found in dump.go", k)
			}
			fmt.Fprintf(out, "def %s : String := %s\n", k, leanStr(v))
		}
		strLit := func(e ast.Expr) (string, bool) {
			if bl, ok := e.(*ast.BasicLit); ok && bl.Kind == token.STRING {
				s, err := strconv.Unquote(bl.Value)
				return s, err == nil
			}
			return "", false
		}
		// dumpTable2: first WriteString literal
		prefix := ""
		ast.Inspect(d.fn("dumpTable2").Body, func(n ast.Node) bool {
			if ce, ok := n.(*ast.CallExpr); ok && prefix == "" && isCallTo(ce, "WriteString") && len(ce.Args) == 1 {
				if s, ok := strLit(ce.Args[0]); ok {
					prefix = s
				}
			}
			return true
		})
		if prefix == "" {
			return fmt.Errorf("dumpTable2: section prefix literal not found")
		}
		fmt.Fprintf(out, "def tablePrefix : String := %s\n", leanStr(prefix))
		// dumpViews: header literal
		vh := ""
		ast.Inspect(d.fn("dumpViews").Body, func(n ast.Node) bool {
			if ce, ok := n.(*ast.CallExpr); ok && vh == "" && isCallTo(ce, "WriteString") && len(ce.Args) == 1 {
				if s, ok := strLit(ce.Args[0]); ok {
					vh = s
				}
			}
			return true
		})
		fmt.Fprintf(out, "def viewsHeader : String := %s\n", leanStr(vh))
		// load: every prefix handed to readLinePrefixed
		var pre []string
		for _, decl := range l.file.Decls {
			ast.Inspect(decl, func(n ast.Node) bool {
				if ce, ok := n.(*ast.CallExpr); ok && isCallTo(ce, "readLinePrefixed") && len(ce.Args) == 2 {
					if s, ok := strLit(ce.Args[1]); ok {
						pre = append(pre, leanStr(s))
					}
				}
				return true
			})
		}
		if len(pre) == 0 {
			return fmt.Errorf("load.go: no readLinePrefixed call with a literal prefix")
		}
		fmt.Fprintf(out, "def loadPrefixes : List String := [%s]\n", strings.Join(pre, ", "))
		// writeInt: shifts
		var shifts []string
		ast.Inspect(d.fn("writeInt").Body, func(n ast.Node) bool {
			ce, ok := n.(*ast.CallExpr)
			if !ok || !isCallTo(ce, "WriteByte") || len(ce.Args) != 1 {
				return true
			}
			conv, ok := ce.Args[0].(*ast.CallExpr)
			if !ok || len(conv.Args) != 1 {
				panic("writeInt: WriteByte argument is not byte(…)")
			}
			switch a := conv.Args[0].(type) {
			case *ast.BinaryExpr:
				if a.Op != token.SHR {
					panic("writeInt: expected n >> k")
				}
				shifts = append(shifts, d.expr(a.Y))
			case *ast.Ident:
				shifts = append(shifts, "0")
			default:
				panic("writeInt: unexpected byte expression")
			}
			return true
		})
		fmt.Fprintf(out, "def writeIntShifts : List Nat := [%s]\n", strings.Join(shifts, ", "))
		// squeeze: the literal columns are compared with
		mark := ""
		ast.Inspect(d.fn("squeeze").Body, func(n ast.Node) bool {
			if be, ok := n.(*ast.BinaryExpr); ok && be.Op == token.NEQ {
				if s, ok := strLit(be.Y); ok {
					mark = s
				}
			}
			return true
		})
		if mark == "" {
			return fmt.Errorf("squeeze: `col != \"…\"` not found")
		}
		fmt.Fprintf(out, "def deletedMark : String := %s\n", leanStr(mark))
		// when is a record squeezed: dumpTable2 `if hasdel {`, compactTable `if hasdel || hasTrailingEmpty(rec) {`
		cond := func(fd *ast.FuncDecl) string {
			res := ""
			ast.Inspect(fd.Body, func(n ast.Node) bool {
				is, ok := n.(*ast.IfStmt)
				if !ok || res != "" {
					return true
				}
				uses := false
				ast.Inspect(is.Body, func(m ast.Node) bool {
					if ce, ok := m.(*ast.CallExpr); ok && isCallTo(ce, "squeeze") {
						uses = true
					}
					return true
				})
				if !uses {
					return true
				}
				switch c := is.Cond.(type) {
				case *ast.Ident:
					res = c.Name
				case *ast.BinaryExpr:
					if c.Op == token.LOR {
						x, ok1 := c.X.(*ast.Ident)
						if ok1 && isCallTo(c.Y, "hasTrailingEmpty") {
							res = x.Name + "||hasTrailingEmpty"
						}
					}
				}
				return true
			})
			return res
		}
		fmt.Fprintf(out, "def dumpSqueezeCond : String := %s\n", leanStr(cond(d.fn("dumpTable2"))))
		fmt.Fprintf(out, "def compactSqueezeCond : String := %s\n", leanStr(cond(c.fn("compactTable"))))
		// buildIndexes: is each built overlay stored at the position of its index (`ov[i] = …`)?
		placed := false
		ast.Inspect(l.fn("buildIndexes").Body, func(n ast.Node) bool {
			if as, ok := n.(*ast.AssignStmt); ok && len(as.Lhs) == 1 && len(as.Rhs) == 1 {
				if ie, ok := as.Lhs[0].(*ast.IndexExpr); ok && isCallTo(as.Rhs[0], "OverlayFor") {
					x, ok1 := ie.X.(*ast.Ident)
					ix, ok2 := ie.Index.(*ast.Ident)
					if ok1 && ok2 && x.Name == "ov" && ix.Name == "i" {
						placed = true
					}
				}
			}
			return true
		})
		fmt.Fprintf(out, "def overlayPlacedByIndex : Bool := %v\n", placed)
		// LoadDatabase: after close(channel), are the workers waited for BEFORE their error
		// value is looked at?
		closeAt, waitAt, errAt := -1, -1, -1
		for i, st := range l.fn("LoadDatabase").Body.List {
			switch st := st.(type) {
			case *ast.ExprStmt:
				if isCallTo(st.X, "close") {
					closeAt = i
				}
				if ce, ok := st.X.(*ast.CallExpr); ok && isCallTo(ce, "Wait") && closeAt >= 0 && waitAt < 0 {
					waitAt = i
				}
			case *ast.IfStmt:
				if closeAt >= 0 && errAt < 0 {
					uses := false
					ast.Inspect(st.Cond, func(m ast.Node) bool {
						if id, ok := m.(*ast.Ident); ok && id.Name == "errVal" {
							uses = true
						}
						return true
					})
					if uses {
						errAt = i
					}
				}
			}
		}
		if closeAt < 0 || waitAt < 0 || errAt < 0 {
			return fmt.Errorf("LoadDatabase: close(channel) / wg.Wait() / errVal check not found (%d %d %d)", closeAt, waitAt, errAt)
		}
		fmt.Fprintf(out, "def waitBeforeErrCheck : Bool := %v\n", waitAt < errAt)
		// LoadDatabase: how a section is recognised as the views section:
		// strings.HasPrefix(<what>, "<literal>") in the condition of an if statement
		viewsTest := ""
		ast.Inspect(l.fn("LoadDatabase").Body, func(n ast.Node) bool {
			is, ok := n.(*ast.IfStmt)
			if !ok {
				return true
			}
			if ce, ok := is.Cond.(*ast.CallExpr); ok && isCallTo(ce, "HasPrefix") && len(ce.Args) == 2 {
				if lit, ok := strLit(ce.Args[1]); ok && strings.HasPrefix(lit, "view") {
					what := "?"
					switch a := ce.Args[0].(type) {
					case *ast.Ident:
						what = a.Name
					case *ast.SelectorExpr:
						what = types_exprString(a)
					}
					viewsTest = what + "|" + lit
				}
			}
			return true
		})
		if viewsTest == "" {
			return fmt.Errorf("LoadDatabase: test for the views section not found")
		}
		fmt.Fprintf(out, "def viewsSectionTest : String := %s\n", leanStr(viewsTest))
		out.WriteString("\nend Gsu.Gen.Dump\n")
		return nil
	})
}
