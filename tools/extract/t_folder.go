package main

import (
	"fmt"
	"go/ast"
	"go/token"
	"path/filepath"
	"sort"
	"strconv"
	"strings"
)

// Folder: the decision tables of compile/ast/folder.go the C30 theorems mention:
// inverseBinary / reverseBinary maps, the token lists of the "cannot do math on … literal"
// checks in foldUnary / foldBinary, and per n-ary operator of foldNary: whether ckMath runs,
// which folding routine is called with which (bop, zero, identity), and which post-pass runs.
func init() {
	register("Folder", func(repo string, out *strings.Builder) error {
		g := parseGo(filepath.Join(repo, "compile/ast/folder.go"))
		out.WriteString("namespace Gsu.Gen.Folder\n\n")

		tokName := func(e ast.Expr) (string, bool) {
			if s, ok := e.(*ast.SelectorExpr); ok {
				if x, ok := s.X.(*ast.Ident); ok && x.Name == "tok" {
					return s.Sel.Name, true
				}
			}
			return "", false
		}
		// --- map[tok.Token]tok.Token tables
		for _, name := range []string{"inverseBinary", "reverseBinary"} {
			var lit *ast.CompositeLit
			for _, d := range g.file.Decls {
				gd, ok := d.(*ast.GenDecl)
				if !ok || gd.Tok != token.VAR {
					continue
				}
				for _, sp := range gd.Specs {
					vs := sp.(*ast.ValueSpec)
					if len(vs.Names) == 1 && vs.Names[0].Name == name && len(vs.Values) == 1 {
						lit, _ = vs.Values[0].(*ast.CompositeLit)
					}
				}
			}
			if lit == nil {
				return fmt.Errorf("map %s not found in folder.go", name)
			}
			var rows []string
			for _, el := range lit.Elts {
				kv, ok := el.(*ast.KeyValueExpr)
				if !ok {
					return fmt.Errorf("%s: unexpected element", name)
				}
				k, ok1 := tokName(kv.Key)
				v, ok2 := tokName(kv.Value)
				if !ok1 || !ok2 {
					return fmt.Errorf("%s: entry is not tok.X: tok.Y", name)
				}
				rows = append(rows, fmt.Sprintf("(%q, %q)", k, v))
			}
			sort.Strings(rows)
			fmt.Fprintf(out, "def %s : List (String × String) := [%s]\n", name, strings.Join(rows, ", "))
		}

		// --- token lists compared with `X.Tok == tok.T` in the first literal check of a function
		tokList := func(fd *ast.FuncDecl) ([]string, error) {
			var found []string
			ast.Inspect(fd.Body, func(n ast.Node) bool {
				if found != nil {
					return false
				}
				ifs, ok := n.(*ast.IfStmt)
				if !ok {
					return true
				}
				// the if whose body (transitively) panics with "cannot do math on"
				mentions := false
				ast.Inspect(ifs.Body, func(m ast.Node) bool {
					if bl, ok := m.(*ast.BasicLit); ok && strings.Contains(bl.Value, "cannot do math on") {
						mentions = true
					}
					return true
				})
				if !mentions {
					return true
				}
				var toks []string
				ast.Inspect(ifs.Cond, func(m ast.Node) bool {
					if be, ok := m.(*ast.BinaryExpr); ok && be.Op == token.EQL {
						if t, ok := tokName(be.Y); ok {
							toks = append(toks, t)
						}
					}
					return true
				})
				if len(toks) > 0 {
					found = toks
					return false
				}
				return true
			})
			if found == nil {
				return nil, fmt.Errorf("%s: literal check not found", fd.Name.Name)
			}
			return found, nil
		}
		for _, fn := range []struct{ lean, goName string }{{"unaryMathToks", "foldUnary"}, {"binaryMathToks", "foldBinary"}} {
			toks, err := tokList(g.method("Folder", fn.goName))
			if err != nil {
				return err
			}
			q := make([]string, len(toks))
			for i, t := range toks {
				q[i] = strconv.Quote(t)
			}
			fmt.Fprintf(out, "def %s : List String := [%s]\n", fn.lean, strings.Join(q, ", "))
		}

		// --- foldNary's switch
		fd := g.method("Folder", "foldNary")
		var sw *ast.SwitchStmt
		ast.Inspect(fd.Body, func(n ast.Node) bool {
			if s, ok := n.(*ast.SwitchStmt); ok && sw == nil {
				sw = s
			}
			return true
		})
		if sw == nil {
			return fmt.Errorf("foldNary: switch not found")
		}
		argName := func(e ast.Expr) string {
			switch x := e.(type) {
			case *ast.Ident:
				return x.Name
			case *ast.SelectorExpr:
				return x.Sel.Name
			}
			return "?"
		}
		var rows []string
		for _, st := range sw.Body.List {
			cc := st.(*ast.CaseClause)
			if cc.List == nil {
				continue // default: ShouldNotReachHere
			}
			if len(cc.List) != 1 {
				return fmt.Errorf("foldNary: case with several tokens")
			}
			t, ok := tokName(cc.List[0])
			if !ok {
				return fmt.Errorf("foldNary: case is not tok.X")
			}
			ck := false
			var calls []string
			for _, b := range cc.Body {
				var call *ast.CallExpr
				switch s := b.(type) {
				case *ast.ExprStmt:
					call, _ = s.X.(*ast.CallExpr)
				case *ast.AssignStmt:
					if len(s.Rhs) == 1 {
						call, _ = s.Rhs[0].(*ast.CallExpr)
					}
				}
				if call == nil {
					return fmt.Errorf("foldNary case %s: unexpected statement", t)
				}
				fn := argName(call.Fun)
				if fn == "ckMath" {
					ck = true
					continue
				}
				var as []string
				for _, a := range call.Args {
					as = append(as, argName(a))
				}
				calls = append(calls, fn+"("+strings.Join(as, ",")+")")
			}
			rows = append(rows, fmt.Sprintf("(%q, %v, %q)", t, ck, strings.Join(calls, ";")))
		}
		fmt.Fprintf(out, "/-- (token, ckMath runs first, calls in order) -/\ndef naryRules : List (String × Bool × String) := [\n  %s]\n",
			strings.Join(rows, ",\n  "))

		// --- allones
		found := ""
		for _, d := range g.file.Decls {
			gd, ok := d.(*ast.GenDecl)
			if !ok || gd.Tok != token.VAR {
				continue
			}
			for _, sp := range gd.Specs {
				vs := sp.(*ast.ValueSpec)
				if len(vs.Names) == 1 && vs.Names[0].Name == "allones" && len(vs.Values) == 1 {
					ast.Inspect(vs.Values[0], func(n ast.Node) bool {
						if bl, ok := n.(*ast.BasicLit); ok && bl.Kind == token.INT {
							v, err := strconv.ParseInt(bl.Value, 0, 64)
							if err == nil {
								found = strconv.FormatInt(v, 10)
							}
						}
						return true
					})
				}
			}
		}
		if found == "" {
			return fmt.Errorf("allones not found in folder.go")
		}
		fmt.Fprintf(out, "def allones : Int := %s\n", found)
		out.WriteString("\nend Gsu.Gen.Folder\n")
		return nil
	})
}
