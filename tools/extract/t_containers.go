package main

import (
	"fmt"
	"go/ast"
	"go/constant"
	"go/token"
	"path/filepath"
	"strings"
)

// Containers: constants / literal thresholds / position formulas of the util containers
// (sortlist, bloom, roaring, lrucache, cache, shmap) that the C39Aux model uses.
// Literals that are not named constants in the Go source (roaring's 4096, bloom's 64,
// lrucache's size table) are taken from the AST of the statement they occur in; when the
// statement no longer has the expected shape the target fails.

// intLits returns every integer literal below n, in source order (exact decimal).
func intLits(n ast.Node) []string {
	var out []string
	ast.Inspect(n, func(x ast.Node) bool {
		if bl, ok := x.(*ast.BasicLit); ok && bl.Kind == token.INT {
			out = append(out, constant.MakeFromLiteral(bl.Value, token.INT, 0).ExactString())
		}
		return true
	})
	return out
}

func allEqual(xs []string, want int, what string) string {
	if len(xs) != want {
		panic(fmt.Sprintf("%s: expected %d integer literals, found %v", what, want, xs))
	}
	for _, x := range xs {
		if x != xs[0] {
			panic(fmt.Sprintf("%s: literals differ: %v", what, xs))
		}
	}
	return xs[0]
}

// callsTo collects the calls whose function is a selector ending in name (x.y.name(...)).
func callsTo(n ast.Node, name string) []*ast.CallExpr {
	var out []*ast.CallExpr
	ast.Inspect(n, func(x ast.Node) bool {
		if ce, ok := x.(*ast.CallExpr); ok {
			if se, ok := ce.Fun.(*ast.SelectorExpr); ok && se.Sel.Name == name {
				out = append(out, ce)
			}
		}
		return true
	})
	return out
}


// methodG is goFile.method that also accepts generic receivers (*Cache[K, V]).
func methodG(g *goFile, recv, name string) *ast.FuncDecl {
	for _, d := range g.file.Decls {
		fd, ok := d.(*ast.FuncDecl)
		if !ok || fd.Name.Name != name || fd.Recv == nil || len(fd.Recv.List) == 0 {
			continue
		}
		t := fd.Recv.List[0].Type
		if s, ok := t.(*ast.StarExpr); ok {
			t = s.X
		}
		switch x := t.(type) {
		case *ast.IndexExpr:
			t = x.X
		case *ast.IndexListExpr:
			t = x.X
		}
		if id, ok := t.(*ast.Ident); ok && id.Name == recv {
			return fd
		}
	}
	panic("method " + recv + "." + name + " not found")
}

func init() {
	register("Containers", func(repo string, out *strings.Builder) error {
		out.WriteString("namespace Gsu.Gen.Containers\n\n")

		// ---- sortlist
		sl := parseGo(filepath.Join(repo, "util/sortlist/sortlist.go"))
		fmt.Fprintf(out, "def sortlistBlockSize : Nat := %s\n", sl.intConst("blockSize"))

		// ---- bloom
		bl := parseGo(filepath.Join(repo, "util/bloom/bloom.go"))
		// bitset.Set: bs[n/64] |= 1 << uint(n%64) ; Get: bs[n/64]&(1<<uint(n%64)) != 0
		setL := intLits(bl.method("bitset", "Set").Body)
		getL := intLits(bl.method("bitset", "Get").Body)
		if len(setL) != 3 || setL[1] != "1" || setL[0] != setL[2] {
			return fmt.Errorf("bloom bitset.Set: unexpected literals %v", setL)
		}
		if len(getL) != 4 || getL[1] != "1" || getL[0] != getL[2] || getL[3] != "0" || getL[0] != setL[0] {
			return fmt.Errorf("bloom bitset.Get: unexpected literals %v (Set %v)", getL, setL)
		}
		fmt.Fprintf(out, "def bloomWordBits : Nat := %s\n", setL[0])
		nb := intLits(bl.fn("newBitset").Body) // (size+63)/64
		if len(nb) != 2 {
			return fmt.Errorf("bloom newBitset: unexpected literals %v", nb)
		}
		fmt.Fprintf(out, "def bloomNewRound : Nat := %s\ndef bloomNewDiv : Nat := %s\n", nb[0], nb[1])
		// position formulas: the argument of b.bits.Set in Add and of b.bits.Get in Test
		pos := func(meth, call string) string {
			cs := callsTo(bl.method("Bloom", meth).Body, call)
			if len(cs) != 1 || len(cs[0].Args) != 1 {
				panic("bloom " + meth + ": expected exactly one call of bits." + call)
			}
			e := bl.expr(cs[0].Args[0])
			if !strings.Contains(e, "(len (bbits))") {
				panic("bloom " + meth + ": position formula does not mention len(b.bits): " + e)
			}
			return strings.ReplaceAll(e, "(len (bbits))", "nwords")
		}
		fmt.Fprintf(out, "def bloomAddPos (h1 h2 i nwords : Int) : Int := %s\n", pos("Add", "Set"))
		fmt.Fprintf(out, "def bloomTestPos (h1 h2 i nwords : Int) : Int := %s\n", pos("Test", "Get"))
		// h1 := int(uint32(h)) ; h2 := int(h >> 32) in both
		for _, m := range []string{"Add", "Test"} {
			l := intLits(bl.method("Bloom", m).Body)
			if len(l) < 1 || l[0] != "32" {
				return fmt.Errorf("bloom %s: expected h >> 32, literals %v", m, l)
			}
		}
		fmt.Fprintf(out, "def bloomHashShift : Nat := 32\n")

		// ---- roaring
		ro := parseGo(filepath.Join(repo, "util/roaring/roaring.go"))
		fmt.Fprintf(out, "def roaringMaxValue : Nat := %s\n", ro.intConst("maxValue"))
		add := ro.method("Bitmap", "Add")
		// thresholds: every `len(cont.data) < N` in Add
		var thr []string
		ast.Inspect(add.Body, func(x ast.Node) bool {
			if be, ok := x.(*ast.BinaryExpr); ok && be.Op == token.LSS {
				if ce, ok := be.X.(*ast.CallExpr); ok {
					if id, ok := ce.Fun.(*ast.Ident); ok && id.Name == "len" {
						thr = append(thr, intLits(be.Y)...)
					}
				}
			}
			return true
		})
		arrMax := allEqual(thr, 2, "roaring Add array thresholds")
		al := intLits(ro.fn("alloc").Body)
		fl := intLits(ro.fn("free").Body)
		if allEqual(al, 2, "roaring alloc") != arrMax || allEqual(fl, 1, "roaring free") != arrMax {
			return fmt.Errorf("roaring: block size %v/%v differs from array threshold %s", al, fl, arrMax)
		}
		fmt.Fprintf(out, "def roaringArrayMax : Nat := %s\n", arrMax)
		// x >> 16 and x & 0xFFFF in Add, Has, contPos
		addL := intLits(add.Body)
		hasL := intLits(ro.method("Bitmap", "Has").Body)
		cpL := intLits(ro.method("Bitmap", "contPos").Body)
		if len(addL) < 2 || addL[0] != "65535" || addL[1] != "16" || len(hasL) < 1 || hasL[0] != "65535" ||
			len(cpL) < 1 || cpL[0] != "16" {
			return fmt.Errorf("roaring: unexpected split literals Add %v Has %v contPos %v", addL, hasL, cpL)
		}
		fmt.Fprintf(out, "def roaringLowMask : Nat := %s\ndef roaringShift : Nat := %s\n", addL[0], addL[1])
		// addBit / hasBit: idx := x >> 4 ; bit := 1 << (x & 15)
		abL := intLits(ro.fn("addBit").Body)
		hbL := intLits(ro.fn("hasBit").Body)
		if fmt.Sprint(abL) != "[4 1 15]" || fmt.Sprint(hbL) != "[4 1 15 0]" {
			return fmt.Errorf("roaring addBit/hasBit: unexpected literals %v %v", abL, hbL)
		}
		fmt.Fprintf(out, "def roaringWordShift : Nat := %s\ndef roaringWordMask : Nat := %s\n", abL[0], abL[2])

		// ---- lrucache
		lr := parseGo(filepath.Join(repo, "util/lrucache/lrucache.go"))
		nw := lr.fn("New")
		var sizes []string
		ast.Inspect(nw.Body, func(x ast.Node) bool {
			if cl, ok := x.(*ast.CompositeLit); ok && sizes == nil {
				if at, ok := cl.Type.(*ast.ArrayType); ok {
					if id, ok := at.Elt.(*ast.Ident); ok && id.Name == "int" {
						sizes = intLits(cl)
					}
				}
			}
			return true
		})
		if len(sizes) == 0 {
			return fmt.Errorf("lrucache New: size table not found")
		}
		all := intLits(nw.Body)
		if len(all) != len(sizes)+3 || all[len(sizes)+1] != "0" {
			return fmt.Errorf("lrucache New: unexpected literals %v", all)
		}
		fmt.Fprintf(out, "def lruSizes : List Nat := [%s]\n", strings.Join(sizes, ", "))
		fmt.Fprintf(out, "def lruMaxSize : Nat := %s\n", all[len(sizes)])
		gl := intLits(methodG(lr, "Cache", "Get").Body)
		if fmt.Sprint(gl) != "[8 1 1]" {
			return fmt.Errorf("lrucache Get: unexpected literals %v", gl)
		}
		fmt.Fprintf(out, "def lruNoMoveDiv : Nat := %s\n", gl[0])

		// ---- cache
		ca := parseGo(filepath.Join(repo, "util/cache/cache.go"))
		fmt.Fprintf(out, "def cacheSize : Nat := %s\n", ca.intConst("cacheSize"))

		// ---- shmap
		sh := parseGo(filepath.Join(repo, "util/shmap/map.go"))
		for _, c := range [][2]string{{"groupSize", "shmapGroupSize"}, {"empty", "shmapEmpty"},
			{"deleted", "shmapDeleted"}, {"loadFactor", "shmapLoadFactor"}} {
			fmt.Fprintf(out, "def %s : Nat := %s\n", c[1], sh.intConst(c[0]))
		}
		// h1 := h >> 7 ; h2 := uint8(h & 0x7f) in search
		sl2 := intLits(methodG(sh, "Map", "search").Body)
		if fmt.Sprint(sl2) != "[7 127 1]" {
			return fmt.Errorf("shmap search: unexpected literals %v", sl2)
		}
		fmt.Fprintf(out, "def shmapH2Bits : Nat := %s\n", sl2[0])
		out.WriteString("\nend Gsu.Gen.Containers\n")
		return nil
	})
}
