package main

import (
	"fmt"
	"go/ast"
	"go/token"
	"path/filepath"
	"strings"
)

// Check: what the C01/C07 theorems take from db19/check.go and db19/tran.go:
//   overlap      (straight-line predicate on start/end numbers)
//   readMax, MaxAge (default), the initial sequence number and its increment
//   needsDupCheck (straight-line boolean predicate, tran.go) as a function of four booleans
func init() {
	register("Check", func(repo string, out *strings.Builder) error {
		g := parseGo(filepath.Join(repo, "db19/check.go"))
		out.WriteString("namespace Gsu.Gen.Check\n")
		g.emitIntFn(out, g.fn("overlap"), "overlap", []string{"t1start", "t1end", "t2start", "t2end"})
		fmt.Fprintf(out, "\ndef readMax : Int := %s\n", g.intConst("readMax"))
		// var MaxAge = 20
		maxAge := ""
		for _, d := range g.file.Decls {
			gd, ok := d.(*ast.GenDecl)
			if !ok || gd.Tok != token.VAR {
				continue
			}
			for _, sp := range gd.Specs {
				vs := sp.(*ast.ValueSpec)
				for i, n := range vs.Names {
					if n.Name == "MaxAge" && i < len(vs.Values) {
						if bl, ok := vs.Values[i].(*ast.BasicLit); ok && bl.Kind == token.INT {
							maxAge = bl.Value
						}
					}
				}
			}
		}
		if maxAge == "" {
			return fmt.Errorf("var MaxAge = <int literal> not found in check.go")
		}
		fmt.Fprintf(out, "def maxAge : Int := %s\n", maxAge)
		// next(): ck.seq += 2 ; NewCheck: seq: 1
		inc := ""
		ast.Inspect(g.method("Check", "next"), func(n ast.Node) bool {
			if as, ok := n.(*ast.AssignStmt); ok && as.Tok == token.ADD_ASSIGN {
				if bl, ok := as.Rhs[0].(*ast.BasicLit); ok {
					inc = bl.Value
				}
			}
			return true
		})
		seq0 := ""
		ast.Inspect(g.fn("NewCheck"), func(n ast.Node) bool {
			if kv, ok := n.(*ast.KeyValueExpr); ok {
				if id, ok := kv.Key.(*ast.Ident); ok && id.Name == "seq" {
					if bl, ok := kv.Value.(*ast.BasicLit); ok {
						seq0 = bl.Value
					}
				}
			}
			return true
		})
		if inc == "" || seq0 == "" {
			return fmt.Errorf("seq increment / initial value not found in check.go")
		}
		fmt.Fprintf(out, "def seqInc : Nat := %s\ndef seqInit : Nat := %s\n", inc, seq0)

		// needsDupCheck from tran.go
		tg := parseGo(filepath.Join(repo, "db19/tran.go"))
		fd := tg.fn("needsDupCheck")
		body, err := dupStmts(fd.Body.List)
		if err != nil {
			return err
		}
		out.WriteString("\n/-- `needsDupCheck(ix, rec)` as a function of `ix.Primary`, `ix.Mode == 'u'`,\n" +
			"`ix.ContainsKey` and `uniqueIndexEmpty(rec, ix.Ixspec)` -/\n")
		out.WriteString("def needsDupCheck (primary modeU containsKey uniqueEmpty : Bool) : Bool :=\n" + body + "\n")
		// uniqueIndexEmpty: a loop over is.Fields with an early return; translated to a recursive
		// function over the list "field i of the record is empty"
		ue, err := uniqueEmptyFn(tg.fn("uniqueIndexEmpty"))
		if err != nil {
			return err
		}
		out.WriteString("\n/-- `uniqueIndexEmpty(rec, is)` over `es[i] = (rec.GetRaw(is.Fields[i]) == \"\")` -/\n" + ue)
		out.WriteString("\nend Gsu.Gen.Check\n")
		return nil
	})
}

func dupStmts(list []ast.Stmt) (string, error) {
	if len(list) == 0 {
		return "", fmt.Errorf("needsDupCheck: falls off the end")
	}
	switch s := list[0].(type) {
	case *ast.ReturnStmt:
		return dupExpr(s.Results[0])
	case *ast.IfStmt:
		if s.Init != nil || s.Else != nil {
			return "", fmt.Errorf("needsDupCheck: unexpected if shape")
		}
		c, err := dupExpr(s.Cond)
		if err != nil {
			return "", err
		}
		th, err := dupStmts(s.Body.List)
		if err != nil {
			return "", err
		}
		el, err := dupStmts(list[1:])
		if err != nil {
			return "", err
		}
		return "  if " + c + " then " + strings.TrimSpace(th) + " else\n" + el, nil
	}
	return "", fmt.Errorf("needsDupCheck: unsupported statement %T", list[0])
}

func dupExpr(e ast.Expr) (string, error) {
	switch e := e.(type) {
	case *ast.Ident:
		if e.Name == "true" || e.Name == "false" {
			return "  " + e.Name, nil
		}
	case *ast.ParenExpr:
		x, err := dupExpr(e.X)
		return "(" + strings.TrimSpace(x) + ")", err
	case *ast.SelectorExpr:
		if id, ok := e.X.(*ast.Ident); ok && id.Name == "ix" {
			switch e.Sel.Name {
			case "Primary":
				return "primary", nil
			case "ContainsKey":
				return "containsKey", nil
			}
		}
	case *ast.UnaryExpr:
		if e.Op == token.NOT {
			x, err := dupExpr(e.X)
			return "(!" + strings.TrimSpace(x) + ")", err
		}
	case *ast.BinaryExpr:
		if e.Op == token.EQL {
			if se, ok := e.X.(*ast.SelectorExpr); ok && se.Sel.Name == "Mode" {
				if bl, ok := e.Y.(*ast.BasicLit); ok && bl.Value == "'u'" {
					return "modeU", nil
				}
			}
		}
		if e.Op == token.LAND || e.Op == token.LOR {
			x, err := dupExpr(e.X)
			if err != nil {
				return "", err
			}
			y, err := dupExpr(e.Y)
			if err != nil {
				return "", err
			}
			op := " && "
			if e.Op == token.LOR {
				op = " || "
			}
			return "(" + strings.TrimSpace(x) + op + strings.TrimSpace(y) + ")", nil
		}
	case *ast.CallExpr:
		if id, ok := e.Fun.(*ast.Ident); ok && id.Name == "uniqueIndexEmpty" && len(e.Args) == 2 {
			return "uniqueEmpty", nil
		}
	}
	return "", fmt.Errorf("needsDupCheck: unsupported expression at %v", e.Pos())
}

// uniqueEmptyFn expects: for _, f := range is.Fields { if rec.GetRaw(f) <op> "" { return <b1> } }; return <b2>
func uniqueEmptyFn(fd *ast.FuncDecl) (string, error) {
	bad := fmt.Errorf("uniqueIndexEmpty: unexpected shape")
	if len(fd.Body.List) != 2 {
		return "", bad
	}
	rs, ok := fd.Body.List[0].(*ast.RangeStmt)
	ret, ok2 := fd.Body.List[1].(*ast.ReturnStmt)
	if !ok || !ok2 || len(rs.Body.List) != 1 {
		return "", bad
	}
	sel, ok := rs.X.(*ast.SelectorExpr)
	if !ok || sel.Sel.Name != "Fields" {
		return "", bad
	}
	ifs, ok := rs.Body.List[0].(*ast.IfStmt)
	if !ok || ifs.Else != nil || ifs.Init != nil || len(ifs.Body.List) != 1 {
		return "", bad
	}
	be, ok := ifs.Cond.(*ast.BinaryExpr)
	if !ok || (be.Op != token.EQL && be.Op != token.NEQ) {
		return "", bad
	}
	call, ok := be.X.(*ast.CallExpr)
	lit, ok2 := be.Y.(*ast.BasicLit)
	if !ok || !ok2 || lit.Value != `""` {
		return "", bad
	}
	if se, ok := call.Fun.(*ast.SelectorExpr); !ok || se.Sel.Name != "GetRaw" {
		return "", bad
	}
	inner, ok := ifs.Body.List[0].(*ast.ReturnStmt)
	if !ok {
		return "", bad
	}
	b1, ok := inner.Results[0].(*ast.Ident)
	b2, ok2 := ret.Results[0].(*ast.Ident)
	if !ok || !ok2 {
		return "", bad
	}
	cond := "e"
	if be.Op == token.NEQ {
		cond = "(!e)"
	}
	return fmt.Sprintf("def uniqueIndexEmpty : List Bool → Bool\n  | [] => %s\n  | e :: r => if %s then %s else uniqueIndexEmpty r\n",
		b2.Name, cond, b1.Name), nil
}
