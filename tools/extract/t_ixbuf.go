package main

import (
	"bytes"
	"fmt"
	"go/ast"
	"go/printer"
	"go/token"
	"path/filepath"
	"strings"
)

// Ixbuf: what the C11 model takes from db19/index/ixbuf/ixbuf.go:
//   - the flag constants Update/Delete/Mask/Insert and the two shift amounts of
//     `ops := off1>>60 | off2>>62` (the statement must have literally that shape),
//   - the decision table of `Combine`: every `case` of `switch ops` classified into
//     (result shape, oldoff shape); an unknown shape fails the target,
//   - `goal` translated by the integer-function translator.
func init() {
	register("Ixbuf", func(repo string, out *strings.Builder) error {
		g := parseGo(filepath.Join(repo, "db19/index/ixbuf/ixbuf.go"))
		out.WriteString("namespace Gsu.Gen.Ixbuf\n\n")
		fmt.Fprintf(out, "def cUpdate : Nat := %s\n", g.intConst("Update"))
		fmt.Fprintf(out, "def cDelete : Nat := %s\n", g.intConst("Delete"))
		fmt.Fprintf(out, "def cInsert : Nat := %s\n", g.intConst("Insert"))
		fmt.Fprintf(out, "def cMask : Nat := %s\n", g.intConst("Mask"))

		cb := g.fn("Combine")
		// signature: (off1, off2 uint64) (result uint64, oldoff uint64)
		if got := ixbNames(cb.Type.Params); got != "off1,off2" {
			return fmt.Errorf("Combine: unexpected parameters %q", got)
		}
		if got := ixbNames(cb.Type.Results); got != "result,oldoff" {
			return fmt.Errorf("Combine: unexpected results %q", got)
		}
		if len(cb.Body.List) != 3 {
			return fmt.Errorf("Combine: expected `ops := …; switch ops {…}; return`, got %d statements", len(cb.Body.List))
		}
		// ops := off1>>60 | off2>>62
		as, ok := cb.Body.List[0].(*ast.AssignStmt)
		if !ok || as.Tok != token.DEFINE || len(as.Lhs) != 1 || len(as.Rhs) != 1 || ixbSrc(g, as.Lhs[0]) != "ops" {
			return fmt.Errorf("Combine: first statement is not `ops := …`")
		}
		or, ok := as.Rhs[0].(*ast.BinaryExpr)
		if !ok || or.Op != token.OR {
			return fmt.Errorf("Combine: ops is not `a | b`: %s", ixbSrc(g, as.Rhs[0]))
		}
		s1, err := ixbShift(g, or.X, "off1")
		if err != nil {
			return err
		}
		s2, err := ixbShift(g, or.Y, "off2")
		if err != nil {
			return err
		}
		fmt.Fprintf(out, "\n/-- `ops := off1>>%s | off2>>%s` -/\n", s1, s2)
		fmt.Fprintf(out, "def shift1 : Nat := %s\ndef shift2 : Nat := %s\n", s1, s2)

		sw, ok := cb.Body.List[1].(*ast.SwitchStmt)
		if !ok || sw.Init != nil || sw.Tag == nil || ixbSrc(g, sw.Tag) != "ops" {
			return fmt.Errorf("Combine: second statement is not `switch ops`")
		}
		if r, ok := cb.Body.List[2].(*ast.ReturnStmt); !ok || len(r.Results) != 0 {
			return fmt.Errorf("Combine: last statement is not a bare return")
		}

		out.WriteString("\n/-- shape of the `result` a case of `Combine` assigns -/\n")
		out.WriteString("inductive Res where\n  | maskOff2   -- off2 & Mask\n  | zero       -- 0\n  | off2       -- off2\n  | off2Update -- off2 | Update\n  | panic\n  deriving DecidableEq, Repr\n")
		out.WriteString("\n/-- shape of the `oldoff` a case of `Combine` assigns -/\n")
		out.WriteString("inductive Old where\n  | none       -- left 0\n  | maskOff1   -- off1 & Mask\n  deriving DecidableEq, Repr\n")

		var arms []string
		seen := map[string]bool{}
		sawDefault := false
		for _, c := range sw.Body.List {
			cc := c.(*ast.CaseClause)
			res, old, err := ixbClassify(g, cc.Body)
			if err != nil {
				return err
			}
			if cc.List == nil {
				if res != "panic" {
					return fmt.Errorf("Combine: default case does not panic")
				}
				sawDefault = true
				continue
			}
			for _, e := range cc.List {
				code, name, err := ixbCaseValue(g, e)
				if err != nil {
					return err
				}
				if seen[code] {
					return fmt.Errorf("Combine: duplicate case %s", code)
				}
				seen[code] = true
				arms = append(arms, fmt.Sprintf("  | %s => (.%s, .%s)  -- %s\n", code, res, old, name))
			}
		}
		if !sawDefault {
			return fmt.Errorf("Combine: no default case (unlisted ops would return 0,0)")
		}
		out.WriteString("\n/-- decision table of `Combine`: ops code ↦ (result shape, oldoff shape) -/\n")
		out.WriteString("def combineTab : Nat → Res × Old\n")
		for _, a := range arms {
			out.WriteString(a)
		}
		out.WriteString("  | _ => (.panic, .none)  -- default\n")

		g.emitIntFn(out, g.fn("goal"), "goal", nil)
		out.WriteString("\nend Gsu.Gen.Ixbuf\n")
		return nil
	})
}

func ixbSrc(g *goFile, n ast.Node) string {
	var b bytes.Buffer
	printer.Fprint(&b, g.fset, n)
	return b.String()
}

func ixbNames(fl *ast.FieldList) string {
	var ns []string
	if fl != nil {
		for _, f := range fl.List {
			if id, ok := f.Type.(*ast.Ident); !ok || id.Name != "uint64" {
				return "non-uint64"
			}
			for _, n := range f.Names {
				ns = append(ns, n.Name)
			}
		}
	}
	return strings.Join(ns, ",")
}

// ixbShift checks e is `<v> >> <int literal>` and returns the literal
func ixbShift(g *goFile, e ast.Expr, v string) (string, error) {
	b, ok := e.(*ast.BinaryExpr)
	if !ok || b.Op != token.SHR || ixbSrc(g, b.X) != v {
		return "", fmt.Errorf("Combine: expected `%s>>n`, got %s", v, ixbSrc(g, e))
	}
	lit, ok := b.Y.(*ast.BasicLit)
	if !ok || lit.Kind != token.INT {
		return "", fmt.Errorf("Combine: shift amount of %s is not a literal", v)
	}
	return lit.Value, nil
}

func ixbCaseValue(g *goFile, e ast.Expr) (code, name string, err error) {
	switch e := e.(type) {
	case *ast.Ident:
		v, ok := g.consts[e.Name]
		if !ok {
			return "", "", fmt.Errorf("Combine: case %s is not an integer constant", e.Name)
		}
		return v, e.Name, nil
	}
	return "", "", fmt.Errorf("Combine: case label %s is not a named constant", ixbSrc(g, e))
}

// ixbClassify maps a case body to (Res, Old) constructor names
func ixbClassify(g *goFile, body []ast.Stmt) (res, old string, err error) {
	old = "none"
	panics := false
	for _, s := range body {
		switch s := s.(type) {
		case *ast.ExprStmt:
			call, ok := s.X.(*ast.CallExpr)
			if !ok {
				return "", "", fmt.Errorf("Combine: unexpected statement %s", ixbSrc(g, s))
			}
			switch fn := ixbSrc(g, call.Fun); fn {
			case "panic":
				panics = true
			case "log.Println", "dbg.PrintStack":
				// diagnostics before the panic
			default:
				return "", "", fmt.Errorf("Combine: unexpected call %s", fn)
			}
		case *ast.AssignStmt:
			if s.Tok != token.ASSIGN || len(s.Lhs) != 1 || len(s.Rhs) != 1 {
				return "", "", fmt.Errorf("Combine: unexpected assignment %s", ixbSrc(g, s))
			}
			rhs := ixbSrc(g, s.Rhs[0])
			switch ixbSrc(g, s.Lhs[0]) {
			case "result":
				if res != "" {
					return "", "", fmt.Errorf("Combine: result assigned twice in one case")
				}
				switch rhs {
				case "off2 & Mask":
					res = "maskOff2"
				case "0":
					res = "zero"
				case "off2":
					res = "off2"
				case "off2 | Update":
					res = "off2Update"
				default:
					return "", "", fmt.Errorf("Combine: unknown result shape `%s`", rhs)
				}
			case "oldoff":
				if old != "none" {
					return "", "", fmt.Errorf("Combine: oldoff assigned twice in one case")
				}
				if rhs != "off1 & Mask" {
					return "", "", fmt.Errorf("Combine: unknown oldoff shape `%s`", rhs)
				}
				old = "maskOff1"
			default:
				return "", "", fmt.Errorf("Combine: assignment to %s", ixbSrc(g, s.Lhs[0]))
			}
		default:
			return "", "", fmt.Errorf("Combine: unexpected statement %s", ixbSrc(g, s))
		}
	}
	if panics {
		if res != "" || old != "none" {
			return "", "", fmt.Errorf("Combine: case both assigns and panics")
		}
		return "panic", "none", nil
	}
	if res == "" {
		return "", "", fmt.Errorf("Combine: case without `result = …` (would return 0)")
	}
	return res, old, nil
}
