package main

import (
	"fmt"
	"go/ast"
	"go/token"
	"path/filepath"
	"strings"
)

// Hamt: what the C15/C04 theorems need from util/hamt/hamt.go (and util/bits/bits.go):
//   - bitsPerItemNode, maskItem, maxChain
//   - hashbit (translated: shifts and masks over Nat)
//   - the level loop bound of Hamt.get (`shift < 32`) and the overflow tests of with/without
//     (`shift >= 32`)
//   - nmerge (translated by the shared integer translator; TrailingOnes gets a fixed Lean
//     definition after its Go body has been checked to be bits.TrailingZeros(^uint(x)))
//   - the decision structure of WriteChain/Write that the mirror copies: which comparison
//     selects the items of a chunk (`it.LastMod() >= lastMod`) and the `size == 0` early return
func init() {
	register("Hamt", func(repo string, out *strings.Builder) error {
		g := parseGo(filepath.Join(repo, "util/hamt/hamt.go"))
		b := parseGo(filepath.Join(repo, "util/bits/bits.go"))
		out.WriteString("namespace Gsu.Gen.Hamt\n\n")
		fmt.Fprintf(out, "def bitsPerItemNode : Nat := %s\n", g.intConst("bitsPerItemNode"))
		fmt.Fprintf(out, "def maskItem : Nat := %s\n", g.intConst("maskItem"))
		fmt.Fprintf(out, "def maxChain : Int := %s\n", g.intConst("maxChain"))

		// hashbit: return 1 << ((hash >> shift) & maskItem)
		hb := g.fn("hashbit")
		if len(hb.Body.List) != 1 {
			return fmt.Errorf("hashbit: expected a single return statement")
		}
		ret, ok := hb.Body.List[0].(*ast.ReturnStmt)
		if !ok {
			return fmt.Errorf("hashbit: expected a single return statement")
		}
		fmt.Fprintf(out, "\ndef hashbit (hash shift : Nat) : Nat :=\n  %s\n", hamtNatExpr(g, ret.Results[0]))

		// level loop of get: for shift := 0; shift < B; shift += bitsPerItemNode
		bound := ""
		ast.Inspect(hamtMethod(g, "Hamt", "get"), func(n ast.Node) bool {
			fs, ok := n.(*ast.ForStmt)
			if !ok || fs.Cond == nil {
				return true
			}
			be, ok := fs.Cond.(*ast.BinaryExpr)
			if !ok || be.Op != token.LSS {
				return true
			}
			if id, ok := be.X.(*ast.Ident); !ok || id.Name != "shift" {
				return true
			}
			post, ok := fs.Post.(*ast.AssignStmt)
			if !ok || post.Tok != token.ADD_ASSIGN || g.expr(post.Rhs[0]) != "("+g.intConst("bitsPerItemNode")+" : Int)" {
				return true
			}
			bound = hamtNatExpr(g, be.Y)
			return false
		})
		if bound == "" {
			return fmt.Errorf("Hamt.get: level loop `for shift := 0; shift < N; shift += bitsPerItemNode` not found")
		}
		fmt.Fprintf(out, "\n/-- `for shift := 0; shift < levelBound; shift += bitsPerItemNode` in Hamt.get -/\ndef levelBound : Nat := %s\n", bound)
		for _, m := range []string{"with", "without"} {
			found := ""
			ast.Inspect(hamtMethod(g, "node", m), func(n ast.Node) bool {
				is, ok := n.(*ast.IfStmt)
				if !ok {
					return true
				}
				be, ok := is.Cond.(*ast.BinaryExpr)
				if !ok || be.Op != token.GEQ {
					return true
				}
				if id, ok := be.X.(*ast.Ident); ok && id.Name == "shift" {
					found = hamtNatExpr(g, be.Y)
					return false
				}
				return true
			})
			if found == "" {
				return fmt.Errorf("node.%s: overflow test `shift >= N` not found", m)
			}
			fmt.Fprintf(out, "def overflowAt_%s : Nat := %s\n", m, found)
		}

		// TrailingOnes: checked shape, fixed definition
		to := b.fn("TrailingOnes")
		shape := ""
		if len(to.Body.List) == 1 {
			if r, ok := to.Body.List[0].(*ast.ReturnStmt); ok {
				shape = hamtExprString(r.Results[0])
			}
		}
		if shape != "bits.TrailingZeros(^uint(x))" {
			return fmt.Errorf("bits.TrailingOnes no longer is `return bits.TrailingZeros(^uint(x))`: %s", shape)
		}
		out.WriteString(`
/-- util/bits.TrailingOnes = bits.TrailingZeros(^uint(x)): number of trailing one bits of the
64-bit two's complement word (shape of the Go body checked by the extractor) -/
def trailingOnesFuel : Nat → Int → Int
  | 0, _ => 0
  | f+1, x => if x % 2 == 1 then 1 + trailingOnesFuel f (x / 2) else 0
def TrailingOnes (x : Int) : Int := trailingOnesFuel 64 x
`)
		g.emitIntFn(out, g.fn("nmerge"), "nmerge", nil)

		// WriteChain / Write decision structure
		facts := map[string]bool{}
		ast.Inspect(hamtMethod(g, "Hamt", "Write"), func(n ast.Node) bool {
			switch n := n.(type) {
			case *ast.IfStmt:
				facts["if "+hamtExprString(n.Cond)] = true
			}
			return true
		})
		for _, want := range []string{
			"if it.LastMod() >= lastMod",
			"if size == 0 && (prevOff == 0 || lastMod != All)",
			"if lastMod == All",
			"if lastMod != All || !it.IsTomb()",
			"if it.IsTomb()",
		} {
			if !facts[want] {
				return fmt.Errorf("Hamt.Write: expected `%s` (the chunk selection rule the model mirrors)", want)
			}
		}
		out.WriteString("\n/-- Hamt.Write selects `it.LastMod() >= lastMod`, skips tombstones only when lastMod == All,\nand returns 0 when nothing was selected (shape checked by the extractor) -/\ndef writeSelectsGE : Bool := true\n")
		wfacts := map[string]bool{}
		ast.Inspect(hamtMethod(g, "Chain", "WriteChain"), func(n ast.Node) bool {
			switch n := n.(type) {
			case *ast.IfStmt:
				wfacts["if "+hamtExprString(n.Cond)] = true
			case *ast.AssignStmt:
				wfacts[hamtExprString(n.Lhs[0])+" "+n.Tok.String()+" "+hamtExprString(n.Rhs[0])] = true
			}
			return true
		})
		for _, want := range []string{
			"merge := nmerge(no, c.Clock)",
			"oldest := c.Clock",
			"if merge > 0",
			"oldest = c.Ages[no-merge]",
			"if merge == no",
			"lastMod = All",
			"if no > 0 && merge < no",
			"prevOff = c.Offs[no-merge-1]",
			"n := no-merge",
		} {
			if !wfacts[want] {
				return fmt.Errorf("Chain.WriteChain: expected `%s`", want)
			}
		}
		// fix 21 present?
		fixed := wfacts["if no > 0 && merge == no"]
		fmt.Fprintf(out, "\n/-- WriteChain returns the empty chain when a flatten finds nothing live (fix of finding 21) -/\ndef flattenEmptyYieldsEmptyChain : Bool := %v\n", fixed)
		out.WriteString("\nend Gsu.Gen.Hamt\n")
		return nil
	})
}

// hamtNatExpr translates a Go integer expression with shifts and masks to a Lean Nat expression.
func hamtNatExpr(g *goFile, e ast.Expr) string {
	switch e := e.(type) {
	case *ast.BasicLit:
		return e.Value
	case *ast.Ident:
		if v, ok := g.consts[e.Name]; ok {
			return v
		}
		return e.Name
	case *ast.ParenExpr:
		return "(" + hamtNatExpr(g, e.X) + ")"
	case *ast.BinaryExpr:
		x, y := hamtNatExpr(g, e.X), hamtNatExpr(g, e.Y)
		switch e.Op {
		case token.SHL:
			return "(" + x + " <<< " + y + ")"
		case token.SHR:
			return "(" + x + " >>> " + y + ")"
		case token.AND:
			return "(" + x + " &&& " + y + ")"
		case token.ADD, token.MUL:
			return "(" + x + " " + e.Op.String() + " " + y + ")"
		}
	}
	panic(fmt.Sprintf("hamtNatExpr: unsupported %T", e))
}

func hamtExprString(e ast.Expr) string {
	switch e := e.(type) {
	case *ast.Ident:
		return e.Name
	case *ast.BasicLit:
		return e.Value
	case *ast.ParenExpr:
		return "(" + hamtExprString(e.X) + ")"
	case *ast.SelectorExpr:
		return hamtExprString(e.X) + "." + e.Sel.Name
	case *ast.UnaryExpr:
		return e.Op.String() + hamtExprString(e.X)
	case *ast.BinaryExpr:
		if e.Op == token.SUB || e.Op == token.ADD {
			return hamtExprString(e.X) + e.Op.String() + hamtExprString(e.Y)
		}
		return hamtExprString(e.X) + " " + e.Op.String() + " " + hamtExprString(e.Y)
	case *ast.CallExpr:
		var as []string
		for _, a := range e.Args {
			as = append(as, hamtExprString(a))
		}
		return hamtExprString(e.Fun) + "(" + strings.Join(as, ", ") + ")"
	case *ast.IndexExpr:
		return hamtExprString(e.X) + "[" + hamtExprString(e.Index) + "]"
	}
	return fmt.Sprintf("<%T>", e)
}

// hamtMethod is goFile.method for generic receivers (`func (ht Hamt[K, E]) get`).
func hamtMethod(g *goFile, recv, name string) *ast.FuncDecl {
	for _, d := range g.file.Decls {
		fd, ok := d.(*ast.FuncDecl)
		if !ok || fd.Name.Name != name || fd.Recv == nil || len(fd.Recv.List) == 0 {
			continue
		}
		t := fd.Recv.List[0].Type
		if s, ok := t.(*ast.StarExpr); ok {
			t = s.X
		}
		switch x := t.(type) {
		case *ast.IndexListExpr:
			t = x.X
		case *ast.IndexExpr:
			t = x.X
		}
		if id, ok := t.(*ast.Ident); ok && id.Name == recv {
			return fd
		}
	}
	panic("method " + recv + "." + name + " not found")
}
