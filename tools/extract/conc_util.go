package main

// Helpers shared by the M-CONC targets (Pq, Alloc, Ts): a function body as a flat list of
// normalised statement lines (go/printer, comments dropped), and call-site tables.

import (
	"bytes"
	"go/ast"
	"go/printer"
	"go/token"
	"strings"
)

// render prints an AST node on one line
func render(fset *token.FileSet, n ast.Node) string {
	var buf bytes.Buffer
	cfg := printer.Config{Mode: printer.RawFormat, Tabwidth: 1}
	if err := cfg.Fprint(&buf, fset, n); err != nil {
		panic(err)
	}
	return strings.Join(strings.Fields(buf.String()), " ")
}

// bodyLines returns the statements of fd's body, one simple statement or block header /
// closing brace per entry, in source order, without comments and indentation.
func bodyLines(g *goFile, fd *ast.FuncDecl) []string {
	var out []string
	var walk func(list []ast.Stmt)
	block := func(hdr string, b *ast.BlockStmt) {
		out = append(out, hdr+" {")
		walk(b.List)
		out = append(out, "}")
	}
	walk = func(list []ast.Stmt) {
		for _, s := range list {
			switch s := s.(type) {
			case *ast.ForStmt:
				h := "for"
				if s.Init != nil || s.Post != nil {
					h += " " + optRender(g.fset, s.Init) + "; " + optRenderE(g.fset, s.Cond) + "; " + optRender(g.fset, s.Post)
				} else if s.Cond != nil {
					h += " " + render(g.fset, s.Cond)
				}
				block(h, s.Body)
			case *ast.RangeStmt:
				h := "for "
				if s.Key != nil {
					h += render(g.fset, s.Key)
					if s.Value != nil {
						h += ", " + render(g.fset, s.Value)
					}
					h += " " + s.Tok.String() + " "
				}
				h += "range " + render(g.fset, s.X)
				block(h, s.Body)
			case *ast.IfStmt:
				var ifs func(s *ast.IfStmt, pre string)
				ifs = func(s *ast.IfStmt, pre string) {
					h := pre + "if "
					if s.Init != nil {
						h += render(g.fset, s.Init) + "; "
					}
					h += render(g.fset, s.Cond)
					out = append(out, h+" {")
					walk(s.Body.List)
					switch e := s.Else.(type) {
					case nil:
						out = append(out, "}")
					case *ast.BlockStmt:
						out = append(out, "} else {")
						walk(e.List)
						out = append(out, "}")
					case *ast.IfStmt:
						ifs(e, "} else ")
					}
				}
				ifs(s, "")
			case *ast.BlockStmt:
				block("", s)
			case *ast.DeclStmt:
				out = append(out, render(g.fset, s))
			default:
				out = append(out, render(g.fset, s))
			}
		}
	}
	walk(fd.Body.List)
	return out
}

func optRender(fset *token.FileSet, s ast.Stmt) string {
	if s == nil {
		return ""
	}
	return render(fset, s)
}

func optRenderE(fset *token.FileSet, e ast.Expr) string {
	if e == nil {
		return ""
	}
	return render(fset, e)
}

// leanStrList writes a Lean `List String` literal, one element per line
func leanStrList(name string, lines []string) string {
	var sb strings.Builder
	sb.WriteString("def " + name + " : List String := [\n")
	for i, l := range lines {
		sb.WriteString("  " + leanStr(l))
		if i+1 < len(lines) {
			sb.WriteString(",")
		}
		sb.WriteString("\n")
	}
	sb.WriteString("]\n")
	return sb.String()
}
