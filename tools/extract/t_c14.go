package main

// C14 targets: Record (core/record.go), Stor (db19/stor/putget.go, smalloffset.go),
// Mux (dbms/mux/readwrite.go). Constants, the straight-line integer functions tblength/mode,
// the byte-shift shape of the fixed-width writers/readers and the zig-zag bit expressions are
// re-read from the source; any other shape fails the target.

import (
	"fmt"
	"go/ast"
	"go/printer"
	"go/token"
	"path/filepath"
	"strconv"
	"strings"
)

// c14_fnNoRecv finds a top level function (not a method) by name
func (g *goFile) c14_fnNoRecv(name string) *ast.FuncDecl {
	for _, d := range g.file.Decls {
		if fd, ok := d.(*ast.FuncDecl); ok && fd.Name.Name == name && fd.Recv == nil {
			return fd
		}
	}
	panic("function " + name + " not found")
}

// c14_intVal evaluates a constant integer expression made of literals, named constants,
// + - * << and parentheses.
func (g *goFile) c14_intVal(e ast.Expr) int64 {
	switch e := e.(type) {
	case *ast.BasicLit:
		if e.Kind == token.INT {
			n, err := strconv.ParseInt(strings.ReplaceAll(e.Value, "_", ""), 0, 64)
			if err != nil {
				panic(err)
			}
			return n
		}
	case *ast.Ident:
		if v, ok := g.consts[e.Name]; ok {
			n, err := strconv.ParseInt(v, 10, 64)
			if err != nil {
				panic(err)
			}
			return n
		}
	case *ast.ParenExpr:
		return g.c14_intVal(e.X)
	case *ast.BinaryExpr:
		x, y := g.c14_intVal(e.X), g.c14_intVal(e.Y)
		switch e.Op {
		case token.ADD:
			return x + y
		case token.SUB:
			return x - y
		case token.MUL:
			return x * y
		case token.SHL:
			return x << uint(y)
		}
	}
	panic(fmt.Sprintf("not a constant integer expression: %T", e))
}

func c14_natList(xs []int64) string {
	var ss []string
	for _, x := range xs {
		ss = append(ss, strconv.FormatInt(x, 10))
	}
	return "[" + strings.Join(ss, ", ") + "]"
}

func c14_isIdent(e ast.Expr, name string) bool {
	id, ok := e.(*ast.Ident)
	return ok && id.Name == name
}

func c14_unparen(e ast.Expr) ast.Expr {
	for {
		p, ok := e.(*ast.ParenExpr)
		if !ok {
			return e
		}
		e = p.X
	}
}

// c14_byteShifts parses byte(v), byte(v>>8), … and returns the shift amounts
func (g *goFile) c14_byteShifts(args []ast.Expr, v string) []int64 {
	var out []int64
	for _, a := range args {
		c, ok := a.(*ast.CallExpr)
		if !ok || !c14_isIdent(c.Fun, "byte") || len(c.Args) != 1 {
			panic("expected byte(…)")
		}
		x := c14_unparen(c.Args[0])
		if c14_isIdent(x, v) {
			out = append(out, 0)
			continue
		}
		b, ok := x.(*ast.BinaryExpr)
		if !ok || b.Op != token.SHR || !c14_isIdent(c14_unparen(b.X), v) {
			panic("expected byte(" + v + " >> k)")
		}
		out = append(out, g.c14_intVal(b.Y))
	}
	return out
}

// c14_leTerms parses T(buf[i0]) + T(buf[i1])<<k1 + … and returns the (index, shift) pairs
func (g *goFile) c14_leTerms(e ast.Expr) (idx, sh []int64) {
	e = c14_unparen(e)
	if b, ok := e.(*ast.BinaryExpr); ok && b.Op == token.ADD {
		i1, s1 := g.c14_leTerms(b.X)
		i2, s2 := g.c14_leTerms(b.Y)
		return append(i1, i2...), append(s1, s2...)
	}
	shift := int64(0)
	if b, ok := e.(*ast.BinaryExpr); ok && b.Op == token.SHL {
		shift = g.c14_intVal(b.Y)
		e = c14_unparen(b.X)
	}
	c, ok := e.(*ast.CallExpr)
	if !ok || len(c.Args) != 1 {
		panic("expected conversion of buf[i]")
	}
	ix, ok := c.Args[0].(*ast.IndexExpr)
	if !ok {
		panic("expected buf[i]")
	}
	return []int64{g.c14_intVal(ix.Index)}, []int64{shift}
}

// c14_rangeGuard parses `if n < 0 || B <= n { panic }` / `if n < 0 || n >= B { panic }` and returns B
func (g *goFile) c14_rangeGuard(fd *ast.FuncDecl) int64 {
	ifs, ok := fd.Body.List[0].(*ast.IfStmt)
	if !ok {
		panic(fd.Name.Name + ": first statement is not the range guard")
	}
	or, ok := ifs.Cond.(*ast.BinaryExpr)
	if !ok || or.Op != token.LOR {
		panic(fd.Name.Name + ": guard is not a || b")
	}
	lo, ok := or.X.(*ast.BinaryExpr)
	if !ok || lo.Op != token.LSS || !c14_isIdent(lo.X, "n") || g.c14_intVal(lo.Y) != 0 {
		panic(fd.Name.Name + ": guard does not start with n < 0")
	}
	hi, ok := or.Y.(*ast.BinaryExpr)
	if !ok {
		panic(fd.Name.Name + ": bad upper guard")
	}
	if len(ifs.Body.List) != 1 {
		panic(fd.Name.Name + ": guard body")
	}
	if es, ok := ifs.Body.List[0].(*ast.ExprStmt); !ok || !c14_isCallTo(es.X, "panic") {
		panic(fd.Name.Name + ": guard does not panic")
	}
	switch {
	case hi.Op == token.LEQ && c14_isIdent(hi.Y, "n"):
		return g.c14_intVal(hi.X)
	case hi.Op == token.GEQ && c14_isIdent(hi.X, "n"):
		return g.c14_intVal(hi.Y)
	}
	panic(fd.Name.Name + ": upper guard shape")
}

func c14_isCallTo(e ast.Expr, name string) bool {
	c, ok := e.(*ast.CallExpr)
	return ok && c14_isIdent(c.Fun, name)
}

// c14_appendArgs finds `x = append(x, a, b, …)` (or return append(…)) in the body and returns a, b, …
func c14_appendArgs(fd *ast.FuncDecl) []ast.Expr {
	var found []ast.Expr
	n := 0
	ast.Inspect(fd.Body, func(nd ast.Node) bool {
		if c, ok := nd.(*ast.CallExpr); ok && c14_isIdent(c.Fun, "append") && !c.Ellipsis.IsValid() {
			found = c.Args[1:]
			n++
		}
		return true
	})
	if n != 1 {
		panic(fd.Name.Name + ": expected exactly one append(buf, bytes…)")
	}
	return found
}

// c14_allIntLits lists every integer literal of a function body in source order
func (g *goFile) c14_allIntLits(fd *ast.FuncDecl) []int64 {
	var out []int64
	ast.Inspect(fd.Body, func(nd ast.Node) bool {
		if l, ok := nd.(*ast.BasicLit); ok && l.Kind == token.INT {
			out = append(out, g.c14_intVal(l))
		}
		return true
	})
	return out
}

// bv translates a Go expression over int64/uint64 variables into a Lean BitVec 64 term.
// sign: 's' signed, 'u' unsigned, '?' untyped constant.
func (g *goFile) c14_bv(e ast.Expr, env map[string]byte) (string, byte) {
	switch e := e.(type) {
	case *ast.ParenExpr:
		return g.c14_bv(e.X, env)
	case *ast.Ident:
		s, ok := env[e.Name]
		if !ok {
			panic("bv: unknown variable " + e.Name)
		}
		return e.Name, s
	case *ast.BasicLit:
		return fmt.Sprintf("%d#64", g.c14_intVal(e)), '?'
	case *ast.CallExpr:
		if id, ok := e.Fun.(*ast.Ident); ok && len(e.Args) == 1 {
			x, _ := g.c14_bv(e.Args[0], env)
			switch id.Name {
			case "int64":
				return x, 's'
			case "uint64":
				return x, 'u'
			}
		}
	case *ast.BinaryExpr:
		switch e.Op {
		case token.SHL, token.SHR:
			x, s := g.c14_bv(e.X, env)
			k := g.c14_intVal(e.Y)
			if e.Op == token.SHL {
				return fmt.Sprintf("(%s <<< %d)", x, k), s
			}
			switch s {
			case 's':
				return fmt.Sprintf("(BitVec.sshiftRight %s %d)", x, k), s
			case 'u':
				return fmt.Sprintf("(%s >>> %d)", x, k), s
			}
			panic("bv: >> on untyped constant")
		case token.XOR, token.AND, token.OR:
			x, sx := g.c14_bv(e.X, env)
			y, sy := g.c14_bv(e.Y, env)
			s := sx
			if s == '?' {
				s = sy
			}
			if sx != '?' && sy != '?' && sx != sy {
				panic("bv: mixed signedness")
			}
			op := map[token.Token]string{token.XOR: "^^^", token.AND: "&&&", token.OR: "|||"}[e.Op]
			return fmt.Sprintf("(%s %s %s)", x, op, y), s
		}
	}
	panic(fmt.Sprintf("bv: unsupported expression %T", e))
}

// c14_assignsTo returns the right hand sides of the simple assignments `name = e` / `name := e`
// directly in the body (in order), and the token of each.
func c14_assignsTo(fd *ast.FuncDecl, name string) []ast.Expr {
	var out []ast.Expr
	for _, s := range fd.Body.List {
		if as, ok := s.(*ast.AssignStmt); ok && len(as.Lhs) == 1 && c14_isIdent(as.Lhs[0], name) &&
			(as.Tok == token.ASSIGN || as.Tok == token.DEFINE) {
			out = append(out, as.Rhs[0])
		}
	}
	return out
}

func init() {
	register("RecEnc", func(repo string, out *strings.Builder) error {
		g := parseGo(filepath.Join(repo, "core/record.go"))
		out.WriteString("namespace Gsu.Gen.RecEnc\n\n")
		for _, c := range []string{"type8", "type16", "type32", "sizeMask", "hdrlen", "MaxValues", "maxRecordLen"} {
			fmt.Fprintf(out, "def c_%s : Nat := %s\n", c, g.intConst(c))
		}
		g.emitIntFn(out, g.c14_fnNoRecv("tblength"), "tblength", nil)
		g.emitIntFn(out, g.c14_fnNoRecv("mode"), "mode", nil)
		// the guards of Build: `len(b.vals) > MaxValues` and `length > maxRecordLen`, in this order
		bd := g.method("RecordBuilder", "Build")
		var guards []string
		for _, s := range bd.Body.List {
			ifs, ok := s.(*ast.IfStmt)
			if !ok {
				continue
			}
			c, ok := ifs.Cond.(*ast.BinaryExpr)
			if !ok {
				continue
			}
			if len(ifs.Body.List) == 1 {
				if es, ok := ifs.Body.List[0].(*ast.ExprStmt); ok && c14_isCallTo(es.X, "panic") {
					if id, ok := c.Y.(*ast.Ident); ok {
						guards = append(guards, c.Op.String()+" "+id.Name)
					}
				}
			}
		}
		fmt.Fprintf(out, "\ndef buildGuards : List String := [")
		for i, s := range guards {
			if i > 0 {
				out.WriteString(", ")
			}
			out.WriteString(leanStr(s))
		}
		out.WriteString("]\n")
		out.WriteString("\nend Gsu.Gen.RecEnc\n")
		return nil
	})

	register("StorEnc", func(repo string, out *strings.Builder) error {
		g := parseGo(filepath.Join(repo, "db19/stor/putget.go"))
		out.WriteString("namespace Gsu.Gen.StorEnc\n\n")
		for k := 1; k <= 5; k++ {
			put := g.method("Writer", fmt.Sprintf("Put%d", k))
			fmt.Fprintf(out, "def put%dBound : Nat := %d\n", k, g.c14_rangeGuard(put))
			fmt.Fprintf(out, "def put%dShifts : List Nat := %s\n", k, c14_natList(g.c14_byteShifts(c14_appendArgs(put), "n")))
			get := g.method("Reader", fmt.Sprintf("Get%d", k))
			rhs := c14_assignsTo(get, "n")
			if len(rhs) != 1 {
				return fmt.Errorf("Get%d: expected one assignment to n", k)
			}
			idx, sh := g.c14_leTerms(rhs[0])
			fmt.Fprintf(out, "def get%dIdx : List Nat := %s\n", k, c14_natList(idx))
			fmt.Fprintf(out, "def get%dShifts : List Nat := %s\n", k, c14_natList(sh))
			// r.buf = r.buf[k:]
			adv := int64(-1)
			for _, s := range get.Body.List {
				if as, ok := s.(*ast.AssignStmt); ok && len(as.Lhs) == 1 {
					if se, ok := as.Rhs[0].(*ast.SliceExpr); ok && se.High == nil && se.Low != nil {
						adv = g.c14_intVal(se.Low)
					}
				}
			}
			fmt.Fprintf(out, "def get%dAdvance : Nat := %d\n", k, adv)
		}
		// PutStr: Put2(len(s)) then append(s...): literal shape check
		ps := g.method("Writer", "PutStr")
		if len(ps.Body.List) != 3 || !strings.Contains(c14_exprString(g, ps.Body.List[0]), "w.Put2(len(s))") {
			return fmt.Errorf("PutStr no longer is Put2(len(s)); append(s...)")
		}
		s := parseGo(filepath.Join(repo, "db19/stor/smalloffset.go"))
		fmt.Fprintf(out, "def maxSmallOffset : Nat := %s\n", s.intConst("MaxSmallOffset"))
		fmt.Fprintf(out, "def smallOffsetLen : Nat := %s\n", s.intConst("SmallOffsetLen"))
		fmt.Fprintf(out, "def appendSmallShifts : List Nat := %s\n",
			c14_natList(s.c14_byteShifts(c14_appendArgs(s.c14_fnNoRecv("AppendSmallOffset")), "offset")))
		// WriteSmallOffset: buf[i] = byte(offset >> k)
		var wi, ws []int64
		for _, st := range s.c14_fnNoRecv("WriteSmallOffset").Body.List {
			as, ok := st.(*ast.AssignStmt)
			if !ok || len(as.Lhs) != 1 {
				return fmt.Errorf("WriteSmallOffset: unexpected statement")
			}
			ix, ok := as.Lhs[0].(*ast.IndexExpr)
			if !ok {
				return fmt.Errorf("WriteSmallOffset: expected buf[i] = …")
			}
			wi = append(wi, s.c14_intVal(ix.Index))
			ws = append(ws, s.c14_byteShifts(as.Rhs, "offset")...)
		}
		fmt.Fprintf(out, "def writeSmallIdx : List Nat := %s\n", c14_natList(wi))
		fmt.Fprintf(out, "def writeSmallShifts : List Nat := %s\n", c14_natList(ws))
		rd := s.c14_fnNoRecv("ReadSmallOffset")
		ret, ok := rd.Body.List[0].(*ast.ReturnStmt)
		if !ok {
			return fmt.Errorf("ReadSmallOffset: expected a single return")
		}
		idx, sh := s.c14_leTerms(ret.Results[0])
		fmt.Fprintf(out, "def readSmallIdx : List Nat := %s\n", c14_natList(idx))
		fmt.Fprintf(out, "def readSmallShifts : List Nat := %s\n", c14_natList(sh))
		out.WriteString("\nend Gsu.Gen.StorEnc\n")
		return nil
	})

	register("MuxEnc", func(repo string, out *strings.Builder) error {
		g := parseGo(filepath.Join(repo, "dbms/mux/readwrite.go"))
		out.WriteString("namespace Gsu.Gen.MuxEnc\n\n")
		fmt.Fprintf(out, "def maxio : Nat := %s\n", g.intConst("maxio"))
		fmt.Fprintf(out, "def bufSize : Nat := %s\n", g.intConst("bufSize"))
		put := g.method("WriteBuf", "PutInt64")
		zs := c14_assignsTo(put, "i")
		if len(zs) != 1 {
			return fmt.Errorf("PutInt64: expected one assignment to i (zig zag)")
		}
		z, _ := g.c14_bv(zs[0], map[string]byte{"i": 's'})
		fmt.Fprintf(out, "\n/-- `i = %s` -/\ndef zigzag (i : BitVec 64) : BitVec 64 :=\n  %s\n", c14_exprString(g, zs[0]), z)
		get := g.method("ReadBuf", "GetInt64")
		us := c14_assignsTo(get, "tmp")
		if len(us) != 2 {
			return fmt.Errorf("GetInt64: expected two assignments to tmp (zig zag decode)")
		}
		env := map[string]byte{"n": 'u', "tmp": 's'}
		u1, _ := g.c14_bv(us[0], env)
		u2, _ := g.c14_bv(us[1], env)
		last, ok := get.Body.List[len(get.Body.List)-1].(*ast.ReturnStmt)
		if !ok || !c14_isIdent(last.Results[0], "tmp") {
			return fmt.Errorf("GetInt64: does not return tmp")
		}
		fmt.Fprintf(out, "\ndef unzigzag (n : BitVec 64) : BitVec 64 :=\n  let tmp := %s\n  let tmp := %s\n  tmp\n", u1, u2)
		// the integer literals of the two varint loops, in source order
		fmt.Fprintf(out, "\ndef putInt64Lits : List Nat := %s\n", c14_natList(g.c14_allIntLits(put)))
		fmt.Fprintf(out, "def getInt64Lits : List Nat := %s\n", c14_natList(g.c14_allIntLits(get)))
		// PutStr_: limit(len) ; putInt(len) ; WriteString
		ps := g.method("WriteBuf", "PutStr_")
		var calls []string
		for _, st := range ps.Body.List {
			calls = append(calls, c14_exprString(g, st))
		}
		fmt.Fprintf(out, "def putStrBody : List String := [")
		for i, c := range calls {
			if i > 0 {
				out.WriteString(", ")
			}
			out.WriteString(leanStr(c))
		}
		out.WriteString("]\n")
		out.WriteString("\nend Gsu.Gen.MuxEnc\n")
		return nil
	})
}

// c14_exprString prints the source text of a node
func c14_exprString(g *goFile, n ast.Node) string {
	var sb strings.Builder
	if err := printer.Fprint(&sb, g.fset, n); err != nil {
		panic(err)
	}
	return strings.Join(strings.Fields(sb.String()), " ")
}
