package main

import (
	"fmt"
	"go/ast"
	"go/constant"
	"go/token"
	"path/filepath"
	"strings"
)

// NumOps (C26): the smi range constants of core/suint.go and the overflow-checked int helpers
// of core/ops.go (addInt, subInt, mulInt), translated with Go's wrapping int semantics made
// explicit: every + - * / on ints is emitted as `wrap64 (…)`, conditions as `decide (Prop)`.
// The helpers do not exist before fixes/05-int-overflow.patch: then the target fails.

func wexpr(e ast.Expr) string { // int valued
	switch e := e.(type) {
	case *ast.BasicLit:
		if e.Kind == token.INT {
			return constant.MakeFromLiteral(e.Value, token.INT, 0).ExactString()
		}
	case *ast.Ident:
		return e.Name
	case *ast.ParenExpr:
		return wexpr(e.X)
	case *ast.SelectorExpr:
		if id, ok := e.X.(*ast.Ident); ok && id.Name == "math" {
			switch e.Sel.Name {
			case "MinInt", "MinInt64":
				return "minInt64"
			case "MaxInt", "MaxInt64":
				return "maxInt64"
			}
		}
	case *ast.UnaryExpr:
		if e.Op == token.SUB {
			if l, ok := e.X.(*ast.BasicLit); ok {
				return "-" + wexpr(l)
			}
			return "wrap64 (-" + wexpr(e.X) + ")"
		}
	case *ast.BinaryExpr:
		x, y := wexpr(e.X), wexpr(e.Y)
		switch e.Op {
		case token.ADD, token.SUB, token.MUL:
			return "wrap64 (" + x + " " + e.Op.String() + " " + y + ")"
		case token.QUO:
			return "wrap64 (Int.tdiv " + atom(x) + " " + atom(y) + ")"
		}
	}
	panic(fmt.Sprintf("NumOps: unsupported int expression %T", e))
}

func atom(s string) string {
	if strings.ContainsAny(s, " -") {
		return "(" + s + ")"
	}
	return s
}

func isBoolExpr(e ast.Expr) bool {
	switch e := e.(type) {
	case *ast.ParenExpr:
		return isBoolExpr(e.X)
	case *ast.UnaryExpr:
		return e.Op == token.NOT
	case *ast.BinaryExpr:
		switch e.Op {
		case token.LSS, token.GTR, token.LEQ, token.GEQ, token.EQL, token.NEQ, token.LAND, token.LOR:
			return true
		}
	}
	return false
}

func wprop(e ast.Expr) string { // Prop valued
	switch e := e.(type) {
	case *ast.ParenExpr:
		return wprop(e.X)
	case *ast.UnaryExpr:
		if e.Op == token.NOT {
			return "¬(" + wprop(e.X) + ")"
		}
	case *ast.BinaryExpr:
		switch e.Op {
		case token.LAND:
			return wprop(e.X) + " ∧ " + wprop(e.Y)
		case token.LSS, token.GTR, token.LEQ, token.GEQ:
			op := map[token.Token]string{token.LSS: "<", token.GTR: ">", token.LEQ: "≤", token.GEQ: "≥"}[e.Op]
			return wexpr(e.X) + " " + op + " " + wexpr(e.Y)
		case token.EQL:
			if isBoolExpr(e.X) {
				return wprop(e.X) + " ↔ " + wprop(e.Y)
			}
			return wexpr(e.X) + " = " + wexpr(e.Y)
		}
	}
	panic(fmt.Sprintf("NumOps: unsupported condition %T", e))
}

func init() {
	register("NumOps", func(repo string, out *strings.Builder) error {
		gi := parseGo(filepath.Join(repo, "core/suint.go"))
		out.WriteString("import Gsu.Model.Dnum\nnamespace Gsu.Gen.NumOps\nopen Gsu.Dnum\n\n")
		fmt.Fprintf(out, "def minSuInt : Int := %s\n", gi.intConst("MinSuInt"))
		fmt.Fprintf(out, "def maxSuInt : Int := %s\n", gi.intConst("MaxSuInt"))
		g := parseGo(filepath.Join(repo, "core/ops.go"))
		for _, name := range []string{"addInt", "subInt", "mulInt"} {
			var fd *ast.FuncDecl
			for _, d := range g.file.Decls {
				if f, ok := d.(*ast.FuncDecl); ok && f.Name.Name == name && f.Recv == nil {
					fd = f
				}
			}
			if fd == nil {
				return fmt.Errorf("core/ops.go has no overflow-checked helper %s (int fast paths wrap around: finding 5)", name)
			}
			body := fd.Body.List
			fmt.Fprintf(out, "\ndef %s (x y : Int) : Int × Bool :=\n", name)
			ind := "  "
			// optional leading `if x == 0 { return 0, true }`
			if is, ok := body[0].(*ast.IfStmt); ok {
				ret := is.Body.List[0].(*ast.ReturnStmt)
				if len(is.Body.List) != 1 || is.Else != nil || len(ret.Results) != 2 {
					return fmt.Errorf("%s: unexpected if shape", name)
				}
				b, ok := ret.Results[1].(*ast.Ident)
				if !ok || (b.Name != "true" && b.Name != "false") {
					return fmt.Errorf("%s: unexpected early return", name)
				}
				fmt.Fprintf(out, "  if %s then (%s, %s)\n  else\n", wprop(is.Cond), wexpr(ret.Results[0]), b.Name)
				ind = "    "
				body = body[1:]
			}
			if len(body) != 2 {
				return fmt.Errorf("%s: expected `z := …; return z, cond`", name)
			}
			as, ok1 := body[0].(*ast.AssignStmt)
			ret, ok2 := body[1].(*ast.ReturnStmt)
			if !ok1 || !ok2 || len(as.Lhs) != 1 || len(ret.Results) != 2 {
				return fmt.Errorf("%s: expected `z := …; return z, cond`", name)
			}
			z := as.Lhs[0].(*ast.Ident).Name
			fmt.Fprintf(out, "%slet %s := %s\n%s(%s, decide (%s))\n", ind, z, wexpr(as.Rhs[0]), ind, wexpr(ret.Results[0]), wprop(ret.Results[1]))
		}
		// the guards of the remaining fast paths must mention the int limits
		src := g.fset.File(g.file.Pos())
		_ = src
		out.WriteString("\nend Gsu.Gen.NumOps\n")
		return nil
	})
}
