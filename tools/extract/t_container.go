package main

import (
	"fmt"
	"go/ast"
	"path/filepath"
	"regexp"
	"sort"
	"strings"
)

// Container (C36): what the container theorems take from core/ops.go and core/suobject.go:
//   - prepFrom / prepTo / prepLen (range slicing index arithmetic), translated mechanically
//   - obSizeLimit
//   - guardTable: for every exported *SuObject method whether it (transitively, through
//     unexported methods of SuObject) assigns ob.list / ob.named / ob.defval or calls a mutating
//     method of ob.named, and whether it (transitively) calls mustBeMutable. The theorem
//     `gen_mutators_guarded` is `decide` over this table.
func init() {
	register("Container", func(repo string, out *strings.Builder) error {
		ops := parseGo(filepath.Join(repo, "core/ops.go"))
		out.WriteString("namespace Gsu.Gen.Container\n")
		// `from` and `len` are Lean keywords / confusing: rename the Go parameters
		ren := func(s string) string {
			s = regexp.MustCompile(`\bfrom\b`).ReplaceAllString(s, "frm")
			s = regexp.MustCompile(`\blen\b`).ReplaceAllString(s, "n")
			return s
		}
		for _, f := range []string{"prepFrom", "prepTo", "prepLen"} {
			var sb strings.Builder
			ops.emitIntFn(&sb, ops.fn(f), f, nil)
			out.WriteString(ren(sb.String()))
		}
		ob := parseGo(filepath.Join(repo, "core/suobject.go"))
		fmt.Fprintf(out, "\ndef obSizeLimit : Nat := %s\n", ob.intConst("obSizeLimit"))

		// ---- guard table
		type info struct {
			writes, guards bool
			calls          []string
		}
		methods := map[string]*info{}
		var exported []string
		mutating := map[string]bool{"Put": true, "Del": true, "Clear": true}
		for _, d := range ob.file.Decls {
			fd, ok := d.(*ast.FuncDecl)
			if !ok || fd.Recv == nil || len(fd.Recv.List) == 0 || fd.Body == nil {
				continue
			}
			t := fd.Recv.List[0].Type
			if s, ok := t.(*ast.StarExpr); ok {
				t = s.X
			}
			if id, ok := t.(*ast.Ident); !ok || id.Name != "SuObject" {
				continue
			}
			if len(fd.Recv.List[0].Names) == 0 {
				continue
			}
			recv := fd.Recv.List[0].Names[0].Name
			in := &info{}
			methods[fd.Name.Name] = in
			if fd.Name.IsExported() {
				exported = append(exported, fd.Name.Name)
			}
			isField := func(e ast.Expr, names ...string) bool {
				// ob.list, ob.list[i], ob.list[i:j]
				for {
					switch x := e.(type) {
					case *ast.IndexExpr:
						e = x.X
						continue
					case *ast.SliceExpr:
						e = x.X
						continue
					}
					break
				}
				se, ok := e.(*ast.SelectorExpr)
				if !ok {
					return false
				}
				id, ok := se.X.(*ast.Ident)
				if !ok || id.Name != recv {
					return false
				}
				for _, n := range names {
					if se.Sel.Name == n {
						return true
					}
				}
				return false
			}
			ast.Inspect(fd.Body, func(n ast.Node) bool {
				switch x := n.(type) {
				case *ast.AssignStmt:
					for _, l := range x.Lhs {
						if isField(l, "list", "named", "defval") {
							in.writes = true
						}
					}
				case *ast.CallExpr:
					if se, ok := x.Fun.(*ast.SelectorExpr); ok {
						if id, ok := se.X.(*ast.Ident); ok && id.Name == recv {
							if se.Sel.Name == "mustBeMutable" {
								in.guards = true
							}
							in.calls = append(in.calls, se.Sel.Name)
						}
						if isField(se.X, "named") && mutating[se.Sel.Name] {
							in.writes = true
						}
					}
					// slices.SortStableFunc(ob.list, …), sort.SliceStable(ob.list, …): in-place
					if se, ok := x.Fun.(*ast.SelectorExpr); ok && len(x.Args) > 0 &&
						(se.Sel.Name == "SortStableFunc" || se.Sel.Name == "SliceStable") &&
						isField(x.Args[0], "list") {
						in.writes = true
					}
				}
				return true
			})
		}
		for _, need := range []string{"mustBeMutable", "startMutate", "set", "add", "migrate", "Sort", "Unique", "Insert", "Delete", "Erase"} {
			if methods[need] == nil {
				return fmt.Errorf("SuObject.%s not found in suobject.go", need)
			}
		}
		// transitive closure over unexported callees
		var reach func(m string, seen map[string]bool, f func(*info))
		reach = func(m string, seen map[string]bool, f func(*info)) {
			if seen[m] || methods[m] == nil {
				return
			}
			seen[m] = true
			f(methods[m])
			for _, c := range methods[m].calls {
				if c != "" && !ast.IsExported(c) {
					reach(c, seen, f)
				}
			}
		}
		sort.Strings(exported)
		out.WriteString("\n/-- (method, writes list/named/defval transitively, reaches mustBeMutable transitively) -/\n")
		out.WriteString("def guardTable : List (String × Bool × Bool) := [\n")
		for i, m := range exported {
			w, g := false, false
			reach(m, map[string]bool{}, func(in *info) {
				w = w || in.writes
				g = g || in.guards
			})
			sep := ","
			if i == len(exported)-1 {
				sep = ""
			}
			fmt.Fprintf(out, "  (%q, %v, %v)%s\n", m, w, g, sep)
		}
		out.WriteString("]\n\nend Gsu.Gen.Container\n")
		return nil
	})
}
