package main

import (
	"fmt"
	"go/ast"
	"go/token"
	"path/filepath"
	"strconv"
	"strings"
)

// Ascii: util/ascii/ascii.go translated function by function (byte predicates, case
// conversion, Digit) to Lean defs over Int. Used by C38 (string helpers) and by the lexer
// mirror (C31, C32): theorems `gen_ascii_*` tie them to Gsu.Model.Ascii for all 256 bytes.
//
// Pre-pass on the AST (this file only): character literals become integer literals and
// `switch c { case 'a', 'b': … }` becomes a tagless switch, so that the shared straight-line
// translator can handle them. Anything else unexpected makes the translator panic.

// charLitsToInts rewrites 'x' literals into their integer value.
func charLitsToInts(n ast.Node) {
	ast.Inspect(n, func(x ast.Node) bool {
		if bl, ok := x.(*ast.BasicLit); ok && bl.Kind == token.CHAR {
			r, _, _, err := strconv.UnquoteChar(bl.Value[1:len(bl.Value)-1], '\'')
			if err != nil {
				panic("bad char literal " + bl.Value)
			}
			bl.Kind = token.INT
			bl.Value = strconv.Itoa(int(r))
		}
		return true
	})
}

// untagSwitches rewrites `switch tag { case a, b: }` into `switch { case tag == a, tag == b: }`.
func untagSwitches(n ast.Node) {
	ast.Inspect(n, func(x ast.Node) bool {
		sw, ok := x.(*ast.SwitchStmt)
		if !ok || sw.Tag == nil {
			return true
		}
		tag, ok := sw.Tag.(*ast.Ident)
		if !ok || sw.Init != nil {
			panic("switch tag is not a plain identifier")
		}
		for _, c := range sw.Body.List {
			cc := c.(*ast.CaseClause)
			for i, e := range cc.List {
				cc.List[i] = &ast.BinaryExpr{X: ast.NewIdent(tag.Name), Op: token.EQL, Y: e}
			}
		}
		sw.Tag = nil
		return true
	})
}

func init() {
	register("Ascii", func(repo string, out *strings.Builder) error {
		g := parseGo(filepath.Join(repo, "util/ascii/ascii.go"))
		charLitsToInts(g.file)
		untagSwitches(g.file)
		out.WriteString("namespace Gsu.Gen.Ascii\n\n")
		// Go `byte(x)` conversions (none today) would show up as a call: keep them total
		out.WriteString("def byte (x : Int) : Int := x % 256\n")
		want := []string{"IsLower", "IsUpper", "ToLower", "ToUpper", "IsLetter", "IsDigit",
			"IsSpace", "IsHexDigit", "Digit"}
		for _, name := range want {
			fd := g.fn(name)
			g.emitIntFn(out, fd, name, nil)
		}
		// every exported function of the file must be one we translated, so that a new
		// helper the lexer starts to use does not go unnoticed
		for _, d := range g.file.Decls {
			if fd, ok := d.(*ast.FuncDecl); ok && fd.Recv == nil && ast.IsExported(fd.Name.Name) {
				found := false
				for _, w := range want {
					found = found || w == fd.Name.Name
				}
				if !found {
					return fmt.Errorf("ascii.go has a function %s the extractor does not know", fd.Name.Name)
				}
			}
		}
		out.WriteString("\nend Gsu.Gen.Ascii\n")
		return nil
	})
}
