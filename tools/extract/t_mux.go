package main

// Mux (C40): layout constants of dbms/mux regenerated: HeaderSize, maxSize, bufSize, the header
// field offsets used by conn.putHdr (writer) and conn.reader (reader), the final-byte values.

import (
	"fmt"
	"go/ast"
	"os"
	"path/filepath"
	"regexp"
	"strings"
)

func init() {
	register("Mux", func(repo string, out *strings.Builder) error {
		mpath := filepath.Join(repo, "dbms/mux/mux.go")
		g := parseGo(mpath)
		rw := parseGo(filepath.Join(repo, "dbms/mux/readwrite.go"))
		src, err := os.ReadFile(mpath)
		if err != nil {
			return err
		}
		text := func(n ast.Node) string {
			return string(src[g.fset.Position(n.Pos()).Offset:g.fset.Position(n.End()).Offset])
		}
		nows := func(s string) string { return strings.Join(strings.Fields(s), "") }
		find := func(body, re, what string) string {
			m := regexp.MustCompile(re).FindStringSubmatch(body)
			if m == nil {
				panic("dbms/mux/mux.go: " + what + " not found (" + re + ")")
			}
			if len(m) > 1 {
				return m[1]
			}
			return ""
		}
		off := func(s string) string {
			if s == "" {
				return "0"
			}
			return s
		}
		ph := nows(text(g.method("conn", "putHdr").Body))
		wSize := off(find(ph, `binary\.BigEndian\.PutUint32\(buf(?:\[(\d+):\])?,uint32\(size\)\)`, "putHdr size"))
		wId := off(find(ph, `binary\.BigEndian\.PutUint32\(buf(?:\[(\d+):\])?,id\)`, "putHdr id"))
		wFinal := find(ph, `iffinal\{buf\[(\d+)\]=1\}else\{buf\[\d+\]=0\}`, "putHdr final")
		rd := nows(text(g.method("conn", "reader").Body))
		rSize := off(find(rd, `size:=int\(binary\.BigEndian\.Uint32\(hdr(?:\[(\d+):\])?\)\)`, "reader size"))
		rId := off(find(rd, `sessionId:=binary\.BigEndian\.Uint32\(hdr(?:\[(\d+):\])?\)`, "reader id"))
		rFinal := find(rd, `ifhdr\[(\d+)\]==0\{`, "reader final==0")
		find(rd, `\}elseifhdr\[`+rFinal+`\]==1\{delete\(partial,sessionId\)`, "reader final==1 delivers")
		find(rd, `ifi\+size>maxSize\{`, "reader size check on the accumulated message")
		find(rd, `io\.ReadFull\(c\.rw,hdr\)`, "reader ReadFull header")
		// a completed message with no bytes: the unchanged code asserts buf != nil (and dies);
		// the repaired code passes an empty non-nil message on (nil means "closing" to handlers)
		assertNil := ""
		switch {
		case strings.Contains(rd, "assert.That(buf!=nil)"):
			assertNil = "true"
		case strings.Contains(rd, "ifbuf==nil{buf=[]byte{}"):
			assertNil = "false"
		default:
			panic("dbms/mux/mux.go: reader: neither the nil-buffer assert nor the empty-message repair found")
		}
		out.WriteString("namespace Gsu.Gen.Mux\n\n")
		fmt.Fprintf(out, "def headerSize : Nat := %s\n", g.intConst("HeaderSize"))
		fmt.Fprintf(out, "def maxSize : Nat := %s\n", g.intConst("maxSize"))
		fmt.Fprintf(out, "def bufSize : Nat := %s\n", rw.intConst("bufSize"))
		fmt.Fprintf(out, "def maxio : Nat := %s\n", rw.intConst("maxio"))
		fmt.Fprintf(out, "def wSizeOff : Nat := %s\ndef wIdOff : Nat := %s\ndef wFinalOff : Nat := %s\n", wSize, wId, wFinal)
		fmt.Fprintf(out, "def rSizeOff : Nat := %s\ndef rIdOff : Nat := %s\ndef rFinalOff : Nat := %s\n", rSize, rId, rFinal)
		fmt.Fprintf(out, "/-- the reader asserts that a completed message's buffer is not nil -/\ndef readerAssertsNonNil : Bool := %s\n", assertNil)
		out.WriteString("\nend Gsu.Gen.Mux\n")
		return nil
	})
}
