package main

import (
	"fmt"
	"hash/crc32"
	"os"
	"path/filepath"
	"strings"
)

// StateRec: layout constants of the database state record (db19/state.go writeState/readState):
// magic1, magic2, dateSize, stor.SmallOffsetLen, cksum.Len, and the crc polynomial cksum uses.
func init() {
	register("StateRec", func(repo string, out *strings.Builder) error {
		g := parseGo(filepath.Join(repo, "db19/state.go"))
		so := parseGo(filepath.Join(repo, "db19/stor/smalloffset.go"))
		ck := parseGo(filepath.Join(repo, "util/cksum/cksum.go"))
		out.WriteString("namespace Gsu.Gen.StateRec\n\n")
		for _, c := range []string{"magic1", "magic2"} {
			v, ok := g.sconst[c]
			if !ok {
				return fmt.Errorf("string constant %s not found in db19/state.go", c)
			}
			fmt.Fprintf(out, "def %s : List UInt8 := [", c)
			for i, b := range []byte(v) {
				if i > 0 {
					out.WriteString(", ")
				}
				fmt.Fprintf(out, "%d", b)
			}
			out.WriteString("]\n")
		}
		fmt.Fprintf(out, "def dateSize : Nat := %s\n", g.intConst("dateSize"))
		fmt.Fprintf(out, "def smallOffsetLen : Nat := %s\n", so.intConst("SmallOffsetLen"))
		fmt.Fprintf(out, "def cksumLen : Nat := %s\n", ck.intConst("Len"))
		// the checksum: low 16 bits, little endian, of crc32 with the Castagnoli table
		src, err := os.ReadFile(filepath.Join(repo, "util/cksum/cksum.go"))
		if err != nil {
			return err
		}
		for _, want := range []string{"crc32.MakeTable(crc32.Castagnoli)", "crc32.Checksum(data[:n], crc32table)",
			"data[n] = byte(cs)", "data[n+1] = byte(cs >> 8)"} {
			if !strings.Contains(string(src), want) {
				return fmt.Errorf("util/cksum/cksum.go no longer contains %q", want)
			}
		}
		fmt.Fprintf(out, "def crcPoly : Nat := %d\n", uint32(crc32.Castagnoli))
		out.WriteString("\nend Gsu.Gen.StateRec\n")
		return nil
	})
}
