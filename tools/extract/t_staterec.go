package main

import (
	"fmt"
	"path/filepath"
	"strings"
)

// StateRec: layout constants of the database state record (db19/state.go writeState/readState):
// magic1, magic2, dateSize, stor.SmallOffsetLen, cksum.Len.
func init() {
	register("StateRec", func(repo string, out *strings.Builder) error {
		g := parseGo(filepath.Join(repo, "db19/state.go"))
		so := parseGo(filepath.Join(repo, "db19/stor/smalloffset.go"))
		ck := parseGo(filepath.Join(repo, "util/cksum/cksum.go"))
		out.WriteString("namespace Gsu.Gen.StateRec\n\n")
		for _, c := range []string{"magic1", "magic2"} {
			v, ok := g.sconst[c]
			if !ok {
				return fmt.Errorf("string constant %s not found in db19/state.go", c)
			}
			fmt.Fprintf(out, "def %s : List UInt8 := [", c)
			for i, b := range []byte(v) {
				if i > 0 {
					out.WriteString(", ")
				}
				fmt.Fprintf(out, "%d", b)
			}
			out.WriteString("]\n")
		}
		fmt.Fprintf(out, "def dateSize : Nat := %s\n", g.intConst("dateSize"))
		fmt.Fprintf(out, "def smallOffsetLen : Nat := %s\n", so.intConst("SmallOffsetLen"))
		fmt.Fprintf(out, "def cksumLen : Nat := %s\n", ck.intConst("Len"))
		out.WriteString("\nend Gsu.Gen.StateRec\n")
		return nil
	})
}
