package main

import (
	"fmt"
	"go/ast"
	"go/token"
	"path/filepath"
	"strings"
)

// Ts (C34): the constants and statement lists the timestamp machine mirrors.
//   core/idbms.go      TsInitialBatch, TsThreshold
//   db19/timestamp.go  Timestamp(): `if ts.Millisecond() < T { timestamp = timestamp.AddMs(A) } else { … AddMs(B) }`
//                      ticker(): the only write is `if t.Compare(timestamp) > 0 { timestamp = t }`
//   core/thread.go     Thread.Timestamp (fast path limit test, AddMs(1), extra byte, refill, 256), tsExpire
//   core/sudate.go     AddMs
func init() {
	register("Ts", func(repo string, out *strings.Builder) error {
		idb := parseGo(filepath.Join(repo, "core/idbms.go"))
		srv := parseGo(filepath.Join(repo, "db19/timestamp.go"))
		thr := parseGo(filepath.Join(repo, "core/thread.go"))
		sud := parseGo(filepath.Join(repo, "core/sudate.go"))
		// integer value of an expression: literal or a constant of idbms.go
		val := func(g *goFile, e ast.Expr) string {
			switch e := e.(type) {
			case *ast.BasicLit:
				if e.Kind == token.INT {
					return e.Value
				}
			case *ast.Ident:
				if v, ok := idb.consts[e.Name]; ok {
					return v
				}
				if v, ok := g.consts[e.Name]; ok {
					return v
				}
			}
			panic("not an integer constant: " + render(g.fset, e))
		}
		// `<x>.Millisecond() < T`
		msLess := func(g *goFile, e ast.Expr) (string, bool) {
			b, ok := e.(*ast.BinaryExpr)
			if !ok || b.Op != token.LSS {
				return "", false
			}
			c, ok := b.X.(*ast.CallExpr)
			if !ok {
				return "", false
			}
			s, ok := c.Fun.(*ast.SelectorExpr)
			if !ok || s.Sel.Name != "Millisecond" {
				return "", false
			}
			return val(g, b.Y), true
		}
		// the single `.AddMs(k)` call below n
		addMs := func(g *goFile, n ast.Node) string {
			var ks []string
			ast.Inspect(n, func(n ast.Node) bool {
				if c, ok := n.(*ast.CallExpr); ok {
					if s, ok := c.Fun.(*ast.SelectorExpr); ok && s.Sel.Name == "AddMs" && len(c.Args) == 1 {
						ks = append(ks, val(g, c.Args[0]))
					}
				}
				return true
			})
			if len(ks) != 1 {
				panic(fmt.Sprintf("expected exactly one AddMs call, found %d", len(ks)))
			}
			return ks[0]
		}
		out.WriteString("namespace Gsu.Gen.Ts\n\n")
		fmt.Fprintf(out, "def tsInitialBatch : Nat := %s\n", idb.intConst("TsInitialBatch"))
		fmt.Fprintf(out, "def tsThreshold : Nat := %s\n", idb.intConst("TsThreshold"))

		// server
		ts := srv.fn("Timestamp")
		found := false
		for _, st := range ts.Body.List {
			ifs, ok := st.(*ast.IfStmt)
			if !ok {
				continue
			}
			t, ok := msLess(srv, ifs.Cond)
			if !ok || ifs.Else == nil {
				continue
			}
			found = true
			fmt.Fprintf(out, "\n-- db19.Timestamp: if ts.Millisecond() < srvThreshold then AddMs(srvBumpLow) else AddMs(srvBumpHigh)\n")
			fmt.Fprintf(out, "def srvThreshold : Nat := %s\n", t)
			fmt.Fprintf(out, "def srvBumpLow : Nat := %s\n", addMs(srv, ifs.Body))
			fmt.Fprintf(out, "def srvBumpHigh : Nat := %s\n", addMs(srv, ifs.Else))
		}
		if !found {
			return fmt.Errorf("db19.Timestamp: `if ts.Millisecond() < … {AddMs} else {AddMs}` not found")
		}
		out.WriteString(leanStrList("serverBody", bodyLines(srv, ts)))
		tl := bodyLines(srv, srv.fn("ticker"))
		var crit []string
		in, writes := false, 0
		for _, l := range tl {
			if strings.HasPrefix(l, "timestamp =") || strings.HasPrefix(l, "timestamp +=") || strings.HasPrefix(l, "timestamp,") {
				writes++
			}
			if l == "tsLock.Unlock()" {
				in = false
			}
			if in {
				crit = append(crit, l)
			}
			if l == "tsLock.Lock()" {
				in = true
			}
		}
		if crit == nil {
			return fmt.Errorf("ticker: no tsLock.Lock() … tsLock.Unlock() section")
		}
		out.WriteString("-- ticker(): the statements between tsLock.Lock() and tsLock.Unlock(), and the number of writes to `timestamp` in the whole function\n")
		out.WriteString(leanStrList("tickerCritical", crit))
		fmt.Fprintf(out, "def tickerWrites : Nat := %d\n", writes)

		// client
		ct := thr.method("Thread", "Timestamp")
		var cthr, cbatch, cextra, cinc string
		ast.Inspect(ct.Body, func(n ast.Node) bool {
			switch n := n.(type) {
			case *ast.IfStmt:
				if t, ok := msLess(thr, n.Cond); ok {
					cthr = t
					// tsLimit = A else tsLimit = B
					get := func(b ast.Node) string {
						var v string
						ast.Inspect(b, func(m ast.Node) bool {
							if as, ok := m.(*ast.AssignStmt); ok && len(as.Lhs) == 1 && render(thr.fset, as.Lhs[0]) == "tsLimit" {
								v = val(thr, as.Rhs[0])
							}
							return true
						})
						if v == "" {
							panic("Thread.Timestamp: tsLimit assignment not found")
						}
						return v
					}
					if n.Else == nil {
						panic("Thread.Timestamp: no else for the threshold test")
					}
					cbatch = get(n.Body)
					cextra = get(n.Else)
				}
				if b, ok := n.Cond.(*ast.BinaryExpr); ok && b.Op == token.EQL && render(thr.fset, b.X) == "tsLimit" &&
					render(thr.fset, b.Y) != "0" {
					if val(thr, b.Y) != idb.intConst("TsInitialBatch") {
						panic("Thread.Timestamp: mode test is not tsLimit == TsInitialBatch")
					}
					cinc = addMs(thr, n.Body)
				}
			}
			return true
		})
		if cthr == "" || cinc == "" {
			return fmt.Errorf("Thread.Timestamp: expected threshold test and fast path not found")
		}
		fmt.Fprintf(out, "\n-- core.Thread.Timestamp\n")
		fmt.Fprintf(out, "def clientThreshold : Nat := %s\n", cthr)
		fmt.Fprintf(out, "def clientBatch : Nat := %s\n", cbatch)
		fmt.Fprintf(out, "def extraLimit : Nat := %s\n", cextra)
		fmt.Fprintf(out, "def fastInc : Nat := %s\n", cinc)
		out.WriteString(leanStrList("clientBody", bodyLines(thr, ct)))
		out.WriteString(leanStrList("expireBody", bodyLines(thr, thr.fn("tsExpire"))))
		out.WriteString("\n-- core.SuDate.AddMs\n")
		out.WriteString(leanStrList("addMsBody", bodyLines(sud, sud.method("SuDate", "AddMs"))))
		out.WriteString("\nend Gsu.Gen.Ts\n")
		return nil
	})
}
