package main

import (
	"fmt"
	"path/filepath"
	"strings"
)

// Alloc (C18): the atomic-step list of db19/stor/stor.go Stor.Alloc / Stor.extend.
// Every statement of the two bodies is classified; a statement that touches shared state
// (`s.` …) and matches no known step becomes `unknown`, so the comparison in Lean fails.
func init() {
	register("Alloc", func(repo string, out *strings.Builder) error {
		g := parseGo(filepath.Join(repo, "db19/stor/stor.go"))
		al := bodyLines(g, g.method("Stor", "Alloc"))
		ex := bodyLines(g, g.method("Stor", "extend"))
		type pat struct{ has, step string }
		pats := []pat{
			{"s.allocChunk.Load()", "loadAllocChunk"},
			{"s.size.Add(uint64(n))", "addSize"},
			{"endChunk := s.offsetToChunk(newsize - 1)", "endChunkOfNewsizeMinus1"},
			{"offset := newsize - uint64(n)", "offsetIsNewsizeMinusN"},
			{"if endChunk == int(allocChunk) {", "compareEndChunk"},
			{"return offset, s.Data(offset)[:n:n]", "returnOffset"},
			{"s.extend(allocChunk)", "callExtend"},
			{"for range maxRetries {", "retryLoop"},
			{"panic(\"Stor.Alloc too many retries\")", "panicRetries"},
			{"s.lock.Lock()", "lock"},
			{"defer s.lock.Unlock()", "deferUnlock"},
			{"chunks := s.chunks.Load().([][]byte)", "loadChunks"},
			{"if int(allocChunk)+1 < len(chunks) {", "testBeaten"},
			{"chunks = append(chunks, s.impl.Get(int(allocChunk+1)))", "appendChunk"},
			{"s.chunks.Store(chunks)", "storeChunks"},
			{"s.size.Store(uint64(allocChunk+1) << s.shift)", "storeSizeChunkStart"},
			{"s.allocChunk.Add(1)", "bumpAllocChunk"},
			{"if newsize >= closedSize {", "closedCheck"},
			{"assert.That(0 < n && n <= int(s.chunksize))", "assertSize"},
		}
		classify := func(lines []string) []string {
			var steps []string
			for _, l := range lines {
				hit := ""
				for _, p := range pats {
					if l == p.has || (strings.Contains(l, p.has) && (p.step == "loadAllocChunk" || p.step == "addSize")) {
						hit = p.step
						break
					}
				}
				switch {
				case hit != "":
					steps = append(steps, hit)
				case l == "}" || l == "return" || strings.HasPrefix(l, "const ") ||
					l == "log.Println(\"stor: use after close\")" || l == "runtime.Goexit()":
					steps = append(steps, "local:"+l)
				case strings.Contains(l, "s."):
					steps = append(steps, "unknown:"+l)
				default:
					steps = append(steps, "local:"+l)
				}
			}
			return steps
		}
		out.WriteString("namespace Gsu.Gen.Alloc\n\n")
		fmt.Fprintf(out, "def maxRetries : Nat := %s\n\n", constIn(g, "Alloc", "maxRetries"))
		out.WriteString("-- Stor.Alloc, statement by statement\n")
		out.WriteString(leanStrList("allocSteps", classify(al)))
		out.WriteString("\n-- Stor.extend, statement by statement\n")
		out.WriteString(leanStrList("extendSteps", classify(ex)))
		out.WriteString("\n-- raw statements (for the reader)\n")
		out.WriteString(leanStrList("allocBody", al))
		out.WriteString(leanStrList("extendBody", ex))
		out.WriteString("\nend Gsu.Gen.Alloc\n")
		return nil
	})
}

// constIn finds `const name = <int>` declared inside function fn (go/types records it in Defs too)
func constIn(g *goFile, fn, name string) string {
	if v, ok := g.consts[name]; ok {
		return v
	}
	panic("constant " + name + " not found (expected inside " + fn + ")")
}
