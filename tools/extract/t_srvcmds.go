package main

// SrvCmds (C41, C40): the server command table of dbms/dbmsserver.go, regenerated.
//
// For every entry of `cmds` the control-flow paths of the command function are enumerated and
// each path is written as the list of events the C41 model interprets (Gsu.Model.SrvEv.Ev):
// effects reached through `ss.sc.dbms.<M>`, handle lookups (`ss.tran`, `ss.getQuery`, …),
// `ss.getTran` (optional handle), stores into the session's handle maps, every other call by
// name, and `panic`/`ss.error`.  Also: the DbmsUnauth method table (M ↦ refuse|delegate), the
// command numbering of dbms/commands, and two facts about dbms/auth.go (whether AuthUser
// rejects an empty password hash; nonce and token sizes).
// Anything that does not have the expected shape is an error (→ broken obligation).

import (
	"fmt"
	"go/ast"
	"go/token"
	"os"
	"path/filepath"
	"sort"
	"strings"
)

type srvPath struct {
	evs  []string
	done bool // ended by fail/return
}

type srvEx struct {
	src     []byte
	fset    *token.FileSet
	optVars map[string]bool // variables bound from ss.getTran()
}

func srvExprString(e ast.Expr) string {
	switch e := e.(type) {
	case *ast.Ident:
		return e.Name
	case *ast.SelectorExpr:
		return srvExprString(e.X) + "." + e.Sel.Name
	case *ast.CallExpr:
		return srvExprString(e.Fun) + "()"
	case *ast.TypeAssertExpr:
		return srvExprString(e.X) + ".(T)"
	case *ast.ParenExpr:
		return srvExprString(e.X)
	case *ast.StarExpr:
		return "*" + srvExprString(e.X)
	case *ast.IndexExpr:
		return srvExprString(e.X) + "[]"
	}
	return "?"
}

var srvNeeds = map[string]string{
	"ss.tran":      ".tran",
	"ss.getQuery":  ".query",
	"ss.getCursor": ".cursor",
	"ss.getQorC":   ".qorc",
	"ss.getQorTC":  ".qorc",
}

var srvMapNeed = map[string]string{
	"ss.queries": ".query",
	"ss.cursors": ".cursor",
	"ss.trans":   ".tran",
}

// callName names a call; fluent `ss.PutX(..).PutY(..)` is named "ss.PutY"
func srvCallName(fun ast.Expr) string {
	if sel, ok := fun.(*ast.SelectorExpr); ok {
		if inner, ok := sel.X.(*ast.CallExpr); ok {
			in := srvCallName(inner.Fun)
			if i := strings.LastIndexByte(in, '.'); i >= 0 && strings.HasPrefix(in[i+1:], "Put") {
				return in[:i] + "." + sel.Sel.Name
			}
			return in + "()." + sel.Sel.Name
		}
	}
	return srvExprString(fun)
}

// expr returns the events of evaluating e, sub-expressions first
func (x *srvEx) expr(e ast.Expr) []string {
	var evs []string
	switch e := e.(type) {
	case nil:
	case *ast.Ident, *ast.BasicLit:
	case *ast.ParenExpr:
		evs = x.expr(e.X)
	case *ast.UnaryExpr:
		evs = x.expr(e.X)
	case *ast.StarExpr:
		evs = x.expr(e.X)
	case *ast.BinaryExpr:
		evs = append(x.expr(e.X), x.expr(e.Y)...)
	case *ast.TypeAssertExpr:
		evs = x.expr(e.X)
	case *ast.CompositeLit:
		for _, el := range e.Elts {
			evs = append(evs, x.expr(el)...)
		}
	case *ast.KeyValueExpr:
		evs = append(x.expr(e.Key), x.expr(e.Value)...)
	case *ast.IndexExpr:
		evs = append(x.expr(e.X), x.expr(e.Index)...)
		if s := srvExprString(e.X); strings.HasPrefix(s, "ss.") {
			evs = append(evs, fmt.Sprintf(".call %q", "read:"+s))
		}
	case *ast.SelectorExpr:
		s := srvExprString(e)
		if id, ok := e.X.(*ast.Ident); ok && x.optVars[id.Name] {
			evs = append(evs, ".useTran")
		} else if strings.HasPrefix(s, "ss.sc.dbms.") && strings.Count(s, ".") == 3 {
			evs = append(evs, fmt.Sprintf(".dbms %q", e.Sel.Name))
		} else {
			evs = x.expr(e.X)
		}
	case *ast.CallExpr:
		name := srvCallName(e.Fun)
		// receiver chain first, then arguments, then the call itself
		if sel, ok := e.Fun.(*ast.SelectorExpr); ok {
			if id, ok := sel.X.(*ast.Ident); ok && x.optVars[id.Name] {
				evs = append(evs, ".useTran")
			} else if strings.HasPrefix(name, "ss.sc.dbms.") && strings.Count(name, ".") == 3 {
				// handled below
			} else {
				evs = append(evs, x.expr(sel.X)...)
			}
		}
		for _, a := range e.Args {
			evs = append(evs, x.expr(a)...)
		}
		switch {
		case name == "panic" || name == "ss.error" || name == "log.Panicln":
			evs = append(evs, ".fail")
		case name == "ss.getTran":
			evs = append(evs, ".tranOpt")
		case srvNeeds[name] != "":
			evs = append(evs, ".need "+srvNeeds[name])
		case strings.HasPrefix(name, "ss.sc.dbms.") && strings.Count(name, ".") == 3:
			evs = append(evs, fmt.Sprintf(".dbms %q", strings.TrimPrefix(name, "ss.sc.dbms.")))
		case name == "delete" && len(e.Args) > 0:
			evs = append(evs, fmt.Sprintf(".call %q", "delete:"+srvExprString(e.Args[0])))
		default:
			if sel, ok := e.Fun.(*ast.SelectorExpr); ok {
				if id, ok := sel.X.(*ast.Ident); ok && x.optVars[id.Name] {
					break // already a useTran
				}
			}
			evs = append(evs, fmt.Sprintf(".call %q", name))
		}
	case *ast.FuncLit:
		panic("function literal in a command function")
	default:
		panic(fmt.Sprintf("unsupported expression %T in a command function", e))
	}
	return evs
}

func srvExtend(in []srvPath, evs []string) []srvPath {
	out := make([]srvPath, 0, len(in))
	for _, p := range in {
		if p.done {
			out = append(out, p)
			continue
		}
		q := srvPath{evs: append(append([]string{}, p.evs...), evs...)}
		for _, e := range evs {
			if e == ".fail" {
				q.done = true
			}
		}
		// nothing after a fail is reachable
		for i, e := range q.evs {
			if e == ".fail" {
				q.evs = q.evs[:i+1]
				break
			}
		}
		out = append(out, q)
	}
	return out
}

func srvLive(in []srvPath) (live, done []srvPath) {
	for _, p := range in {
		if p.done {
			done = append(done, p)
		} else {
			live = append(live, p)
		}
	}
	return
}

// isNilCheckError: `if v == nil { … ss.error(…) … }`
func (x *srvEx) isNilCheckError(s ast.Stmt, v string) bool {
	is, ok := s.(*ast.IfStmt)
	if !ok || is.Init != nil || is.Else != nil {
		return false
	}
	be, ok := is.Cond.(*ast.BinaryExpr)
	if !ok || be.Op != token.EQL || srvExprString(be.X) != v || srvExprString(be.Y) != "nil" {
		return false
	}
	found := false
	ast.Inspect(is.Body, func(n ast.Node) bool {
		if c, ok := n.(*ast.CallExpr); ok && srvExprString(c.Fun) == "ss.error" {
			found = true
		}
		return true
	})
	return found
}

func (x *srvEx) block(list []ast.Stmt, in []srvPath) []srvPath {
	for i := 0; i < len(list); i++ {
		live, done := srvLive(in)
		if len(live) == 0 {
			return in
		}
		s := list[i]
		// handle lookup with nil check: v := ss.<map>[k]; if v == nil { ss.error }
		if as, ok := s.(*ast.AssignStmt); ok && len(as.Lhs) == 1 && len(as.Rhs) == 1 && i+1 < len(list) {
			if ix, ok := as.Rhs[0].(*ast.IndexExpr); ok {
				if need := srvMapNeed[srvExprString(ix.X)]; need != "" &&
					x.isNilCheckError(list[i+1], srvExprString(as.Lhs[0])) {
					evs := append(x.expr(ix.Index), ".need "+need)
					in = append(done, srvExtend(live, evs)...)
					i++
					continue
				}
			}
		}
		in = append(done, x.stmt(s, live)...)
	}
	return in
}

func (x *srvEx) stmt(s ast.Stmt, in []srvPath) []srvPath {
	switch s := s.(type) {
	case *ast.ExprStmt:
		return srvExtend(in, x.expr(s.X))
	case *ast.DeclStmt:
		var evs []string
		gd := s.Decl.(*ast.GenDecl)
		for _, sp := range gd.Specs {
			if vs, ok := sp.(*ast.ValueSpec); ok {
				for _, v := range vs.Values {
					evs = append(evs, x.expr(v)...)
				}
			}
		}
		return srvExtend(in, evs)
	case *ast.IncDecStmt:
		return srvExtend(in, x.expr(s.X))
	case *ast.AssignStmt:
		var evs []string
		for _, r := range s.Rhs {
			evs = append(evs, x.expr(r)...)
		}
		if len(s.Rhs) == 1 {
			if c, ok := s.Rhs[0].(*ast.CallExpr); ok && srvExprString(c.Fun) == "ss.getTran" {
				if id, ok := s.Lhs[0].(*ast.Ident); ok && id.Name != "_" {
					x.optVars[id.Name] = true
				}
			}
		}
		for _, l := range s.Lhs {
			switch l := l.(type) {
			case *ast.Ident:
			case *ast.IndexExpr:
				evs = append(evs, x.expr(l.Index)...)
				m := srvExprString(l.X)
				if ix2, ok := l.X.(*ast.IndexExpr); ok { // ss.tranQueries[tn][qn] = …
					evs = append(evs, x.expr(ix2.Index)...)
					m = srvExprString(ix2.X)
				}
				if !strings.HasPrefix(m, "ss.") {
					panic("store into " + m)
				}
				evs = append(evs, fmt.Sprintf(".store %q", strings.TrimPrefix(m, "ss.")))
			case *ast.SelectorExpr:
				evs = append(evs, fmt.Sprintf(".call %q", "set:"+srvExprString(l)))
			default:
				panic(fmt.Sprintf("unsupported assignment target %T", l))
			}
		}
		return srvExtend(in, evs)
	case *ast.ReturnStmt:
		var evs []string
		for _, r := range s.Results {
			evs = append(evs, x.expr(r)...)
		}
		out := srvExtend(in, evs)
		for i := range out {
			out[i].done = true
		}
		return out
	case *ast.BlockStmt:
		return x.block(s.List, in)
	case *ast.IfStmt:
		if s.Init != nil {
			in = x.stmt(s.Init, in)
		}
		in = srvExtend(in, x.expr(s.Cond))
		live, done := srvLive(in)
		thenP := x.block(s.Body.List, srvCopy(live))
		var elseP []srvPath
		if s.Else != nil {
			elseP = x.stmt(s.Else, srvCopy(live))
		} else {
			elseP = srvCopy(live)
		}
		return append(append(done, thenP...), elseP...)
	case *ast.SwitchStmt:
		if s.Init != nil {
			in = x.stmt(s.Init, in)
		}
		in = srvExtend(in, x.expr(s.Tag))
		live, done := srvLive(in)
		out := done
		hasDefault := false
		for _, cc := range s.Body.List {
			cl := cc.(*ast.CaseClause)
			if cl.List == nil {
				hasDefault = true
			}
			var evs []string
			for _, e := range cl.List {
				evs = append(evs, x.expr(e)...)
			}
			out = append(out, x.block(cl.Body, srvExtend(srvCopy(live), evs))...)
		}
		if !hasDefault {
			out = append(out, srvCopy(live)...)
		}
		return out
	case *ast.ForStmt:
		if s.Init != nil {
			in = x.stmt(s.Init, in)
		}
		in = srvExtend(in, x.expr(s.Cond))
		live, done := srvLive(in)
		once := x.block(s.Body.List, srvCopy(live))
		if s.Post != nil {
			once = x.stmt(s.Post, once)
		}
		return append(append(done, srvCopy(live)...), once...) // zero or one iteration
	case *ast.RangeStmt:
		in = srvExtend(in, x.expr(s.X))
		live, done := srvLive(in)
		once := x.block(s.Body.List, srvCopy(live))
		return append(append(done, srvCopy(live)...), once...)
	default:
		panic(fmt.Sprintf("unsupported statement %T in a command function", s))
	}
}

func srvCopy(in []srvPath) []srvPath {
	out := make([]srvPath, len(in))
	for i, p := range in {
		out[i] = srvPath{evs: append([]string{}, p.evs...), done: p.done}
	}
	return out
}

func (x *srvEx) text(n ast.Node) string {
	return string(x.src[x.fset.Position(n.Pos()).Offset:x.fset.Position(n.End()).Offset])
}

func init() {
	register("SrvCmds", func(repo string, out *strings.Builder) error {
		path := filepath.Join(repo, "dbms/dbmsserver.go")
		src, err := os.ReadFile(path)
		if err != nil {
			return err
		}
		g := parseGo(path)
		x := &srvEx{src: src, fset: g.fset}

		// helper shapes the event vocabulary relies on
		must := func(cond bool, what string) {
			if !cond {
				panic("dbmsserver.go: " + what)
			}
		}
		has := func(recv, name string, subs ...string) {
			t := x.text(g.method(recv, name).Body)
			for _, s := range subs {
				must(strings.Contains(t, s), recv+"."+name+" no longer contains `"+s+"`")
			}
		}
		has("serverSession", "tran", "ss.trans[tn]", "!ok", "ss.error(")
		has("serverSession", "getTran", "tn == 0", "return nil, 0", "ss.tran(tn)")
		has("serverSession", "getQuery", "ss.queries[qn]", "q == nil", "ss.error(")
		has("serverSession", "getCursor", "ss.cursors[qn]", "c == nil", "ss.error(")
		has("serverSession", "getQorC", "ss.queries[n]", "ss.cursors[n]", "qc == nil", "ss.error(")
		has("serverSession", "getQorTC", "ss.getTran()", "ss.getQuery()", "ss.getCursor()")
		has("serverSession", "error", "ss.close()", "log.Panicln(")
		has("serverSession", "request", "recover()", "ss.ResetWrite()", "PutBool(false)",
			"int(icmd) >= len(cmds)", "cmds[icmd]")
		has("serverSession", "auth", "nonce := ss.sc.nonce", `ss.sc.nonce = ""`,
			"AuthUser(ss.thread, s, nonce)", "AuthToken(s)")
		// the wrapper is installed exactly when the database has users
		nsc := x.text(g.fn("newServerConn").Body)
		must(strings.Contains(nsc, "dbms.db.HaveUsers()") &&
			strings.Contains(nsc, "sc.dbms = &DbmsUnauth{dbms: dbms}"), "newServerConn no longer installs DbmsUnauth")

		// the cmds table
		var names []string
		for _, d := range g.file.Decls {
			gd, ok := d.(*ast.GenDecl)
			if !ok {
				continue
			}
			for _, sp := range gd.Specs {
				if vs, ok := sp.(*ast.ValueSpec); ok && len(vs.Names) == 1 && vs.Names[0].Name == "cmds" {
					for _, e := range vs.Values[0].(*ast.CompositeLit).Elts {
						names = append(names, srvExprString(e))
					}
				}
			}
		}
		must(len(names) > 0, "cmds table not found")

		// command numbering (dbms/commands) must agree with the table order
		cg := parseGo(filepath.Join(repo, "dbms/commands/commands.go"))

		out.WriteString("import Gsu.Model.SrvEv\nnamespace Gsu.Gen.SrvCmds\nopen Gsu.SrvEv\n\n")
		var cmdDefs []string
		for i, n := range names {
			def := fmt.Sprintf("c%d", i)
			cmdDefs = append(cmdDefs, def)
			if n == "nil" {
				fmt.Fprintf(out, "def %s : Cmd := ⟨%d, \"nil\", [[.fail]]⟩\n", def, i)
				continue
			}
			must(strings.HasPrefix(n, "cmd"), "unexpected entry "+n)
			if v, ok := cg.consts[strings.TrimPrefix(n, "cmd")]; ok {
				must(v == fmt.Sprint(i), fmt.Sprintf("cmds[%d] = %s but commands.%s = %s", i, n, n[3:], v))
			} else {
				panic("no command constant for " + n)
			}
			fd := g.fn(n)
			x.optVars = map[string]bool{}
			paths := x.block(fd.Body.List, []srvPath{{}})
			fmt.Fprintf(out, "def %s : Cmd := ⟨%d, %q, [\n", def, i, n)
			for j, p := range paths {
				sep := ","
				if j == len(paths)-1 {
					sep = ""
				}
				fmt.Fprintf(out, "  [%s]%s\n", strings.Join(p.evs, ", "), sep)
			}
			out.WriteString("]⟩\n")
		}
		fmt.Fprintf(out, "\ndef cmds : List Cmd := [%s]\n", strings.Join(cmdDefs, ", "))

		// DbmsUnauth
		upath := filepath.Join(repo, "dbms/dbmsunauth.go")
		ug := parseGo(upath)
		var rows []string
		for _, d := range ug.file.Decls {
			fd, ok := d.(*ast.FuncDecl)
			if !ok || fd.Recv == nil {
				continue
			}
			kind := ".other"
			if len(fd.Body.List) == 1 {
				var call *ast.CallExpr
				switch st := fd.Body.List[0].(type) {
				case *ast.ExprStmt:
					call, _ = st.X.(*ast.CallExpr)
				case *ast.ReturnStmt:
					if len(st.Results) == 1 {
						call, _ = st.Results[0].(*ast.CallExpr)
					}
				}
				if call != nil {
					f := srvExprString(call.Fun)
					if f == "panic" && len(call.Args) == 1 && srvExprString(call.Args[0]) == "notauth" {
						kind = ".refuse"
					} else if f == "du.dbms."+fd.Name.Name {
						kind = ".delegate"
					}
				}
			}
			rows = append(rows, fmt.Sprintf("(%q, %s)", fd.Name.Name, kind))
		}
		sort.Strings(rows)
		must(len(rows) > 10, "DbmsUnauth methods not found")
		fmt.Fprintf(out, "\ndef unauth : List (String × UA) := [\n  %s]\n", strings.Join(rows, ",\n  "))

		// auth.go facts
		ag := parseGo(filepath.Join(repo, "dbms/auth.go"))
		asrc, err := os.ReadFile(filepath.Join(repo, "dbms/auth.go"))
		if err != nil {
			return err
		}
		au := ag.fn("AuthUser")
		reject := false
		sawNonce := false
		for _, s := range au.Body.List {
			is, ok := s.(*ast.IfStmt)
			if !ok || is.Else != nil || len(is.Body.List) != 1 {
				continue
			}
			rs, ok := is.Body.List[0].(*ast.ReturnStmt)
			if !ok || len(rs.Results) != 1 || srvExprString(rs.Results[0]) != "false" {
				continue
			}
			c := strings.ReplaceAll(string(asrc[ag.fset.Position(is.Cond.Pos()).Offset:ag.fset.Position(is.Cond.End()).Offset]), " ", "")
			switch c {
			case `nonce==""`:
				sawNonce = true
			case `passhash==""`, `len(passhash)==0`:
				reject = true
			}
		}
		must(sawNonce, "AuthUser no longer rejects an empty nonce")
		fmt.Fprintf(out, "\n/-- AuthUser returns false when the user has no password hash (unknown user) -/\ndef rejectEmptyPasshash : Bool := %v\n", reject)
		fmt.Fprintf(out, "def nonceSize : Nat := %s\ndef tokenSize : Nat := %s\n", ag.intConst("nonceSize"), ag.intConst("tokenSize"))
		out.WriteString("\nend Gsu.Gen.SrvCmds\n")
		return nil
	})
}
