package main

import (
	"fmt"
	"go/ast"
	"go/token"
	"path/filepath"
	"sort"
	"strconv"
	"strings"
)

// Lexer: the tables of compile/lexer the lexer mirror (C31, C32) is parameterised by,
// re-read from the source on every run:
//
//   keywords / queryKeywords : (case length, keyword bytes, token name) from the
//       `switch len(s) { case n: if s == "kw" { return tok.Kw, "kw" } … }` functions
//   opTable   : (operator bytes, token name) flattened from the nested
//       `case 'c': if lxr.match('x') { … return it(tok.A) } return it(tok.B)` clauses of
//       Lexer.next (greedy trie = longest match because the table is prefix closed — theorem)
//   specials  : first bytes whose clause is not of that shape (hand mirrored: # / ` " ' . 0-9 _)
//   eofByte, digit, isIdentChar
//
// The extractor fails when a clause has a shape it does not understand.

type opEntry struct {
	text string
	tok  string
}

func byteList(s string) string {
	var sb strings.Builder
	sb.WriteByte('[')
	for i, b := range []byte(s) {
		if i > 0 {
			sb.WriteString(", ")
		}
		fmt.Fprintf(&sb, "%d", b)
	}
	sb.WriteByte(']')
	return sb.String()
}

func unquoteStr(e ast.Expr) (string, bool) {
	bl, ok := e.(*ast.BasicLit)
	if !ok || bl.Kind != token.STRING {
		return "", false
	}
	s, err := strconv.Unquote(bl.Value)
	return s, err == nil
}

// tokSel matches tok.Name
func tokSel(e ast.Expr) (string, bool) {
	se, ok := e.(*ast.SelectorExpr)
	if !ok {
		return "", false
	}
	if id, ok := se.X.(*ast.Ident); !ok || id.Name != "tok" {
		return "", false
	}
	return se.Sel.Name, true
}

// keywordTable reads func name(s string) (tok.Token, string)
func keywordTable(g *goFile, name string) ([][3]string, error) {
	fd := g.fn(name)
	var sw *ast.SwitchStmt
	for _, s := range fd.Body.List {
		if x, ok := s.(*ast.SwitchStmt); ok {
			sw = x
		}
	}
	if sw == nil {
		return nil, fmt.Errorf("%s: no switch", name)
	}
	if call, ok := sw.Tag.(*ast.CallExpr); !ok || len(call.Args) != 1 {
		return nil, fmt.Errorf("%s: switch tag is not len(s)", name)
	} else if id, ok := call.Fun.(*ast.Ident); !ok || id.Name != "len" {
		return nil, fmt.Errorf("%s: switch tag is not len(s)", name)
	}
	// last statement must be `return tok.Nil, ""`
	last, ok := fd.Body.List[len(fd.Body.List)-1].(*ast.ReturnStmt)
	if !ok || len(last.Results) != 2 {
		return nil, fmt.Errorf("%s: does not end with return tok.Nil, \"\"", name)
	}
	if n, ok := tokSel(last.Results[0]); !ok || n != "Nil" {
		return nil, fmt.Errorf("%s: default result is not tok.Nil", name)
	}
	var out [][3]string
	for _, c := range sw.Body.List {
		cc := c.(*ast.CaseClause)
		if len(cc.List) != 1 {
			return nil, fmt.Errorf("%s: case with %d labels", name, len(cc.List))
		}
		bl, ok := cc.List[0].(*ast.BasicLit)
		if !ok || bl.Kind != token.INT {
			return nil, fmt.Errorf("%s: case label is not an integer", name)
		}
		for _, s := range cc.Body {
			is, ok := s.(*ast.IfStmt)
			if !ok || is.Else != nil || is.Init != nil || len(is.Body.List) != 1 {
				return nil, fmt.Errorf("%s: case %s: unexpected statement", name, bl.Value)
			}
			be, ok := is.Cond.(*ast.BinaryExpr)
			if !ok || be.Op != token.EQL {
				return nil, fmt.Errorf("%s: case %s: condition is not s == \"…\"", name, bl.Value)
			}
			if id, ok := be.X.(*ast.Ident); !ok || id.Name != "s" {
				return nil, fmt.Errorf("%s: case %s: condition is not s == \"…\"", name, bl.Value)
			}
			kw, ok := unquoteStr(be.Y)
			if !ok {
				return nil, fmt.Errorf("%s: case %s: condition is not s == \"…\"", name, bl.Value)
			}
			rs, ok := is.Body.List[0].(*ast.ReturnStmt)
			if !ok || len(rs.Results) != 2 {
				return nil, fmt.Errorf("%s: keyword %s: body is not a return", name, kw)
			}
			tn, ok := tokSel(rs.Results[0])
			if !ok {
				return nil, fmt.Errorf("%s: keyword %s: result is not tok.X", name, kw)
			}
			if txt, ok := unquoteStr(rs.Results[1]); !ok || txt != kw {
				return nil, fmt.Errorf("%s: keyword %s: returned text differs", name, kw)
			}
			out = append(out, [3]string{bl.Value, kw, tn})
		}
	}
	return out, nil
}

// matchCall matches lxr.match('x') and returns x
func matchCall(e ast.Expr) (byte, bool) {
	call, ok := e.(*ast.CallExpr)
	if !ok || len(call.Args) != 1 {
		return 0, false
	}
	se, ok := call.Fun.(*ast.SelectorExpr)
	if !ok || se.Sel.Name != "match" {
		return 0, false
	}
	if id, ok := se.X.(*ast.Ident); !ok || id.Name != "lxr" {
		return 0, false
	}
	return charLit(call.Args[0])
}

func charLit(e ast.Expr) (byte, bool) {
	bl, ok := e.(*ast.BasicLit)
	if !ok || bl.Kind != token.CHAR {
		return 0, false
	}
	r, _, _, err := strconv.UnquoteChar(bl.Value[1:len(bl.Value)-1], '\'')
	if err != nil || r > 255 {
		return 0, false
	}
	return byte(r), true
}

// itCall matches it(tok.X)
func itCall(e ast.Expr) (string, bool) {
	call, ok := e.(*ast.CallExpr)
	if !ok || len(call.Args) != 1 {
		return "", false
	}
	if id, ok := call.Fun.(*ast.Ident); !ok || id.Name != "it" {
		return "", false
	}
	return tokSel(call.Args[0])
}

// walkOps flattens one clause. ok=false: not an operator-shaped clause.
// terminated: the statement list always returns.
func walkOps(prefix string, stmts []ast.Stmt, out *[]opEntry) (terminated, ok bool) {
	for i, s := range stmts {
		switch s := s.(type) {
		case *ast.ReturnStmt:
			if len(s.Results) != 1 || i != len(stmts)-1 {
				return false, false
			}
			tn, ok := itCall(s.Results[0])
			if !ok {
				return false, false
			}
			*out = append(*out, opEntry{prefix, tn})
			return true, true
		case *ast.IfStmt:
			for cur := s; cur != nil; {
				if cur.Init != nil {
					return false, false
				}
				c, ok := matchCall(cur.Cond)
				if !ok {
					return false, false
				}
				term, ok := walkOps(prefix+string([]byte{c}), cur.Body.List, out)
				if !ok || !term {
					return false, false // a branch that consumed a byte must return a token
				}
				switch e := cur.Else.(type) {
				case nil:
					cur = nil
				case *ast.IfStmt:
					cur = e
				default:
					return false, false
				}
			}
		default:
			return false, false
		}
	}
	return false, true
}

func init() {
	register("Lexer", func(repo string, out *strings.Builder) error {
		g := parseGo(filepath.Join(repo, "compile/lexer/lexer.go"))
		gq := parseGo(filepath.Join(repo, "compile/lexer/querylexer.go"))
		out.WriteString("import Gsu.Gen.Ascii\nnamespace Gsu.Gen.Lexer\nopen Gsu.Gen.Ascii\n\n")

		fmt.Fprintf(out, "def eofByte : Nat := %s\n\n", g.intConst("eof"))

		for _, kt := range []struct {
			g        *goFile
			fn, name string
		}{{g, "keyword", "keywords"}, {gq, "queryKeyword", "queryKeywords"}} {
			tab, err := keywordTable(kt.g, kt.fn)
			if err != nil {
				return err
			}
			fmt.Fprintf(out, "/-- %s: (length in the `case`, keyword, token) -/\n", kt.fn)
			fmt.Fprintf(out, "def %s : List (Nat × List UInt8 × String) := [\n", kt.name)
			for i, e := range tab {
				sep := ","
				if i == len(tab)-1 {
					sep = ""
				}
				fmt.Fprintf(out, "  (%s, %s, %q)%s -- %s\n", e[0], byteList(e[1]), e[2], sep, e[1])
			}
			out.WriteString("]\n\n")
		}

		// Lexer.next: switch c { … }; return it(tok.Error)
		next := g.method("Lexer", "next")
		var sw *ast.SwitchStmt
		for _, s := range next.Body.List {
			if x, ok := s.(*ast.SwitchStmt); ok {
				sw = x
			}
		}
		if sw == nil {
			return fmt.Errorf("Lexer.next: no switch")
		}
		if id, ok := sw.Tag.(*ast.Ident); !ok || id.Name != "c" {
			return fmt.Errorf("Lexer.next: switch tag is not c")
		}
		lastRet, ok := next.Body.List[len(next.Body.List)-1].(*ast.ReturnStmt)
		if !ok || len(lastRet.Results) != 1 {
			return fmt.Errorf("Lexer.next: does not end with return it(tok.Error)")
		}
		fallTok, ok := itCall(lastRet.Results[0])
		if !ok {
			return fmt.Errorf("Lexer.next: does not end with return it(tok.X)")
		}
		var ops []opEntry
		var specials []int
		hasDefault, hasEof := false, false
		for _, c := range sw.Body.List {
			cc := c.(*ast.CaseClause)
			if cc.List == nil {
				hasDefault = true
				continue
			}
			if len(cc.List) == 1 {
				if id, ok := cc.List[0].(*ast.Ident); ok && id.Name == "eof" {
					hasEof = true
					continue
				}
			}
			var chars []byte
			for _, e := range cc.List {
				ch, ok := charLit(e)
				if !ok {
					return fmt.Errorf("Lexer.next: case label is not a character")
				}
				chars = append(chars, ch)
			}
			var sub []opEntry
			term, isOp := false, false
			if len(chars) == 1 {
				term, isOp = walkOps(string(chars), cc.Body, &sub)
			}
			if !isOp {
				for _, ch := range chars {
					specials = append(specials, int(ch))
				}
				continue
			}
			if !term { // falls out of the switch to the final return
				sub = append(sub, opEntry{string(chars), fallTok})
			}
			ops = append(ops, sub...)
		}
		if !hasDefault || !hasEof {
			return fmt.Errorf("Lexer.next: missing default or eof case")
		}
		sort.Ints(specials)
		out.WriteString("/-- operator / punctuation clauses of Lexer.next, flattened -/\n")
		out.WriteString("def opTable : List (List UInt8 × String) := [\n")
		for i, e := range ops {
			sep := ","
			if i == len(ops)-1 {
				sep = ""
			}
			fmt.Fprintf(out, "  (%s, %q)%s -- %s\n", byteList(e.text), e.tok, sep, e.text)
		}
		out.WriteString("]\n\n")
		fmt.Fprintf(out, "/-- token of the final `return it(tok.…)` of Lexer.next -/\ndef fallToken : String := %q\n\n", fallTok)
		out.WriteString("/-- first bytes handled by clauses that are not plain operator tries -/\ndef specials : List Nat := [")
		for i, s := range specials {
			if i > 0 {
				out.WriteString(", ")
			}
			fmt.Fprintf(out, "%d", s)
		}
		out.WriteString("]\n")

		charLitsToInts(g.file)
		g.emitIntFn(out, g.fn("digit"), "digit", nil)
		g.emitIntFn(out, g.fn("isIdentChar"), "isIdentChar", nil)
		out.WriteString("\nend Gsu.Gen.Lexer\n")
		return nil
	})
}
