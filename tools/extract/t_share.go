package main

import (
	"fmt"
	"go/ast"
	"go/token"
	"path/filepath"
	"strings"
)

// Share: the copy-before-write facts of the schema mutators (C02 no_shared_mutation).
//
//	getSchemaClonesIndexes      metaUpdate.getSchema: `cp.Indexes = slc.Clone(cp.Indexes)`
//	cloneIndexesInAlterRename   Meta.AlterRename: `tsNew.Indexes = slc.Clone(ts.Indexes)` before the
//	                            first loop (which writes through &tsNew.Indexes[i])
//	cloneFkToHereBeforeWrite    updateOtherFkToHere: `ix.FkToHere = slc.Clone(ix.FkToHere)` inside the
//	                            loops and before the write `fk2.IIndex = …`
//	renameFkeyClonesFkToHere    renameFkey: `targetIdx.FkToHere = slc.Clone(targetIdx.FkToHere)` before
//	                            the loop that writes `fk.Columns`
//	hamtGuards                  util/hamt: each recursive mutator of node (with, without, pullUp)
//	                            starts with `if nd.generation != gen { nd = nd.dup() … }`
func init() {
	register("Share", func(repo string, out *strings.Builder) error {
		out.WriteString("namespace Gsu.Gen.Share\n\n")
		m := parseGo(filepath.Join(repo, "db19/meta/meta.go"))

		// position of the first statement `<x>.<field> = slc.Clone(<y>.<field>)` (or slices.Clone) in fd
		clonePos := func(fd *ast.FuncDecl, field string) token.Pos {
			var pos token.Pos
			ast.Inspect(fd.Body, func(n ast.Node) bool {
				as, ok := n.(*ast.AssignStmt)
				if !ok || pos != token.NoPos || len(as.Lhs) != 1 || len(as.Rhs) != 1 {
					return true
				}
				lhs, ok := as.Lhs[0].(*ast.SelectorExpr)
				if !ok || lhs.Sel.Name != field {
					return true
				}
				call, ok := as.Rhs[0].(*ast.CallExpr)
				if !ok || len(call.Args) != 1 {
					return true
				}
				fn, ok := call.Fun.(*ast.SelectorExpr)
				if !ok || fn.Sel.Name != "Clone" {
					return true
				}
				arg, ok := call.Args[0].(*ast.SelectorExpr)
				if ok && arg.Sel.Name == field {
					pos = as.Pos()
				}
				return true
			})
			return pos
		}
		// position of the first assignment to `<x>.<field>` whose rhs is not a Clone call
		writePos := func(fd *ast.FuncDecl, field string) token.Pos {
			var pos token.Pos
			ast.Inspect(fd.Body, func(n ast.Node) bool {
				as, ok := n.(*ast.AssignStmt)
				if !ok || pos != token.NoPos || len(as.Lhs) != 1 {
					return true
				}
				if lhs, ok := as.Lhs[0].(*ast.SelectorExpr); ok && lhs.Sel.Name == field {
					pos = as.Pos()
				}
				return true
			})
			return pos
		}
		firstFor := func(fd *ast.FuncDecl) (token.Pos, token.Pos) {
			var p, e token.Pos
			ast.Inspect(fd.Body, func(n ast.Node) bool {
				if p != token.NoPos {
					return false
				}
				switch s := n.(type) {
				case *ast.RangeStmt:
					p, e = s.Pos(), s.End()
				case *ast.ForStmt:
					p, e = s.Pos(), s.End()
				}
				return true
			})
			return p, e
		}
		b := func(v bool) string { return fmt.Sprint(v) }

		gs := m.method("metaUpdate", "getSchema")
		fmt.Fprintf(out, "def getSchemaClonesIndexes : Bool := %s\n", b(clonePos(gs, "Indexes") != token.NoPos))

		ar := m.method("Meta", "AlterRename")
		cp := clonePos(ar, "Indexes")
		fp, _ := firstFor(ar)
		if fp == token.NoPos {
			return fmt.Errorf("AlterRename: loop over the indexes not found")
		}
		fmt.Fprintf(out, "def cloneIndexesInAlterRename : Bool := %s\n", b(cp != token.NoPos && cp < fp))

		uo := m.fn("updateOtherFkToHere")
		cp = clonePos(uo, "FkToHere")
		wp := writePos(uo, "IIndex")
		fp, fe := firstFor(uo)
		if wp == token.NoPos || fp == token.NoPos {
			return fmt.Errorf("updateOtherFkToHere: write of IIndex / loop not found")
		}
		fmt.Fprintf(out, "def cloneFkToHereBeforeWrite : Bool := %s\n",
			b(cp != token.NoPos && cp < wp && fp < cp && cp < fe))

		rf := m.method("Meta", "renameFkey")
		cp = clonePos(rf, "FkToHere")
		fp, _ = firstFor(rf)
		fmt.Fprintf(out, "def renameFkeyClonesFkToHere : Bool := %s\n", b(cp != token.NoPos && fp != token.NoPos && cp < fp))

		// util/hamt
		hm := parseGo(filepath.Join(repo, "util/hamt/hamt.go"))
		out.WriteString("\n/-- (method of node, its body starts with the path-copy guard) -/\n")
		out.WriteString("def hamtGuards : List (String × Bool) := [")
		guards := map[string]bool{}
		for i, name := range []string{"with", "without", "pullUp"} {
			fd := genericMethod(hm, "node", name)
			ok := false
			if len(fd.Body.List) > 0 {
				if is, isIf := fd.Body.List[0].(*ast.IfStmt); isIf {
					if be, isBin := is.Cond.(*ast.BinaryExpr); isBin && be.Op == token.NEQ {
						l, lok := be.X.(*ast.SelectorExpr)
						r, rok := be.Y.(*ast.Ident)
						if lok && rok && l.Sel.Name == "generation" && r.Name == "gen" {
							// body must contain `nd = nd.dup()`
							ast.Inspect(is.Body, func(n ast.Node) bool {
								if ce, isCall := n.(*ast.CallExpr); isCall {
									if se, isSel := ce.Fun.(*ast.SelectorExpr); isSel && se.Sel.Name == "dup" {
										ok = true
									}
								}
								return true
							})
						}
					}
				}
			}
			guards[name] = ok
			if i > 0 {
				out.WriteString(", ")
			}
			fmt.Fprintf(out, "(%q, %v)", name, ok)
		}
		out.WriteString("]\n")
		fmt.Fprintf(out, "def pullUpGuard : Bool := %v\n", guards["pullUp"])
		fmt.Fprintf(out, "def hamtPathCopies : Bool := %v\n", guards["with"] && guards["without"] && guards["pullUp"])
		out.WriteString("\nend Gsu.Gen.Share\n")
		return nil
	})
}

// genericMethod finds `func (recv *T[...]) name` (translate.go's method() only knows plain receivers)
func genericMethod(g *goFile, recv, name string) *ast.FuncDecl {
	for _, d := range g.file.Decls {
		fd, ok := d.(*ast.FuncDecl)
		if !ok || fd.Name.Name != name || fd.Recv == nil || len(fd.Recv.List) == 0 {
			continue
		}
		t := fd.Recv.List[0].Type
		if s, ok := t.(*ast.StarExpr); ok {
			t = s.X
		}
		switch x := t.(type) {
		case *ast.IndexListExpr:
			t = x.X
		case *ast.IndexExpr:
			t = x.X
		}
		if id, ok := t.(*ast.Ident); ok && id.Name == recv {
			return fd
		}
	}
	panic("method " + recv + "." + name + " not found")
}
