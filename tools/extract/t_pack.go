package main

import (
	"bytes"
	"fmt"
	"go/ast"
	"go/printer"
	"path/filepath"
	"strings"
)

// packNodeText prints an AST node back as (gofmt-normalised) source text
func packNodeText(g *goFile, n ast.Node) string {
	var b bytes.Buffer
	if err := printer.Fprint(&b, g.fset, n); err != nil {
		panic(err)
	}
	return b.String()
}

// Pack: the constants of core/pack.go, core/sudnum.go and util/dnum/dnum.go the C13 theorems
// mention: the pack tags (their order is the order of packed values of different types),
// the divisors of the unrolled coefficient loop, the nesting limit, the dnum coefficient range.
func init() {
	register("Pack", func(repo string, out *strings.Builder) error {
		g := parseGo(filepath.Join(repo, "core/pack.go"))
		out.WriteString("namespace Gsu.Gen.Pack\n\n")
		tags := []string{"PackFalse", "PackTrue", "PackMinus", "PackPlus", "PackString", "PackDate",
			"PackObject", "PackRecord"}
		for _, c := range tags {
			fmt.Fprintf(out, "def c%s : Nat := %s\n", c, g.intConst(c))
		}
		// the tags in source order (as a list, for `tag_order`)
		out.WriteString("def tagsInOrder : List Nat := [")
		for i, c := range tags {
			if i > 0 {
				out.WriteString(", ")
			}
			out.WriteString("c" + c)
		}
		out.WriteString("]\n")
		fmt.Fprintf(out, "def nestingLimit : Nat := %s\n", g.intConst("nestingLimit"))

		d := parseGo(filepath.Join(repo, "core/sudnum.go"))
		for _, c := range []string{"E14", "E12", "E10", "E8", "E6", "E4", "E2"} {
			fmt.Fprintf(out, "def c%s : Nat := %s\n", c, d.intConst(c))
		}
		// the unrolled loop of SuDnum.Pack must divide by E14, E12, … E2 in this order
		fd := d.method("SuDnum", "Pack")
		src := packNodeText(d, fd)
		pos := 0
		for _, c := range []string{"E14", "E12", "E10", "E8", "E6", "E4", "E2"} {
			want := "coef/" + c
			i := strings.Index(src[pos:], want)
			if i < 0 {
				return fmt.Errorf("SuDnum.Pack: expected %s after offset %d", want, pos)
			}
			pos += i
			j := strings.Index(src[pos:], "coef %= "+c)
			if j < 0 {
				return fmt.Errorf("SuDnum.Pack: expected coef %%= %s", c)
			}
			pos += j
		}
		if strings.Count(src, "buf.Put1(") != 11 { // 2 tags + exponent + 8 coefficient bytes
			return fmt.Errorf("SuDnum.Pack: expected 11 Put1 calls, found %d", strings.Count(src, "buf.Put1("))
		}

		n := parseGo(filepath.Join(repo, "util/dnum/dnum.go"))
		for _, c := range []string{"coefMin", "coefMax", "digitsMax"} {
			fmt.Fprintf(out, "def %s : Nat := %s\n", c, n.intConst(c))
		}
		out.WriteString("\nend Gsu.Gen.Pack\n")
		return nil
	})
}
