package main

// Mini translator: straight-line integer Go functions -> Lean 4 defs over Int.
// Supported: := / = (shadowing lets), if/else-return chains, tagless switch with returning
// cases, return expr, + - * / % comparisons && || !, integer conversions, calls to other
// translated functions, named integer constants of the same file (resolved by go/types).
// Anything else panics -> the target fails -> broken obligation.

import (
	"fmt"
	"go/ast"
	"go/constant"
	"go/importer"
	"go/parser"
	"go/token"
	"go/types"
	"strings"
)

type goFile struct {
	fset   *token.FileSet
	file   *ast.File
	consts map[string]string // integer constants → exact decimal
	sconst map[string]string // string constants
}

func parseGo(path string) *goFile {
	fset := token.NewFileSet()
	f, err := parser.ParseFile(fset, path, nil, parser.ParseComments)
	if err != nil {
		panic(err)
	}
	g := &goFile{fset: fset, file: f, consts: map[string]string{}, sconst: map[string]string{}}
	conf := types.Config{Importer: importer.Default(), Error: func(error) {}}
	info := &types.Info{Defs: map[*ast.Ident]types.Object{}}
	conf.Check("p", fset, []*ast.File{f}, info)
	for id, obj := range info.Defs {
		if c, ok := obj.(*types.Const); ok {
			switch c.Val().Kind() {
			case constant.Int:
				g.consts[id.Name] = c.Val().ExactString()
			case constant.String:
				g.sconst[id.Name] = constant.StringVal(c.Val())
			}
		}
	}
	return g
}

func (g *goFile) fn(name string) *ast.FuncDecl {
	for _, d := range g.file.Decls {
		if fd, ok := d.(*ast.FuncDecl); ok && fd.Name.Name == name {
			return fd
		}
	}
	panic("function " + name + " not found")
}

// method finds func (recv T) name
func (g *goFile) method(recv, name string) *ast.FuncDecl {
	for _, d := range g.file.Decls {
		fd, ok := d.(*ast.FuncDecl)
		if !ok || fd.Name.Name != name || fd.Recv == nil || len(fd.Recv.List) == 0 {
			continue
		}
		t := fd.Recv.List[0].Type
		if s, ok := t.(*ast.StarExpr); ok {
			t = s.X
		}
		if id, ok := t.(*ast.Ident); ok && id.Name == recv {
			return fd
		}
	}
	panic("method " + recv + "." + name + " not found")
}

func (g *goFile) intConst(name string) string {
	v, ok := g.consts[name]
	if !ok {
		panic("integer constant " + name + " not found")
	}
	return v
}

// emitIntFn translates fd into `def <leanName> (params : Int) : Int|Bool`.
// paramNames overrides the parameter list (for struct params flattened as t1start …).
func (g *goFile) emitIntFn(out *strings.Builder, fd *ast.FuncDecl, leanName string, paramNames []string) {
	var params []string
	if paramNames != nil {
		params = paramNames
	} else {
		for _, p := range fd.Type.Params.List {
			for _, n := range p.Names {
				params = append(params, n.Name)
			}
		}
	}
	ret := "Int"
	if id, ok := fd.Type.Results.List[0].Type.(*ast.Ident); ok && id.Name == "bool" {
		ret = "Bool"
	}
	ps := ""
	if len(params) > 0 {
		ps = " (" + strings.Join(params, " ") + " : Int)"
	}
	fmt.Fprintf(out, "\ndef %s%s : %s :=\n", leanName, ps, ret)
	out.WriteString(g.stmts(fd.Body.List, "  "))
	out.WriteString("\n")
}

func (g *goFile) stmts(list []ast.Stmt, ind string) string {
	if len(list) == 0 {
		panic("control reaches end of function without return")
	}
	s := list[0]
	rest := list[1:]
	switch s := s.(type) {
	case *ast.ReturnStmt:
		return ind + g.expr(s.Results[0])
	case *ast.AssignStmt:
		if len(s.Lhs) != 1 {
			panic("multi-assign")
		}
		name := s.Lhs[0].(*ast.Ident).Name
		rhs := g.expr(s.Rhs[0])
		switch s.Tok {
		case token.ADD_ASSIGN:
			rhs = "(" + name + " + " + rhs + ")"
		case token.SUB_ASSIGN:
			rhs = "(" + name + " - " + rhs + ")"
		case token.ASSIGN, token.DEFINE:
		default:
			panic("unsupported assign op " + s.Tok.String())
		}
		return ind + "let " + name + " := " + rhs + "\n" + g.stmts(rest, ind)
	case *ast.IfStmt:
		if s.Init != nil {
			panic("if with init")
		}
		// `if c { x = e }` without else and without return: turn into let x := if c then e else x
		if s.Else == nil && len(s.Body.List) == 1 {
			if as, ok := s.Body.List[0].(*ast.AssignStmt); ok && as.Tok == token.ASSIGN && len(as.Lhs) == 1 {
				name := as.Lhs[0].(*ast.Ident).Name
				return ind + "let " + name + " := if " + g.expr(s.Cond) + " then " + g.expr(as.Rhs[0]) +
					" else " + name + "\n" + g.stmts(rest, ind)
			}
		}
		then := g.stmts(append(append([]ast.Stmt{}, s.Body.List...), restIfNoReturn(s.Body.List, rest)...), ind+"  ")
		var els string
		if s.Else != nil {
			if blk, ok := s.Else.(*ast.BlockStmt); ok {
				els = g.stmts(append(append([]ast.Stmt{}, blk.List...), rest...), ind+"  ")
			} else {
				els = g.stmts(append([]ast.Stmt{s.Else}, rest...), ind+"  ")
			}
		} else {
			els = g.stmts(rest, ind+"  ")
		}
		return ind + "if " + g.expr(s.Cond) + " then\n" + then + "\n" + ind + "else\n" + els
	case *ast.SwitchStmt:
		if s.Tag != nil || s.Init != nil {
			panic("switch with tag/init")
		}
		var out string
		depth := 0
		for _, c := range s.Body.List {
			cc := c.(*ast.CaseClause)
			pad := ind + strings.Repeat("  ", depth)
			if cc.List == nil {
				return out + g.stmts(append(append([]ast.Stmt{}, cc.Body...), restIfNoReturn(cc.Body, rest)...), pad)
			}
			var conds []string
			for _, e := range cc.List {
				conds = append(conds, g.expr(e))
			}
			out += pad + "if " + strings.Join(conds, " || ") + " then\n" +
				g.stmts(append(append([]ast.Stmt{}, cc.Body...), restIfNoReturn(cc.Body, rest)...), pad+"  ") +
				"\n" + pad + "else\n"
			depth++
		}
		return out + g.stmts(rest, ind+strings.Repeat("  ", depth))
	}
	panic(fmt.Sprintf("unsupported stmt %T", s))
}

func restIfNoReturn(body []ast.Stmt, rest []ast.Stmt) []ast.Stmt {
	if len(body) > 0 {
		if _, ok := body[len(body)-1].(*ast.ReturnStmt); ok {
			return nil
		}
	}
	return rest
}

func (g *goFile) expr(e ast.Expr) string {
	switch e := e.(type) {
	case *ast.BasicLit:
		if e.Kind != token.INT {
			panic("non-int literal " + e.Value)
		}
		v := constant.MakeFromLiteral(e.Value, token.INT, 0)
		return v.ExactString()
	case *ast.Ident:
		if v, ok := g.consts[e.Name]; ok {
			return "(" + v + " : Int)"
		}
		if e.Name == "true" || e.Name == "false" {
			return e.Name
		}
		return e.Name
	case *ast.ParenExpr:
		return "(" + g.expr(e.X) + ")"
	case *ast.SelectorExpr:
		return g.expr(e.X) + e.Sel.Name // t1.end -> t1end
	case *ast.UnaryExpr:
		switch e.Op {
		case token.SUB:
			return "(-" + g.expr(e.X) + ")"
		case token.NOT:
			return "(!" + g.expr(e.X) + ")"
		}
	case *ast.CallExpr:
		if id, ok := e.Fun.(*ast.Ident); ok {
			switch id.Name {
			case "int64", "int", "int32", "uint64", "uint32", "uint", "int16", "uint16":
				return g.expr(e.Args[0])
			}
			var as []string
			for _, a := range e.Args {
				as = append(as, "("+g.expr(a)+")")
			}
			return "(" + id.Name + " " + strings.Join(as, " ") + ")"
		}
	case *ast.BinaryExpr:
		x, y := g.expr(e.X), g.expr(e.Y)
		switch e.Op {
		case token.QUO:
			return "(Int.tdiv (" + x + ") (" + y + "))"
		case token.REM:
			return "(Int.tmod (" + x + ") (" + y + "))"
		case token.LAND:
			return "(" + x + " && " + y + ")"
		case token.LOR:
			return "(" + x + " || " + y + ")"
		case token.EQL:
			return "(" + x + " == " + y + ")"
		case token.NEQ:
			return "(" + x + " != " + y + ")"
		case token.LSS, token.GTR, token.LEQ, token.GEQ:
			return "(decide (" + x + " " + e.Op.String() + " " + y + "))"
		case token.ADD, token.SUB, token.MUL:
			return "(" + x + " " + e.Op.String() + " " + y + ")"
		}
		panic("unsupported binary op " + e.Op.String())
	}
	panic(fmt.Sprintf("unsupported expr %T", e))
}

// leanStr writes a Go string as a Lean string literal (bytes > 0x7e and control chars escaped)
func leanStr(s string) string {
	var sb strings.Builder
	sb.WriteByte('"')
	for _, c := range []byte(s) {
		switch {
		case c == '"':
			sb.WriteString("\\\"")
		case c == '\\':
			sb.WriteString("\\\\")
		case c >= 0x20 && c < 0x7f:
			sb.WriteByte(c)
		default:
			fmt.Fprintf(&sb, "\\x%02x", c)
		}
	}
	sb.WriteByte('"')
	return sb.String()
}
