package main

// FkModes: what db19/tran.go and db19/meta/schema/schema.go say about foreign key modes (C08):
//   - the mode bit constants,
//   - the mode test of fkeyDeleteBlock as it is reached from Delete and from update
//     (parameters of fkeyDeleteBlock bound to the call site's arguments),
//   - the mode tests of fkeyDeleteCascade / fkeyUpdateCascade,
//   - whether each of the three helpers starts with the `key == ""` guard,
//   - whether the trigger call of Output/Delete/update is protected by recover+Abort (C44).

import (
	"fmt"
	"go/ast"
	"go/token"
	"path/filepath"
	"strings"
)

type fkx struct {
	tran   *goFile
	consts map[string]string // schema.X
}

// modeExpr translates a boolean/integer expression over `<x>.Mode`, `schema.<C>` and bound names
func (x *fkx) modeExpr(e ast.Expr, env map[string]string) string {
	switch e := e.(type) {
	case *ast.ParenExpr:
		return "(" + x.modeExpr(e.X, env) + ")"
	case *ast.BasicLit:
		if e.Kind == token.INT {
			return e.Value
		}
	case *ast.Ident:
		if v, ok := env[e.Name]; ok {
			return v
		}
	case *ast.SelectorExpr:
		if e.Sel.Name == "Mode" {
			return "mode"
		}
		if id, ok := e.X.(*ast.Ident); ok && id.Name == "schema" {
			if v, ok := x.consts[e.Sel.Name]; ok {
				return v
			}
		}
	case *ast.BinaryExpr:
		a, b := x.modeExpr(e.X, env), x.modeExpr(e.Y, env)
		switch e.Op {
		case token.AND:
			return "(" + a + " &&& " + b + ")"
		case token.OR:
			return "(" + a + " ||| " + b + ")"
		case token.EQL:
			return "(" + a + " == " + b + ")"
		case token.NEQ:
			return "(" + a + " != " + b + ")"
		case token.LAND:
			return "(" + a + " && " + b + ")"
		case token.LOR:
			return "(" + a + " || " + b + ")"
		}
	}
	panic(fmt.Sprintf("fk mode expression has an unexpected shape: %T", e))
}

func mentionsMode(e ast.Expr) bool {
	found := false
	ast.Inspect(e, func(n ast.Node) bool {
		if s, ok := n.(*ast.SelectorExpr); ok && s.Sel.Name == "Mode" {
			found = true
		}
		return true
	})
	return found
}

// modeConjunct returns the conjunct of an `a && b` chain that mentions .Mode
func modeConjunct(e ast.Expr) ast.Expr {
	if b, ok := e.(*ast.BinaryExpr); ok && b.Op == token.LAND {
		if mentionsMode(b.X) {
			return modeConjunct(b.X)
		}
		return modeConjunct(b.Y)
	}
	if !mentionsMode(e) {
		panic("no .Mode test found")
	}
	return e
}

// firstModeIf finds the first `if` (anywhere in fd) whose condition mentions .Mode
func firstModeIf(fd *ast.FuncDecl) *ast.IfStmt {
	var res *ast.IfStmt
	ast.Inspect(fd.Body, func(n ast.Node) bool {
		if is, ok := n.(*ast.IfStmt); ok && res == nil && mentionsMode(is.Cond) {
			res = is
		}
		return res == nil
	})
	if res == nil {
		panic("no if statement testing .Mode in " + fd.Name.Name)
	}
	return res
}

// emptyGuard: does fd start with `if key == "" { return }`
func emptyGuard(fd *ast.FuncDecl) bool {
	for _, st := range fd.Body.List {
		is, ok := st.(*ast.IfStmt)
		if !ok {
			if _, isAssign := st.(*ast.AssignStmt); isAssign {
				continue
			}
			return false
		}
		be, ok := is.Cond.(*ast.BinaryExpr)
		if !ok || be.Op != token.EQL {
			return false
		}
		id, ok1 := be.X.(*ast.Ident)
		lit, ok2 := be.Y.(*ast.BasicLit)
		if !ok1 || !ok2 || id.Name != "key" || lit.Value != `""` || len(is.Body.List) != 1 {
			return false
		}
		_, isRet := is.Body.List[0].(*ast.ReturnStmt)
		return isRet
	}
	return false
}

// callArgs finds the call of method `callee` inside fd and binds callee's parameter names to
// the translated arguments
func (x *fkx) callEnv(fd *ast.FuncDecl, callee *ast.FuncDecl) map[string]string {
	var call *ast.CallExpr
	ast.Inspect(fd.Body, func(n ast.Node) bool {
		if c, ok := n.(*ast.CallExpr); ok && call == nil {
			if s, ok := c.Fun.(*ast.SelectorExpr); ok && s.Sel.Name == callee.Name.Name {
				call = c
			}
		}
		return call == nil
	})
	if call == nil {
		panic(fd.Name.Name + " does not call " + callee.Name.Name)
	}
	env := map[string]string{}
	i := 0
	for _, p := range callee.Type.Params.List {
		for _, n := range p.Names {
			if i < len(call.Args) {
				func() {
					defer func() { recover() }() // arguments that are not mode expressions stay unbound
					env[n.Name] = x.modeExpr(call.Args[i], nil)
				}()
			}
			i++
		}
	}
	return env
}

// protectedTrigger: the statement of fd that calls a trigger runs under `defer … recover … Abort`.
// Accepts a direct `t.db.CallTrigger(…)` (unprotected) or a helper method whose body defers a
// function that calls recover() and Abort().
func protectedTrigger(g *goFile, fd *ast.FuncDecl) bool {
	last := fd.Body.List[len(fd.Body.List)-1]
	if _, ok := last.(*ast.ReturnStmt); ok && len(fd.Body.List) > 1 {
		last = fd.Body.List[len(fd.Body.List)-2]
	}
	es, ok := last.(*ast.ExprStmt)
	if !ok {
		panic("trigger call not found at the end of " + fd.Name.Name)
	}
	call, ok := es.X.(*ast.CallExpr)
	if !ok {
		panic("trigger call not found at the end of " + fd.Name.Name)
	}
	sel, ok := call.Fun.(*ast.SelectorExpr)
	if !ok {
		panic("trigger call not found at the end of " + fd.Name.Name)
	}
	if sel.Sel.Name == "CallTrigger" {
		return false
	}
	helper := g.method("UpdateTran", sel.Sel.Name)
	hasDefer, callsTrigger := false, false
	ast.Inspect(helper.Body, func(n ast.Node) bool {
		switch n := n.(type) {
		case *ast.DeferStmt:
			rec, abort := false, false
			ast.Inspect(n, func(m ast.Node) bool {
				if c, ok := m.(*ast.CallExpr); ok {
					if id, ok := c.Fun.(*ast.Ident); ok && id.Name == "recover" {
						rec = true
					}
					if s, ok := c.Fun.(*ast.SelectorExpr); ok && s.Sel.Name == "Abort" {
						abort = true
					}
				}
				return true
			})
			hasDefer = hasDefer || (rec && abort)
		case *ast.CallExpr:
			if s, ok := n.Fun.(*ast.SelectorExpr); ok && s.Sel.Name == "CallTrigger" {
				callsTrigger = true
			}
		}
		return true
	})
	if !callsTrigger {
		panic("helper " + sel.Sel.Name + " does not call CallTrigger")
	}
	return hasDefer
}

func init() {
	register("FkModes", func(repo string, out *strings.Builder) error {
		sc := parseGo(filepath.Join(repo, "db19/meta/schema/schema.go"))
		tr := parseGo(filepath.Join(repo, "db19/tran.go"))
		x := &fkx{tran: tr, consts: map[string]string{}}
		out.WriteString("namespace Gsu.Gen.FkModes\n\n")
		for _, c := range []string{"Block", "CascadeUpdates", "CascadeDeletes", "Cascade"} {
			v := sc.intConst(c)
			x.consts[c] = v
			fmt.Fprintf(out, "def c%s : Nat := %s\n", c, v)
		}
		fmt.Fprintf(out, "def writeMax : Nat := %s\n\n", tr.intConst("writeMax"))

		blk := tr.method("UpdateTran", "fkeyDeleteBlock")
		cond := modeConjunct(firstModeIf(blk).Cond)
		fmt.Fprintf(out, "/-- `fkeyDeleteBlock` as called from `Delete` -/\ndef deleteBlocks (mode : Nat) : Bool := %s\n",
			x.modeExpr(cond, x.callEnv(tr.method("UpdateTran", "Delete"), blk)))
		fmt.Fprintf(out, "/-- `fkeyDeleteBlock` as called from `update` -/\ndef updateBlocks (mode : Nat) : Bool := %s\n",
			x.modeExpr(cond, x.callEnv(tr.method("UpdateTran", "update"), blk)))

		dc := tr.method("UpdateTran", "fkeyDeleteCascade")
		fmt.Fprintf(out, "/-- `fkeyDeleteCascade`: the key is cascaded when -/\ndef cascadesDeletes (mode : Nat) : Bool := %s\n",
			x.modeExpr(modeConjunct(firstModeIf(dc).Cond), nil))
		uc := tr.method("UpdateTran", "fkeyUpdateCascade")
		uif := firstModeIf(uc)
		if len(uif.Body.List) != 1 {
			return fmt.Errorf("fkeyUpdateCascade: mode test is not `if … { continue }`")
		}
		if b, ok := uif.Body.List[0].(*ast.BranchStmt); !ok || b.Tok != token.CONTINUE {
			return fmt.Errorf("fkeyUpdateCascade: mode test is not `if … { continue }`")
		}
		fmt.Fprintf(out, "/-- `fkeyUpdateCascade`: the key is skipped when -/\ndef skipsUpdates (mode : Nat) : Bool := %s\n\n",
			x.modeExpr(modeConjunct(uif.Cond), nil))

		fmt.Fprintf(out, "def guardDeleteBlock : Bool := %v\n", emptyGuard(blk))
		fmt.Fprintf(out, "def guardDeleteCascade : Bool := %v\n", emptyGuard(dc))
		fmt.Fprintf(out, "def guardUpdateCascade : Bool := %v\n\n", emptyGuard(uc))

		fmt.Fprintf(out, "/-- the trigger call at the end of Output / Delete / update aborts the transaction on panic -/\n")
		fmt.Fprintf(out, "def triggerProtectedOutput : Bool := %v\n", protectedTrigger(tr, tr.method("UpdateTran", "Output")))
		fmt.Fprintf(out, "def triggerProtectedDelete : Bool := %v\n", protectedTrigger(tr, tr.method("UpdateTran", "Delete")))
		fmt.Fprintf(out, "def triggerProtectedUpdate : Bool := %v\n", protectedTrigger(tr, tr.method("UpdateTran", "update")))
		out.WriteString("\nend Gsu.Gen.FkModes\n")
		return nil
	})
}
