package main

import (
	"fmt"
	"go/ast"
	"go/token"
	"os"
	"path/filepath"
	"strings"
)

// Btree: size/split constants of db19/index/btree and the ixbuf flag bits MergeAndSave decodes.
func init() {
	register("Btree", func(repo string, out *strings.Builder) error {
		g := parseGo(filepath.Join(repo, "db19/index/btree/btree.go"))
		out.WriteString("namespace Gsu.Gen.Btree\n\n")
		// var splitCount = 100 (a var: tests override it through SetSplit)
		split := ""
		for _, d := range g.file.Decls {
			gd, ok := d.(*ast.GenDecl)
			if !ok || gd.Tok != token.VAR {
				continue
			}
			for _, s := range gd.Specs {
				vs := s.(*ast.ValueSpec)
				for i, n := range vs.Names {
					if n.Name == "splitCount" && i < len(vs.Values) {
						if bl, ok := vs.Values[i].(*ast.BasicLit); ok && bl.Kind == token.INT {
							split = bl.Value
						}
					}
				}
			}
		}
		if split == "" {
			return fmt.Errorf("var splitCount = <int literal> not found in btree.go")
		}
		fmt.Fprintf(out, "def splitCount : Nat := %s\n", split)
		fmt.Fprintf(out, "def maxNodeSize : Nat := %s\n", g.intConst("maxNodeSize"))
		fmt.Fprintf(out, "def treeHeight : Nat := %s\n", g.intConst("TreeHeight"))
		it := parseGo(filepath.Join(repo, "db19/index/btree/iter.go"))
		fmt.Fprintf(out, "def maxLevels : Nat := %s\n", it.intConst("maxLevels"))
		rf := parseGo(filepath.Join(repo, "db19/index/btree/rangefrac.go"))
		fmt.Fprintf(out, "def smallRoot : Nat := %s\n", rf.intConst("smallRoot"))
		ib := parseGo(filepath.Join(repo, "db19/index/ixbuf/ixbuf.go"))
		for _, c := range []string{"Update", "Delete", "Insert", "Mask"} {
			fmt.Fprintf(out, "def c%s : Nat := %s\n", c, ib.intConst(c))
		}
		// leaf builder: fieldsLimit initialiser and the size estimate of tryAdd, as written
		lf := filepath.Join(repo, "db19/index/btree/leafnode.go")
		src, err := os.ReadFile(lf)
		if err != nil {
			return err
		}
		text := string(src)
		flExpr := ""
		for _, line := range strings.Split(text, "\n") {
			if strings.HasPrefix(line, "var fieldsLimit = ") {
				flExpr = strings.TrimSpace(strings.TrimPrefix(line, "var fieldsLimit = "))
				if i := strings.Index(flExpr, "//"); i >= 0 {
					flExpr = strings.TrimSpace(flExpr[:i])
				}
			}
		}
		if flExpr == "" {
			return fmt.Errorf("leafnode.go: `var fieldsLimit = …` not found")
		}
		for _, c := range flExpr { // only constants of this package, integers, + - * and spaces
			if !(c == ' ' || c == '+' || c == '-' || c == '*' || c >= '0' && c <= '9' || c >= 'a' && c <= 'z' || c >= 'A' && c <= 'Z') {
				return fmt.Errorf("leafnode.go: fieldsLimit initialiser %q is not a simple integer expression", flExpr)
			}
		}
		fmt.Fprintf(out, "def fieldsLimit : Nat := %s\n", strings.ReplaceAll(flExpr, "*", " * "))
		const est = "size := 4 + 7*n + prelen + fieldsLen - n*prelen"
		const pre = "prefix := str.CommonPrefix(b.prefix, key)\n\t\tprelen := min(255, len(prefix))"
		lg := parseGo(lf)
		ta := lg.method("leafBuilder", "tryAdd")
		body := text[lg.fset.Position(ta.Pos()).Offset:lg.fset.Position(ta.End()).Offset]
		if !strings.Contains(body, est) || !strings.Contains(body, pre) ||
			!strings.Contains(body, "if n > splitCount {") || !strings.Contains(body, "if fieldsLen > fieldsLimit {") ||
			!strings.Contains(body, "if size > maxNodeSize {") {
			return fmt.Errorf("leafBuilder.tryAdd no longer has the mirrored shape (count test, fieldsLimit test, size estimate with the common prefix including the new key)")
		}
		out.WriteString("def leafSizeEst (n prelen fieldsLen : Nat) : Nat := 4 + 7*n + prelen + fieldsLen - n*prelen\n")
		sz := lg.method("leafBuilder", "size")
		sbody := text[lg.fset.Position(sz.Pos()).Offset:lg.fset.Position(sz.End()).Offset]
		if !strings.Contains(sbody, "prelen := min(255, len(b.prefix))") ||
			!strings.Contains(sbody, "fieldsLen := b.fieldsLen - n*prelen") ||
			!strings.Contains(sbody, "return 4 + 7*n + prelen + fieldsLen") {
			return fmt.Errorf("leafBuilder.size no longer has the mirrored shape")
		}
		out.WriteString("def prefixCap : Nat := 255\n")
		// rangefrac.go: the constants of the estimate and the two-sided clamp
		rfsrc, err := os.ReadFile(filepath.Join(repo, "db19/index/btree/rangefrac.go"))
		if err != nil {
			return err
		}
		rft := string(rfsrc)
		spread := ""
		for _, line := range strings.Split(rft, "\n") {
			t := strings.TrimSpace(line)
			if strings.HasPrefix(t, "if spread > ") {
				spread = strings.TrimSpace(strings.TrimSuffix(strings.SplitN(strings.TrimPrefix(t, "if spread > "), "{", 2)[0], " "))
			}
		}
		if spread == "" {
			return fmt.Errorf("rangefrac.go: `if spread > <n> {` not found")
		}
		for _, c := range spread {
			if c < '0' || c > '9' {
				return fmt.Errorf("rangefrac.go: spread limit %q is not an integer literal", spread)
			}
		}
		fmt.Fprintf(out, "def rfSpread : Nat := %s\n", spread)
		fmt.Fprintf(out, "def rfMaxToRead : Nat := %s\n", rf.intConst("maxToRead"))
		clampUp := 0
		if strings.Contains(rft, "if result < 0 {\n\t\t\tresult = 0\n\t\t} else if result > 1 {\n\t\t\tresult = 1\n\t\t}") {
			clampUp = 1
		}
		fmt.Fprintf(out, "/-- 1 iff rangeFrac clamps its result to [0,1] on both sides -/\ndef rfClampBoth : Nat := %d\n", clampUp)
		// the statements the abstract tree model mirrors (Model/BtreeTree, BtreeMerge, BtreeCodec)
		shapes := []struct{ file, text, what string }{
			{"builder.go", "cp := str.CommonPrefixLen(prev, key)\n\treturn key[:cp+1]", "Builder.sep"},
			{"builder.go", "newSize := tree.size() + len(sep) + 7\n\tif tree.noffs() >= splitCount || newSize > maxNodeSize {", "Builder.addTree close condition"},
			{"builder.go", "if !b.leaf.tryAdd(key, off) {", "Builder.addLeaf"},
			{"treenode.go", "return b.entrySize + 8", "treeBuilder.size"},
			{"treenode.go", "b.entrySize += len(key) + 7", "treeBuilder.add"},
			{"treenode.go", "splitPos := nkeys / 2\n\n\t// The split key is the key at the split position (NOT shortened)\n\tsplitKey = string(nd.key(splitPos))", "treeNode.splitTo"},
			{"treenode.go", "if string(nd.key(mid)) <= key {\n\t\t\tlo = mid + 1", "treeNode.search"},
			{"leafnode.go", "splitPos := nkeys / 2", "leafNode.splitTo position"},
			{"leafnode.go", "cp := str.CommonPrefixLen(string(prevSuffix), string(nextSuffix))\n\tsplitKey = cat(prefix, nextSuffix[:cp+1])", "leafNode.splitTo separator"},
			{"leafnode.go", "if (i == 0 || i == n) && !str.HasPrefix(key, prefix) {", "leafNode.insert rebuild condition"},
			{"leafnode.go", "fieldPos := 4 + n*7 + prelen // position where field data starts", "leafBuilder.finishInto layout"},
			{"leafnode.go", "if n == 1 {\n\t\tprelen = 0\n\t} else if prelen > 255 {", "leafBuilder.finishInto prefix rule"},
			{"leafnode.go", "if n-1 == 1 {\n\t\tnd[1] = 0  // clear prefix length", "leafNode.delete prefix rule"},
			{"merge.go", "return nd.noffs() > splitCount || nd.size() > maxNodeSize", "shouldSplit"},
			{"merge.go", "if st.leaf.leaf.nkeys() == 0 {\n\t\tst.dropLeaf()", "updateLeaf drop"},
			{"merge.go", "} else if shouldSplit(st.leaf.leaf) {\n\t\tst.split()", "updateLeaf split"},
			{"merge.go", "if tm.tree.noffs() > 1 {\n\t\t\tbreak\n\t\t}", "dropLeaf root popping"},
		}
		cache := map[string]string{}
		for _, sh := range shapes {
			txt, ok := cache[sh.file]
			if !ok {
				b, err := os.ReadFile(filepath.Join(repo, "db19/index/btree", sh.file))
				if err != nil {
					return err
				}
				txt = string(b)
				cache[sh.file] = txt
			}
			if !strings.Contains(txt, sh.text) {
				return fmt.Errorf("%s: %s no longer has the mirrored shape (expected %q)", sh.file, sh.what, sh.text)
			}
		}
		fmt.Fprintf(out, "/-- number of source statements checked to have the shape the tree model mirrors -/\ndef treeShapes : Nat := %d\n", len(shapes))
		// shape: the merge still goes through state.modify with the three asserted cases
		m := parseGo(filepath.Join(repo, "db19/index/btree/merge.go"))
		m.method("state", "modify")
		m.method("state", "updateLeaf")
		m.method("btree", "MergeAndSave")
		out.WriteString("\nend Gsu.Gen.Btree\n")
		return nil
	})
}
