package main

import (
	"fmt"
	"go/ast"
	"go/token"
	"os"
	"path/filepath"
	"strings"
)

// Btree: size/split constants of db19/index/btree and the ixbuf flag bits MergeAndSave decodes.
func init() {
	register("Btree", func(repo string, out *strings.Builder) error {
		g := parseGo(filepath.Join(repo, "db19/index/btree/btree.go"))
		out.WriteString("namespace Gsu.Gen.Btree\n\n")
		// var splitCount = 100 (a var: tests override it through SetSplit)
		split := ""
		for _, d := range g.file.Decls {
			gd, ok := d.(*ast.GenDecl)
			if !ok || gd.Tok != token.VAR {
				continue
			}
			for _, s := range gd.Specs {
				vs := s.(*ast.ValueSpec)
				for i, n := range vs.Names {
					if n.Name == "splitCount" && i < len(vs.Values) {
						if bl, ok := vs.Values[i].(*ast.BasicLit); ok && bl.Kind == token.INT {
							split = bl.Value
						}
					}
				}
			}
		}
		if split == "" {
			return fmt.Errorf("var splitCount = <int literal> not found in btree.go")
		}
		fmt.Fprintf(out, "def splitCount : Nat := %s\n", split)
		fmt.Fprintf(out, "def maxNodeSize : Nat := %s\n", g.intConst("maxNodeSize"))
		fmt.Fprintf(out, "def treeHeight : Nat := %s\n", g.intConst("TreeHeight"))
		it := parseGo(filepath.Join(repo, "db19/index/btree/iter.go"))
		fmt.Fprintf(out, "def maxLevels : Nat := %s\n", it.intConst("maxLevels"))
		rf := parseGo(filepath.Join(repo, "db19/index/btree/rangefrac.go"))
		fmt.Fprintf(out, "def smallRoot : Nat := %s\n", rf.intConst("smallRoot"))
		ib := parseGo(filepath.Join(repo, "db19/index/ixbuf/ixbuf.go"))
		for _, c := range []string{"Update", "Delete", "Insert", "Mask"} {
			fmt.Fprintf(out, "def c%s : Nat := %s\n", c, ib.intConst(c))
		}
		// leaf builder: fieldsLimit initialiser and the size estimate of tryAdd, as written
		lf := filepath.Join(repo, "db19/index/btree/leafnode.go")
		src, err := os.ReadFile(lf)
		if err != nil {
			return err
		}
		text := string(src)
		flExpr := ""
		for _, line := range strings.Split(text, "\n") {
			if strings.HasPrefix(line, "var fieldsLimit = ") {
				flExpr = strings.TrimSpace(strings.TrimPrefix(line, "var fieldsLimit = "))
				if i := strings.Index(flExpr, "//"); i >= 0 {
					flExpr = strings.TrimSpace(flExpr[:i])
				}
			}
		}
		if flExpr == "" {
			return fmt.Errorf("leafnode.go: `var fieldsLimit = …` not found")
		}
		for _, c := range flExpr { // only constants of this package, integers, + - * and spaces
			if !(c == ' ' || c == '+' || c == '-' || c == '*' || c >= '0' && c <= '9' || c >= 'a' && c <= 'z' || c >= 'A' && c <= 'Z') {
				return fmt.Errorf("leafnode.go: fieldsLimit initialiser %q is not a simple integer expression", flExpr)
			}
		}
		fmt.Fprintf(out, "def fieldsLimit : Nat := %s\n", strings.ReplaceAll(flExpr, "*", " * "))
		const est = "size := 4 + 7*n + prelen + fieldsLen - n*prelen"
		const pre = "prefix := str.CommonPrefix(b.prefix, key)\n\t\tprelen := min(255, len(prefix))"
		lg := parseGo(lf)
		ta := lg.method("leafBuilder", "tryAdd")
		body := text[lg.fset.Position(ta.Pos()).Offset:lg.fset.Position(ta.End()).Offset]
		if !strings.Contains(body, est) || !strings.Contains(body, pre) ||
			!strings.Contains(body, "if n > splitCount {") || !strings.Contains(body, "if fieldsLen > fieldsLimit {") ||
			!strings.Contains(body, "if size > maxNodeSize {") {
			return fmt.Errorf("leafBuilder.tryAdd no longer has the mirrored shape (count test, fieldsLimit test, size estimate with the common prefix including the new key)")
		}
		out.WriteString("def leafSizeEst (n prelen fieldsLen : Nat) : Nat := 4 + 7*n + prelen + fieldsLen - n*prelen\n")
		sz := lg.method("leafBuilder", "size")
		sbody := text[lg.fset.Position(sz.Pos()).Offset:lg.fset.Position(sz.End()).Offset]
		if !strings.Contains(sbody, "prelen := min(255, len(b.prefix))") ||
			!strings.Contains(sbody, "fieldsLen := b.fieldsLen - n*prelen") ||
			!strings.Contains(sbody, "return 4 + 7*n + prelen + fieldsLen") {
			return fmt.Errorf("leafBuilder.size no longer has the mirrored shape")
		}
		out.WriteString("def prefixCap : Nat := 255\n")
		// shape: the merge still goes through state.modify with the three asserted cases
		m := parseGo(filepath.Join(repo, "db19/index/btree/merge.go"))
		m.method("state", "modify")
		m.method("state", "updateLeaf")
		m.method("btree", "MergeAndSave")
		out.WriteString("\nend Gsu.Gen.Btree\n")
		return nil
	})
}
