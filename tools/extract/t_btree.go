package main

import (
	"fmt"
	"go/ast"
	"go/token"
	"path/filepath"
	"strings"
)

// Btree: size/split constants of db19/index/btree and the ixbuf flag bits MergeAndSave decodes.
func init() {
	register("Btree", func(repo string, out *strings.Builder) error {
		g := parseGo(filepath.Join(repo, "db19/index/btree/btree.go"))
		out.WriteString("namespace Gsu.Gen.Btree\n\n")
		// var splitCount = 100 (a var: tests override it through SetSplit)
		split := ""
		for _, d := range g.file.Decls {
			gd, ok := d.(*ast.GenDecl)
			if !ok || gd.Tok != token.VAR {
				continue
			}
			for _, s := range gd.Specs {
				vs := s.(*ast.ValueSpec)
				for i, n := range vs.Names {
					if n.Name == "splitCount" && i < len(vs.Values) {
						if bl, ok := vs.Values[i].(*ast.BasicLit); ok && bl.Kind == token.INT {
							split = bl.Value
						}
					}
				}
			}
		}
		if split == "" {
			return fmt.Errorf("var splitCount = <int literal> not found in btree.go")
		}
		fmt.Fprintf(out, "def splitCount : Nat := %s\n", split)
		fmt.Fprintf(out, "def maxNodeSize : Nat := %s\n", g.intConst("maxNodeSize"))
		fmt.Fprintf(out, "def treeHeight : Nat := %s\n", g.intConst("TreeHeight"))
		it := parseGo(filepath.Join(repo, "db19/index/btree/iter.go"))
		fmt.Fprintf(out, "def maxLevels : Nat := %s\n", it.intConst("maxLevels"))
		rf := parseGo(filepath.Join(repo, "db19/index/btree/rangefrac.go"))
		fmt.Fprintf(out, "def smallRoot : Nat := %s\n", rf.intConst("smallRoot"))
		ib := parseGo(filepath.Join(repo, "db19/index/ixbuf/ixbuf.go"))
		for _, c := range []string{"Update", "Delete", "Insert", "Mask"} {
			fmt.Fprintf(out, "def c%s : Nat := %s\n", c, ib.intConst(c))
		}
		// shape: the merge still goes through state.modify with the three asserted cases
		m := parseGo(filepath.Join(repo, "db19/index/btree/merge.go"))
		m.method("state", "modify")
		m.method("state", "updateLeaf")
		m.method("btree", "MergeAndSave")
		out.WriteString("\nend Gsu.Gen.Btree\n")
		return nil
	})
}
