package main

// TxnBlock (C42): the decision structure of the deferred function in builtin/transaction.go
// `Transaction` (block form), regenerated:
//   defer func() { if !st.Ended() { e := recover(); if COND { st.Rollback() } else { st.Complete() }
//                                   if COND2 { panic(e) } } }()
// COND / COND2 are translated into Lean Boolean functions of (e == nil) and (e == BlockReturn).

import (
	"fmt"
	"go/ast"
	"go/token"
	"path/filepath"
	"strings"
)

func txnCond(e ast.Expr) string {
	switch e := e.(type) {
	case *ast.ParenExpr:
		return "(" + txnCond(e.X) + ")"
	case *ast.UnaryExpr:
		if e.Op == token.NOT {
			return "(!" + txnCond(e.X) + ")"
		}
	case *ast.BinaryExpr:
		switch e.Op {
		case token.LAND:
			return "(" + txnCond(e.X) + " && " + txnCond(e.Y) + ")"
		case token.LOR:
			return "(" + txnCond(e.X) + " || " + txnCond(e.Y) + ")"
		case token.EQL, token.NEQ:
			x, y := srvExprString(e.X), srvExprString(e.Y)
			if y == "e" {
				x, y = y, x
			}
			atom := ""
			if x == "e" && y == "nil" {
				atom = "eNil"
			} else if x == "e" && y == "BlockReturn" {
				atom = "eBlockReturn"
			}
			if atom != "" {
				if e.Op == token.NEQ {
					return "(!" + atom + ")"
				}
				return atom
			}
		}
	}
	panic("transaction.go: unsupported condition in the deferred function")
}

func init() {
	register("TxnBlock", func(repo string, out *strings.Builder) error {
		g := parseGo(filepath.Join(repo, "builtin/transaction.go"))
		fd := g.fn("Transaction")
		bad := func(what string) error { return fmt.Errorf("builtin/transaction.go Transaction: %s", what) }
		var def *ast.DeferStmt
		ndefer := 0
		var last ast.Stmt
		for _, s := range fd.Body.List {
			if d, ok := s.(*ast.DeferStmt); ok {
				def = d
				ndefer++
			}
			last = s
		}
		if ndefer != 1 {
			return bad("expected exactly one defer")
		}
		// the block is called after the defer is installed, as the function's result
		rs, ok := last.(*ast.ReturnStmt)
		if !ok || len(rs.Results) != 1 || !strings.HasPrefix(srvExprString(rs.Results[0]), "th.Call") {
			return bad("last statement is not `return th.Call(block, st)`")
		}
		fl, ok := def.Call.Fun.(*ast.FuncLit)
		if !ok || len(fl.Body.List) != 1 {
			return bad("defer is not a function literal with a single statement")
		}
		outer, ok := fl.Body.List[0].(*ast.IfStmt)
		if !ok || outer.Else != nil {
			return bad("defer body is not a single if statement")
		}
		if u, isU := outer.Cond.(*ast.UnaryExpr); !isU || u.Op != token.NOT || srvExprString(u.X) != "st.Ended()" {
			return bad("outer condition is not !st.Ended()")
		}
		b := outer.Body.List
		if len(b) != 3 {
			return bad("expected `e := recover(); if … {Rollback} else {Complete}; if … {panic(e)}`")
		}
		as, ok := b[0].(*ast.AssignStmt)
		if !ok || srvExprString(as.Lhs[0]) != "e" || srvExprString(as.Rhs[0]) != "recover()" {
			return bad("first statement is not e := recover()")
		}
		dec, ok := b[1].(*ast.IfStmt)
		if !ok || dec.Else == nil || len(dec.Body.List) != 1 {
			return bad("second statement is not if/else")
		}
		call := func(s ast.Stmt) string {
			if es, ok := s.(*ast.ExprStmt); ok {
				return srvExprString(es.X)
			}
			return ""
		}
		eb, ok := dec.Else.(*ast.BlockStmt)
		if !ok || len(eb.List) != 1 {
			return bad("else branch shape")
		}
		thenC, elseC := call(dec.Body.List[0]), call(eb.List[0])
		thenRollback := ""
		switch {
		case thenC == "st.Rollback()" && elseC == "st.Complete()":
			thenRollback = "true"
		case thenC == "st.Complete()" && elseC == "st.Rollback()":
			thenRollback = "false"
		default:
			return bad("branches are not st.Rollback()/st.Complete()")
		}
		rp, ok := b[2].(*ast.IfStmt)
		if !ok || rp.Else != nil || len(rp.Body.List) != 1 || call(rp.Body.List[0]) != "panic()" {
			return bad("third statement is not if … { panic(e) }")
		}
		out.WriteString("namespace Gsu.Gen.TxnBlock\n\n")
		out.WriteString("/-- the deferred function acts only when the transaction has not been ended by the block -/\ndef guardNotEnded : Bool := true\n")
		fmt.Fprintf(out, "/-- condition of the if whose then-branch is %s -/\ndef cond1 (eNil eBlockReturn : Bool) : Bool := %s\n", thenC, txnCond(dec.Cond))
		fmt.Fprintf(out, "def thenIsRollback : Bool := %s\n", thenRollback)
		fmt.Fprintf(out, "/-- condition of `panic(e)` after the transaction was ended -/\ndef condRepanic (eNil eBlockReturn : Bool) : Bool := %s\n", txnCond(rp.Cond))
		out.WriteString("\nend Gsu.Gen.TxnBlock\n")
		return nil
	})
}
