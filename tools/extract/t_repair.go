package main

import (
	"fmt"
	"go/ast"
	"go/token"
	"path/filepath"
	"strconv"
	"strings"
)

// Repair: what the C05 theorems mention of db19/state.go (state record layout), db19/database.go
// (tail markers), db19/repair.go (shape of repair.search), stor/smalloffset.go, util/cksum.
func init() {
	register("Repair", func(repo string, out *strings.Builder) error {
		st := parseGo(filepath.Join(repo, "db19/state.go"))
		dbf := parseGo(filepath.Join(repo, "db19/database.go"))
		so := parseGo(filepath.Join(repo, "db19/stor/smalloffset.go"))
		ck := parseGo(filepath.Join(repo, "util/cksum/cksum.go"))
		rp := parseGo(filepath.Join(repo, "db19/repair.go"))
		out.WriteString("namespace Gsu.Gen.Repair\n\n")

		bytesDef := func(name, v string) {
			fmt.Fprintf(out, "def %s : List UInt8 := [", name)
			for i, b := range []byte(v) {
				if i > 0 {
					out.WriteString(", ")
				}
				fmt.Fprintf(out, "%d", b)
			}
			out.WriteString("]\n")
		}
		for _, c := range []string{"magic1", "magic2"} {
			v, ok := st.sconst[c]
			if !ok {
				return fmt.Errorf("%s not found in state.go", c)
			}
			bytesDef(c, v)
		}
		for _, c := range []string{"magic", "shutdown", "corrupt"} {
			v, ok := dbf.sconst[c]
			if !ok {
				return fmt.Errorf("%s not found in database.go", c)
			}
			bytesDef(c, v)
		}
		env := map[string]int64{}
		geti := func(g *goFile, name string) int64 {
			n, err := strconv.ParseInt(g.intConst(name), 10, 64)
			if err != nil {
				panic(err)
			}
			return n
		}
		env["dateSize"] = geti(st, "dateSize")
		env["stor.SmallOffsetLen"] = geti(so, "SmallOffsetLen")
		env["cksum.Len"] = geti(ck, "Len")
		env["len(magic1)"] = int64(len(st.sconst["magic1"]))
		env["len(magic2)"] = int64(len(st.sconst["magic2"]))
		// stateLen and magic2at are evaluated from their defining expressions
		for _, name := range []string{"stateLen", "magic2at"} {
			e := constExpr(st.file, name)
			if e == nil {
				return fmt.Errorf("const %s not found in state.go", name)
			}
			env[name] = evalConst(e, env)
		}
		fmt.Fprintf(out, "def dateSize : Nat := %d\n", env["dateSize"])
		fmt.Fprintf(out, "def smallOffsetLen : Nat := %d\n", env["stor.SmallOffsetLen"])
		fmt.Fprintf(out, "def cksumLen : Nat := %d\n", env["cksum.Len"])
		fmt.Fprintf(out, "def stateLen : Nat := %d\n", env["stateLen"])
		fmt.Fprintf(out, "def magic2at : Nat := %d\n", env["magic2at"])
		fmt.Fprintf(out, "def tailSize : Nat := %s\n", dbf.intConst("tailSize"))

		// ---- shape of repair.search ----
		fd := rp.method("repair", "search")
		var probeLoop, bisectLoop *ast.ForStmt
		for _, s := range fd.Body.List {
			if f, ok := s.(*ast.ForStmt); ok {
				if probeLoop == nil {
					probeLoop = f
				} else if bisectLoop == nil {
					bisectLoop = f
				}
			}
		}
		if probeLoop == nil || bisectLoop == nil {
			return fmt.Errorf("repair.search: expected two for loops")
		}
		// for skip := 1; ; skip *= 2
		ini, ok1 := probeLoop.Init.(*ast.AssignStmt)
		post, ok2 := probeLoop.Post.(*ast.AssignStmt)
		if !ok1 || !ok2 || probeLoop.Cond != nil || post.Tok != token.MUL_ASSIGN {
			return fmt.Errorf("repair.search: first loop is not `for skip := a; ; skip *= b`")
		}
		fmt.Fprintf(out, "def skipInit : Int := %s\n", rp.expr(ini.Rhs[0]))
		fmt.Fprintf(out, "def skipMul : Int := %s\n", rp.expr(post.Rhs[0]))
		// the `if done { … }` block: is there a guard `if len(offsets) == 0 { return … }` before
		// `i = len(offsets) - 1` ?
		guard := false
		foundDone := false
		for _, s := range probeLoop.Body.List {
			is, ok := s.(*ast.IfStmt)
			if !ok {
				continue
			}
			if id, ok := is.Cond.(*ast.Ident); !ok || id.Name != "done" {
				continue
			}
			foundDone = true
			for _, t := range is.Body.List {
				if as, ok := t.(*ast.AssignStmt); ok && len(as.Lhs) == 1 {
					if id, ok := as.Lhs[0].(*ast.Ident); ok && id.Name == "i" {
						break // guard must come before the assignment of i
					}
				}
				if g2, ok := t.(*ast.IfStmt); ok && isLenZero(g2.Cond, "offsets") && len(g2.Body.List) > 0 {
					if _, ok := g2.Body.List[len(g2.Body.List)-1].(*ast.ReturnStmt); ok {
						guard = true
					}
				}
			}
		}
		if !foundDone {
			return fmt.Errorf("repair.search: `if done` block not found")
		}
		fmt.Fprintf(out, "def emptyGuard : Bool := %v\n", guard)
		// for lo < hi-1 { mid := lo + (hi-lo)/2
		if bisectLoop.Cond == nil || len(bisectLoop.Body.List) == 0 {
			return fmt.Errorf("repair.search: second loop has no condition")
		}
		fmt.Fprintf(out, "def bisectCont (lo hi : Int) : Bool := %s\n", rp.expr(bisectLoop.Cond))
		mid, ok := bisectLoop.Body.List[0].(*ast.AssignStmt)
		if !ok || mid.Lhs[0].(*ast.Ident).Name != "mid" {
			return fmt.Errorf("repair.search: second loop does not start with mid := …")
		}
		fmt.Fprintf(out, "def bisectMid (lo hi : Int) : Int := %s\n", rp.expr(mid.Rhs[0]))
		// scanner.scanner: is the candidate's length checked (`len(buf) < stateLen`) before the
		// trailing magic is read? (in read mode the last chunk ends at the end of the file)
		sc := rp.method("scanner", "scanner")
		bounds := false
		ast.Inspect(sc.Body, func(n ast.Node) bool {
			if be, ok := n.(*ast.BinaryExpr); ok && be.Op == token.LSS {
				if ce, ok := be.X.(*ast.CallExpr); ok && len(ce.Args) == 1 {
					f, ok1 := ce.Fun.(*ast.Ident)
					a, ok2 := ce.Args[0].(*ast.Ident)
					y, ok3 := be.Y.(*ast.Ident)
					if ok1 && ok2 && ok3 && f.Name == "len" && a.Name == "buf" && y.Name == "stateLen" {
						bounds = true
					}
				}
			}
			return true
		})
		fmt.Fprintf(out, "def scannerBoundsCheck : Bool := %v\n", bounds)
		out.WriteString("\nend Gsu.Gen.Repair\n")
		return nil
	})
}

func isLenZero(e ast.Expr, name string) bool {
	be, ok := e.(*ast.BinaryExpr)
	if !ok || be.Op != token.EQL {
		return false
	}
	ce, ok := be.X.(*ast.CallExpr)
	if !ok || len(ce.Args) != 1 {
		return false
	}
	f, ok := ce.Fun.(*ast.Ident)
	a, ok2 := ce.Args[0].(*ast.Ident)
	z, ok3 := be.Y.(*ast.BasicLit)
	return ok && ok2 && ok3 && f.Name == "len" && a.Name == name && z.Value == "0"
}

// constExpr returns the defining expression of a package level constant
func constExpr(f *ast.File, name string) ast.Expr {
	for _, d := range f.Decls {
		gd, ok := d.(*ast.GenDecl)
		if !ok || gd.Tok != token.CONST {
			continue
		}
		for _, sp := range gd.Specs {
			vs := sp.(*ast.ValueSpec)
			for i, n := range vs.Names {
				if n.Name == name && i < len(vs.Values) {
					return vs.Values[i]
				}
			}
		}
	}
	return nil
}

// evalConst evaluates + - * over integer literals, names in env, pkg.Name in env and len(name) in env
func evalConst(e ast.Expr, env map[string]int64) int64 {
	switch e := e.(type) {
	case *ast.BasicLit:
		n, err := strconv.ParseInt(e.Value, 0, 64)
		if err != nil {
			panic(err)
		}
		return n
	case *ast.ParenExpr:
		return evalConst(e.X, env)
	case *ast.Ident:
		if v, ok := env[e.Name]; ok {
			return v
		}
		panic("evalConst: unknown name " + e.Name)
	case *ast.SelectorExpr:
		k := e.X.(*ast.Ident).Name + "." + e.Sel.Name
		if v, ok := env[k]; ok {
			return v
		}
		panic("evalConst: unknown name " + k)
	case *ast.CallExpr:
		if id, ok := e.Fun.(*ast.Ident); ok && id.Name == "len" && len(e.Args) == 1 {
			k := "len(" + e.Args[0].(*ast.Ident).Name + ")"
			if v, ok := env[k]; ok {
				return v
			}
		}
		panic("evalConst: unsupported call")
	case *ast.BinaryExpr:
		x, y := evalConst(e.X, env), evalConst(e.Y, env)
		switch e.Op {
		case token.ADD:
			return x + y
		case token.SUB:
			return x - y
		case token.MUL:
			return x * y
		}
	}
	panic(fmt.Sprintf("evalConst: unsupported %T", e))
}
