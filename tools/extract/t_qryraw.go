package main

import (
	"bytes"
	"fmt"
	"go/ast"
	"go/printer"
	"path/filepath"
	"sort"
	"strings"
)

// QryRaw (C25): which expression nodes compile/ast/expr.go evaluates on stored encodings, and
// the type tags of core/pack.go that decide the order of encodings of different types.
//
//	rawBinaryOps   the tokens of Binary.RawOp
//	rawUnaryOps    the tokens Unary.CanEvalRaw accepts
//	rawNaryOps     the tokens Nary.CanEvalRaw accepts
//	tagFalse … tagString   the pack tags
func init() {
	register("QryRaw", func(repo string, out *strings.Builder) error {
		g := parseGo(filepath.Join(repo, "compile/ast/expr.go"))
		src := func(n ast.Node) string {
			var b bytes.Buffer
			printer.Fprint(&b, g.fset, n)
			return strings.Join(strings.Fields(b.String()), " ")
		}
		// all `tok.X` selectors inside a method body
		toks := func(recv, name string) []string {
			seen := map[string]bool{}
			ast.Inspect(g.method(recv, name).Body, func(n ast.Node) bool {
				if se, ok := n.(*ast.SelectorExpr); ok {
					if id, ok := se.X.(*ast.Ident); ok && id.Name == "tok" {
						seen[se.Sel.Name] = true
					}
				}
				return true
			})
			var l []string
			for t := range seen {
				l = append(l, t)
			}
			sort.Strings(l)
			return l
		}
		// Binary.RawOp must be a switch on a.Tok with one `return true` case
		rawop := g.method("Binary", "RawOp")
		if s := src(rawop.Body); !strings.Contains(s, "switch a.Tok") || strings.Count(s, "return true") != 1 ||
			strings.Count(s, "return false") != 1 {
			return fmt.Errorf("Binary.RawOp no longer has the expected shape: %s", s)
		}
		// Binary.CanEvalRaw: RawOp && both sides
		if s := src(g.method("Binary", "CanEvalRaw").Body); !strings.Contains(s,
			"a.evalRaw = a.RawOp() && a.Lhs.CanEvalRaw(flds) && a.Rhs.CanEvalRaw(flds)") {
			return fmt.Errorf("Binary.CanEvalRaw no longer has the expected shape: %s", s)
		}
		// packedCmp compares with strings.Compare
		if s := src(g.fn("packedCmp").Body); !strings.Contains(s, "cmp := strings.Compare(x, y)") {
			return fmt.Errorf("packedCmp no longer compares with strings.Compare: %s", s)
		}
		list := func(name string, l []string) {
			fmt.Fprintf(out, "def %s : List String := [", name)
			for i, t := range l {
				if i > 0 {
					out.WriteString(", ")
				}
				fmt.Fprintf(out, "%q", t)
			}
			out.WriteString("]\n")
		}
		out.WriteString("namespace Gsu.Gen.QryRaw\n\n")
		list("rawBinaryOps", toks("Binary", "RawOp"))
		list("rawUnaryOps", toks("Unary", "CanEvalRaw"))
		list("rawNaryOps", toks("Nary", "CanEvalRaw"))
		p := parseGo(filepath.Join(repo, "core/pack.go"))
		for _, c := range []string{"PackFalse", "PackTrue", "PackMinus", "PackPlus", "PackString"} {
			fmt.Fprintf(out, "def tag%s : Nat := %s\n", strings.TrimPrefix(c, "Pack"), p.intConst(c))
		}
		out.WriteString("\nend Gsu.Gen.QryRaw\n")
		return nil
	})
}
