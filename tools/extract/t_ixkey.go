package main

import (
	"fmt"
	"path/filepath"
	"strings"
)

// Ixkey: the constants of db19/index/ixkey/ixkey.go the C12 theorems mention.
func init() {
	register("Ixkey", func(repo string, out *strings.Builder) error {
		g := parseGo(filepath.Join(repo, "db19/index/ixkey/ixkey.go"))
		out.WriteString("namespace Gsu.Gen.Ixkey\n\n")
		for _, c := range []string{"Min", "Max", "Sep"} {
			v, ok := g.sconst[c]
			if !ok {
				return fmt.Errorf("string constant %s not found in ixkey.go", c)
			}
			fmt.Fprintf(out, "def c%s : List UInt8 := [", c)
			for i, b := range []byte(v) {
				if i > 0 {
					out.WriteString(", ")
				}
				fmt.Fprintf(out, "%d", b)
			}
			out.WriteString("]\n")
		}
		fmt.Fprintf(out, "def maxEntry : Nat := %s\n", g.intConst("maxEntry"))
		out.WriteString("\nend Gsu.Gen.Ixkey\n")
		return nil
	})
}
