package main

import (
	"fmt"
	"path/filepath"
	"strings"
)

// Iter: the offset flag bits of db19/index/ixbuf/ixbuf.go and the OverIter state/direction
// constants of db19/index/overiter.go that the C09 mirror decodes with.
func init() {
	register("Iter", func(repo string, out *strings.Builder) error {
		g := parseGo(filepath.Join(repo, "db19/index/ixbuf/ixbuf.go"))
		out.WriteString("namespace Gsu.Gen.Iter\n\n")
		for _, c := range []string{"Update", "Delete", "Insert", "Mask"} {
			fmt.Fprintf(out, "def c%s : Nat := %s\n", c, g.intConst(c))
		}
		o := parseGo(filepath.Join(repo, "db19/index/overiter.go"))
		for _, c := range []string{"rewound", "within", "eof"} {
			fmt.Fprintf(out, "def st_%s : Nat := %s\n", c, o.intConst(c))
		}
		for _, c := range []string{"next", "prev"} {
			fmt.Fprintf(out, "def dir_%s : Int := %s\n", c, o.intConst(c))
		}
		// the shape the mirror relies on: these methods must still exist
		for _, m := range []string{"Next", "Prev", "update", "newIters", "canFast", "fastNext", "fastPrev",
			"modNext", "modPrev", "minIter", "maxIter", "Rewind", "Range", "SkipScan"} {
			o.method("OverIter", m)
		}
		out.WriteString("\nend Gsu.Gen.Iter\n")
		return nil
	})
}
