module verif/extract

go 1.23
