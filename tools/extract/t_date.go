package main

import (
	"fmt"
	"go/ast"
	"go/token"
	"path/filepath"
	"strings"
)

// Date: core/sudate.go — `julianDayNumber` translated mechanically, the field ranges
// (`mmYear = minmax{0, 3000}` …) and the shift amounts of the bit packing in `NewDate`.
func init() {
	register("Date", func(repo string, out *strings.Builder) error {
		g := parseGo(filepath.Join(repo, "core/sudate.go"))
		out.WriteString("namespace Gsu.Gen.Date\n")
		g.emitIntFn(out, g.fn("julianDayNumber"), "julianDayNumber", nil)
		out.WriteString("\n")
		// var ( mmYear = minmax{0, 3000} … )
		want := []string{"mmYear", "mmMonth", "mmDay", "mmHour", "mmMinute", "mmSecond", "mmMillisecond"}
		found := map[string][2]string{}
		for _, d := range g.file.Decls {
			gd, ok := d.(*ast.GenDecl)
			if !ok || gd.Tok != token.VAR {
				continue
			}
			for _, sp := range gd.Specs {
				vs := sp.(*ast.ValueSpec)
				for i, n := range vs.Names {
					if i >= len(vs.Values) {
						continue
					}
					cl, ok := vs.Values[i].(*ast.CompositeLit)
					if !ok {
						continue
					}
					if id, ok := cl.Type.(*ast.Ident); !ok || id.Name != "minmax" || len(cl.Elts) != 2 {
						continue
					}
					found[n.Name] = [2]string{g.expr(cl.Elts[0]), g.expr(cl.Elts[1])}
				}
			}
		}
		for _, w := range want {
			v, ok := found[w]
			if !ok {
				return fmt.Errorf("sudate.go: %s = minmax{lo, hi} not found", w)
			}
			fmt.Fprintf(out, "def %sMin : Int := %s\ndef %sMax : Int := %s\n", w, v[0], w, v[1])
		}
		// NewDate: date := uint32(yr<<9) | uint32(mon<<5) | uint32(day)
		//          time := uint32(hr<<22) | uint32(min<<16) | uint32(sec<<10) | uint32(ms)
		shifts := map[string]string{}
		ast.Inspect(g.fn("NewDate").Body, func(n ast.Node) bool {
			if be, ok := n.(*ast.BinaryExpr); ok && be.Op == token.SHL {
				if id, ok := be.X.(*ast.Ident); ok {
					shifts[id.Name] = g.expr(be.Y)
				}
			}
			return true
		})
		for _, f := range []string{"yr", "mon", "hr", "min", "sec"} {
			s, ok := shifts[f]
			if !ok {
				return fmt.Errorf("NewDate: shift of %s not found", f)
			}
			fmt.Fprintf(out, "def shift_%s : Nat := %s\n", f, s)
		}
		// getters: masks of Month/Day/Minute/Second/Millisecond
		for _, m := range [][2]string{{"Month", "0xf"}, {"Day", "0x1f"}, {"Minute", "0x3f"}, {"Second", "0x3f"}, {"Millisecond", "0x3ff"}} {
			src := packNodeText(g, g.method("SuDate", m[0]))
			if !strings.Contains(src, "& "+m[1]) {
				return fmt.Errorf("SuDate.%s: mask %s not found", m[0], m[1])
			}
		}
		out.WriteString("\nend Gsu.Gen.Date\n")
		return nil
	})
}
