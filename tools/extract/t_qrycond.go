package main

import (
	"bytes"
	"fmt"
	"go/ast"
	"go/printer"
	"path/filepath"
	"strings"
)

// QryCond: the side conditions under which dbms/query moves a restriction / projection past a
// summarize, read off the source of Where.Transform and Project.Transform (C22).
//
//	whereSummarizeTests   which column set a where-conjunct is tested against (set.HasSubset(cols1,
//	                      e.Columns())) before it is moved below the summarize: the source's
//	                      columns, the by columns, or the source's columns that are not summary
//	                      output columns
//	projectNoSummariesGuarded   whether "no summaries left → project of the source" is guarded by
//	                      set.HasSubset(q.by, p.columns)
//	projectDropChecksWhole      whether "remove unused summaries" refuses a whole-row result
func init() {
	register("QryCond", func(repo string, out *strings.Builder) error {
		src := func(g *goFile, n ast.Node) string {
			var b bytes.Buffer
			printer.Fprint(&b, g.fset, n)
			return strings.Join(strings.Fields(b.String()), " ")
		}
		// the `case *Summarize:` clause of the type switch in a Transform method
		summarizeCase := func(g *goFile, fd *ast.FuncDecl) *ast.CaseClause {
			var found *ast.CaseClause
			ast.Inspect(fd.Body, func(n ast.Node) bool {
				ts, ok := n.(*ast.TypeSwitchStmt)
				if !ok {
					return true
				}
				for _, st := range ts.Body.List {
					cc := st.(*ast.CaseClause)
					for _, e := range cc.List {
						if src(g, e) == "*Summarize" {
							found = cc
						}
					}
				}
				return true
			})
			return found
		}

		// Where.Transform ------------------------------------------------------------
		gw := parseGo(filepath.Join(repo, "dbms/query/where.go"))
		cc := summarizeCase(gw, gw.method("Where", "Transform"))
		if cc == nil {
			return fmt.Errorf("Where.Transform: no `case *Summarize` found")
		}
		cols1 := ""
		tested := false
		ast.Inspect(cc, func(n ast.Node) bool {
			switch n := n.(type) {
			case *ast.AssignStmt:
				if len(n.Lhs) == 1 && src(gw, n.Lhs[0]) == "cols1" {
					cols1 = src(gw, n.Rhs[0])
				}
			case *ast.CallExpr:
				if src(gw, n) == "set.HasSubset(cols1, e.Columns())" {
					tested = true
				}
			}
			return true
		})
		if !tested {
			return fmt.Errorf("Where.Transform/*Summarize: test set.HasSubset(cols1, e.Columns()) not found")
		}
		var ws string
		switch cols1 {
		case "q.source.Columns()":
			ws = "sourceCols"
		case "q.by":
			ws = "byCols"
		case "set.Difference(q.source.Columns(), q.cols)":
			ws = "sourceMinusSummaryCols"
		default:
			return fmt.Errorf("Where.Transform/*Summarize: unexpected cols1 := %s", cols1)
		}

		// Project.Transform ----------------------------------------------------------
		gp := parseGo(filepath.Join(repo, "dbms/query/project.go"))
		pc := summarizeCase(gp, gp.method("Project", "Transform"))
		if pc == nil {
			return fmt.Errorf("Project.Transform: no `case *Summarize` found")
		}
		// the statement `if len(cols) == 0 { … }` and what follows
		var noSum *ast.IfStmt
		for _, st := range pc.Body {
			if is, ok := st.(*ast.IfStmt); ok && src(gp, is.Cond) == "len(cols) == 0" {
				noSum = is
			}
		}
		if noSum == nil {
			return fmt.Errorf("Project.Transform/*Summarize: `if len(cols) == 0` not found")
		}
		const rewrite = "return newProject(q.source, p.columns).Transform()"
		guarded := false
		direct := false
		for _, st := range noSum.Body.List {
			switch s := st.(type) {
			case *ast.ReturnStmt:
				if src(gp, s) == rewrite {
					direct = true
				}
			case *ast.IfStmt:
				if src(gp, s.Cond) == "set.HasSubset(q.by, p.columns)" && len(s.Body.List) == 1 &&
					src(gp, s.Body.List[0]) == rewrite {
					guarded = true
				}
			}
		}
		if direct == guarded {
			return fmt.Errorf("Project.Transform/*Summarize: `no summaries left` rewrite has an unexpected shape")
		}
		// remove unused summaries: set.HasSubset(p.columns, q.by) … NewSummarize(q.source, …)
		dropFound, dropWhole := false, false
		ast.Inspect(pc, func(n ast.Node) bool {
			is, ok := n.(*ast.IfStmt)
			if !ok || !strings.Contains(src(gp, is.Cond), "set.HasSubset(p.columns, q.by)") {
				return true
			}
			body := src(gp, is.Body)
			if strings.Contains(body, "NewSummarize(q.source, q.hint, q.by, cols, ops, ons)") {
				dropFound = true
				dropWhole = strings.Contains(body, "wholeRow") || strings.Contains(src(gp, is.Cond), "wholeRow")
			}
			return true
		})
		if !dropFound {
			return fmt.Errorf("Project.Transform/*Summarize: `remove unused summaries` rewrite not found")
		}

		out.WriteString("namespace Gsu.Gen.QryCond\n\n")
		out.WriteString("/-- the column set a where-conjunct must be within to be moved below a summarize -/\n")
		out.WriteString("inductive ColSet where\n  | sourceCols\n  | byCols\n  | sourceMinusSummaryCols\n  deriving DecidableEq, Repr\n\n")
		fmt.Fprintf(out, "/-- `cols1 := %s` in Where.Transform, case *Summarize -/\n", cols1)
		fmt.Fprintf(out, "def whereSummarizeTests : ColSet := .%s\n\n", ws)
		out.WriteString("/-- Project.Transform: `no summaries left` is guarded by set.HasSubset(q.by, p.columns) -/\n")
		fmt.Fprintf(out, "def projectNoSummariesGuarded : Bool := %v\n\n", guarded)
		out.WriteString("/-- Project.Transform: `remove unused summaries` refuses a whole-row summarize -/\n")
		fmt.Fprintf(out, "def projectDropChecksWhole : Bool := %v\n", dropWhole)
		out.WriteString("\nend Gsu.Gen.QryCond\n")
		return nil
	})
}
