package main

import (
	"fmt"
	"go/ast"
	"path/filepath"
	"sort"
	"strings"
)

// Pq (C17): util/queue/priority_queue.go — bufSize and the statement lists of Put / Get /
// isOldest (the lock / wait-loop / append / signal skeleton the interleaving model mirrors);
// db19/checkco.go — the priority constants and the table of every `ck.pq.Put(prio, tran, msg)`
// call site: (method, priority value, is the tran argument `<x>.start`, message type).
func init() {
	register("Pq", func(repo string, out *strings.Builder) error {
		g := parseGo(filepath.Join(repo, "util/queue/priority_queue.go"))
		out.WriteString("namespace Gsu.Gen.Pq\n\n")
		fmt.Fprintf(out, "def bufSize : Nat := %s\n\n", g.intConst("bufSize"))
		out.WriteString(leanStrList("putBody", bodyLines(g, g.method("PriorityQueue", "Put"))))
		out.WriteString("\n")
		out.WriteString(leanStrList("getBody", bodyLines(g, g.method("PriorityQueue", "Get"))))
		out.WriteString("\n")
		out.WriteString(leanStrList("isOldestBody", bodyLines(g, g.method("PriorityQueue", "isOldest"))))
		out.WriteString("\n")
		// the element struct: field order matters for element{priority, tran, value}
		var fields []string
		ast.Inspect(g.file, func(n ast.Node) bool {
			ts, ok := n.(*ast.TypeSpec)
			if !ok || ts.Name.Name != "element" {
				return true
			}
			st, ok := ts.Type.(*ast.StructType)
			if !ok {
				panic("element is not a struct")
			}
			for _, f := range st.Fields.List {
				for _, nm := range f.Names {
					fields = append(fields, nm.Name+" "+render(g.fset, f.Type))
				}
			}
			return false
		})
		if fields == nil {
			return fmt.Errorf("type element not found")
		}
		out.WriteString(leanStrList("elementFields", fields))

		ck := parseGo(filepath.Join(repo, "db19/checkco.go"))
		out.WriteString("\n-- db19/checkco.go\n")
		for _, c := range []string{"stopPriority", "lowPriority", "mediumPriority", "highPriority"} {
			fmt.Fprintf(out, "def %s : Int := %s\n", c, ck.intConst(c))
		}
		type row struct {
			fn, msg, key string
			prio        string
			keyed       bool
		}
		var rows []row
		for _, d := range ck.file.Decls {
			fd, ok := d.(*ast.FuncDecl)
			if !ok || fd.Body == nil {
				continue
			}
			ast.Inspect(fd.Body, func(n ast.Node) bool {
				call, ok := n.(*ast.CallExpr)
				if !ok {
					return true
				}
				sel, ok := call.Fun.(*ast.SelectorExpr)
				if !ok || sel.Sel.Name != "Put" {
					return true
				}
				recv := render(ck.fset, sel.X)
				if recv != "ck.pq" && recv != "pq" {
					return true
				}
				if len(call.Args) != 3 {
					panic("pq.Put call without 3 arguments in " + fd.Name.Name)
				}
				pid, ok := call.Args[0].(*ast.Ident)
				if !ok {
					panic("priority argument is not a named constant in " + fd.Name.Name)
				}
				key := render(ck.fset, call.Args[1])
				keyed := strings.HasSuffix(key, ".start")
				if !keyed && key != "0" {
					panic("unexpected tran argument " + key + " in " + fd.Name.Name)
				}
				msg := "nil"
				if u, ok := call.Args[2].(*ast.UnaryExpr); ok {
					if cl, ok := u.X.(*ast.CompositeLit); ok {
						msg = render(ck.fset, cl.Type)
					}
				}
				rows = append(rows, row{fd.Name.Name, msg, key, ck.intConst(pid.Name), keyed})
				return true
			})
		}
		if len(rows) == 0 {
			return fmt.Errorf("no pq.Put call sites found in checkco.go")
		}
		sort.SliceStable(rows, func(i, j int) bool { return rows[i].fn < rows[j].fn })
		out.WriteString("\n/-- every `pq.Put` call site of checkco.go: (function, message type, priority, tran argument is `….start`) -/\n")
		out.WriteString("def putSites : List (String × String × Int × Bool) := [\n")
		for i, r := range rows {
			fmt.Fprintf(out, "  (%s, %s, %s, %v)", leanStr(r.fn), leanStr(r.msg), r.prio, r.keyed)
			if i+1 < len(rows) {
				out.WriteString(",")
			}
			fmt.Fprintf(out, "  -- tran = %s\n", r.key)
		}
		out.WriteString("]\n")
		out.WriteString("\nend Gsu.Gen.Pq\n")
		return nil
	})
}
