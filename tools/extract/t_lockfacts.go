package main

import (
	"fmt"
	"go/ast"
	"go/token"
	"path/filepath"
	"sort"
	"strings"
)

// LockFacts (C43): per-method lockset facts of SuObject (core/suobject.go), SuRecord
// (core/surecord.go) and the shared-slot accessors of Frame (core/frame.go), re-read from the AST:
// for every access to a receiver field and every call of an unexported method of the receiver,
// which lock is held at that point (none / RLock / Lock / "the caller's lock" inside unexported
// helpers), following the source order and the `x.Unlock(); defer x.Lock()` windows inside
// function literals. The Lean theorem `discipline` is `decide` over these facts.
func init() {
	register("LockFacts", func(repo string, out *strings.Builder) error {
		out.WriteString("namespace Gsu.Gen.LockFacts\n\n")
		out.WriteString("inductive Lk where\n  | none | r | w | caller\n  deriving DecidableEq, Repr\n\n")
		out.WriteString("structure Acc where\n  field : String\n  write : Bool\n  held : Lk\n  deriving DecidableEq, Repr\n\n")
		out.WriteString("structure Call where\n  callee : String\n  held : Lk\n  deriving DecidableEq, Repr\n\n")
		out.WriteString("structure Meth where\n  recv : String\n  name : String\n  exported : Bool\n  accs : List Acc\n  calls : List Call\n  deriving Repr\n\n")
		var all []string
		n1, err := lockFactsOf(filepath.Join(repo, "core/suobject.go"), "SuObject", &all)
		if err != nil {
			return err
		}
		n2, err := lockFactsOf(filepath.Join(repo, "core/surecord.go"), "SuRecord", &all)
		if err != nil {
			return err
		}
		n3, err := lockFactsOf(filepath.Join(repo, "core/frame.go"), "Frame", &all)
		if err != nil {
			return err
		}
		if n1 < 40 || n2 < 40 || n3 < 5 {
			return fmt.Errorf("unexpectedly few methods: SuObject %d SuRecord %d Frame %d", n1, n2, n3)
		}
		out.WriteString("def methods : List Meth := [\n" + strings.Join(all, ",\n") + "\n]\n\nend Gsu.Gen.LockFacts\n")
		return nil
	})
}

var lkName = map[int]string{0: ".none", 1: ".r", 2: ".w", 3: ".caller"}

func lockFactsOf(path, typ string, all *[]string) (int, error) {
	g := parseGo(path)
	count := 0
	for _, d := range g.file.Decls {
		fd, ok := d.(*ast.FuncDecl)
		if !ok || fd.Recv == nil || len(fd.Recv.List) == 0 || fd.Body == nil {
			continue
		}
		t := fd.Recv.List[0].Type
		if s, ok := t.(*ast.StarExpr); ok {
			t = s.X
		}
		if id, ok := t.(*ast.Ident); !ok || id.Name != typ {
			continue
		}
		if len(fd.Recv.List[0].Names) == 0 {
			continue
		}
		recv := fd.Recv.List[0].Names[0].Name
		w := &lockWalker{recv: recv, typ: typ}
		if fd.Name.IsExported() {
			w.held = 0
		} else {
			w.held = 3
		}
		w.block(fd.Body.List)
		sortAccs(w)
		var as, cs []string
		seen := map[string]bool{}
		for _, a := range w.accs {
			s := fmt.Sprintf("⟨%q, %v, %s⟩", a.field, a.write, lkName[a.held])
			if !seen[s] {
				seen[s] = true
				as = append(as, s)
			}
		}
		for _, c := range w.calls {
			s := fmt.Sprintf("⟨%q, %s⟩", c.callee, lkName[c.held])
			if !seen[s] {
				seen[s] = true
				cs = append(cs, s)
			}
		}
		*all = append(*all, fmt.Sprintf("  { recv := %q, name := %q, exported := %v,\n    accs := [%s],\n    calls := [%s] }",
			typ, fd.Name.Name, fd.Name.IsExported(), strings.Join(as, ", "), strings.Join(cs, ", ")))
		count++
	}
	return count, nil
}

type lfAcc struct {
	field string
	write bool
	held  int
}
type lfCall struct {
	callee string
	held   int
}
type lockWalker struct {
	recv, typ string
	held      int
	accs      []lfAcc
	calls     []lfCall
}

func sortAccs(w *lockWalker) {
	sort.SliceStable(w.accs, func(i, j int) bool { return w.accs[i].field < w.accs[j].field })
	sort.SliceStable(w.calls, func(i, j int) bool { return w.calls[i].callee < w.calls[j].callee })
}

// rootField: for an expression rooted at the receiver returns the field name ("ob.list" for the
// SuObject embedded in a SuRecord as field ob, "shared.values" for Frame)
func (w *lockWalker) rootField(e ast.Expr) (string, bool) {
	var chain []string
	for {
		switch x := e.(type) {
		case *ast.IndexExpr:
			e = x.X
			chain = nil
			continue
		case *ast.SliceExpr:
			e = x.X
			chain = nil
			continue
		case *ast.ParenExpr:
			e = x.X
			continue
		case *ast.StarExpr:
			e = x.X
			continue
		case *ast.UnaryExpr:
			e = x.X
			continue
		case *ast.SelectorExpr:
			chain = append([]string{x.Sel.Name}, chain...)
			e = x.X
			continue
		case *ast.Ident:
			if x.Name != w.recv || len(chain) == 0 {
				return "", false
			}
			if (chain[0] == "ob" || chain[0] == "shared") && len(chain) > 1 {
				return chain[0] + "." + chain[1], true
			}
			return chain[0], true
		}
		return "", false
	}
}

var lfMutatingCalls = map[string]bool{"Put": true, "Del": true, "Clear": true, "Add": true, "Take": true,
	"Push": true, "Pop": true, "Remove": true}
var lfInPlace = map[string]bool{"SortStableFunc": true, "SliceStable": true, "unique": true, "copy": true, "delete": true, "clear": true}

func (w *lockWalker) acc(field string, write bool) {
	w.accs = append(w.accs, lfAcc{field, write, w.held})
}

func (w *lockWalker) block(list []ast.Stmt) {
	for _, s := range list {
		w.stmt(s)
	}
}

func (w *lockWalker) stmt(s ast.Stmt) {
	switch x := s.(type) {
	case nil:
	case *ast.ExprStmt:
		w.expr(x.X)
	case *ast.AssignStmt:
		for _, r := range x.Rhs {
			w.expr(r)
		}
		for _, l := range x.Lhs {
			if f, ok := w.rootField(l); ok {
				w.acc(f, true)
				// index expressions on the left are reads
				if ix, ok := l.(*ast.IndexExpr); ok {
					w.expr(ix.Index)
				}
			} else {
				w.expr(l)
			}
		}
	case *ast.IncDecStmt:
		if f, ok := w.rootField(x.X); ok {
			w.acc(f, true)
		}
	case *ast.DeclStmt:
		if gd, ok := x.Decl.(*ast.GenDecl); ok {
			for _, sp := range gd.Specs {
				if vs, ok := sp.(*ast.ValueSpec); ok {
					for _, v := range vs.Values {
						w.expr(v)
					}
				}
			}
		}
	case *ast.ReturnStmt:
		for _, r := range x.Results {
			w.expr(r)
		}
	case *ast.IfStmt:
		w.stmt(x.Init)
		w.expr(x.Cond)
		w.block(x.Body.List)
		w.stmt(x.Else)
	case *ast.BlockStmt:
		w.block(x.List)
	case *ast.ForStmt:
		w.stmt(x.Init)
		if x.Cond != nil {
			w.expr(x.Cond)
		}
		w.block(x.Body.List)
		w.stmt(x.Post)
	case *ast.RangeStmt:
		w.expr(x.X)
		w.block(x.Body.List)
	case *ast.SwitchStmt:
		w.stmt(x.Init)
		if x.Tag != nil {
			w.expr(x.Tag)
		}
		w.block(x.Body.List)
	case *ast.TypeSwitchStmt:
		w.block(x.Body.List)
	case *ast.CaseClause:
		for _, e := range x.List {
			w.expr(e)
		}
		w.block(x.Body)
	case *ast.LabeledStmt:
		w.stmt(x.Stmt)
	case *ast.BranchStmt, *ast.EmptyStmt:
	case *ast.DeferStmt:
		// `defer x.Unlock()` / `defer x.RUnlock()`: the lock stays held to the end: ignore.
		// `defer x.Lock()` inside a function literal closes an unlock window: handled in funcLit.
		if m, ok := w.lockCall(x.Call); ok && m != "" {
			return
		}
		// defer f(args): arguments are evaluated now; deferred closure bodies run at the end
		// with the lock state of that point (approximated by the current state); lock calls
		// inside a deferred closure (`defer func() { if locked { ob.RUnlock() } }()`) do not
		// change the state of the statements that follow
		saved := w.held
		w.expr(x.Call)
		w.held = saved
	case *ast.GoStmt:
		w.expr(x.Call)
	default:
		panic(fmt.Sprintf("lockfacts: unsupported statement %T", s))
	}
}

// lockCall recognises recv.Lock() / recv.RLock() / recv.Unlock() / recv.RUnlock()
// (also recv.ob.Lock(), recv.shared.Lock())
func (w *lockWalker) lockCall(c *ast.CallExpr) (string, bool) {
	se, ok := c.Fun.(*ast.SelectorExpr)
	if !ok {
		return "", false
	}
	switch se.Sel.Name {
	case "Lock", "RLock", "Unlock", "RUnlock":
	default:
		return "", false
	}
	switch x := se.X.(type) {
	case *ast.Ident:
		if x.Name == w.recv {
			return se.Sel.Name, true
		}
	case *ast.SelectorExpr:
		if id, ok := x.X.(*ast.Ident); ok && id.Name == w.recv && (x.Sel.Name == "ob" || x.Sel.Name == "shared") {
			return se.Sel.Name, true
		}
	}
	return "", false
}

func (w *lockWalker) funcLit(fl *ast.FuncLit) {
	saved := w.held
	restore := false
	for _, s := range fl.Body.List {
		if d, ok := s.(*ast.DeferStmt); ok {
			if m, ok := w.lockCall(d.Call); ok && (m == "Lock" || m == "RLock") {
				restore = true
				continue
			}
		}
		w.stmt(s)
	}
	if restore || w.held != 0 {
		w.held = saved
	}
}

func (w *lockWalker) expr(e ast.Expr) {
	switch x := e.(type) {
	case nil:
	case *ast.CallExpr:
		if m, ok := w.lockCall(x); ok {
			switch m {
			case "Lock":
				w.held = 2
			case "RLock":
				if w.held != 2 {
					w.held = 1
				}
			case "Unlock", "RUnlock":
				w.held = 0
			}
			return
		}
		for _, a := range x.Args {
			w.expr(a)
		}
		switch f := x.Fun.(type) {
		case *ast.SelectorExpr:
			// recv.m(...) : call of a method of the receiver
			if id, ok := f.X.(*ast.Ident); ok && id.Name == w.recv {
				w.calls = append(w.calls, lfCall{w.typ + "." + f.Sel.Name, w.held})
				return
			}
			// recv.ob.m(...) : method of the embedded SuObject
			if se, ok := f.X.(*ast.SelectorExpr); ok {
				if id, ok := se.X.(*ast.Ident); ok && id.Name == w.recv && se.Sel.Name == "ob" {
					w.calls = append(w.calls, lfCall{"SuObject." + f.Sel.Name, w.held})
					return
				}
			}
			// recv.field.M(...)
			if fld, ok := w.rootField(f.X); ok {
				w.acc(fld, lfMutatingCalls[f.Sel.Name])
				return
			}
			if lfInPlace[f.Sel.Name] && len(x.Args) > 0 {
				if fld, ok := w.rootField(x.Args[0]); ok {
					w.acc(fld, true)
				}
			}
			w.expr(f.X)
		case *ast.Ident:
			if lfInPlace[f.Name] && len(x.Args) > 0 {
				if fld, ok := w.rootField(x.Args[0]); ok {
					w.acc(fld, true)
				}
			}
		case *ast.FuncLit:
			w.funcLit(f)
		default:
			w.expr(x.Fun)
		}
	case *ast.FuncLit:
		w.funcLit(x)
	case *ast.SelectorExpr:
		if f, ok := w.rootField(x); ok {
			w.acc(f, false)
			return
		}
		w.expr(x.X)
	case *ast.IndexExpr:
		w.expr(x.X)
		w.expr(x.Index)
	case *ast.SliceExpr:
		w.expr(x.X)
		w.expr(x.Low)
		w.expr(x.High)
	case *ast.BinaryExpr:
		w.expr(x.X)
		w.expr(x.Y)
	case *ast.UnaryExpr:
		if x.Op == token.AND {
			if f, ok := w.rootField(x.X); ok {
				w.acc(f, false)
				return
			}
		}
		w.expr(x.X)
	case *ast.ParenExpr:
		w.expr(x.X)
	case *ast.StarExpr:
		w.expr(x.X)
	case *ast.TypeAssertExpr:
		w.expr(x.X)
	case *ast.CompositeLit:
		for _, el := range x.Elts {
			w.expr(el)
		}
	case *ast.KeyValueExpr:
		w.expr(x.Value)
	case *ast.Ident, *ast.BasicLit, *ast.ArrayType, *ast.MapType, *ast.FuncType, *ast.StructType, *ast.InterfaceType, *ast.IndexListExpr, *ast.ChanType:
	default:
		panic(fmt.Sprintf("lockfacts: unsupported expression %T", e))
	}
}
