package main

import (
	"fmt"
	"go/ast"
	"go/token"
	"path/filepath"
	"sort"
	"strings"
)

// LockFacts (C43): per-method lockset facts of SuObject (core/suobject.go), SuRecord
// (core/surecord.go) and the shared-slot accessors of Frame (core/frame.go), re-read from the AST:
// for every access to a receiver field and every call of an unexported method of the receiver,
// which lock is held at that point (none / RLock / Lock / "the caller's lock" inside unexported
// helpers), following the source order and the `x.Unlock(); defer x.Lock()` windows inside
// function literals. The Lean theorem `discipline` is `decide` over these facts.
func init() {
	register("LockFacts", func(repo string, out *strings.Builder) error {
		out.WriteString("namespace Gsu.Gen.LockFacts\n\n")
		out.WriteString("inductive Lk where\n  | none | r | w | caller\n  deriving DecidableEq, Repr\n\n")
		out.WriteString("structure Acc where\n  field : String\n  write : Bool\n  held : Lk\n  deriving DecidableEq, Repr\n\n")
		out.WriteString("structure Call where\n  callee : String\n  held : Lk\n  deriving DecidableEq, Repr\n\n")
		out.WriteString("structure Meth where\n  recv : String\n  name : String\n  exported : Bool\n  accs : List Acc\n  calls : List Call\n  deriving Repr\n\n")
		var all []string
		n1, err := lockFactsOf(filepath.Join(repo, "core/suobject.go"), "SuObject", &all)
		if err != nil {
			return err
		}
		n2, err := lockFactsOf(filepath.Join(repo, "core/surecord.go"), "SuRecord", &all)
		if err != nil {
			return err
		}
		n3, err := lockFactsOf(filepath.Join(repo, "core/frame.go"), "Frame", &all)
		if err != nil {
			return err
		}
		if n1 < 40 || n2 < 40 || n3 < 5 {
			return fmt.Errorf("unexpectedly few methods: SuObject %d SuRecord %d Frame %d", n1, n2, n3)
		}
		out.WriteString("def methods : List Meth := [\n" + strings.Join(all, ",\n") + "\n]\n\n")
		if err := propagationFacts(repo, out); err != nil {
			return err
		}
		out.WriteString("\nend Gsu.Gen.LockFacts\n")
		return nil
	})
}

var lkName = map[int]string{0: ".none", 1: ".r", 2: ".w", 3: ".caller"}

func lockFactsOf(path, typ string, all *[]string) (int, error) {
	g := parseGo(path)
	count := 0
	for _, d := range g.file.Decls {
		fd, ok := d.(*ast.FuncDecl)
		if !ok || fd.Recv == nil || len(fd.Recv.List) == 0 || fd.Body == nil {
			continue
		}
		t := fd.Recv.List[0].Type
		if s, ok := t.(*ast.StarExpr); ok {
			t = s.X
		}
		if id, ok := t.(*ast.Ident); !ok || id.Name != typ {
			continue
		}
		if len(fd.Recv.List[0].Names) == 0 {
			continue
		}
		recv := fd.Recv.List[0].Names[0].Name
		w := &lockWalker{recv: recv, typ: typ}
		if fd.Name.IsExported() {
			w.held = 0
		} else {
			w.held = 3
		}
		w.block(fd.Body.List)
		sortAccs(w)
		var as, cs []string
		seen := map[string]bool{}
		for _, a := range w.accs {
			s := fmt.Sprintf("⟨%q, %v, %s⟩", a.field, a.write, lkName[a.held])
			if !seen[s] {
				seen[s] = true
				as = append(as, s)
			}
		}
		for _, c := range w.calls {
			s := fmt.Sprintf("⟨%q, %s⟩", c.callee, lkName[c.held])
			if !seen[s] {
				seen[s] = true
				cs = append(cs, s)
			}
		}
		*all = append(*all, fmt.Sprintf("  { recv := %q, name := %q, exported := %v,\n    accs := [%s],\n    calls := [%s] }",
			typ, fd.Name.Name, fd.Name.IsExported(), strings.Join(as, ", "), strings.Join(cs, ", ")))
		count++
	}
	return count, nil
}

type lfAcc struct {
	field string
	write bool
	held  int
}
type lfCall struct {
	callee string
	held   int
}
type lockWalker struct {
	recv, typ string
	held      int
	accs      []lfAcc
	calls     []lfCall
}

func sortAccs(w *lockWalker) {
	sort.SliceStable(w.accs, func(i, j int) bool { return w.accs[i].field < w.accs[j].field })
	sort.SliceStable(w.calls, func(i, j int) bool { return w.calls[i].callee < w.calls[j].callee })
}

// rootField: for an expression rooted at the receiver returns the field name ("ob.list" for the
// SuObject embedded in a SuRecord as field ob, "shared.values" for Frame)
func (w *lockWalker) rootField(e ast.Expr) (string, bool) {
	var chain []string
	for {
		switch x := e.(type) {
		case *ast.IndexExpr:
			e = x.X
			chain = nil
			continue
		case *ast.SliceExpr:
			e = x.X
			chain = nil
			continue
		case *ast.ParenExpr:
			e = x.X
			continue
		case *ast.StarExpr:
			e = x.X
			continue
		case *ast.UnaryExpr:
			e = x.X
			continue
		case *ast.SelectorExpr:
			chain = append([]string{x.Sel.Name}, chain...)
			e = x.X
			continue
		case *ast.Ident:
			if x.Name != w.recv || len(chain) == 0 {
				return "", false
			}
			if (chain[0] == "ob" || chain[0] == "shared") && len(chain) > 1 {
				return chain[0] + "." + chain[1], true
			}
			return chain[0], true
		}
		return "", false
	}
}

var lfMutatingCalls = map[string]bool{"Put": true, "Del": true, "Clear": true, "Add": true, "Take": true,
	"Push": true, "Pop": true, "Remove": true}
var lfInPlace = map[string]bool{"SortStableFunc": true, "SliceStable": true, "unique": true, "copy": true, "delete": true, "clear": true}

func (w *lockWalker) acc(field string, write bool) {
	w.accs = append(w.accs, lfAcc{field, write, w.held})
}

func (w *lockWalker) block(list []ast.Stmt) {
	for _, s := range list {
		w.stmt(s)
	}
}

func (w *lockWalker) stmt(s ast.Stmt) {
	switch x := s.(type) {
	case nil:
	case *ast.ExprStmt:
		w.expr(x.X)
	case *ast.AssignStmt:
		for _, r := range x.Rhs {
			w.expr(r)
		}
		for _, l := range x.Lhs {
			if f, ok := w.rootField(l); ok {
				w.acc(f, true)
				// index expressions on the left are reads
				if ix, ok := l.(*ast.IndexExpr); ok {
					w.expr(ix.Index)
				}
			} else {
				w.expr(l)
			}
		}
	case *ast.IncDecStmt:
		if f, ok := w.rootField(x.X); ok {
			w.acc(f, true)
		}
	case *ast.DeclStmt:
		if gd, ok := x.Decl.(*ast.GenDecl); ok {
			for _, sp := range gd.Specs {
				if vs, ok := sp.(*ast.ValueSpec); ok {
					for _, v := range vs.Values {
						w.expr(v)
					}
				}
			}
		}
	case *ast.ReturnStmt:
		for _, r := range x.Results {
			w.expr(r)
		}
	case *ast.IfStmt:
		w.stmt(x.Init)
		w.expr(x.Cond)
		w.block(x.Body.List)
		w.stmt(x.Else)
	case *ast.BlockStmt:
		w.block(x.List)
	case *ast.ForStmt:
		w.stmt(x.Init)
		if x.Cond != nil {
			w.expr(x.Cond)
		}
		w.block(x.Body.List)
		w.stmt(x.Post)
	case *ast.RangeStmt:
		w.expr(x.X)
		w.block(x.Body.List)
	case *ast.SwitchStmt:
		w.stmt(x.Init)
		if x.Tag != nil {
			w.expr(x.Tag)
		}
		w.block(x.Body.List)
	case *ast.TypeSwitchStmt:
		w.block(x.Body.List)
	case *ast.CaseClause:
		for _, e := range x.List {
			w.expr(e)
		}
		w.block(x.Body)
	case *ast.LabeledStmt:
		w.stmt(x.Stmt)
	case *ast.BranchStmt, *ast.EmptyStmt:
	case *ast.DeferStmt:
		// `defer x.Unlock()` / `defer x.RUnlock()`: the lock stays held to the end: ignore.
		// `defer x.Lock()` inside a function literal closes an unlock window: handled in funcLit.
		if m, ok := w.lockCall(x.Call); ok && m != "" {
			return
		}
		// defer f(args): arguments are evaluated now; deferred closure bodies run at the end
		// with the lock state of that point (approximated by the current state); lock calls
		// inside a deferred closure (`defer func() { if locked { ob.RUnlock() } }()`) do not
		// change the state of the statements that follow
		saved := w.held
		w.expr(x.Call)
		w.held = saved
	case *ast.GoStmt:
		w.expr(x.Call)
	default:
		panic(fmt.Sprintf("lockfacts: unsupported statement %T", s))
	}
}

// lockCall recognises recv.Lock() / recv.RLock() / recv.Unlock() / recv.RUnlock()
// (also recv.ob.Lock(), recv.shared.Lock())
func (w *lockWalker) lockCall(c *ast.CallExpr) (string, bool) {
	se, ok := c.Fun.(*ast.SelectorExpr)
	if !ok {
		return "", false
	}
	switch se.Sel.Name {
	case "Lock", "RLock", "Unlock", "RUnlock":
	default:
		return "", false
	}
	switch x := se.X.(type) {
	case *ast.Ident:
		if x.Name == w.recv {
			return se.Sel.Name, true
		}
	case *ast.SelectorExpr:
		if id, ok := x.X.(*ast.Ident); ok && id.Name == w.recv && (x.Sel.Name == "ob" || x.Sel.Name == "shared") {
			return se.Sel.Name, true
		}
	}
	return "", false
}

func (w *lockWalker) funcLit(fl *ast.FuncLit) {
	saved := w.held
	restore := false
	for _, s := range fl.Body.List {
		if d, ok := s.(*ast.DeferStmt); ok {
			if m, ok := w.lockCall(d.Call); ok && (m == "Lock" || m == "RLock") {
				restore = true
				continue
			}
		}
		w.stmt(s)
	}
	if restore || w.held != 0 {
		w.held = saved
	}
}

func (w *lockWalker) expr(e ast.Expr) {
	switch x := e.(type) {
	case nil:
	case *ast.CallExpr:
		if m, ok := w.lockCall(x); ok {
			switch m {
			case "Lock":
				w.held = 2
			case "RLock":
				if w.held != 2 {
					w.held = 1
				}
			case "Unlock", "RUnlock":
				w.held = 0
			}
			return
		}
		for _, a := range x.Args {
			w.expr(a)
		}
		switch f := x.Fun.(type) {
		case *ast.SelectorExpr:
			// recv.m(...) : call of a method of the receiver
			if id, ok := f.X.(*ast.Ident); ok && id.Name == w.recv {
				w.calls = append(w.calls, lfCall{w.typ + "." + f.Sel.Name, w.held})
				return
			}
			// recv.ob.m(...) : method of the embedded SuObject
			if se, ok := f.X.(*ast.SelectorExpr); ok {
				if id, ok := se.X.(*ast.Ident); ok && id.Name == w.recv && se.Sel.Name == "ob" {
					w.calls = append(w.calls, lfCall{"SuObject." + f.Sel.Name, w.held})
					return
				}
			}
			// recv.field.M(...)
			if fld, ok := w.rootField(f.X); ok {
				w.acc(fld, lfMutatingCalls[f.Sel.Name])
				return
			}
			if lfInPlace[f.Sel.Name] && len(x.Args) > 0 {
				if fld, ok := w.rootField(x.Args[0]); ok {
					w.acc(fld, true)
				}
			}
			w.expr(f.X)
		case *ast.Ident:
			if lfInPlace[f.Name] && len(x.Args) > 0 {
				if fld, ok := w.rootField(x.Args[0]); ok {
					w.acc(fld, true)
				}
			}
		case *ast.FuncLit:
			w.funcLit(f)
		default:
			w.expr(x.Fun)
		}
	case *ast.FuncLit:
		w.funcLit(x)
	case *ast.SelectorExpr:
		if f, ok := w.rootField(x); ok {
			w.acc(f, false)
			return
		}
		w.expr(x.X)
	case *ast.IndexExpr:
		w.expr(x.X)
		w.expr(x.Index)
	case *ast.SliceExpr:
		w.expr(x.X)
		w.expr(x.Low)
		w.expr(x.High)
	case *ast.BinaryExpr:
		w.expr(x.X)
		w.expr(x.Y)
	case *ast.UnaryExpr:
		if x.Op == token.AND {
			if f, ok := w.rootField(x.X); ok {
				w.acc(f, false)
				return
			}
		}
		w.expr(x.X)
	case *ast.ParenExpr:
		w.expr(x.X)
	case *ast.StarExpr:
		w.expr(x.X)
	case *ast.TypeAssertExpr:
		w.expr(x.X)
	case *ast.CompositeLit:
		for _, el := range x.Elts {
			w.expr(el)
		}
	case *ast.KeyValueExpr:
		w.expr(x.Value)
	case *ast.Ident, *ast.BasicLit, *ast.ArrayType, *ast.MapType, *ast.FuncType, *ast.StructType, *ast.InterfaceType, *ast.IndexListExpr, *ast.ChanType:
	default:
		panic(fmt.Sprintf("lockfacts: unsupported expression %T", e))
	}
}

// ---------------------------------------------------------------------------------------------
// SetConcurrent propagation facts
//
// storeFacts: for every method of SuObject / SuRecord and every parameter of type Value:
// does the method store the parameter into receiver state (assignment whose right side mentions
// it, mutating call on a receiver field, or passing it on to a receiver method that needs it
// marked) at a point where it has not been marked by `<param>.SetConcurrent()` — the marking has
// to be a top-level statement or sit in a top-level `if` on `….concurrent` / `….Lock()`.
// `needsMarked` = true means: callers must have marked the value. The theorem demands that no
// exported method needs that.
//
// setConcEvents: for SetConcurrent / SetChildConc of SuObject, SuRecord, SuClosure the sequence
// (source order) of "mark:<receiver field>" and "return" events.
//
// cowFacts: for every SuRecord method that calls observers.Push / observers.Remove whether the
// list was cloned (`r.observers.List = slc.Clone(r.observers.List)`) earlier in the method.

type sfMethod struct {
	typ, name string
	exported  bool
	recv      string
	params    []string // all parameter names in order
	isValue   []bool
	fd        *ast.FuncDecl
}

func propagationFacts(repo string, out *strings.Builder) error {
	var ms []*sfMethod
	byName := map[string]*sfMethod{}
	files := map[string]*goFile{}
	for _, ft := range [][2]string{{"core/suobject.go", "SuObject"}, {"core/surecord.go", "SuRecord"}, {"core/suclosure.go", "SuClosure"}} {
		g := parseGo(filepath.Join(repo, ft[0]))
		files[ft[1]] = g
		for _, d := range g.file.Decls {
			fd, ok := d.(*ast.FuncDecl)
			if !ok || fd.Recv == nil || len(fd.Recv.List) == 0 || fd.Body == nil || len(fd.Recv.List[0].Names) == 0 {
				continue
			}
			t := fd.Recv.List[0].Type
			if st, ok := t.(*ast.StarExpr); ok {
				t = st.X
			}
			if id, ok := t.(*ast.Ident); !ok || id.Name != ft[1] {
				continue
			}
			m := &sfMethod{typ: ft[1], name: fd.Name.Name, exported: fd.Name.IsExported(),
				recv: fd.Recv.List[0].Names[0].Name, fd: fd}
			for _, p := range fd.Type.Params.List {
				isV := false
				if id, ok := p.Type.(*ast.Ident); ok && id.Name == "Value" {
					isV = true
				}
				for _, n := range p.Names {
					m.params = append(m.params, n.Name)
					m.isValue = append(m.isValue, isV)
				}
			}
			ms = append(ms, m)
			byName[m.typ+"."+m.name] = m
		}
	}
	for _, need := range []string{"SuObject.set", "SuObject.add", "SuObject.Insert", "SuObject.Add", "SuRecord.Observer",
		"SuRecord.RemoveObserver", "SuClosure.SetConcurrent", "SuObject.SetChildConc", "SuRecord.SetConcurrent"} {
		if byName[need] == nil {
			return fmt.Errorf("method %s not found", need)
		}
	}
	// ---- storeFacts (fixpoint over "needs its argument marked")
	needs := map[string]bool{} // "Type.method#param"
	for round := 0; round < 8; round++ {
		changed := false
		for _, m := range ms {
			if m.typ == "SuClosure" {
				continue
			}
			for pi, p := range m.params {
				if !m.isValue[pi] {
					continue
				}
				key := m.typ + "." + m.name + "#" + p
				if !needs[key] && sfNeedsMarked(m, p, needs, byName) {
					needs[key] = true
					changed = true
				}
			}
		}
		if !changed {
			break
		}
	}
	out.WriteString("/-- (method, Value parameter, exported, the parameter reaches receiver state unmarked) -/\n")
	out.WriteString("def storeFacts : List (String × String × Bool × Bool) := [\n")
	var lines []string
	for _, m := range ms {
		if m.typ == "SuClosure" {
			continue
		}
		for pi, p := range m.params {
			if m.isValue[pi] {
				lines = append(lines, fmt.Sprintf("  (%q, %q, %v, %v)", m.typ+"."+m.name, p, m.exported, needs[m.typ+"."+m.name+"#"+p]))
			}
		}
	}
	out.WriteString(strings.Join(lines, ",\n") + "\n]\n\n")
	// ---- setConcEvents
	out.WriteString("/-- (method, events in source order: mark:<field> | return) -/\n")
	out.WriteString("def setConcEvents : List (String × List String) := [\n")
	lines = nil
	for _, q := range []string{"SuObject.SetConcurrent", "SuObject.SetChildConc", "SuRecord.SetConcurrent", "SuClosure.SetConcurrent"} {
		m := byName[q]
		if m == nil {
			return fmt.Errorf("method %s not found", q)
		}
		ev := sfConcEvents(m)
		for i := range ev {
			ev[i] = fmt.Sprintf("%q", ev[i])
		}
		lines = append(lines, fmt.Sprintf("  (%q, [%s])", q, strings.Join(ev, ", ")))
	}
	out.WriteString(strings.Join(lines, ",\n") + "\n]\n\n")
	// ---- cowFacts
	out.WriteString("/-- (SuRecord method that changes the observer list, the list is cloned first) -/\n")
	out.WriteString("def cowFacts : List (String × Bool) := [\n")
	lines = nil
	for _, m := range ms {
		if m.typ != "SuRecord" {
			continue
		}
		mut, cloned, clonedBefore := false, false, false
		ast.Inspect(m.fd.Body, func(n ast.Node) bool {
			switch x := n.(type) {
			case *ast.AssignStmt:
				if len(x.Lhs) == 1 && len(x.Rhs) == 1 {
					if exprText(x.Lhs[0]) == m.recv+".observers.List" && exprText(x.Rhs[0]) == "slc.Clone("+m.recv+".observers.List)" {
						cloned = true
					}
				}
			case *ast.CallExpr:
				if se, ok := x.Fun.(*ast.SelectorExpr); ok && exprText(se.X) == m.recv+".observers" &&
					(se.Sel.Name == "Push" || se.Sel.Name == "Remove" || se.Sel.Name == "Pop") {
					if !mut {
						clonedBefore = cloned
					}
					mut = true
				}
			}
			return true
		})
		if mut {
			lines = append(lines, fmt.Sprintf("  (%q, %v)", m.typ+"."+m.name, clonedBefore))
		}
	}
	if len(lines) < 2 {
		return fmt.Errorf("expected Observer and RemoveObserver to change the observer list")
	}
	out.WriteString(strings.Join(lines, ",\n") + "\n]\n")
	return nil
}

func exprText(e ast.Expr) string {
	switch x := e.(type) {
	case *ast.Ident:
		return x.Name
	case *ast.SelectorExpr:
		return exprText(x.X) + "." + x.Sel.Name
	case *ast.CallExpr:
		var as []string
		for _, a := range x.Args {
			as = append(as, exprText(a))
		}
		return exprText(x.Fun) + "(" + strings.Join(as, ",") + ")"
	case *ast.IndexExpr:
		return exprText(x.X) + "[" + exprText(x.Index) + "]"
	case *ast.StarExpr:
		return "*" + exprText(x.X)
	case *ast.ParenExpr:
		return "(" + exprText(x.X) + ")"
	case *ast.BinaryExpr:
		return exprText(x.X) + " " + x.Op.String() + " " + exprText(x.Y)
	case *ast.UnaryExpr:
		return x.Op.String() + exprText(x.X)
	case *ast.BasicLit:
		return x.Value
	}
	return "?"
}

func mentions(e ast.Node, name string) bool {
	found := false
	ast.Inspect(e, func(n ast.Node) bool {
		if id, ok := n.(*ast.Ident); ok && id.Name == name {
			found = true
		}
		return !found
	})
	return found
}

func rootedAt(e ast.Expr, recv string) bool {
	for {
		switch x := e.(type) {
		case *ast.IndexExpr:
			e = x.X
		case *ast.SliceExpr:
			e = x.X
		case *ast.SelectorExpr:
			e = x.X
		case *ast.ParenExpr:
			e = x.X
		case *ast.StarExpr:
			e = x.X
		case *ast.Ident:
			return x.Name == recv
		default:
			return false
		}
	}
}

// sfNeedsMarked: does method m store parameter p while it is not marked?
func sfNeedsMarked(m *sfMethod, p string, needs map[string]bool, byName map[string]*sfMethod) bool {
	marked := false
	result := false
	isMark := func(s ast.Stmt) bool {
		es, ok := s.(*ast.ExprStmt)
		if !ok {
			return false
		}
		c, ok := es.X.(*ast.CallExpr)
		if !ok {
			return false
		}
		se, ok := c.Fun.(*ast.SelectorExpr)
		if !ok || se.Sel.Name != "SetConcurrent" {
			return false
		}
		id, ok := se.X.(*ast.Ident)
		return ok && id.Name == p
	}
	var visit func(n ast.Node)
	visit = func(n ast.Node) {
		ast.Inspect(n, func(n ast.Node) bool {
			switch x := n.(type) {
			case *ast.AssignStmt:
				// p = …  : a fresh value, no longer marked
				for _, l := range x.Lhs {
					if id, ok := l.(*ast.Ident); ok && id.Name == p {
						for _, r := range x.Rhs {
							visit(r)
						}
						marked = false
						return false
					}
				}
				for i, l := range x.Lhs {
					if rootedAt(l, m.recv) {
						var r ast.Expr
						if len(x.Rhs) == len(x.Lhs) {
							r = x.Rhs[i]
						} else if len(x.Rhs) == 1 {
							r = x.Rhs[0]
						}
						if r != nil && mentions(r, p) && !marked {
							// index position is not a store of the value
							if ix, ok := l.(*ast.IndexExpr); !(ok && !mentionsOutsideIndex(r, p) && mentions(ix.Index, p)) {
								result = true
							}
						}
					}
				}
			case *ast.CallExpr:
				se, ok := x.Fun.(*ast.SelectorExpr)
				if !ok {
					return true
				}
				argIdx := -1
				for i, a := range x.Args {
					if id, ok := a.(*ast.Ident); ok && id.Name == p {
						argIdx = i
					}
				}
				if argIdx < 0 {
					return true
				}
				// recv.m(…p…) / recv.ob.m(…p…)
				callee := ""
				if id, ok := se.X.(*ast.Ident); ok && id.Name == m.recv {
					callee = m.typ + "." + se.Sel.Name
				} else if s2, ok := se.X.(*ast.SelectorExpr); ok {
					if id, ok := s2.X.(*ast.Ident); ok && id.Name == m.recv && s2.Sel.Name == "ob" {
						callee = "SuObject." + se.Sel.Name
					}
				}
				if callee != "" {
					if cm := byName[callee]; cm != nil && argIdx < len(cm.params) {
						if needs[callee+"#"+cm.params[argIdx]] && !marked {
							result = true
						}
					}
					return true
				}
				// recv.field.Put(…p…), recv.field.Push(p)
				if rootedAt(se.X, m.recv) && (se.Sel.Name == "Put" || se.Sel.Name == "Push") && !marked {
					result = true
				}
			}
			return true
		})
	}
	for _, s := range m.fd.Body.List {
		if isMark(s) {
			marked = true
			continue
		}
		if is, ok := s.(*ast.IfStmt); ok && is.Else == nil {
			cond := exprText(is.Cond)
			guard := strings.Contains(cond, ".concurrent") || strings.Contains(cond, ".Lock()")
			all := len(is.Body.List) > 0
			for _, b := range is.Body.List {
				if !isMark(b) {
					// other markings in the same block are fine
					if es, ok := b.(*ast.ExprStmt); ok {
						if c, ok := es.X.(*ast.CallExpr); ok {
							if se, ok := c.Fun.(*ast.SelectorExpr); ok && se.Sel.Name == "SetConcurrent" {
								continue
							}
						}
					}
					all = false
				}
			}
			hasMark := false
			for _, b := range is.Body.List {
				if isMark(b) {
					hasMark = true
				}
			}
			if guard && all && hasMark {
				marked = true
				continue
			}
		}
		visit(s)
	}
	return result
}

func mentionsOutsideIndex(e ast.Expr, p string) bool { return mentions(e, p) }

// sfConcEvents: source-order events of a SetConcurrent method
func sfConcEvents(m *sfMethod) []string {
	var ev []string
	rangeVar := map[string]string{} // loop variable -> receiver field it ranges over
	fieldOf := func(e ast.Expr) string {
		// recv.a.b -> "a.b" ; loop var -> its field ; x.obs (x loop var) -> field
		var chain []string
		for {
			switch x := e.(type) {
			case *ast.SelectorExpr:
				chain = append([]string{x.Sel.Name}, chain...)
				e = x.X
				continue
			case *ast.IndexExpr:
				e = x.X
				continue
			case *ast.Ident:
				if x.Name == m.recv {
					return strings.Join(chain, ".")
				}
				if f, ok := rangeVar[x.Name]; ok {
					return f
				}
			}
			return ""
		}
	}
	ast.Inspect(m.fd.Body, func(n ast.Node) bool {
		switch x := n.(type) {
		case *ast.RangeStmt:
			f := fieldOf(x.X)
			if f != "" {
				for _, v := range []ast.Expr{x.Key, x.Value} {
					if id, ok := v.(*ast.Ident); ok && id.Name != "_" {
						rangeVar[id.Name] = f
					}
				}
			}
		case *ast.AssignStmt:
			// iter := recv.named.Iter() ; for k, v, ok := iter() …
			if len(x.Lhs) >= 1 && len(x.Rhs) == 1 {
				if c, ok := x.Rhs[0].(*ast.CallExpr); ok {
					if se, ok := c.Fun.(*ast.SelectorExpr); ok && se.Sel.Name == "Iter" {
						if f := fieldOf(se.X); f != "" {
							if id, ok := x.Lhs[0].(*ast.Ident); ok {
								rangeVar["iter:"+id.Name] = f
							}
						}
					}
					if id, ok := c.Fun.(*ast.Ident); ok {
						if f, ok := rangeVar["iter:"+id.Name]; ok {
							for _, l := range x.Lhs {
								if li, ok := l.(*ast.Ident); ok {
									rangeVar[li.Name] = f
								}
							}
						}
					}
				}
			}
		case *ast.ReturnStmt:
			ev = append(ev, "return")
		case *ast.CallExpr:
			if se, ok := x.Fun.(*ast.SelectorExpr); ok {
				if se.Sel.Name == "SetConcurrent" {
					if f := fieldOf(se.X); f != "" {
						ev = append(ev, "mark:"+f)
					}
				}
				if se.Sel.Name == "SetChildConc" {
					ev = append(ev, "children")
				}
			}
		}
		return true
	})
	return ev
}
