package main

import (
	"fmt"
	"go/ast"
	"go/token"
	"path/filepath"
	"strings"
)

// Asof: the facts of db19/state.go and db19/tran.go the C19 theorems mention.
//   - magicLen: len(magic1), the search string of LastOffset/FirstOffset
//   - offIsLoopVar: whether the `Off:` of the DbState returned by stateAsof is the variable that
//     is assigned from store.LastOffset (true in the code with DESIGN §6 finding 10: that variable
//     is 0 when the scan runs off the start of the file)
//   - asofStop: the loop exit test of stateAsof as a function of (t, asof)
//   - nextFrom: the start offset NextState hands to FirstOffset as a function of off
//   - caseSame/casePrev/caseNext: the constants of the switch in ReadTran.Asof, identified by
//     what the case body does (return t.asof / PrevState / NextState)
func init() {
	register("Asof", func(repo string, out *strings.Builder) error {
		g := parseGo(filepath.Join(repo, "db19/state.go"))
		out.WriteString("namespace Gsu.Gen.Asof\n\n")
		m1, ok := g.sconst["magic1"]
		if !ok {
			return fmt.Errorf("magic1 not found in state.go")
		}
		fmt.Fprintf(out, "def magicLen : Nat := %d\n", len(m1))

		fd := g.fn("stateAsof")
		// variables assigned from <x>.LastOffset(...)
		loopVars := map[string]bool{}
		var stopCond ast.Expr
		var retOff string
		ast.Inspect(fd.Body, func(n ast.Node) bool {
			switch n := n.(type) {
			case *ast.AssignStmt:
				if len(n.Lhs) == 1 && len(n.Rhs) == 1 && isCallTo(n.Rhs[0], "LastOffset") {
					if id, ok := n.Lhs[0].(*ast.Ident); ok {
						loopVars[id.Name] = true
					}
				}
			case *ast.IfStmt:
				// `if t <= args.asof { break }`
				if be, ok := n.Cond.(*ast.BinaryExpr); ok && len(n.Body.List) == 1 {
					if br, ok := n.Body.List[0].(*ast.BranchStmt); ok && br.Tok == token.BREAK {
						if sel, ok := be.Y.(*ast.SelectorExpr); ok && sel.Sel.Name == "asof" {
							stopCond = be
						}
					}
				}
			case *ast.ReturnStmt:
				if len(n.Results) == 1 {
					if ue, ok := n.Results[0].(*ast.UnaryExpr); ok {
						if cl, ok := ue.X.(*ast.CompositeLit); ok {
							for _, el := range cl.Elts {
								if kv, ok := el.(*ast.KeyValueExpr); ok {
									if k, ok := kv.Key.(*ast.Ident); ok && k.Name == "Off" {
										if v, ok := kv.Value.(*ast.Ident); ok {
											retOff = v.Name
										}
									}
								}
							}
						}
					}
				}
			}
			return true
		})
		if len(loopVars) == 0 || retOff == "" || stopCond == nil {
			return fmt.Errorf("stateAsof no longer has the expected shape (LastOffset loop var %v, returned Off %q, stop test %v)",
				loopVars, retOff, stopCond != nil)
		}
		fmt.Fprintf(out, "def offIsLoopVar : Bool := %v\n", loopVars[retOff])
		be := stopCond.(*ast.BinaryExpr)
		lhs, ok := be.X.(*ast.Ident)
		if !ok {
			return fmt.Errorf("stateAsof stop test: unexpected left operand")
		}
		fmt.Fprintf(out, "def asofStop (%s argsasof : Int) : Bool := %s\n", lhs.Name, g.expr(be))

		// NextState: argument of FirstOffset
		nf := g.fn("NextState")
		var firstArg ast.Expr
		ast.Inspect(nf.Body, func(n ast.Node) bool {
			if ce, ok := n.(*ast.CallExpr); ok && isCallTo(ce, "FirstOffset") && len(ce.Args) == 2 {
				firstArg = ce.Args[0]
			}
			return true
		})
		if firstArg == nil {
			return fmt.Errorf("NextState: call of FirstOffset not found")
		}
		fmt.Fprintf(out, "def nextFrom (off : Int) : Int := %s\n", g.expr(firstArg))

		// PrevState: `if off == 0 { off = store.Size() }` must be present
		pf := g.fn("PrevState")
		zeroMeansEnd := false
		ast.Inspect(pf.Body, func(n ast.Node) bool {
			if is, ok := n.(*ast.IfStmt); ok {
				if be, ok := is.Cond.(*ast.BinaryExpr); ok && be.Op == token.EQL && len(is.Body.List) == 1 {
					if as, ok := is.Body.List[0].(*ast.AssignStmt); ok && len(as.Rhs) == 1 && isCallTo(as.Rhs[0], "Size") {
						if x, ok := be.X.(*ast.Ident); ok && x.Name == "off" {
							if y, ok := be.Y.(*ast.BasicLit); ok && y.Value == "0" {
								zeroMeansEnd = true
							}
						}
					}
				}
			}
			return true
		})
		fmt.Fprintf(out, "def prevZeroMeansEnd : Bool := %v\n", zeroMeansEnd)

		// ReadTran.Asof switch
		gt := parseGo(filepath.Join(repo, "db19/tran.go"))
		af := gt.method("ReadTran", "Asof")
		cases := map[string]string{}
		ast.Inspect(af.Body, func(n ast.Node) bool {
			sw, ok := n.(*ast.SwitchStmt)
			if !ok || sw.Tag == nil {
				return true
			}
			for _, c := range sw.Body.List {
				cc := c.(*ast.CaseClause)
				if len(cc.List) != 1 {
					continue
				}
				what := ""
				ast.Inspect(cc, func(m ast.Node) bool {
					switch m := m.(type) {
					case *ast.CallExpr:
						if isCallTo(m, "PrevState") {
							what = "casePrev"
						} else if isCallTo(m, "NextState") {
							what = "caseNext"
						}
					case *ast.ReturnStmt:
						if len(m.Results) == 1 {
							if sel, ok := m.Results[0].(*ast.SelectorExpr); ok && sel.Sel.Name == "asof" {
								what = "caseSame"
							}
						}
					}
					return true
				})
				if what != "" {
					cases[what] = gt.expr(cc.List[0])
				}
			}
			return false
		})
		for _, k := range []string{"caseSame", "casePrev", "caseNext"} {
			v, ok := cases[k]
			if !ok {
				return fmt.Errorf("ReadTran.Asof: switch case for %s not found", k)
			}
			fmt.Fprintf(out, "def %s : Int := %s\n", k, v)
		}
		out.WriteString("\nend Gsu.Gen.Asof\n")
		return nil
	})
}

// isCallTo reports whether e is a call of a function or method with the given name.
func isCallTo(e ast.Expr, name string) bool {
	ce, ok := e.(*ast.CallExpr)
	if !ok {
		return false
	}
	switch f := ce.Fun.(type) {
	case *ast.Ident:
		return f.Name == name
	case *ast.SelectorExpr:
		return f.Sel.Name == name
	}
	return false
}
