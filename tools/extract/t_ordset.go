package main

import (
	"bytes"
	"fmt"
	"go/ast"
	"go/printer"
	"go/token"
	"path/filepath"
	"strings"
)

// Ordset: what the C39 mirrors of util/ordset/ordset.go and util/ranges/ranges.go take from the
// source: nodeSize, the three split points of `split` (as the constant expressions written
// there) together with the *conditions* that select them (checked textually: the target fails
// when they are no longer the ones the hand-written mirror implements), and whether
// `leafNode.insert` of ordset guards the duplicate test with `i < leaf.size` (finding 1).
func init() {
	register("Ordset", func(repo string, out *strings.Builder) error {
		out.WriteString("namespace Gsu.Gen.Ordset\n")
		// ---- ordset
		g := parseGo(filepath.Join(repo, "util/ordset/ordset.go"))
		fmt.Fprintf(out, "\ndef ordsetNodeSize : Nat := %s\n", g.intConst("nodeSize"))
		if err := emitSplit39(g, out, "ordset", g.method("Set", "split"),
			[]string{"key > leaf.slots[nodeSize-1]", "key < leaf.slots[0]"}); err != nil {
			return err
		}
		// tree creation condition of ordset.split
		sp := g.method("Set", "split")
		ifs, ok := sp.Body.List[0].(*ast.IfStmt)
		if !ok || src39(g, ifs.Cond) != "set.tree == nil && set.leaf.size == nodeSize" {
			return fmt.Errorf("ordset.split: unexpected tree-creation condition")
		}
		if e, ok := ifs.Else.(*ast.IfStmt); !ok || src39(g, e.Cond) != "set.tree.size >= nodeSize" {
			return fmt.Errorf("ordset.split: unexpected tree-full condition")
		}
		// the duplicate test of leafNode.insert
		ins := g.method("leafNode", "insert")
		guard := ""
		for _, s := range ins.Body.List {
			if is, ok := s.(*ast.IfStmt); ok {
				c := src39(g, is.Cond)
				if strings.Contains(c, "== key") {
					guard = c
				}
			}
		}
		switch guard {
		case "leaf.slots[i] == key":
			out.WriteString("\n/-- `leafNode.insert` tests `leaf.slots[i] == key` without `i < leaf.size` (finding 1) -/\n")
			out.WriteString("def ordsetInsertGuarded : Bool := false\n")
		case "i < leaf.size && leaf.slots[i] == key":
			out.WriteString("\n/-- `leafNode.insert` tests `i < leaf.size && leaf.slots[i] == key` -/\n")
			out.WriteString("def ordsetInsertGuarded : Bool := true\n")
		default:
			return fmt.Errorf("ordset leafNode.insert: unexpected duplicate test %q", guard)
		}
		// comparison operators of the two binary searches (textual)
		if err := expectCond39(g, g.method("leafNode", "searchBinary"), "key > leaf.slots[h]"); err != nil {
			return err
		}
		if err := expectCond39(g, g.method("treeNode", "searchBinary"), "key >= tree.slots[h].key"); err != nil {
			return err
		}

		// ---- ranges
		r := parseGo(filepath.Join(repo, "util/ranges/ranges.go"))
		fmt.Fprintf(out, "\ndef rangesNodeSize : Nat := %s\n", r.intConst("nodeSize"))
		if err := emitSplit39(r, out, "ranges", r.method("Ranges", "split"),
			[]string{"val > leaf.slots[nodeSize-1].from", "val < leaf.slots[0].to"}); err != nil {
			return err
		}
		rsp := r.method("Ranges", "split")
		rifs, ok := rsp.Body.List[0].(*ast.IfStmt)
		if !ok || src39(r, rifs.Cond) != "rs.tree == nil" {
			return fmt.Errorf("ranges.split: unexpected tree-creation condition")
		}
		if e, ok := rifs.Else.(*ast.IfStmt); !ok || src39(r, e.Cond) != "rs.tree.size >= nodeSize" {
			return fmt.Errorf("ranges.split: unexpected tree-full condition")
		}
		if err := expectCond39(r, r.method("leafNode", "searchBinary"), "val > leaf.slots[h].from"); err != nil {
			return err
		}
		if err := expectCond39(r, r.method("treeNode", "searchBinary"), "val >= tree.slots[h].val"); err != nil {
			return err
		}
		// overlap / contains predicates of ranges (textual)
		if got := retSrc39(r, r.fn("overlap")); got != "ls1.to >= ls2.from && ls2.to >= ls1.from" {
			return fmt.Errorf("ranges.overlap: unexpected body %q", got)
		}
		if got := retSrc39(r, r.method("leafSlot", "contains")); got != "ls.from <= from && to <= ls.to" {
			return fmt.Errorf("ranges leafSlot.contains: unexpected body %q", got)
		}
		fmt.Fprintf(out, "def rangesExisted : Int := %s\n", r.intConst("Existed"))
		fmt.Fprintf(out, "def rangesAdded : Int := %s\n", r.intConst("Added"))
		out.WriteString("\nend Gsu.Gen.Ordset\n")
		return nil
	})
}

func src39(g *goFile, n ast.Node) string {
	var b bytes.Buffer
	printer.Fprint(&b, g.fset, n)
	return strings.Join(strings.Fields(b.String()), " ")
}

func retSrc39(g *goFile, fd *ast.FuncDecl) string {
	if len(fd.Body.List) != 1 {
		return "?"
	}
	rs, ok := fd.Body.List[0].(*ast.ReturnStmt)
	if !ok || len(rs.Results) != 1 {
		return "?"
	}
	return src39(g, rs.Results[0])
}

// expectCond: the function contains an if statement with exactly this condition
func expectCond39(g *goFile, fd *ast.FuncDecl, want string) error {
	found := false
	ast.Inspect(fd.Body, func(n ast.Node) bool {
		if is, ok := n.(*ast.IfStmt); ok && src39(g, is.Cond) == want {
			found = true
		}
		return true
	})
	if !found {
		return fmt.Errorf("%s: condition %q not found", fd.Name.Name, want)
	}
	return nil
}

// emitSplit finds `if c1 { left = e1 } else if c2 { left = e2 } else { left = e3 }` in split,
// checks c1, c2 textually and emits e1,e2,e3 (constant expressions) as <pfx>LeftHi/Lo/Mid.
func emitSplit39(g *goFile, out *strings.Builder, pfx string, fd *ast.FuncDecl, conds []string) error {
	var chain *ast.IfStmt
	for _, s := range fd.Body.List {
		if is, ok := s.(*ast.IfStmt); ok {
			if as := soleAssign39(is.Body); as != nil && as.Lhs[0].(*ast.Ident).Name == "left" {
				chain = is
			}
		}
	}
	if chain == nil {
		return fmt.Errorf("%s.split: `left =` chain not found", pfx)
	}
	if src39(g, chain.Cond) != conds[0] {
		return fmt.Errorf("%s.split: first condition is %q", pfx, src39(g, chain.Cond))
	}
	e2, ok := chain.Else.(*ast.IfStmt)
	if !ok || src39(g, e2.Cond) != conds[1] {
		return fmt.Errorf("%s.split: second condition changed", pfx)
	}
	e3, ok := e2.Else.(*ast.BlockStmt)
	if !ok || soleAssign39(e3) == nil || soleAssign39(e2.Body) == nil {
		return fmt.Errorf("%s.split: unexpected else shape", pfx)
	}
	fmt.Fprintf(out, "def %sLeftHi : Int := %s\n", pfx, g.expr(soleAssign39(chain.Body).Rhs[0]))
	fmt.Fprintf(out, "def %sLeftLo : Int := %s\n", pfx, g.expr(soleAssign39(e2.Body).Rhs[0]))
	fmt.Fprintf(out, "def %sLeftMid : Int := %s\n", pfx, g.expr(soleAssign39(e3).Rhs[0]))
	return nil
}

func soleAssign39(b *ast.BlockStmt) *ast.AssignStmt {
	if len(b.List) != 1 {
		return nil
	}
	as, ok := b.List[0].(*ast.AssignStmt)
	if !ok || as.Tok != token.ASSIGN || len(as.Lhs) != 1 || len(as.Rhs) != 1 {
		return nil
	}
	if _, ok := as.Lhs[0].(*ast.Ident); !ok {
		return nil
	}
	return as
}
