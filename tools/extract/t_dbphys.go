package main

import (
	"fmt"
	"go/ast"
	"path/filepath"
	"strings"
)

// Dbphys: facts of db19 the M-DB physical model (C06/C03/C16/C02) depends on.
//
//   - writeMax (tran.go)
//   - where the overlays of a newly built index get their layer count: every call of
//     index.OverlayForN in database.go is classified as "inside the function literal passed to
//     UpdateState" (count taken from the latest state, under the state mutex) or not (count taken
//     from the snapshot buildIndexes read, DESIGN §6 finding 15).
//   - the slice expressions of MergeUpdate.Apply1 / PersistUpdate.Apply1 / WithMerged / WithSaved
//     as integer functions of (len, nmerged), so that an off-by-one there breaks the gen_ theorems.
func init() {
	register("Dbphys", func(repo string, out *strings.Builder) error {
		out.WriteString("set_option linter.unusedVariables false\nnamespace Gsu.Gen.Dbphys\n\n")

		tr := parseGo(filepath.Join(repo, "db19/tran.go"))
		fmt.Fprintf(out, "def writeMax : Int := %s\n", tr.intConst("writeMax"))
		// the shape of UpdateTran.write: `if t.writeCount++; t.writeCount >= writeMax`
		wr := tr.method("UpdateTran", "write")
		cmp := ""
		ast.Inspect(wr, func(n ast.Node) bool {
			if is, ok := n.(*ast.IfStmt); ok {
				if be, ok := is.Cond.(*ast.BinaryExpr); ok {
					if id, ok := be.Y.(*ast.Ident); ok && id.Name == "writeMax" {
						cmp = be.Op.String()
					}
				}
			}
			return true
		})
		if cmp == "" {
			return fmt.Errorf("UpdateTran.write: comparison with writeMax not found")
		}
		fmt.Fprintf(out, "def writeLimitOp : String := %q\n", cmp)

		db := parseGo(filepath.Join(repo, "db19/database.go"))
		type site struct {
			fn     string
			inside bool
		}
		var sites []site
		for _, d := range db.file.Decls {
			fd, ok := d.(*ast.FuncDecl)
			if !ok || fd.Body == nil {
				continue
			}
			// collect the function literals that are arguments of x.UpdateState(...)
			var lits []*ast.FuncLit
			ast.Inspect(fd.Body, func(n ast.Node) bool {
				if ce, ok := n.(*ast.CallExpr); ok {
					if se, ok := ce.Fun.(*ast.SelectorExpr); ok && se.Sel.Name == "UpdateState" {
						for _, a := range ce.Args {
							if fl, ok := a.(*ast.FuncLit); ok {
								lits = append(lits, fl)
							}
						}
					}
				}
				return true
			})
			ast.Inspect(fd.Body, func(n ast.Node) bool {
				ce, ok := n.(*ast.CallExpr)
				if !ok {
					return true
				}
				se, ok := ce.Fun.(*ast.SelectorExpr)
				if !ok || se.Sel.Name != "OverlayForN" {
					return true
				}
				in := false
				for _, fl := range lits {
					if fl.Pos() <= ce.Pos() && ce.End() <= fl.End() {
						in = true
					}
				}
				sites = append(sites, site{fd.Name.Name, in})
				return true
			})
		}
		if len(sites) == 0 {
			return fmt.Errorf("no call of index.OverlayForN in database.go")
		}
		out.WriteString("\n/-- (function, call is inside the closure passed to UpdateState) for every OverlayForN call -/\n")
		out.WriteString("def overlayForNSites : List (String × Bool) := [")
		all := true
		for i, s := range sites {
			if i > 0 {
				out.WriteString(", ")
			}
			fmt.Fprintf(out, "(%q, %v)", s.fn, s.inside)
			all = all && s.inside
		}
		out.WriteString("]\n")
		fmt.Fprintf(out, "def layersFromLatest : Bool := %v\n", all)

		// Meta.Persist: which indexes decide whether a table has unsaved changes?
		// `ti.Indexes[0].Modified()` = the first one only; a call of Modified() on a loop
		// variable (directly or in a helper the condition calls) = every index.
		info := parseGo(filepath.Join(repo, "db19/meta/info.go"))
		pm := info.method("Meta", "Persist")
		firstOnly, viaHelper := false, ""
		ast.Inspect(pm.Body, func(n ast.Node) bool {
			is, ok := n.(*ast.IfStmt)
			if !ok {
				return true
			}
			ast.Inspect(is.Cond, func(c ast.Node) bool {
				if ce, ok := c.(*ast.CallExpr); ok {
					if se, ok := ce.Fun.(*ast.SelectorExpr); ok && se.Sel.Name == "Modified" {
						if ie, ok := se.X.(*ast.IndexExpr); ok {
							if bl, ok := ie.Index.(*ast.BasicLit); ok && bl.Value == "0" {
								firstOnly = true
							}
						}
					}
					if id, ok := ce.Fun.(*ast.Ident); ok && id.Name != "len" {
						viaHelper = id.Name
					}
				}
				return true
			})
			return false
		})
		allIdx := false
		if !firstOnly && viaHelper != "" {
			hf := info.fn(viaHelper)
			ast.Inspect(hf.Body, func(n ast.Node) bool {
				if rs, ok := n.(*ast.RangeStmt); ok {
					ast.Inspect(rs.Body, func(c ast.Node) bool {
						if ce, ok := c.(*ast.CallExpr); ok {
							if se, ok := ce.Fun.(*ast.SelectorExpr); ok && se.Sel.Name == "Modified" {
								if id, ok := se.X.(*ast.Ident); ok {
									if v, ok := rs.Value.(*ast.Ident); ok && v.Name == id.Name {
										allIdx = true
									}
								}
							}
						}
						return true
					})
				}
				return true
			})
		}
		if !firstOnly && !allIdx {
			return fmt.Errorf("Meta.Persist: the test for unsaved changes has neither of the two known shapes")
		}
		fmt.Fprintf(out, "def persistChecksAllIndexes : Bool := %v\n", allIdx)

		// Meta.LayeredOnto: `ti.lastMod = <x>.info.Clock` — x must be the parameter (the latest
		// state), not the receiver (the transaction's older snapshot): lastMod must not go backwards
		mm := parseGo(filepath.Join(repo, "db19/meta/meta.go"))
		lo := mm.method("Meta", "LayeredOnto")
		recv := lo.Recv.List[0].Names[0].Name
		param := lo.Type.Params.List[0].Names[0].Name
		stamp := ""
		ast.Inspect(lo.Body, func(n ast.Node) bool {
			as, ok := n.(*ast.AssignStmt)
			if !ok || len(as.Lhs) != 1 || len(as.Rhs) != 1 {
				return true
			}
			if l, ok := as.Lhs[0].(*ast.SelectorExpr); ok && l.Sel.Name == "lastMod" {
				// rhs: x.info.Clock
				if r1, ok := as.Rhs[0].(*ast.SelectorExpr); ok && r1.Sel.Name == "Clock" {
					if r2, ok := r1.X.(*ast.SelectorExpr); ok && r2.Sel.Name == "info" {
						if id, ok := r2.X.(*ast.Ident); ok {
							stamp = id.Name
						}
					}
				}
			}
			return true
		})
		if stamp != recv && stamp != param {
			return fmt.Errorf("LayeredOnto: `ti.lastMod = <x>.info.Clock` not found (x=%q)", stamp)
		}
		fmt.Fprintf(out, "def layeredOntoStampsLatestClock : Bool := %v\n", stamp == param)

		// slice arithmetic of the apply steps
		ov := parseGo(filepath.Join(repo, "db19/index/overlay.go"))
		emitSlices(out, info, info.method("MergeUpdate", "Apply1"), "mergeApply1", "ti.Deltas", "mu.nmerged")
		emitSlices(out, ov, ov.method("Overlay", "WithMerged"), "withMerged", "ov.layers", "nmerged")
		emitSlices(out, ov, ov.method("Overlay", "WithSaved"), "withSaved", "ov.layers", "nmerged")
		out.WriteString("\nend Gsu.Gen.Dbphys\n")
		return nil
	})
}

// emitSlices prints, for every slice expression `<base>[lo:hi]` and every `make([]T, n)` in fd,
// the bounds as Lean functions of (len n : Int) where len = len(<base>) and n = <nm>.
func emitSlices(out *strings.Builder, g *goFile, fd *ast.FuncDecl, name, base, nm string) {
	src := func(e ast.Expr) string {
		if e == nil {
			return ""
		}
		var sb strings.Builder
		printExpr(&sb, e)
		return sb.String()
	}
	tr := func(e ast.Expr, def string) string {
		if e == nil {
			return def
		}
		s := src(e)
		s = strings.ReplaceAll(s, "len("+base+")", "len")
		s = strings.ReplaceAll(s, nm, "n")
		for _, c := range s {
			if !strings.ContainsRune("len0123456789+-() ", c) {
				panic(fmt.Sprintf("%s: unexpected slice bound %q", name, src(e)))
			}
		}
		return s
	}
	k := 0
	ast.Inspect(fd.Body, func(n ast.Node) bool {
		switch e := n.(type) {
		case *ast.SliceExpr:
			if src(e.X) != base {
				return true
			}
			fmt.Fprintf(out, "def %sLo%d (len n : Int) : Int := %s\n", name, k, tr(e.Low, "0"))
			fmt.Fprintf(out, "def %sHi%d (len n : Int) : Int := %s\n", name, k, tr(e.High, "len"))
			k++
		case *ast.CallExpr:
			if id, ok := e.Fun.(*ast.Ident); ok && id.Name == "make" && len(e.Args) == 2 {
				fmt.Fprintf(out, "def %sMake (len n : Int) : Int := %s\n", name, tr(e.Args[1], ""))
			}
		}
		return true
	})
	fmt.Fprintf(out, "def %sSlices : Nat := %d\n", name, k)
}

func printExpr(sb *strings.Builder, e ast.Expr) {
	switch e := e.(type) {
	case *ast.Ident:
		sb.WriteString(e.Name)
	case *ast.BasicLit:
		sb.WriteString(e.Value)
	case *ast.SelectorExpr:
		printExpr(sb, e.X)
		sb.WriteString(".")
		sb.WriteString(e.Sel.Name)
	case *ast.BinaryExpr:
		printExpr(sb, e.X)
		sb.WriteString(e.Op.String())
		printExpr(sb, e.Y)
	case *ast.ParenExpr:
		sb.WriteString("(")
		printExpr(sb, e.X)
		sb.WriteString(")")
	case *ast.CallExpr:
		printExpr(sb, e.Fun)
		sb.WriteString("(")
		for i, a := range e.Args {
			if i > 0 {
				sb.WriteString(",")
			}
			printExpr(sb, a)
		}
		sb.WriteString(")")
	default:
		panic(fmt.Sprintf("printExpr: unsupported %T", e))
	}
}
