// mkcert writes a self-signed localhost certificate + key (PEM) for the //go:embed
// files dbms/server.crt|key that are git-ignored in /repo; supplied through go's -overlay.
package main

import (
	"crypto/ecdsa"
	"crypto/elliptic"
	"crypto/rand"
	"crypto/x509"
	"crypto/x509/pkix"
	"encoding/pem"
	"math/big"
	"net"
	"os"
	"time"
)

func main() {
	key, err := ecdsa.GenerateKey(elliptic.P256(), rand.Reader)
	if err != nil {
		panic(err)
	}
	tmpl := x509.Certificate{
		SerialNumber: big.NewInt(1),
		Subject:      pkix.Name{CommonName: "localhost"},
		NotBefore:    time.Now().Add(-time.Hour),
		NotAfter:     time.Now().Add(20 * 365 * 24 * time.Hour),
		KeyUsage:     x509.KeyUsageDigitalSignature | x509.KeyUsageKeyEncipherment,
		ExtKeyUsage:  []x509.ExtKeyUsage{x509.ExtKeyUsageServerAuth},
		DNSNames:     []string{"localhost"},
		IPAddresses:  []net.IP{net.ParseIP("127.0.0.1")},
	}
	der, err := x509.CreateCertificate(rand.Reader, &tmpl, &tmpl, &key.PublicKey, key)
	if err != nil {
		panic(err)
	}
	kb, err := x509.MarshalPKCS8PrivateKey(key)
	if err != nil {
		panic(err)
	}
	os.WriteFile(os.Args[1], pem.EncodeToMemory(&pem.Block{Type: "CERTIFICATE", Bytes: der}), 0644)
	os.WriteFile(os.Args[2], pem.EncodeToMemory(&pem.Block{Type: "PRIVATE KEY", Bytes: kb}), 0600)
}
