module verif/mkcert

go 1.23
