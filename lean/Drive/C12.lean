import Gsu.Model.Ixkey
open Gsu.Proto Gsu.Ixkey

def natList (s : String) : Option (List Nat) :=
  if s = "-" then some [] else allSome ((s.splitOn ",").map parseNat)

/-- signed field list: `-(idx+2)` is the `_lower!` form of field `idx` -/
def fldList (s : String) : Option (List Fld) :=
  if s = "-" then some [] else
    allSome ((s.splitOn ",").map fun x => match parseInt x with
      | some (Int.ofNat n) => some ⟨n, false⟩
      | some (Int.negSucc n) => if n ≥ 1 then some ⟨n - 1, true⟩ else none
      | none => none)

/-- ops:
  key <fields> <fields2> <f0> <f1> …      → key bytes   (keyl / cmpl: same with signed fields, -(i+2) = field i _lower!)
  cmp <fields> <fields2> <nf1> r1… r2…    → -1|0|1
  enc <b>                                 → bytes
  decode <b>                              → fields joined by space
  hasprefix <s> <p>                       → t|f
  split <k> <n>                           → prefix suffix
  join <p> <n> <s>                        → bytes
  rangeend <k> <n>                        → bytes
  decode1 <k> <i>                         → bytes
  truncfn <nf1> <nf2> <enc1:t|f> <enc2:t|f> <k> → bytes
-/
def step (l : List String) : String :=
  match l with
  | "keyl" :: fs :: fs2 :: rec =>
    match fldList fs, natList fs2, allSome (rec.map parseBytes) with
    | some f, some f2, some r => showBytes (keyL f f2 r)
    | _, _, _ => "bad-op"
  | "cmpl" :: fs :: fs2 :: n :: rest =>
    match fldList fs, natList fs2, parseNat n, allSome (rest.map parseBytes) with
    | some f, some f2, some n, some r => showOrd (compareL f f2 (r.take n) (r.drop n))
    | _, _, _, _ => "bad-op"
  | "key" :: fs :: fs2 :: rec =>
    match natList fs, natList fs2, allSome (rec.map parseBytes) with
    | some f, some f2, some r => showBytes (key f f2 r)
    | _, _, _ => "bad-op"
  | "cmp" :: fs :: fs2 :: n :: rest =>
    match natList fs, natList fs2, parseNat n, allSome (rest.map parseBytes) with
    | some f, some f2, some n, some r => showOrd (compare f f2 (r.take n) (r.drop n))
    | _, _, _, _ => "bad-op"
  | ["enc", b] => match parseBytes b with
    | some b => showBytes (enc b)
    | none => "bad-op"
  | ["decode", b] => match parseBytes b with
    | some b => " ".intercalate ((decode b).map showBytes)
    | none => "bad-op"
  | ["hasprefix", s, p] => match parseBytes s, parseBytes p with
    | some s, some p => showBool (hasPrefix s p)
    | _, _ => "bad-op"
  | ["split", k, n] => match parseBytes k, parseNat n with
    | some k, some n => let (p, s) := splitPS k n; showBytes p ++ " " ++ showBytes s
    | _, _ => "bad-op"
  | ["join", p, n, s] => match parseBytes p, parseNat n, parseBytes s with
    | some p, some n, some s => showBytes (joinPS p n s)
    | _, _, _ => "bad-op"
  | ["rangeend", k, n] => match parseBytes k, parseNat n with
    | some k, some n => showBytes (rangeEnd k n)
    | _, _ => "bad-op"
  | ["decode1", k, i] => match parseBytes k, parseNat i with
    | some k, some i => showBytes (decode1 k i)
    | _, _ => "bad-op"
  | ["truncfn", n1, n2, e1, e2, k] =>
    match parseNat n1, parseNat n2, parseBool e1, parseBool e2, parseBytes k with
    | some n1, some n2, some e1, some e2, some k => showBytes (truncFn n1 n2 e1 e2 k)
    | _, _, _, _, _ => "bad-op"
  | _ => "bad-op"

def main : IO Unit := run step
