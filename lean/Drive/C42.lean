import Gsu.Util.Proto
import Gsu.Model.TxnBlock
open Gsu.Proto Gsu.TxnBlock

def parseStatus : String → Option Status
  | "active" => some .active | "completed" => some .completed | "aborted" => some .aborted | _ => none
def parseExit : String → Option Exit
  | "normal" => some .normal | "return" => some .blockReturn | "break" => some .blockBreak
  | "continue" => some .blockContinue | "throw" => some .throw | _ => none

/-- blk <status at exit> <exit> <commitOk> → committed|rolledback none|same|completefailed -/
def step (l : List String) : String :=
  match l with
  | ["blk", s, e, c] =>
    match parseStatus s, parseExit e, parseBool c with
    | some s, some e, some c =>
      let o := leave s e c
      (match o.db with | .committed => "committed" | .rolledBack => "rolledback") ++ " " ++
      (match o.raised with | .none => "none" | .same => "same" | .completeFailed => "completefailed")
    | _, _, _ => "bad-op"
  | _ => "bad-op"

def main : IO Unit := run step
