import Gsu.Util.QParse
open Gsu.Proto Gsu.QVal Gsu.QExpr Gsu.Qry Gsu.QParse

/-- `col:value` pairs, comma separated (`-` = empty row) -/
def parseRow (s : String) : Option Row :=
  parseList (fun p => match p.splitOn ":" with
    | [c, v] => match parseNat c, parseVal v with
      | some c, some v => some (c, v)
      | _, _ => none
    | _ => none) s

/-- ops (stateful: the database of the query-level part, as for C22):
  reset | table <id> <cols> <row>* → ok ;  eval <query tokens> → canonical result
  pack <value>                  → x<hex>                       (`core.Pack`)
  ev <flds> <row> <expr tokens> → <language value> <engine value> <canEvalRaw t|f>
  rawcmp <v1> <v2>              → -1|0|1 -1|0|1                (encodings, language)
-/
def step (db : Db) (l : List String) : Db × String :=
  match l with
  | ["reset"] => ([], "ok")
  | "table" :: id :: cols :: rows =>
    match parseNat id, parseTable cols rows with
    | some id, some t => (setTable db id t, "ok")
    | _, _ => (db, "bad-op")
  | "eval" :: toks =>
    match parseQuery (toks.length + 1) toks with
    | some (q, []) => (db, showResult (colsQ db q) (evalQ db q))
    | _ => (db, "bad-op")
  | ["pack", v] => match parseVal v with
    | some v => (db, showBytes (pack v))
    | none => (db, "bad-op")
  | ["rawcmp", a, b] => match parseVal a, parseVal b with
    | some a, some b => (db, showOrd (rawCmp a b) ++ " " ++ showOrd (Gsu.QVal.compare a b))
    | _, _ => (db, "bad-op")
  | "ev" :: flds :: row :: toks =>
    match parseCols flds, parseRow row, parseExpr (toks.length + 1) toks with
    | some flds, some r, some (e, []) =>
      (db, showVal (eval r e) ++ " " ++ showVal (evalX flds r e) ++ " " ++ showBool (canRaw flds e))
    | _, _, _ => (db, "bad-op")
  | _ => (db, "bad-op")

def main : IO Unit := runS ([] : Db) step
