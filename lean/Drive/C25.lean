import Gsu.Util.QParse
open Gsu.Proto Gsu.QVal Gsu.QExpr Gsu.Qry Gsu.QParse

/-- `col:value` pairs, comma separated (`-` = empty row) -/
def parseRow (s : String) : Option Row :=
  parseList (fun p => match p.splitOn ":" with
    | [c, v] => match parseNat c, parseVal v with
      | some c, some v => some (c, v)
      | _, _ => none
    | _ => none) s

/-- ops:
  pack <value>                  → x<hex>                       (`core.Pack`)
  ev <flds> <row> <expr tokens> → <language value> <engine value> <canEvalRaw t|f>
  rawcmp <v1> <v2>              → -1|0|1 -1|0|1                (encodings, language)
-/
def step (l : List String) : String :=
  match l with
  | ["pack", v] => match parseVal v with
    | some v => showBytes (pack v)
    | none => "bad-op"
  | ["rawcmp", a, b] => match parseVal a, parseVal b with
    | some a, some b => showOrd (rawCmp a b) ++ " " ++ showOrd (Gsu.QVal.compare a b)
    | _, _ => "bad-op"
  | "ev" :: flds :: row :: toks =>
    match parseCols flds, parseRow row, parseExpr (toks.length + 1) toks with
    | some flds, some r, some (e, []) =>
      showVal (eval r e) ++ " " ++ showVal (evalX flds r e) ++ " " ++ showBool (canRaw flds e)
    | _, _, _ => "bad-op"
  | _ => "bad-op"

def main : IO Unit := run step
