import Gsu.Model.Dump
open Gsu.Proto Gsu.Dump

def parseCols (s : String) : List String := if s = "-" then [] else s.splitOn ","

/-- `x..|x..|x..` → row of raw fields; `.` = the record with no fields -/
def parseRow (s : String) : Option Row :=
  if s = "." then some [] else allSome ((s.splitOn "|").map parseBytes)

def showRow (r : Row) : String := if r.isEmpty then "." else "|".intercalate (r.map showBytes)

def parseMode (s : String) : Option Mode :=
  if s = "key" then some .key else if s = "unique" then some .unique else if s = "index" then some .index else none

/-- `key:k;unique:a,b` -/
def parseIdxs (s : String) : Option (List Index) :=
  if s = "-" then some [] else
  allSome ((s.splitOn ";").map fun p =>
    match p.splitOn ":" with
    | [m, cs] => (parseMode m).map fun m => (⟨m, parseCols cs⟩ : Index)
    | _ => none)

/-- ops:
  squeeze <cols> <row>            → row         (`-` in cols marks deleted; cols joined by `,`; for a deleted column write `-`)
  dumprow <cols> <row>            → row as dump writes it
  compactrow <cols> <row>         → row as compact copies it
  tablefile <schema bytes> recs…  → bytes of a single-table dump file
  readrecs <bytes>                → n rec1 rec2 …  | !short
  loadtable <cols> <idxs> rows…   → ok <n> | !dup
  indexorder <n> <first>          → order in which the indexes are dumped / built
-/
def step (l : List String) : String :=
  match l with
  | ["squeeze", cols, row] =>
    match parseRow row with
    | some r => showRow (squeeze r (parseCols cols))
    | none => "bad-op"
  | ["dumprow", cols, row] =>
    match parseRow row with
    | some r => showRow (dumpRow (parseCols cols) r)
    | none => "bad-op"
  | ["compactrow", cols, row] =>
    match parseRow row with
    | some r => showRow (compactRow (parseCols cols) r)
    | none => "bad-op"
  | "tablefile" :: schema :: recs =>
    match parseBytes schema, allSome (recs.map parseBytes) with
    | some s, some rs => showBytes (renderTableFile s rs)
    | _, _ => "bad-op"
  | ["readrecs", b] =>
    match parseBytes b with
    | some b =>
      match readRecords b with
      | some (rs, _) => " ".intercalate (toString rs.length :: rs.map showBytes)
      | none => "!short"
    | none => "bad-op"
  | "loadtable" :: cols :: idxs :: rows =>
    match parseIdxs idxs, allSome (rows.map parseRow) with
    | some ix, some rs =>
      match loadDb ([.header, .views, .endRecs, .table "t" (parseCols cols) ix] ++ rs.map Tok.row ++ [.endRecs]) with
      | .ok db => s!"ok {(db.tables.map (·.rows.length)).sum}"
      | .dup _ => "!dup"
      | .bad => "!bad"
    | _, _ => "bad-op"
  | ["indexorder", n, first] =>
    match parseNat n, parseNat first with
    | some n, some f => ",".intercalate ((indexOrder n f).map toString)
    | _, _ => "bad-op"
  | _ => "bad-op"

def main : IO Unit := run step
