import Gsu.Model.LangRegex
import Gsu.Util.Proto
open Gsu.Proto Gsu.LangRegex

/-!
pattern tokens (one space between tokens):
  re ::= c<byte> | . | ^ | $ | A | Z | ( k <neg 0|1> <n> (<lo> <hi>)*n ) | ( s re re ) | ( a re re )
       | ( * <greedy 0|1> re ) | ( + <greedy> re ) | ( ? <greedy> re ) | ( g <n> re )
op:
  match <ic 0|1> <ngroups> <subject x-hex> <re>       →  - | <start> <end> (<gstart> <gend>)*ngroups   (-1 -1 = unset)
  first <ic> <ngroups> <pos> <subject> <re>            FirstMatch(s, pos)
  last <ic> <ngroups> <pos> <subject> <re>             LastMatch(s, pos)
  all <ic> <subject> <re>                              →  - | <start>:<end> …
-/

partial def parseRanges : Nat → List String → Option (List (UInt8 × UInt8) × List String)
  | 0, r => some ([], r)
  | n + 1, lo :: hi :: r => do
    let lo ← parseNat lo
    let hi ← parseNat hi
    let (rest, r) ← parseRanges n r
    some ((UInt8.ofNat lo, UInt8.ofNat hi) :: rest, r)
  | _, _ => none

partial def parseRe : List String → Option (Re × List String)
  | "." :: r => some (.any, r)
  | "^" :: r => some (.bol, r)
  | "$" :: r => some (.eol, r)
  | "A" :: r => some (.bos, r)
  | "Z" :: r => some (.eos, r)
  | "(" :: "k" :: neg :: n :: r => do
    let n ← parseNat n
    let (rs, r) ← parseRanges n r
    match r with
    | ")" :: r => some (.cls (neg == "1") rs, r)
    | _ => none
  | "(" :: "s" :: r => do
    let (a, r) ← parseRe r
    let (b, r) ← parseRe r
    match r with
    | ")" :: r => some (.seq a b, r)
    | _ => none
  | "(" :: "a" :: r => do
    let (a, r) ← parseRe r
    let (b, r) ← parseRe r
    match r with
    | ")" :: r => some (.alt a b, r)
    | _ => none
  | "(" :: "*" :: g :: r => do
    let (a, r) ← parseRe r
    match r with
    | ")" :: r => some (.star a (g == "1"), r)
    | _ => none
  | "(" :: "+" :: g :: r => do
    let (a, r) ← parseRe r
    match r with
    | ")" :: r => some (.plus a (g == "1"), r)
    | _ => none
  | "(" :: "?" :: g :: r => do
    let (a, r) ← parseRe r
    match r with
    | ")" :: r => some (.opt a (g == "1"), r)
    | _ => none
  | "(" :: "g" :: n :: r => do
    let n ← parseNat n
    let (a, r) ← parseRe r
    match r with
    | ")" :: r => some (.group n a, r)
    | _ => none
  | tok :: r =>
    match tok.toList with
    | 'c' :: cs => (String.ofList cs).toNat?.map fun n => (.chr (UInt8.ofNat n), r)
    | _ => none
  | [] => none

def showMatch (ng : Nat) : Option (Nat × Nat × Caps) → String
  | none => "-"
  | some (a, b, caps) =>
    let gs := (List.range ng).map fun g =>
      match capOf caps (g + 1) with
      | some (x, y) => toString x ++ " " ++ toString y
      | none => "-1 -1"
    " ".intercalate ((toString a ++ " " ++ toString b) :: gs)

def step (l : List String) : String :=
  match l with
  | "match" :: ic :: ng :: subj :: toks =>
    match parseNat ng, parseBytes subj, parseRe toks with
    | some ng, some s, some (re, []) => showMatch ng (search (ic == "1") s re)
    | _, _, _ => "bad-op"
  | "first" :: ic :: ng :: pos :: subj :: toks =>
    match parseNat ng, parseNat pos, parseBytes subj, parseRe toks with
    | some ng, some pos, some s, some (re, []) => showMatch ng (searchAt (ic == "1") s re pos)
    | _, _, _, _ => "bad-op"
  | "last" :: ic :: ng :: pos :: subj :: toks =>
    match parseNat ng, parseNat pos, parseBytes subj, parseRe toks with
    | some ng, some pos, some s, some (re, []) => showMatch ng (lastFrom (ic == "1") s re pos)
    | _, _, _, _ => "bad-op"
  | "all" :: ic :: subj :: toks =>
    match parseBytes subj, parseRe toks with
    | some s, some (re, []) =>
      let ms := all (ic == "1") s re
      if ms.isEmpty then "-" else " ".intercalate (ms.map fun (a, b) => toString a ++ ":" ++ toString b)
    | _, _ => "bad-op"
  | _ => "bad-op"

def main : IO Unit := run step
