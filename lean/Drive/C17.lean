import Gsu.Model.Pq
import Gsu.Util.Proto
open Gsu.Proto Gsu.Pq

/-- ops (stateful; the state is the slice `pq.items`):
  reset            → ok
  put <prio> <tran> <val>  → ok | !full       (`!full` = the producer blocks)
  get              → <val> <prio> <tran> | !empty
  len              → <n>
-/
def step' (items : List Elem) (l : List String) : List Elem × String :=
  match l with
  | ["reset"] => ([], "ok")
  | ["put", p, t, v] =>
    match parseInt p, parseInt t, parseNat v with
    | some p, some t, some v =>
      match step items (.put ⟨p, t, v⟩) with
      | (s, .ok) => (s, "ok")
      | (s, _) => (s, "!full")
    | _, _, _ => (items, "bad-op")
  | ["get"] =>
    match step items .get with
    | (s, .got e) => (s, s!"{e.val} {e.prio} {e.tran}")
    | (s, _) => (s, "!empty")
  | ["len"] => (items, toString items.length)
  | _ => (items, "bad-op")

def main : IO Unit := runS [] step'
