import Gsu.Model.Display
open Gsu.Proto Gsu.Lexer Gsu.Display

def showItems (l : List (Item × Nat × Nat)) : String :=
  " ".intercalate (l.map fun (it, p, _) => it.tok ++ "@" ++ toString p ++ ":" ++ showBytes it.text)

/-- ops:
  esc <s> <which 0|1|2> <dsq t|f>  → SuStr.Display text (escapeStr)
  lex c|q <src>                    → items of the (repaired) code / query lexer
  isident <s>                      → lexer.IsIdentifier (repaired)
  unq <s>                          → core.Unquoted(s) != "" (repaired)
-/
def step (l : List String) : String :=
  match l with
  | ["esc", s, w, d] => match parseBytes s, parseNat w, parseBool d with
    | some s, some w, some d => showBytes (escapeStr s w d)
    | _, _, _ => "bad-op"
  | ["lex", m, s] => match parseBytes s with
    | some s => showItems (lexAll (m == "q") s)
    | none => "bad-op"
  | ["isident", s] => match parseBytes s with
    | some s => showBool (isIdentifier s)
    | none => "bad-op"
  | ["unq", s] => match parseBytes s with
    | some s => showBool (unquoted s)
    | none => "bad-op"
  | _ => "bad-op"

def main : IO Unit := run step
