import Gsu.Util.QParse
import Gsu.Model.QCursor
import Gsu.Model.QKeys
open Gsu.Proto Gsu.QVal Gsu.QExpr Gsu.Qry Gsu.QParse Gsu.QCursor Gsu.QKeys

def parseOps (s : String) : Option (List (Option Bool)) :=
  allSome (s.toList.map fun c =>
    if c = 'N' then some (some true) else if c = 'P' then some (some false)
    else if c = 'R' then some none else none)

def parseSels (s : String) : Option (List (Col × Val)) :=
  parseList (fun p => match p.splitOn ":" with
    | [c, v] => match parseNat c, parseVal v with
      | some c, some v => some (c, v)
      | _, _ => none
    | _ => none) s

/-- the schema keys: `-` or `id=key/key;id=…`, a key is a column list (`-`: the empty key) -/
def parseDecl (s : String) : Option (List (Nat × List (List Col))) :=
  if s = "-" then some [] else
  allSome ((s.splitOn ";").map fun p => match p.splitOn "=" with
    | [id, ks] => match parseNat id, allSome ((ks.splitOn "/").map parseCols) with
      | some id, some ks => some (id, ks)
      | _, _ => none
    | _ => none)

/-- canonical text of a list of keys: columns of a key sorted, keys sorted as text -/
def showKeys (ks : List (List Col)) : String :=
  "/".intercalate (sortStrs (ks.map fun k =>
    if k.isEmpty then "-" else ",".intercalate ((sortNats k).map toString)))

/-- canonical text of fixed values: `col:v|v;…`, values and entries sorted as text -/
def showFixed (fx : Gsu.QFixed.Fixed) : String :=
  if fx.isEmpty then "-" else
  ";".intercalate (sortStrs (fx.map fun f =>
    toString f.1 ++ ":" ++ "|".intercalate (sortStrs (f.2.map showVal))))

def showIdx : Option Nat → String
  | none => "-"
  | some i => toString i

/-- ops (stateful: the database, as for C22):
  reset | table <id> <cols> <row>*   → ok
  walk <nrows> <ops: N P R>           → positions returned by each Get, `-` = nothing
  select <sels> <query>               → the matching rows of the query as written (canonical)
  lookup <sels> <query>               → the matching row, or `-`
  sorted <rev> <cols> <row>*          → t|f : the rows (values of cols, comma separated) are in order
  keys <decl> <query>                 → `keysQ` of the query as written, given the schema keys (canonical)
  fixed <query>                       → `fixedQ` of the query as written (canonical)
-/
def step (db : Db) (l : List String) : Db × String :=
  match l with
  | ["reset"] => ([], "ok")
  | "table" :: id :: cols :: rows =>
    match parseNat id, parseTable cols rows with
    | some id, some t => (setTable db id t, "ok")
    | _, _ => (db, "bad-op")
  | ["walk", n, ops] =>
    match parseNat n, parseOps ops with
    | some n, some ops => (db, " ".intercalate ((run n .rewound ops).map showIdx))
    | _, _ => (db, "bad-op")
  | "select" :: sels :: toks =>
    match parseSels sels, parseQuery (toks.length + 1) toks with
    | some sels, some (q, []) => (db, showResult (colsQ db q) (Gsu.QCursor.select (evalQ db q) sels))
    | _, _ => (db, "bad-op")
  | "lookup" :: sels :: toks =>
    match parseSels sels, parseQuery (toks.length + 1) toks with
    | some sels, some (q, []) =>
      (db, match Gsu.QCursor.lookup (evalQ db q) sels with
        | none => "-"
        | some r => showRow (sortNats (dedup (colsQ db q))) r)
    | _, _ => (db, "bad-op")
  | "sorted" :: rev :: cols :: rows =>
    match parseBool rev, parseTable cols rows with
    | some rev, some t =>
      let le := fun x y => if rev then rowCmp t.cols x y != .lt else rowCmp t.cols x y != .gt
      (db, showBool (sortRows le t.rows == t.rows || (t.rows.zip (t.rows.drop 1)).all fun p => le p.1 p.2))
    | _, _ => (db, "bad-op")
  | "fixed" :: toks =>
    match parseQuery (toks.length + 1) toks with
    | some (q, []) => (db, showFixed (Gsu.QFixed.fixedQ db q))
    | _ => (db, "bad-op")
  | "keys" :: decl :: toks =>
    match parseDecl decl, parseQuery (toks.length + 1) toks with
    | some decl, some (q, []) =>
      let declared := fun id => match decl.lookup id with | some ks => ks | none => []
      (db, showKeys (keysQ db declared q))
    | _, _ => (db, "bad-op")
  | _ => (db, "bad-op")

def main : IO Unit := runS ([] : Db) step
