import Gsu.Model.LangBlocks
import Gsu.Util.Proto
open Gsu.Proto Gsu.LangBlocks

/-!
program text (tokens separated by one space):
  scope ::= ( s <id> <nparams> <param>* <nstmts> <stmt>* <expr> )
  stmt  ::= = <name> <expr> | ? <expr> <name> <expr> | t <name> <expr> <name> | r <expr>
  expr  ::= n<int> | v<name> | ( + <expr> <expr> ) | ( c <name> <expr> ) | scope | ( F scope )
ops:
  run <arg> <scope>   → i<int> | BLOCK | STR | !err  (outermost function called with every parameter = arg)
  caf <scope>         → <id>:<c|f> …                (per block, pre-order: closure or plain function)
-/

mutual
partial def parseExpr : List String → Option (Expr × List String)
  | "(" :: "+" :: rest => do
    let (a, r) ← parseExpr rest
    let (b, r) ← parseExpr r
    match r with
    | ")" :: r => some (.add a b, r)
    | _ => none
  | "(" :: "c" :: f :: rest => do
    let f ← parseNat f
    let (a, r) ← parseExpr rest
    match r with
    | ")" :: r => some (.call f a, r)
    | _ => none
  | "(" :: "s" :: rest => do
    let (s, r) ← parseScope ("(" :: "s" :: rest)
    some (.block s, r)
  | "(" :: "F" :: rest => do
    let (s, r) ← parseScope rest
    match r with
    | ")" :: r => some (.fn s, r)
    | _ => none
  | tok :: rest =>
    match tok.toList with
    | 'n' :: cs => (String.ofList cs).toInt?.map fun n => (.num n, rest)
    | 'v' :: cs => (String.ofList cs).toNat?.map fun n => (.var n, rest)
    | _ => none
  | [] => none
partial def parseStmts : Nat → List String → Option (List Stmt × List String)
  | 0, r => some ([], r)
  | n + 1, "=" :: x :: r => do
    let x ← parseNat x
    let (e, r) ← parseExpr r
    let (rest, r) ← parseStmts n r
    some (.assign x e :: rest, r)
  | n + 1, "?" :: r => do
    let (c, r) ← parseExpr r
    match r with
    | x :: r => do
      let x ← parseNat x
      let (e, r) ← parseExpr r
      let (rest, r) ← parseStmts n r
      some (.ifz c x e :: rest, r)
    | [] => none
  | n + 1, "t" :: x :: r => do
    let x ← parseNat x
    let (e, r) ← parseExpr r
    match r with
    | w :: r => do
      let w ← parseNat w
      let (rest, r) ← parseStmts n r
      some (.tryc x e w :: rest, r)
    | [] => none
  | n + 1, "r" :: r => do
    let (e, r) ← parseExpr r
    let (rest, r) ← parseStmts n r
    some (.ret e :: rest, r)
  | _, _ => none
partial def parseScope : List String → Option (Scope × List String)
  | "(" :: "s" :: id :: np :: rest => do
    let id ← parseNat id
    let np ← parseNat np
    let ps ← allSome ((rest.take np).map parseNat)
    match rest.drop np with
    | nb :: r => do
      let nb ← parseNat nb
      let (body, r) ← parseStmts nb r
      let (res, r) ← parseExpr r
      match r with
      | ")" :: r => some (.mk id ps body res, r)
      | _ => none
    | [] => none
  | _ => none
end

def fuel : Nat := 60000

def step (l : List String) : String :=
  match l with
  | "run" :: arg :: toks =>
    match parseInt arg, parseScope toks with
    | some a, some (s, []) =>
      match runTop fuel s a with
      | some (.int i) => "i" ++ toString i
      | some (.clo _ _ _) => "BLOCK"
      | some (.fnv _) => "BLOCK"
      | some .str => "STR"
      | none => "!err"
    | _, _ => "bad-op"
  | "caf" :: toks =>
    match parseScope toks with
    | some (s, []) =>
      let t := closureTable reachFuel [] s
      if t.isEmpty then "-" else
      " ".intercalate (t.map fun (i, c) => toString i ++ ":" ++ (if c then "c" else "f"))
    | _ => "bad-op"
  | _ => "bad-op"

def main : IO Unit := run step
