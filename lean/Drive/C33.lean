import Gsu.Model.Date
open Gsu.Proto Gsu.Date

def parseFields (l : List String) : Option Fields :=
  match allSome (l.map parseInt) with
  | some [a, b, c, d, e, f, g] => some ⟨a, b, c, d, e, f, g⟩
  | _ => none

def showFields (f : Fields) : String :=
  s!"{f.yr} {f.mon} {f.day} {f.hr} {f.min} {f.sec} {f.ms}"

def toBytes (l : List Nat) : Bytes := l.map UInt8.ofNat
def ofBytes (b : Bytes) : List Nat := b.map (·.toNat)

/-- ops (fields = 7 ints: yr mon day hr min sec ms):
  new <fields>                → date time | !nil          (NewDate + bit packing)
  fields <date> <time>        → fields                    (getters)
  plus <fields> <fields>      → fields | !bad             (SuDate.Plus)
  norm <fields>               → fields | !nil             (NormalizeDate)
  mdays <fields> <fields>     → int                       (MinusDays)
  mms <fields> <fields>       → int                       (MinusMs)
  cmp <fields> <fields>       → -1|0|1                    (SuDate.Compare)
  cmpts <fields> x <fields> x → -1|0|1                    (CompareSuTimestamp)
  str <fields>                → bytes                     (SuDate.String)
  tsstr <fields> <extra>      → bytes                     (SuTimestamp.String)
  lit <bytes>                 → d fields | t fields extra | !nil   (DateFromLiteral)
  jdn y m d                   → int
  wday <fields>               → 0..6                      (WeekDay, Sunday = 0)
-/
def step (l : List String) : String :=
  match l with
  | "new" :: r => match parseFields r with
    | some f => if valid f then s!"{packDate f} {packTime f}" else "!nil"
    | none => "bad-op"
  | ["fields", d, t] => match parseInt d, parseInt t with
    | some d, some t => showFields (unpackFields d t)
    | _, _ => "bad-op"
  | "plus" :: r => match parseFields (r.take 7), parseFields (r.drop 7) with
    | some a, some b => match plus a b with
      | some f => showFields f
      | none => "!bad"
    | _, _ => "bad-op"
  | "norm" :: r => match parseFields r with
    | some f => match normalize f with
      | some f => showFields f
      | none => "!nil"
    | none => "bad-op"
  | "mdays" :: r => match parseFields (r.take 7), parseFields (r.drop 7) with
    | some a, some b => toString (minusDays a b)
    | _, _ => "bad-op"
  | "mms" :: r => match parseFields (r.take 7), parseFields (r.drop 7) with
    | some a, some b => toString (minusMs a b)
    | _, _ => "bad-op"
  | "cmp" :: r => match parseFields (r.take 7), parseFields (r.drop 7) with
    | some a, some b => showOrd (compare a b)
    | _, _ => "bad-op"
  | "cmpts" :: r => match parseFields (r.take 7), parseInt (r.getD 7 ""), parseFields ((r.drop 8).take 7),
      parseInt (r.getD 15 "") with
    | some a, some xa, some b, some xb => showOrd (compareTs a xa b xb)
    | _, _, _, _ => "bad-op"
  | "str" :: r => match parseFields r with
    | some f => showBytes (toBytes (toLiteral f))
    | none => "bad-op"
  | "tsstr" :: r => match parseFields (r.take 7), parseInt (r.getD 7 "") with
    | some f, some x => showBytes (toBytes (tsLiteral f x))
    | _, _ => "bad-op"
  | ["lit", b] => match parseBytes b with
    | some b => match fromLiteral (ofBytes b) with
      | some (f, 0) => "d " ++ showFields f
      | some (f, x) => "t " ++ showFields f ++ s!" {x}"
      | none => "!nil"
    | none => "bad-op"
  | "wday" :: r => match parseFields r with
    | some f => toString (weekDay f)
    | none => "bad-op"
  | ["jdn", y, m, d] => match parseInt y, parseInt m, parseInt d with
    | some y, some m, some d => toString (jdn y m d)
    | _, _, _ => "bad-op"
  | _ => "bad-op"

def main : IO Unit := run step
