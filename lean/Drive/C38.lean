import Gsu.Model.Str
open Gsu.Proto Gsu.Ascii Gsu.Str

/-- ops (byte strings as x<hex>):
  tr <src> <from> <to>      → tr.Replace(src, Set(from), Set(to))
  trnew <s>                 → tr.New(s)
  lower|upper|cap|uncap <s> → bytes
  cmplower <a> <b>          → -1|0|1
  eqci <a> <b>              → t|f
  cpl <a> <b>               → CommonPrefixLen
  subi <s> <i> <j> / subn <s> <i> <n>
  split <s> <sep>           → <count> piece…
  join <fmt> piece…         → bytes | !panic
  doesc <s> <i>             → <byte> <newindex>
  ascii <c>                 → IsLower IsUpper IsLetter IsDigit IsSpace IsHexDigit ToLower ToUpper Digit16 Digit10
-/
def step (l : List String) : String :=
  match l with
  | ["tr", s, f, t] => match parseBytes s, parseBytes f, parseBytes t with
    | some s, some f, some t => showBytes (replace s f t)
    | _, _, _ => "bad-op"
  | ["trnew", s] => match parseBytes s with
    | some s => showBytes (trNew s)
    | _ => "bad-op"
  | ["lower", s] => match parseBytes s with
    | some s => showBytes (toLowerStr s)
    | _ => "bad-op"
  | ["upper", s] => match parseBytes s with
    | some s => showBytes (toUpperStr s)
    | _ => "bad-op"
  | ["cap", s] => match parseBytes s with
    | some s => showBytes (capitalize s)
    | _ => "bad-op"
  | ["uncap", s] => match parseBytes s with
    | some s => showBytes (unCapitalize s)
    | _ => "bad-op"
  | ["cmplower", a, b] => match parseBytes a, parseBytes b with
    | some a, some b => toString (cmpLower a b)
    | _, _ => "bad-op"
  | ["eqci", a, b] => match parseBytes a, parseBytes b with
    | some a, some b => showBool (equalCI a b)
    | _, _ => "bad-op"
  | ["cpl", a, b] => match parseBytes a, parseBytes b with
    | some a, some b => toString (commonPrefixLen a b)
    | _, _ => "bad-op"
  | ["subi", s, i, j] => match parseBytes s, parseNat i, parseNat j with
    | some s, some i, some j => showBytes (subi s i j)
    | _, _, _ => "bad-op"
  | ["subn", s, i, n] => match parseBytes s, parseNat i, parseNat n with
    | some s, some i, some n => showBytes (subn s i n)
    | _, _, _ => "bad-op"
  | ["split", s, sep] => match parseBytes s, parseBytes sep with
    | some s, some sep =>
      let ps := split s sep
      " ".intercalate (toString ps.length :: ps.map showBytes)
    | _, _ => "bad-op"
  | "join" :: fmt :: ps => match parseBytes fmt, allSome (ps.map parseBytes) with
    | some fmt, some ps => match join fmt ps with
      | some r => showBytes r
      | none => "!panic"
    | _, _ => "bad-op"
  | ["doesc", s, i] => match parseBytes s, parseNat i with
    | some s, some i => let (c, j) := doesc s i; toString c.toNat ++ " " ++ toString j
    | _, _ => "bad-op"
  | ["ascii", c] => match parseNat c with
    | some n =>
      let c := UInt8.ofNat n
      " ".intercalate [showBool (isLower c), showBool (isUpper c), showBool (isLetter c),
        showBool (isDigit c), showBool (isSpace c), showBool (isHexDigit c),
        toString (toLower c).toNat, toString (toUpper c).toNat,
        toString (digit c 16), toString (digit c 10)]
    | _ => "bad-op"
  | _ => "bad-op"

def main : IO Unit := run step
