import Gsu.Model.Lexer
open Gsu.Proto Gsu.Lexer

def showItems (l : List (Item × Nat × Nat)) : String :=
  " ".intercalate (l.map fun (it, p, _) => it.tok ++ "@" ++ toString p ++ ":" ++ showBytes it.text)

/-- ops:
  lex c|q <src>   → every item of the code / query lexer up to and including Eof:
                    <Token>@<pos>:<text as x<hex>> …
-/
def step (l : List String) : String :=
  match l with
  | ["lex", m, s] => match parseBytes s with
    | some s => showItems (lexAll (m == "q") s)
    | none => "bad-op"
  | _ => "bad-op"

def main : IO Unit := run step
