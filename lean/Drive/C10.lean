import Gsu.Model.Btree
import Gsu.Model.BtreeLeaf
import Gsu.Gen.Btree
open Gsu.Proto Gsu.Btree

def parseKVs : List String → Option (List KV)
  | [] => some []
  | k :: o :: rest =>
    match parseBytes k, parseNat o, parseKVs rest with
    | some k, some o, some r => some ((k, o) :: r)
    | _, _, _ => none
  | [_] => none

def showIter (l : List KV) : String :=
  "n " ++ toString l.length ++ " h " ++ toString (hashList l) ++ " r " ++ toString (hashList l.reverse)

/-- ops (state = content of the current tree):
  build <split> k off …   bulk build; answers the iteration summary of the built tree
  merge k rawoff …        MergeAndSave of a batch; `!assert` when the Go code panics
  lookup k                offset or 0
  iter                    n / forward hash / backward hash
-/
def step (m : List KV) (l : List String) : List KV × String :=
  match l with
  | "build" :: n :: toks =>
    match parseNat n, parseKVs toks with
    | some n, some kvs => let t := build n kvs; (t.toList, showIter t.toList)
    | _, _ => (m, "bad-op")
  | "merge" :: toks =>
    match parseKVs toks with
    | some b =>
      match applyBatch m (b.map fun (k, raw) => let (op, o) := decode raw; (k, op, o)) with
      | some m' => (m', showIter m')
      | none => (m, "!assert")
    | none => (m, "bad-op")
  | ["lookup", k] =>
    match parseBytes k with
    | some k => (m, toString ((lookup m k).getD 0))
    | none => (m, "bad-op")
  | "leaves" :: n :: toks =>
    -- bulk build: key count and byte size of every leaf, left to right
    match parseNat n, allSome (toks.map parseBytes) with
    | some n, some ks =>
      (m, " ".intercalate ((leaves n ks).map fun (c, sz) => toString c ++ ":" ++ toString sz))
    | _, _ => (m, "bad-op")
  | ["iter"] => (m, showIter m)
  | _ => (m, "bad-op")

def main : IO Unit := runS ([] : List KV) step
