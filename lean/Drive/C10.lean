import Gsu.Model.Btree
import Gsu.Model.BtreeLeaf
import Gsu.Model.BtreeTree
import Gsu.Model.BtreeCodec
import Gsu.Model.BtreeMerge
import Gsu.Model.BtreeRangeFrac
import Gsu.Gen.Btree
open Gsu.Proto Gsu.Btree

/-- driver state: the content (map level model), the abstract tree, the split in force -/
structure St where
  m : List KV := []
  t : BTree := ⟨0, ({ pre := 0, es := [] } : Leaf)⟩
  split : Nat := 100

def showLeaf (l : Leaf) : String :=
  "L" ++ toString l.pre ++ ":" ++ toString l.es.length ++ ":" ++ toString l.size

/-- a separator: short ones in hex, long ones as length and checksum -/
def showSep (s : Key) : String :=
  if s.length ≤ 12 then showBytes s
  else "s" ++ toString s.length ++ ":" ++ toString (s.foldl (fun h b => hstep h b.toNat) 7)

/-- the complete shape of a tree: every leaf (prefix length : key count : byte size) and every
separator, in order -/
def showBT : (h : Nat) → BT h → String
  | 0, l => showLeaf l
  | h + 1, t =>
    "[ " ++ t.1.foldr (fun p acc => showBT h p.1 ++ " " ++ showSep p.2 ++ " " ++ acc) (showBT h t.2) ++ " ]"

def parseKVs : List String → Option (List KV)
  | [] => some []
  | k :: o :: rest =>
    match parseBytes k, parseNat o, parseKVs rest with
    | some k, some o, some r => some ((k, o) :: r)
    | _, _, _ => none
  | [_] => none

def showIter (l : List KV) : String :=
  "n " ++ toString l.length ++ " h " ++ toString (hashList l) ++ " r " ++ toString (hashList l.reverse)

/-- ops on the content (map level model):
  lookup k                offset or 0
  leaves <split> k …      leaf packing of the bulk Builder: key count and byte size per leaf
  iter                    n / forward hash / backward hash
-/
def stepM (m : List KV) (l : List String) : List KV × String :=
  match l with
  | ["lookup", k] =>
    match parseBytes k with
    | some k => (m, toString ((lookup m k).getD 0))
    | none => (m, "bad-op")
  | "leaves" :: n :: toks =>
    -- bulk build: key count and byte size of every leaf, left to right
    match parseNat n, allSome (toks.map parseBytes) with
    | some n, some ks =>
      (m, " ".intercalate ((leaves n ks).map fun (c, sz) => toString c ++ ":" ++ toString sz))
    | _, _ => (m, "bad-op")
  | ["iter"] => (m, showIter m)
  | _ => (m, "bad-op")

/-- a float64 passed exactly as `mantissa exponent` (value = m · 2^e) -/
def dyadic (m e : Int) : Rat :=
  if e ≥ 0 then ((m * (2 : Int) ^ e.toNat : Int) : Rat) else mkRat m (2 ^ (-e).toNat)

/-- the bucket of 1/10000 a fraction falls into (offset: no result the code can produce is
close to a bucket boundary) -/
def fracBucket (x : Rat) : Int := (x * 10000 + mkRat 3819660112501051 10000000000000000).floor

/-- ops on both the content and the abstract tree (state = both):
  build <split> k off …   bulk build (`bulkBuild`); answers the iteration summary of its content
  merge k rawoff …        MergeAndSave of a batch on the content (`applyBatch`) and on the tree
                          (`mergeBatch`); `!assert` when the Go code panics (both models refuse)
  shape                   the shape of the abstract tree (compared with a walk of the real nodes)
  tlookup k               `Lookup` by descent through the abstract tree
  rangefrac cnt org end mA eA mB eB   `RangeFrac(org, end)` with exact rational arithmetic and the
                          two fanout values of the Go code as exact float64s; answers the 1/10000 bucket
  leafcodec x<bytes>      a stored leaf node: prefix length, key count, checksum of the decoded
                          entries, `size()`, model size, and whether `encodeLeaf (decodeLeaf bytes) = bytes`
-/
def step (s : St) (l : List String) : St × String :=
  match l with
  | "build" :: n :: toks =>
    match parseNat n, parseKVs toks with
    | some n, some kvs =>
      let t := bulkBuild n kvs
      ({ m := t.toList, t := t, split := n }, showIter t.toList)
    | _, _ => (s, "bad-op")
  | "merge" :: toks =>
    -- the batch on the content (map level) and on the abstract tree
    match parseKVs toks with
    | some b =>
      let b' := b.map fun (k, raw) => let (op, o) := decode raw; (k, op, o)
      match applyBatch s.m b', s.t.mergeBatch s.split b' with
      | some m', some t' => ({ s with m := m', t := t' }, showIter m')
      | none, none => (s, "!assert")
      | some _, none => (s, "!tree-model-panics")
      | none, some _ => (s, "!tree-model-accepts")
    | none => (s, "bad-op")
  | ["shape"] => (s, toString s.t.h ++ " " ++ showBT s.t.h s.t.root)
  | ["leafcodec", x] =>
    -- a real leaf node: decode it, and encode the decoded leaf again
    match parseBytes x with
    | some bs =>
      let l := decodeLeaf bs
      (s, toString l.pre ++ " " ++ toString l.es.length ++ " " ++ toString (hashList l.es) ++ " " ++
        toString (leafNodeSize bs) ++ " " ++ toString l.size ++ " " ++ showBool (encodeLeaf l == bs))
    | none => (s, "bad-op")
  | ["rangefrac", cnt, org, end_, ma, ea, mb, eb] =>
    match parseNat cnt, parseBytes org, parseBytes end_, parseInt ma, parseInt ea, parseInt mb, parseInt eb with
    | some cnt, some org, some end_, some ma, some ea, some mb, some eb =>
      (s, toString (fracBucket (rangeFracQ s.t cnt org end_ (dyadic ma ea) (dyadic mb eb))))
    | _, _, _, _, _, _, _ => (s, "bad-op")
  | ["tlookup", k] =>
    match parseBytes k with
    | some k => (s, toString ((s.t.lookup k).getD 0))
    | none => (s, "bad-op")
  | _ => let (m', o) := stepM s.m l; ({ s with m := m' }, o)

def main : IO Unit := runS ({} : St) step
