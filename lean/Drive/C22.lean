import Gsu.Util.QParse
open Gsu.Proto Gsu.QVal Gsu.QExpr Gsu.Qry Gsu.QParse

/-- ops (stateful: the database):
  reset                        → ok
  table <id> <cols> <row>*     → ok            (rows: comma separated values)
  eval <query tokens>          → <sorted cols> <nrows> <sorted rows joined by ;>
-/
def step (db : Db) (l : List String) : Db × String :=
  match l with
  | ["reset"] => ([], "ok")
  | "table" :: id :: cols :: rows =>
    match parseNat id, parseTable cols rows with
    | some id, some t => (setTable db id t, "ok")
    | _, _ => (db, "bad-op")
  | "eval" :: toks =>
    match parseQuery (toks.length + 1) toks with
    | some (q, []) => (db, showResult (colsQ db q) (evalQ db q))
    | _ => (db, "bad-op")
  | _ => (db, "bad-op")

def main : IO Unit := runS ([] : Db) step
