import Gsu.Model.SchemaAlg
import Gsu.Util.Proto
open Gsu.Proto Gsu.SchemaAlg

/-!
Stateful driver for C21: replays admin operations on `Gsu.SchemaAlg` and answers the canonical
schema text of the whole database, or `!err` when the model rejects (state unchanged).

  reset
  create <t> <cols> <spec>…
  altercreate <t> <d> <cols|_> <spec>…     d = t|f : table has rows (buildIndexes pre-checks run)
  ensure <t> <d> <cols|_> <spec>…
  alterdrop <t> <cols|_> <idxcols>…         idxcols = a,b   (`.` = the empty key)
  renamecol <t> <from,…> <to,…>
  renametable <from> <to>
  drop <name>                               table or view
  view <name>
  skip                                      request rejected for a data-dependent reason
  relink                                    linkFkeys (the database was closed and reopened)

  spec = <m>:<cols>            m ∈ k i u ; cols comma separated (`.` = none)
       | <m>:<cols>><table>:<cols>:<mode>
-/

structure DState where
  db : Db := []
  views : List String := []

def cols (s : String) : List String :=
  if s == "_" || s == "." || s == "" then [] else s.splitOn ","

def parseSpec (s : String) : Option Index :=
  match s.splitOn ">" with
  | [l] =>
    match l.splitOn ":" with
    | [m, c] => if m.length == 1 then some { mode := m.front, columns := cols c } else none
    | _ => none
  | [l, r] =>
    match l.splitOn ":", r.splitOn ":" with
    | [m, c], [t, fc, fm] =>
      match parseNat fm with
      | some fm => if m.length == 1 then
          some { mode := m.front, columns := cols c, fk := { table := t, columns := cols fc, mode := fm } }
        else none
      | none => none
    | _, _ => none
  | _ => none

def answer (s : DState) (r : Option Db) : DState × String :=
  -- `keep`: rejected ⇒ the old state is kept (rejected_is_noop)
  ({ s with db := keep s.db r }, match r with | some db => schemaText db | none => "!err")

def step (s : DState) (l : List String) : DState × String :=
  match l with
  | ["reset"] => ({}, schemaText [])
  | "create" :: t :: c :: specs =>
    match allSome (specs.map parseSpec) with
    | some sp => answer s (create s.db t (cols c) sp)
    | none => (s, "bad-op")
  | "altercreate" :: t :: d :: c :: specs =>
    match allSome (specs.map parseSpec), parseBool d with
    | some sp, some d => answer s (alterCreate s.db t d (cols c) sp)
    | _, _ => (s, "bad-op")
  | "ensure" :: t :: d :: c :: specs =>
    match allSome (specs.map parseSpec), parseBool d with
    | some sp, some d => answer s (ensure s.db t d (cols c) sp)
    | _, _ => (s, "bad-op")
  | "alterdrop" :: t :: c :: idxs => answer s (alterDrop s.db t (cols c) (idxs.map cols))
  | ["renamecol", t, f, to] => answer s (alterRenameCol s.db t (cols f) (cols to))
  | ["renametable", f, to] => answer s (renameTable s.db f to)
  | ["drop", n] =>
    if s.views.contains n then ({ s with views := s.views.filter (· != n) }, schemaText s.db)
    else answer s (drop s.db n)
  | ["view", n] =>
    if s.views.contains n then (s, "!err") else ({ s with views := n :: s.views }, schemaText s.db)
  | ["skip"] => (s, schemaText s.db)
  | ["relink"] => answer s (some (linkFkeys s.db))
  | _ => (s, "bad-op")

def main : IO Unit := runS ({} : DState) step
