import Gsu.Model.Ordset
import Gsu.Model.Ranges
import Gsu.Util.Proto
open Gsu.Proto

/-! Driver for C39 (ordset + ranges), stateful.

ops (ordset):  oreset | oins <k> → t/f | ohas <k> → t/f | oany <from> <to> → t/f | oempty → t/f
               odump → `S <size> <hash>` or `T <n> <sep>:<size>:<hash> …` (hash over the WHOLE
               slot array of each leaf, stale slots included)
ops (ranges):  rreset | rins <from> <to> → <inc> or !full | rhas <v> → t/f | rdump (same shape)
-/

structure St where
  os : Gsu.Ordset.Set
  rs : Gsu.Ranges.Ranges

def OP := Gsu.Ordset.genParams
def RP := Gsu.Ranges.genParams

def hashKey (h : Nat) (k : List UInt8) : Nat :=
  (k.foldl (fun h b => (h * 131 + b.toNat + 1) % 4294967296) h * 131) % 4294967296

def oLeafStr (sep : Option (List UInt8)) (l : Gsu.Ordset.Leaf) : String :=
  let h := l.slots.foldl hashKey 0
  (match sep with | some s => showBytes s ++ ":" | none => "") ++ toString l.size ++ ":" ++ toString h

def rLeafStr (sep : Option (List UInt8)) (l : Gsu.Ranges.Leaf) : String :=
  let h := l.slots.foldl (fun h s => hashKey (hashKey h s.frm) s.to) 0
  (match sep with | some s => showBytes s ++ ":" | none => "") ++ toString l.size ++ ":" ++ toString h

def step (st : St) (l : List String) : St × String :=
  match l with
  | ["oreset"] => ({ st with os := Gsu.Ordset.Set.empty OP }, "ok")
  | ["oins", k] => match parseBytes k with
    | some k => let (s', ok) := st.os.insert OP k; ({ st with os := s' }, showBool ok)
    | none => (st, "bad-op")
  | ["ohas", k] => match parseBytes k with
    | some k => (st, showBool (st.os.contains OP k))
    | none => (st, "bad-op")
  | ["oany", f, t] => match parseBytes f, parseBytes t with
    | some f, some t => (st, showBool (st.os.anyInRange OP f t))
    | _, _ => (st, "bad-op")
  | ["oempty"] => (st, showBool st.os.isEmpty)
  | ["odump"] => match st.os with
    | .small lf => (st, "S " ++ oLeafStr none lf)
    | .big t => (st, "T " ++ toString t.length ++ " " ++ " ".intercalate (t.map fun s => oLeafStr (some s.key) s.leaf))
  | ["rreset"] => ({ st with rs := Gsu.Ranges.Ranges.empty RP }, "ok")
  | ["rins", f, t] => match parseBytes f, parseBytes t with
    | some f, some t =>
      let (rs', r) := st.rs.insert RP f t
      ({ st with rs := rs' }, match r with | .full => "!full" | .inc n => toString n)
    | _, _ => (st, "bad-op")
  | ["rhas", v] => match parseBytes v with
    | some v => (st, showBool (st.rs.contains RP v))
    | none => (st, "bad-op")
  | ["rdump"] => match st.rs with
    | .small lf => (st, "S " ++ rLeafStr none lf)
    | .big t => (st, "T " ++ toString t.length ++ " " ++ " ".intercalate (t.map fun s => rLeafStr (some s.val) s.leaf))
  | _ => (st, "bad-op")

def main : IO Unit := runS (⟨Gsu.Ordset.Set.empty OP, Gsu.Ranges.Ranges.empty RP⟩ : St) step
