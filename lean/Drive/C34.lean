import Gsu.Model.Ts
import Gsu.Util.Proto
open Gsu.Proto Gsu.Ts

def showStamp : Option (Caller × Stamp) → String
  | none => "-"
  | some (_, (ms, ex)) => s!"{ms} {ex}"

/-- ops (stateful):
  reset <ts0> <nclients>   → ok
  tick <t>                 → -
  server                   → <ms> <extra>
  client <i> <refilled>    → <ms> <extra>   (`refilled` t/f is what the implementation did: a fetch
                             although the model's batch is not used up is an expiry that happened
                             asynchronously — the model applies `expire i` first; the reverse is a
                             disagreement)
  expire <i>               → -
-/
def step' (s : State) (l : List String) : State × String :=
  match l with
  | ["reset", t, n] =>
    match parseNat t, parseNat n with
    | some t, some n => (init t n, "ok")
    | _, _ => (s, "bad-op")
  | ["tick", t] =>
    match parseNat t with
    | some t => let (s', o) := step s (.tick t); (s', showStamp o)
    | none => (s, "bad-op")
  | ["server"] => let (s', o) := step s .server; (s', showStamp o)
  | ["client", i, r] =>
    match parseNat i, parseBool r with
    | some i, some r =>
      let fast := match s.clients[i]? with
        | some c => decide (c.count + 1 < c.limit)
        | none => false
      if r && fast then
        let (s1, _) := step s (.expire i)
        let (s', o) := step s1 (.client i)
        (s', showStamp o)
      else if !r && !fast then (s, "!model-would-refill")
      else let (s', o) := step s (.client i); (s', showStamp o)
    | _, _ => (s, "bad-op")
  | ["expire", i] =>
    match parseNat i with
    | some i => let (s', o) := step s (.expire i); (s', showStamp o)
    | none => (s, "bad-op")
  | _ => (s, "bad-op")

def main : IO Unit := runS (init 0 0) step'
