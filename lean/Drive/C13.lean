import Gsu.Model.Pack
open Gsu.Proto Gsu.Pack

/-- `i:<n>` | `d:<sign>:<coef>:<exp>` -/
def parseNum (s : String) : Option Num :=
  match s.splitOn ":" with
  | ["i", n] => (parseInt n).map Num.int
  | ["d", sg, c, e] =>
    match parseInt sg, parseNat c, parseInt e with
    | some sg, some c, some e => some (.dnum ⟨sg, c, e⟩)
    | _, _, _ => none
  | _ => none

def showNum : Num → String
  | .int n => s!"i:{n}"
  | .dnum d => s!"d:{d.sign}:{d.coef}:{d.exp}"
  | .err => "!panic"

def withSize (b : Bytes) (n : Nat) : String := showBytes b ++ " " ++ toString n

def splitAt (sep : String) (l : List String) : List String × List String :=
  (l.takeWhile (· ≠ sep), (l.dropWhile (· ≠ sep)).drop 1)

/-- ops:
  packint <n>                  → bytes size      (SuInt64.Pack / PackSize)
  packsmi <n>                  → bytes size      (smi.Pack = FromInt + SuDnum.Pack)
  packdnum <sign> <coef> <exp> → bytes size      (SuDnum.Pack)
  fromint <n>                  → d:sign:coef:exp (dnum.FromInt)
  unpacknum <b>                → i:n | d:s:c:e | !panic   (UnpackNumber)
  cmpnum <num> <num>           → -1|0|1          (Value.Compare on numbers)
  cmpb <b> <b>                 → -1|0|1          (strings.Compare)
  packstr <b> / packbool t|f / packdate <date> <time> / packts <date> <time> <extra> → bytes
  objpk <tag> <list…> | <k v …>   → bytes        (SuObject.pack of packed members)
  objun <b>                    → n list… | k v … (unpackObject) or !panic
  unpack <b>                   → s <b> | b t/f | i:n | d:… | D date time | T date time extra | O/R members | !panic   (Unpack)
-/
def step (l : List String) : String :=
  match l with
  | ["packint", n] => match parseInt n with
    | some n => withSize (packInt n) (packSizeInt n)
    | none => "bad-op"
  | ["packsmi", n] => match parseInt n with
    | some n => withSize (packSmi n) (packSizeDnum (fromInt n))
    | none => "bad-op"
  | ["packdnum", sg, c, e] => match parseInt sg, parseNat c, parseInt e with
    | some sg, some c, some e => withSize (packDnum ⟨sg, c, e⟩) (packSizeDnum ⟨sg, c, e⟩)
    | _, _, _ => "bad-op"
  | ["fromint", n] => match parseInt n with
    | some n => showNum (.dnum (fromInt n))
    | none => "bad-op"
  | ["unpacknum", b] => match parseBytes b with
    | some b => showNum (unpackNumber b)
    | none => "bad-op"
  | ["cmpnum", a, b] => match parseNum a, parseNum b with
    | some a, some b => showOrd (cmpNum a b)
    | _, _ => "bad-op"
  | ["cmpb", a, b] => match parseBytes a, parseBytes b with
    | some a, some b => showOrd (cmpB a b)
    | _, _ => "bad-op"
  | ["packstr", b] => match parseBytes b with
    | some b => showBytes (packStr b)
    | none => "bad-op"
  | ["packbool", b] => match parseBool b with
    | some b => showBytes (packBool b)
    | none => "bad-op"
  | ["packdate", d, t] => match parseNat d, parseNat t with
    | some d, some t => showBytes (packDate d t)
    | _, _ => "bad-op"
  | ["packts", d, t, x] => match parseNat d, parseNat t, parseNat x with
    | some d, some t, some x => showBytes (packTs d t x)
    | _, _, _ => "bad-op"
  | "objpk" :: tag :: rest =>
    let (ls, ns) := splitAt "|" rest
    match parseNat tag, allSome (ls.map parseBytes), allSome (ns.map parseBytes) with
    | some tag, some ls, some ns => showBytes (packObj (UInt8.ofNat tag) ls (pairUp ns))
    | _, _, _ => "bad-op"
  | ["objun", b] => match parseBytes b with
    | some b => match unpackObj b with
      | some (ls, ns) =>
        " ".intercalate (ls.map showBytes ++ ["|"] ++ ns.flatMap fun kv => [showBytes kv.1, showBytes kv.2])
      | none => "!panic"
    | none => "bad-op"
  | ["unpack", b] => match parseBytes b with
    | some b => match unpack b with
      | .str s => "s " ++ showBytes s
      | .bool v => "b " ++ showBool v
      | .num n => showNum n
      | .date d t => s!"D {d} {t}"
      | .ts d t x => s!"T {d} {t} {x}"
      | .obj r l n => (if r then "R " else "O ") ++
          " ".intercalate (l.map showBytes ++ ["|"] ++ n.flatMap fun kv => [showBytes kv.1, showBytes kv.2])
      | .err => "!panic"
    | none => "bad-op"
  | _ => "bad-op"

def main : IO Unit := run step
