import Gsu.Util.Proto
import Gsu.Model.Mux
import Gsu.Gen.Mux
open Gsu.Proto Gsu.Mux

/-- test data shared with the harness: byte j of a block with seed s -/
def blk (seed len : Nat) : List UInt8 := (List.range len).map fun j => UInt8.ofNat ((seed + j * 7) % 251)

def fnv (bs : List UInt8) : UInt32 :=
  bs.foldl (fun h b => (h ^^^ b.toUInt32) * 16777619) 2166136261

def showFrame (f : Frame) : String :=
  (if f.final then "1" else "0") ++ ":" ++ toString f.payload.length ++ ":" ++ toString (fnv f.payload).toNat

/-- one WriteBuf op: w<n> / s<n> (Write / WriteString of n bytes), b (Write1) -/
def wop (sid : Nat) (st : WSt × Nat) (op : String) : Option (WSt × Nat) :=
  let (w, k) := st
  match op.toList with
  | ['b'] => some (write1 sid w (UInt8.ofNat (k % 251)), k + 1)
  | c :: ds =>
    if c = 'w' ∨ c = 's' then
      match (String.ofList ds).toNat? with
      | some n => some (write sid w (blk k n), k + 1)
      | none => none
    else none
  | [] => none

def wmsg (sid : Nat) (st : WSt × Nat) (msg : String) : Option (WSt × Nat) :=
  let ops := if msg = "-" then [] else msg.splitOn ","
  match ops.foldl (fun acc o => acc.bind fun s => wop sid s o) (some st) with
  | some (w, k) => some (endMsg sid w, k)
  | none => none

def parseFrame (s : String) : Option (Nat × UInt8 × Nat × Nat) :=
  match (s.splitOn ":").map String.toNat? with
  | [some sid, some fb, some len, some seed] => some (sid, UInt8.ofNat fb, len, seed)
  | _ => none

def showStatus : Status → String
  | .running => "running"
  | .toobig => "toobig"
  | .badfinal => "badfinal"
  | .assert => "assert"
  | .eof => "eof"

/-- ops:
  wb <sid> <seed> <msg> …    msg = comma separated w<n>|s<n>|b ("-" = no writes), each followed by EndMsg
                             → the frames handed to the connection: final:len:fnv …
  rd <cut> <sid:fb:len:seed> …  the reader on the wire bytes of these frames minus the last <cut> bytes
                             → status then delivered sid:len:fnv …
-/
def step (l : List String) : String :=
  match l with
  | "wb" :: sid :: seed :: msgs =>
    match parseNat sid, parseNat seed with
    | some sid, some seed =>
      match msgs.foldl (fun acc m => acc.bind fun s => wmsg sid s m) (some (WSt.init, seed)) with
      | some (w, _) => " ".intercalate (w.sent.map showFrame)
      | none => "bad-op"
    | _, _ => "bad-op"
  | "rd" :: cut :: frs =>
    match parseNat cut, allSome (frs.map parseFrame) with
    | some cut, some fs =>
      let bytes := fs.flatMap fun (sid, fb, len, seed) => encHdr len sid fb ++ blk seed len
      let s := reader Gsu.Gen.Mux.readerAssertsNonNil (bytes.take (bytes.length - cut))
      " ".intercalate (showStatus s.status ::
        s.out.map fun (sid, m) => toString sid ++ ":" ++ toString m.length ++ ":" ++ toString (fnv m).toNat)
    | _, _ => "bad-op"
  | _ => "bad-op"

def main : IO Unit := run step
