import Gsu.Model.Asof
open Gsu.Proto Gsu.Asof

/-- `off:t:mid` -/
def parseCand (s : String) : Option Cand :=
  match s.splitOn ":" with
  | [a, b, c] =>
    match parseNat a, parseInt b, parseNat c with
    | some a, some b, some c => some ⟨a, b, c⟩
    | _, _, _ => none
  | _ => none

def parseCands (s : String) : Option (List Cand) :=
  if s = "-" then some [] else allSome ((s.splitOn ",").map parseCand)

def showCand (c : Cand) : String := s!"{c.off} {c.t} {c.mid}"

def showOC : Option Cand → String
  | none => "nil"
  | some c => showCand c

abbrev St := Store × Tran

def init : St := (⟨[], 0, ⟨0, 0, 0⟩⟩, ⟨0, 0, 0⟩)

/-- ops:
  reset <size> <curOff> <curAsof> <curMid> <cands|->   → ok <n>      (new store, new read tran)
  new                                                  → ok          (new read tran)
  asof <a> <t|f future>                                → <ret> <off> <asof> <mid>  |  !nostate
  prev <off> / next <off>                              → <off> <t> <mid> | nil
  stateasof <a>                                        → <off> <t> <mid> | !nostate
-/
def step (st : St) (l : List String) : St × String :=
  let (s, tr) := st
  match l with
  | ["reset", size, co, ca, cm, cs] =>
    match parseNat size, parseNat co, parseInt ca, parseNat cm, parseCands cs with
    | some size, some co, some ca, some cm, some cs =>
      let s' : Store := ⟨cs, size, ⟨co, ca, cm⟩⟩
      ((s', newTran s'), s!"ok {cs.length}")
    | _, _, _, _, _ => (st, "bad-op")
  | ["new"] => ((s, newTran s), "ok")
  | ["asof", a, fut] =>
    match parseInt a, parseBool fut with
    | some a, some fut =>
      let (tr', r) := tranAsof s tr a fut
      match r with
      | .noState => ((s, tr'), "!nostate")
      | .ret v => ((s, tr'), s!"{v} {tr'.off} {tr'.asof} {tr'.mid}")
    | _, _ => (st, "bad-op")
  | ["prev", off] =>
    match parseNat off with
    | some off => (st, showOC (prevState s off))
    | none => (st, "bad-op")
  | ["next", off] =>
    match parseNat off with
    | some off => (st, showOC (nextState s off))
    | none => (st, "bad-op")
  | ["stateasof", a] =>
    match parseInt a with
    | some a => (st, match stateAsof s a with | none => "!nostate" | some c => showCand c)
    | none => (st, "bad-op")
  | _ => (st, "bad-op")

def main : IO Unit := runS init step
