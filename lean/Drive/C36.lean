import Gsu.Model.Container
import Gsu.Util.Proto
open Gsu.Proto Gsu.Container

/-! Driver for C36: four container slots; see `harness/c36/main.go` for the op lines. -/

def parseKey (s : String) : Option Key :=
  match s.toList with
  | 'i' :: r => (String.ofList r).toInt?.map Key.int
  | 's' :: r => some (Key.str (String.ofList r))
  | _ => none

def showKey : Key → String
  | .int i => "i" ++ toString i
  | .str s => "s" ++ s

def parseVal (s : String) : Option Val :=
  match s.splitOn "~" with
  | [a] => a.toInt?.map (⟨·, 0⟩)
  | [a, b] => match a.toInt?, b.toNat? with
    | some k, some t => some ⟨k, t⟩
    | _, _ => none
  | _ => none

def showVal (v : Val) : String :=
  if v.t = 0 then toString v.k else toString v.k ++ "~" ++ toString v.t

def keyLe : Key → Key → Bool
  | .int a, .int b => decide (a ≤ b)
  | .int _, .str _ => true
  | .str _, .int _ => false
  | .str a, .str b => decide (a ≤ b)

def showOptVal : Option Val → String
  | none => "-"
  | some v => showVal v

def dump (c : Cont Val) : String :=
  let named := c.named.mergeSort (fun a b => keyLe a.1 b.1)
  "L[" ++ ",".intercalate (c.list.map showVal) ++ "] N{" ++
    ",".intercalate (named.map fun p => showKey p.1 ++ "=" ++ showVal p.2) ++ "} " ++
    (if c.readonly then "r" else "w")

def showMembers (c : Cont Val) : String :=
  let ks := (List.range c.list.length).map (fun i => Key.int (i : Nat)) ++
    (c.named.map (·.1)).mergeSort keyLe
  if ks.isEmpty then "-" else ",".intercalate (ks.map showKey)

def showOut : Out Val → String
  | .ok => "ok"
  | .bool b => showBool b
  | .val o => showOptVal o
  | .readonlyErr => "!readonly"

abbrev St := List (Cont Val)

def initSt : St := [{}, {}, {}, {}]

def slot (st : St) (s : String) : Option (Nat × Cont Val) :=
  match s.toNat? with
  | some i => (st[i]?).map (i, ·)
  | none => none

def mutate (st : St) (s : String) (srt : List Val → List Val) (op : Op Val) : St × String :=
  match slot st s with
  | some (i, c) => let r := apply srt c op; (st.set i r.1, showOut r.2)
  | none => (st, "bad-op")

def step (st : St) (l : List String) : St × String :=
  let srt := stableSort leVal
  match l with
  | ["reset"] => (initSt, "ok")
  | ["new", s] => match slot st s with
    | some (i, _) => (st.set i {}, "ok")
    | none => (st, "bad-op")
  | ["add", s, v] => match parseVal v with
    | some v => mutate st s srt (.add v)
    | none => (st, "bad-op")
  | ["set", s, k, v] => match parseKey k, parseVal v with
    | some k, some v => mutate st s srt (.set k v)
    | _, _ => (st, "bad-op")
  | ["ins", s, a, v] => match a.toInt?, parseVal v with
    | some a, some v => mutate st s srt (.insert a v)
    | _, _ => (st, "bad-op")
  | ["del", s, k] => match parseKey k with
    | some k => mutate st s srt (.delete k)
    | none => (st, "bad-op")
  | ["erase", s, k] => match parseKey k with
    | some k => mutate st s srt (.erase k)
    | none => (st, "bad-op")
  | ["popf", s] => mutate st s srt .popFirst
  | ["popl", s] => mutate st s srt .popLast
  | ["sort", s] => mutate st s srt .sort
  | ["sortlt", s] => mutate st s (stableSort leDesc) .sort
  | ["uniq", s] => mutate st s srt .unique
  | ["rev", s] => mutate st s srt .reverse
  | ["clear", s] => mutate st s srt .deleteAll
  | ["ro", s] => mutate st s srt .setReadonly
  | ["get", s, k] => match slot st s, parseKey k with
    | some (_, c), some k => (st, showOptVal (get c k))
    | _, _ => (st, "bad-op")
  | ["has", s, k] => match slot st s, parseKey k with
    | some (_, c), some k => (st, showBool (has c k))
    | _, _ => (st, "bad-op")
  | ["find", s, v] => match slot st s, parseVal v with
    | some (_, c), some v => (st, match find c v with | some k => showKey k | none => "f")
    | _, _ => (st, "bad-op")
  | ["size", s] => match slot st s with
    | some (_, c) => (st, s!"{size c} {c.list.length} {c.named.length}")
    | none => (st, "bad-op")
  | ["mem", s] => match slot st s with
    | some (_, c) => (st, showMembers c)
    | none => (st, "bad-op")
  | ["slice", s, d, n] => match slot st s, slot st d, n.toNat? with
    | some (_, c), some (j, _), some n => (st.set j (slice c n), "ok")
    | _, _, _ => (st, "bad-op")
  | ["rto", s, d, f, t] => match slot st s, slot st d, f.toInt?, t.toInt? with
    | some (_, c), some (j, _), some f, some t => (st.set j (rangeToOp c f t), "ok")
    | _, _, _, _ => (st, "bad-op")
  | ["rlen", s, d, f, n] => match slot st s, slot st d, f.toInt?, n.toInt? with
    | some (_, c), some (j, _), some f, some n => (st.set j (rangeLenOp c f n), "ok")
    | _, _, _, _ => (st, "bad-op")
  | ["dump", s] => match slot st s with
    | some (_, c) => (st, dump c)
    | none => (st, "bad-op")
  | _ => (st, "bad-op")

def main : IO Unit := runS initSt step
