import Gsu.Model.LangFold
import Gsu.Util.Proto
open Gsu.Proto Gsu.LangFold

/-!
ops (expressions are prefix S-expressions, every token separated by one space):
  value   ::= i<int> | t | f | s<hex>
  expr    ::= value | v<idx> | ( u <uop> expr ) | ( b <bop> expr expr ) | ( q expr expr expr )
            | ( in expr expr* ) | ( n <nop> expr* )
  fold <expr>                  → folded expr | !literal | !err
  ev <n> <value>*n <expr>      → value | !err          (run-time semantics, exact arithmetic)
  evf <n> <value>*n <expr>     → value | !err          (fold, then run-time semantics)
  dadd <a> <b>                 → 16-digit decimal sum of a/10 and b/10, in tenths
-/

def parseVal (s : String) : Option Val :=
  match s.toList with
  | ['t'] => some (.bool true)
  | ['f'] => some (.bool false)
  | 'i' :: cs => (String.ofList cs).toInt?.map Val.int
  | 's' :: cs => (parseHexChars cs).map Val.str
  | _ => none

def showVal : Val → String
  | .bool true => "t"
  | .bool false => "f"
  | .int i => "i" ++ toString i
  | .str s => "s" ++ ((showBytes s).drop 1).toString

def parseU : String → Option UOp
  | "plus" => some .plus | "minus" => some .minus | "not" => some .not
  | "bitnot" => some .bitnot | "paren" => some .paren | "div" => some .div | _ => none

def showU : UOp → String
  | .plus => "plus" | .minus => "minus" | .not => "not" | .bitnot => "bitnot" | .paren => "paren"
  | .div => "div"

def parseB : String → Option BOp
  | "is" => some .is | "isnt" => some .isnt | "lt" => some .lt | "lte" => some .lte
  | "gt" => some .gt | "gte" => some .gte | "mod" => some .mod | _ => none

def showB : BOp → String
  | .is => "is" | .isnt => "isnt" | .lt => "lt" | .lte => "lte" | .gt => "gt" | .gte => "gte"
  | .mod => "mod"

def parseN : String → Option NOp
  | "add" => some .add | "mul" => some .mul | "bitor" => some .bitor | "bitand" => some .bitand
  | "bitxor" => some .bitxor | "or" => some .or | "and" => some .and | "cat" => some .cat
  | _ => none

def showN : NOp → String
  | .add => "add" | .mul => "mul" | .bitor => "bitor" | .bitand => "bitand" | .bitxor => "bitxor"
  | .or => "or" | .and => "and" | .cat => "cat"

mutual
partial def parseE : List String → Option (Expr × List String)
  | "(" :: "u" :: op :: rest => do
    let o ← parseU op
    let (e, r) ← parseE rest
    match r with
    | ")" :: r => some (.unary o e, r)
    | _ => none
  | "(" :: "b" :: op :: rest => do
    let o ← parseB op
    let (l, r) ← parseE rest
    let (x, r) ← parseE r
    match r with
    | ")" :: r => some (.binary o l x, r)
    | _ => none
  | "(" :: "q" :: rest => do
    let (c, r) ← parseE rest
    let (t, r) ← parseE r
    let (f, r) ← parseE r
    match r with
    | ")" :: r => some (.trinary c t f, r)
    | _ => none
  | "(" :: "in" :: rest => do
    let (e, r) ← parseE rest
    let (es, r) ← parseL r
    some (.inn e es, r)
  | "(" :: "n" :: op :: rest => do
    let o ← parseN op
    let (es, r) ← parseL rest
    some (.nary o es, r)
  | tok :: rest =>
    match tok.toList with
    | 'v' :: cs => (String.ofList cs).toNat?.map fun i => (.var i, rest)
    | _ => (parseVal tok).map fun v => (.const v, rest)
  | [] => none
/-- expressions up to the closing parenthesis (consumed) -/
partial def parseL : List String → Option (List Expr × List String)
  | ")" :: rest => some ([], rest)
  | toks => do
    let (e, r) ← parseE toks
    let (es, r) ← parseL r
    some (e :: es, r)
end

mutual
partial def showE : Expr → String
  | .const v => showVal v
  | .var i => "v" ++ toString i
  | .unary op e => "( u " ++ showU op ++ " " ++ showE e ++ " )"
  | .binary op l r => "( b " ++ showB op ++ " " ++ showE l ++ " " ++ showE r ++ " )"
  | .trinary c t f => "( q " ++ showE c ++ " " ++ showE t ++ " " ++ showE f ++ " )"
  | .inn e es => "( in " ++ showE e ++ showL es ++ " )"
  | .nary op es => "( n " ++ showN op ++ showL es ++ " )"
partial def showL : List Expr → String
  | [] => ""
  | e :: es => " " ++ showE e ++ showL es
end

def showRes : Option Val → String
  | some v => showVal v
  | none => "!err"

def withEnv (l : List String) (k : List Val → Expr → String) : String :=
  match l with
  | n :: rest =>
    match parseNat n with
    | some n =>
      match allSome ((rest.take n).map parseVal), parseE (rest.drop n) with
      | some env, some (e, []) => k env e
      | _, _ => "bad-op"
    | none => "bad-op"
  | [] => "bad-op"

def step (l : List String) : String :=
  match l with
  | "fold" :: toks =>
    match parseE toks with
    | some (e, []) =>
      match foldE exactA e with
      | .ok e' => showE e'
      | .error .literal => "!literal"
      | .error .eval => "!err"
    | _ => "bad-op"
  | "ev" :: rest => withEnv rest fun env e => showRes (eval exactA env e)
  | "evf" :: rest => withEnv rest fun env e => showRes (evalFolded exactA env e)
  | ["dadd", a, b] =>
    match parseInt a, parseInt b with
    | some a, some b => toString (dec16add a b)
    | _, _ => "bad-op"
  | _ => "bad-op"

def main : IO Unit := run step
