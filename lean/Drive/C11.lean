import Gsu.Model.Ixbuf
open Gsu.Proto Gsu.Ixbuf

/-- `a12` / `u12` / `d12` -/
def parseChg (s : String) : Option Chg :=
  match s.toList with
  | 'a' :: r => (String.ofList r).toNat?.map Chg.add
  | 'u' :: r => (String.ofList r).toNat?.map Chg.upd
  | 'd' :: r => (String.ofList r).toNat?.map Chg.del
  | _ => none

def showChg : Chg → String
  | .add o => "a" ++ toString o
  | .upd o => "u" ++ toString o
  | .del o => "d" ++ toString o

/-- `x<hex>:a12` -/
def parseSlot (s : String) : Option Slot :=
  match s.splitOn ":" with
  | [k, c] => match parseBytes k, parseChg c with
    | some k, some c => some (k, c)
    | _, _ => none
  | _ => none

def showSlot (s : Slot) : String := showBytes s.1 ++ ":" ++ showChg s.2

def parseChunk (s : String) : Option Chunk := allSome ((s.splitOn ",").map parseSlot)

/-- `<size>;<chunk>|<chunk>…`, chunk = slots joined by `,`; no chunks = `-` -/
def parseBuf (s : String) : Option Buf :=
  match s.splitOn ";" with
  | [n, cs] =>
    match n.toNat?, (if cs = "-" then some [] else allSome ((cs.splitOn "|").map parseChunk)) with
    | some n, some cs => some { chunks := cs, size := n }
    | _, _ => none
  | _ => none

def showBuf (b : Buf) : String :=
  toString b.size ++ ";" ++
    (if b.chunks.isEmpty then "-" else "|".intercalate (b.chunks.map fun c => ",".intercalate (c.map showSlot)))

def showOlds (l : List (Nat × Nat)) : String :=
  if l.isEmpty then "-" else ",".intercalate (l.map fun p => toString p.1 ++ ":" ++ toString p.2)

/-- ops:
  combine <c1> <c2>        → `<c|-> <oldoff>` | `!panic`          (ixbuf.Combine)
  goal <n>                 → goal(n)
  ins <k:c> <k:c> …        → `<buf> old=<i:oldoff,…>` | `!panic`  (Inserts from the empty buffer)
  merge <buf> <buf> …      → `<buf> flat=<t|f>` | `!panic`        (ixbuf.Merge; `flat` = the chunked
                              mirror's result flattens to `mergeFlat` of the flattened inputs)
-/
def step (l : List String) : String :=
  match l with
  | ["combine", a, b] =>
    match parseChg a, parseChg b with
    | some a, some b =>
      match combineOld a b with
      | none => "!panic"
      | some (r, old) => (match r with | none => "-" | some c => showChg c) ++ " " ++ toString old
    | _, _ => "bad-op"
  | ["goal", n] =>
    match parseNat n with
    | some n => toString (goalN n)
    | none => "bad-op"
  | "ins" :: ops =>
    match allSome (ops.map parseSlot) with
    | some ops =>
      match insertAll { chunks := [], size := 0 } 0 ops with
      | none => "!panic"
      | some (b, olds) => showBuf b ++ " old=" ++ showOlds olds
    | none => "bad-op"
  | "merge" :: bufs =>
    match allSome (bufs.map parseBuf) with
    | some bs =>
      match merge bs with
      | none => "!panic"
      | some r =>
        let flat := mergeFlat ((bs.filter (fun b => b.size ≠ 0)).map Buf.flatten)
        showBuf r ++ " flat=" ++ showBool (decide (flat = some r.flatten))
    | none => "bad-op"
  | _ => "bad-op"

def main : IO Unit := run step
