import Gsu.Model.StateRec
import Gsu.Model.MetaItem
open Gsu.Proto

/-- ops (see harness/inject/dbms/query/zz_verif_c04_test.go and harness/inject/db19/zz_verif_c04s_test.go):
  snapshot n              → n            (clean close/reopen is the identity on everything visible)
  stenc t offS offI       → the 36 bytes `writeState` puts in the store (magics, big endian time,
                            5-byte small offsets, crc32c low 16 bits at 26..27)
  stdec off x<bytes>      → offS offI t | !invalid        (`readState` at offset `off`)
  schw <schema>           → x<bytes> | !panic               (`Schema.Write`)
  schr x<bytes>           → <schema> x<rest> | !short       (`ReadSchema`)
  infw <winfo>            → x<bytes> | !panic               (`Info.Write`)
  infr x<bytes>           → <info> x<rest> | !short         (`ReadInfo`)
  chunkw prev ck x<body>  → x<chunk bytes> | !panic         (`Hamt.Write` framing: size, prev, ck, body, cksum)
  chunkr x<bytes>         → prev ck x<body> | !invalid      (`Hamt.read` framing)
  schitems x<body>        → n <schema> ; <schema> …         (item loop of `Hamt.read` with `ReadSchema`)
  infitems x<body>        → n <info> ; <info> …             (… with `ReadInfo`)
<schema> = x<table> <ncols> x<col>… <nderived> x<col>… <nidx> then per index
           <mode> <ncols> x<col>… <bestkey: - | n x<col>…> x<fktable> <fkmode> <nfkcols> x<col>…
<info>   = x<table> <nrows> <size> <nidx> then per index <root> <levels>
<winfo>  = x<table> <nrows> <size> <btreeNrows> <btreeSize> <nidx> then per index <root> <levels>
-/
def stateStep (l : List String) : String :=
  open Gsu.StateRec in
  match l with
  | ["snapshot", n] => n
  | ["stenc", t, s, i] => match parseNat t, parseNat s, parseNat i with
    | some t, some s, some i => showBytes (encodeReal t s i)
    | _, _, _ => "bad-op"
  | ["stdec", off, b] => match parseNat off, parseBytes b with
    | some off, some b => match decodeReal off b with
      | some (s, i, t) => s!"{s} {i} {t}"
      | none => "!invalid"
    | _, _ => "bad-op"
  | _ => "bad-op"

def step (l : List String) : String :=
  match l with
  | op :: _ =>
    if op.startsWith "s" && !op.startsWith "sch" then stateStep l
    else Gsu.MetaItem.driverStep l
  | [] => "bad-op"

def main : IO Unit := run step
