import Gsu.Model.RecRules
import Gsu.Util.Proto
open Gsu.Proto Gsu.RecRules

/-! Driver for C35. Ops (slots 0..1, fields by number, rule bodies in RPN):
  reset | rule k [guard… ?] body… | put s k v | get s k | del s k | inv s k | copy s d | obs s | log s | deps s k -/

structure St where
  rules : Rules := []
  recs : List Rec := [{}, {}]

def parseRpn : List String → List Expr → Option Expr
  | [], [e] => some e
  | [], _ => none
  | t :: r, st =>
    if t = "+" ∨ t = "-" ∨ t = "*" then
      match st with
      | b :: a :: rest =>
        parseRpn r ((if t = "+" then Expr.add a b else if t = "-" then Expr.sub a b else Expr.mul a b) :: rest)
      | _ => none
    else match t.toList with
      | 'f' :: ds => match (String.ofList ds).toNat? with
        | some f => parseRpn r (Expr.fld f :: st)
        | none => none
      | _ => match t.toInt? with
        | some n => parseRpn r (Expr.lit n :: st)
        | none => none

def showFields (l : List Field) : String :=
  if l.isEmpty then "-" else ",".intercalate (l.map toString)

def withRec (st : St) (s : String) (f : Rec → Rec × String) : St × String :=
  match s.toNat? with
  | some i => match st.recs[i]? with
    | some r => let x := f r; ({ st with recs := st.recs.set i x.1 }, x.2)
    | none => (st, "bad-op")
  | none => (st, "bad-op")

def step (st : St) (l : List String) : St × String :=
  match l with
  | ["reset"] => ({}, "ok")
  | "rule" :: k :: toks =>
    -- `rule k body…` or `rule k guard… ? body…`
    let gs := toks.takeWhile (· ≠ "?")
    let bs := (toks.dropWhile (· ≠ "?")).drop 1
    if toks.contains "?" then
      match k.toNat?, parseRpn gs [], parseRpn bs [] with
      | some k, some g, some b => ({ st with rules := setv st.rules k ⟨some g, b⟩ }, "ok")
      | _, _, _ => (st, "bad-op")
    else match k.toNat?, parseRpn toks [] with
      | some k, some e => ({ st with rules := setv st.rules k ⟨none, e⟩ }, "ok")
      | _, _ => (st, "bad-op")
  | ["put", s, k, v] => match k.toNat?, v.toInt? with
    | some k, some v => withRec st s fun r => (put fuel r k v, "ok")
    | _, _ => (st, "bad-op")
  | ["get", s, k] => match k.toNat? with
    | some k => withRec st s fun r =>
      let x := getN fuel st.rules [] r k
      (x.1, match x.2 with | some (some v) => toString v | _ => "-")
    | none => (st, "bad-op")
  | ["del", s, k] => match k.toNat? with
    | some k => withRec st s fun r => let x := delete fuel r k; (x.1, showBool x.2)
    | none => (st, "bad-op")
  | ["inv", s, k] => match k.toNat? with
    | some k => withRec st s fun r => (invalidateOp fuel r k, "ok")
    | none => (st, "bad-op")
  | ["copy", s, d] => match s.toNat?, d.toNat? with
    | some i, some j => match st.recs[i]?, st.recs[j]? with
      | some r, some _ => ({ st with recs := st.recs.set j (copy r) }, "ok")
      | _, _ => (st, "bad-op")
    | _, _ => (st, "bad-op")
  | ["obs", s] => withRec st s fun r => ({ r with obs := true }, "ok")
  | ["log", s] => withRec st s fun r => ({ r with log := [] }, showFields r.log)
  | ["deps", s, k] => match k.toNat? with
    | some k => withRec st s fun r =>
      (r, showFields ((getDeps r k).mergeSort (fun a b => decide (a ≤ b))))
    | none => (st, "bad-op")
  | _ => (st, "bad-op")

def main : IO Unit := runS ({} : St) step
