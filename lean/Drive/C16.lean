import Gsu.Model.DbOK
/-! C16 driver: the shared M-DB physical model behind the line protocol (see Gsu/Model/DbDrive.lean),
with the hypotheses of the invariant theorems checked on every operation (Gsu/Model/DbOK.lean). -/
def main : IO Unit := Gsu.Proto.runS Gsu.Db.DState.init Gsu.Db.driveStepOK
