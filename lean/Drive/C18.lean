import Gsu.Model.Alloc
import Gsu.Util.Proto
open Gsu.Proto Gsu.Alloc

structure DSt where
  c : Nat
  sh : Sh

/-- ops (stateful):
  reset <chunksize> <size> <nchunks>  → ok
  alloc <n>                           → <offset> | !retries
  size                                → <size> <nchunks>
-/
def step' (s : DSt) (l : List String) : DSt × String :=
  match l with
  | ["reset", c, sz, nc] =>
    match parseNat c, parseNat sz, parseNat nc with
    | some c, some sz, some nc => (⟨c, (initSt sz nc).sh⟩, "ok")
    | _, _, _ => (s, "bad-op")
  | ["alloc", n] =>
    match parseNat n with
    | some n =>
      match allocSeq s.c s.sh n with
      | (sh', .returned off _) => (⟨s.c, sh'⟩, toString off)
      | (sh', .panicked) => (⟨s.c, sh'⟩, "!retries")
      | (sh', _) => (⟨s.c, sh'⟩, "!stuck")
    | none => (s, "bad-op")
  | ["size"] => (s, s!"{s.sh.size} {s.sh.nchunks}")
  | _ => (s, "bad-op")

def main : IO Unit := runS ⟨1, (initSt 0 1).sh⟩ step'
