import Gsu.Model.Alloc
import Gsu.Util.Proto
open Gsu.Proto Gsu.Alloc

structure DSt where
  c : Nat
  sh : Sh

/-- ops (stateful):
  reset <chunksize> <size> <nchunks>  → ok
  alloc <n>                           → <offset> | !retries | !assert (n = 0 or n > chunksize)
  size                                → <size>
-/
def step' (s : DSt) (l : List String) : DSt × String :=
  match l with
  | ["reset", c, sz, nc] =>
    match parseNat c, parseNat sz, parseNat nc with
    | some c, some sz, some nc => (⟨c, (initSt sz nc).sh⟩, "ok")
    | _, _, _ => (s, "bad-op")
  | ["alloc", n] =>
    match parseNat n with
    | some n =>
      if n = 0 ∨ n > s.c then (s, "!assert") else
      match allocSeq s.c s.sh n with
      | (sh', .returned off _) => (⟨s.c, sh'⟩, toString off)
      | (sh', .panicked) => (⟨s.c, sh'⟩, "!retries")
      | (sh', _) => (⟨s.c, sh'⟩, "!stuck")
    | none => (s, "bad-op")
  | ["size"] => (s, toString s.sh.size)
  | _ => (s, "bad-op")

def main : IO Unit := runS ⟨1, (initSt 0 1).sh⟩ step'
