import Gsu.Model.DbDrive
import Gsu.Model.Share
/-! C02 driver: the shared M-DB physical model behind the line protocol (Gsu/Model/DbDrive.lean);
lines `sh-…` go to the sharing/heap model (Gsu/Model/Share.lean). -/
def step (s : Gsu.Db.State) (l : List String) : Gsu.Db.State × String :=
  match l with
  | op :: _ => if op.startsWith "sh-" then (s, Gsu.Share.drive l) else Gsu.Db.driveStep s l
  | [] => Gsu.Db.driveStep s l
def main : IO Unit := Gsu.Proto.runS Gsu.Db.State.init step
