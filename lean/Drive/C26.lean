import Gsu.Model.NumOps
import Gsu.Util.Proto
open Gsu.Proto Gsu.Num Gsu.Dnum

/-- ops (numbers: `s<n>` smi, `l<n>` SuInt64, `d<sign>,<coef>,<exp>` SuDnum):
  add|sub|mul|div|mod a b → number | !error      neg|add1 a → number
  cmp a b → -1|0|1     eq a b → t|f     hash a → decimal uint64
  intval n / int64val n → number    fromint n → dnum    toint64 d → n | !no
-/
def bin (f : Num → Num → Num) (a b : String) : String :=
  match parseNum a, parseNum b with
  | some x, some y => showNum (f x y)
  | _, _ => "bad-op"

def step (l : List String) : String :=
  match l with
  | ["add", a, b] => bin opAdd a b
  | ["sub", a, b] => bin opSub a b
  | ["mul", a, b] => bin opMul a b
  | ["div", a, b] => bin opDiv a b
  | ["mod", a, b] =>
    match parseNum a, parseNum b with
    | some x, some y => (match opMod x y with | .ok v => showNum v | .error e => e)
    | _, _ => "bad-op"
  | ["neg", a] => (match parseNum a with | some x => showNum (opNeg x) | none => "bad-op")
  | ["add1", a] => (match parseNum a with | some x => showNum (opAdd1 x) | none => "bad-op")
  | ["cmp", a, b] =>
    match parseNum a, parseNum b with
    | some x, some y => toString (Gsu.Num.compare x y)
    | _, _ => "bad-op"
  | ["eq", a, b] =>
    match parseNum a, parseNum b with
    | some x, some y => showBool (Gsu.Num.equal x y)
    | _, _ => "bad-op"
  | ["hash", a] => (match parseNum a with | some x => toString (Gsu.Num.hash x).toNat | none => "bad-op")
  | ["intval", n] => (match parseInt n with | some n => showNum (intVal n) | none => "bad-op")
  | ["int64val", n] => (match parseInt n with | some n => showNum (int64Val n) | none => "bad-op")
  | ["fromint", n] => (match parseInt n with | some n => showDnum (fromInt n) | none => "bad-op")
  | ["toint64", d] =>
    match parseDnum d with
    | some d => (match toInt64 d with | some n => toString n | none => "!no")
    | none => "bad-op"
  | _ => "bad-op"

def main : IO Unit := run step
