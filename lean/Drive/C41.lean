import Gsu.Util.Proto
import Gsu.Util.Sha1
import Gsu.Model.SrvCfg
open Gsu.Proto Gsu.Srv

/-- ops (stateful; one server history per `reset`):
  reset <user> <passhash> …          → ok      users table; all connections unauthenticated, no tokens
  nonce <conn> <n>                   → ok      cmdNonce answered with nonce n
  auth <conn> <s>                    → t|f|!already
  token <conn> <t>                   → ok|!refused   cmdToken (t = the token the server answered, x when refused)
  u <conn> <cmdidx> <tn0>            → !refused|answered|mixed|closed|-   any other command on an
                                       unauthenticated connection, class over its argument variations
  expire                             → ok      one background tick
-/
def pairs : List (List UInt8) → List (List UInt8 × List UInt8)
  | a :: b :: r => (a, b) :: pairs r
  | _ => []

def stepLine (st : St) (l : List String) : St × String :=
  match l with
  | "reset" :: r =>
    match allSome (r.map parseBytes) with
    | some bs => (init (pairs bs), "ok")
    | none => (st, "bad-op")
  | ["nonce", c, n] =>
    match parseNat c, parseBytes n with
    | some c, some n => step genCfg Gsu.Sha1.sha1 st (.nonce c n)
    | _, _ => (st, "bad-op")
  | ["auth", c, s] =>
    match parseNat c, parseBytes s with
    | some c, some s => step genCfg Gsu.Sha1.sha1 st (.auth c s)
    | _, _ => (st, "bad-op")
  | ["token", c, t] =>
    match parseNat c, parseBytes t with
    | some c, some t => step genCfg Gsu.Sha1.sha1 st (.token c t)
    | _, _ => (st, "bad-op")
  | ["u", c, i, tn0] =>
    match parseNat c, parseNat i, parseBool tn0 with
    | some c, some i, some b => step genCfg Gsu.Sha1.sha1 st (.cmd c i b)
    | _, _, _ => (st, "bad-op")
  | ["expire"] => step genCfg Gsu.Sha1.sha1 st .expire
  | _ => (st, "bad-op")

def main : IO Unit := runS (init []) stepLine
