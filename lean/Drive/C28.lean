import Gsu.Model.Value
import Gsu.Util.Proto
open Gsu.Proto Gsu.Num Gsu.Dnum Gsu.Val

/- value syntax (no spaces):
  b0 b1 | s<n> l<n> d<sign>,<coef>,<exp> | S<hex> C<hex> E<hex> (SuStr, SuConcat, SuExcept)
  D<date>.<time> | T<date>.<time>.<extra> | O(v;v;…|k=v;k=v;…) object | R(…) record -/

def isDelim (c : Char) : Bool := c == ';' || c == '|' || c == ')' || c == '='

def scalar (tok : String) : Option Value :=
  match tok.toList with
  | ['b', '0'] => some (.bool false)
  | ['b', '1'] => some (.bool true)
  | 'S' :: r => (parseHexChars r).map (.str .str)
  | 'C' :: r => (parseHexChars r).map (.str .concat)
  | 'E' :: r => (parseHexChars r).map (.str .except)
  | 'D' :: r =>
    match (String.ofList r).splitOn "." with
    | [a, b] => (match a.toNat?, b.toNat? with | some a, some b => some (.date a b) | _, _ => none)
    | _ => none
  | 'T' :: r =>
    match (String.ofList r).splitOn "." with
    | [a, b, c] => (match a.toNat?, b.toNat?, c.toNat? with
      | some a, some b, some c => some (.ts a b c) | _, _, _ => none)
    | _ => none
  | _ => (parseNum tok).map .num

mutual
partial def pValue : List Char → Option (Value × List Char)
  | 'O' :: '(' :: r => pObj false r
  | 'R' :: '(' :: r => pObj true r
  | cs =>
    let tok := cs.takeWhile (fun c => !isDelim c)
    let rest := cs.dropWhile (fun c => !isDelim c)
    (scalar (String.ofList tok)).map (·, rest)
partial def pObj (isRec : Bool) (cs : List Char) : Option (Value × List Char) :=
  match pList cs with
  | some (l, '|' :: r) =>
    match pNamed r with
    | some (n, ')' :: r2) => some (.obj isRec l n, r2)
    | _ => none
  | _ => none
partial def pList : List Char → Option (VList × List Char)
  | '|' :: r => some (.nil, '|' :: r)
  | cs =>
    match pValue cs with
    | some (v, ';' :: r) => (pList r).map fun (l, r2) => (.cons v l, r2)
    | some (v, r) => some (.cons v .nil, r)
    | none => none
partial def pNamed : List Char → Option (NList × List Char)
  | ')' :: r => some (.nil, ')' :: r)
  | cs =>
    match pValue cs with
    | some (k, '=' :: r) =>
      match pValue r with
      | some (v, ';' :: r2) => (pNamed r2).map fun (n, r3) => (.cons k v n, r3)
      | some (v, r2) => some (.cons k v .nil, r2)
      | none => none
    | _ => none
end

def parseValue (s : String) : Option Value :=
  match pValue s.toList with
  | some (v, []) => some v
  | _ => none

def hexOf (bs : List UInt8) : String := (showBytes bs).drop 1 |>.toString

mutual
partial def showValue : Value → String
  | .bool b => if b then "b1" else "b0"
  | .num n => showNum n
  | .str .str s => "S" ++ hexOf s
  | .str .concat s => "C" ++ hexOf s
  | .str .except s => "E" ++ hexOf s
  | .date d t => s!"D{d}.{t}"
  | .ts d t e => s!"T{d}.{t}.{e}"
  | .obj r l n => (if r then "R(" else "O(") ++ ";".intercalate (showL l) ++ "|" ++ ";".intercalate (showN n) ++ ")"
partial def showL : VList → List String
  | .nil => []
  | .cons v r => showValue v :: showL r
partial def showN : NList → List String
  | .nil => []
  | .cons k v r => (showValue k ++ "=" ++ showValue v) :: showN r
end

/-- ops: cmp a b → -1|0|1 ; eq a b → t|f ; hash a → uint64 ; ord a → 0..4 ;
  get ob key → value | !nil -/
def step (l : List String) : String :=
  match l with
  | ["cmp", a, b] =>
    match parseValue a, parseValue b with
    | some x, some y => toString (Gsu.Val.compare x y)
    | _, _ => "bad-op"
  | ["eq", a, b] =>
    match parseValue a, parseValue b with
    | some x, some y => showBool (equal x y)
    | _, _ => "bad-op"
  | ["hash", a] => (match parseValue a with | some x => toString (hash x).toNat | none => "bad-op")
  | ["ord", a] => (match parseValue a with | some x => toString (order x) | none => "bad-op")
  | ["get", o, k] =>
    match parseValue o, parseValue k with
    | some x, some y => (match get x y with | some v => showValue v | none => "!nil")
    | _, _ => "bad-op"
  | _ => "bad-op"

def main : IO Unit := run step
