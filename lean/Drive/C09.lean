import Gsu.Model.Iter
open Gsu.Proto Gsu.Iter

/-- driver state: the OverIter mirror, the raw (unfiltered) overlay of the transaction and the
skip-scan configuration -/
structure DS where
  oi : OI := {}
  raw : List Layer := []
  skip : Option (Rng × Rng × Nat) := none

/-- `k off k off …` -/
def parseLayer : List String → Option Layer
  | [] => some []
  | k :: o :: rest =>
    match parseBytes k, parseNat o, parseLayer rest with
    | some k, some o, some r => let (op, off) := decodeOff o; some (⟨k, op, off⟩ :: r)
    | _, _, _ => none
  | [_] => none

/-- layers terminated by `/` -/
def parseLayers (toks : List String) : Option (List Layer) :=
  let rec go : List String → List String → List Layer → Option (List Layer)
    | [], [], acc => some acc.reverse
    | [], _ :: _, _ => none
    | "/" :: rest, cur, acc =>
      match parseLayer cur.reverse with
      | some L => go rest [] (L :: acc)
      | none => none
    | t :: rest, cur, acc => go rest (t :: cur) acc
  go toks [] []

def filt (d : DS) (Ls : List Layer) : List Layer :=
  match d.skip with
  | none => Ls
  | some (pr, sr, n) => Ls.map (filterL pr sr n)

def showCur (c : Cur) : String :=
  match c.st with
  | .rewound => "r"
  | .eof => "e"
  | .within => "w:" ++ showBytes c.key ++ ":" ++ toString (encodeOff c.op c.off)

def showOI (oi : OI) : String :=
  (match oi.st with
   | .rewound => "r"
   | .eof => "e"
   | .within => "w " ++ showBytes oi.curKey ++ " " ++ toString (encodeOff oi.curOp oi.curOff))

def showSpec : Option (Key × Nat) → String
  | none => "-"
  | some (k, o) => showBytes k ++ " " ++ toString o

/-- `NOCOMP`: the replayed overlay violates the companion invariant assumed by the fast-path
theorems (never printed by the implementation side, so it shows up as a disagreement) -/
def out (oi : OI) (spec : String) : String :=
  (if oi.stuck then "STUCK " else "") ++
  (if compFrom [] (curLayers oi) then "" else "NOCOMP ") ++ showOI oi ++ " S " ++ spec ++ " C " ++
    " ".intercalate (oi.curs.map showCur)

def step (d : DS) (l : List String) : DS × String :=
  match l with
  | ["reset"] => ({}, "ok")
  | "ov" :: toks =>
    match parseLayers toks with
    | some Ls => ({ d with raw := Ls, oi := newOverlay d.oi (filt d Ls) }, "ok")
    | none => (d, "bad-op")
  | "mut" :: toks =>
    match parseLayer toks with
    | some L =>
      let d := { d with raw := d.raw.dropLast ++ [L] }
      let Lf := match d.skip with
        | none => L
        | some (pr, sr, n) => filterL pr sr n L
      ({ d with oi := mutate d.oi Lf }, "ok")
    | none => (d, "bad-op")
  | ["next"] =>
    let oi := d.oi
    let spec := match oi.st with
      | .eof => "-"
      | .rewound => showSpec (specNext (curLayers oi) oi.rng (.ge oi.rng.org))
      | .within => showSpec (specNext (curLayers oi) oi.rng (.gt oi.curKey))
    let oi' := next oi
    ({ d with oi := oi' }, out oi' spec)
  | ["prev"] =>
    let oi := d.oi
    let spec := match oi.st with
      | .eof => "-"
      | .rewound => showSpec (specPrev (curLayers oi) oi.rng none)
      | .within => showSpec (specPrev (curLayers oi) oi.rng (some oi.curKey))
    let oi' := prev oi
    ({ d with oi := oi' }, out oi' spec)
  | ["rewind"] => ({ d with oi := rewind d.oi }, "ok")
  | ["range", o, e] =>
    match parseBytes o, parseBytes e with
    | some o, some e =>
      -- leaving skip-scan mode: the iterators see the unfiltered layers again
      let oi := d.oi
      let oi := { oi with layers := (match oi.pend with | none => d.raw | some _ => oi.layers),
                          pend := oi.pend.map (fun _ => d.raw) }
      ({ d with skip := none, oi := range oi ⟨o, e⟩ }, "ok")
    | _, _ => (d, "bad-op")
  | ["skipscan", po, pe, so, se, n] =>
    match parseBytes po, parseBytes pe, parseBytes so, parseBytes se, parseNat n with
    | some po, some pe, some so, some se, some n =>
      let pr : Rng := ⟨po, pe⟩
      let sr : Rng := ⟨so, se⟩
      let f := fun (Ls : List Layer) => Ls.map (filterL pr sr n)
      let oi := d.oi
      let oi := { oi with layers := (match oi.pend with | none => f d.raw | some _ => oi.layers),
                          pend := oi.pend.map (fun _ => f d.raw) }
      ({ d with skip := some (pr, sr, n), oi := range oi Rng.all }, "ok")
    | _, _, _, _, _ => (d, "bad-op")
  | _ => (d, "bad-op")

def main : IO Unit := runS ({} : DS) step
