import Gsu.Model.Repair
open Gsu.Proto Gsu.Repair

/-- "0110" → good vector, newest first; "-" = no offsets -/
def parseBits (s : String) : Option (List Bool) :=
  if s = "-" then some []
  else allSome (s.toList.map fun c => if c = '1' then some true else if c = '0' then some false else none)

def parseNats (s : String) : Option (List Nat) :=
  if s = "-" then some [] else allSome ((s.splitOn ",").map parseNat)

def showOpen : OpenRes → String
  | .state off => s!"state {off}"
  | .corruptMarker => "corrupt"
  | .notShutdown => "notshutdown"

/-- ops:
  search <bits|->                 → <k> | none | !oob      (repair.search over a good vector)
  crash <cut> <ends|->            → <state number from the oldest> | none
  opentail <prefixLen> <bytes>    → state <off> | corrupt | notshutdown
  fix <fileLen> <off>             → <len of fixed file> state <off>
-/
def step (l : List String) : String :=
  match l with
  | ["search", bits] =>
    match parseBits bits with
    | some v =>
      match search (fun i => v.getD i false) v.length with
      | .none => "none"
      | .found k => toString k
      | .oob => "!oob"
    | none => "bad-op"
  | ["crash", cut, ends] =>
    match parseNat cut, parseNats ends with
    | some cut, some ends =>
      match recovered ends cut with
      | some s => toString s
      | none => "none"
    | _, _ => "bad-op"
  | ["opentail", n, b] =>
    match parseNat n, parseBytes b with
    | some n, some b => showOpen (openTail (List.replicate n 1 ++ b))
    | _, _ => "bad-op"
  | ["fix", n, off] =>
    match parseNat n, parseNat off with
    | some n, some off =>
      let f := fix (List.replicate n 1) off
      s!"{f.length} {showOpen (openTail f)}"
    | _, _ => "bad-op"
  | _ => "bad-op"

def main : IO Unit := run step
