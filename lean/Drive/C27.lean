import Gsu.Model.Dnum
import Gsu.Model.Div128
import Gsu.Util.Proto
open Gsu.Proto Gsu.Dnum

/-- ops (dnum = `<sign>,<coef>,<exp>`):
  new s c e → dnum          fromint n → dnum        toint64 d → n | !no
  add|sub|mul|div x y → dnum     neg x → dnum     cmp x y → -1|0|1
  str d → text              fromstr x<hex> → dnum | !invalid
  div128 a b → nat          ilog10 n → nat
-/
def bin (f : Dnum → Dnum → Dnum) (a b : String) : String :=
  match parseDnum a, parseDnum b with
  | some x, some y => showDnum (f x y)
  | _, _ => "bad-op"

def step (l : List String) : String :=
  match l with
  | ["new", s, c, e] =>
    match parseInt s, parseNat c, parseInt e with
    | some s, some c, some e => showDnum (new s c e)
    | _, _, _ => "bad-op"
  | ["fromint", n] => (match parseInt n with | some n => showDnum (fromInt n) | none => "bad-op")
  | ["toint64", d] =>
    match parseDnum d with
    | some d => (match toInt64 d with | some n => toString n | none => "!no")
    | none => "bad-op"
  | ["add", a, b] => bin add a b
  | ["sub", a, b] => bin sub a b
  | ["mul", a, b] => bin mul a b
  | ["div", a, b] => bin divM a b   -- Div with the mirrored div128 algorithm
  | ["neg", a] => (match parseDnum a with | some x => showDnum (neg x) | none => "bad-op")
  | ["cmp", a, b] =>
    match parseDnum a, parseDnum b with
    | some x, some y => toString (compare x y)
    | _, _ => "bad-op"
  | ["str", a] => (match parseDnum a with | some x => toStr x | none => "bad-op")
  | ["fromstr", s] =>
    match parseBytes s with
    | some bs =>
      (match fromChars (bs.map fun b => Char.ofNat b.toNat) with
       | some d => showDnum d | none => "!invalid")
    | none => "bad-op"
  | ["div128", a, b] =>
    match parseNat a, parseNat b with
    | some a, some b => toString (div128m a b)   -- the mirrored algorithm, not the specification
    | _, _ => "bad-op"
  | ["ilog10", n] => (match parseNat n with | some n => toString (ilog10 n) | none => "bad-op")
  | _ => "bad-op"

def main : IO Unit := run step
