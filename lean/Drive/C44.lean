import Gsu.Model.LDbDrive
open Gsu.Proto

def main : IO Unit := runS Gsu.LDbDrive.emptySt Gsu.LDbDrive.step
