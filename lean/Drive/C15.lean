import Gsu.Util.Proto
import Gsu.Model.Hamt
import Gsu.Gen.Hamt
open Gsu.Proto Gsu.Hamt

/-- driver state: hash table chosen by the generator, the chain, frozen versions -/
structure St where
  hashTab : List Nat := []
  c : Chain T := { ht := .nil, chunks := [], clock := 0 }
  versions : List T := []
  nextId : Nat := 1

def St.hf (s : St) (k : Nat) : Nat := s.hashTab.getD k 0
def St.ops (s : St) : MapOps T := trieOps s.hf

def showItem (it : Item) : String :=
  s!"{it.key}:{it.val}:{if it.tomb then "T" else "L"}:{it.mod}"

def showItems (l : List Item) : String :=
  if l.isEmpty then "-" else ",".intercalate (l.map showItem)

def showChain (c : Chain T) : String :=
  let ids := c.chunks.reverse.map (fun ch => toString ch.id)
  let ages := c.chunks.reverse.map (fun ch => toString ch.age)
  s!"ids={",".intercalate ids} ages={",".intercalate ages} clock={c.clock}"

def natList (s : String) : Option (List Nat) :=
  if s = "-" then some [] else allSome ((s.splitOn ",").map parseNat)

/-- ops (one history starts with `reset`):
  reset <h0,h1,…>     hash of key i                          → ok
  put <k> <v>         Put(item{k,v,mod=clock})               → ok
  tomb <k>            Put(tombstone{k,mod=clock})            → ok
  del <k>             Delete(k)                              → t|f
  get <k>             Get(k)                                 → item | -
  freeze              Freeze; remember version               → forEach dump
  ver <i>             re-read frozen version i               → forEach dump
  write               WriteChain (merge = nmerge(no,clock))  → w|n ids=… ages=… clock=…
  read                ReadChain(last off)                    → dump ids=… ages=… clock=0 | !cksum
  adopt               continue from the re-read chain        → ok | !cksum
-/
def step (s : St) (l : List String) : St × String :=
  match l with
  | ["reset", hs] =>
    match natList hs with
    | some h => ({ hashTab := h }, "ok")
    | none => (s, "bad-op")
  | ["put", k, v] =>
    match parseNat k, parseNat v with
    | some k, some v =>
      ({ s with c := { s.c with ht := s.ops.put s.c.ht ⟨k, v, false, s.c.clock⟩ } }, "ok")
    | _, _ => (s, "bad-op")
  | ["tomb", k] =>
    match parseNat k with
    | some k => ({ s with c := { s.c with ht := s.ops.put s.c.ht ⟨k, 0, true, s.c.clock⟩ } }, "ok")
    | none => (s, "bad-op")
  | ["del", k] =>
    match parseNat k with
    | some k =>
      let (t, ok) := del k (digits (s.hf k)) s.c.ht
      ({ s with c := { s.c with ht := t } }, showBool ok)
    | none => (s, "bad-op")
  | ["get", k] =>
    match parseNat k with
    | some k => (s, match s.ops.get s.c.ht k with | some it => showItem it | none => "-")
    | none => (s, "bad-op")
  | ["freeze"] => ({ s with versions := s.versions ++ [s.c.ht] }, showItems (s.ops.all s.c.ht))
  | ["ver", i] =>
    match parseNat i with
    | some i => (s, match s.versions[i]? with | some t => showItems (s.ops.all t) | none => "bad-ver")
    | none => (s, "bad-op")
  | ["write"] =>
    let no := s.c.chunks.length
    let merge := (Gsu.Gen.Hamt.nmerge no s.c.clock).toNat
    let (w, c') := writeChainWith s.ops s.c merge s.nextId
    ({ s with c := c', nextId := if w then s.nextId + 1 else s.nextId },
      (if w then "w " else "n ") ++ showChain c')
  | ["read"] =>
    match readChain s.ops s.c.chunks with
    | some rc => (s, showItems (s.ops.all rc.ht) ++ " " ++ showChain rc)
    | none => (s, "!cksum")
  | ["adopt"] =>
    match readChain s.ops s.c.chunks with
    | some rc => ({ s with c := rc, versions := [] }, "ok")
    | none => (s, "!cksum")
  | _ => (s, "bad-op")

def main : IO Unit := runS ({} : St) step
