import Gsu.Util.Proto
import Gsu.Model.Containers
open Gsu.Proto Gsu.Containers

def natList (s : String) : Option (List Nat) :=
  if s = "-" then some [] else allSome ((s.splitOn ",").map parseNat)

def showNats (l : List Nat) : String :=
  if l.isEmpty then "-" else ",".intercalate (l.map toString)

structure St where
  bloom : Bloom.T := Bloom.new 64 1
  roar : Roaring.T := []
  lru : Lru.T := Lru.new 0
  cache : Cache8.T := {}
  shm : Assoc.Map := []

def showOpt : Option Nat → String
  | none => "-"
  | some v => toString v

def showPairs (l : List (Nat × Nat)) : String :=
  if l.isEmpty then "-" else ",".intercalate (l.map fun (k, v) => s!"{k}:{v}")

/-- ops (one history starts with `reset`):
  sl <shift> <rev> <csv>  → sorted csv          (sortlist: Add…, Finish/Sort, iterate; key = x>>shift, or 2^40-1-(x>>shift) when rev)
  bnew <m> <k>            → ok                  (bloom.New)
  badd <h>                → ok | !div0
  btest <h>               → t | f | !div0
  radd <x> / rhas <x>     → ok / t|f            (roaring; !big when x >= maxValue)
  lnew <req>, lput <k> <v>, lget <k> → v|-, lgetput <k> <fv> → v, lstats → hits misses,
  lentries → k:v,…, lreset                     (lrucache)
  cget <k> <fv>           → v t|f               (cache.Get; fv = what the getter would return; t = getter called)
  cgetfail <k>            → v f | !panic        (cache.Get with a getter that panics)
  cgetnest <k> <k2> <fv2> <fv> → v t|f [v2 t|f] (cache.Get whose getter calls Get(k2) on the same cache)
  mput/mget/mdel/mgetinit/msize/mclear/miter    (shmap, spec level; miter sorted by key)
-/
def step (s : St) (l : List String) : St × String :=
  match l with
  | ["reset"] => ({}, "ok")
  | ["sl", sh, rev, xs] =>
    match parseNat sh, parseBool rev, natList xs with
    | some sh, some rev, some xs =>
      (s, showNats (SL.finish (fun x => if rev then (2 ^ 40 - 1) - (x >>> sh) else x >>> sh) xs))
    | _, _, _ => (s, "bad-op")
  | ["bnew", m, k] =>
    match parseNat m, parseNat k with
    | some m, some k => ({ s with bloom := Bloom.new m k }, "ok")
    | _, _ => (s, "bad-op")
  | ["badd", h] =>
    match parseNat h with
    | some h =>
      if s.bloom.nwords = 0 ∧ s.bloom.k > 0 then (s, "!div0")
      else ({ s with bloom := Bloom.add s.bloom h }, "ok")
    | none => (s, "bad-op")
  | ["btest", h] =>
    match parseNat h with
    | some h =>
      if s.bloom.nwords = 0 ∧ s.bloom.k > 0 then (s, "!div0")
      else (s, showBool (Bloom.test s.bloom h))
    | none => (s, "bad-op")
  | ["radd", x] =>
    match parseNat x with
    | some x => if x ≥ Gsu.Gen.Containers.roaringMaxValue then (s, "!big")
                else ({ s with roar := Roaring.add s.roar x }, "ok")
    | none => (s, "bad-op")
  | ["rhas", x] =>
    match parseNat x with
    | some x => if x ≥ Gsu.Gen.Containers.roaringMaxValue then (s, "!big")
                else (s, showBool (Roaring.has s.roar x))
    | none => (s, "bad-op")
  | ["lnew", req] =>
    match parseNat req with
    | some req => ({ s with lru := Lru.new req }, "ok")
    | none => (s, "bad-op")
  | ["lput", k, v] =>
    match parseNat k, parseNat v with
    | some k, some v => ({ s with lru := Lru.put s.lru k v }, "ok")
    | _, _ => (s, "bad-op")
  | ["lget", k] =>
    match parseNat k with
    | some k => let (c, r) := Lru.get s.lru k; ({ s with lru := c }, showOpt r)
    | none => (s, "bad-op")
  | ["lgetput", k, fv] =>
    match parseNat k, parseNat fv with
    | some k, some fv => let (c, r) := Lru.getPut s.lru k fv; ({ s with lru := c }, toString r)
    | _, _ => (s, "bad-op")
  | ["lstats"] => (s, s!"{s.lru.hits} {s.lru.misses}")
  | ["lentries"] => (s, showPairs s.lru.entries)
  | ["lreset"] => ({ s with lru := Lru.reset s.lru }, "ok")
  | ["cget", k, fv] =>
    match parseNat k, parseNat fv with
    | some k, some fv =>
      let (c, v, called) := Cache8.get s.cache k fv
      ({ s with cache := c }, s!"{v} {showBool called}")
    | _, _ => (s, "bad-op")
  | ["cgetfail", k] =>
    match parseNat k with
    | some k =>
      let (c, r) := Cache8.getFail s.cache k
      ({ s with cache := c }, match r with | some v => s!"{v} f" | none => "!panic")
    | none => (s, "bad-op")
  | ["cgetnest", k, k2, fv2, fv] =>
    match parseNat k, parseNat k2, parseNat fv2, parseNat fv with
    | some k, some k2, some fv2, some fv =>
      let (c, v, called, inner) := Cache8.getNest s.cache k k2 fv2 fv
      ({ s with cache := c }, s!"{v} {showBool called}" ++
        (match inner with | some (v2, c2) => s!" {v2} {showBool c2}" | none => ""))
    | _, _, _, _ => (s, "bad-op")
  | ["mput", k, v] =>
    match parseNat k, parseNat v with
    | some k, some v => ({ s with shm := Assoc.put s.shm k v }, "ok")
    | _, _ => (s, "bad-op")
  | ["mget", k] =>
    match parseNat k with
    | some k => (s, showOpt (Assoc.get s.shm k))
    | none => (s, "bad-op")
  | ["mdel", k] =>
    match parseNat k with
    | some k => ({ s with shm := Assoc.del s.shm k }, showOpt (Assoc.get s.shm k))
    | none => (s, "bad-op")
  | ["mgetinit", k] =>
    match parseNat k with
    | some k =>
      match Assoc.get s.shm k with
      | some _ => (s, "t")
      | none => ({ s with shm := Assoc.put s.shm k 0 }, "f")
    | none => (s, "bad-op")
  | ["msize"] => (s, toString (Assoc.size s.shm))
  | ["mclear"] => ({ s with shm := [] }, "ok")
  | ["miter"] => (s, showPairs (s.shm.mergeSort (fun a b => a.1 ≤ b.1)))
  | _ => (s, "bad-op")

def main : IO Unit := runS ({} : St) step
