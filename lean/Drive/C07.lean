import Gsu.Model.Dup
import Gsu.Util.Proto
open Gsu.Proto Gsu.Dup

def parseBools (s : String) : Option (List Bool) :=
  if s = "-" then some [] else allSome (s.toList.map fun c => parseBool (String.singleton c))

/-- `<emptyKey primary modeU containsKey changed present>:<fields empty>:<key>` -/
def parseIx (s : String) : Option IxIn :=
  match s.splitOn ":" with
  | [fl, es, k] =>
    match parseBools fl, parseBools es, parseBytes k with
    | some [a, b, c, d, f, g], some es, some k =>
      some { emptyKey := a, primary := b, modeU := c, containsKey := d, fieldsEmpty := es,
             changed := f, present := g, key := k }
    | _, _, _ => none
  | _ => none

def step (l : List String) : String :=
  match l with
  | ["needsdup", p, u, c, e] =>
    match parseBool p, parseBool u, parseBool c, parseBool e with
    | some p, some u, some c, some e => showBool (Gsu.Gen.Check.needsDupCheck p u c e)
    | _, _, _, _ => "bad-op"
  | ["uniqempty", es] =>
    match parseBools es with
    | some es => showBool (Gsu.Gen.Check.uniqueIndexEmpty es)
    | none => "bad-op"
  | "dup" :: upd :: ixs =>
    match parseBool upd, allSome (ixs.map parseIx) with
    | some upd, some xs =>
      let r := dupChecks upd 0 xs
      (if r.2 then "ok" else "dup") ++
        String.join (r.1.map fun x => " " ++ toString x.1 ++ ":" ++ showBytes x.2.1 ++ "-" ++ showBytes x.2.2)
    | _, _ => "bad-op"
  | _ => "bad-op"

def main : IO Unit := run step
