import Gsu.Model.Dup
import Gsu.Util.Proto
open Gsu.Proto Gsu.Dup

def parseIx (s : String) : Option IxIn :=
  match s.splitOn ":" with
  | [fl, k] =>
    match fl.toList.map (fun c => parseBool (String.singleton c)), parseBytes k with
    | [some a, some b, some c, some d, some e, some f, some g], some k =>
      some { emptyKey := a, primary := b, modeU := c, containsKey := d, uniqueEmpty := e,
             changed := f, present := g, key := k }
    | _, _ => none
  | _ => none

def step (l : List String) : String :=
  match l with
  | ["needsdup", p, u, c, e] =>
    match parseBool p, parseBool u, parseBool c, parseBool e with
    | some p, some u, some c, some e => showBool (Gsu.Gen.Check.needsDupCheck p u c e)
    | _, _, _, _ => "bad-op"
  | "dup" :: upd :: ixs =>
    match parseBool upd, allSome (ixs.map parseIx) with
    | some upd, some xs =>
      let r := dupChecks upd 0 xs
      (if r.2 then "ok" else "dup") ++
        String.join (r.1.map fun x => " " ++ toString x.1 ++ ":" ++ showBytes x.2.1 ++ "-" ++ showBytes x.2.2)
    | _, _ => "bad-op"
  | _ => "bad-op"

def main : IO Unit := run step
