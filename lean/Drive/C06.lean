import Gsu.Model.DbDrive
/-! C06 driver: the shared M-DB physical model behind the line protocol (see Gsu/Model/DbDrive.lean). -/
def main : IO Unit := Gsu.Proto.runS Gsu.Db.State.init Gsu.Db.driveStep
