import Gsu.Model.Ck
import Gsu.Util.Proto
open Gsu.Proto Gsu.Ck

def natList (s : String) : Option (List Nat) :=
  if s = "-" then some [] else allSome ((s.splitOn ",").map parseNat)

def showNats (l : List Nat) (sep : String := ".") : String := sep.intercalate (l.map toString)

def insSorted (t : Tran) : List Tran → List Tran
  | [] => [t]
  | a :: r => if t.start ≤ a.start then t :: a :: r else a :: insSorted t r

def sortTrans (l : List Tran) : List Tran := l.foldr insSorted []

def insPair (t : Nat × Option Nat) : List (Nat × Option Nat) → List (Nat × Option Nat)
  | [] => [t]
  | a :: r => if t.1 ≤ a.1 then t :: a :: r else a :: insPair t r

def showOpt : Option Nat → String
  | none => "M"
  | some n => toString n

/-- canonical text of the checker state, compared with the same text computed from `*Check` -/
def digest (s : State) : String :=
  let act := (sortTrans (s.trans.filter (·.active))).map fun t =>
    toString t.start ++ (if t.hasUpdates then "u" else "") ++ (if t.rc then "r" else "") ++ ":" ++
      toString t.readCount ++ ":" ++ showNats (t.acts.map (·.table))
  let cm := (sortTrans (s.trans.filter (!·.active))).map fun t =>
    toString t.start ++ "-" ++ showOpt t.end_ ++ ":" ++ showNats (t.acts.map (·.table))
  let ex := (s.excl.foldr insPair []).map fun x => toString x.1 ++ ":" ++ showOpt x.2
  "a=" ++ ",".intercalate act ++ " c=" ++ ",".intercalate cm ++ " o=" ++ showOpt s.oldest ++
    " x=" ++ ",".intercalate ex ++ " k=" ++ toString s.clock ++ " q=" ++ toString s.seq

def showOut : Out → String
  | .id n => toString n
  | .bool b => showBool b
  | .tables none => "nil"
  | .tables (some tw) => "[" ++ showNats tw "," ++ "]"
  | .int i => toString i
  | .unit => "-"

def parseOp (l : List String) : Option Op :=
  match l with
  | ["start"] => some .start
  | ["read", tn, tbl, idx, f, t, o, p] =>
    match parseNat tn, parseNat tbl, parseNat idx, parseBytes f, parseBytes t, natList o, natList p with
    | some tn, some tbl, some idx, some f, some t, some o, some p => some (.read tn tbl idx f t o p)
    | _, _, _, _, _, _, _ => none
  | "output" :: tn :: tbl :: o :: p :: ks =>
    match parseNat tn, parseNat tbl, natList o, natList p, allSome (ks.map parseBytes) with
    | some tn, some tbl, some o, some p, some ks => some (.output tn tbl ks o p)
    | _, _, _, _, _ => none
  | "delete" :: tn :: tbl :: o :: p :: ks =>
    match parseNat tn, parseNat tbl, natList o, natList p, allSome (ks.map parseBytes) with
    | some tn, some tbl, some o, some p, some ks => some (.delete tn tbl ks o p)
    | _, _, _, _, _ => none
  | "update" :: tn :: tbl :: o :: p :: n :: ks =>
    match parseNat tn, parseNat tbl, natList o, natList p, parseNat n, allSome (ks.map parseBytes) with
    | some tn, some tbl, some o, some p, some n, some ks => some (.update tn tbl (ks.take n) (ks.drop n) o p)
    | _, _, _, _, _, _ => none
  | ["commit", tn] => (parseNat tn).map .commit
  | ["abort", tn] => (parseNat tn).map .abort
  | ["tick", m] => (parseNat m).map .tick
  | ["addexcl", t] => (parseNat t).map .addExcl
  | ["endexcl", t] => (parseNat t).map .endExcl
  | ["readcount", t] => (parseNat t).map .readCount
  | _ => none

def dstep (s : State) (l : List String) : State × String :=
  match l with
  | ["reset"] => ({}, "ok")
  | _ =>
    match parseOp l with
    | none => (s, "bad-op")
    | some op =>
      let r := step s op
      (r.1, showOut r.2 ++ " | " ++ digest r.1)

def main : IO Unit := runS ({} : State) dstep
