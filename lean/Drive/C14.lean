import Gsu.Model.RecEnc
import Gsu.Model.StorEnc
import Gsu.Model.MuxEnc
open Gsu.Proto

/-- ops (see harness/c14/main.go and harness/inject/dbms/mux/zz_verif_c14_test.go):
  build f…            → record | !toomany | !toolarge
  buildn cnt sz       → len count recLen cksum          (pattern fields)
  getn cnt sz i       → len cksum of field i of the pattern record
  truncn cnt sz n     → len count cksum of Truncate(n) of the pattern record
  count r | len r | getraw r i | trunc r n             → value | !panic
  sput k n | sget k b | sputstr s | sgetstr b | sputstrs s… | sgetstrs b | smallw n | smallr b
  mputint i | mgetint b | mputstr s | mputstrn sz | mgetstr b | mputstrs s… | mgetstrs b | mputints i…
-/
def showRes : Gsu.RecEnc.BuildRes → String
  | .ok r => showBytes r
  | .tooMany => "!toomany"
  | .tooLarge => "!toolarge"

def showOptNat : Option Nat → String
  | some n => toString n
  | none => "!panic"

def showErr : Gsu.MuxEnc.Err → String
  | .short => "!short"
  | .neg => "!neg"
  | .tooLarge => "!toolarge"

def bytesArgs (l : List String) : Option (List Bytes) := allSome (l.map parseBytes)

def recStep (l : List String) : String :=
  open Gsu.RecEnc in
  match l with
  | "build" :: fs => match bytesArgs fs with
    | some fs => showRes (build fs)
    | none => "bad-op"
  | ["buildn", c, s] => match parseNat c, parseNat s with
    | some c, some s => match build (patFields c s) with
      | .ok r => s!"{r.length} {showOptNat (count r)} {showOptNat (recLen r)} {cksum r}"
      | e => showRes e
    | _, _ => "bad-op"
  | ["getn", c, s, i] => match parseNat c, parseNat s, parseNat i with
    | some c, some s, some i => match build (patFields c s) with
      | .ok r => match getRaw r i with
        | some f => s!"{f.length} {cksum f}"
        | none => "!panic"
      | e => showRes e
    | _, _, _ => "bad-op"
  | ["truncn", c, s, n] => match parseNat c, parseNat s, parseNat n with
    | some c, some s, some n => match build (patFields c s) with
      | .ok r => match truncate r n with
        | some (.ok t) => s!"{t.length} {showOptNat (count t)} {cksum t}"
        | some e => showRes e
        | none => "!panic"
      | e => showRes e
    | _, _, _ => "bad-op"
  | ["count", r] => match parseBytes r with
    | some r => showOptNat (count r)
    | none => "bad-op"
  | ["len", r] => match parseBytes r with
    | some r => showOptNat (recLen r)
    | none => "bad-op"
  | ["getraw", r, i] => match parseBytes r, parseNat i with
    | some r, some i => match getRaw r i with
      | some f => showBytes f
      | none => "!panic"
    | _, _ => "bad-op"
  | ["trunc", r, n] => match parseBytes r, parseNat n with
    | some r, some n => match truncate r n with
      | some t => showRes t
      | none => "!panic"
    | _, _ => "bad-op"
  | _ => "bad-op"

def storStep (l : List String) : String :=
  open Gsu.StorEnc in
  match l with
  | ["sput", k, n] => match parseNat k, parseInt n with
    | some k, some n => match put k n with
      | some b => showBytes b
      | none => "!range"
    | _, _ => "bad-op"
  | ["sget", k, b] => match parseNat k, parseBytes b with
    | some k, some b => match get k b with
      | some (n, r) => s!"{n} {showBytes r}"
      | none => "!short"
    | _, _ => "bad-op"
  | ["sputstr", s] => match parseBytes s with
    | some s => match putStr s with
      | some b => showBytes b
      | none => "!range"
    | none => "bad-op"
  | ["sputstrn", n] => match parseNat n with
    | some n => match putStr (Gsu.RecEnc.patField 0 n) with
      | some b => s!"{b.length} {Gsu.RecEnc.cksum b}"
      | none => "!range"
    | none => "bad-op"
  | ["sgetstr", b] => match parseBytes b with
    | some b => match getStr b with
      | some (s, r) => s!"{showBytes s} {showBytes r}"
      | none => "!short"
    | none => "bad-op"
  | "sputstrs" :: ss => match bytesArgs ss with
    | some ss => match putStrs ss with
      | some b => showBytes b
      | none => "!range"
    | none => "bad-op"
  | ["sgetstrs", b] => match parseBytes b with
    | some b => match getStrs b with
      | some (ss, r) => " ".intercalate (toString ss.length :: ss.map showBytes ++ [showBytes r])
      | none => "!short"
    | none => "bad-op"
  | ["smallw", n] => match parseNat n with
    | some n => showBytes (writeSmallOffset n)
    | none => "bad-op"
  | ["smallr", b] => match parseBytes b with
    | some b => match readSmallOffset b with
      | some n => toString n
      | none => "!short"
    | none => "bad-op"
  | _ => "bad-op"

def muxStep (l : List String) : String :=
  open Gsu.MuxEnc in
  match l with
  | ["mputint", i] => match parseInt i with
    | some i => showBytes (putInt64 (BitVec.ofInt 64 i))
    | none => "bad-op"
  | ["mgetint", b] => match parseBytes b with
    | some b => match getInt64 b with
      | some (n, r) => s!"{n.toInt} {showBytes r}"
      | none => "!short"
    | none => "bad-op"
  | ["mputstr", s] => match parseBytes s with
    | some s => match putStr s with
      | .ok b => showBytes b
      | .error e => showErr e
    | none => "bad-op"
  | ["mputstrn", n] => match parseNat n with
    | some n => match putStr (Gsu.RecEnc.patField 0 n) with
      | .ok b => s!"{b.length} {Gsu.RecEnc.cksum b}"
      | .error e => showErr e
    | none => "bad-op"
  | ["mgetstr", b] => match parseBytes b with
    | some b => match getStr b with
      | .ok (s, r) => s!"{showBytes s} {showBytes r}"
      | .error e => showErr e
    | none => "bad-op"
  | "mputstrs" :: ss => match bytesArgs ss with
    | some ss => match putStrs ss with
      | .ok b => showBytes b
      | .error e => showErr e
    | none => "bad-op"
  | ["mgetstrs", b] => match parseBytes b with
    | some b => match getStrs b with
      | .ok (ss, r) => " ".intercalate (toString ss.length :: ss.map showBytes ++ [showBytes r])
      | .error e => showErr e
    | none => "bad-op"
  | "mputints" :: is => match allSome (is.map parseInt) with
    | some is => showBytes (putInts (is.map (BitVec.ofInt 64)))
    | none => "bad-op"
  | _ => "bad-op"

def step (l : List String) : String :=
  match l with
  | op :: _ =>
    if op.startsWith "s" then storStep l
    else if op.startsWith "m" then muxStep l
    else recStep l
  | [] => "bad-op"

def main : IO Unit := run step
