import Gsu.Model.Act
open Gsu.Proto Gsu.Act

/-- ops:
  reset
  ins <T> <k> <a> <b>                → 1 | !dup
  del <T> <pred…>                    → count
  upd <T> <nset> (<col> k <v> | <col> p <src> <v>)… <pred…>  → count | !dup
  insq <j> <pred…>                   → count | !dup     (insert t where pred into u; j=1: (t join w), j=2: (w join t))
  insw <a> <d>                       → 1 | !dup        (insert into w (a, d) key(a))
  state                              → rows of t | rows of u   (k,a,b sorted by k)
 pred (prefix): c <col> <op> <v> | cp <col> <off> <op> <v>  (col + off op v) | and P Q | or P Q | all
-/
def parseCol : String → Option Col
  | "k" => some .k | "a" => some .a | "b" => some .b | _ => none

def parseCmp : String → Option Cmp
  | "eq" => some .eq | "ne" => some .ne | "lt" => some .lt | "ge" => some .ge
  | "le" => some .le | "gt" => some .gt | _ => none

def parsePred : Nat → List String → Option (Pred × List String)
  | 0, _ => none
  | _ + 1, "all" :: rest => some (.all, rest)
  | _ + 1, "cp" :: c :: off :: op :: v :: rest =>
    match parseCol c, parseInt off, parseCmp op, parseInt v with
    | some c, some off, some op, some v => some (.cmpp c off op v, rest)
    | _, _, _, _ => none
  | _ + 1, "c" :: c :: op :: v :: rest =>
    match parseCol c, parseCmp op, parseInt v with
    | some c, some op, some v => some (.cmp c op v, rest)
    | _, _, _ => none
  | n + 1, "and" :: rest =>
    match parsePred n rest with
    | some (p, r1) => match parsePred n r1 with
      | some (q, r2) => some (.and p q, r2)
      | none => none
    | none => none
  | n + 1, "or" :: rest =>
    match parsePred n rest with
    | some (p, r1) => match parsePred n r1 with
      | some (q, r2) => some (.or p q, r2)
      | none => none
    | none => none
  | _, _ => none

def parseAsg : Nat → List String → Option (Asg × List String)
  | 0, rest => some ([], rest)
  | n + 1, c :: "k" :: v :: rest =>
    match parseCol c, parseInt v, parseAsg n rest with
    | some c, some v, some (as, r) => some ((c, .const v) :: as, r)
    | _, _, _ => none
  | n + 1, c :: "p" :: s :: v :: rest =>
    match parseCol c, parseCol s, parseInt v, parseAsg n rest with
    | some c, some s, some v, some (as, r) => some ((c, .plus s v) :: as, r)
    | _, _, _, _ => none
  | _, _ => none

def insertByK (r : R) : List R → List R
  | [] => [r]
  | x :: xs => if r.k ≤ x.k then r :: x :: xs else x :: insertByK r xs

def showRows (rows : List R) : String :=
  " ".intercalate ((rows.foldr insertByK []).map fun r => s!"{r.k},{r.a},{r.b}")

def fin (d : Db) : Res → Db × String
  | some (d', n) => (d', toString n)
  | none => (d, "!dup")

def step (d : Db) (l : List String) : Db × String :=
  match l with
  | ["reset"] => (⟨[], [], []⟩, "ok")
  | ["ins", t, k, a, b] =>
    match parseNat t, parseInt k, parseInt a, parseInt b with
    | some t, some k, some a, some b => fin d (insert d t ⟨k, a, b⟩)
    | _, _, _, _ => (d, "bad-op")
  | "del" :: t :: rest =>
    match parseNat t, parsePred 50 rest with
    | some t, some (p, []) => fin d (delete d t p)
    | _, _ => (d, "bad-op")
  | "upd" :: t :: n :: rest =>
    match parseNat t, parseNat n with
    | some t, some n =>
      match parseAsg n rest with
      | some (asg, r1) =>
        match parsePred 50 r1 with
        | some (p, []) => fin d (update d t p asg)
        | _ => (d, "bad-op")
      | none => (d, "bad-op")
    | _, _ => (d, "bad-op")
  | "insq" :: j :: rest =>
    match parseNat j, parsePred 50 rest with
    | some j, some (p, []) => fin d (insertQuery d p (j != 0))
    | _, _ => (d, "bad-op")
  | ["insw", a, v] =>
    match parseInt a, parseInt v with
    | some a, some v => fin d (insertW d a v)
    | _, _ => (d, "bad-op")
  | ["state"] => (d, showRows d.t ++ " | " ++ showRows d.u)
  | _ => (d, "bad-op")

def main : IO Unit := runS (⟨[], [], []⟩ : Db) step
