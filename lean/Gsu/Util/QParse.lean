/-
Token-level reader/printer for the M-QRY drivers (C22, C23, C25): values, expressions and queries
in prefix notation, canonical printing of row sets. Core-only.

values : `t` `f` `i<int>` `s<hex>`
lists  : comma separated, `-` for the empty list
expr   : `k<value>` | `c<col>` | is|ne|lt|le|gt|ge e e | not e | and e e | or e e | if e e e
         | in <values> e | add|sub|mul e e | neg e
query  : T id | W q e | P cols q | N from to q | X col q e | S whole by n (col op on)* q
         | O rev cols q | J a b | L a b | M a b | U a b | I a b | D a b
-/
import Gsu.Model.Qry
namespace Gsu.QParse
open Gsu.Proto Gsu.QVal Gsu.QExpr Gsu.Qry

def parseVal (s : String) : Option Val :=
  match s.toList with
  | ['t'] => some (.bool true)
  | ['f'] => some (.bool false)
  | 'i' :: cs => (String.ofList cs).toInt?.map .int
  | 's' :: cs => (parseHexChars cs).map .str
  | _ => none

def showVal : Val → String
  | .bool true => "t"
  | .bool false => "f"
  | .int n => "i" ++ toString n
  | .str s => "s" ++ ((showBytes s).drop 1).toString

def parseList {α} (f : String → Option α) (s : String) : Option (List α) :=
  if s = "-" then some [] else allSome ((s.splitOn ",").map f)

def parseCols (s : String) : Option (List Col) := parseList parseNat s

def cmpOpOf (s : String) : Option CmpOp :=
  if s = "is" then some .is else if s = "ne" then some .isnt else if s = "lt" then some .lt
  else if s = "le" then some .lte else if s = "gt" then some .gt else if s = "ge" then some .gte
  else none

def arOpOf (s : String) : Option ArOp :=
  if s = "add" then some .add else if s = "sub" then some .sub else if s = "mul" then some .mul
  else none

def aggOf (s : String) : Option Agg :=
  if s = "count" then some .count else if s = "total" then some .total
  else if s = "min" then some .min else if s = "max" then some .max else none

/-- prefix expression reader; fuel bounds the recursion -/
def parseExpr : Nat → List String → Option (Expr × List String)
  | 0, _ => none
  | _, [] => none
  | fuel + 1, tok :: rest =>
    match tok.toList with
    | 'k' :: cs => (parseVal (String.ofList cs)).map fun v => (.const v, rest)
    | 'c' :: cs => (String.ofList cs).toNat?.map fun c => (.col c, rest)
    | _ =>
      if tok = "not" then
        (parseExpr fuel rest).map fun (a, r) => (.not a, r)
      else if tok = "neg" then
        (parseExpr fuel rest).map fun (a, r) => (.neg a, r)
      else if tok = "and" then do
        let (a, r) ← parseExpr fuel rest
        let (b, r) ← parseExpr fuel r
        pure (.and a b, r)
      else if tok = "or" then do
        let (a, r) ← parseExpr fuel rest
        let (b, r) ← parseExpr fuel r
        pure (.or a b, r)
      else if tok = "if" then do
        let (c, r) ← parseExpr fuel rest
        let (a, r) ← parseExpr fuel r
        let (b, r) ← parseExpr fuel r
        pure (.cond c a b, r)
      else if tok = "in" then
        match rest with
        | vs :: rest => do
          let vs ← parseList parseVal vs
          let (a, r) ← parseExpr fuel rest
          pure (.inl a vs, r)
        | [] => none
      else match cmpOpOf tok, arOpOf tok with
        | some op, _ => do
          let (a, r) ← parseExpr fuel rest
          let (b, r) ← parseExpr fuel r
          pure (.cmp op a b, r)
        | _, some op => do
          let (a, r) ← parseExpr fuel rest
          let (b, r) ← parseExpr fuel r
          pure (.ar op a b, r)
        | _, _ => none

def parseAggs : Nat → List String → Option (List (Col × Agg × Col) × List String)
  | 0, r => some ([], r)
  | n + 1, c :: op :: on :: r => do
    let c ← parseNat c
    let op ← aggOf op
    let on ← parseNat on
    let (as, r) ← parseAggs n r
    pure ((c, op, on) :: as, r)
  | _, _ => none

def parseQuery : Nat → List String → Option (Query × List String)
  | 0, _ => none
  | _, [] => none
  | fuel + 1, tok :: rest =>
    let bin (mk : Query → Query → Query) : Option (Query × List String) := do
      let (a, r) ← parseQuery fuel rest
      let (b, r) ← parseQuery fuel r
      pure (mk a b, r)
    if tok = "T" then
      match rest with
      | id :: r => (parseNat id).map fun id => (.table id, r)
      | _ => none
    else if tok = "W" then do
      let (q, r) ← parseQuery fuel rest
      let (e, r) ← parseExpr (r.length + 1) r
      pure (.where_ q e, r)
    else if tok = "P" then
      match rest with
      | cs :: r => do
        let cs ← parseCols cs
        let (q, r) ← parseQuery fuel r
        pure (.project q cs, r)
      | _ => none
    else if tok = "N" then
      match rest with
      | f :: t :: r => do
        let f ← parseCols f
        let t ← parseCols t
        let (q, r) ← parseQuery fuel r
        pure (.rename q f t, r)
      | _ => none
    else if tok = "X" then
      match rest with
      | c :: r => do
        let c ← parseNat c
        let (q, r) ← parseQuery fuel r
        let (e, r) ← parseExpr (r.length + 1) r
        pure (.extend q c e, r)
      | _ => none
    else if tok = "S" then
      match rest with
      | w :: by_ :: n :: r => do
        let w ← parseBool w
        let by_ ← parseCols by_
        let n ← parseNat n
        let (as, r) ← parseAggs n r
        let (q, r) ← parseQuery fuel r
        pure (.summarize q w by_ as, r)
      | _ => none
    else if tok = "O" then
      match rest with
      | rev :: cs :: r => do
        let rev ← parseBool rev
        let cs ← parseCols cs
        let (q, r) ← parseQuery fuel r
        pure (.sort q rev cs, r)
      | _ => none
    else if tok = "J" then bin .join
    else if tok = "L" then bin .leftjoin
    else if tok = "M" then bin .times
    else if tok = "U" then bin .union
    else if tok = "I" then bin .intersect
    else if tok = "D" then bin .minus
    else none

/-- `table <id> <cols> <row>*` with rows as comma separated values -/
def parseTable (cols : String) (rows : List String) : Option Table := do
  let cs ← parseCols cols
  let rs ← allSome (rows.map fun r => (parseList parseVal r).map fun vs => cs.zip vs)
  pure { cols := cs, rows := rs }

def setTable (db : Db) (id : Nat) (t : Table) : Db :=
  if id < db.length then db.set id t
  else db ++ List.replicate (id - db.length) default ++ [t]

def insertStr (x : String) : List String → List String
  | [] => [x]
  | y :: ys => if x ≤ y then x :: y :: ys else y :: insertStr x ys

def sortStrs : List String → List String
  | [] => []
  | x :: xs => insertStr x (sortStrs xs)

def insertNat (x : Nat) : List Nat → List Nat
  | [] => [x]
  | y :: ys => if x ≤ y then x :: y :: ys else y :: insertNat x ys

def sortNats : List Nat → List Nat
  | [] => []
  | x :: xs => insertNat x (sortNats xs)

/-- a row printed over the sorted column list -/
def showRow (cs : List Col) (r : Row) : String :=
  ",".intercalate (cs.map fun c => showVal (get r c))

/-- canonical text of a result: sorted distinct columns, then the sorted multiset of rows -/
def showResult (cs : List Col) (rows : List Row) : String :=
  let cs := sortNats (dedup cs)
  let colsS := if cs.isEmpty then "-" else ",".intercalate (cs.map toString)
  colsS ++ " " ++ toString rows.length ++ " " ++ ";".intercalate (sortStrs (rows.map (showRow cs)))

/-- the rows in the order given (C23) -/
def showOrdered (cs : List Col) (rows : List Row) : String :=
  let cs := sortNats (dedup cs)
  ";".intercalate (rows.map (showRow cs))

end Gsu.QParse
