/-
SHA-1 over byte lists (FIPS 180-4), executable, core-only.  Used by the C41 driver to evaluate
`AuthUser` on the real inputs; the C41 theorems are stated for an arbitrary hash function.
-/
namespace Gsu.Sha1

def rotl (x : UInt32) (n : UInt32) : UInt32 := (x <<< n) ||| (x >>> (32 - n))

def be32 (a b c d : UInt8) : UInt32 :=
  (a.toUInt32 <<< 24) ||| (b.toUInt32 <<< 16) ||| (c.toUInt32 <<< 8) ||| d.toUInt32

def u32bytes (x : UInt32) : List UInt8 :=
  [(x >>> 24).toUInt8, (x >>> 16).toUInt8, (x >>> 8).toUInt8, x.toUInt8]

def pad (msg : List UInt8) : List UInt8 :=
  let n := msg.length
  let k := (119 - n % 64) % 64
  let bits := 8 * n
  let len8 : List UInt8 := (List.range 8).map (fun i => UInt8.ofNat (bits >>> (8 * (7 - i))))
  msg ++ (0x80 : UInt8) :: (List.replicate k (0 : UInt8) ++ len8)

def words (bs : Array UInt8) (off : Nat) : Array UInt32 := Id.run do
  let mut w : Array UInt32 := Array.replicate 80 0
  for i in [0:16] do
    w := w.set! i (be32 bs[off + 4*i]! bs[off + 4*i + 1]! bs[off + 4*i + 2]! bs[off + 4*i + 3]!)
  for i in [16:80] do
    w := w.set! i (rotl (w[i-3]! ^^^ w[i-8]! ^^^ w[i-14]! ^^^ w[i-16]!) 1)
  return w

def block (h : Array UInt32) (w : Array UInt32) : Array UInt32 := Id.run do
  let mut a := h[0]!
  let mut b := h[1]!
  let mut c := h[2]!
  let mut d := h[3]!
  let mut e := h[4]!
  for i in [0:80] do
    let (f, k) :=
      if i < 20 then ((b &&& c) ||| ((~~~ b) &&& d), (0x5A827999 : UInt32))
      else if i < 40 then (b ^^^ c ^^^ d, 0x6ED9EBA1)
      else if i < 60 then ((b &&& c) ||| (b &&& d) ||| (c &&& d), 0x8F1BBCDC)
      else (b ^^^ c ^^^ d, 0xCA62C1D6)
    let t := rotl a 5 + f + e + k + w[i]!
    e := d
    d := c
    c := rotl b 30
    b := a
    a := t
  return #[h[0]! + a, h[1]! + b, h[2]! + c, h[3]! + d, h[4]! + e]

def sha1 (msg : List UInt8) : List UInt8 := Id.run do
  let bs := (pad msg).toArray
  let mut h : Array UInt32 := #[0x67452301, 0xEFCDAB89, 0x98BADCFE, 0x10325476, 0xC3D2E1F0]
  for j in [0:bs.size / 64] do
    h := block h (words bs (64 * j))
  return h.toList.flatMap u32bytes

end Gsu.Sha1
