/-
Line protocol shared by every driver (`Drive/Cxx.lean`).

One operation per input line, fields separated by single spaces.
Byte strings are written `x<hex>` (so the empty string is `x`), integers in decimal.
The driver prints exactly one output line per input line.
Core-only: this file is linked into the `lean_exe` drivers.
-/
namespace Gsu.Proto

abbrev Bytes := List UInt8

def hexDigit (c : Char) : Option Nat :=
  if '0' ≤ c ∧ c ≤ '9' then some (c.toNat - '0'.toNat)
  else if 'a' ≤ c ∧ c ≤ 'f' then some (c.toNat - 'a'.toNat + 10)
  else none

def parseHexChars : List Char → Option Bytes
  | [] => some []
  | a :: b :: rest =>
    match hexDigit a, hexDigit b, parseHexChars rest with
    | some x, some y, some r => some (UInt8.ofNat (x * 16 + y) :: r)
    | _, _, _ => none
  | [_] => none

/-- `x<hex>` → bytes -/
def parseBytes (s : String) : Option Bytes :=
  match s.toList with
  | 'x' :: cs => parseHexChars cs
  | _ => none

def hexChar (n : Nat) : Char :=
  if n < 10 then Char.ofNat (n + 48) else Char.ofNat (n + 87)

def showBytes (bs : Bytes) : String :=
  String.ofList ('x' :: bs.flatMap fun b => [hexChar (b.toNat / 16), hexChar (b.toNat % 16)])

def parseInt (s : String) : Option Int := s.toInt?
def parseNat (s : String) : Option Nat := s.toNat?

def showBool (b : Bool) : String := if b then "t" else "f"

def showOrd : Ordering → String
  | .lt => "-1"
  | .eq => "0"
  | .gt => "1"

def parseBool (s : String) : Option Bool :=
  if s = "t" then some true else if s = "f" then some false else none

/-- sequence a list of options -/
def allSome {α} : List (Option α) → Option (List α)
  | [] => some []
  | none :: _ => none
  | some a :: r => (allSome r).map (a :: ·)

def fields (line : String) : List String :=
  (line.trimAscii.toString.splitOn " ").filter (· ≠ "")

partial def loop {σ} (inp out : IO.FS.Stream) (step : σ → List String → σ × String) (s : σ) : IO Unit := do
  let line ← inp.getLine
  if line.isEmpty then
    out.flush
    return ()
  let (s', o) := step s (fields line)
  out.putStrLn o
  loop inp out step s'

/-- stateful driver main -/
def runS {σ} (init : σ) (step : σ → List String → σ × String) : IO Unit := do
  loop (← IO.getStdin) (← IO.getStdout) step init

/-- stateless driver main -/
def run (step : List String → String) : IO Unit :=
  runS () (fun _ l => ((), step l))

end Gsu.Proto
