/-
Executable mirror of `util/hamt/hamt.go` (C15, C04): the hash array mapped trie and the
persist chain.  Core Lean only (linked into `drv_c15`).

Trie.  A Go node is `{bmVal, bmPtr, vals, ptrs}`: two 32-bit bitmaps and two arrays compressed by
popcount.  The mirror keeps the *uncompressed* view: a node is a list of slots, slot `d` holding
`(val?, child)`; `vals`/`ptrs` of the Go node are the present vals / non-nil children in slot
order (that is what popcount indexing implements).  All three constructors live in one
inductive so that recursion and induction stay structural:
  `nil`            absent child / end of a slot list
  `ovf items`      overflow node (depth 7, linear list, Go: `shift >= 32`)
  `cons v c rest`  one slot (val?, child) followed by the remaining slots
The digit of a key at level `i` is `(hash >> 5i) & 31` (`hashbit`), see `Gsu.Gen.Hamt`.
Generations / path copying are not in this model: values are immutable, so "older versions are
unaffected" holds by construction here and is tied to the Go code by the correspondence suite
(every frozen version is re-read after every operation).

Chain.  `Chain.chunks` lists the chunks of the current chain NEWEST FIRST (Go `Offs`/`Ages` are
this list reversed); a chunk carries its age (Go `Ages[i]`), the checksum stored in it and its
items in written order.  The store is append-only and chunks are immutable, so an offset is
modelled by the chunk it designates (`id` = ordinal of the write, for the correspondence).
`writeChainWith` takes the number of chunks to merge as a parameter (the code passes
`nmerge(no, clock)`, regenerated in `Gsu.Gen.Hamt`); it mirrors the code WITH fix 21
(a flatten with nothing live yields the empty chain).
-/
namespace Gsu.Hamt

structure Item where
  key : Nat
  val : Nat
  tomb : Bool
  mod : Int
deriving DecidableEq, Repr, Inhabited

inductive T where
  | nil : T
  | ovf (items : List Item) : T
  | cons (v : Option Item) (child : T) (rest : T) : T
deriving Repr, Inhabited

def T.isNil : T → Bool
  | .nil => true
  | _ => false

/-- slot `d` of a node: (val?, child); slots beyond the list are empty -/
def slotGet : T → Nat → Option Item × T
  | .cons v c _, 0 => (v, c)
  | .cons _ _ r, i+1 => slotGet r i
  | _, _ => (none, .nil)

def slotSet : T → Nat → Option Item → T → T
  | .cons _ _ r, 0, v, c => .cons v c r
  | .cons v' c' r, i+1, v, c => .cons v' c' (slotSet r i v c)
  | _, 0, v, c => .cons v c .nil
  | _, i+1, v, c => .cons none .nil (slotSet .nil i v c)

/-- Go: `bmVal == 0 && bmPtr == 0` (or an overflow node with no vals) -/
def isEmpty : T → Bool
  | .nil => true
  | .ovf l => l.isEmpty
  | .cons v c r => v.isNone && c.isNil && isEmpty r

def normalize (t : T) : T := if isEmpty t then .nil else t

def ovfItems : T → List Item
  | .ovf l => l
  | _ => []

/-- overflow node: update if found, else append -/
def ovfPut : List Item → Item → List Item
  | [], x => [x]
  | y :: r, x => if y.key == x.key then x :: r else y :: ovfPut r x

/-- overflow node: `vals[i] = vals[last]; vals = vals[:last]` -/
def ovfDel (items : List Item) (key : Nat) : Option (List Item) :=
  match items.findIdx? (·.key == key), items.getLast? with
  | some i, some last => some ((items.set i last).dropLast)
  | _, _ => none

/-- index of the last slot with a child (Go: `len(ptrs)-1`) -/
def lastChild : T → Option Nat
  | .cons _ c r =>
    match lastChild r with
    | some i => some (i+1)
    | none => if c.isNil then none else some 0
  | _ => none

/-- index of the last slot with a val (Go: `len(vals)-1`) -/
def lastVal : T → Option Nat
  | .cons v _ r =>
    match lastVal r with
    | some i => some (i+1)
    | none => if v.isSome then some 0 else none
  | _ => none

/-- `Hamt.get`: `ds` = the digits of the key's hash still to be consumed -/
def get (key : Nat) : List Nat → T → Option Item
  | [], t => (ovfItems t).find? (·.key == key)
  | d :: ds, t =>
    match slotGet t d with
    | (some it, c) => if it.key == key then some it else get key ds c
    | (none, c) => get key ds c

/-- `node.with` -/
def put (x : Item) : List Nat → T → T
  | [], t => .ovf (ovfPut (ovfItems t) x)
  | d :: ds, t =>
    match slotGet t d with
    | (none, c) => slotSet t d (some x) c
    | (some it, c) =>
      if it.key == x.key then slotSet t d (some x) c
      else slotSet t d (some it) (put x ds c)

/-- `node.pullUp`; `n` = levels below this node (0 = overflow node) -/
def pullUp : Nat → T → T × Option Item
  | 0, t =>
    match (ovfItems t).getLast? with
    | none => (.nil, none)
    | some x =>
      let r := (ovfItems t).dropLast
      (if r.isEmpty then .nil else .ovf r, some x)
  | n+1, t =>
    match lastChild t with
    | some i =>
      let (v, c) := slotGet t i
      let (c', x) := pullUp n c
      (slotSet t i v c', x)
    | none =>
      match lastVal t with
      | some i => (normalize (slotSet t i none .nil), (slotGet t i).1)
      | none => (.nil, none)

/-- `node.without`: (node or nil if emptied, found) -/
def del (key : Nat) : List Nat → T → T × Bool
  | [], t =>
    match ovfDel (ovfItems t) key with
    | some l => (if l.isEmpty then .nil else .ovf l, true)
    | none => (t, false)
  | d :: ds, t =>
    let (v, c) := slotGet t d
    let descend : T × Bool :=
      if c.isNil then (t, false)
      else
        let (c', ok) := del key ds c
        (slotSet t d v c', ok)
    match v with
    | some it =>
      if it.key == key then
        if c.isNil then (normalize (slotSet t d none .nil), true)
        else
          match pullUp ds.length c with
          | (c', some x) => (slotSet t d (some x) c', true)
          | (c', none) => (normalize (slotSet t d none c'), true)  -- unreachable on well-formed tries
      else descend
    | none => descend

def slotVals : T → List Item
  | .cons (some x) _ r => x :: slotVals r
  | .cons none _ r => slotVals r
  | _ => []

def slotChildren : T → List T
  | .cons _ c r => if c.isNil then slotChildren r else c :: slotChildren r
  | _ => []

/-- `node.forEach` order: own vals in slot order, then the children in slot order -/
def all : Nat → T → List Item
  | 0, t => ovfItems t
  | n+1, t => slotVals t ++ (slotChildren t).flatMap (all n)

/-- number of trie levels: shifts 0,5,…,30 (`for shift := 0; shift < 32; shift += 5`) -/
def nLevels : Nat := 7

def digits (h : Nat) : List Nat := (List.range nLevels).map fun i => (h / 32 ^ i) % 32

/-! ## map interface (the chain is written against it; the trie is one implementation) -/

structure MapOps (M : Type) where
  empty : M
  get : M → Nat → Option Item
  put : M → Item → M
  del : M → Nat → M
  all : M → List Item

/-- the trie under hash function `hf` -/
def trieOps (hf : Nat → Nat) : MapOps T where
  empty := .nil
  get t k := get k (digits (hf k)) t
  put t x := put x (digits (hf x.key)) t
  del t k := (del k (digits (hf k)) t).1
  all t := all nLevels t

/-! ## chain -/

structure Chunk where
  id : Nat
  age : Int
  ck : Nat
  items : List Item
deriving Repr, Inhabited

structure Chain (M : Type) where
  ht : M
  /-- newest first -/
  chunks : List Chunk
  clock : Int

def itemCk (it : Item) : Nat := (it.key * 31 + it.val) % 4294967296

/-- `Hamt.Cksum`: sum of the live items' checksums (uint32) -/
def cksumOf (items : List Item) : Nat :=
  items.foldl (fun a it => if it.tomb then a else (a + itemCk it) % 4294967296) 0

/-- `Chain.WriteChain` with `merge` chunks merged; returns (a chunk was written, new chain) -/
def writeChainWith {M} (ops : MapOps M) (c : Chain M) (merge id : Nat) : Bool × Chain M :=
  let no := c.chunks.length
  -- Go: `oldest := c.Clock; if merge > 0 { oldest = c.Ages[no-merge] }` (the oldest of the merged chunks)
  let oldest : Int :=
    match (c.chunks.take merge).getLast? with
    | some ch => ch.age
    | none => c.clock
  let flat := merge == no
  let all := ops.all c.ht
  let items := if flat then all.filter (fun it => !it.tomb)
               else all.filter (fun it => decide (oldest ≤ it.mod))
  if items.isEmpty then
    if no > 0 && flat then (false, { c with chunks := [], clock := c.clock + 1 })
    else (false, c)
  else
    (true, { c with
      chunks := { id := id, age := oldest, ck := cksumOf all, items := items } :: c.chunks.drop merge,
      clock := c.clock + 1 })

/-- first item with key `k` in a chunk -/
def findK (items : List Item) (k : Nat) : Option Item := items.find? (·.key == k)

/-- what `ReadChain` reconstructs for key `k`: the newest version on the chain -/
def lookupD : List Chunk → Nat → Option Item
  | [], _ => none
  | ch :: rest, k =>
    match findK ch.items k with
    | some it => some it
    | none => lookupD rest k

/-- the live value an entry denotes (`none` for absent or tombstone) -/
def live (o : Option Item) : Option Nat :=
  match o with
  | some it => if it.tomb then none else some it.val
  | none => none

/-- `Hamt.read` of one chunk: newest first, so older versions are ignored -/
def readChunk {M} (ops : MapOps M) (h : M) (items : List Item) (lm : Int) : M :=
  items.foldl (fun h it =>
    match ops.get h it.key with
    | some _ => h
    | none => ops.put h { it with mod := lm }) h

def readChunks {M} (ops : MapOps M) : List Chunk → Int → M → M
  | [], _, h => h
  | ch :: rest, lm, h => readChunks ops rest (lm - 1) (readChunk ops h ch.items lm)

/-- ages after a read: newest `-1`, next `-2`, … -/
def reAge : List Chunk → Int → List Chunk
  | [], _ => []
  | ch :: rest, a => { ch with age := a } :: reAge rest (a - 1)

/-- `ReadChain` of the chain whose chunks (newest first) are `chunks`; `none` = checksum mismatch -/
def readChain {M} (ops : MapOps M) (chunks : List Chunk) : Option (Chain M) :=
  match chunks with
  | [] => some { ht := ops.empty, chunks := [], clock := 0 }
  | newest :: _ =>
    let ht := readChunks ops chunks (-1) ops.empty
    if cksumOf (ops.all ht) != newest.ck then none
    else some { ht := ht, chunks := reAge chunks (-1), clock := 0 }

end Gsu.Hamt
