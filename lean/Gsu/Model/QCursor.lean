/-
M-QRY access contract (core-only): the cursor protocol every query node implements
(`Rewind`, `Get(dir)`; "plain stick at eof": once a read returns nothing every further read in
either direction returns nothing until `Rewind`), `Select` and `Lookup` over the reference rows.
Positions are indices into the rows in forward (`Next`) order.
-/
import Gsu.Model.Qry
namespace Gsu.QCursor
open Gsu.Proto Gsu.QVal Gsu.QExpr Gsu.Qry

inductive Pos where
  | rewound
  | at (i : Nat)
  | eof
  deriving DecidableEq, Repr

/-- one `Get`: `next = true` is `Next`. `n` is the number of rows. -/
def get (n : Nat) (p : Pos) (next : Bool) : Pos × Option Nat :=
  match p with
  | .eof => (.eof, none)
  | .rewound =>
    if n = 0 then (.eof, none)
    else if next then (.at 0, some 0) else (.at (n - 1), some (n - 1))
  | .at i =>
    if next then (if i + 1 < n then (.at (i + 1), some (i + 1)) else (.eof, none))
    else (if i = 0 then (.eof, none) else (.at (i - 1), some (i - 1)))

/-- a sequence of calls: `none` = Rewind, `some next` = Get -/
def run (n : Nat) : Pos → List (Option Bool) → List (Option Nat)
  | _, [] => []
  | _, none :: ops => run n .rewound ops
  | p, some d :: ops => let (p', o) := get n p d; o :: run n p' ops

/-- read in one direction until nothing is returned (at most `fuel` rows) -/
def drain (n : Nat) (next : Bool) : Nat → Pos → List Nat
  | 0, _ => []
  | fuel + 1, p =>
    match get n p next with
    | (p', some i) => i :: drain n next fuel p'
    | (_, none) => []

/-- `Select`: the rows whose values equal the selection on the selected columns -/
def matchesSel (sels : List (Col × Val)) (r : Row) : Bool := sels.all fun s => QExpr.get r s.1 == s.2

def select (rows : List Row) (sels : List (Col × Val)) : List Row := rows.filter (matchesSel sels)

/-- `Lookup`: the matching row or nothing -/
def lookup (rows : List Row) (sels : List (Col × Val)) : Option Row := rows.find? (matchesSel sels)

/-- `cs` is a key of `rows` -/
def IsKey (cs : List Col) (rows : List Row) : Prop :=
  ∀ r1, r1 ∈ rows → ∀ r2, r2 ∈ rows → eqOn cs r1 r2 = true → r1 = r2

/-- column `c` only takes values from `vs` -/
def FixedIn (c : Col) (vs : List Val) (rows : List Row) : Prop := ∀ r, r ∈ rows → QExpr.get r c ∈ vs

/-- rows are in the order of `le` -/
def Sorted (le : Row → Row → Bool) : List Row → Prop
  | [] => True
  | x :: xs => (∀ y, y ∈ xs → le x y = true) ∧ Sorted le xs

end Gsu.QCursor
