/-
M-QRY fixed (core-only): executable mirror of the `Fixed()` derivations of the query operators
(`dbms/query/*.go`, `fixed.go`), over the query **as written**.

A `Fixed` is a list of (column, the values it can take). `fixedQ db q` follows the constructors:

* table      none
* where      `source.Fixed().Combine(exprsToFixed())`; the terms of the top-level `and` that are
             `col is const` or `col in (consts)` are folded with `fixedAnd`; a conflict (an empty
             intersection) leaves no fixed. (`col <= ""` is NOT mirrored.) The terms are recognised
             as the parser leaves them: a constant expression is its value, `const is col` is
             `col is const`, `not` over a comparison is the inverse comparison (so `not (a isnt b)`,
             `not not (a is b)` are `a is b`; there is no other double negation), an `or` of `col is const` for one
             column is `col in (consts)` (`foldOrToIn`). Other
             rewrites of the parser (folding `x and false`, …) are not mirrored. A where whose expression
             reads a column the source does not have (the constructor panics) has none here.
* project    `projectFixed(src.Fixed(), cols)`; summarize `projectFixed(src.Fixed(), by)`
* rename     the columns renamed (the code renames the first entry of a column, entries have
             distinct columns)
* extend     the source's, plus `c = const`, plus `c = col` for a fixed `col`
* sort, minus  the (first) source's
* join       `Combine`; leftjoin: the left ones plus the right ones outside the join columns with `""`
* times      both
* union      in both: the union of the values; in one and not a column of the other: with `""`
* intersect  `Combine`, kept for the result columns
-/
import Gsu.Model.QCursor
namespace Gsu.QFixed
open Gsu.Proto Gsu.QVal Gsu.QExpr Gsu.Qry Gsu.QCursor

abbrev Fixed := List (Col × List Val)

/-- `checkRename`: every `from` is a column at its turn and `to` is not -/
def renOk : List Col → List Col → List Col → Bool
  | cols, f :: fs, t :: ts => cols.contains f && !cols.contains t && renOk (cols.map (ren1 f t)) fs ts
  | _, [], [] => true
  | _, _, _ => false

/-- `set.Intersect` -/
def interVals (x y : List Val) : List Val := x.filter (y.contains ·)

/-- `set.Union` -/
def unionVals (x y : List Val) : List Val := x ++ y.filter (!x.contains ·)

/-- `fixedAnd`: restrict `c` to `vs`; `none` = conflict -/
def fixedAnd : Fixed → Col → List Val → Option Fixed
  | [], c, vs => some [(c, vs)]
  | (c', vs') :: rest, c, vs =>
    if c' = c then
      (if (interVals vs' vs).isEmpty then none else some ((c', interVals vs' vs) :: rest))
    else (fixedAnd rest c vs).map ((c', vs') :: ·)

/-- the terms of the top-level conjunction -/
def conj : Expr → List Expr
  | .and a b => conj a ++ conj b
  | e => [e]

/-- a constant expression (the parser folds it): its value -/
def constOf (e : Expr) : Option Val := if e.cols.isEmpty then some (eval [] e) else none

/-- `col ? const` or `const ? col` (the parser puts the column first) -/
def colConst : Expr → Expr → Option (Col × Val)
  | .col c, b => (constOf b).map fun v => (c, v)
  | a, .col c => (constOf a).map fun v => (c, v)
  | _, _ => none

/-- the parser turns `not (a <cmp> b)` into the inverse comparison (`foldUnary`) and a one-element
`in` into `is`: `cmpFix true t` — `t` is left as `col is const`; `cmpFix false t` — as
`col isnt const` -/
def cmpFix : Bool → Expr → Option (Col × Val)
  | true, .cmp .is a b => colConst a b
  | false, .cmp .isnt a b => colConst a b
  | true, .inl (.col c) [v] => some (c, v)
  | p, .not t => cmpFix (!p) t
  | _, _ => none

/-- `col is const` as the parser leaves it -/
def isFix (t : Expr) : Option (Col × Val) := cmpFix true t

/-- `foldOrToIn`: an `or` all of whose alternatives are `col is const` for the same column is
turned into `col in (consts)` by the parser -/
def orFix : Expr → Option (Col × List Val)
  | .or a b =>
    match orFix a, orFix b with
    | some (c1, v1), some (c2, v2) => if c1 = c2 then some (c1, v1 ++ v2) else none
    | _, _ => none
  | e => (isFix e).map fun cv => (cv.1, [cv.2])

/-- the term fixes a column: `col is const` (as the parser leaves it), `col in (consts)`, or an
`or` the parser turns into an `in` -/
def termFix (t : Expr) : Option (Col × List Val) :=
  match isFix t with
  | some (c, v) => some (c, [v])
  | none =>
    match t with
    | .inl (.col c) vs => some (c, vs)
    | .or a b => orFix (.or a b)
    | _ => none

/-- `addFixed` for one term -/
def addFixed (fx : Fixed) (t : Expr) : Option Fixed :=
  match termFix t with
  | some (c, vs) => fixedAnd fx c vs
  | none => some fx

/-- `exprsToFixed` -/
def exprsToFixed : List Expr → Fixed → Option Fixed
  | [], fx => some fx
  | e :: es, fx => match addFixed fx e with
    | none => none
    | some fx' => exprsToFixed es fx'

/-- the second loop of `Combine` -/
def combine2 (f1 : Fixed) : Fixed → Option Fixed
  | [] => some []
  | (c, vs) :: rest =>
    match f1.lookup c with
    | some v1 =>
      if (interVals v1 vs).isEmpty then none
      else (combine2 f1 rest).map ((c, interVals v1 vs) :: ·)
    | none => (combine2 f1 rest).map ((c, vs) :: ·)

/-- `Fixed.Combine`; `none` = conflict -/
def combine (f1 f2 : Fixed) : Option Fixed :=
  if f1.isEmpty then some f2 else if f2.isEmpty then some f1
  else (combine2 f1 f2).map ((f1.filter fun f => (f2.lookup f.1).isNone) ++ ·)

def orNone : Option Fixed → Fixed
  | some fx => fx
  | none => []

/-- `Union.getFixed` -/
def unionFixed (f1 f2 : Fixed) (cols1 cols2 : List Col) : Fixed :=
  (f1.filterMap fun f => (f2.lookup f.1).map fun v2 => (f.1, unionVals f.2 v2)) ++
  ((f1.filter fun f => !cols2.contains f.1).map fun f => (f.1, unionVals f.2 [Val.empty])) ++
  ((f2.filter fun f => !cols1.contains f.1).map fun f => (f.1, unionVals f.2 [Val.empty]))

/-- the fixed values the operators report -/
def fixedQ (db : Db) : Query → Fixed
  | .table _ => []
  | .where_ q e =>
    if e.cols.all ((colsQ db q).contains ·) then
      match exprsToFixed (conj e) [] with
      | none => []
      | some efixed => orNone (combine (fixedQ db q) efixed)
    else []
  | .project q cs => (fixedQ db q).filter fun f => cs.contains f.1
  | .rename q f t =>
    if renOk (colsQ db q) f t then (fixedQ db q).map fun x => (renCol f t x.1, x.2) else []
  | .extend q c e =>
    if (colsQ db q).contains c then [] else
    match constOf e with
    | some v => fixedQ db q ++ [(c, [v])]
    | none =>
      match e with
      | .col c' => match (fixedQ db q).lookup c' with
        | some vs => fixedQ db q ++ [(c, vs)]
        | none => fixedQ db q
      | _ => fixedQ db q
  | .summarize q whole by_ _ =>
    if whole then [] else (fixedQ db q).filter fun f => by_.contains f.1
  | .sort q _ _ => fixedQ db q
  | .join a b => orNone (combine (fixedQ db a) (fixedQ db b))
  | .leftjoin a b =>
    if (fixedQ db b).isEmpty then fixedQ db a else
    fixedQ db a ++ ((fixedQ db b).filter fun f =>
      !(interCols (colsQ db a) (colsQ db b)).contains f.1).map fun f => (f.1, f.2 ++ [Val.empty])
  | .times a b =>
    if (interCols (colsQ db a) (colsQ db b)).isEmpty then fixedQ db a ++ fixedQ db b else []
  | .union a b => unionFixed (fixedQ db a) (fixedQ db b) (colsQ db a) (colsQ db b)
  | .intersect a b =>
    (orNone (combine (fixedQ db a) (fixedQ db b))).filter fun f =>
      (interCols (colsQ db a) (colsQ db b)).contains f.1
  | .minus a _ => fixedQ db a

end Gsu.QFixed
