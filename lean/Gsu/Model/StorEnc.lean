/-
M-ENC / stor: executable mirror of `db19/stor/putget.go` (Writer/Reader) and
`db19/stor/smalloffset.go` (core-only). `none` = the Go code panics (range guard of the
writers, index/slice out of range in the readers).
-/
import Gsu.Util.Proto
namespace Gsu.StorEnc
open Gsu.Proto

/-- `k` bytes little-endian, truncating: `byte(n), byte(n>>8), …` -/
def putN : Nat → Nat → Bytes
  | 0, _ => []
  | k + 1, n => UInt8.ofNat n :: putN k (n >>> 8)

/-- `int(buf[0]) + int(buf[1])<<8 + …` -/
def fromLE : Bytes → Nat
  | [] => 0
  | b :: r => b.toNat + (fromLE r) <<< 8

/-- `Writer.PutK(n)`: `if n < 0 || 1<<(8k) <= n { panic }` -/
def put (k : Nat) (n : Int) : Option Bytes :=
  if n < 0 ∨ (256 : Int) ^ k ≤ n then none else some (putN k n.toNat)

/-- `Reader.GetK()`: value and remaining buffer -/
def get (k : Nat) (b : Bytes) : Option (Nat × Bytes) :=
  if k ≤ b.length then some (fromLE (b.take k), b.drop k) else none

/-- `Writer.PutStr` -/
def putStr (s : Bytes) : Option Bytes := (put 2 s.length).map (· ++ s)

/-- `Reader.GetStr` -/
def getStr (b : Bytes) : Option (Bytes × Bytes) :=
  match get 2 b with
  | none => none
  | some (n, r) => if n ≤ r.length then some (r.take n, r.drop n) else none

def putStrsBody : List Bytes → Option Bytes
  | [] => some []
  | s :: ss => match putStr s, putStrsBody ss with
    | some a, some b => some (a ++ b)
    | _, _ => none

/-- `Writer.PutStrs` -/
def putStrs (ss : List Bytes) : Option Bytes :=
  match put 2 ss.length, putStrsBody ss with
  | some a, some b => some (a ++ b)
  | _, _ => none

def getStrsN : Nat → Bytes → Option (List Bytes × Bytes)
  | 0, b => some ([], b)
  | n + 1, b => match getStr b with
    | none => none
    | some (s, r) => match getStrsN n r with
      | none => none
      | some (ss, r') => some (s :: ss, r')

/-- `Reader.GetStrs` -/
def getStrs (b : Bytes) : Option (List Bytes × Bytes) :=
  match get 2 b with
  | none => none
  | some (n, r) => getStrsN n r

/-- `WriteSmallOffset` / `AppendSmallOffset` (no range guard: the value is truncated to 40 bits) -/
def writeSmallOffset (off : Nat) : Bytes := putN 5 off

/-- `ReadSmallOffset` -/
def readSmallOffset (b : Bytes) : Option Nat := (get 5 b).map (·.1)

end Gsu.StorEnc
