/-
The `created` protocol of db19/meta (meta.go PutNew / alter operations / RenameTable / Drop) on one
chain (the schema chain and the info chain each follow it with their OWN clock).  Core only.

`created k` is the Go field `created` of the entry currently stored under `k` (0 when the entry was
built by an alter copy of a read-back entry, is a tombstone, was read back by ReadChain, or there is
no entry).  `Drop` deletes an entry without writing a tombstone exactly when
`created != 0 && created == clock` ("not persisted so no need for tombstone").
`rename` mirrors RenameTable WITH fix 45 (created is not inherited when the new name has an entry,
i.e. a tombstone, in the table).
-/
import Gsu.Model.Hamt
namespace Gsu.Hamt

structure MState (M : Type) where
  c : Chain M
  created : Nat → Int

def setCr (f : Nat → Int) (k : Nat) (v : Int) : Nat → Int := fun j => if j = k then v else f j

/-- `PutNew` (create / ensure of a new table): stamped with the chain's clock; `created` only when
the table has no entry at all for the name -/
def mPutNew {M} (ops : MapOps M) (s : MState M) (k v : Nat) : MState M :=
  { c := { s.c with ht := ops.put s.c.ht ⟨k, v, false, s.c.clock⟩ },
    created := setCr s.created k (if (ops.get s.c.ht k).isNone then s.c.clock else 0) }

/-- alter operations / merge / persist apply: a modified copy of the entry, `created` kept -/
def mAlter {M} (ops : MapOps M) (s : MState M) (k v : Nat) : MState M :=
  { s with c := { s.c with ht := ops.put s.c.ht ⟨k, v, false, s.c.clock⟩ } }

/-- `RenameTable from to` (fix 45): tombstone for `from`, copy under `to` -/
def mRename {M} (ops : MapOps M) (s : MState M) (frm to v : Nat) : MState M :=
  let ht1 := ops.put s.c.ht ⟨frm, 0, true, s.c.clock⟩
  { c := { s.c with ht := ops.put ht1 ⟨to, v, false, s.c.clock⟩ },
    created := setCr (setCr s.created frm 0) to
      (if (ops.get s.c.ht to).isSome then 0 else s.created frm) }

/-- `Drop` -/
def mDrop {M} (ops : MapOps M) (s : MState M) (k : Nat) : MState M :=
  if s.created k ≠ 0 ∧ s.created k = s.c.clock then
    { c := { s.c with ht := ops.del s.c.ht k }, created := setCr s.created k 0 }
  else
    { c := { s.c with ht := ops.put s.c.ht ⟨k, 0, true, s.c.clock⟩ }, created := setCr s.created k 0 }

/-- persist: `WriteChain` -/
def mWrite {M} (ops : MapOps M) (s : MState M) (merge id : Nat) : MState M :=
  { s with c := (writeChainWith ops s.c merge id).2 }

end Gsu.Hamt
