/-
C28: model `Value` (booleans, numbers in smi/SuInt64/SuDnum representation, strings as
SuStr/SuConcat/SuExcept, dates, timestamps, objects/records as trees) with `Compare`, `Equal`,
`Hash`/`Hash2`, `Order` and object `Get`. Core Lean only.

Mirrors core/value.go:Order, the Compare/Equal/Hash methods of subool.go, suint.go, suint64.go,
sudnum.go, sustr.go, suconcat.go, suexcept.go (embedded SuStr), sudate.go, sutimestamp.go,
suobject.go (deepCompare, Hash, Hash2, getIfPresent) and deepequal.go (deepEqual).
Repaired behaviour mirrored: number hash (finding 2, fixes/02), object hash independent of the
iteration order of the named members (finding 11, fixes/11).
Not modelled: cyclic objects (`inProgress`), the nesting limit 16, default values, instances,
values of other types (`ordOther`). The hash map `named` is modelled by its contract: an
association list searched with `Equal`. The string hash (seeded maphash) is a parameter-like
opaque function `strHash` (never compared with the implementation).
-/
import Gsu.Model.NumOps
namespace Gsu.Val
open Gsu.Num Gsu.Dnum

inductive StrKind where
  | str | concat | except
deriving DecidableEq, Repr, Inhabited

mutual
inductive Value where
  | bool (b : Bool)
  | num (n : Num)
  | str (k : StrKind) (s : List UInt8)
  | date (d t : Nat)
  | ts (d t extra : Nat)
  | obj (isRec : Bool) (list : VList) (named : NList)
inductive VList where
  | nil
  | cons (v : Value) (r : VList)
inductive NList where
  | nil
  | cons (k v : Value) (r : NList)
end

instance : Inhabited Value := ⟨.bool false⟩

/-- `Order` : ordBool < ordNum < ordStr < ordDate < ordObject -/
def order : Value → Nat
  | .bool _ => 0
  | .num _ => 1
  | .str _ _ => 2
  | .date _ _ => 3
  | .ts _ _ _ => 3
  | .obj _ _ _ => 4

def cmpNat (a b : Nat) : Int := if a < b then -1 else if a > b then 1 else 0

/-- `strings.Compare` on bytes -/
def cmpBytes : List UInt8 → List UInt8 → Int
  | [], [] => 0
  | [], _ :: _ => -1
  | _ :: _, [] => 1
  | a :: x, b :: y => if a < b then -1 else if a > b then 1 else cmpBytes x y

def VList.length : VList → Nat
  | .nil => 0
  | .cons _ r => r.length + 1

def NList.length : NList → Nat
  | .nil => 0
  | .cons _ _ r => r.length + 1

/-- the (date, time, extra) triple both date kinds are compared by -/
def dateKey : Value → Nat × Nat × Nat
  | .date d t => (d, t, 0)
  | .ts d t e => (d, t, e)
  | _ => (0, 0, 0)

def cmpTriple (a b : Nat × Nat × Nat) : Int :=
  if a.1 < b.1 then -1 else if a.1 > b.1 then 1
  else if a.2.1 < b.2.1 then -1 else if a.2.1 > b.2.1 then 1
  else cmpNat a.2.2 b.2.2

mutual
/-- `Compare` (sign only: the code returns ±2 across types) -/
def compare : Value → Value → Int
  | .bool a, .bool b => if a = b then 0 else if a then 1 else -1
  | .num a, .num b => Num.compare a b
  | .str _ a, .str _ b => cmpBytes a b
  | .date d t, .date d2 t2 => cmpTriple (d, t, 0) (d2, t2, 0)
  | .date d t, .ts d2 t2 e2 => cmpTriple (d, t, 0) (d2, t2, e2)
  | .ts d t e, .date d2 t2 => cmpTriple (d, t, e) (d2, t2, 0)
  | .ts d t e, .ts d2 t2 e2 => cmpTriple (d, t, e) (d2, t2, e2)
  | .obj _ l1 _, .obj _ l2 _ => compareList l1 l2
  | a, b => cmpNat (order a) (order b)
/-- `deepCompare` on the list parts: lexicographic, a proper prefix is smaller -/
def compareList : VList → VList → Int
  | .nil, .nil => 0
  | .nil, .cons _ _ => -1
  | .cons _ _, .nil => 1
  | .cons a x, .cons b y =>
    let c := compare a b
    if c ≠ 0 then c else compareList x y
end

/-- some member (k2, v2) satisfies p -/
def NList.anyP (p : Value → Value → Bool) : NList → Bool
  | .nil => false
  | .cons k v r => p k v || r.anyP p

mutual
/-- `Equal` (for containers: `deepEqual`) -/
def equal : Value → Value → Bool
  | .bool a, .bool b => a == b
  | .num a, .num b => Num.equal a b
  | .str _ a, .str _ b => a == b
  | .date d t, .date d2 t2 => d == d2 && t == t2
  | .ts d t e, .ts d2 t2 e2 => d == d2 && t == t2 && e == e2
  | .obj _ l1 n1, .obj _ l2 n2 =>
    l1.length == l2.length && n1.length == n2.length && equalList l1 l2 && namedSub n1 n2
  | _, _ => false
def equalList : VList → VList → Bool
  | .nil, .nil => true
  | .cons a x, .cons b y => equal a b && equalList x y
  | _, _ => false
/-- every named member (k, v) of x has a member of y with an `Equal` key and an `Equal` value
(`y.NamedGet(k)` is non-nil and `deepEqual` to v; the keys of y are pairwise not `Equal`) -/
def namedSub : NList → NList → Bool
  | .nil, _ => true
  | .cons k v r, n2 => n2.anyP (fun k2 v2 => equal k k2 && equal v v2) && namedSub r n2
end

/-- stand-in for `hash.String` / `hash.Bytes` (seeded maphash in the implementation) -/
def strHash (s : List UInt8) : UInt64 :=
  s.foldl (fun h b => (h ^^^ b.toUInt64) * 1099511628211) 14695981039346656037

/-- `Hash2` : shallow for containers -/
def hash2 : Value → UInt64
  | .bool b => if b then 0x22222222 else 0x11111111
  | .num n => Num.hash n
  | .str _ s => strHash s
  | .date d t => 31 * (31 * 17 + UInt64.ofNat d) + UInt64.ofNat t
  | .ts d t _ => 31 * (31 * 17 + UInt64.ofNat d) + UInt64.ofNat t -- SuTimestamp has no Hash2 of its own: the embedded SuDate's
  | .obj _ l n => 31 * (31 * 17 + UInt64.ofNat n.length) + UInt64.ofNat l.length

/-- order independent combination of the named members (repaired) -/
def namedSum : NList → UInt64
  | .nil => 0
  | .cons k v r => (31 * hash2 k + hash2 v) + namedSum r

/-- `Hash` -/
def hash : Value → UInt64
  | .obj r l n =>
    let h := hash2 (.obj r l n)
    let h := match l with
      | .nil => h
      | .cons a .nil => 31 * h + hash2 a
      | .cons a (.cons b _) => 31 * (31 * h + hash2 a) + hash2 b
    if 0 < n.length ∧ n.length ≤ 4 then 31 * h + namedSum n else h
  | .ts d t e => 31 * (31 * (31 * 17 + UInt64.ofNat d) + UInt64.ofNat t) + UInt64.ofNat e
  | v => hash2 v

/-! ### object Get -/

def VList.get? : VList → Nat → Option Value
  | .nil, _ => none
  | .cons v _, 0 => some v
  | .cons _ r, i + 1 => r.get? i

def namedGet (key : Value) : NList → Option Value
  | .nil => none
  | .cons k v r => if equal k key then some v else namedGet key r

/-- `IfInt` of a key -/
def ifInt : Value → Option Int
  | .num n => Num.toInt n
  | _ => none

/-- `getIfPresent` -/
def get (ob key : Value) : Option Value :=
  match ob with
  | .obj _ l n =>
    match ifInt key with
    | some i => if 0 ≤ i ∧ i < l.length then l.get? i.toNat else namedGet key n
    | none => namedGet key n
  | _ => none

end Gsu.Val
