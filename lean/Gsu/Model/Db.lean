/-
M-DB, physical layer (shared by C06, C03, C16, C02) — executable mirror of

  db19/index/overlay.go   Overlay{bt, layers, mut}, Lookup, UpdateWith, Merge/WithMerged, Save/WithSaved
  db19/index/ixbuf        Insert/Update/Delete through Combine (per key)
  db19/meta/info.go       Info{Nrows,Size,BtreeNrows,BtreeSize,Deltas}, MergeUpdate/PersistUpdate Apply1/Apply2
  db19/meta/meta.go       LayeredOnto, GetRwInfo (mutable per-transaction layer)
  db19/tran.go            Output/Delete/Update on the transaction's buffers, commit, writeMax
  db19/state.go           Merge (compute outside / apply inside UpdateState), persist (same)
  db19/database.go        buildIndexes + the final UpdateState of Ensure/AlterCreate

Abstraction level: an ixbuf layer / a btree is a finite map `Key → change` resp. `Key → offset`
(`FMap`: support list + function).  The chunked k-way merge of ixbuf and the btree nodes are
refined to this level by C11 / C10 (other files); here `mergeL` is "fold Combine per key in layer
order".  `combine`/`app`/`mergeKey` are this file's own small copies (namespace Gsu.Db) of the
M-IDX definitions, as in DESIGN Appendix C.4.
A row is its offset, its length and its key on every index (the keys are computed by the Go
code, `Ixspec.Key`, and passed in the trace; their order/injectivity is C12).
`Info.rows` is the logical table (ghost: the Go struct has no such field) — the theorems say
every index agrees with it.

Core only: linked into the drivers.
-/
import Gsu.Util.Proto
import Gsu.Gen.Dbphys
namespace Gsu.Db
open Gsu.Proto

abbrev Key := Bytes
abbrev Off := Nat

/-! ## per-key changes and Combine -/

inductive Chg where
  | add (o : Off) | upd (o : Off) | del (o : Off)
  deriving DecidableEq, Repr

/-- state of one key in an index: `none` absent, `some off` present -/
abbrev KS := Option Off

/-- apply one change; outer `none` = invalid (the Go code panics / Overlay.Check fails) -/
def app : KS → Chg → Option KS
  | none,   .add o => some (some o)
  | some _, .upd o => some (some o)
  | some _, .del _ => some none
  | _, _ => none

/-- ixbuf.Combine: `some none` = entry removed (add+delete), `none` = invalid (panic) -/
def combine : Chg → Chg → Option (Option Chg)
  | .add _, .upd o => some (some (.add o))
  | .add _, .del _ => some none
  | .upd _, .upd o => some (some (.upd o))
  | .upd _, .del o => some (some (.del o))
  | .del _, .add o => some (some (.upd o))
  | _, _ => none

def appO (s : KS) : Option Chg → Option KS
  | none => some s
  | some c => app s c

def appAll (s : KS) : List Chg → Option KS
  | [] => some s
  | c :: cs => (app s c).bind (appAll · cs)

/-- merging the changes of one key, oldest first (what ixbuf.Merge does per key) -/
def mergeKey : List Chg → Option (Option Chg)
  | [] => some none
  | c :: cs => cs.foldlM (fun (acc : Option Chg) c2 => match acc with
      | none => some (some c2)
      | some c1 => combine c1 c2) (some c)

/-- what a lookup that meets change `c` first (top-down) returns, `b` = value below -/
def eff : Option Chg → KS → KS
  | none, b => b
  | some (.del _), _ => none
  | some (.add o), _ => some o
  | some (.upd o), _ => some o

/-! ## finite maps -/

structure FMap (β : Type) where
  keys : List Key
  f : Key → Option β

namespace FMap
variable {β : Type}
def empty : FMap β := ⟨[], fun _ => none⟩
instance : Inhabited (FMap β) := ⟨empty⟩
def get (m : FMap β) (k : Key) : Option β := if m.keys.contains k then m.f k else none
def set (m : FMap β) (k : Key) (v : Option β) : FMap β :=
  ⟨k :: m.keys, fun k' => if k' = k then v else m.get k'⟩
def isEmpty (m : FMap β) : Bool := m.keys.all fun k => (m.get k).isNone
end FMap

abbrev Layer := FMap Chg
abbrev Bt := FMap Off

/-- ixbuf.Insert of an entry that may carry the update/delete bit -/
def comb (cur : Option Chg) (c : Chg) : Option Chg :=
  match cur with
  | none => some c
  | some c0 => (combine c0 c).getD (some c)

def Layer.ins (l : Layer) (k : Key) (c : Chg) : Layer := l.set k (comb (l.get k) c)

/-! ## overlays -/

structure Overlay where
  bt : Bt
  layers : List Layer
instance : Inhabited Overlay := ⟨⟨FMap.empty, []⟩⟩

/-- the topmost layer that mentions `k` (Overlay.Lookup walks the layers from the last) -/
def topChg : List Layer → Key → Option Chg
  | [], _ => none
  | l :: ls, k => match topChg ls k with
    | some c => some c
    | none => l.get k

/-- Overlay.Lookup (no mut) -/
def Overlay.lookup (ov : Overlay) (k : Key) : KS := eff (topChg ov.layers k) (ov.bt.get k)

/-- the changes of key `k`, oldest layer first -/
def chgs (ls : List Layer) (k : Key) : List Chg := ls.filterMap (·.get k)

/-- the meaning of an overlay for one key: the layers applied in order to the btree value;
outer `none` = the layers are not a valid sequence for this key -/
def Overlay.sem (ov : Overlay) (k : Key) : Option KS := appAll (ov.bt.get k) (chgs ov.layers k)

/-- Mutable()/UpdateWith: the overlay with one more (transaction) layer on top -/
def Overlay.withMut (ov : Overlay) (m : Layer) : Overlay := { ov with layers := ov.layers ++ [m] }

/-- ixbuf.Merge of layers (per key: fold Combine, oldest first) -/
def mergeL (ls : List Layer) : Layer :=
  ⟨ls.flatMap (·.keys), fun k => (mergeKey (chgs ls k)).getD none⟩

/-- Overlay.Merge(nmerge) -/
def Overlay.merge (ov : Overlay) (n : Nat) : Layer := mergeL (ov.layers.take (n + 1))

/-- Overlay.WithMerged -/
def Overlay.withMerged (ov : Overlay) (m : Layer) (n : Nat) : Overlay :=
  { bt := ov.bt, layers := m :: ov.layers.drop (n + 1) }

/-- btree.MergeAndSave(layers[0]) -/
def applyBt (bt : Bt) (l : Layer) : Bt :=
  ⟨bt.keys ++ l.keys, fun k => eff (l.get k) (bt.get k)⟩

/-- Overlay.Save -/
def Overlay.save (ov : Overlay) : Bt := applyBt ov.bt (ov.layers.headD FMap.empty)

/-- Overlay.WithSaved -/
def Overlay.withSaved (ov : Overlay) (bt : Bt) : Overlay :=
  { bt := bt, layers := FMap.empty :: ov.layers.drop 1 }

/-- OverlayForN -/
def overlayForN (bt : Bt) (n : Nat) : Overlay := ⟨bt, List.replicate n FMap.empty⟩

/-! ## table info -/

structure Delta where
  nrows : Int
  size : Int
  deriving DecidableEq, Repr

structure Row where
  off : Off
  size : Nat
  keys : List Key
  deriving DecidableEq, Repr

def Row.key (r : Row) (i : Nat) : Key := r.keys.getD i []

structure Info where
  rows : List Row          -- the logical table (ghost)
  idx : List Overlay
  nrows : Int
  size : Int
  btNrows : Int
  btSize : Int
  deltas : List Delta
instance : Inhabited Info := ⟨⟨[], [], 0, 0, 0, 0, []⟩⟩

abbrev Meta := List Info

/-- the index `i` a table with these rows should have -/
def keymap (i : Nat) (rows : List Row) (k : Key) : KS :=
  (rows.find? (fun r => r.key i == k)).map (·.off)

def sumN (ds : List Delta) : Int := (ds.map (·.nrows)).sum
def sumS (ds : List Delta) : Int := (ds.map (·.size)).sum
def rowsSize (rows : List Row) : Int := (rows.map (fun r => (r.size : Int))).sum

/-- db.create / NewInfo: `n` indexes, no rows -/
def newInfo (n : Nat) : Info :=
  ⟨[], List.replicate n (overlayForN FMap.empty 1), 0, 0, 0, 0, [⟨0, 0⟩]⟩

/-- MergeUpdate.Apply1 + Apply2 (inside UpdateState, on the *latest* info) -/
def Info.applyMerge (ti : Info) (n : Nat) (res : List Layer) : Info :=
  { ti with
    deltas := ⟨sumN (ti.deltas.take (1 + n)), sumS (ti.deltas.take (1 + n))⟩ :: ti.deltas.drop (1 + n)
    idx := List.zipWith (fun ov m => ov.withMerged m n) ti.idx res }

/-- Meta.Merge(table, n) (outside UpdateState, on a snapshot) -/
def Info.mergeCompute (ti : Info) (n : Nat) : List Layer := ti.idx.map (·.merge n)

/-- Overlay.Modified: the base ixbuf has entries -/
def Overlay.modified (ov : Overlay) : Bool := !((ov.layers.headD FMap.empty).isEmpty)

/-- the test of Meta.Persist for "this table has unsaved changes": every index (the repaired code,
fixes/15b) or only `ti.Indexes[0].Modified()` -/
def Info.modifiedWith (allIdx : Bool) (ti : Info) : Bool :=
  if allIdx then ti.idx.any (·.modified) else (ti.idx.headD default).modified

def Info.modified (ti : Info) : Bool := ti.modifiedWith Gsu.Gen.Dbphys.persistChecksAllIndexes

/-- Meta.Persist for one table (outside UpdateState) -/
def Info.persistCompute (ti : Info) : List Bt := ti.idx.map (·.save)

/-- PersistUpdate.Apply1 + Apply2 -/
def Info.applyPersist (ti : Info) (res : List Bt) : Info :=
  { ti with
    btNrows := ti.btNrows + (ti.deltas.headD ⟨0, 0⟩).nrows
    btSize := ti.btSize + (ti.deltas.headD ⟨0, 0⟩).size
    deltas := ⟨0, 0⟩ :: ti.deltas.drop 1
    idx := List.zipWith (fun ov bt => ov.withSaved bt) ti.idx res }

/-- what ReadMeta rebuilds from the persisted info: btree + one empty layer, counts from the btree -/
def Info.disk (ti : Info) : Info :=
  { rows := ti.rows
    idx := ti.idx.map fun ov => overlayForN ov.bt 1
    nrows := ti.btNrows, size := ti.btSize, btNrows := ti.btNrows, btSize := ti.btSize
    deltas := [⟨0, 0⟩] }

/-! ## transactions -/

/-- the per-table part of an update transaction's mutable meta (difInfo) -/
structure TDif where
  touched : Bool
  muts : List Layer        -- one mutable ixbuf per index
  adds : List Row          -- net rows added
  dels : List Off          -- net rows of the snapshot deleted
  dn : Int
  ds : Int
instance : Inhabited TDif := ⟨⟨false, [], [], [], 0, 0⟩⟩

def TDif.start (ti : Info) : TDif := ⟨false, List.replicate ti.idx.length FMap.empty, [], [], 0, 0⟩

/-- the rows the transaction sees -/
def TDif.view (d : TDif) (srows : List Row) : List Row :=
  srows.filter (fun r => !d.dels.contains r.off) ++ d.adds

/-- the overlays the transaction reads through -/
def TDif.ovs (d : TDif) (sti : Info) : List Overlay :=
  List.zipWith (fun ov m => ov.withMut m) sti.idx d.muts

def dupAt (ovs : List Overlay) (row : Row) (skip : Nat → Bool) : Bool :=
  (List.range ovs.length).any fun i => !skip i && ((ovs.getD i default).lookup (row.key i)).isSome

/-- UpdateTran.Output on the transaction's buffers -/
def tOut (sti : Info) (d : TDif) (row : Row) : Except String TDif :=
  if (d.view sti.rows).any (·.off == row.off) then .error "!offreuse"
  else if dupAt (d.ovs sti) row (fun _ => false) then .error "!dup"
  else .ok { d with
    touched := true
    muts := d.muts.mapIdx fun i m => m.ins (row.key i) (.add row.off)
    adds := d.adds ++ [row]
    dn := d.dn + 1
    ds := d.ds + row.size }

def dropRow (d : TDif) (off : Off) : List Row × List Off :=
  if d.adds.any (·.off == off) then (d.adds.filter (·.off != off), d.dels) else (d.adds, off :: d.dels)

/-- UpdateTran.Delete -/
def tDel (sti : Info) (d : TDif) (off : Off) : Except String TDif :=
  match (d.view sti.rows).find? (·.off == off) with
  | none => .error "!norow"
  | some r =>
    let (adds, dels) := dropRow d off
    .ok { d with
      touched := true
      muts := d.muts.mapIdx fun i m => m.ins (r.key i) (.del off)
      adds := adds, dels := dels
      dn := d.dn - 1
      ds := d.ds - r.size }

/-- UpdateTran.Update (old row at `off` replaced by `row`) -/
def tUpd (sti : Info) (d : TDif) (off : Off) (row : Row) : Except String TDif :=
  match (d.view sti.rows).find? (·.off == off) with
  | none => .error "!norow"
  | some r =>
    if (d.view sti.rows).any (·.off == row.off) then .error "!offreuse"
    else if dupAt (d.ovs sti) row (fun i => r.key i == row.key i) then .error "!dup"
    else
      let (adds, dels) := dropRow d off
      .ok { d with
        touched := true
        muts := d.muts.mapIdx fun i m =>
          if r.key i == row.key i then m.ins (row.key i) (.upd row.off)
          else (m.ins (r.key i) (.del off)).ins (row.key i) (.add row.off)
        adds := adds ++ [row], dels := dels
        ds := d.ds + row.size - r.size }

/-- the writes of `d` are independent of everything committed since its snapshot `sti`
(what the conflict checker guarantees for a transaction it lets commit, C01), and its new
offsets are new (what the append-only store guarantees, C18) -/
def indep (d : TDif) (sti lti : Info) : Bool :=
  d.muts.length == lti.idx.length && sti.idx.length == lti.idx.length &&
  ((List.range d.muts.length).all fun i =>
    let m := d.muts.getD i default
    m.keys.all fun k => (m.get k).isNone ||
      (lti.idx.getD i default).lookup k == (sti.idx.getD i default).lookup k) &&
  d.adds.all fun a => !(lti.rows.any (·.off == a.off))

/-- Meta.LayeredOnto for one table -/
def lay (d : TDif) (lti : Info) : Info :=
  { rows := lti.rows.filter (fun r => !d.dels.contains r.off) ++ d.adds
    idx := List.zipWith (fun ov m => ov.withMut m) lti.idx d.muts
    nrows := lti.nrows + d.dn
    size := lti.size + d.ds
    btNrows := lti.btNrows
    btSize := lti.btSize
    deltas := lti.deltas ++ [⟨d.dn, d.ds⟩] }

/-- Meta.LayeredOnto: every touched table of the transaction onto the latest meta -/
def layeredOnto : List TDif → Meta → Meta
  | d :: ds, ti :: tis => (if d.touched then lay d ti else ti) :: layeredOnto ds tis
  | _, tis => tis

def indepAll : List TDif → Meta → Meta → Bool
  | d :: ds, s :: ss, l :: ls => (!d.touched || indep d s l) && indepAll ds ss ls
  | d :: ds, _, _ => !d.touched && indepAll ds [] []
  | [], _, _ => true

structure Tran where
  id : Nat
  snap : Meta
  dif : List TDif
  wc : Nat
  ended : Bool      -- committed or aborted
  deriving Inhabited

/-! ## database state and steps -/

inductive Pending where
  | none
  | merge (tbl n : Nat) (res : List Layer)
  | persist (res : List (Nat × List Bt))

structure Build where
  tbl : Nat
  nlayers : Nat                 -- layer count of the snapshot the build read
  empty : Bool                  -- the snapshot had no rows (buildIndexes returns nil; createIndexes' single-layer overlay stays)
  bt : Bt                       -- the new index built from the snapshot's rows
  nk : List (Off × Key)         -- key of every snapshot row on the new index

structure State where
  mt : Meta
  trans : List Tran
  pend : Pending
  build : Option Build
  excl : List Nat               -- tables under AddExclusive

def State.init : State := ⟨[], [], .none, none, []⟩

inductive Op where
  | table (nidx : Nat)
  | begin_ (id : Nat)
  | out (id tbl : Nat) (row : Row)
  | del (id tbl : Nat) (off : Off)
  | upd (id tbl : Nat) (off : Off) (row : Row)
  | abort (id : Nat)
  | commit (id : Nat)
  | mergeC (tbl n : Nat)
  | mergeA
  | persistC
  | persistA
  | buildC (tbl : Nat) (nk : List (Off × Key))
  | buildA

def State.tran? (s : State) (id : Nat) : Option Tran := s.trans.find? (·.id == id)

def State.setTran (s : State) (t : Tran) : State :=
  { s with trans := s.trans.map fun t' => if t'.id == t.id then t else t' }

def modTbl (m : Meta) (tbl : Nat) (f : Info → Info) : Meta := m.modify tbl f

/-- writeMax of tran.go (regenerated) -/
def writeMax : Nat := Gsu.Gen.Dbphys.writeMax.toNat

/-- one write of transaction `t` to table `tbl` -/
def tranWrite (s : State) (id tbl : Nat) (f : Info → TDif → Except String TDif) : State × String :=
  match s.tran? id with
  | none => (s, "!notran")
  | some t =>
    if t.ended then (s, "!ended")
    else if t.wc + 1 ≥ writeMax then
      -- UpdateTran.write: count reaches writeMax → Abort + panic
      (s.setTran { t with wc := t.wc + 1, ended := true }, "!toomany")
    else match t.snap[tbl]?, t.dif[tbl]? with
      | some sti, some d =>
        match f sti d with
        | .ok d' =>
          -- the duplicate check comes first; then the checker refuses a write to an exclusive table
          if s.excl.contains tbl then (s, "!excl")
          else (s.setTran { t with wc := t.wc + 1, dif := t.dif.set tbl d' }, "ok")
        | .error e => (s.setTran { t with wc := t.wc + 1 }, e)
      | _, _ => (s, "!notable")

def nkLookup (nk : List (Off × Key)) (off : Off) : Key := (nk.lookup off).getD []

/-- the new overlay is built with the layer count of the *latest* state (the repaired code)
iff the generated fact says so; otherwise with the count of the snapshot (finding 15) -/
def buildLayersWith (fromLatest : Bool) (b : Build) (lti : Info) : Nat :=
  if fromLatest then (lti.idx.headD default).layers.length
  else if b.empty then 1 else b.nlayers

def buildLayers (b : Build) (lti : Info) : Nat :=
  buildLayersWith Gsu.Gen.Dbphys.layersFromLatest b lti

/-- the final UpdateState of Ensure/AlterCreate for one table -/
def Info.applyBuild (ti : Info) (b : Build) (nlayers : Nat) : Info :=
  { ti with rows := ti.rows.map fun r => { r with keys := r.keys ++ [nkLookup b.nk r.off] }
            idx := ti.idx ++ [overlayForN b.bt nlayers] }

def step (s : State) : Op → State × String
  | .table n => ({ s with mt := s.mt ++ [newInfo n] }, "ok")
  | .begin_ id =>
    ({ s with trans := s.trans ++ [⟨id, s.mt, s.mt.map TDif.start, 0, false⟩] }, "ok")
  | .out id tbl row => tranWrite s id tbl fun sti d => tOut sti d row
  | .del id tbl off => tranWrite s id tbl fun sti d => tDel sti d off
  | .upd id tbl off row => tranWrite s id tbl fun sti d => tUpd sti d off row
  | .abort id =>
    match s.tran? id with
    | none => (s, "!notran")
    | some t => (s.setTran { t with ended := true }, "ok")
  | .commit id =>
    match s.tran? id with
    | none => (s, "!notran")
    | some t =>
      if t.ended then (s, "!aborted")
      else if s.excl.any (fun j => (t.dif.getD j default).touched) then
        (s.setTran { t with ended := true }, "!excl")
      else if !indepAll t.dif t.snap s.mt then (s.setTran { t with ended := true }, "!dependent")
      else ({ (s.setTran { t with ended := true }) with mt := layeredOnto t.dif s.mt }, "ok")
  | .mergeC tbl n =>
    match s.pend, s.mt[tbl]? with
    | .none, some ti =>
      if n ≥ 1 ∧ n + 1 ≤ ti.deltas.length ∧ ti.idx.all (fun ov => n + 1 ≤ ov.layers.length) then
        ({ s with pend := .merge tbl n (ti.mergeCompute n) }, "ok")
      else (s, "!bad")
    | _, _ => (s, "!bad")
  | .mergeA =>
    match s.pend with
    | .merge tbl n res =>
      ({ s with pend := .none, mt := modTbl s.mt tbl fun ti => ti.applyMerge n res }, "ok")
    | _ => (s, "!bad")
  | .persistC =>
    match s.pend with
    | .none =>
      let res := (List.range s.mt.length).filterMap fun j =>
        let ti := s.mt.getD j default
        if ti.idx.length ≥ 1 ∧ ti.modified then some (j, ti.persistCompute) else none
      ({ s with pend := .persist res }, "ok")
    | _ => (s, "!bad")
  | .persistA =>
    match s.pend with
    | .persist res =>
      ({ s with pend := .none
                mt := res.foldl (fun m (j, bts) => modTbl m j fun ti => ti.applyPersist bts) s.mt }, "ok")
    | _ => (s, "!bad")
  | .buildC tbl nk =>
    match s.build, s.mt[tbl]? with
    | none, some ti =>
      let bt : Bt := ⟨ti.rows.map (fun r => nkLookup nk r.off),
                      fun k => (ti.rows.find? (fun r => nkLookup nk r.off == k)).map (·.off)⟩
      ({ s with build := some ⟨tbl, (ti.idx.headD default).layers.length, ti.nrows == 0, bt, nk⟩
                excl := tbl :: s.excl
                -- AddExclusive aborts the active transactions that wrote to the table
                trans := s.trans.map fun t =>
                  if !t.ended && (t.dif.getD tbl default).touched then { t with ended := true } else t },
       "ok")
    | _, _ => (s, "!bad")
  | .buildA =>
    -- the final UpdateState runs in the merger goroutine (RunEndExclusive), i.e. never between
    -- the compute and the apply of a merge or persist
    match s.build, s.pend with
    | some b, .none =>
      ({ s with build := none
                excl := s.excl.erase b.tbl
                mt := modTbl s.mt b.tbl fun ti => ti.applyBuild b (buildLayers b ti) }, "ok")
    | _, _ => (s, "!bad")

def run (s : State) (ops : List Op) : State := ops.foldl (fun s o => (step s o).1) s

end Gsu.Db
