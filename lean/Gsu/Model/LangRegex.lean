/-
C37: regular expression AST for the common subset of Suneido (util/regex) and Go regexp syntax and
a backtracking matcher that *defines* the semantics: leftmost match; alternation prefers the left
branch; greedy quantifiers prefer one more iteration, lazy ones prefer to stop; a capture group
reports its last participation. `^` `$` `\A` `\Z` `.` and `(?i)` follow util/regex/match.go / cclass.go (`boundary`, opAnyNotNL):
line anchors, `\r` and `\n` are not matched by `.`.

SPEC LEVEL: the Suneido compiler and the Pike/one-pass/literal matchers (compile.go, match.go)
are not mirrored. An iteration of `*`/`+` that consumes nothing is not repeated (loop fuel is the
remaining subject length); the suite replays only patterns whose quantified bodies are not nullable.
Core Lean only.
-/
namespace Gsu.LangRegex

abbrev Bytes := List UInt8

inductive Re where
  | chr (c : UInt8)
  | any
  | cls (neg : Bool) (rs : List (UInt8 × UInt8))
  | bol
  | eol
  | bos
  | eos
  | seq (a b : Re)
  | alt (a b : Re)
  | star (r : Re) (greedy : Bool)
  | plus (r : Re) (greedy : Bool)
  | opt (r : Re) (greedy : Bool)
  | group (n : Nat) (r : Re)
  deriving Repr, Inhabited

/-- (group, start, end), most recent first -/
abbrev Caps := List (Nat × Nat × Nat)
abbrev Res := Option (Nat × Caps)
abbrev K := Nat → Caps → Res

def orElse (a : Res) (b : Unit → Res) : Res :=
  match a with
  | some r => some r
  | none => b ()

/-- iterate `body`; every iteration must consume at least one byte -/
def starLoop (body : Nat → Caps → K → Res) (greedy : Bool) : Nat → Nat → Caps → K → Res
  | 0, i, c, k => k i c
  | fuel + 1, i, c, k =>
    let more := fun (_ : Unit) =>
      body i c (fun j c' => if j > i then starLoop body greedy fuel j c' k else none)
    if greedy then orElse (more ()) (fun _ => k i c) else orElse (k i c) more

def inRanges (b : UInt8) (rs : List (UInt8 × UInt8)) : Bool := rs.any fun r => r.1 ≤ b && b ≤ r.2

def isUpper (b : UInt8) : Bool := 65 ≤ b && b ≤ 90
def isLower (b : UInt8) : Bool := 97 ≤ b && b ≤ 122
def lower (b : UInt8) : UInt8 := if isUpper b then b + 32 else b

/-- class membership; under `(?i)` a letter is in the set when either of its cases is
(cclass.ignore, applied before the negation) -/
def inCls (ic : Bool) (b : UInt8) (neg : Bool) (rs : List (UInt8 × UInt8)) : Bool :=
  (inRanges b rs ||
    (ic && ((isUpper b && inRanges (b + 32) rs) || (isLower b && inRanges (b - 32) rs)))) != neg

def atBol (s : Bytes) (i : Nat) : Bool := i == 0 || s[i - 1]? == some 10

def atEol (s : Bytes) (i : Nat) : Bool :=
  match s[i]? with
  | none => true
  | some b => b == 13 || (b == 10 && (i == 0 || s[i - 1]? != some 13))

def m (ic : Bool) (s : Bytes) : Re → Nat → Caps → K → Res
  | .chr c, i, caps, k =>
    match s[i]? with
    | some b => if b = c || (ic && lower b = lower c) then k (i + 1) caps else none
    | none => none
  | .any, i, caps, k =>
    match s[i]? with
    | some b => if b != 13 && b != 10 then k (i + 1) caps else none
    | none => none
  | .cls neg rs, i, caps, k =>
    match s[i]? with
    | some b => if inCls ic b neg rs then k (i + 1) caps else none
    | none => none
  | .bol, i, caps, k => if atBol s i then k i caps else none
  | .eol, i, caps, k => if atEol s i then k i caps else none
  | .bos, i, caps, k => if i = 0 then k i caps else none
  | .eos, i, caps, k => if i ≥ s.length then k i caps else none
  | .seq a b, i, caps, k => m ic s a i caps (fun j c => m ic s b j c k)
  | .alt a b, i, caps, k => orElse (m ic s a i caps k) (fun _ => m ic s b i caps k)
  | .star r g, i, caps, k => starLoop (fun i c k' => m ic s r i c k') g (s.length - i + 1) i caps k
  | .plus r g, i, caps, k =>
    m ic s r i caps (fun j c => starLoop (fun i c k' => m ic s r i c k') g (s.length - j + 1) j c k)
  | .opt r g, i, caps, k =>
    if g then orElse (m ic s r i caps k) (fun _ => k i caps)
    else orElse (k i caps) (fun _ => m ic s r i caps k)
  | .group n r, i, caps, k => m ic s r i caps (fun j c => k j ((n, i, j) :: c))

/-- leftmost match: first start position (of `fuel` many, from `i`) at which the pattern matches -/
def searchFrom (ic : Bool) (s : Bytes) (re : Re) : Nat → Nat → Option (Nat × Nat × Caps)
  | 0, _ => none
  | fuel + 1, i =>
    match m ic s re i [] (fun j c => some (j, c)) with
    | some (j, c) => some (i, j, c)
    | none => searchFrom ic s re fuel (i + 1)

/-- `Pattern.Match` -/
def search (ic : Bool) (s : Bytes) (re : Re) : Option (Nat × Nat × Caps) :=
  searchFrom ic s re (s.length + 1) 0

/-- `Pattern.FirstMatch(s, pos)`: the first match starting at or after `pos`; anchors still refer
to the whole subject -/
def searchAt (ic : Bool) (s : Bytes) (re : Re) (pos : Nat) : Option (Nat × Nat × Caps) :=
  searchFrom ic s re (s.length + 1 - pos) pos

/-- `Pattern.LastMatch(s, pos)`: the match starting at the largest position <= `pos` -/
def lastFrom (ic : Bool) (s : Bytes) (re : Re) : Nat → Option (Nat × Nat × Caps)
  | 0 =>
    match m ic s re 0 [] (fun j c => some (j, c)) with
    | some (j, c) => some (0, j, c)
    | none => none
  | i + 1 =>
    match m ic s re (i + 1) [] (fun j c => some (j, c)) with
    | some (j, c) => some (i + 1, j, c)
    | none => lastFrom ic s re i

/-- `Pattern.All`: successive matches; after a match (a, b) the search resumes at max b (a+1) -/
def allFrom (ic : Bool) (s : Bytes) (re : Re) : Nat → Nat → List (Nat × Nat)
  | 0, _ => []
  | fuel + 1, i =>
    if i > s.length then []
    else match searchAt ic s re i with
      | some (a, b, _) => (a, b) :: allFrom ic s re fuel (max b (a + 1))
      | none => []

def all (ic : Bool) (s : Bytes) (re : Re) : List (Nat × Nat) := allFrom ic s re (s.length + 2) 0

def capOf (c : Caps) (n : Nat) : Option (Nat × Nat) :=
  match c with
  | [] => none
  | (g, a, b) :: rest => if g = n then some (a, b) else capOf rest n

end Gsu.LangRegex
