/-
C37: regular expression AST for the common subset of Suneido (util/regex) and Go regexp syntax and
a backtracking matcher that *defines* the semantics: leftmost match; alternation prefers the left
branch; greedy quantifiers prefer one more iteration, lazy ones prefer to stop; a capture group
reports its last participation. `^` `$` `.` follow util/regex/match.go (`boundary`, opAnyNotNL):
line anchors, `\r` and `\n` are not matched by `.`.

SPEC LEVEL: the Suneido compiler and the Pike/one-pass/literal matchers (compile.go, match.go)
are not mirrored. An iteration of `*`/`+` that consumes nothing is not repeated (loop fuel is the
remaining subject length); the suite replays only patterns whose quantified bodies are not nullable.
Core Lean only.
-/
namespace Gsu.LangRegex

abbrev Bytes := List UInt8

inductive Re where
  | chr (c : UInt8)
  | any
  | cls (neg : Bool) (rs : List (UInt8 × UInt8))
  | bol
  | eol
  | seq (a b : Re)
  | alt (a b : Re)
  | star (r : Re) (greedy : Bool)
  | plus (r : Re) (greedy : Bool)
  | opt (r : Re) (greedy : Bool)
  | group (n : Nat) (r : Re)
  deriving Repr, Inhabited

/-- (group, start, end), most recent first -/
abbrev Caps := List (Nat × Nat × Nat)
abbrev Res := Option (Nat × Caps)
abbrev K := Nat → Caps → Res

def orElse (a : Res) (b : Unit → Res) : Res :=
  match a with
  | some r => some r
  | none => b ()

/-- iterate `body`; every iteration must consume at least one byte -/
def starLoop (body : Nat → Caps → K → Res) (greedy : Bool) : Nat → Nat → Caps → K → Res
  | 0, i, c, k => k i c
  | fuel + 1, i, c, k =>
    let more := fun (_ : Unit) =>
      body i c (fun j c' => if j > i then starLoop body greedy fuel j c' k else none)
    if greedy then orElse (more ()) (fun _ => k i c) else orElse (k i c) more

def inCls (b : UInt8) (neg : Bool) (rs : List (UInt8 × UInt8)) : Bool :=
  (rs.any fun r => r.1 ≤ b && b ≤ r.2) != neg

def atBol (s : Bytes) (i : Nat) : Bool := i == 0 || s[i - 1]? == some 10

def atEol (s : Bytes) (i : Nat) : Bool :=
  match s[i]? with
  | none => true
  | some b => b == 13 || (b == 10 && (i == 0 || s[i - 1]? != some 13))

def m (s : Bytes) : Re → Nat → Caps → K → Res
  | .chr c, i, caps, k => if s[i]? = some c then k (i + 1) caps else none
  | .any, i, caps, k =>
    match s[i]? with
    | some b => if b != 13 && b != 10 then k (i + 1) caps else none
    | none => none
  | .cls neg rs, i, caps, k =>
    match s[i]? with
    | some b => if inCls b neg rs then k (i + 1) caps else none
    | none => none
  | .bol, i, caps, k => if atBol s i then k i caps else none
  | .eol, i, caps, k => if atEol s i then k i caps else none
  | .seq a b, i, caps, k => m s a i caps (fun j c => m s b j c k)
  | .alt a b, i, caps, k => orElse (m s a i caps k) (fun _ => m s b i caps k)
  | .star r g, i, caps, k => starLoop (fun i c k' => m s r i c k') g (s.length - i + 1) i caps k
  | .plus r g, i, caps, k =>
    m s r i caps (fun j c => starLoop (fun i c k' => m s r i c k') g (s.length - j + 1) j c k)
  | .opt r g, i, caps, k =>
    if g then orElse (m s r i caps k) (fun _ => k i caps)
    else orElse (k i caps) (fun _ => m s r i caps k)
  | .group n r, i, caps, k => m s r i caps (fun j c => k j ((n, i, j) :: c))

/-- leftmost match: first start position (of `fuel` many, from `i`) at which the pattern matches -/
def searchFrom (s : Bytes) (re : Re) : Nat → Nat → Option (Nat × Nat × Caps)
  | 0, _ => none
  | fuel + 1, i =>
    match m s re i [] (fun j c => some (j, c)) with
    | some (j, c) => some (i, j, c)
    | none => searchFrom s re fuel (i + 1)

def search (s : Bytes) (re : Re) : Option (Nat × Nat × Caps) := searchFrom s re (s.length + 1) 0

def capOf (c : Caps) (n : Nat) : Option (Nat × Nat) :=
  match c with
  | [] => none
  | (g, a, b) :: rest => if g = n then some (a, b) else capOf rest n

end Gsu.LangRegex
