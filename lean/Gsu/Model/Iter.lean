/-
M-IDX / iteration: executable mirror of `db19/index/overiter.go` (`OverIter`: state, lastDir,
update/newIters, canFast/fastNext/fastPrev, modNext/modPrev, minIter/maxIter, Rewind, Range,
SkipScan) over per-layer cursors, plus the specification (`sem`, `specNext`, `specPrev`).
Core-only (linked into `drv_c09`).

Abstraction level (what is and is not mirrored):
* A layer (the btree, a layer ixbuf, the transaction's mutable ixbuf) is its content: a list of
  entries `(key, op, off)` strictly sorted by key. `op`/`off` are the decoded `ixbuf.Update`/
  `ixbuf.Delete` bits and the masked offset of the raw `uint64`.
* A per-layer iterator (`iface.Iter`: `ixbuf.Iterator`, `btree.Iterator`) is modelled by its
  contract on that sorted sequence: `state`, the copied current slot, `Seek/SeekAll/Next/Prev/
  Rewind` with the range checks the Go code performs. Chunk/leaf positions are not mirrored
  (key based: "first entry > cur.key"); the two agree whenever the current slot is an element of
  the layer, and OverIter re-seeks the only iterator for which it may not be (mut, `Modified()`).
  The correspondence suite compares every per-layer iterator state/key with this model.
* Skip-scan: a per-layer skip-scan iterator is modelled as a plain iterator over the layer
  filtered by visibility (`prefix ∈ prefixRng ∧ suffix ∈ suffixRng`, `ixkey.SplitPrefixSuffix`);
  `skipAdvanceToMatch` & co. are not mirrored step by step.
* Keys are byte strings ordered by Go string `<` = the built-in lexicographic `<` on `List UInt8`.
-/
import Gsu.Model.Ixkey
namespace Gsu.Iter
open Gsu.Proto

abbrev Key := List UInt8

/-- `ixkey.Max`: returned by `Key()`/`Cur()` of an eof iterator and used as "none" by `minIter` -/
def maxKey : Key := Gsu.Ixkey.maxKey

inductive Op | add | upd | del
  deriving DecidableEq, Repr, Inhabited

/-- one slot of a layer: `off` is the masked offset, `op` the Update/Delete bits -/
structure Ent where
  key : Key
  op : Op
  off : Nat
  deriving DecidableEq, Repr, Inhabited

abbrev Layer := List Ent

/-- `iface.Range`: `org ≤ key < end` -/
structure Rng where
  org : Key
  end_ : Key
  deriving DecidableEq, Repr, Inhabited

def Rng.all : Rng := ⟨[], maxKey⟩

inductive St | rewound | within | eof
  deriving DecidableEq, Repr, Inhabited

/-- a per-layer iterator: state + the copied current slot (`Key()` is `maxKey` at eof) -/
structure Cur where
  st : St
  key : Key
  op : Op
  off : Nat
  deriving DecidableEq, Repr, Inhabited

/-- `setEof`: `cur = slot{key: ixkey.Max}` -/
def eofC : Cur := ⟨.eof, maxKey, .add, 0⟩
def rewoundC : Cur := ⟨.rewound, [], .add, 0⟩
def atE (e : Ent) : Cur := ⟨.within, e.key, e.op, e.off⟩

/-- the value `minIter`/`maxIter` record for an entry: `0` for a tombstone, else the raw offset;
`result != 0` decides "found"; the returned offset has the Update bit removed.
`none` = Go's `result == 0`. (An `add` with offset 0 has raw value 0.) -/
def val (op : Op) (off : Nat) : Option Nat :=
  match op with
  | .del => none
  | .add => if off = 0 then none else some off
  | .upd => some off

/-- `ixbuf.Update` / `ixbuf.Delete` flag bits of a raw offset -/
def updBit : Nat := 2 ^ 62
def delBit : Nat := 2 ^ 63

/-- raw `uint64` offset → (op, masked offset) -/
def decodeOff (raw : Nat) : Op × Nat :=
  if raw ≥ delBit then (.del, raw - delBit)
  else if raw ≥ updBit then (.upd, raw - updBit)
  else (.add, raw)

def encodeOff (op : Op) (off : Nat) : Nat :=
  match op with
  | .add => off
  | .upd => off + updBit
  | .del => off + delBit

/-! ### specification -/

def lookupL (L : Layer) (k : Key) : Option Ent := L.find? (fun e => e.key = k)

/-- the top-most layer that mentions `k` (layers are listed bottom first: btree, layers…, mut) -/
def top : List Layer → Key → Option Ent
  | [], _ => none
  | L :: Ls, k => match top Ls k with
    | some e => some e
    | none => lookupL L k

/-- the index content: the top-most layer that mentions `k` decides -/
def sem (Ls : List Layer) (k : Key) : Option Nat :=
  match top Ls k with
  | some e => val e.op e.off
  | none => none

/-- candidate keys: every key mentioned by some layer -/
def allKeys (Ls : List Layer) : List Key := Ls.flatMap (fun L => L.map (·.key))

/-- least of a list of keys (none if empty) -/
def leastKey : List Key → Option Key
  | [] => none
  | k :: ks => match leastKey ks with
    | none => some k
    | some m => if k < m then some k else some m

def greatestKey : List Key → Option Key
  | [] => none
  | k :: ks => match greatestKey ks with
    | none => some k
    | some m => if m < k then some k else some m

/-- lower bound of a forward step: `ge org` after a rewind, `gt curKey` otherwise -/
inductive Bd | ge (k : Key) | gt (k : Key)
  deriving Repr

def Bd.ok : Bd → Key → Bool
  | .ge b, k => !(k < b)
  | .gt b, k => b < k

/-- upper bound of a backward step: `lt end` after a rewind, `lt curKey` otherwise -/
def liveIn (Ls : List Layer) (r : Rng) (k : Key) : Bool :=
  !(k < r.org) && k < r.end_ && (sem Ls k).isSome

/-- spec of `Next`: the least live key of the range satisfying the bound, with its offset -/
def specNext (Ls : List Layer) (r : Rng) (bd : Bd) : Option (Key × Nat) :=
  match leastKey ((allKeys Ls).filter (fun k => bd.ok k && liveIn Ls r k)) with
  | none => none
  | some k => (sem Ls k).map (fun o => (k, o))

/-- spec of `Prev`: the greatest live key of the range below `ub` (`none` = no bound) -/
def specPrev (Ls : List Layer) (r : Rng) (ub : Option Key) : Option (Key × Nat) :=
  match greatestKey ((allKeys Ls).filter (fun k =>
      (match ub with | none => true | some u => decide (k < u)) && liveIn Ls r k)) with
  | none => none
  | some k => (sem Ls k).map (fun o => (k, o))

/-! ### per-layer iterators (contract of `iface.Iter`) -/

def inRng (r : Rng) (k : Key) : Bool := !(k < r.org) && k < r.end_

def firstGE (L : Layer) (k : Key) : Option Ent := L.find? (fun e => !(e.key < k))
def firstGT (L : Layer) (k : Key) : Option Ent := L.find? (fun e => k < e.key)
def lastLT (L : Layer) (k : Key) : Option Ent := L.reverse.find? (fun e => e.key < k)

/-- `SeekAll`: first entry ≥ key, else the last entry, eof only when empty -/
def seekAll (L : Layer) (k : Key) : Cur :=
  match firstGE L k with
  | some e => atE e
  | none => match L.getLast? with
    | some e => atE e
    | none => eofC

/-- `Seek`: `SeekAll` then eof if outside the range -/
def curSeek (L : Layer) (r : Rng) (k : Key) : Cur :=
  let c := seekAll L k
  if inRng r c.key then c else eofC

def curNext (L : Layer) (r : Rng) (c : Cur) : Cur :=
  match c.st with
  | .eof => c
  | .rewound => curSeek L r r.org
  | .within =>
    match firstGT L c.key with
    | none => eofC
    | some e => if e.key < r.end_ then atE e else eofC

/-- step back from key `k` with both range checks (`ixbuf.Iterator.Prev`, state within) -/
def stepBack (L : Layer) (r : Rng) (k : Key) : Cur :=
  match lastLT L k with
  | none => eofC
  | some e => if inRng r e.key then atE e else eofC

def curPrev (L : Layer) (r : Rng) (c : Cur) : Cur :=
  match c.st with
  | .eof => c
  | .rewound =>
    let c1 := seekAll L r.end_
    if c1.st = .eof then c1
    else if inRng r c1.key then c1
    else stepBack L r c1.key
  | .within => stepBack L r c.key

def curRewind (c : Cur) : Cur := { c with st := .rewound }

/-! ### OverIter -/

inductive Dir | none | next | prev
  deriving DecidableEq, Repr, Inhabited

structure OI where
  /-- contents of `oi.overlay`: btree, layers…, mut (bottom first) -/
  layers : List Layer := []
  /-- `oi.iters` -/
  curs : List Cur := []
  /-- the overlay `t.GetIndexI` will return if it differs from `oi.overlay` -/
  pend : Option (List Layer) := some []
  /-- `oi.iters[last].Modified()` -/
  mod : Bool := false
  rng : Rng := Rng.all
  st : St := .rewound
  curKey : Key := []
  /-- raw offset (flag bits included, as the fast path may copy them) -/
  curOp : Op := .add
  curOff : Nat := 0
  lastDir : Dir := .none
  fastIdx : Option Nat := none
  secondMin : Key := []
  secondMax : Key := []
  /-- fuel ran out in minIter/maxIter (proved impossible) -/
  stuck : Bool := false
  deriving Repr, Inhabited

/-- zip a per-layer function over layers and cursors; `last` gets `true` for the last iterator -/
def zipL (f : Bool → Layer → Cur → Cur) : List Layer → List Cur → List Cur
  | [L], [c] => [f true L c]
  | L :: Ls, c :: cs => f false L c :: zipL f Ls cs
  | _, _ => []

/-- `update`: new iterators when the transaction's overlay is not the one we hold -/
def update (oi : OI) : OI × Bool :=
  match oi.pend with
  | none => (oi, false)
  | some Ls => ({ oi with layers := Ls, curs := Ls.map (fun _ => rewoundC), pend := none,
                          mod := false }, true)

def lastEmpty (Ls : List Layer) : Bool :=
  match Ls.getLast? with
  | some L => L.isEmpty
  | none => true

/-- `Modified()` after a `Seek` of the last iterator: `SeekAll` copies modCount unless empty -/
def modAfterSeek (oi : OI) : Bool := oi.mod && lastEmpty oi.layers

def lastRewound (cs : List Cur) : Bool :=
  match cs.getLast? with
  | some c => c.st = .rewound
  | none => false

def modNextCur (r : Rng) (ck : Key) (seek ldSame : Bool) (L : Layer) (c : Cur) : Cur :=
  if seek then
    let c1 := curSeek L r ck
    if !(ck < c1.key) then curNext L r c1 else c1
  else if !ldSame then
    curNext L r (if c.st = .eof then curRewind c else c)
  else if c.key = ck then curNext L r c else c

def modNext (oi : OI) (modified : Bool) : OI :=
  let ld := oi.lastDir = .next
  let curs := zipL (fun last L c =>
      modNextCur oi.rng oi.curKey (modified || (last && oi.mod)) ld L c) oi.layers oi.curs
  { oi with curs := curs, mod := if modified || oi.mod then modAfterSeek oi else oi.mod }

def modPrevCur (r : Rng) (ck : Key) (seek ldSame : Bool) (L : Layer) (c : Cur) : Cur :=
  if seek then
    let c1 := curSeek L r ck
    let c2 := if c1.st = .eof then curRewind c1 else c1
    if !(c2.key < ck) then curPrev L r c2 else c2
  else if !ldSame then
    curPrev L r (if c.st = .eof then curRewind c else c)
  else if c.key = ck then curPrev L r c else c

def modPrev (oi : OI) (modified : Bool) : OI :=
  let ld := oi.lastDir = .prev
  let curs := zipL (fun last L c =>
      modPrevCur oi.rng oi.curKey (modified || (last && oi.mod)) ld L c) oi.layers oi.curs
  { oi with curs := curs, mod := if modified || oi.mod then modAfterSeek oi else oi.mod }

/-- loop state of the scan in `minIter`/`maxIter` -/
structure Scan where
  km : Key
  sec : Key
  win : Option Nat
  res : Option Nat
  found : Bool      -- maxIter only
  deriving Repr

def minStep (s : Scan) (i : Nat) (c : Cur) : Scan :=
  let s1 : Scan :=
    if c.key < s.km then
      { s with sec := if s.km < s.sec then s.km else s.sec, km := c.key, win := some i }
    else if c.key = s.km then
      { s with sec := if s.km < s.sec then s.km else s.sec }
    else
      { s with sec := if c.key < s.sec then c.key else s.sec }
  if c.key = s1.km then { s1 with res := val c.op c.off } else s1

def scanFrom (step : Scan → Nat → Cur → Scan) : Scan → Nat → List Cur → Scan
  | s, _, [] => s
  | s, i, c :: cs => scanFrom step (step s i c) (i + 1) cs

def minScan (cs : List Cur) : Scan :=
  scanFrom minStep ⟨maxKey, maxKey, none, none, false⟩ 0 cs

/-- advance every iterator that sits on `k` -/
def advAt (r : Rng) (k : Key) : List Layer → List Cur → List Cur
  | L :: Ls, c :: cs => (if c.key = k then curNext L r c else c) :: advAt r k Ls cs
  | _, _ => []

structure MRes where
  found : Bool
  key : Key
  off : Nat
  fast : Option Nat
  /-- `some` when secondMin/secondMax is assigned -/
  second : Option Key
  curs : List Cur
  stuck : Bool := false

/-- `minIter` (the `for {}` loop gets fuel; `stuck` is proved unreachable) -/
def minIter (r : Rng) (Ls : List Layer) : Nat → List Cur → MRes
  | 0, cs => { found := false, key := [], off := 0, fast := none, second := none, curs := cs,
               stuck := true }
  | fuel + 1, cs =>
    let s := minScan cs
    if s.km = maxKey then
      { found := false, key := [], off := 0, fast := none, second := none, curs := cs }
    else match s.res with
      | some off =>
        { found := true, key := s.km, off := off, fast := s.win, second := some s.sec, curs := cs }
      | none => minIter r Ls fuel (advAt r s.km Ls cs)

def maxStep (s : Scan) (i : Nat) (c : Cur) : Scan :=
  if c.st = .eof then s else
  let s1 : Scan :=
    if !s.found || s.km < c.key then
      { s with sec := if s.found && s.sec < s.km then s.km else s.sec, km := c.key,
               win := some i, found := true }
    else if c.key = s.km then
      { s with sec := if s.sec < s.km then s.km else s.sec }
    else
      { s with sec := if s.sec < c.key then c.key else s.sec }
  if c.key = s1.km then { s1 with res := val c.op c.off } else s1

def maxScan (cs : List Cur) : Scan :=
  scanFrom maxStep ⟨[], [], none, none, false⟩ 0 cs

def retAt (r : Rng) (k : Key) : List Layer → List Cur → List Cur
  | L :: Ls, c :: cs =>
    (if c.st ≠ .eof ∧ c.key = k then curPrev L r c else c) :: retAt r k Ls cs
  | _, _ => []

def maxIter (r : Rng) (Ls : List Layer) : Nat → List Cur → MRes
  | 0, cs => { found := false, key := [], off := 0, fast := none, second := none, curs := cs,
               stuck := true }
  | fuel + 1, cs =>
    let s := maxScan cs
    if !s.found then
      { found := false, key := [], off := 0, fast := none, second := none, curs := cs }
    else match s.res with
      | some off =>
        { found := true, key := s.km, off := off, fast := s.win, second := some s.sec, curs := cs }
      | none => maxIter r Ls fuel (retAt r s.km Ls cs)

def totalLen (Ls : List Layer) : Nat := (Ls.map List.length).sum

def fuelOf (oi : OI) : Nat := totalLen oi.layers + 1

/-- set the i-th cursor -/
def setCur (cs : List Cur) (i : Nat) (c : Cur) : List Cur := cs.set i c

def canFast (oi : OI) (modified : Bool) (d : Dir) : Bool :=
  !modified && oi.lastDir = d && oi.fastIdx.isSome && !oi.mod

/-- the part of `Next` after the cursors are positioned: `minIter` and the bookkeeping -/
def finishNext (oi : OI) : OI :=
  let m := minIter oi.rng oi.layers (fuelOf oi) oi.curs
  let oi := { oi with curs := m.curs, fastIdx := m.fast,
                      secondMin := m.second.getD oi.secondMin, stuck := oi.stuck || m.stuck }
  if m.found then { oi with curKey := m.key, curOp := .add, curOff := m.off, lastDir := .next }
  else { oi with curKey := [], curOp := .add, curOff := 0, st := .eof, lastDir := .next }

/-- `fastNext`: `(oi', true)` when the fast path produced the answer -/
def fastNext (oi : OI) : OI × Bool :=
  match oi.fastIdx with
  | none => (oi, false)
  | some i =>
    let L := oi.layers.getD i []
    let c := curNext L oi.rng (oi.curs.getD i eofC)
    let oi := { oi with curs := setCur oi.curs i c }
    if c.st ≠ .eof ∧ c.key < oi.secondMin then
      ({ oi with curKey := c.key, curOp := c.op, curOff := c.off, lastDir := .next }, true)
    else
      (modNext { oi with fastIdx := none } false, false)

/-- `Next` in state rewound: `oi.all(iterT.Next)` then `minIter` -/
def nextRewound (oi : OI) : OI :=
  finishNext { oi with curs := zipL (fun _ L c => curNext L oi.rng c) oi.layers oi.curs,
                       st := .within, fastIdx := none,
                       mod := if oi.mod && lastRewound oi.curs then modAfterSeek oi else oi.mod }

/-- the slow path: `fastIdx = -1; modNext(modified)` then `minIter` -/
def nextSlow (oi : OI) (modified : Bool) : OI :=
  finishNext (modNext { oi with fastIdx := none } modified)

/-- `Next` after `update` -/
def nextCore (oi : OI) (modified : Bool) : OI :=
  if oi.st = .rewound then nextRewound oi
  else if canFast oi modified .next then
    let f := fastNext oi
    if f.2 then f.1 else nextSlow f.1 modified
  else nextSlow oi modified

def next (oi : OI) : OI :=
  if oi.st = .eof then oi else
  let u := update oi
  nextCore u.1 u.2

def finishPrev (oi : OI) : OI :=
  let m := maxIter oi.rng oi.layers (fuelOf oi) oi.curs
  let oi := { oi with curs := m.curs, fastIdx := m.fast,
                      secondMax := m.second.getD oi.secondMax, stuck := oi.stuck || m.stuck }
  if m.found then { oi with curKey := m.key, curOp := .add, curOff := m.off, lastDir := .prev }
  else { oi with curKey := [], curOp := .add, curOff := 0, st := .eof, lastDir := .prev }

def fastPrev (oi : OI) : OI × Bool :=
  match oi.fastIdx with
  | none => (oi, false)
  | some i =>
    let L := oi.layers.getD i []
    let c := curPrev L oi.rng (oi.curs.getD i eofC)
    let oi := { oi with curs := setCur oi.curs i c }
    if c.st ≠ .eof ∧ oi.secondMax < c.key then
      ({ oi with curKey := c.key, curOp := c.op, curOff := c.off, lastDir := .prev }, true)
    else
      (modPrev { oi with fastIdx := none } false, false)

def prevRewound (oi : OI) : OI :=
  finishPrev { oi with curs := zipL (fun _ L c => curPrev L oi.rng c) oi.layers oi.curs,
                       st := .within, fastIdx := none,
                       mod := if oi.mod && lastRewound oi.curs then modAfterSeek oi else oi.mod }

def prevSlow (oi : OI) (modified : Bool) : OI :=
  finishPrev (modPrev { oi with fastIdx := none } modified)

def prevCore (oi : OI) (modified : Bool) : OI :=
  if oi.st = .rewound then prevRewound oi
  else if canFast oi modified .prev then
    let f := fastPrev oi
    if f.2 then f.1 else prevSlow f.1 modified
  else prevSlow oi modified

def prev (oi : OI) : OI :=
  if oi.st = .eof then oi else
  let u := update oi
  prevCore u.1 u.2

/-- `Rewind` -/
def rewind (oi : OI) : OI :=
  { oi with curs := oi.curs.map curRewind, st := .rewound, curKey := [], curOp := .add,
            curOff := 0, fastIdx := none }

/-- `Range` (each `it.Range` rewinds) -/
def range (oi : OI) (r : Rng) : OI :=
  { oi with rng := r, st := .rewound, curs := oi.curs.map curRewind }

/-- the transaction's mutable layer changed in place (`ixbuf.Insert` bumps modCount) -/
def mutate (oi : OI) (L : Layer) : OI :=
  match oi.pend with
  | some Ls => { oi with pend := some (Ls.dropLast ++ [L]) }
  | none => { oi with layers := oi.layers.dropLast ++ [L], mod := true }

/-- the transaction now returns a different overlay object -/
def newOverlay (oi : OI) (Ls : List Layer) : OI := { oi with pend := some Ls }

/-- the overlay the next `update` will see -/
def curLayers (oi : OI) : List Layer := oi.pend.getD oi.layers

/-! ### the companion invariant the fast path relies on -/

/-- an entry the fast path may return as it stands: a plain add with a non-zero offset -/
def liveE (e : Ent) : Bool := e.op = .add && e.off != 0

/-- every entry that is not a plain add has an entry with the same key in a lower layer
(`overiter.go`: "any tombstone/update in this iter has a companion in another iter").
`below` = the layers already passed (the list is bottom first). Not used by the mirror itself:
it is the hypothesis of the fast-path theorems, and the driver checks it on every replayed
overlay. -/
def compFrom (below : List Layer) : List Layer → Bool
  | [] => true
  | L :: Ls =>
    L.all (fun e => liveE e || below.any (fun M => M.any (fun e' => e'.key = e.key))) &&
      compFrom (L :: below) Ls

/-! ### skip-scan -/

/-- visibility of a key in skip-scan mode -/
def visible (pr sr : Rng) (n : Nat) (k : Key) : Bool :=
  let (p, s) := Gsu.Ixkey.splitPS k n
  inRng pr p && inRng sr s

def filterL (pr sr : Rng) (n : Nat) (L : Layer) : Layer := L.filter (fun e => visible pr sr n e.key)

end Gsu.Iter
