/-
C10 — `MergeAndSave` on the abstract B+-tree: executable mirror of merge.go + the node operations
of leafnode.go / treenode.go it uses, above the byte level. Core-only.

One batch entry (`state.advanceTo` + `updateLeaf`): descend to the leaf that must hold the key
(`treeNode.search`: the child under the first separator `> key`), `state.modify` it (insert asserts
absent, update/delete assert present; `none` = the Go panic), then
* the leaf became empty → `dropLeaf`: it is deleted from its parent (`treeNode.delete`: the
  separator right of it goes too; deleting the final child makes its left neighbour final); a
  parent left without children is deleted in turn; when the deletion reaches the root: no child
  left → the empty tree, one child left → it becomes the root (repeated);
* `shouldSplit` (more than `splitCount` entries or more than `maxNodeSize` bytes) → `state.split`:
  `leafNode.splitTo` at `nkeys/2` keeping the stored prefix, separator =
  prefix + shortest distinguishing prefix of the right suffix; the parent gets the new child and
  separator (`treeNode.insert`) and, if `shouldSplit` then, is split at `nkeys/2` with the middle
  separator moving up (`treeNode.splitTo`); a split root gets a new root above it.
The stored prefix of a leaf is tracked exactly as the code maintains it (kept by in-place insert,
delete and split; recomputed through `leafBuilder` when a key that lacks it is inserted at an
edge; dropped when one key remains after a delete), because `shouldSplit` depends on the byte size.

The Go code keeps the current path (`state.tree`, `state.leaf`) between entries of the ascending
batch and writes nodes when it leaves them; here every entry descends from the root (same result:
the correspondence compares the complete shape of the real tree with this model after every batch).
NOT modelled: the "node too large" panics of `write`/`finish` (KF-C10-2), the 255 keys per node cap.
-/
import Gsu.Model.BtreeTree
namespace Gsu.Btree

/-- outcome for one node -/
inductive Res (α : Type) where
  | one (t : α)
  | two (l : α) (s : Key) (r : α)
  | gone

/-- `leafNode.prefix` -/
def Leaf.prefix (l : Leaf) : Key := (headKey l.es).take l.pre

/-- the leaf `leafBuilder` makes from scratch (`add` every key, `finish`) -/
def rebuildLeaf (es : List KV) : Leaf := (es.foldl (fun b e => b.add e.1) ({} : LB)).finish es

/-- position `leafNode.search` reports for an absent key: the number of smaller keys -/
def posOf : List KV → Key → Nat
  | [], _ => 0
  | (k', _) :: r, k => if k' < k then posOf r k + 1 else 0

/-- `state.modify` on a leaf: `leafNode.insert` / `update` / `delete` -/
def Leaf.modify (l : Leaf) (k : Key) (op : Op) (o : Nat) : Option Leaf :=
  match op with
  | .upd => (upd l.es k o).map fun es' => { l with es := es' }
  | .del => (del l.es k).map fun es' =>
      if l.es.length = 1 then { pre := 0, es := es' }
      else { pre := if l.es.length - 1 = 1 then 0 else l.pre, es := es' }
  | .add => (ins l.es k o).map fun es' =>
      let i := posOf l.es k
      if (i = 0 ∨ i = l.es.length) ∧ ¬ (l.prefix <+: k) then rebuildLeaf es'
      else { l with es := es' }

/-- `shouldSplit` for a leaf -/
def Leaf.shouldSplit (split : Nat) (l : Leaf) : Bool :=
  l.es.length > split || l.size > maxNodeSizeM

/-- `leafNode.splitTo` (`none`: fewer than two keys, the Go code indexes out of range) -/
def Leaf.split (l : Leaf) : Option (Res Leaf) :=
  let sp := l.es.length / 2
  match (l.es.take sp).getLast?, (l.es.drop sp).head? with
  | some (kp, _), some (kn, _) =>
    some (.two { l with es := l.es.take sp }
      (l.prefix ++ sepKey (kp.drop l.pre) (kn.drop l.pre)) { l with es := l.es.drop sp })
  | _, _ => none

/-- `updateLeaf` after `modify`: drop, split or keep -/
def Leaf.merge (split : Nat) (l : Leaf) (k : Key) (op : Op) (o : Nat) : Option (Res Leaf) :=
  match l.modify k op o with
  | none => none
  | some l' =>
    if l'.es.isEmpty then some .gone
    else if l'.shouldSplit split then l'.split
    else some (.one l')

/-- what happened to the row of children of a tree node -/
inductive RowRes (α : Type) where
  /-- a child was replaced -/
  | same (kids : List (α × Key)) (last : α)
  /-- a child was split: one more child and separator -/
  | grew (kids : List (α × Key)) (last : α)
  /-- a child was removed -/
  | shrunk (kids : List (α × Key)) (last : α)
  /-- the only child was removed -/
  | empty

/-- descend into the child `treeNode.search` selects and put the outcome into the row
(`treeNode.update` / `insert` / `delete`) -/
def rowMerge {α} (f : α → Option (Res α)) : List (α × Key) → α → Key → Option (RowRes α)
  | [], last, _ =>
    (f last).map fun
      | .one c => .same [] c
      | .two l s r => .grew [(l, s)] r
      | .gone => .empty
  | (c, s) :: r, last, k =>
    if k < s then
      (f c).map fun
        | .one c' => .same ((c', s) :: r) last
        | .two l s' r' => .grew ((l, s') :: (r', s) :: r) last
        | .gone => .shrunk r last
    else
      (rowMerge f r last k).map fun
        | .same ks l => .same ((c, s) :: ks) l
        | .grew ks l => .grew ((c, s) :: ks) l
        | .shrunk ks l => .shrunk ((c, s) :: ks) l
        | .empty => .shrunk [] c

/-- `treeNode.splitTo` when `shouldSplit` -/
def nodeSplit (split : Nat) {α} (ks : List (α × Key)) (l : α) : Res (List (α × Key) × α) :=
  if ks.length + 1 > split ∨ nodeSize ks > maxNodeSizeM then
    match ks.drop (ks.length / 2) with
    | (c, s) :: rest => .two (ks.take (ks.length / 2), c) s (rest, l)
    | [] => .one (ks, l)
  else .one (ks, l)

/-- the outcome for a tree node below the root -/
def nodeFinish (split : Nat) {α} : RowRes α → Res (List (α × Key) × α)
  | .same ks l => .one (ks, l)
  | .shrunk ks l => .one (ks, l)
  | .empty => .gone
  | .grew ks l => nodeSplit split ks l

/-- one batch entry on a subtree -/
def BT.merge (split : Nat) (k : Key) (op : Op) (o : Nat) : (h : Nat) → BT h → Option (Res (BT h))
  | 0, l => Leaf.merge split l k op o
  | h + 1, t => (rowMerge (BT.merge split k op o h) t.1 t.2 k).map (nodeFinish split)

def emptyTree : BTree := ⟨0, ({ pre := 0, es := [] } : Leaf)⟩

/-- "pop single child root(s)" -/
def popRoots : (h : Nat) → BT h → BTree
  | 0, l => ⟨0, l⟩
  | h + 1, t =>
    match t.1 with
    | [] => popRoots h t.2
    | _ :: _ => ⟨h + 1, t⟩

def wrapRoot {h : Nat} : Res (BT h) → BTree
  | .one t => ⟨h, t⟩
  | .two l s r => ⟨h + 1, ([(l, s)], r)⟩
  | .gone => emptyTree

/-- one batch entry on the tree -/
def BTree.mergeOne (split : Nat) (t : BTree) (k : Key) (op : Op) (o : Nat) : Option BTree :=
  match t with
  | ⟨0, l⟩ => (BT.merge split k op o 0 l).map wrapRoot
  | ⟨h + 1, n⟩ =>
    (rowMerge (BT.merge split k op o h) n.1 n.2 k).map fun
      | .empty => emptyTree
      | .shrunk ks l => popRoots (h + 1) (ks, l)
      | r => wrapRoot (h := h + 1) (nodeFinish split r)

/-- `MergeAndSave` -/
def BTree.mergeBatch (split : Nat) : BTree → List (Key × Op × Nat) → Option BTree
  | t, [] => some t
  | t, (k, op, o) :: b =>
    match t.mergeOne split k op o with
    | some t' => BTree.mergeBatch split t' b
    | none => none

end Gsu.Btree
