/-
C10 — the prefix-compressed leaf node layout: executable mirror of `leafnode.go`. Core-only.

    1 byte count | 1 byte prefix length | count × (2 byte field position, 5 byte offset) |
    2 byte end position (= node size) | prefix | field data (the keys without the prefix)

positions and offsets most significant byte first. `encodeLeaf` mirrors `leafBuilder.finishInto`
(the in-place `insert` / `delete` / `splitTo` of leafnode.go produce the same layout for the
leaf they stand for: the correspondence re-encodes real nodes taken from merged trees and compares
the bytes); `decodeLeaf` mirrors the accessors `nkeys`, `prefix`, `key(i)` (= prefix ++ the slice
between consecutive field positions), `offset(i)`.
-/
import Gsu.Model.BtreeTree
namespace Gsu.Btree

/-- `byte(x>>8), byte(x)` -/
def be16 (x : Nat) : List UInt8 := [UInt8.ofNat (x / 256), UInt8.ofNat x]

/-- `byte(off>>32) … byte(off)` -/
def be40 (x : Nat) : List UInt8 :=
  [UInt8.ofNat (x / 4294967296), UInt8.ofNat (x / 16777216), UInt8.ofNat (x / 65536),
   UInt8.ofNat (x / 256), UInt8.ofNat x]

/-- the entry array followed by the end position: every entry records where its field starts,
`fp` = position of the next field -/
def encTail (pre : Nat) : Nat → List KV → List UInt8
  | fp, [] => be16 fp
  | fp, (k, o) :: r => be16 fp ++ be40 o ++ encTail pre (fp + (k.length - pre)) r

/-- `leafBuilder.finishInto` -/
def encodeLeaf (l : Leaf) : List UInt8 :=
  let n := l.es.length
  [UInt8.ofNat n, UInt8.ofNat l.pre] ++ encTail l.pre (4 + 7 * n + l.pre) l.es ++
    (headKey l.es).take l.pre ++ l.es.flatMap (fun e => e.1.drop l.pre)

def rd16 (bs : List UInt8) (p : Nat) : Nat := (bs.getD p 0).toNat * 256 + (bs.getD (p + 1) 0).toNat

def rd40 (bs : List UInt8) (p : Nat) : Nat :=
  (bs.getD p 0).toNat * 4294967296 + (bs.getD (p + 1) 0).toNat * 16777216 +
    (bs.getD (p + 2) 0).toNat * 65536 + (bs.getD (p + 3) 0).toNat * 256 + (bs.getD (p + 4) 0).toNat

/-- `nd[a:b]` -/
def slice (bs : List UInt8) (a b : Nat) : List UInt8 := (bs.drop a).take (b - a)

/-- `key(i)`, `offset(i)` for `i, i+1, …` (`c` entries) -/
def decEntries (bs pfx : List UInt8) : Nat → Nat → List KV
  | 0, _ => []
  | c + 1, i =>
    (pfx ++ slice bs (rd16 bs (2 + 7 * i)) (rd16 bs (2 + 7 * (i + 1))), rd40 bs (2 + 7 * i + 2)) ::
      decEntries bs pfx c (i + 1)

def decodeLeaf (bs : List UInt8) : Leaf :=
  let n := (bs.getD 0 0).toNat
  let pre := (bs.getD 1 0).toNat
  { pre := pre, es := decEntries bs (slice bs (4 + 7 * n) (4 + 7 * n + pre)) n 0 }

/-- `leafNode.size` -/
def leafNodeSize (bs : List UInt8) : Nat := rd16 bs (2 + 7 * (bs.getD 0 0).toNat)

end Gsu.Btree
