/-
M-ENC / Record: executable mirror of `core/record.go` (core-only).

A record is a byte string: 2 byte header (mode in the top two bits, field count in the low 14),
then `count+1` big-endian offsets of 1, 2 or 4 bytes (the first is the total length), then the
field contents, last field first. `RecordBuilder.Build` (with `AddRaw`) is `build`; the readers
`Count`, `Len`, `GetRaw`, `Truncate` return `none` where the Go code panics (index out of
range, "invalid record type", slice bounds).
-/
import Gsu.Util.Proto
namespace Gsu.RecEnc
open Gsu.Proto

def hdrlen : Nat := 2
def maxValues : Nat := 0x3fff
def maxRecordLen : Nat := 1000000

def total (fs : List Bytes) : Nat := (fs.map List.length).sum

/-- `tblength` -/
def tblength (nfields datasize : Nat) : Nat :=
  if nfields = 0 then 1
  else if hdrlen + (1 + nfields) + datasize < 0x100 then hdrlen + (1 + nfields) + datasize
  else if hdrlen + 2 * (1 + nfields) + datasize < 0x10000 then hdrlen + 2 * (1 + nfields) + datasize
  else hdrlen + 4 * (1 + nfields) + datasize

/-- `mode(length)`: 1 = type8, 2 = type16, 3 = type32 -/
def mode (length : Nat) : Nat :=
  if length = 0 then 0 else if length < 0x100 then 1 else if length < 0x10000 then 2 else 3

/-- bytes per offset for a mode (`Put1` / `Uint16` / `Uint32`) -/
def width (m : Nat) : Nat := if m = 1 then 1 else if m = 2 then 2 else 4

/-- big-endian, `w` bytes, truncating like `byte(x)`, `uint16(x)`, `uint32(x)` -/
def be : Nat → Nat → Bytes
  | 0, _ => []
  | w + 1, x => be w (x / 256) ++ [UInt8.ofNat x]

def fromBE (bs : Bytes) : Nat := bs.foldl (fun acc b => acc * 256 + b.toNat) 0

/-- the offset table written by `buildOffsets`: `length, length - s0, length - s0 - s1, …` -/
def offsets (len : Nat) : List Bytes → List Nat
  | [] => [len]
  | f :: fs => len :: offsets (len - f.length) fs

/-- `build` for a non-empty field list within the limits -/
def buildRaw (fs : List Bytes) : Bytes :=
  let len := tblength fs.length (total fs)
  let m := mode len
  be 2 (m <<< 14 ||| fs.length) ++ (offsets len fs).flatMap (be (width m)) ++ fs.reverse.flatten

inductive BuildRes where
  | ok (r : Bytes)
  | tooMany      -- panic("too many values for record")
  | tooLarge     -- panic("record too large")
  deriving DecidableEq, Repr

/-- `RecordBuilder.Build` after `AddRaw` of every field -/
def build (fs : List Bytes) : BuildRes :=
  if fs.length > maxValues then .tooMany
  else if fs.length = 0 then .ok [0]
  else if tblength fs.length (total fs) > maxRecordLen then .tooLarge
  else .ok (buildRaw fs)

/-- read `w` bytes big-endian at `j`; `none` = index out of range -/
def rd (w : Nat) (r : Bytes) (j : Nat) : Option Nat :=
  if j + w ≤ r.length then some (fromBE ((r.drop j).take w)) else none

/-- `Record.Count`; `x % 16384` is `x & sizeMask` -/
def count : Bytes → Option Nat
  | [] => some 0
  | b0 :: rest =>
    if b0 = 0 then some 0
    else match rest with
      | [] => none
      | b1 :: _ => some ((b0.toNat * 256 + b1.toNat) % 16384)

/-- `Record.GetRaw(i)` for `i ≥ 0` -/
def getRaw (r : Bytes) (i : Nat) : Option Bytes :=
  match count r with
  | none => none
  | some n =>
    if n ≤ i then some []
    else match r with
      | [] => none
      | b0 :: _ =>
        let m := b0.toNat / 64
        if m = 0 then none   -- panic("invalid record type")
        else
          let w := width m
          let j := hdrlen + w * i
          match rd w r j, rd w r (j + w) with
          | some e, some p => if p ≤ e ∧ e ≤ r.length then some ((r.drop p).take (e - p)) else none
          | _, _ => none

/-- `Record.Len` -/
def recLen : Bytes → Option Nat
  | [] => none
  | b0 :: rest =>
    if b0 = 0 then some 1
    else
      let m := b0.toNat / 64
      if m = 0 then none else rd (width m) (b0 :: rest) hdrlen

/-- `RecordBuilder.Trim`: drop trailing empty fields -/
def trimEmpty : List Bytes → List Bytes
  | [] => []
  | f :: fs => match trimEmpty fs with
    | [] => if f = [] then [] else [f]
    | t => f :: t

/-- the first `n` fields read with `getRaw` -/
def firstFields (r : Bytes) : Nat → Option (List Bytes)
  | 0 => some []
  | n + 1 => match firstFields r n, getRaw r n with
    | some l, some f => some (l ++ [f])
    | _, _ => none

/-- `Record.Truncate(n)` -/
def truncate (r : Bytes) (n : Nat) : Option BuildRes :=
  match count r with
  | none => none
  | some rn =>
    if rn ≤ n then some (.ok r)
    else (firstFields r n).map fun fs => build (trimEmpty fs)

/-- checksum used by the correspondence for very large outputs -/
def cksum (bs : Bytes) : Nat := bs.foldl (fun h b => (h * 31 + b.toNat) % 4294967296) 7

/-- test pattern: field `i` of size `sz` has bytes `(i + pos) % 256` -/
def patField (i sz : Nat) : Bytes := (List.range sz).map fun p => UInt8.ofNat (i + p)

def patFields (cnt sz : Nat) : List Bytes := (List.range cnt).map fun i => patField i sz

end Gsu.RecEnc
