/-
Line-protocol front end of the M-DB physical model (shared by the C06/C03/C16/C02 drivers).
State-changing lines are parsed to `Gsu.Db.Op` and executed by `Gsu.Db.step` (the function the
theorems are about); observation lines (`scan`, `look`, `info`, `dscan`, `dinfo`) read the state.
Core only.
-/
import Gsu.Model.Db
namespace Gsu.Db
open Gsu.Proto

def bytesLe : Bytes → Bytes → Bool
  | [], _ => true
  | _ :: _, [] => false
  | a :: as, b :: bs => if a < b then true else if b < a then false else bytesLe as bs

def dedupAdj : List Bytes → List Bytes
  | a :: b :: r => if a == b then dedupAdj (b :: r) else a :: dedupAdj (b :: r)
  | l => l

/-- the live entries of an overlay in key order (what a full scan returns) -/
def Overlay.entries (ov : Overlay) : List (Key × Off) :=
  let ks := dedupAdj ((ov.bt.keys ++ ov.layers.flatMap (·.keys)).mergeSort bytesLe)
  ks.filterMap fun k => (ov.lookup k).map fun o => (k, o)

def showEntries (es : List (Key × Off)) : String :=
  if es.isEmpty then "-" else " ".intercalate (es.map fun (k, o) => showBytes k ++ ":" ++ toString o)

def parseKeys (l : List String) : Option (List Key) := allSome (l.map parseBytes)

def parsePairs : List String → Option (List (Off × Key))
  | [] => some []
  | o :: k :: r => match parseNat o, parseBytes k, parsePairs r with
    | some o, some k, some r => some ((o, k) :: r)
    | _, _, _ => none
  | _ => none

def parseOp : List String → Option Op
  | ["table", n] => (parseNat n).map .table
  | ["begin", id] => (parseNat id).map .begin_
  | "out" :: id :: tbl :: off :: size :: ks =>
    match parseNat id, parseNat tbl, parseNat off, parseNat size, parseKeys ks with
    | some id, some tbl, some off, some size, some ks => some (.out id tbl ⟨off, size, ks⟩)
    | _, _, _, _, _ => none
  | ["del", id, tbl, off] =>
    match parseNat id, parseNat tbl, parseNat off with
    | some id, some tbl, some off => some (.del id tbl off)
    | _, _, _ => none
  | "upd" :: id :: tbl :: old :: off :: size :: ks =>
    match parseNat id, parseNat tbl, parseNat old, parseNat off, parseNat size, parseKeys ks with
    | some id, some tbl, some old, some off, some size, some ks => some (.upd id tbl old ⟨off, size, ks⟩)
    | _, _, _, _, _, _ => none
  | ["abort", id] => (parseNat id).map .abort
  | ["commit", id] => (parseNat id).map .commit
  | ["mergec", tbl, n] =>
    match parseNat tbl, parseNat n with
    | some tbl, some n => some (.mergeC tbl n)
    | _, _ => none
  | ["mergea"] => some .mergeA
  | ["persistc"] => some .persistC
  | ["persista"] => some .persistA
  | "buildc" :: tbl :: ps =>
    match parseNat tbl, parsePairs ps with
    | some tbl, some ps => some (.buildC tbl ps)
    | _, _ => none
  | ["builda"] => some .buildA
  | _ => none

/-- the info and the overlays transaction `who` (or the latest state for "-") reads table `tbl` through -/
def viewOf (s : State) (who : String) (tbl : Nat) : Option (Info × List Overlay) :=
  if who = "-" then (s.mt[tbl]?).map fun ti => (ti, ti.idx)
  else match parseNat who with
    | none => none
    | some id => match s.tran? id with
      | none => none
      | some t => match t.snap[tbl]?, t.dif[tbl]? with
        | some sti, some d =>
          some ({ sti with nrows := sti.nrows + d.dn, size := sti.size + d.ds }, d.ovs sti)
        | _, _ => none

def showDeltas (ds : List Delta) : String :=
  ",".intercalate (ds.map fun d => toString d.nrows ++ ":" ++ toString d.size)

def observe (s : State) : List String → String
  | ["scan", who, tbl, i, dir] =>
    match parseNat tbl, parseNat i with
    | some tbl, some i => match viewOf s who tbl with
      | some (_, ovs) => match ovs[i]? with
        | some ov => showEntries (if dir = "b" then ov.entries.reverse else ov.entries)
        | none => "!noindex"
      | none => "!noview"
    | _, _ => "bad-op"
  | ["next", who, tbl, i, last] =>
    -- the entry an iterator positioned after key `last` ("-" = before the first) yields next
    match parseNat tbl, parseNat i with
    | some tbl, some i => match viewOf s who tbl with
      | some (_, ovs) => match ovs[i]? with
        | some ov =>
          let es := if last = "-" then ov.entries
            else match parseBytes last with
              | some lk => ov.entries.filter fun e => !(bytesLe e.1 lk)
              | none => []
          match es.head? with
          | some (k, o) => showBytes k ++ ":" ++ toString o
          | none => "-"
        | none => "!noindex"
      | none => "!noview"
    | _, _ => "bad-op"
  | ["look", who, tbl, i, k] =>
    match parseNat tbl, parseNat i, parseBytes k with
    | some tbl, some i, some k => match viewOf s who tbl with
      | some (_, ovs) => match ovs[i]? with
        | some ov => match ov.lookup k with
          | some o => toString o
          | none => "-"
        | none => "!noindex"
      | none => "!noview"
    | _, _, _ => "bad-op"
  | ["info", who, tbl] =>
    match parseNat tbl with
    | some tbl => match viewOf s who tbl with
      | some (ti, ovs) =>
        if who = "-" then
          s!"{ti.nrows} {ti.size} {ti.btNrows} {ti.btSize} {",".intercalate (ovs.map fun ov => toString ov.layers.length)} {showDeltas ti.deltas}"
        else s!"{ti.nrows} {ti.size}"
      | none => "!noview"
    | none => "bad-op"
  | ["dscan", tbl, i] =>
    match parseNat tbl, parseNat i with
    | some tbl, some i => match s.mt[tbl]? with
      | some ti => match ti.disk.idx[i]? with
        | some ov => showEntries ov.entries
        | none => "!noindex"
      | none => "!noview"
    | _, _ => "bad-op"
  | ["dinfo", tbl] =>
    match parseNat tbl with
    | some tbl => match s.mt[tbl]? with
      | some ti => s!"{ti.disk.nrows} {ti.disk.size}"
      | none => "!noview"
    | none => "bad-op"
  | _ => "bad-op"

def driveStep (s : State) (l : List String) : State × String :=
  match l with
  | ["reset"] => (State.init, "ok")
  | _ => match parseOp l with
    | some op => step s op
    | none => (s, observe s l)

end Gsu.Db
