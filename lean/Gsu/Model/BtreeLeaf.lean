/-
C10 — the bulk `Builder`'s leaf packing with BYTE SIZES: executable mirror of
`leafBuilder.tryAdd/add/size/reset` and `Builder.addLeaf` (`db19/index/btree/leafnode.go`,
`builder.go`). Core-only.

A leaf under construction is `(n, fieldsLen, prefix)`; `tryAdd` refuses a key when the leaf already
holds `splitCount` keys, or — only when `fieldsLen > fieldsLimit` — when the size estimate with the
common prefix INCLUDING the new key exceeds `maxNodeSize`. The finished node has
`size = 4 + 7n + prelen + fieldsLen - n*prelen` bytes, `prelen = min 255 |prefix|`.
`fieldsLimit` is computed once at package init from the DEFAULT `splitCount` (tests that call
`SetSplit` do not change it), hence it is a constant here while `split` is a parameter.
-/
import Gsu.Model.Btree
namespace Gsu.Btree

/-- `str.CommonPrefix` -/
def commonPrefix : Key → Key → Key
  | a :: as, b :: bs => if a = b then a :: commonPrefix as bs else []
  | _, _ => []

/-- byte size of a finished leaf (`leafBuilder.size`) -/
def leafSize (n prelen fieldsLen : Nat) : Nat := 4 + 7 * n + prelen + fieldsLen - n * prelen

def maxNodeSizeM : Nat := 8192
/-- `var fieldsLimit = maxNodeSize - splitCount*7 - 4` evaluated with the default `splitCount = 100`
(REPAIRED code, fixes/10-builder-fieldslimit-header.patch: the unrepaired initialiser forgets the
4 header bytes, so 100 keys without common prefix and 7489..7492 key bytes give a leaf of
8193..8196 bytes; see `Props.C10.builder_fieldsLimit_counter`) -/
def fieldsLimitM : Nat := 8192 - 100 * 7 - 4

structure LB where
  n : Nat := 0
  fieldsLen : Nat := 0
  pre : Key := []
  deriving Repr, DecidableEq

def LB.size (b : LB) : Nat := leafSize b.n (min 255 b.pre.length) b.fieldsLen

/-- the prefix after adding `key` (first key: the key itself) -/
def LB.newPre (b : LB) (key : Key) : Key := if b.n = 0 then key else commonPrefix b.pre key

/-- `leafBuilder.add` (unconditional) -/
def LB.add (b : LB) (key : Key) : LB :=
  { n := b.n + 1, fieldsLen := b.fieldsLen + key.length, pre := b.newPre key }

/-- `leafBuilder.tryAdd`: `none` = refused. Note the estimate uses `CommonPrefix(b.prefix, key)`
also for the first key of an empty builder, where `b.prefix = ""`. -/
def LB.tryAdd (split : Nat) (b : LB) (key : Key) : Option LB :=
  let n := b.n + 1
  if n > split then none
  else
    let fl := b.fieldsLen + key.length
    if fl > fieldsLimitM ∧ leafSize n (min 255 (commonPrefix b.pre key).length) fl > maxNodeSizeM
    then none
    else some (b.add key)

/-- `Builder.addLeaf` over the whole input: the finished leaves as (key count, byte size) -/
def packLeaves (split : Nat) : List Key → LB → List (Nat × Nat)
  | [], b => [(b.n, b.size)]
  | k :: ks, b =>
    match b.tryAdd split k with
    | some b' => packLeaves split ks b'
    | none => (b.n, b.size) :: packLeaves split ks (({} : LB).add k)

def leaves (split : Nat) (keys : List Key) : List (Nat × Nat) := packLeaves split keys {}

end Gsu.Btree
