/-
C20 / dump, load, compact: executable model (core-only) of `db19/tools/dump.go`, `load.go`,
`compact.go` at two levels.

* byte level: the record framing of a table section — `writeInt` (4 bytes big endian),
  each record as length + bytes, a zero length as end marker (`dumpTable2`), and the reader
  `readRecords`;
* field level: `squeeze` (drop the fields of deleted columns `"-"`, then `Trim` trailing empty
  fields), `hasTrailingEmpty`, the row copy of `compactTable`;
* token level: a logical database (tables with physical columns incl. `"-"`, indexes by column
  names, rows as lists of raw fields; views) dumped to a stream of tokens (schema text is the
  token `Tok.table`, not parsed) and loaded back with the duplicate check of `buildIndexes`.

Records are lists of raw field values (`Record.GetRaw i`, `""` beyond the last field); the binary
record layout is C14's and is opaque here (a record is its byte string at the byte level).
-/
import Gsu.Util.Proto
namespace Gsu.Dump
open Gsu.Proto

/-! ### byte level: framing -/

/-- `writeInt` -/
def be32 (n : Nat) : Bytes :=
  [UInt8.ofNat (n / 16777216 % 256), UInt8.ofNat (n / 65536 % 256), UInt8.ofNat (n / 256 % 256),
   UInt8.ofNat (n % 256)]

/-- `binary.BigEndian.Uint32` of the next 4 bytes -/
def rd32 : Bytes → Option (Nat × Bytes)
  | a :: b :: c :: d :: rest =>
    some (a.toNat * 16777216 + b.toNat * 65536 + c.toNat * 256 + d.toNat, rest)
  | _ => none

/-- the records of one table section followed by the end marker -/
def writeRecs : List Bytes → Bytes
  | [] => be32 0
  | r :: rs => be32 r.length ++ r ++ writeRecs rs

/-- `readRecords`: `none` = `ck(err)` panics (short read) -/
def readRecs : Nat → Bytes → Option (List Bytes × Bytes)
  | 0, _ => none
  | fuel + 1, inp =>
    match rd32 inp with
    | none => if inp = [] then some ([], []) else none     -- io.EOF: break / unexpected EOF
    | some (n, rest) =>
      if n = 0 then some ([], rest)                         -- end of table records
      else if rest.length < n then none
      else match readRecs fuel (rest.drop n) with
        | none => none
        | some (rs, tl) => some (rest.take n :: rs, tl)

def readRecords (inp : Bytes) : Option (List Bytes × Bytes) := readRecs (inp.length + 1) inp

/-! ### field level: squeeze -/

abbrev Row := List Bytes

/-- `Record.GetRaw(i)` -/
def getRaw (rec : Row) (i : Nat) : Bytes := rec.getD i []

/-- `RecordBuilder.Trim` -/
def trim : Row → Row
  | [] => []
  | v :: vs =>
    match trim vs with
    | [] => if v = [] then [] else [v]
    | t => v :: t

/-- the loop of `squeeze`: `for i, col := range cols { if col != "-" { rb.AddRaw(rec.GetRaw(i)) } }` -/
def squeezeFrom (rec : Row) : List String → Nat → Row
  | [], _ => []
  | c :: cs, i => if c = "-" then squeezeFrom rec cs (i + 1) else getRaw rec i :: squeezeFrom rec cs (i + 1)

/-- `squeeze(rec, cols)` -/
def squeeze (rec : Row) (cols : List String) : Row := trim (squeezeFrom rec cols 0)

def hasDeleted (cols : List String) : Bool := cols.contains "-"

/-- `hasTrailingEmpty` -/
def hasTrailingEmpty (r : Row) : Bool :=
  match r.getLast? with
  | some v => v == []
  | none => false

/-- the columns that remain (`slc.Without(ts.Columns, "-")`, and what `DumpString` prints) -/
def liveCols (cols : List String) : List String := cols.filter (· != "-")

/-- position of physical column `i` among the live columns -/
def liveIdx (cols : List String) (i : Nat) : Nat := (liveCols (cols.take i)).length

/-- row as `dumpTable2` writes it -/
def dumpRow (cols : List String) (r : Row) : Row := if hasDeleted cols then squeeze r cols else r

/-- row as `compactTable` copies it -/
def compactRow (cols : List String) (r : Row) : Row :=
  if hasDeleted cols || hasTrailingEmpty r then squeeze r cols else r

/-! ### token level -/

inductive Mode where
  | key | unique | index
deriving Repr, DecidableEq

structure Index where
  mode : Mode
  cols : List String
deriving Repr, DecidableEq

structure Table where
  name : String
  cols : List String        -- physical columns, `"-"` = deleted
  idxs : List Index
  rows : List Row           -- in the order of the index dumped first
deriving Repr, DecidableEq

structure Db where
  tables : List Table       -- sorted by name (`sort.Strings(tables)`)
  views : List (Bytes × Bytes)   -- (name, definition) as packed strings
deriving Repr, DecidableEq

inductive Tok where
  | header                                         -- "Suneido dump 3\n"
  | views                                          -- "====== views (view_name,view_definition) key(view_name)\n"
  | table (name : String) (cols : List String) (idxs : List Index)   -- "====== " schema "\n"
  | row (r : Row)                                  -- length + record
  | endRecs                                        -- zero length
deriving Repr, DecidableEq

def dumpTable (t : Table) : List Tok :=
  .table t.name (liveCols t.cols) t.idxs :: (t.rows.map fun r => Tok.row (dumpRow t.cols r)) ++ [.endRecs]

def dumpViews (vs : List (Bytes × Bytes)) : List Tok :=
  .views :: (vs.map fun v => Tok.row (trim [v.1, v.2])) ++ [.endRecs]

def dumpTables : List Table → List Tok
  | [] => []
  | t :: ts => dumpTable t ++ dumpTables ts

/-- `dump` -/
def dumpDb (db : Db) : List Tok := .header :: dumpViews db.views ++ dumpTables db.tables

/-- key of a row for an index: the raw values of its columns, by column name -/
def keyOf (cols : List String) (ix : Index) (r : Row) : List Bytes :=
  ix.cols.map fun c => getRaw r (cols.idxOf c)

/-- `buildIndexes` refuses duplicates: a key may not repeat; a unique index may not repeat a
value unless it is entirely empty (then the key is made unique by the primary key) -/
def dupFree (cols : List String) (rows : List Row) (ix : Index) : Bool :=
  match ix.mode with
  | .key => decide ((rows.map (keyOf cols ix)).Nodup)
  | .unique => decide (((rows.map (keyOf cols ix)).filter fun k => !k.all (· == [])).Nodup)
  | .index => true

def tableOk (t : Table) : Bool := t.idxs.all (dupFree t.cols t.rows)

/-- records of a section up to its end marker -/
def takeRecs : List Tok → Option (List Row × List Tok)
  | .row r :: rest => (takeRecs rest).map fun p => (r :: p.1, p.2)
  | .endRecs :: rest => some ([], rest)
  | _ => none

inductive LoadRes where
  | ok (db : Db)
  | dup (table : String)     -- "cannot build index: duplicate value"
  | bad                      -- "not a valid dump file"
deriving Repr, DecidableEq

def loadTables : Nat → List Tok → List Table → LoadRes
  | 0, _, _ => .bad
  | _ + 1, [], acc => .ok ⟨acc.reverse, []⟩
  | fuel + 1, .table name cols idxs :: rest, acc =>
    match takeRecs rest with
    | none => .bad
    | some (rows, rest') =>
      let t : Table := ⟨name, cols, idxs, rows⟩
      if tableOk t then loadTables fuel rest' (t :: acc) else .dup name
  | _ + 1, _, _ => .bad

/-- `LoadDatabase` on the token stream -/
def loadDb (toks : List Tok) : LoadRes :=
  match toks with
  | .header :: .views :: rest =>
    match takeRecs rest with
    | none => .bad
    | some (vrows, rest') =>
      match loadTables (rest'.length + 1) rest' [] with
      | .ok db => .ok ⟨db.tables, vrows.map fun r => (getRaw r 0, getRaw r 1)⟩
      | r => r
  | _ => .bad

/-- what load ∘ dump makes of a table: deleted columns gone, rows squeezed -/
def normTable (t : Table) : Table := ⟨t.name, liveCols t.cols, t.idxs, t.rows.map (dumpRow t.cols)⟩

/-- `compactTable` -/
def compactTable (t : Table) : Table := ⟨t.name, liveCols t.cols, t.idxs, t.rows.map (compactRow t.cols)⟩

/-! ### the text around the sections (regenerated constants are compared in Props/C20) -/

def dumpVersion : String := "Suneido dump 3\n"
def tablePrefix : String := "====== "
def viewsHeader : String := "====== views (view_name,view_definition) key(view_name)\n"
def deletedMark : String := "-"

def strBytes (s : String) : Bytes := s.toUTF8.toList

/-- one table section as `dumpTable2` writes it: prefix, schema text, newline, framed records -/
def renderSection (schema : Bytes) (recs : List Bytes) : Bytes :=
  strBytes tablePrefix ++ schema ++ [10] ++ writeRecs recs

/-- a single-table dump file (`DumpDbTable`) -/
def renderTableFile (schema : Bytes) (recs : List Bytes) : Bytes :=
  strBytes dumpVersion ++ renderSection schema recs

/-! ### index order (tables with several indexes) -/

/-- the order in which `Schema.DumpString(firstIdx)` prints the indexes and in which
`buildIndexes(…, sortedBy)` builds them: the chosen one first, the others in schema order -/
def indexOrder (n first : Nat) : List Nat := first :: (List.range n).filter (· != first)

/-- `ov[i] = index.OverlayFor(bt)`: every built index is stored at ITS position -/
def placeByIndex {α} (n : Nat) (order : List Nat) (built : Nat → α) : List (Option α) :=
  (List.range n).map fun i => if order.contains i then some (built i) else none

/-- the defective variant `ov = append(ov, …)`: stored in the order built -/
def placeByAppend {α} (order : List Nat) (built : Nat → α) : List (Option α) :=
  order.map fun i => some (built i)

end Gsu.Dump
