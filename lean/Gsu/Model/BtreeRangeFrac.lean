/-
C10 — `RangeFrac` on the abstract B+-tree with exact rational arithmetic: executable mirror of
rangefrac.go. Core-only.

The Go code computes in float64 and takes two roots through `math.Pow` (the average fanout at the
root and, after `fattenRoot`, at the level below); here the arithmetic is exact over `Rat` and the
two fanout values are INPUTS (`fanA`, `fanB`; the suite recomputes them with the expressions of
rangefrac.go and passes the exact float64 values). Everything else is mirrored: the parallel
descent while both ends stay in the same child, the exact result inside one leaf, `leafRangeFrac`
(adjacent leaves / up to two leaves between read exactly / fanout estimate), the spread > 75
shortcut, the two-children estimate, `fattenRoot` for roots with at most `smallRoot` children,
the wrapper `RangeFrac` (empty range 0, whole range 1, empty tree 0.5) and the final clamp to
[0, 1] (REPAIRED code: fixes/10-rangefrac-clamp-upper.patch; the unrepaired code clamps below only).
The correspondence compares the results in buckets of 1/10000 (float rounding stays far below).
-/
import Gsu.Model.BtreeMerge
namespace Gsu.Btree

def smallRootM : Nat := 8
/-- `if spread > 75` -/
def spreadM : Nat := 75
/-- `const maxToRead = 2` -/
def maxToReadM : Nat := 2

/-- the position `treeNode.search` reports: the number of separators `≤ key` -/
def nodePos {α} : List (α × Key) → Key → Nat
  | [], _ => 0
  | (_, s) :: r, k => if k < s then 0 else nodePos r k + 1

def children {h : Nat} (t : BT (h + 1)) : List (BT h) := t.1.map (·.1) ++ [t.2]

/-- `noffs` -/
def BT.noffs : (h : Nat) → BT h → Nat
  | 0, l => l.es.length
  | _ + 1, t => t.1.length + 1

/-- `search(nd, key)` position (leaf: the number of smaller keys) -/
def BT.pos : (h : Nat) → BT h → Key → Nat
  | 0, l, k => posOf l.es k
  | _ + 1, t, k => nodePos t.1 k

/-- loop state of `rangeFrac` -/
structure RF where
  frac : Rat := 0
  div : Rat := 1
  atRoot : Bool := true
  fanout : Rat := 0

def ratOfNat (n : Nat) : Rat := (n : Int)

/-- `leafRangeFrac` -/
def leafRangeFrac (count : Nat) (cs : List Leaf) (op ep : Nat) (org end_ : Key) (fanout : Rat) : Rat :=
  match cs[op]?, cs[ep]? with
  | some ol, some el =>
    let orgI : Int := posOf ol.es org
    let endI : Int := posOf el.es end_
    let between : Int := (ep : Int) - op - 1
    let inOrg : Int := (ol.es.length : Int) - orgI
    if between = 0 then ((inOrg + endI : Int) : Rat) / ratOfNat count
    else if between ≤ (maxToReadM : Int) then
      let mid : Int := ((cs.drop (op + 1)).take (ep - op - 1)).foldl (fun a l => a + l.es.length) 0
      ((inOrg + mid + endI : Int) : Rat) / ratOfNat count
    else ((inOrg : Rat) + (between : Rat) * fanout + (endI : Rat)) / ratOfNat count
  | _, _ => 0

/-- one iteration of the loop at a tree node with children `cs` and the positions of both ends -/
def rfBody (count : Nat) (org end_ : Key) : (h : Nat) → (BT h → RF → Rat) → List (BT h) →
    Nat → Nat → RF → Rat
  | h, recur, cs, op, ep, st =>
    let n : Rat := ratOfNat cs.length
    if op ≠ ep then
      match h, cs with
      | 0, cs => leafRangeFrac count cs op ep org end_ st.fanout
      | _ + 1, cs =>
        let spread : Int := (ep : Int) - op
        if spread > (spreadM : Int) then (spread : Rat) / n / st.div
        else
          match cs[op]?, cs[ep]? with
          | some oc, some ec =>
            let orgFrac := st.frac + ratOfNat op / n / st.div
            let endFrac := st.frac + ratOfNat ep / n / st.div
            let div' := if st.atRoot then n else st.div * st.fanout
            let orgFrac := orgFrac + ratOfNat (nodePos oc.1 org) / ratOfNat (oc.1.length + 1) / div'
            let endFrac := endFrac + ratOfNat (nodePos ec.1 end_) / ratOfNat (ec.1.length + 1) / div'
            endFrac - orgFrac
          | _, _ => 0
    else
      match cs[op]? with
      | some c =>
        recur c { st with frac := st.frac + ratOfNat op / n / st.div,
                          div := if st.atRoot then n else st.div * st.fanout, atRoot := false }
      | none => 0

def rfTree (count : Nat) (org end_ : Key) : (h : Nat) → BT h → RF → Rat
  | 0, l, _ => (((posOf l.es end_ : Int) - posOf l.es org : Int) : Rat) / ratOfNat count
  | h + 1, t, st =>
    rfBody count org end_ h (rfTree count org end_ h) (children t) (nodePos t.1 org) (nodePos t.1 end_) st

/-- position in the virtual node `fattenRoot` makes of the root's children -/
def fatPos {h : Nat} (kids : List (BT h)) (rp : Nat) (k : Key) : Nat :=
  (kids.take rp).foldl (fun a c => a + BT.noffs h c) 0 +
    (match kids[rp]? with | some c => BT.pos h c k | none => 0)

/-- `rangeFrac` before the clamp -/
def rangeFracRaw (t : BTree) (count : Nat) (org end_ : Key) (fanA fanB : Rat) : Rat :=
  match t with
  | ⟨0, l⟩ => rfTree count org end_ 0 l {}
  | ⟨h + 1, root⟩ =>
    if root.1.length + 1 ≤ smallRootM then
      let kids := children root
      let orgI := fatPos kids (nodePos root.1 org) org
      let endI := fatPos kids (nodePos root.1 end_) end_
      match h, kids with
      | 0, _ => (((endI : Int) - orgI : Int) : Rat) / ratOfNat count
      | h' + 1, kids =>
        rfBody count org end_ h' (rfTree count org end_ h') (kids.flatMap children) orgI endI
          { fanout := fanB }
    else
      rfBody count org end_ h (rfTree count org end_ h) (children root) (nodePos root.1 org)
        (nodePos root.1 end_) { fanout := fanA }

def clamp01 (x : Rat) : Rat := if x < 0 then 0 else if 1 < x then 1 else x

def keyMin : Key := []
def keyMax : Key := [255, 255, 255, 255, 255, 255, 255, 255]

/-- `btree.RangeFrac` -/
def rangeFracQ (t : BTree) (count : Nat) (org end_ : Key) (fanA fanB : Rat) : Rat :=
  if org ≥ end_ then 0
  else if org = keyMin ∧ end_ = keyMax then 1
  else if count = 0 then 1 / 2
  else clamp01 (rangeFracRaw t count org end_ fanA fanB)

end Gsu.Btree
