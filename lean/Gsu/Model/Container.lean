/-
M-LANG container machine: executable mirror of `core/suobject.go` (`SuObject`: list + named
members, migration of integer keys, read-only flag).  Core Lean only (linked into drv_c36).

Go                                   | here
-------------------------------------+---------------------------------------------
ob.list  []Value                     | Cont.list  : List V
ob.named HmapValue                   | Cont.named : List (Key × V)  (association list; the
                                     |   iteration order of the hash map is not modelled,
                                     |   observers sort the named members by key)
ob.readonly                          | Cont.readonly
key.IfInt()                          | Key.int i  (every integer-valued key, int or dnum)
any other key                        | Key.str s  (canonical text of the key)
getIfPresent / hasKey                | get / has
set / add / migrate                  | setRaw / addRaw / migrate
Insert / delete / erase / listDelete | insertRaw / deleteRaw / eraseRaw
PopFirst / PopLast / deleteAll       | apply .popFirst / .popLast / .deleteAll
Sort(lt=false) / Unique / Reverse    | apply .sort (stable sort as parameter) / unique / reverse
mustBeMutable (readonly part)        | guard in `apply`
slice(n) / rangeTo(i,j) / Find       | slice / rangeTo / find
Not modelled: copy-on-write sharing (copies are values here; the suite checks independence),
version/clock counters, the 64 000 member limit (`ckSize`), default values, `sorting` flag.
-/
namespace Gsu.Container

inductive Key where
  | int (i : Int)
  | str (s : String)
  deriving DecidableEq, Repr

abbrev Named (V : Type) := List (Key × V)

structure Cont (V : Type) where
  list : List V := []
  named : Named V := []
  readonly : Bool := false

variable {V : Type}

/-! ### named members (hash map as association list) -/

def nget (m : Named V) (k : Key) : Option V :=
  match m with
  | [] => none
  | (k', v) :: r => if k' = k then some v else nget r k

def ndel (m : Named V) (k : Key) : Named V := m.filter (fun p => decide (p.1 ≠ k))

def nput (m : Named V) (k : Key) (v : V) : Named V := (k, v) :: ndel m k

/-! ### queries -/

def inRange (i : Int) (n : Nat) : Bool := decide (0 ≤ i) && decide (i < (n : Int))

/-- `getIfPresent` -/
def get (c : Cont V) (k : Key) : Option V :=
  match k with
  | .int i => if inRange i c.list.length then c.list[i.toNat]? else nget c.named k
  | .str _ => nget c.named k

/-- `hasKey` -/
def has (c : Cont V) (k : Key) : Bool :=
  match k with
  | .int i => inRange i c.list.length || (nget c.named k).isSome
  | .str _ => (nget c.named k).isSome

def size (c : Cont V) : Nat := c.list.length + c.named.length

/-- keys in `Iter2(list, named)` order: list indexes, then the named keys -/
def members (c : Cont V) : List Key :=
  (List.range c.list.length).map (fun i => Key.int (i : Nat)) ++ c.named.map (·.1)

def findIdx [DecidableEq V] (v : V) : List V → Nat → Option Nat
  | [], _ => none
  | x :: r, i => if x = v then some i else findIdx v r (i + 1)

def findNamed [DecidableEq V] (v : V) : Named V → Option Key
  | [] => none
  | (k, x) :: r => if x = v then some k else findNamed v r

/-- `Find`: key of the first occurrence (list first, then some named member) -/
def find [DecidableEq V] (c : Cont V) (v : V) : Option Key :=
  match findIdx v c.list 0 with
  | some i => some (.int (i : Nat))
  | none => findNamed v c.named

/-! ### mutation (the parts after `mustBeMutable`) -/

/-- the `migrate` loop; fuel = number of named members (each round deletes one) -/
def migrateN : Nat → List V → Named V → List V × Named V
  | 0, l, m => (l, m)
  | n + 1, l, m =>
    match nget m (.int l.length) with
    | none => (l, m)
    | some x => migrateN n (l ++ [x]) (ndel m (.int l.length))

def migrate (c : Cont V) : Cont V :=
  let r := migrateN c.named.length c.list c.named
  { c with list := r.1, named := r.2 }

/-- `add` -/
def addRaw (c : Cont V) (v : V) : Cont V := migrate { c with list := c.list ++ [v] }

/-- `set` -/
def setRaw (c : Cont V) (k : Key) (v : V) : Cont V :=
  match k with
  | .int i =>
    if i = (c.list.length : Int) then addRaw c v
    else if inRange i c.list.length then { c with list := c.list.set i.toNat v }
    else { c with named := nput c.named k v }
  | .str _ => { c with named := nput c.named k v }

/-- `Insert` -/
def insertRaw (c : Cont V) (at_ : Int) (v : V) : Cont V :=
  if 0 ≤ at_ ∧ at_ ≤ (c.list.length : Int) then
    migrate { c with list := c.list.insertIdx at_.toNat v }
  else migrate (setRaw c (.int at_) v)

/-- `delete` -/
def deleteRaw (c : Cont V) (k : Key) : Cont V × Bool :=
  match k with
  | .int i =>
    if inRange i c.list.length then ({ c with list := c.list.eraseIdx i.toNat }, true)
    else ({ c with named := ndel c.named k }, (nget c.named k).isSome)
  | .str _ => ({ c with named := ndel c.named k }, (nget c.named k).isSome)

/-- the loop of `erase`: `for j := len-1; j > i; j-- { named.Put(j, list[j]) }`;
`tail` is `list[i+1:]`, `j` the index of its first element -/
def eraseMove (m : Named V) : List V → Nat → Named V
  | [], _ => m
  | x :: r, j => nput (eraseMove m r (j + 1)) (.int j) x

/-- `erase` -/
def eraseRaw (c : Cont V) (k : Key) : Cont V × Bool :=
  match k with
  | .int i =>
    if inRange i c.list.length then
      ({ c with list := c.list.take i.toNat,
                named := eraseMove c.named (c.list.drop (i.toNat + 1)) (i.toNat + 1) }, true)
    else ({ c with named := ndel c.named k }, (nget c.named k).isSome)
  | .str _ => ({ c with named := ndel c.named k }, (nget c.named k).isSome)

/-- `unique`: drop every element equal to its predecessor -/
def uniqueAux [DecidableEq V] : V → List V → List V
  | _, [] => []
  | p, x :: r => if x = p then uniqueAux x r else x :: uniqueAux x r

def unique [DecidableEq V] : List V → List V
  | [] => []
  | x :: r => x :: uniqueAux x r

inductive Op (V : Type) where
  | add (v : V)
  | set (k : Key) (v : V)
  | insert (at_ : Int) (v : V)
  | delete (k : Key)
  | erase (k : Key)
  | popFirst
  | popLast
  | sort
  | unique
  | reverse
  | deleteAll
  | setReadonly
  deriving Repr

inductive Out (V : Type) where
  | ok
  | bool (b : Bool)
  | val (o : Option V)
  /-- "can't modify readonly objects" -/
  | readonlyErr
  deriving Repr, DecidableEq

/-- One public mutating method. `srt` is the stable sort used by `Sort` (`slices.SortStableFunc`
with `Value.Compare`); it is a parameter so that the theorems can be stated against its contract.
Mirrors the position of `mustBeMutable` in each method: `PopFirst`/`PopLast` return nil on an
empty list *before* the check. -/
def apply [DecidableEq V] (srt : List V → List V) (c : Cont V) : Op V → Cont V × Out V
  | .add v => if c.readonly then (c, .readonlyErr) else (addRaw c v, .ok)
  | .set k v => if c.readonly then (c, .readonlyErr) else (setRaw c k v, .ok)
  | .insert a v => if c.readonly then (c, .readonlyErr) else (insertRaw c a v, .ok)
  | .delete k =>
    if c.readonly then (c, .readonlyErr) else let r := deleteRaw c k; (r.1, .bool r.2)
  | .erase k =>
    if c.readonly then (c, .readonlyErr) else let r := eraseRaw c k; (r.1, .bool r.2)
  | .popFirst =>
    match c.list with
    | [] => (c, .val none)
    | x :: r => if c.readonly then (c, .readonlyErr) else ({ c with list := r }, .val (some x))
  | .popLast =>
    match c.list.getLast? with
    | none => (c, .val none)
    | some x =>
      if c.readonly then (c, .readonlyErr) else ({ c with list := c.list.dropLast }, .val (some x))
  | .sort => if c.readonly then (c, .readonlyErr) else ({ c with list := srt c.list }, .ok)
  | .unique => if c.readonly then (c, .readonlyErr) else ({ c with list := unique c.list }, .ok)
  | .reverse => if c.readonly then (c, .readonlyErr) else ({ c with list := c.list.reverse }, .ok)
  | .deleteAll => if c.readonly then (c, .readonlyErr) else ({ c with list := [], named := [] }, .ok)
  | .setReadonly => ({ c with readonly := true }, .ok)

/-! ### copies and ranges (produce a new container) -/

/-- `slice(n)`: copy without the first n list values (named members kept, never read-only) -/
def slice (c : Cont V) (n : Nat) : Cont V := { list := c.list.drop n, named := c.named }

/-- `rangeTo(i, j)` (list only) -/
def rangeTo (c : Cont V) (i j : Nat) : Cont V := { list := (c.list.take j).drop i }

/-- hand mirror of `prepFrom`/`prepTo`/`prepLen` (core/ops.go); tied to the generated
translations in `Gsu.Gen.Container` by `Props.C36.gen_prep` -/
def prepFrom (frm size : Int) : Int :=
  let f := if frm < 0 then (if frm + size < 0 then 0 else frm + size) else frm
  if f > size then size else f

def prepTo (frm to size : Int) : Int :=
  let t := if to < 0 then to + size else to
  let t := if t < frm then frm else t
  if t > size then size else t

def prepLen (n size : Int) : Int :=
  let n := if n < 0 then 0 else n
  if n > size then size else n

/-- `RangeTo(from, to)` -/
def rangeToOp (c : Cont V) (frm to : Int) : Cont V :=
  let size : Int := c.list.length
  let f := prepFrom frm size
  let t := prepTo f to size
  rangeTo c f.toNat t.toNat

/-- `RangeLen(from, n)` -/
def rangeLenOp (c : Cont V) (frm n : Int) : Cont V :=
  let size : Int := c.list.length
  let f := prepFrom frm size
  let n := prepLen n (size - f)
  rangeTo c f.toNat (f + n).toNat

/-! ### the concrete value domain the driver runs on

A value is `k` (the Suneido integer k) when `t = 0`, else the object `#(k, t: t)`.
`Value.Compare` orders numbers before objects and compares objects by their list members only,
so values with the same `k` and different `t > 0` compare equal but are not `Equal` — this is
what makes stability of `Sort` observable. -/

structure Val where
  k : Int
  t : Nat
  deriving DecidableEq, Repr

/-- `x.Compare(y) <= 0` -/
def leVal (a b : Val) : Bool :=
  if a.t = 0 then (if b.t = 0 then decide (a.k ≤ b.k) else true)
  else (if b.t = 0 then false else decide (a.k ≤ b.k))

/-- the order induced by `Sort(lt)` with `lt = function (x, y) { key(x) > key(y) }`:
`sort.SliceStable` sorts by the preorder `not lt(y, x)` -/
def leDesc (a b : Val) : Bool := decide (b.k ≤ a.k)

/-- model of `slices.SortStableFunc` / `sort.SliceStable`: any stable sort gives the same list -/
def stableSort (le : Val → Val → Bool) (l : List Val) : List Val := l.mergeSort le

end Gsu.Container
