/-
Executable mirror of util/ordset/ordset.go (C39; carries C01/C06/C07 through the checker).

Keys are byte strings compared bytewise (`List UInt8` with the core lexicographic `<`, which is
Go's string order). A leaf is the code's fixed array: `slots` has `nodeSize` entries
**including the stale ones** at indexes ≥ `size` (zero value `[]` in a fresh leaf, left-over
keys after a split) and a `size`. The tree node is modelled by its live slots only
(`List TSlot`, `tree.size = length`): in ordset the entries ≥ `tree.size` are zero values that the
code never reads (every access is guarded by `tree.size`; nothing is ever removed).
`set.leaf` and `tree.slots[0].leaf` are the same object in Go; here the root leaf lives in
`small` until the tree is created and in slot 0 of `big` afterwards.

Core-only: linked into the driver.
-/
import Gsu.Gen.Ordset
namespace Gsu.Ordset

abbrev Key := List UInt8

/-- parameters the code fixes as constants; regenerated values in `genParams` -/
structure Params where
  nodeSize : Nat
  leftHi : Nat      -- split point when key > last slot
  leftLo : Nat      -- split point when key < first slot
  leftMid : Nat
  guarded : Bool    -- `leafNode.insert` tests `i < leaf.size &&` before `leaf.slots[i] == key`
  deriving Repr

/-- the parameters as they are in /repo now (tools/extract, target Ordset) -/
def genParams : Params :=
  { nodeSize := Gsu.Gen.Ordset.ordsetNodeSize
    leftHi := Gsu.Gen.Ordset.ordsetLeftHi.toNat
    leftLo := Gsu.Gen.Ordset.ordsetLeftLo.toNat
    leftMid := Gsu.Gen.Ordset.ordsetLeftMid.toNat
    guarded := Gsu.Gen.Ordset.ordsetInsertGuarded }

/-- the loop of both `searchBinary`s: `p h` is the test that moves `i` up -/
def bsearch (p : Nat → Bool) (i j : Nat) : Nat :=
  if _h : i < j then
    let m := (i + j) / 2
    if p m then bsearch p (m + 1) j else bsearch p i m
  else i
termination_by j - i

structure Leaf where
  slots : List Key   -- the whole array, stale slots included
  size : Nat
  deriving Repr, DecidableEq

def Leaf.empty (P : Params) : Leaf := ⟨List.replicate P.nodeSize [], 0⟩

/-- `leaf.slots[i]` -/
def Leaf.get (l : Leaf) (i : Nat) : Key := l.slots[i]?.getD []

/-- the keys the leaf holds -/
def Leaf.live (l : Leaf) : List Key := l.slots.take l.size

/-- `leafNode.searchBinary`: first index whose slot is ≥ key, or size -/
def Leaf.search (l : Leaf) (key : Key) : Nat :=
  bsearch (fun h => decide (l.get h < key)) 0 l.size

/-- `copy(a[i+1:], a[i:]); a[i] = x` on an array of length n -/
def insertAt {α} (n : Nat) (a : List α) (i : Nat) (x : α) : List α :=
  (a.take i ++ x :: a.drop i).take n

/-- `leafNode.insert` -/
def Leaf.insert (P : Params) (l : Leaf) (key : Key) : Leaf × Bool :=
  if l.size ≥ P.nodeSize then (l, false)
  else
    let i := l.search key
    if (!P.guarded || decide (i < l.size)) && l.get i == key then (l, true)
    else (⟨insertAt P.nodeSize l.slots i key, l.size + 1⟩, true)

structure TSlot where
  key : Key
  leaf : Leaf
  deriving Repr, DecidableEq

abbrev Tree := List TSlot

def Tree.keyAt (t : Tree) (i : Nat) : Key := (t[i]?.map (·.key)).getD []
def Tree.leafAt (P : Params) (t : Tree) (i : Nat) : Leaf := (t[i]?.map (·.leaf)).getD (Leaf.empty P)

/-- `treeNode.searchBinary`: number of leading slots with slot.key ≤ key -/
def Tree.search (t : Tree) (key : Key) : Nat :=
  bsearch (fun h => decide (t.keyAt h ≤ key)) 0 t.length

def Tree.setLeaf (t : Tree) (i : Nat) (l : Leaf) : Tree :=
  t.modify i (fun s => { s with leaf := l })

/-- `treeNode.insert` -/
def Tree.insert (t : Tree) (key : Key) (l : Leaf) : Tree :=
  let i := t.search key
  t.take i ++ ⟨key, l⟩ :: t.drop i

inductive Set where
  | small (l : Leaf)
  | big (t : Tree)
  deriving Repr, DecidableEq

def Set.empty (P : Params) : Set := .small (Leaf.empty P)

/-- the split point chosen by `split` -/
def splitPoint (P : Params) (l : Leaf) (key : Key) : Nat :=
  if l.get (P.nodeSize - 1) < key then P.leftHi
  else if key < l.get 0 then P.leftLo
  else P.leftMid

/-- the two leaves after `split`: the left one keeps its array (stale upper part),
the right one is a fresh array: copied upper part then zero values -/
def splitLeaf (P : Params) (l : Leaf) (key : Key) : Leaf × Leaf :=
  let left := splitPoint P l key
  (⟨l.slots, left⟩, ⟨l.slots.drop left ++ List.replicate left [], P.nodeSize - left⟩)

/-- the leaf-splitting part of `Set.split` for the leaf in slot `ti`:
`leaf.size = left; set.tree.insert(leaf2.slots[0], leaf2)` -/
def Tree.splitAt (P : Params) (t : Tree) (ti : Nat) (key : Key) : Tree :=
  let (l1, l2) := splitLeaf P (t.leafAt P ti) key
  (t.setLeaf ti l1).insert (l2.get 0) l2

/-- route to the leaf (`i := tree.searchBinary(key); leaf = tree.slots[i-1].leaf`) and `leaf.insert(key)` -/
def Tree.insertLeaf (P : Params) (t : Tree) (key : Key) : Tree × Bool :=
  let ti := t.search key - 1
  let (l', ok) := (t.leafAt P ti).insert P key
  (t.setLeaf ti l', ok)

/-- `Set.Insert` (with `Set.split` inlined) -/
def Set.insert (P : Params) (s : Set) (key : Key) : Set × Bool :=
  match s with
  | .small l =>
    if l.size ≥ P.nodeSize then
      -- `split` creates the tree: slot 0 = the embedded leaf with the zero key
      -- (its condition `set.leaf.size == nodeSize` holds: size never exceeds nodeSize)
      let (t', ok) := (Tree.splitAt P [⟨[], l⟩] 0 key).insertLeaf P key
      (.big t', ok)
    else
      let (l', ok) := l.insert P key
      (.small l', ok)
  | .big t =>
    let ti := t.search key - 1
    if (t.leafAt P ti).size ≥ P.nodeSize then
      if t.length ≥ P.nodeSize then (s, false)
      else
        let (t', ok) := (t.splitAt P ti key).insertLeaf P key
        (.big t', ok)
    else
      let (t', ok) := t.insertLeaf P key
      (.big t', ok)

/-- `Set.search`: (ti, leaf, li) -/
def Set.search (P : Params) (s : Set) (key : Key) : Nat × Leaf × Nat :=
  match s with
  | .small l => (0, l, l.search key)
  | .big t =>
    let ti := t.search key - 1
    let leaf := t.leafAt P ti
    (ti, leaf, leaf.search key)

/-- `Set.Contains` -/
def Set.contains (P : Params) (s : Set) (key : Key) : Bool :=
  let (_, leaf, li) := s.search P key
  decide (li < leaf.size) && leaf.get li == key

/-- `Set.AnyInRange` -/
def Set.anyInRange (P : Params) (s : Set) (frm to : Key) : Bool :=
  let (ti, leaf, li) := s.search P frm
  if li ≥ leaf.size then
    match s with
    | .small _ => false
    | .big t =>
      if ti + 1 ≥ t.length then false
      else decide ((t.leafAt P (ti + 1)).get 0 ≤ to)
  else decide (leaf.get li ≤ to)

/-- `Set.Empty` -/
def Set.isEmpty (s : Set) : Bool :=
  match s with
  | .small l => l.size == 0
  | .big _ => false

/-- all keys, in slot order (the abstract value) -/
def Set.elems (s : Set) : List Key :=
  match s with
  | .small l => l.live
  | .big t => t.flatMap (·.leaf.live)

end Gsu.Ordset
