/-
M-NUM / dates: executable mirror of `core/sudate.go` (`valid`, `NewDate` bit packing, getters,
`Plus`/`NormalizeDate`, `MinusDays`/`julianDayNumber`, `MinusMs`, `Compare`, `String`,
`DateFromLiteral`) and `core/sutimestamp.go` (`String`, compare). Core-only.

`julianDayNumber` is the REGENERATED definition `Gsu.Gen.Date.julianDayNumber`.

`NormalizeDate` goes through Go's `time.Date(..., time.UTC)`; `normalize` below is a Lean
definition of that proleptic Gregorian normalisation (floor carries ms→s→min→h→day, months into
years, days through the Julian day number). The day number is converted back to a calendar date by
`civil` (a closed formula) and the result is CHECKED against the generated `julianDayNumber`
(`fromJdn`): whenever `normalize` returns a date it is provably the right one, and the check
never fails for day numbers of 0000-01-01 … 3000-01-01 (`Gsu/Proofs/Date3.lean`: `civil_spec`,
`fromJdn_total`, `normalize_total`).
-/
import Gsu.Util.Proto
import Gsu.Gen.Date
namespace Gsu.Date
open Gsu.Gen.Date

structure Fields where
  yr : Int
  mon : Int
  day : Int
  hr : Int
  min : Int
  sec : Int
  ms : Int
deriving DecidableEq, Repr

/-- Gregorian leap year rule -/
def IsLeap (y : Int) : Prop := (y % 4 = 0 ∧ y % 100 ≠ 0) ∨ y % 400 = 0

instance (y : Int) : Decidable (IsLeap y) := by unfold IsLeap; exact inferInstance

def daysInMonth (y m : Int) : Int :=
  if m = 2 then (if IsLeap y then 29 else 28)
  else if m = 4 ∨ m = 6 ∨ m = 9 ∨ m = 11 then 30 else 31

/-- the calendar day after (y, m, d) -/
def nextDay (y m d : Int) : Int × Int × Int :=
  if d < daysInMonth y m then (y, m, d + 1) else if m < 12 then (y, m + 1, 1) else (y + 1, 1, 1)

/-- a calendar day of the proleptic Gregorian calendar in the supported years -/
def validYMD (y m d : Int) : Bool :=
  decide (0 ≤ y) && decide (y ≤ 3000) && decide (1 ≤ m) && decide (m ≤ 12) &&
    decide (1 ≤ d) && decide (d ≤ daysInMonth y m)

/-- `valid` of sudate.go: year 3000 only as 3000-01-01 00:00:00.000, field ranges, and the day
must exist (Go checks that by a `time.Date` round trip) -/
def valid (f : Fields) : Bool :=
  if f.yr = 3000 ∧ (f.mon ≠ 1 ∨ f.day ≠ 1 ∨ f.hr ≠ 0 ∨ f.min ≠ 0 ∨ f.sec ≠ 0 ∨ f.ms ≠ 0) then false
  else validYMD f.yr f.mon f.day &&
    decide (0 ≤ f.hr) && decide (f.hr ≤ 23) && decide (0 ≤ f.min) && decide (f.min ≤ 59) &&
    decide (0 ≤ f.sec) && decide (f.sec ≤ 59) && decide (0 ≤ f.ms) && decide (f.ms ≤ 999)

/-! ## bit packing (`NewDate`, getters). `<<`/`|` on disjoint in-range fields = `*`/`+` -/

def packDate (f : Fields) : Int := f.yr * 512 + f.mon * 32 + f.day
def packTime (f : Fields) : Int := f.hr * 4194304 + f.min * 65536 + f.sec * 1024 + f.ms

def unpackFields (date time : Int) : Fields :=
  ⟨date / 512, date / 32 % 16, date % 32, time / 4194304, time / 65536 % 64, time / 1024 % 64, time % 1024⟩

/-! ## day numbers -/

def jdn (y m d : Int) : Int := julianDayNumber y m d

/-- closed-form civil date of a day number (days since 0000-03-01 = jdn − 1721120) -/
def civil (n : Int) : Int × Int × Int :=
  let z := n - 1721120
  let era := z / 146097
  let doe := z % 146097
  let yoe := (doe - doe / 1460 + doe / 36524 - doe / 146096) / 365
  let doy := doe - (365 * yoe + yoe / 4 - yoe / 100)
  let mp := (5 * doy + 2) / 153
  let d := doy - (153 * mp + 2) / 5 + 1
  let m := if mp < 10 then mp + 3 else mp - 9
  let y := yoe + era * 400 + (if m ≤ 2 then 1 else 0)
  (y, m, d)

/-- checked inverse of `jdn` -/
def fromJdn (n : Int) : Option (Int × Int × Int) :=
  let c := civil n
  if jdn c.1 c.2.1 c.2.2 = n ∧ validYMD c.1 c.2.1 c.2.2 then some c else none

/-! ## `NormalizeDate` / `Plus` -/

/-- month overflow into years (`time.Date`: `year, m = norm(year, m-1, 12)`) -/
def normYear (yr mon : Int) : Int := yr + (mon - 1) / 12
def normMon (mon : Int) : Int := (mon - 1) % 12 + 1

def normalize (f : Fields) : Option Fields :=
  let s1 := f.sec + f.ms / 1000
  let ms := f.ms % 1000
  let mi1 := f.min + s1 / 60
  let s := s1 % 60
  let h1 := f.hr + mi1 / 60
  let mi := mi1 % 60
  let dc := h1 / 24
  let h := h1 % 24
  let y := normYear f.yr f.mon
  let m := normMon f.mon
  if y < -4000 ∨ 10000 < y then none   -- far outside the supported years (result is NilDate)
  else
    match fromJdn (jdn y m 1 + (f.day - 1) + dc) with
    | none => none
    | some (yy, mm, dd) =>
      let r : Fields := ⟨yy, mm, dd, h, mi, s, ms⟩
      if valid r then some r else none

def addFields (a b : Fields) : Fields :=
  ⟨a.yr + b.yr, a.mon + b.mon, a.day + b.day, a.hr + b.hr, a.min + b.min, a.sec + b.sec, a.ms + b.ms⟩

/-- `SuDate.Plus`; `none` = `panic("bad date")` -/
def plus (d off : Fields) : Option Fields := normalize (addFields d off)

/-! ## differences, order -/

def minusDays (a b : Fields) : Int := jdn a.yr a.mon a.day - jdn b.yr b.mon b.day

def timeAsMs (f : Fields) : Int := f.ms + 1000 * (f.sec + 60 * (f.min + 60 * f.hr))

/-- `UnixMilli` with `time.Local = UTC` -/
def unixMilli (f : Fields) : Int := (jdn f.yr f.mon f.day - 2440588) * 86400000 + timeAsMs f

/-- `SuDate.MinusMs` -/
def minusMs (a b : Fields) : Int :=
  if packDate a = packDate b then timeAsMs a - timeAsMs b else unixMilli a - unixMilli b

/-- `SuDate.WeekDay` (Sunday = 0): Go takes it from `time.Time.Weekday` -/
def weekDay (f : Fields) : Int := (jdn f.yr f.mon f.day + 1) % 7

def cmpInt (a b : Int) : Ordering := if a < b then .lt else if b < a then .gt else .eq

/-- `SuDate.Compare` on the packed words -/
def compare (a b : Fields) : Ordering :=
  if packDate a < packDate b then .lt else if packDate b < packDate a then .gt
  else cmpInt (packTime a) (packTime b)

/-- `CompareSuTimestamp` (a plain date has extra = 0) -/
def compareTs (a : Fields) (xa : Int) (b : Fields) (xb : Int) : Ordering :=
  match compare a b with
  | .eq => cmpInt xa xb
  | o => o

/-- chronological order: lexicographic on the seven fields -/
def cmpFields (a b : Fields) : Ordering :=
  (cmpInt a.yr b.yr).then ((cmpInt a.mon b.mon).then ((cmpInt a.day b.day).then
    ((cmpInt a.hr b.hr).then ((cmpInt a.min b.min).then ((cmpInt a.sec b.sec).then
      (cmpInt a.ms b.ms))))))

/-- the instant denoted by possibly overflowed fields, in ms (months carried into years, the
rest linear): the specification `normalize` is proved against -/
def absMs (f : Fields) : Int :=
  (jdn (normYear f.yr f.mon) (normMon f.mon) 1 + (f.day - 1)) * 86400000 +
    f.hr * 3600000 + f.min * 60000 + f.sec * 1000 + f.ms

/-! ## literal text (`SuDate.String`, `SuTimestamp.String`, `DateFromLiteral`)
Strings are lists of byte codes: digit d ↦ 48 + d, '#' = 35, '.' = 46. -/

def dig (n : Int) : Nat := 48 + (n % 10).toNat
def d2 (n : Int) : List Nat := [dig (n / 10), dig n]
def d3 (n : Int) : List Nat := [dig (n / 100), dig (n / 10), dig n]
def d4 (n : Int) : List Nat := [dig (n / 1000), dig (n / 100), dig (n / 10), dig n]

/-- `SuDate.String` -/
def toLiteral (f : Fields) : List Nat :=
  let date := 35 :: (d4 f.yr ++ d2 f.mon ++ d2 f.day)
  if packTime f = 0 then date
  else if f.sec = 0 ∧ f.ms = 0 then date ++ 46 :: (d2 f.hr ++ d2 f.min)
  else if f.ms = 0 then date ++ 46 :: (d2 f.hr ++ d2 f.min ++ d2 f.sec)
  else date ++ 46 :: (d2 f.hr ++ d2 f.min ++ d2 f.sec ++ d3 f.ms)

/-- `SuTimestamp.String` -/
def tsLiteral (f : Fields) (extra : Int) : List Nat :=
  35 :: (d4 f.yr ++ d2 f.mon ++ d2 f.day) ++ 46 :: (d2 f.hr ++ d2 f.min ++ d2 f.sec ++ d3 f.ms ++ d3 extra)

/-- `strconv.Atoi` on a slice of digits (no sign handling: a sign or any non-digit is an error
here; Go's Atoi accepts a leading sign, the literal lexer never produces one) -/
def atoi : List Nat → Option Int
  | [] => none
  | cs => cs.foldl (fun (acc : Option Int) (c : Nat) => match acc with
      | none => none
      | some v => if 48 ≤ c ∧ c ≤ 57 then some (v * 10 + ((c : Int) - 48)) else none) (some 0)

/-- `nsub(s, from, to)`: 0 when `to > len(s)`, −1 on a conversion error -/
def nsub (s : List Nat) (fr to : Nat) : Int :=
  if to > s.length then 0
  else match atoi ((s.drop fr).take (to - fr)) with
    | some v => v
    | none => -1

def indexOf (c : Nat) : List Nat → Option Nat
  | [] => none
  | x :: xs => if x = c then some 0 else (indexOf c xs).map (· + 1)

/-- `DateFromLiteral`: `none` = NilDate; extra = 0 for a plain date -/
def fromLiteral (s0 : List Nat) : Option (Fields × Int) :=
  let s := match s0 with
    | 35 :: r => r
    | r => r
  let datelen := (indexOf 46 s).getD s.length
  let timelen := match indexOf 46 s with
    | none => 0
    | some i => s.length - i - 1
  if datelen ≠ 8 ∨ (timelen ≠ 0 ∧ timelen ≠ 4 ∧ timelen ≠ 6 ∧ timelen ≠ 9 ∧ timelen ≠ 12) then none
  else
    let f : Fields := ⟨nsub s 0 4, nsub s 4 6, nsub s 6 8, nsub s 9 11, nsub s 11 13, nsub s 13 15,
      nsub s 15 18⟩
    if timelen = 12 then
      let extra := nsub s 18 21
      if extra ≤ 0 ∨ extra ≥ 256 then none
      else if valid f then some (f, extra) else some (⟨0, 0, 0, 0, 0, 0, 0⟩, extra)
    else if valid f then some (f, 0) else none

end Gsu.Date
