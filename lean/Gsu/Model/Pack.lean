/-
M-ENC / pack: executable mirror of the value packing in `core/pack.go`, `core/suint64.go`
(`packInt`, `unpackInt`), `core/sudnum.go` (`SuDnum.Pack`, `UnpackNumber`, `intable`,
`unpackDnum`), `core/sustr.go` (`SuStr.Pack`), `core/sudate.go` / `core/sutimestamp.go`
(`Pack`, `UnpackDate`) and the member framing of `core/suobject.go` (`pack`, `unpackObject`).
Core-only (linked into the driver).

Numbers are modelled over `Nat`/`Int` with explicit `% 2^64` where the Go code computes in
`uint64`, digits most-significant first. `smi` packs through `dnum.FromInt` + `SuDnum.Pack`,
`SuInt64` through `packInt` (mirrored separately; `pack_canonical` relates them).

`intable` mirrors the REPAIRED range test (see findings/C13.md, fixes/26-intable-minprefix.patch):
the unchanged code compares `PackedMinInt64 <= s` byte-wise, which is false when `s` is a proper
prefix of `PackedMinInt64` (e.g. -9223372036854775800) although the value is in range.
-/
import Gsu.Util.Proto
namespace Gsu.Pack
open Gsu.Proto

/-- byte-wise comparison (`strings.Compare`) -/
def cmpB : Bytes → Bytes → Ordering
  | [], [] => .eq
  | [], _ :: _ => .lt
  | _ :: _, [] => .gt
  | a :: as, b :: bs => if a < b then .lt else if b < a then .gt else cmpB as bs

/-- `strings.HasPrefix s p` -/
def isPrefix : Bytes → Bytes → Bool
  | [], _ => true
  | _ :: _, [] => false
  | a :: p, b :: s => a == b && isPrefix p s

/-! ## tags (`core/pack.go`), tied to the generated constants by `Props.C13.tag_order` -/
def tagFalse : UInt8 := 0
def tagTrue : UInt8 := 1
def tagMinus : UInt8 := 2
def tagPlus : UInt8 := 3
def tagString : UInt8 := 4
def tagDate : UInt8 := 5
def tagObject : UInt8 := 6
def tagRecord : UInt8 := 7

/-! ## decimal digits -/

/-- the `for u > 0 { i--; buf[i] = u % 10; u /= 10 }` loop; `fuel` = size of `buf` -/
def digitsF : Nat → Nat → List Nat → List Nat
  | 0, _, acc => acc
  | f + 1, n, acc => if n = 0 then acc else digitsF f (n / 10) (n % 10 :: acc)

/-- `buf[i:20]`, most significant first (`buf` is `[20]byte`; a uint64 has at most 20 digits) -/
def digits10 (n : Nat) : List Nat := digitsF 20 n []

/-- drop trailing zeros: `for lim := 19; lim > 0 && buf[lim] == 0; lim--` gives `buf[i:lim+1]` -/
def stripZ : List Nat → List Nat
  | [] => []
  | d :: ds => match stripZ ds with
    | [] => if d = 0 then [] else [d]
    | r => d :: r

/-- two digits per byte, an odd last digit is padded with 0 -/
def pairs : List Nat → List Nat
  | [] => []
  | [d] => [d * 10]
  | d :: e :: rest => (d * 10 + e) :: pairs rest

/-- value of a most-significant-first digit list in base `b` -/
def ofMsd (b : Nat) : List Nat → Nat := List.foldl (fun acc d => acc * b + d) 0

def xorBytes (xor : UInt8) (ps : List Nat) : Bytes := ps.map fun p => UInt8.ofNat p ^^^ xor

/-- `byte(exp) ^ 0x80 ^ xor` for a Go `int` exponent -/
def expByte (exp : Int) (xor : UInt8) : UInt8 := UInt8.ofNat (exp % 256).toNat ^^^ 0x80 ^^^ xor

/-- `int8(b)` -/
def toInt8 (b : UInt8) : Int := if b.toNat < 128 then b.toNat else (b.toNat : Int) - 256

/-! ## `packInt` (core/suint64.go) -/

def packInt (n : Int) : Bytes :=
  let u := n.natAbs
  let xor : UInt8 := if n < 0 then 0xff else 0
  let tag := if n < 0 then tagMinus else tagPlus
  if u = 0 then [tag]
  else
    let ds := digits10 u
    tag :: expByte ds.length xor :: xorBytes xor (pairs (stripZ ds))

/-- `packSizeInt` -/
def packSizeInt (n : Int) : Nat :=
  let u := n.natAbs
  if u = 0 then 1 else 2 + (pairs (stripZ (digits10 u))).length

def minInt64 : Int := -9223372036854775808
def maxInt64 : Int := 9223372036854775807
def packedMinInt64 : Bytes := packInt minInt64
def packedMaxInt64 : Bytes := packInt maxInt64

/-! ## `dnum.Dnum` and `SuDnum.Pack` -/

/-- `dnum.Dnum`: sign ∈ {-2 (−inf), -1, 0, +1, +2 (+inf)}, value = sign · 0.coef · 10^exp -/
structure Dnum where
  sign : Int
  coef : Nat
  exp : Int
deriving DecidableEq, Repr

def coefMin : Nat := 1000000000000000
def coefMax : Nat := 9999999999999999

/-- normalised finite non-zero dnum: 16 significant digits, int8 exponent -/
def Dnum.Norm (d : Dnum) : Prop :=
  (d.sign = 1 ∨ d.sign = -1) ∧ coefMin ≤ d.coef ∧ d.coef ≤ coefMax ∧ -128 ≤ d.exp ∧ d.exp ≤ 127

instance (d : Dnum) : Decidable d.Norm := by unfold Dnum.Norm; exact inferInstance

/-- the unrolled `Put1(byte(coef/E14)); coef %= E14; if coef == 0 return; …`:
`coefBytes 7 coef` (level k divides by 100^k) -/
def coefBytes : Nat → Nat → List Nat
  | 0, c => [c]
  | k + 1, c => c / 100 ^ (k + 1) ::
      (if c % 100 ^ (k + 1) = 0 then [] else coefBytes k (c % 100 ^ (k + 1)))

def packDnum (d : Dnum) : Bytes :=
  let xor : UInt8 := if d.sign < 0 then 0xff else 0
  let tag := if d.sign < 0 then tagMinus else tagPlus
  if d.sign = 0 then [tag]
  else if d.sign = 2 ∨ d.sign = -2 then [tag, ~~~xor, ~~~xor]
  else tag :: expByte d.exp xor :: xorBytes xor (coefBytes 7 d.coef)

/-- `SuDnum.PackSize` -/
def packSizeDnum (d : Dnum) : Nat :=
  if d.sign = 0 then 1
  else if d.sign = 2 ∨ d.sign = -2 then 3
  else 2 + (coefBytes 7 d.coef).length

/-- `dnum.New` restricted to what `FromInt` needs (sign ±1, exp = 16): maximise the coefficient
in 16 digits, rounding half up when there are more than 16 digits -/
def roundTo16 : Nat → Nat → Int → Nat × Int
  | 0, c, e => (c, e)
  | f + 1, c, e => if c > coefMax then roundTo16 f ((c + 5) / 10) (e + 1) else (c, e)

/-- `dnum.FromInt` -/
def fromInt (n : Int) : Dnum :=
  if n = 0 then ⟨0, 0, 0⟩
  else
    let u := n.natAbs
    let sign : Int := if n < 0 then -1 else 1
    if u > coefMax then
      let (c, e) := roundTo16 5 u 16
      ⟨sign, c, e⟩
    else
      let nd := (digits10 u).length
      ⟨sign, u * 10 ^ (16 - nd), (nd : Int)⟩

/-- what `smi.Pack` does -/
def packSmi (n : Int) : Bytes := packDnum (fromInt n)

/-! ## `UnpackNumber` (core/sudnum.go), `unpackInt` (core/suint64.go) -/

inductive Num where
  | int (n : Int)
  | dnum (d : Dnum)
  | err            -- the Go code panics (index out of range / invalid packed number length)
deriving DecidableEq, Repr

def u64 : Nat := 18446744073709551616

/-- the coefficient bytes of a packed number with the sign complement removed -/
def unxor (xor : UInt8) (bs : Bytes) : List Nat := bs.map fun b => (b ^^^ xor).toNat

/-- `int8(2*(len(s)-2) - 1)` for `n = len(s) - 2` coefficient bytes -/
def lastOf (n : Int) : Int := toInt8 (UInt8.ofNat ((2 * n - 1) % 256).toNat)

/-- `unpackInt` on the un-xored coefficient bytes `ds` (non-empty), computed in uint64 -/
def unpackIntU (ds : List Nat) (exp : Int) : Nat :=
  let last : Int := lastOf ds.length
  let u := (ds.dropLast).foldl (fun u d => (u * 100 + d) % u64) 0
  let d := ds.getLast?.getD 0
  if exp = last then (u * 10 + d / 10) % u64
  else
    let u := (u * 100 + d) % u64
    -- `for j := last + 1; j < exp; j++ { u *= 10 }`
    (u * 10 ^ (exp - last - 1).toNat) % u64

/-- `int(u)` then negate for sign −1, in 64-bit two's complement -/
def toSigned (sign : Int) (u : Nat) : Int :=
  let n : Int := if u < 9223372036854775808 then u else (u : Int) - u64
  if sign = -1 then (if n = minInt64 then minInt64 else -n) else n

/-- `intable` (with the repaired lower range test) -/
def intable (s : Bytes) (exp : Int) (xor : UInt8) : Bool :=
  if exp < 0 ∨ 19 < exp then false
  else
    let e : Int := lastOf ((s.length : Int) - 2)
    let lastb := ((s.getLast?.getD 0) ^^^ xor).toNat
    if exp < e ∨ (exp = e ∧ lastb % 10 ≠ 0) then false
    else (cmpB packedMinInt64 s != .gt || isPrefix s packedMinInt64) && cmpB s packedMaxInt64 != .gt

/-- `unpackDnum`: 1 … 8 coefficient bytes -/
def unpackDnumCoef (ds : List Nat) : Option Nat :=
  if ds.length = 0 ∨ ds.length > 8 then none
  else some ((ofMsd 100 ds * 100 ^ (8 - ds.length)) % u64)

def unpackNumber (s : Bytes) : Num :=
  match s with
  | [] => .int 0
  | [_] => .int 0
  | [_, _] => .err                      -- `s[2]` index out of range
  | t :: eb :: s2 :: rest =>
    let neg := t == tagMinus
    let sign : Int := if neg then -1 else 1
    let xor : UInt8 := if neg then 0xff else 0
    if s2 == ~~~xor then .dnum ⟨2 * sign, 1, 0⟩
    else
      let exp := toInt8 (eb ^^^ 0x80 ^^^ xor)
      let ds := unxor xor (s2 :: rest)
      if intable s exp xor then .int (toSigned sign (unpackIntU ds exp))
      else match unpackDnumCoef ds with
        | some c => .dnum ⟨sign, c, exp⟩
        | none => .err

/-! ## value order of numbers (`dnum.Compare`, `cmp.Compare` on int64) -/

def cmpInt (a b : Int) : Ordering := if a < b then .lt else if b < a then .gt else .eq
def cmpNat (a b : Nat) : Ordering := if a < b then .lt else if b < a then .gt else .eq

def flipIf (neg : Bool) (o : Ordering) : Ordering := if neg then o.swap else o

/-- `dnum.Compare` -/
def cmpDnum (x y : Dnum) : Ordering :=
  if x.sign < y.sign then .lt else if x.sign > y.sign then .gt
  else if x = y then .eq
  else if x.sign = 0 ∨ x.sign = -2 ∨ x.sign = 2 then .eq
  else
    let neg := x.sign < 0
    if x.exp < y.exp then flipIf neg .lt else if x.exp > y.exp then flipIf neg .gt
    else if x.coef < y.coef then flipIf neg .lt else if x.coef > y.coef then flipIf neg .gt
    else .eq

/-- `dnum` view of an unpacked number (`ToDnum`) -/
def Num.toDnum : Num → Dnum
  | .int n => fromInt n
  | .dnum d => d
  | .err => ⟨0, 0, 0⟩

/-- `SuInt64.Compare` / `smi.Compare` / `SuDnum.Compare` on numbers: two ints compare as
int64, anything else through `ToDnum` (lossy above 16 digits, as in the code) -/
def cmpNum : Num → Num → Ordering
  | .int a, .int b => cmpInt a b
  | a, b => cmpDnum a.toDnum b.toDnum

/-! ## strings, booleans, dates, timestamps -/

def packStr (s : Bytes) : Bytes := if s = [] then [] else tagString :: s
def packBool (b : Bool) : Bytes := if b then [tagTrue] else [tagFalse]

/-- `Encoder.Uint32` (big endian) -/
def be32 (n : Nat) : Bytes :=
  [UInt8.ofNat (n / 16777216), UInt8.ofNat (n / 65536), UInt8.ofNat (n / 256), UInt8.ofNat n]

def unbe32 : Bytes → Nat
  | [a, b, c, d] => a.toNat * 16777216 + b.toNat * 65536 + c.toNat * 256 + d.toNat
  | _ => 0

/-- `SuDate.Pack`: tag, date word, time word -/
def packDate (date time : Nat) : Bytes := tagDate :: (be32 date ++ be32 time)
/-- `SuTimestamp.Pack` -/
def packTs (date time extra : Nat) : Bytes := packDate date time ++ [UInt8.ofNat extra]

/-! ## containers: member framing (`packValue`, `unpackValue`, `Encoder.VarUint`) -/

/-- `binary.PutUvarint`; fuel 10 = MaxVarintLen64 -/
def varuintF : Nat → Nat → Bytes
  | 0, _ => []
  | f + 1, n => if n < 128 then [UInt8.ofNat n] else UInt8.ofNat (n % 128 + 128) :: varuintF f (n / 128)
def varuint (n : Nat) : Bytes := varuintF 10 n

/-- `binary.Uvarint` (value, rest); `none` = buffer too small / overflow (Go asserts) -/
def unvaruintF : Nat → Bytes → Option (Nat × Bytes)
  | 0, _ => none
  | _ + 1, [] => none
  | f + 1, b :: bs =>
    if b.toNat < 128 then some (b.toNat, bs)
    else match unvaruintF f bs with
      | some (v, r) => some (b.toNat - 128 + 128 * v, r)
      | none => none
def unvaruint (bs : Bytes) : Option (Nat × Bytes) := unvaruintF 10 bs

/-- `packValue`: varint length then the packed member -/
def frame (b : Bytes) : Bytes := varuint b.length ++ b

def frames (ms : List Bytes) : Bytes := ms.flatMap frame

/-- `SuObject.pack` given the packed members (list part, then named key/value alternating) -/
def packObj (tag : UInt8) (list : List Bytes) (named : List (Bytes × Bytes)) : Bytes :=
  if list = [] ∧ named = [] then [tag]
  else tag :: (varuint list.length ++ frames list ++ varuint named.length ++
    frames (named.flatMap fun kv => [kv.1, kv.2]))

/-- `unpackValue` n times -/
def unframeN : Nat → Bytes → Option (List Bytes × Bytes)
  | 0, bs => some ([], bs)
  | n + 1, bs =>
    match unvaruint bs with
    | none => none
    | some (len, r) =>
      if r.length < len then none
      else match unframeN n (r.drop len) with
        | some (ms, r') => some (r.take len :: ms, r')
        | none => none

def pairUp : List Bytes → List (Bytes × Bytes)
  | k :: v :: r => (k, v) :: pairUp r
  | _ => []

/-- `unpackObject`: the packed members of a packed object/record -/
def unpackObj (s : Bytes) : Option (List Bytes × List (Bytes × Bytes)) :=
  match s with
  | [] => some ([], [])
  | [_] => some ([], [])
  | _ :: body =>
    match unvaruint body with
    | none => none
    | some (n, r) =>
      match unframeN n r with
      | none => none
      | some (list, r2) =>
        match unvaruint r2 with
        | none => none
        | some (m, r3) =>
          match unframeN (2 * m) r3 with
          | none => none
          | some (kvs, _) => some (list, pairUp kvs)

/-! ## `Unpack` (core/pack.go): dispatch on the tag -/

/-- `UnpackDate` / `UnpackTimestamp`: (date, time, extra), extra = 0 for a plain date;
`none` = the Go code panics (short buffer, or the `extra != 0` assertion) -/
def unpackDate (s : Bytes) : Option (Nat × Nat × Nat) :=
  match s with
  | _ :: a :: b :: c :: d :: e :: f :: g :: h :: rest =>
    match rest with
    | [] => some (unbe32 [a, b, c, d], unbe32 [e, f, g, h], 0)
    | x :: _ => if x = 0 then none else some (unbe32 [a, b, c, d], unbe32 [e, f, g, h], x.toNat)
  | _ => none

inductive Val where
  | str (b : Bytes)
  | bool (b : Bool)
  | num (n : Num)
  | date (date time : Nat)
  | ts (date time extra : Nat)
  | obj (record : Bool) (list : List Bytes) (named : List (Bytes × Bytes))  -- packed members
  | err
deriving DecidableEq, Repr

/-- `Unpack` -/
def unpack (s : Bytes) : Val :=
  match s with
  | [] => .str []
  | t :: rest =>
    if t = tagFalse then .bool false
    else if t = tagTrue then .bool true
    else if t = tagString then .str rest
    else if t = tagDate then
      match unpackDate s with
      | some (d, tm, 0) => .date d tm
      | some (d, tm, x) => .ts d tm x
      | none => .err
    else if t = tagPlus ∨ t = tagMinus then
      match unpackNumber s with
      | .err => .err
      | n => .num n
    else if t = tagObject ∨ t = tagRecord then
      match unpackObj s with
      | some (l, n) => .obj (t = tagRecord) l n
      | none => .err
    else .err

end Gsu.Pack
