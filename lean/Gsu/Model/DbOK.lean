/-
M-DB: the hypotheses of the global-invariant theorems (Gsu/Proofs/DbInv*.lean, Props C06 / C03 /
C16), as executable checks, and the driver step that CHECKS them on every replayed operation:
`OpOK` (a table has a key, a written row carries one key per index of its table, an index is
built only if it is a key of the rows) and freshness of the offsets of the records that
successful writes add (append-only store).
An operation of a real trace that violates a hypothesis makes the driver answer `!hyp-…`, which
disagrees with every implementation output — so the correspondence run also shows that the
theorems' hypotheses hold on every history the suites generate. Core only.
-/
import Gsu.Model.DbDrive
namespace Gsu.Db

def distinctb : List Key → Bool
  | [] => true
  | k :: ks => !ks.contains k && distinctb ks

def rowOKb (s : State) (id tbl : Nat) (row : Row) : Bool :=
  match s.tran? id with
  | none => true
  | some t => match t.snap[tbl]? with
    | none => true
    | some sti => row.keys.length == sti.idx.length

def opOKb (s : State) : Op → Bool
  | .table n => decide (1 ≤ n)
  | .out id tbl row => rowOKb s id tbl row
  | .upd id tbl _ row => rowOKb s id tbl row
  | .buildC tbl nk => match s.mt[tbl]? with
    | none => true
    | some ti => distinctb (ti.rows.map fun r => nkLookup nk r.off)
  | _ => true

/-- the record an operation writes to the store -/
def Op.newRow : Op → Option Row
  | .out _ _ row => some row
  | .upd _ _ _ row => some row
  | _ => none

/-- the record a SUCCESSFUL write adds to the database (a failed Output / Update adds nothing; the
suites pass offset 0 for it) -/
def okRow (s : State) (op : Op) : Option Row :=
  match op.newRow with
  | some row => if (step s op).2 = "ok" then some row else none
  | none => none

/-- the offsets of the records written so far, after `op` -/
def usedAfter (used : List Off) (s : State) (op : Op) : List Off :=
  match okRow s op with
  | some row => row.off :: used
  | none => used

def freshb (used : List Off) (s : State) (op : Op) : Bool :=
  match okRow s op with
  | some row => !used.contains row.off
  | none => true

/-- driver state: the model state and the offsets of the records written so far -/
structure DState where
  s : State
  used : List Off

def DState.init : DState := ⟨State.init, []⟩

/-- `driveStep` with the hypotheses checked: same state change and output as `step`, unless the
operation violates a hypothesis of the theorems -/
def driveStepOK (ds : DState) (l : List String) : DState × String :=
  match l with
  | ["reset"] => (DState.init, "ok")
  | _ => match parseOp l with
    | some op =>
      if !opOKb ds.s op then (ds, "!hyp-opok")
      else if !freshb ds.used ds.s op then (ds, "!hyp-fresh")
      else (⟨(step ds.s op).1, usedAfter ds.used ds.s op⟩, (step ds.s op).2)
    | none => (ds, observe ds.s l)

end Gsu.Db
