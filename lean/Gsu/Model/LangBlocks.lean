/-
M-LANG, mini block language (C29): reference semantics of the documented scoping model
(docs/Closures.md, compile/ast/blocks.go):

  * a name used in a block denotes the storage of that name in the nearest enclosing scope that
    uses it (transitively), block parameters hide outer variables;
  * a name that no other scope reaches is private to each call (frame-local cell);
  * storage shared between scopes exists once per call of the outermost function: one cell per
    (binding scope, name) in a store that every closure created by that call refers to.

The bytecode generator and the interpreter (slot assignment, `moveLocalsToShared`, `op.Closure`)
are NOT mirrored; this semantics is tied to them by the correspondence suite only.
Core Lean only.
-/
namespace Gsu.LangBlocks

mutual
inductive Expr where
  | num (n : Int)
  | var (x : Nat)
  | add (a b : Expr)
  | call (f : Nat) (a : Expr)
  /-- block literal `{|params| … }`: shares names with the scopes around it -/
  | block (s : Scope)
  /-- nested `function (params) { … }`: a scoping root of its own, nothing is shared with it -/
  | fn (s : Scope)
inductive Stmt where
  /-- `x = e` -/
  | assign (x : Nat) (e : Expr)
  /-- `if (c) is 0 { x = e }` -/
  | ifz (c : Expr) (x : Nat) (e : Expr)
  /-- `try { x = e } catch (v) { }` -/
  | tryc (x : Nat) (e : Expr) (v : Nat)
  /-- `return e`: from the function that lexically contains it, also out of a block -/
  | ret (e : Expr)
inductive Scope where
  | mk (id : Nat) (params : List Nat) (body : List Stmt) (result : Expr)
end

instance : Inhabited Expr := ⟨.num 0⟩
instance : Inhabited Scope := ⟨.mk 0 [] [] (.num 0)⟩

def Scope.id : Scope → Nat | .mk i _ _ _ => i
def Scope.params : Scope → List Nat | .mk _ p _ _ => p
def Scope.body : Scope → List Stmt | .mk _ _ b _ => b
def Scope.result : Scope → Expr | .mk _ _ _ r => r

def isParam (s : Scope) (v : Nat) : Bool := s.params.contains v

/-- names an expression uses directly (not inside nested blocks) -/
def exprUses (v : Nat) : Expr → Bool
  | .num _ => false
  | .var x => x == v
  | .add a b => exprUses v a || exprUses v b
  | .call f a => f == v || exprUses v a
  | .block _ => false
  | .fn _ => false

/-- blocks written directly in an expression (nested functions are separate roots) -/
def exprKids : Expr → List Scope
  | .num _ => []
  | .var _ => []
  | .add a b => exprKids a ++ exprKids b
  | .call _ a => exprKids a
  | .block s => [s]
  | .fn _ => []

def stmtUses (v : Nat) : Stmt → Bool
  | .assign x e => x == v || exprUses v e
  | .ifz c x e => exprUses v c || x == v || exprUses v e
  | .tryc x e w => x == v || exprUses v e || w == v
  | .ret e => exprUses v e

def stmtKids : Stmt → List Scope
  | .assign _ e => exprKids e
  | .ifz c _ e => exprKids c ++ exprKids e
  | .tryc _ e _ => exprKids e
  | .ret e => exprKids e

/-- `v` is used directly in `s`: parameter, assigned, read, called, or a catch variable -/
def usesD (s : Scope) (v : Nat) : Bool :=
  isParam s v || s.body.any (stmtUses v) || exprUses v s.result

def kids (s : Scope) : List Scope :=
  s.body.flatMap stmtKids ++ exprKids s.result

/-- binding scope of `v` seen from `cur` whose enclosing scopes are `chain` (innermost first):
walk outwards over the scopes that use `v`; a parameter stops the walk. -/
def bindingGo : List Scope → Scope → Nat → Scope
  | [], cur, _ => cur
  | p :: rest, cur, v =>
    if isParam cur v then cur
    else if usesD p v then bindingGo rest p v
    else bindingGo rest cur v

/-- some scope nested in `s` reaches the `v` of `s` (uses it without a parameter in between) -/
def reach (v : Nat) : Nat → Scope → Bool
  | 0, _ => false
  | fuel + 1, s => (kids s).any fun k => !isParam k v && (usesD k v || reach v fuel k)

def reachFuel : Nat := 16

inductive Cell where
  | shared (scope : Nat) (name : Nat)
  | priv (name : Nat)
  deriving DecidableEq, Repr

/-- which cell `v` denotes in scope `s` with enclosing `chain` -/
def cellOf (s : Scope) (chain : List Scope) (v : Nat) : Cell :=
  let p := bindingGo chain s v
  if p.id != s.id || reach v reachFuel p then .shared p.id v else .priv v

inductive Val where
  | int (i : Int)
  /-- a closure: block, enclosing scopes, and the activation (outermost call) that created it -/
  | clo (s : Scope) (chain : List Scope) (act : Nat)
  | fnv (s : Scope)
  /-- an exception value caught by `catch` (the text is not modelled) -/
  | str

instance : Inhabited Val := ⟨.int 0⟩

/-- shared cells: (activation, binding scope, name) -/
abbrev Store := List ((Nat × Nat × Nat) × Val)
abbrev Locals := List (Nat × Val)

def sget (st : Store) (k : Nat × Nat × Nat) : Option Val :=
  match st with
  | [] => none
  | (k', v) :: rest => if k' = k then some v else sget rest k

def sput (st : Store) (k : Nat × Nat × Nat) (v : Val) : Store :=
  match st with
  | [] => [(k, v)]
  | (k', v') :: rest => if k' = k then (k, v) :: rest else (k', v') :: sput rest k v

def lget (l : Locals) (k : Nat) : Option Val :=
  match l with
  | [] => none
  | (k', v) :: rest => if k' = k then some v else lget rest k

def lput (l : Locals) (k : Nat) (v : Val) : Locals :=
  match l with
  | [] => [(k, v)]
  | (k', v') :: rest => if k' = k then (k, v) :: rest else (k', v') :: lput rest k v

structure Frame where
  s : Scope
  chain : List Scope
  /-- the call of the outermost function this frame belongs to -/
  act : Nat
  locals : Locals

structure State where
  store : Store
  /-- next activation number -/
  next : Nat

def readVar (fr : Frame) (st : State) (v : Nat) : Option Val :=
  match cellOf fr.s fr.chain v with
  | .shared p n => sget st.store (fr.act, p, n)
  | .priv n => lget fr.locals n

def writeVar (fr : Frame) (st : State) (v : Nat) (x : Val) : Frame × State :=
  match cellOf fr.s fr.chain v with
  | .shared p n => (fr, { st with store := sput st.store (fr.act, p, n) x })
  | .priv n => ({ fr with locals := lput fr.locals n x }, st)

def bindParams (fr : Frame) (st : State) : List Nat → List Val → Frame × State
  | p :: ps, a :: as => let (fr', st') := writeVar fr st p a; bindParams fr' st' ps as
  | _, _ => (fr, st)

/-- operands of a (nested) addition, left to right -/
def addOps : Expr → List Expr
  | .add a b => addOps a ++ addOps b
  | e => [e]

/-- state of one `commutative` pass: kept operands before / after the merged literal -/
structure AddSt where
  pre : List Expr
  k : Option Int
  post : List Expr

def AddSt.keep (st : AddSt) (xs : List Expr) : AddSt :=
  match st.k with
  | none => { st with pre := st.pre ++ xs }
  | some _ => { st with post := st.post ++ xs }

def AddSt.lit (st : AddSt) (n : Int) : AddSt :=
  if n = 0 then st
  else match st.k with
    | none => { st with k := some n }
    | some m => { st with k := some (m + n) }

/-- one operand `x` of `a + b`, `xs` = its own folded chain if it is an addition -/
def AddSt.item (st : AddSt) (x : Expr) (xs : List Expr) : AddSt :=
  match x with
  | .add _ _ => match xs with
    | [.num n] => st.lit n
    | _ => st.keep xs
  | .num n => st.lit n
  | e => st.keep [e]

def AddSt.finish (st : AddSt) : List Expr :=
  match st.k with
  | some n => st.pre ++ .num n :: st.post
  | none => match st.pre with
    | [] => [.num 0]
    | [e] => [e, .num 0]
    | l => l

/-- the operand chain the compiler really evaluates for a (nested, parenthesised) addition: the
folder works bottom-up (`commutative`): literal zeros are dropped, other literals are added into
the position of the first one, an operand that is itself a folded addition is spliced in as it is,
a chain left with one non-constant operand gets `+ 0` back. Values are unaffected (exact
integers); the order in which operands are evaluated and checked is. -/
def foldAddList : Expr → List Expr
  | .add a b =>
    let s1 := (AddSt.mk [] none []).item a (foldAddList a)
    let s2 := s1.item b (foldAddList b)
    s2.finish
  | e => [e]

/-- outcome of evaluating an expression / running statements -/
inductive Res (α : Type) where
  /-- an exception (uninitialized variable, not a number, not callable, wrong number of
  arguments) or fuel exhausted; the state at that point is kept for `catch` -/
  | err (st : State)
  | ok (a : α) (fr : Frame) (st : State)
  /-- a `return` on its way to the function activation `act` -/
  | ret (act : Nat) (v : Val) (st : State)

/- evaluation. The callee variable is read after its argument. -/
mutual
def evalE : Nat → Frame → State → Expr → Res Val
  | 0, _, st, _ => .err st
  | _ + 1, fr, st, .num n => .ok (.int n) fr st
  | _ + 1, fr, st, .var x =>
    match readVar fr st x with
    | some v => .ok v fr st
    | none => .err st
  | fuel + 1, fr, st, .add a b =>
    -- parenthesised nested additions are one left-to-right chain (the compiler flattens them):
    -- `a + (b + c)` checks `a + b` before `c` is evaluated
    match foldAddList (.add a b) with
    | [] => .err st
    | e1 :: rest =>
      match evalE fuel fr st e1 with
      | .ok v fr1 st1 => evalAdds fuel fr1 st1 v rest
      | .err s => .err s
      | .ret a v s => .ret a v s
  | fuel + 1, fr, st, .call f a =>
    match evalE fuel fr st a with
    | .ok arg fr1 st1 =>
      match readVar fr1 st1 f with
      | some (.clo s chain act) =>
        if s.params.length = 1 then
          let (fr0, st0) := bindParams ⟨s, chain, act, []⟩ st1 s.params [arg]
          match runBody fuel fr0 st0 s.body with
          | .ok _ frb stb =>
            match evalE fuel frb stb s.result with
            | .ok v _ st2 => .ok v fr1 st2
            | .err s => .err s
            | .ret a v s => .ret a v s
          | .err s => .err s
          | .ret a v s => .ret a v s
        else .err st1
      | some (.fnv s) =>
        if s.params.length = 1 then
          let act := st1.next
          let (fr0, st0) := bindParams ⟨s, [], act, []⟩ { st1 with next := act + 1 } s.params [arg]
          match runBody fuel fr0 st0 s.body with
          | .ok _ frb stb =>
            match evalE fuel frb stb s.result with
            | .ok v _ st2 => .ok v fr1 st2
            | .err s => .err s
            | .ret a v s => if a = act then .ok v fr1 s else .ret a v s
          | .err s => .err s
          | .ret a v s => if a = act then .ok v fr1 s else .ret a v s
        else .err st1
      | _ => .err st1
    | .err s => .err s
    | .ret a v s => .ret a v s
  | _ + 1, fr, st, .block s => .ok (.clo s (fr.s :: fr.chain) fr.act) fr st
  | _ + 1, fr, st, .fn s => .ok (.fnv s) fr st

/-- the remaining operands of an addition chain -/
def evalAdds : Nat → Frame → State → Val → List Expr → Res Val
  | 0, _, st, _, _ => .err st
  | _ + 1, fr, st, acc, [] => .ok acc fr st
  | fuel + 1, fr, st, acc, e :: rest =>
    match evalE fuel fr st e with
    | .ok v fr1 st1 =>
      match acc, v with
      | .int x, .int y => evalAdds fuel fr1 st1 (.int (x + y)) rest
      | _, _ => .err st1
    | .err s => .err s
    | .ret a v s => .ret a v s

/-- the statements of a scope body, in order -/
def runBody : Nat → Frame → State → List Stmt → Res Unit
  | 0, _, st, _ => .err st
  | _ + 1, fr, st, [] => .ok () fr st
  | fuel + 1, fr, st, .assign x e :: rest =>
    match evalE fuel fr st e with
    | .ok v fr' st' =>
      let (fr'', st'') := writeVar fr' st' x v
      runBody fuel fr'' st'' rest
    | .err s => .err s
    | .ret a v s => .ret a v s
  | fuel + 1, fr, st, .ifz c x e :: rest =>
    match evalE fuel fr st c with
    | .ok (.int 0) fr1 st1 =>
      match evalE fuel fr1 st1 e with
      | .ok v fr' st' =>
        let (fr'', st'') := writeVar fr' st' x v
        runBody fuel fr'' st'' rest
      | .err s => .err s
      | .ret a v s => .ret a v s
    | .ok _ fr1 st1 => runBody fuel fr1 st1 rest
    | .err s => .err s
    | .ret a v s => .ret a v s
  | fuel + 1, fr, st, .tryc x e w :: rest =>
    match evalE fuel fr st e with
    | .ok v fr' st' =>
      let (fr'', st'') := writeVar fr' st' x v
      runBody fuel fr'' st'' rest
    | .err s =>
      -- private locals written inside the failed expression are those of callee frames only
      let (fr'', st'') := writeVar fr s w .str
      runBody fuel fr'' st'' rest
    | .ret a v s => .ret a v s
  | fuel + 1, fr, st, .ret e :: _ =>
    match evalE fuel fr st e with
    | .ok v _ st' => .ret fr.act v st'
    | .err s => .err s
    | .ret a v s => .ret a v s
end

/-- one call of the outermost function with every parameter = `arg`: a fresh store -/
def runTop (fuel : Nat) (s : Scope) (arg : Int) : Option Val :=
  let (fr0, st0) := bindParams ⟨s, [], 0, []⟩ ⟨[], 1⟩ s.params (s.params.map fun _ => Val.int arg)
  match runBody fuel fr0 st0 s.body with
  | .ok _ frb stb =>
    match evalE fuel frb stb s.result with
    | .ok v _ _ => some v
    | .ret a v _ => if a = 0 then some v else none
    | .err _ => none
  | .ret a v _ => if a = 0 then some v else none
  | .err _ => none

/-- names a scope mentions directly (for the sharing analysis) -/
def exprNames : Expr → List Nat
  | .num _ => []
  | .var x => [x]
  | .add a b => exprNames a ++ exprNames b
  | .call f a => f :: exprNames a
  | .block _ => []
  | .fn _ => []

def stmtNames : Stmt → List Nat
  | .assign x e => x :: exprNames e
  | .ifz c x e => exprNames c ++ x :: exprNames e
  | .tryc x e w => x :: exprNames e ++ [w]
  | .ret e => exprNames e

/-- a block contains a `return` (it must then be a closure: it needs its creator's frame) -/
def hasRet (s : Scope) : Bool := s.body.any fun st => match st with | .ret _ => true | _ => false

def namesD (s : Scope) : List Nat :=
  s.params ++ s.body.flatMap stmtNames ++ exprNames s.result

/-- `Block.CompileAsFunction = false`: the block (or a block nested in it) uses a name bound
outside itself. Mirror of the outcome of `ast.Blocks` (assignShared). -/
def isClosure : Nat → List Scope → Scope → Bool
  | 0, _, _ => true
  | fuel + 1, chain, k =>
    hasRet k || (namesD k).any (fun v => (bindingGo chain k v).id != k.id) ||
      (kids k).any (fun c => isClosure fuel (k :: chain) c)

/-- pre-order list of (block id, compiled as closure) below the outermost function -/
def closureTable : Nat → List Scope → Scope → List (Nat × Bool)
  | 0, _, _ => []
  | fuel + 1, chain, s =>
    (kids s).flatMap fun k => (k.id, isClosure reachFuel (s :: chain) k) :: closureTable fuel (s :: chain) k

end Gsu.LangBlocks
