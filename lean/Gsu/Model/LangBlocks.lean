/-
M-LANG, mini block language (C29): reference semantics of the documented scoping model
(docs/Closures.md, compile/ast/blocks.go):

  * a name used in a block denotes the storage of that name in the nearest enclosing scope that
    uses it (transitively), block parameters hide outer variables;
  * a name that no other scope reaches is private to each call (frame-local cell);
  * storage shared between scopes exists once per call of the outermost function: one cell per
    (binding scope, name) in a store that every closure created by that call refers to.

The bytecode generator and the interpreter (slot assignment, `moveLocalsToShared`, `op.Closure`)
are NOT mirrored; this semantics is tied to them by the correspondence suite only.
Core Lean only.
-/
namespace Gsu.LangBlocks

mutual
inductive Expr where
  | num (n : Int)
  | var (x : Nat)
  | add (a b : Expr)
  | call (f : Nat) (a : Expr)
  | block (s : Scope)
inductive Scope where
  | mk (id : Nat) (params : List Nat) (body : List (Nat × Expr)) (result : Expr)
end

instance : Inhabited Expr := ⟨.num 0⟩
instance : Inhabited Scope := ⟨.mk 0 [] [] (.num 0)⟩

def Scope.id : Scope → Nat | .mk i _ _ _ => i
def Scope.params : Scope → List Nat | .mk _ p _ _ => p
def Scope.body : Scope → List (Nat × Expr) | .mk _ _ b _ => b
def Scope.result : Scope → Expr | .mk _ _ _ r => r

def isParam (s : Scope) (v : Nat) : Bool := s.params.contains v

/-- names an expression uses directly (not inside nested blocks) -/
def exprUses (v : Nat) : Expr → Bool
  | .num _ => false
  | .var x => x == v
  | .add a b => exprUses v a || exprUses v b
  | .call f a => f == v || exprUses v a
  | .block _ => false

/-- blocks written directly in an expression -/
def exprKids : Expr → List Scope
  | .num _ => []
  | .var _ => []
  | .add a b => exprKids a ++ exprKids b
  | .call _ a => exprKids a
  | .block s => [s]

/-- `v` is used directly in `s`: parameter, assigned, read or called -/
def usesD (s : Scope) (v : Nat) : Bool :=
  isParam s v || s.body.any (fun st => st.1 == v || exprUses v st.2) || exprUses v s.result

def kids (s : Scope) : List Scope :=
  s.body.flatMap (fun st => exprKids st.2) ++ exprKids s.result

/-- binding scope of `v` seen from `cur` whose enclosing scopes are `chain` (innermost first):
walk outwards over the scopes that use `v`; a parameter stops the walk. -/
def bindingGo : List Scope → Scope → Nat → Scope
  | [], cur, _ => cur
  | p :: rest, cur, v =>
    if isParam cur v then cur
    else if usesD p v then bindingGo rest p v
    else bindingGo rest cur v

/-- some scope nested in `s` reaches the `v` of `s` (uses it without a parameter in between) -/
def reach (v : Nat) : Nat → Scope → Bool
  | 0, _ => false
  | fuel + 1, s => (kids s).any fun k => !isParam k v && (usesD k v || reach v fuel k)

def reachFuel : Nat := 16

inductive Cell where
  | shared (scope : Nat) (name : Nat)
  | priv (name : Nat)
  deriving DecidableEq, Repr

/-- which cell `v` denotes in scope `s` with enclosing `chain` -/
def cellOf (s : Scope) (chain : List Scope) (v : Nat) : Cell :=
  let p := bindingGo chain s v
  if p.id != s.id || reach v reachFuel p then .shared p.id v else .priv v

inductive Val where
  | int (i : Int)
  | clo (s : Scope) (chain : List Scope)

instance : Inhabited Val := ⟨.int 0⟩

abbrev Store := List ((Nat × Nat) × Val)
abbrev Locals := List (Nat × Val)

def sget (st : Store) (k : Nat × Nat) : Option Val :=
  match st with
  | [] => none
  | (k', v) :: rest => if k' = k then some v else sget rest k

def sput (st : Store) (k : Nat × Nat) (v : Val) : Store :=
  match st with
  | [] => [(k, v)]
  | (k', v') :: rest => if k' = k then (k, v) :: rest else (k', v') :: sput rest k v

def lget (l : Locals) (k : Nat) : Option Val :=
  match l with
  | [] => none
  | (k', v) :: rest => if k' = k then some v else lget rest k

def lput (l : Locals) (k : Nat) (v : Val) : Locals :=
  match l with
  | [] => [(k, v)]
  | (k', v') :: rest => if k' = k then (k, v) :: rest else (k', v') :: lput rest k v

structure Frame where
  s : Scope
  chain : List Scope
  locals : Locals

def readVar (fr : Frame) (st : Store) (v : Nat) : Option Val :=
  match cellOf fr.s fr.chain v with
  | .shared p n => sget st (p, n)
  | .priv n => lget fr.locals n

def writeVar (fr : Frame) (st : Store) (v : Nat) (x : Val) : Frame × Store :=
  match cellOf fr.s fr.chain v with
  | .shared p n => (fr, sput st (p, n) x)
  | .priv n => ({ fr with locals := lput fr.locals n x }, st)

def bindParams (fr : Frame) (st : Store) : List Nat → List Val → Frame × Store
  | p :: ps, a :: as => let (fr', st') := writeVar fr st p a; bindParams fr' st' ps as
  | _, _ => (fr, st)

/- evaluation; `none` = an exception (uninitialized variable, not a number, not callable,
wrong number of arguments) or fuel exhausted. The callee variable is read after its argument. -/
mutual
def evalE : Nat → Frame → Store → Expr → Option (Val × Frame × Store)
  | 0, _, _, _ => none
  | _ + 1, fr, st, .num n => some (.int n, fr, st)
  | _ + 1, fr, st, .var x => (readVar fr st x).map fun v => (v, fr, st)
  | fuel + 1, fr, st, .add a b =>
    match evalE fuel fr st a with
    | some (.int x, fr1, st1) =>
      match evalE fuel fr1 st1 b with
      | some (.int y, fr2, st2) => some (.int (x + y), fr2, st2)
      | _ => none
    | _ => none
  | fuel + 1, fr, st, .call f a =>
    match evalE fuel fr st a with
    | some (arg, fr1, st1) =>
      match readVar fr1 st1 f with
      | some (.clo s chain) =>
        if s.params.length = 1 then
          let (fr0, st0) := bindParams ⟨s, chain, []⟩ st1 s.params [arg]
          match runBody fuel fr0 st0 s.body with
          | some (frb, stb) =>
            match evalE fuel frb stb s.result with
            | some (v, _, st2) => some (v, fr1, st2)
            | none => none
          | none => none
        else none
      | _ => none
    | none => none
  | _ + 1, fr, st, .block s => some (.clo s (fr.s :: fr.chain), fr, st)

/-- the statements `x = e` of a scope body, in order -/
def runBody : Nat → Frame → Store → List (Nat × Expr) → Option (Frame × Store)
  | 0, _, _, _ => none
  | _ + 1, fr, st, [] => some (fr, st)
  | fuel + 1, fr, st, (x, e) :: rest =>
    match evalE fuel fr st e with
    | some (v, fr', st') =>
      let (fr'', st'') := writeVar fr' st' x v
      runBody fuel fr'' st'' rest
    | none => none
end

/-- one call of the outermost function with every parameter = `arg`: a fresh store -/
def runTop (fuel : Nat) (s : Scope) (arg : Int) : Option Val :=
  let (fr0, st0) := bindParams ⟨s, [], []⟩ [] s.params (s.params.map fun _ => Val.int arg)
  match runBody fuel fr0 st0 s.body with
  | some (frb, stb) => (evalE fuel frb stb s.result).map (·.1)
  | none => none

/-- names a scope mentions directly (for the sharing analysis) -/
def exprNames : Expr → List Nat
  | .num _ => []
  | .var x => [x]
  | .add a b => exprNames a ++ exprNames b
  | .call f a => f :: exprNames a
  | .block _ => []

def namesD (s : Scope) : List Nat :=
  s.params ++ s.body.flatMap (fun st => st.1 :: exprNames st.2) ++ exprNames s.result

/-- `Block.CompileAsFunction = false`: the block (or a block nested in it) uses a name bound
outside itself. Mirror of the outcome of `ast.Blocks` (assignShared). -/
def isClosure : Nat → List Scope → Scope → Bool
  | 0, _, _ => true
  | fuel + 1, chain, k =>
    (namesD k).any (fun v => (bindingGo chain k v).id != k.id) ||
      (kids k).any (fun c => isClosure fuel (k :: chain) c)

/-- pre-order list of (block id, compiled as closure) below the outermost function -/
def closureTable : Nat → List Scope → Scope → List (Nat × Bool)
  | 0, _, _ => []
  | fuel + 1, chain, s =>
    (kids s).flatMap fun k => (k.id, isClosure reachFuel (s :: chain) k) :: closureTable fuel (s :: chain) k

end Gsu.LangBlocks
