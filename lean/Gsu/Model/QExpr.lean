/-
M-LANG expressions as queries use them (core-only): mirror of `compile/ast/expr.go`
(`Eval`, `CanEvalRaw`, `EvalRaw`) for constants, columns, the six comparisons, `not`, `and`, `or`,
`?:`, `in (constants)`, `+ - *`, unary minus, over the values of `Gsu.QVal`.

* `eval`     — the language meaning (`Binary.eval`/`OpIs`/`strictCompare`/`OpAdd` … on values),
               what `Where.Simple` uses after `ast.Unraw`.
* `canRaw`   — `CanEvalRaw(flds)`: the node can be evaluated on stored encodings.
* `evalRaw`  — `EvalRaw`: evaluation on stored encodings (`packedCmp`, `==` on packed strings).
* `evalX`    — what execution (`Where.filter`, `Extend`) does: each node uses `evalRaw` when its
               `evalRaw` flag is set (= `canRaw`), the language operation otherwise.

Type errors ("can't convert to number/boolean") are not modelled as exceptions: `eval` is total
and yields `""`/`false`; the correspondence generator is typed and never produces them.
-/
import Gsu.Model.QVal
namespace Gsu.QExpr
open Gsu.Proto Gsu.QVal

abbrev Col := Nat
abbrev Row := List (Col × Val)

/-- `Row.GetVal`: a column that is absent reads as `""` -/
def get (r : Row) (c : Col) : Val :=
  match r.lookup c with
  | some v => v
  | none => Val.empty

inductive CmpOp where
  | is | isnt | lt | lte | gt | gte
  deriving DecidableEq, Repr

inductive ArOp where
  | add | sub | mul
  deriving DecidableEq, Repr

inductive Expr where
  | const (v : Val)
  | col (c : Col)
  | cmp (op : CmpOp) (a b : Expr)
  | not (a : Expr)
  | and (a b : Expr)
  | or (a b : Expr)
  | cond (c a b : Expr)
  | inl (a : Expr) (vs : List Val)
  | ar (op : ArOp) (a b : Expr)
  | neg (a : Expr)
  deriving Repr, Inhabited

/-- `Expr.Columns()` -/
def Expr.cols : Expr → List Col
  | .const _ => []
  | .col c => [c]
  | .cmp _ a b => a.cols ++ b.cols
  | .not a => a.cols
  | .and a b => a.cols ++ b.cols
  | .or a b => a.cols ++ b.cols
  | .cond c a b => c.cols ++ a.cols ++ b.cols
  | .inl a _ => a.cols
  | .ar _ a b => a.cols ++ b.cols
  | .neg a => a.cols

def ordOp (op : CmpOp) (o : Ordering) : Bool :=
  match op with
  | .is => o == .eq
  | .isnt => o != .eq
  | .lt => o == .lt
  | .lte => o != .gt
  | .gt => o == .gt
  | .gte => o != .lt

/-- `Binary.eval` for the comparison tokens: `OpIs`/`OpIsnt` are value equality, the others
`strictCompare` -/
def cmpVal (op : CmpOp) (x y : Val) : Bool :=
  match op with
  | .is => x == y
  | .isnt => x != y
  | _ => ordOp op (compare x y)

/-- `EvalRaw` of a comparison: `==` / `packedCmp` on the encodings -/
def cmpRaw (op : CmpOp) (x y : Bytes) : Bool :=
  match op with
  | .is => x == y
  | .isnt => x != y
  | _ => ordOp op (cmpB x y)

def arith (op : ArOp) (x y : Val) : Val :=
  match toNum x, toNum y with
  | some a, some b =>
    .int (match op with | .add => a + b | .sub => a - b | .mul => a * b)
  | _, _ => Val.empty

def negVal (x : Val) : Val :=
  match toNum x with
  | some a => .int (-a)
  | none => Val.empty

/-- language meaning -/
def eval (r : Row) : Expr → Val
  | .const v => v
  | .col c => get r c
  | .cmp op a b => .bool (cmpVal op (eval r a) (eval r b))
  | .not a => .bool (!isTrue (eval r a))
  | .and a b => .bool (isTrue (eval r a) && isTrue (eval r b))
  | .or a b => .bool (isTrue (eval r a) || isTrue (eval r b))
  | .cond c a b => if isTrue (eval r c) then eval r a else eval r b
  | .inl a vs => .bool (vs.contains (eval r a))
  | .ar op a b => arith op (eval r a) (eval r b)
  | .neg a => negVal (eval r a)

/-- `CanEvalRaw(flds)` -/
def canRaw (flds : List Col) : Expr → Bool
  | .const _ => true
  | .col c => flds.contains c
  | .cmp _ a b => canRaw flds a && canRaw flds b
  | .not a => canRaw flds a
  | .and a b => canRaw flds a && canRaw flds b
  | .or a b => canRaw flds a && canRaw flds b
  | .cond c a b => canRaw flds c && canRaw flds a && canRaw flds b
  | .inl a _ => canRaw flds a
  | .ar _ _ _ => false
  | .neg _ => false

/-- `EvalRaw`: the stored encoding of a column is the packing of its value -/
def evalRaw (r : Row) : Expr → Bytes
  | .const v => pack v
  | .col c => pack (get r c)
  | .cmp op a b => packBool (cmpRaw op (evalRaw r a) (evalRaw r b))
  | .not a => packBool (!isTrue (unpackBool (evalRaw r a)))
  | .and a b => packBool (isTrue (unpackBool (evalRaw r a)) && isTrue (unpackBool (evalRaw r b)))
  | .or a b => packBool (isTrue (unpackBool (evalRaw r a)) || isTrue (unpackBool (evalRaw r b)))
  | .cond c a b => if isTrue (unpackBool (evalRaw r c)) then evalRaw r a else evalRaw r b
  | .inl a vs => packBool ((vs.map pack).contains (evalRaw r a))
  | .ar _ _ _ => []
  | .neg _ => []

/-- what the engine computes: raw where the node's flag is set, language otherwise.
For a raw node the result is described without a general `Unpack`: boolean nodes go through
`UnpackBool`, a raw `?:` selects one of its (raw) branches, constants/columns are their values. -/
def evalX (flds : List Col) (r : Row) : Expr → Val
  | .const v => v
  | .col c => get r c
  | .cmp op a b =>
    if canRaw flds (.cmp op a b) then unpackBool (evalRaw r (.cmp op a b))
    else if canRaw flds a then .bool (cmpVal op (evalX flds r a) (evalX flds r b))
    -- `a.RawOp() && a.Lhs.CanEvalRaw(flds) && a.Rhs.CanEvalRaw(flds)` short-circuits: when the
    -- left side is not raw the right side's flags are never set
    else .bool (cmpVal op (evalX flds r a) (eval r b))
  | .not a =>
    if canRaw flds a then unpackBool (evalRaw r (.not a))
    else .bool (!isTrue (evalX flds r a))
  | .and a b =>
    if canRaw flds (.and a b) then unpackBool (evalRaw r (.and a b))
    else .bool (isTrue (evalX flds r a) && isTrue (evalX flds r b))
  | .or a b =>
    if canRaw flds (.or a b) then unpackBool (evalRaw r (.or a b))
    else .bool (isTrue (evalX flds r a) || isTrue (evalX flds r b))
  | .cond c a b =>
    if canRaw flds (.cond c a b) then
      (if isTrue (unpackBool (evalRaw r c)) then evalX flds r a else evalX flds r b)
    else (if isTrue (evalX flds r c) then evalX flds r a else evalX flds r b)
  | .inl a vs =>
    if canRaw flds a then unpackBool (evalRaw r (.inl a vs))
    else .bool (vs.contains (evalX flds r a))
  -- `Nary.CanEvalRaw` does not visit the operands of `+ - *`: they keep cleared flags
  | .ar op a b => arith op (eval r a) (eval r b)
  | .neg a => negVal (evalX flds r a)

end Gsu.QExpr
