/-
M-CONC instance 1 (C17): `util/queue/priority_queue.go`.

Sequential mirror of the queue: `items` is the slice `pq.items` (oldest first); `put` is the
`append` of `Put`; `pick` is the selection loop of `Get` (index `bestIdx`), `isOldest` the helper
of the same name; `get` removes `items[bestIdx]` (`slices.Delete`).
Core-only: linked into `drv_c17`.
-/
import Gsu.Gen.Pq
namespace Gsu.Pq

/-- `element{priority, tran, value}`; `value` is an opaque message id in the model -/
structure Elem where
  prio : Int
  tran : Int
  val  : Nat
  deriving DecidableEq, Repr, Inhabited

/-- the capacity, regenerated from `priority_queue.go` -/
abbrev bufSize : Nat := Gsu.Gen.Pq.bufSize

/-- mirror of `isOldest(i, e)`: no element before position `i` has `e`'s tran -/
def isOldest (items : List Elem) (i : Nat) (e : Elem) : Bool :=
  (items.take i).all (fun x => x.tran != e.tran)

/-- mirror of the selection loop of `Get`: `rest` is `items[i:]`, `best`/`bestP` are
`bestIdx`/`bestPriority`; returns the final `bestIdx` -/
def pickLoop (items : List Elem) : List Elem → Nat → Nat → Int → Nat
  | [], _, best, _ => best
  | e :: rest, i, best, bestP =>
    if e.prio > bestP && isOldest items i e then pickLoop items rest (i + 1) i e.prio
    else pickLoop items rest (i + 1) best bestP

/-- `bestIdx` after the loop (`bestIdx := 0; bestPriority := items[0].priority; for i := 1 …`) -/
def pick (items : List Elem) : Nat :=
  match items with
  | [] => 0
  | e :: rest => pickLoop items rest 1 0 e.prio

/-- `Put` once it may proceed (`len < bufSize`) -/
def put (items : List Elem) (e : Elem) : List Elem := items ++ [e]

/-- `Get` once it may proceed (`len > 0`): the element handed out and the remaining slice -/
def get (items : List Elem) : Option (Elem × List Elem) :=
  match items with
  | [] => none
  | e :: rest =>
    let i := pick (e :: rest)
    some ((e :: rest).getD i e, (e :: rest).eraseIdx i)

/-! Sequential machine replayed by the driver. `put` on a full queue and `get` on an empty one
are the blocking cases: the machine reports them and leaves the state unchanged. -/

inductive Op where
  | put (e : Elem)
  | get
  deriving Repr

inductive Out where
  | ok
  | full
  | empty
  | got (e : Elem)
  deriving Repr, DecidableEq

def step (items : List Elem) : Op → List Elem × Out
  | .put e => if items.length ≥ bufSize then (items, .full) else (put items e, .ok)
  | .get => match get items with
    | none => (items, .empty)
    | some (e, rest) => (rest, .got e)

end Gsu.Pq

namespace Gsu.Pq

/-- the machine with its history: everything accepted by `Put` so far (`puts`, in order of
the appends) and everything handed out by `Get` so far (`delivered`, in order) -/
structure Hist where
  items : List Elem := []
  puts : List Elem := []
  delivered : List Elem := []
  deriving Repr

def Hist.step (h : Hist) : Op → Hist
  | .put e => if h.items.length ≥ bufSize then h else { h with items := put h.items e, puts := h.puts ++ [e] }
  | .get => match get h.items with
    | none => h
    | some (e, rest) => { h with items := rest, delivered := h.delivered ++ [e] }

/-- the state after any sequence of put/get operations, starting from the empty queue -/
def runOps (ops : List Op) : Hist := ops.foldl Hist.step {}

/-- `e` sits at position `j` and is the oldest pending element of its transaction -/
def HeadAt (items : List Elem) (j : Nat) (e : Elem) : Prop :=
  items[j]? = some e ∧ isOldest items j e = true

end Gsu.Pq

namespace Gsu.Pq

/-- priority and "tran argument is the transaction's `start`" of the `pq.Put` call in
`CheckCo.<method>`, from the regenerated call-site table of `db19/checkco.go` -/
def site (m : String) : Option (Int × Bool) :=
  (Gsu.Gen.Pq.putSites.find? (fun r => r.1 == m)).map fun r => (r.2.2.1, r.2.2.2)

/-- the element `CheckCo.<method>` puts for a transaction whose `start` is `start`
(`v` identifies the message) -/
def msg (m : String) (start : Int) (v : Nat) : Option Elem :=
  (site m).map fun (p, keyed) => ⟨p, if keyed then start else 0, v⟩

/-- `a` occurs before `b` in `l` -/
def Before (l : List Elem) (a b : Elem) : Prop := ∃ l1 l2 l3, l = l1 ++ a :: l2 ++ b :: l3

end Gsu.Pq
