/-
Mirror of the byte encodings of the metadata items and of the chunk framing (C04):
  db19/meta/schema.go   `Schema.Write` / `ReadSchema`
  db19/meta/info.go     `Info.Write` / `ReadInfo` (+ index/overlay.go, index/btree/btree.go
                        `Write`/`Read`: 5-byte root, 1-byte tree levels)
  util/hamt/hamt.go     `Hamt.Write` / `Hamt.read`: the chunk frame
                        size(3) prevOff(5) cksum-of-items(4) item… crc(2)
on top of the stor writer/reader primitives of `Gsu.StorEnc` (C14).  `none` = the Go code panics
(range guard of a writer, `assert.That(ix.BestKey != nil)`, slice out of range in a reader,
"checksum error").  Core only.
-/
import Gsu.Model.StorEnc
import Gsu.Model.StateRec
namespace Gsu.MetaItem
open Gsu.Proto Gsu.StorEnc

structure Fkey where
  table : Bytes
  mode : Nat
  columns : List Bytes
deriving DecidableEq, Repr, Inhabited

structure Index where
  mode : Nat
  columns : List Bytes
  /-- Go `nil` = `none` -/
  bestKey : Option (List Bytes)
  fk : Fkey
deriving DecidableEq, Repr, Inhabited

structure Schema where
  table : Bytes
  columns : List Bytes
  derived : List Bytes
  indexes : List Index
deriving DecidableEq, Repr, Inhabited

/-- `'k'` -/
def modeKey : Nat := 107

/-- "TEMPORARY - old bug filled in Columns when it shouldn't":
`if Fk.Table == "" && len(Fk.Columns) != 0 { Fk.Columns = nil }` (in Write and in ReadSchema) -/
def fixFk (fk : Fkey) : Fkey :=
  if fk.table.isEmpty && !fk.columns.isEmpty then { fk with columns := [] } else fk

/-- `w.PutStr(ix.Fk.Table).Put1(int(ix.Fk.Mode)).PutStrs(ix.Fk.Columns)` -/
def writeFkRaw (fk : Fkey) : Option Bytes :=
  (putStr fk.table).bind fun a => (put 1 fk.mode).bind fun b => (putStrs fk.columns).bind fun c =>
    some (a ++ (b ++ c))

def readFkRaw (b : Bytes) : Option (Fkey × Bytes) :=
  (getStr b).bind fun p1 => (get 1 p1.2).bind fun p2 => (getStrs p2.2).bind fun p3 =>
    some (⟨p1.1, p2.1, p3.1⟩, p3.2)

/-- the best key part: nothing for a key, `PutStrs(BestKey)` otherwise (asserting it is not nil) -/
def writeBest (mode : Nat) (bk : Option (List Bytes)) : Option Bytes :=
  if mode = modeKey then some []
  else match bk with
    | none => none
    | some l => putStrs l

def readBest (mode : Nat) (b : Bytes) : Option (Option (List Bytes) × Bytes) :=
  if mode = modeKey then some (none, b)
  else (getStrs b).bind fun p => some (some p.1, p.2)

/-- one iteration of the loop in `Schema.Write` -/
def writeIndex (ix : Index) : Option Bytes :=
  (put 1 ix.mode).bind fun m => (putStrs ix.columns).bind fun c =>
    (writeBest ix.mode ix.bestKey).bind fun k => (writeFkRaw (fixFk ix.fk)).bind fun f =>
      some (m ++ (c ++ (k ++ f)))

/-- one iteration of the loop in `ReadSchema` -/
def readIndex (b : Bytes) : Option (Index × Bytes) :=
  (get 1 b).bind fun p1 => (getStrs p1.2).bind fun p2 => (readBest p1.1 p2.2).bind fun p3 =>
    (readFkRaw p3.2).bind fun p4 => some (⟨p1.1, p2.1, p3.1, fixFk p4.1⟩, p4.2)

def writeIndexes : List Index → Option Bytes
  | [] => some []
  | ix :: r => (writeIndex ix).bind fun a => (writeIndexes r).bind fun b => some (a ++ b)

def readIndexes : Nat → Bytes → Option (List Index × Bytes)
  | 0, b => some ([], b)
  | n + 1, b => (readIndex b).bind fun p => (readIndexes n p.2).bind fun q => some (p.1 :: q.1, q.2)

/-- `Schema.Write` -/
def writeSchema (s : Schema) : Option Bytes :=
  (putStr s.table).bind fun a => (putStrs s.columns).bind fun b => (putStrs s.derived).bind fun c =>
    (put 1 s.indexes.length).bind fun d => (writeIndexes s.indexes).bind fun e =>
      some (a ++ (b ++ (c ++ (d ++ e))))

/-- `ReadSchema` (the `Ixspecs` it derives are not persisted and not modelled) -/
def readSchema (b : Bytes) : Option (Schema × Bytes) :=
  (getStr b).bind fun p1 => (getStrs p1.2).bind fun p2 => (getStrs p2.2).bind fun p3 =>
    (get 1 p3.2).bind fun p4 => (readIndexes p4.1 p4.2).bind fun p5 =>
      some (⟨p1.1, p2.1, p3.1, p5.1⟩, p5.2)

/-- what a read-back index looks like: no best key on a key, foreign key columns fixed -/
def normIndex (ix : Index) : Index :=
  { ix with bestKey := if ix.mode = modeKey then none else ix.bestKey, fk := fixFk ix.fk }

def normSchema (s : Schema) : Schema := { s with indexes := s.indexes.map normIndex }

/-! ## info -/

/-- `btree.Write`: root offset and tree levels (the overlay's in-memory layers are merged and saved
before a persist writes the info) -/
structure Ov where
  root : Int
  levels : Int
deriving DecidableEq, Repr, Inhabited

structure Info where
  table : Bytes
  /-- empty = Go `nil` = tombstone (a table always has a key) -/
  indexes : List Ov
  nrows : Int
  size : Int
  btreeNrows : Int
  btreeSize : Int
deriving DecidableEq, Repr, Inhabited

def writeOv (o : Ov) : Option Bytes :=
  (put 5 o.root).bind fun a => (put 1 o.levels).bind fun b => some (a ++ b)

def readOv (b : Bytes) : Option (Ov × Bytes) :=
  (get 5 b).bind fun p1 => (get 1 p1.2).bind fun p2 => some (⟨p1.1, p2.1⟩, p2.2)

def writeOvs : List Ov → Option Bytes
  | [] => some []
  | o :: r => (writeOv o).bind fun a => (writeOvs r).bind fun b => some (a ++ b)

def readOvs : Nat → Bytes → Option (List Ov × Bytes)
  | 0, b => some ([], b)
  | n + 1, b => (readOv b).bind fun p => (readOvs n p.2).bind fun q => some (p.1 :: q.1, q.2)

/-- `Info.Write`: table, BtreeNrows (4), BtreeSize (5), number of indexes (1), the indexes -/
def writeInfo (i : Info) : Option Bytes :=
  (putStr i.table).bind fun a => (put 4 i.btreeNrows).bind fun b => (put 5 i.btreeSize).bind fun c =>
    (put 1 i.indexes.length).bind fun d => (writeOvs i.indexes).bind fun e =>
      some (a ++ (b ++ (c ++ (d ++ e))))

/-- `ReadInfo` = `NewInfo(table, indexes, nrows, size)`: Nrows = BtreeNrows, Size = BtreeSize -/
def readInfo (b : Bytes) : Option (Info × Bytes) :=
  (getStr b).bind fun p1 => (get 4 p1.2).bind fun p2 => (get 5 p2.2).bind fun p3 =>
    (get 1 p3.2).bind fun p4 => (readOvs p4.1 p4.2).bind fun p5 =>
      some (⟨p1.1, p5.1, p2.1, p3.1, p2.1, p3.1⟩, p5.2)

/-- a read-back info: the deltas of the layers are gone (they are zero after the merges that
precede a persist: `Meta.CheckAllMerged`) -/
def normInfo (i : Info) : Info := { i with nrows := i.btreeNrows, size := i.btreeSize }

/-! ## chunk -/

/-- the item loop of `Hamt.Write` -/
def writeItems {α} (enc : α → Option Bytes) : List α → Option Bytes
  | [] => some []
  | x :: r => (enc x).bind fun a => (writeItems enc r).bind fun b => some (a ++ b)

/-- `for r.Remaining() > 0 { it := rdfn(st, r) … }`; fuel = an upper bound of the number of items
(every item reader consumes at least one byte, so the remaining length is enough) -/
def readItems {α} (rd : Bytes → Option (α × Bytes)) : Nat → Bytes → Option (List α)
  | _, [] => some []
  | 0, _ :: _ => none
  | f + 1, b@(_ :: _) => (rd b).bind fun p => (readItems rd f p.2).bind fun l => some (p.1 :: l)

/-- the frame `Hamt.Write` puts around the items: `Put3(size) Put5(prevOff) Put4(ck)` items and
`cksum.Update(buf)` over everything before the last two bytes -/
def writeChunk (prev ck : Int) (body : Bytes) : Option Bytes :=
  (put 3 (body.length + 14 : Nat)).bind fun a => (put 5 prev).bind fun b => (put 4 ck).bind fun c =>
    some ((a ++ (b ++ (c ++ body))) ++ Gsu.StateRec.cksum (a ++ (b ++ (c ++ body))))

/-- the frame part of `Hamt.read`: `buf` = the store from the chunk's offset on.
Result: prevOff, the stored checksum of the items, the bytes of the items -/
def readChunk (buf : Bytes) : Option (Nat × Nat × Bytes) :=
  (get 3 buf).bind fun p0 =>
    let size := p0.1
    if size < 14 ∨ buf.length < size then none
    else if (buf.take size).drop (size - 2) != Gsu.StateRec.cksum (buf.take (size - 2)) then none
    else
      (get 5 ((buf.take (size - 2)).drop 3)).bind fun p1 => (get 4 p1.2).bind fun p2 =>
        some (p1.1, p2.1, p2.2)

/-! ## driver glue: a line format for schemas and infos -/

def showStrs (l : List Bytes) : List String := toString l.length :: l.map showBytes

def showFk (fk : Fkey) : List String := showBytes fk.table :: toString fk.mode :: showStrs fk.columns

def showIndex (ix : Index) : List String :=
  toString ix.mode :: showStrs ix.columns ++
    (match ix.bestKey with
      | none => ["-"]
      | some l => showStrs l) ++ showFk ix.fk

def showSchema (s : Schema) : List String :=
  showBytes s.table :: showStrs s.columns ++ showStrs s.derived ++
    toString s.indexes.length :: s.indexes.flatMap showIndex

def showInfo (i : Info) : List String :=
  showBytes i.table :: toString i.nrows :: toString i.size :: toString i.indexes.length ::
    i.indexes.flatMap fun o => [toString o.root, toString o.levels]

def takeStrs (l : List String) : Option (List Bytes × List String) :=
  match l with
  | n :: r => match parseNat n with
    | some n => if n ≤ r.length then (allSome ((r.take n).map parseBytes)).map (·, r.drop n) else none
    | none => none
  | [] => none

def takeFk (l : List String) : Option (Fkey × List String) :=
  match l with
  | t :: m :: r => match parseBytes t, parseNat m, takeStrs r with
    | some t, some m, some (c, r) => some (⟨t, m, c⟩, r)
    | _, _, _ => none
  | _ => none

def takeIndex (l : List String) : Option (Index × List String) :=
  match l with
  | m :: r => match parseNat m, takeStrs r with
    | some m, some (c, r) =>
      let bk : Option (Option (List Bytes) × List String) :=
        match r with
        | "-" :: r' => some (none, r')
        | _ => (takeStrs r).map fun p => (some p.1, p.2)
      match bk with
      | some (bk, r) => (takeFk r).map fun p => (⟨m, c, bk, p.1⟩, p.2)
      | none => none
    | _, _ => none
  | [] => none

def takeIndexes : Nat → List String → Option (List Index × List String)
  | 0, l => some ([], l)
  | n + 1, l => match takeIndex l with
    | some (ix, r) => (takeIndexes n r).map fun p => (ix :: p.1, p.2)
    | none => none

def parseSchema (l : List String) : Option Schema :=
  match l with
  | t :: r => match parseBytes t, takeStrs r with
    | some t, some (c, r) => match takeStrs r with
      | some (d, n :: r) => match parseNat n with
        | some n => match takeIndexes n r with
          | some (ixs, []) => some ⟨t, c, d, ixs⟩
          | _ => none
        | none => none
      | _ => none
    | _, _ => none
  | [] => none

def takeOvs : Nat → List String → Option (List Ov)
  | 0, [] => some []
  | n + 1, a :: b :: r => match parseInt a, parseInt b, takeOvs n r with
    | some a, some b, some l => some (⟨a, b⟩ :: l)
    | _, _, _ => none
  | _, _ => none

/-- `<table> <nrows> <size> <btreeNrows> <btreeSize> <nidx> (<root> <levels>)*` -/
def parseInfo (l : List String) : Option Info :=
  match l with
  | t :: a :: b :: c :: d :: n :: r =>
    match parseBytes t, parseInt a, parseInt b, parseInt c, parseInt d, parseNat n with
    | some t, some a, some b, some c, some d, some n => (takeOvs n r).map fun o => ⟨t, o, a, b, c, d⟩
    | _, _, _, _, _, _ => none
  | _ => none

def joinItems (l : List (List String)) : String :=
  " ; ".intercalate (l.map fun x => " ".intercalate x)

def driverStep (l : List String) : String :=
  match l with
  | "schw" :: r => match parseSchema r with
    | some s => match writeSchema s with
      | some b => showBytes b
      | none => "!panic"
    | none => "bad-op"
  | ["schr", b] => match parseBytes b with
    | some b => match readSchema b with
      | some (s, r) => " ".intercalate (showSchema s ++ [showBytes r])
      | none => "!short"
    | none => "bad-op"
  | "infw" :: r => match parseInfo r with
    | some i => match writeInfo i with
      | some b => showBytes b
      | none => "!panic"
    | none => "bad-op"
  | ["infr", b] => match parseBytes b with
    | some b => match readInfo b with
      | some (i, r) => " ".intercalate (showInfo i ++ [showBytes r])
      | none => "!short"
    | none => "bad-op"
  | ["chunkw", p, c, b] => match parseInt p, parseInt c, parseBytes b with
    | some p, some c, some b => match writeChunk p c b with
      | some x => showBytes x
      | none => "!panic"
    | _, _, _ => "bad-op"
  | ["chunkr", b] => match parseBytes b with
    | some b => match readChunk b with
      | some (p, c, body) => s!"{p} {c} {showBytes body}"
      | none => "!invalid"
    | none => "bad-op"
  | ["schitems", b] => match parseBytes b with
    | some b => match readItems readSchema b.length b with
      | some l => s!"{l.length} " ++ joinItems (l.map showSchema)
      | none => "!short"
    | none => "bad-op"
  | ["infitems", b] => match parseBytes b with
    | some b => match readItems readInfo b.length b with
      | some l => s!"{l.length} " ++ joinItems (l.map showInfo)
      | none => "!short"
    | none => "bad-op"
  | _ => "bad-op"

end Gsu.MetaItem
