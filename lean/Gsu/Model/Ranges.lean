/-
Executable mirror of util/ranges/ranges.go (C39; the read sets of the conflict checker).

Same conventions as `Gsu.Model.Ordset`: a leaf is the fixed array **with its stale slots**
(`remove` shifts left and leaves a duplicate of the last slot; `split` leaves the moved
slots behind) plus `size`; the tree node is its live slots (entries ≥ `tree.size` are never
read: every access is guarded by `tree.size`). The iterator of `Insert` (`iter`, `prev`, `next`,
`next2`, `remove`, the `prev` pointer that `merge` writes through) is mirrored as positions
`(ti, li)`; positions before the cursor are stable under `remove`, which is what makes the
pointer `prev` in the Go code safe.

Core-only: linked into the driver.
-/
import Gsu.Model.Ordset
namespace Gsu.Ranges
open Gsu.Ordset (Key bsearch insertAt)

structure Params where
  nodeSize : Nat
  leftHi : Nat
  leftLo : Nat
  leftMid : Nat
  deriving Repr

def genParams : Params :=
  { nodeSize := Gsu.Gen.Ordset.rangesNodeSize
    leftHi := Gsu.Gen.Ordset.rangesLeftHi.toNat
    leftLo := Gsu.Gen.Ordset.rangesLeftLo.toNat
    leftMid := Gsu.Gen.Ordset.rangesLeftMid.toNat }

structure Slot where
  frm : Key
  to : Key
  deriving Repr, DecidableEq

def Slot.zero : Slot := ⟨[], []⟩

/-- `leafSlot.contains` -/
def Slot.contains (s : Slot) (f t : Key) : Bool := decide (s.frm ≤ f) && decide (t ≤ s.to)

/-- `overlap` -/
def overlap (a b : Slot) : Bool := decide (b.frm ≤ a.to) && decide (a.frm ≤ b.to)

def kmin (a b : Key) : Key := if b < a then b else a
def kmax (a b : Key) : Key := if a < b then b else a

structure Leaf where
  slots : List Slot   -- whole array incl. stale slots
  size : Nat
  deriving Repr, DecidableEq

def Leaf.empty (P : Params) : Leaf := ⟨List.replicate P.nodeSize Slot.zero, 0⟩
def Leaf.get (l : Leaf) (i : Nat) : Slot := l.slots[i]?.getD Slot.zero
def Leaf.live (l : Leaf) : List Slot := l.slots.take l.size

/-- `leafNode.searchBinary`: first index with slot.from ≥ val, or size -/
def Leaf.search (l : Leaf) (v : Key) : Nat :=
  bsearch (fun h => decide ((l.get h).frm < v)) 0 l.size

inductive LeafIns where
  | existing
  | overflow
  | at (i : Nat)
  deriving Repr, DecidableEq

/-- `leafNode.insert` -/
def Leaf.insert (P : Params) (l : Leaf) (f t : Key) : Leaf × LeafIns :=
  let i := l.search f
  if (decide (i < l.size) && (l.get i).contains f t) ||
     (decide (i > 0) && (l.get (i - 1)).contains f t) then (l, .existing)
  else if l.size ≥ P.nodeSize then (l, .overflow)
  else (⟨insertAt P.nodeSize l.slots i ⟨f, t⟩, l.size + 1⟩, .at i)

/-- `copy(a[i:], a[i+1:])`: shift left, the last element stays (stale duplicate) -/
def removeAt {α} (a : List α) (i : Nat) : List α :=
  a.take i ++ a.drop (i + 1) ++ a.drop (a.length - 1)

structure TSlot where
  val : Key
  leaf : Leaf
  deriving Repr, DecidableEq

abbrev Tree := List TSlot

def Tree.valAt (t : Tree) (i : Nat) : Key := (t[i]?.map (·.val)).getD []
def Tree.leafAt (P : Params) (t : Tree) (i : Nat) : Leaf := (t[i]?.map (·.leaf)).getD (Leaf.empty P)

/-- `treeNode.searchBinary` -/
def Tree.search (t : Tree) (v : Key) : Nat :=
  bsearch (fun h => decide (t.valAt h ≤ v)) 0 t.length

def Tree.setLeaf (t : Tree) (i : Nat) (l : Leaf) : Tree := t.modify i (fun s => { s with leaf := l })
def Tree.setVal (t : Tree) (i : Nat) (v : Key) : Tree := t.modify i (fun s => { s with val := v })

/-- `treeNode.insert` -/
def Tree.insert (t : Tree) (v : Key) (l : Leaf) : Tree :=
  let i := t.search v
  t.take i ++ ⟨v, l⟩ :: t.drop i

inductive Ranges where
  | small (l : Leaf)
  | big (t : Tree)
  deriving Repr, DecidableEq

def Ranges.empty (P : Params) : Ranges := .small (Leaf.empty P)

def Ranges.nLeaves : Ranges → Nat
  | .small _ => 1
  | .big t => t.length

def Ranges.isTree : Ranges → Bool
  | .small _ => false
  | .big _ => true

def Ranges.leafAt (P : Params) (rs : Ranges) (ti : Nat) : Leaf :=
  match rs with
  | .small l => if ti = 0 then l else Leaf.empty P
  | .big t => t.leafAt P ti

def Ranges.setLeaf (rs : Ranges) (ti : Nat) (l : Leaf) : Ranges :=
  match rs with
  | .small l0 => if ti = 0 then .small l else .small l0
  | .big t => .big (t.setLeaf ti l)

def splitPoint (P : Params) (l : Leaf) (v : Key) : Nat :=
  if (l.get (P.nodeSize - 1)).frm < v then P.leftHi
  else if v < (l.get 0).to then P.leftLo
  else P.leftMid

def splitLeaf (P : Params) (l : Leaf) (v : Key) : Leaf × Leaf :=
  let left := splitPoint P l v
  (⟨l.slots, left⟩, ⟨l.slots.drop left ++ List.replicate left Slot.zero, P.nodeSize - left⟩)

/-- iterator position; `ti ≥ nLeaves` or `li ≥ size` is eof (the Go iterator then holds a
stale leaf pointer with `li ≥ leaf.size`) -/
structure Pos where
  ti : Nat
  li : Nat
  deriving Repr, DecidableEq

def Ranges.eof (P : Params) (rs : Ranges) (p : Pos) : Bool :=
  decide (p.ti ≥ rs.nLeaves) || decide (p.li ≥ (rs.leafAt P p.ti).size)

def Ranges.cur (P : Params) (rs : Ranges) (p : Pos) : Slot := (rs.leafAt P p.ti).get p.li

/-- `iter.prev`; `none` = eof (li < 0) -/
def Ranges.prev (P : Params) (rs : Ranges) (p : Pos) : Option Pos :=
  if p.li > 0 then some ⟨p.ti, p.li - 1⟩
  else if !rs.isTree then none
  else if p.ti = 0 then none
  else
    let sz := (rs.leafAt P (p.ti - 1)).size
    if sz = 0 then none else some ⟨p.ti - 1, sz - 1⟩

/-- `iter.next2` -/
def Ranges.next2 (P : Params) (rs : Ranges) (p : Pos) : Pos :=
  if p.li < (rs.leafAt P p.ti).size || !rs.isTree then p
  else if p.ti + 1 ≥ rs.nLeaves then ⟨rs.nLeaves, 0⟩   -- stuck past the end: eof
  else ⟨p.ti + 1, 0⟩

/-- `iter.next` -/
def Ranges.next (P : Params) (rs : Ranges) (p : Pos) : Pos := rs.next2 P ⟨p.ti, p.li + 1⟩

/-- `iter.remove` at a non-eof position -/
def Ranges.remove (P : Params) (rs : Ranges) (p : Pos) : Ranges × Pos :=
  let leaf := rs.leafAt P p.ti
  let leaf' : Leaf := ⟨removeAt leaf.slots p.li, leaf.size - 1⟩
  match rs with
  | .small _ => (.small leaf', p)
  | .big t =>
    if leaf'.size = 0 then
      let t' := t.eraseIdx p.ti
      (.big t', if p.ti < t'.length then ⟨p.ti, 0⟩ else ⟨t'.length, 0⟩)
    else
      let t1 := t.setLeaf p.ti leaf'
      let t2 := if p.li = 0 then t1.setVal p.ti (leaf'.get 0).frm else t1
      let rs' := Ranges.big t2
      (rs', rs'.next2 P p)

/-- write through the `prev` pointer -/
def Ranges.setSlot (P : Params) (rs : Ranges) (p : Pos) (s : Slot) : Ranges :=
  let leaf := rs.leafAt P p.ti
  rs.setLeaf p.ti ⟨leaf.slots.set p.li s, leaf.size⟩

/-- the coalescing loop of `Insert` -/
def Ranges.coalesce (P : Params) : Nat → Ranges → Pos → Pos → Int → Ranges × Int
  | 0, rs, _, _, inc => (rs, inc)
  | fuel + 1, rs, pp, it, inc =>
    if rs.eof P it then (rs, inc)
    else
      let prev := rs.cur P pp
      let next := rs.cur P it
      if overlap prev next then
        let rs1 := rs.setSlot P pp ⟨kmin prev.frm next.frm, kmax prev.to next.to⟩
        let (rs2, it2) := rs1.remove P it
        coalesce P fuel rs2 pp it2 (inc - 1)
      else (rs, inc)

def Ranges.count : Ranges → Nat
  | .small l => l.size
  | .big t => (t.map (·.leaf.size)).sum

inductive Res where
  | full
  | inc (n : Int)
  deriving Repr, DecidableEq

/-- `Ranges.Insert` -/
def Ranges.insert (P : Params) (rs : Ranges) (f t : Key) : Ranges × Res :=
  -- locate the leaf, splitting a full one
  let ti0 := match rs with | .small _ => 0 | .big tr => tr.search f - 1
  let leaf0 := rs.leafAt P ti0
  let located : Option (Ranges × Nat) :=
    if leaf0.size ≥ P.nodeSize then
      let tr? : Option Tree := match rs with
        | .small l => some [⟨[], l⟩]
        | .big tr => if tr.length ≥ P.nodeSize then none else some tr
      match tr? with
      | none => none
      | some tr =>
        let (l1, l2) := splitLeaf P leaf0 f
        let tr2 := (tr.setLeaf ti0 l1).insert (l2.get 0).frm l2
        some (.big tr2, tr2.search f - 1)
    else some (rs, ti0)
  match located with
  | none => (rs, .full)
  | some (rs1, ti) =>
    let (leaf', r) := (rs1.leafAt P ti).insert P f t
    match r with
    | .existing => (rs1, .inc 0)
    | .overflow => (rs1, .full)
    | .at li =>
      let rs2 := rs1.setLeaf ti leaf'
      let here : Pos := ⟨ti, li⟩
      let pp : Pos := match rs2.prev P here with
        | none => here
        | some q => if rs2.eof P q || (rs2.cur P q).to < f then here else q
      let it := rs2.next P pp
      let (rs3, inc) := rs2.coalesce P (rs2.count + 1) pp it 1
      (rs3, .inc inc)

/-- `Ranges.search` -/
def Ranges.search (P : Params) (rs : Ranges) (v : Key) : Nat × Leaf × Nat :=
  match rs with
  | .small l => (0, l, l.search v)
  | .big t =>
    let ti := t.search v - 1
    let leaf := t.leafAt P ti
    (ti, leaf, leaf.search v)

/-- `Ranges.Contains` -/
def Ranges.contains (P : Params) (rs : Ranges) (v : Key) : Bool :=
  let (_, leaf, li) := rs.search P v
  if decide (li < leaf.size) && (leaf.get li).frm == v then true
  else if li > 0 then
    let ls := leaf.get (li - 1)
    decide (ls.frm ≤ v) && decide (v ≤ ls.to)
  else false

/-- all live slots in order (the abstract value is the union of these intervals) -/
def Ranges.flat : Ranges → List Slot
  | .small l => l.live
  | .big t => t.flatMap (·.leaf.live)

end Gsu.Ranges
