/-
M-ENC / mux: executable mirror of the integer and string encodings of
`dbms/mux/readwrite.go` (core-only): zig-zag, varint loops of `PutInt64`/`GetInt64`,
size-prefixed strings (`PutStr_`/`GetStr`), lists (`PutStrs`/`GetStrs`, `PutInts`).
The buffering of `WriteBuf` (flush at `bufSize`) is not part of this model: the model gives
the payload byte sequence. `none` = the Go code panics.
-/
import Gsu.Util.Proto
namespace Gsu.MuxEnc
open Gsu.Proto

def maxio : Nat := 1024 * 1024

/-- `i = (i << 1) ^ (i >> 63)` on int64 -/
def zz (i : BitVec 64) : BitVec 64 := (i <<< 1) ^^^ (i.sshiftRight 63)

/-- `tmp := ((int64(n<<63) >> 63) ^ int64(n)) >> 1; tmp = tmp ^ int64(n&(1<<63))` -/
def unzz (n : BitVec 64) : BitVec 64 :=
  let tmp := (((n <<< 63).sshiftRight 63) ^^^ n).sshiftRight 1
  tmp ^^^ (n &&& (1#64 <<< 63))

/-- the loop of `PutInt64` on the uint64 `n`: `for n > 0x7f { Write1(byte(n|0x80)); n >>= 7 }; Write1(byte(n))` -/
def putVarint (n : Nat) : Bytes :=
  if _h : n > 0x7f then UInt8.ofNat (n ||| 0x80) :: putVarint (n >>> 7) else [UInt8.ofNat n]
termination_by n
decreasing_by
  simp only [Nat.shiftRight_eq_div_pow]
  omega

/-- the loop of `GetInt64`: `n |= uint64(b&0x7f) << shift; shift += 7; if b&0x80 == 0 break`
(`<<` on uint64 drops the bits above 2^64) -/
def getVarintF (shift acc : Nat) : Bytes → Option (Nat × Bytes)
  | [] => none
  | b :: rest =>
    let acc' := acc ||| (((b.toNat &&& 0x7f) <<< shift) % 2 ^ 64)
    if b.toNat &&& 0x80 = 0 then some (acc', rest) else getVarintF (shift + 7) acc' rest

def getVarint (b : Bytes) : Option (Nat × Bytes) := getVarintF 0 0 b

/-- `PutInt64` -/
def putInt64 (i : BitVec 64) : Bytes := putVarint (zz i).toNat

/-- `GetInt64` -/
def getInt64 (b : Bytes) : Option (BitVec 64 × Bytes) :=
  (getVarint b).map fun (n, r) => (unzz (BitVec.ofNat 64 n), r)

inductive Err where
  | short | neg | tooLarge
  deriving DecidableEq, Repr

/-- `PutStr_`: `limit(len)`, `putInt(len)`, `WriteString` -/
def putStr (s : Bytes) : Except Err Bytes :=
  if s.length > maxio then .error .tooLarge
  else .ok (putInt64 (BitVec.ofNat 64 s.length) ++ s)

/-- `GetSize`: `limit(GetInt64())` -/
def getSize (b : Bytes) : Except Err (Nat × Bytes) :=
  match getInt64 b with
  | none => .error .short
  | some (n, r) =>
    if n.toInt < 0 then .error .neg
    else if n.toNat > maxio then .error .tooLarge
    else .ok (n.toNat, r)

/-- `GetStr` / `GetStr_` / `GetRec` -/
def getStr (b : Bytes) : Except Err (Bytes × Bytes) :=
  match getSize b with
  | .error e => .error e
  | .ok (n, r) => if n ≤ r.length then .ok (r.take n, r.drop n) else .error .short

def putStrsBody : List Bytes → Except Err Bytes
  | [] => .ok []
  | s :: ss => match putStr s, putStrsBody ss with
    | .ok a, .ok b => .ok (a ++ b)
    | .error e, _ => .error e
    | _, .error e => .error e

/-- `PutStrs` -/
def putStrs (ss : List Bytes) : Except Err Bytes :=
  match putStrsBody ss with
  | .ok b => .ok (putInt64 (BitVec.ofNat 64 ss.length) ++ b)
  | .error e => .error e

def getStrsN : Nat → Bytes → Except Err (List Bytes × Bytes)
  | 0, b => .ok ([], b)
  | n + 1, b => match getStr b with
    | .error e => .error e
    | .ok (s, r) => match getStrsN n r with
      | .error e => .error e
      | .ok (ss, r') => .ok (s :: ss, r')

/-- `GetStrs`: `n := GetInt(); make([]string, 0, n)` (panics for a negative count); `for ; n > 0; n-- { GetStr }` -/
def getStrs (b : Bytes) : Except Err (List Bytes × Bytes) :=
  match getInt64 b with
  | none => .error .short
  | some (n, r) => if n.toInt < 0 then .error .neg else getStrsN n.toNat r

/-- `PutInts` -/
def putInts (l : List (BitVec 64)) : Bytes :=
  putInt64 (BitVec.ofNat 64 l.length) ++ l.flatMap putInt64

end Gsu.MuxEnc
