/-
The C41/C40 model instantiated with the tables regenerated from the current /repo
(`Gsu.Gen.SrvCmds`).  This is the configuration the driver runs and the theorems of
`Gsu.Props.C41` are about.  Core-only.
-/
import Gsu.Model.Srv
import Gsu.Gen.SrvCmds
namespace Gsu.Srv

def genCfg : Cfg :=
  { cmds := Gsu.Gen.SrvCmds.cmds
    unauth := Gsu.Gen.SrvCmds.unauth
    rejectEmpty := Gsu.Gen.SrvCmds.rejectEmptyPasshash }

end Gsu.Srv
