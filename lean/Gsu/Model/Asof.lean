/-
C19 / history: executable mirror of `db19/state.go` (`stateAsof`, `PrevState`, `NextState`,
`readState` result) and `db19/tran.go` (`ReadTran.Asof`), core-only.

The file is abstracted to the list of *candidates*: the offsets at which `magic1` occurs, in file
order, each with what `readState` returns for it: its time `t` (`t = 0` ⇔ `readState` reports
"invalid", exactly the code's convention) and an opaque id of the `Meta` read from it
(`meta.ReadMeta(store, offSchema, offInfo)`; the id stands for the contents shown).
`store.LastOffset(off, magic1)` = the last candidate lying entirely below `off`
(`c.off + 8 ≤ off`), `store.FirstOffset(off+1, magic1)` = the first candidate at or after `off+1`;
the loops of state.go that call them repeatedly walk these lists (`below`, `above`).

`stateAsof` is modelled as REPAIRED by fixes/10-asof-before-first.patch (DESIGN §6 finding 10):
the offset returned is that of the last *valid* state read, not the loop variable (which is 0
when the scan runs off the start of the file).
-/
import Gsu.Util.Proto
namespace Gsu.Asof

/-- a `magic1` occurrence: offset, time from `readState` (0 = invalid), id of the Meta it designates -/
structure Cand where
  off : Nat
  t : Int
  mid : Nat
deriving Repr, DecidableEq

/-- length of `magic1` (the search string of `LastOffset`/`FirstOffset`) -/
def magicLen : Nat := 8

/-- the store as the history code sees it -/
structure Store where
  cands : List Cand      -- ascending by offset
  size : Nat             -- `store.Size()`
  cur : Cand             -- `db.GetState()`: `Off`, `Asof`, Meta id of the current state

def isValid (c : Cand) : Bool := c.t != 0

/-- successive results of `off = store.LastOffset(off, magic1, nil)` starting from `off`: newest first -/
def below (f : List Cand) (off : Nat) : List Cand :=
  (f.filter fun c => decide (c.off + magicLen ≤ off)).reverse

/-- successive results of `off = store.FirstOffset(off+1, magic1)` starting from `off` -/
def above (f : List Cand) (off : Nat) : List Cand :=
  f.filter fun c => decide (off + 1 ≤ c.off)

/-- `for { off = …; if off == 0 {return nil}; if _, _, t := readState(…); t != 0 { return state } }` -/
def firstValid (l : List Cand) : Option Cand := l.find? isValid

/-- `PrevState(store, off)` -/
def prevState (s : Store) (off : Nat) : Option Cand :=
  firstValid (below s.cands (if off = 0 then s.size else off))

/-- `NextState(store, off)` -/
def nextState (s : Store) (off : Nat) : Option Cand :=
  firstValid (above s.cands off)

/-- the loop of `stateAsof` over the candidates newest first; `best` = last valid state read
(repaired code: `offSchema, offInfo, t, stateOff` are only assigned from a valid state) -/
def asofScan (asof : Int) : List Cand → Option Cand → Option Cand
  | [], best => best                      -- `LastOffset` returned 0: break
  | c :: r, best =>
    if c.t = 0 then asofScan asof r best  -- `continue // invalid`
    else if c.t ≤ asof then some c        -- `if t <= args.asof { break }`
    else asofScan asof r (some c)

/-- `stateAsof`; `none` = `panic("no state found")` -/
def stateAsof (s : Store) (asof : Int) : Option Cand :=
  asofScan asof (below s.cands s.size) none

/-- the fields of `ReadTran` that `Asof` reads and writes -/
structure Tran where
  asof : Int
  off : Nat
  mid : Nat
deriving Repr, DecidableEq

/-- `db.NewReadTran()`: `meta` of the current state, `asof = 0`, `off = 0` -/
def newTran (s : Store) : Tran := ⟨0, 0, s.cur.mid⟩

inductive Res where
  | ret (v : Int)      -- value returned by `Asof`
  | noState            -- `panic("no state found")`
deriving Repr, DecidableEq

def setTo (c : Cand) : Tran × Res := (⟨c.t, c.off, c.mid⟩, .ret c.t)

/-- `ReadTran.Asof(asof)`; `future` is the outcome of `asof >= time.Now().UnixMilli()` -/
def tranAsof (s : Store) (tr : Tran) (asof : Int) (future : Bool) : Tran × Res :=
  if asof = 0 then (tr, .ret tr.asof)
  else if asof = -1 then
    match prevState s tr.off with
    | none => (tr, .ret 0)
    | some c => setTo c
  else if asof = 1 then
    match nextState s tr.off with
    | none => (tr, .ret 0)
    | some c => setTo c
  else if future then setTo s.cur
  else
    match stateAsof s asof with
    | none => (tr, .noState)
    | some c => setTo c

/-- a request: the argument of `Asof` and whether it is `>= now` -/
abbrev Req := Int × Bool

/-- any sequence of requests on one read transaction -/
def run (s : Store) : Tran → List Req → Tran
  | tr, [] => tr
  | tr, q :: qs => run s (tranAsof s tr q.1 q.2).1 qs

end Gsu.Asof
