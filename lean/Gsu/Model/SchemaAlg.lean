/-
M-META schema algebra: executable mirror of the foreign-key bookkeeping of
`db19/meta/meta.go` (+ the admin entry points of `db19/database.go`).

  PutNew / Database.create      → `create`
  Meta.AlterCreate              → `alterCreate`
  Meta.Ensure / Database.Ensure → `ensure`
  Meta.AlterDrop                → `alterDrop`   (dropIndexes, dropColumns, dropFkeys, updateFkeysIIndex)
  Meta.AlterRename              → `alterRenameCol` (replaceUnique, replace, renameFkey)
  Meta.RenameTable              → `renameTable`
  Meta.Drop                     → `drop`
  linkFkeys                     → `linkFkeys`
  metaUpdate.validate           → `validate` (schema.Check + checkForeignKeys on every table)

Every op returns `Option Db`; `none` = the Go code panics / returns an error (the state is
then unchanged: `UpdateState` is not reached or its result is discarded).

The model mirrors the code as it is, with two documented REPAIRS (DESIGN.md §6 finding 20 and
the C21 finding "updateOtherFkToHere"): see `dropFkeys` and `updFkToHere`.
Not modelled: Derived columns / `_lower!`, Ixspec/Fields, Primary/ContainsKey, info (btrees).
Core Lean only (linked into drv_c21).
-/
namespace Gsu.SchemaAlg

structure Fkey where
  table : String := ""
  columns : List String := []
  iindex : Nat := 0
  mode : Nat := 0
deriving DecidableEq, Repr, Inhabited

structure Index where
  mode : Char := 'k'
  columns : List String := []
  bestKey : List String := []
  fk : Fkey := {}
  fkToHere : List Fkey := []
deriving DecidableEq, Repr, Inhabited

structure Table where
  name : String
  columns : List String
  indexes : List Index
deriving DecidableEq, Repr, Inhabited

abbrev Db := List Table

/-! ### basic access -/

def getT (db : Db) (n : String) : Option Table := db.find? (fun t => t.name == n)

/-- replace the table of the same name, or append -/
def putT (db : Db) (t : Table) : Db :=
  if db.any (fun x => x.name == t.name) then db.map (fun x => if x.name == t.name then t else x)
  else db ++ [t]

def delT (db : Db) (n : String) : Db := db.filter (fun t => t.name != n)

/-- schema.FindIndex / IIndex: position of the first index with exactly these columns -/
def findIdx (t : Table) (cols : List String) : Option Nat :=
  t.indexes.findIdx? (fun ix => ix.columns == cols)

def modIdx (t : Table) (j : Nat) (f : Index → Index) : Table :=
  { t with indexes := t.indexes.modify j f }

def getIdx (t : Table) (j : Nat) : Index := t.indexes.getD j {}

/-- modify index `j` of table `n` in place (no-op when absent) -/
def modT (db : Db) (n : String) (j : Nat) (f : Index → Index) : Db :=
  db.map (fun t => if t.name == n then modIdx t j f else t)

/-! ### schema.Check and checkForeignKeys -/

def hasKey (ixs : List Index) : Bool := ixs.any (fun ix => ix.mode == 'k')

def dupCols : List String → Bool
  | [] => false
  | c :: r => (c != "-" && r.contains c) || dupCols r

def dupIdx : List Index → Bool
  | [] => false
  | ix :: r => r.any (fun iy => iy.columns == ix.columns) || dupIdx r

/-- schema.Schema.Check: checkColumns, checkForKey, CheckIndexes -/
def schemaCheck (t : Table) : Bool :=
  !dupCols t.columns && hasKey t.indexes &&
  t.indexes.all (fun ix => (ix.mode == 'k' || !ix.columns.isEmpty) &&
      ix.columns.all (fun c => t.columns.contains c)) &&
  !dupIdx t.indexes

/-- checkForeignKeys for one index -/
def fkOk (db : Db) (ix : Index) : Bool :=
  ix.fk.table == "" ||
  match getT db ix.fk.table with
  | none => false
  | some target =>
    match findIdx target ix.fk.columns with
    | none => false
    | some j => (getIdx target j).mode == 'k' && ix.fk.iindex == j

def tableOk (db : Db) (t : Table) : Bool :=
  schemaCheck t && t.indexes.all (fkOk db)

/-- metaUpdate.validate: every table of the new metadata is checked -/
def validate (db : Db) : Bool := db.all (tableOk db)

/-! ### SetBestKeys -/

def diffLen (key idx : List String) : Nat := (key.filter (fun c => !idx.contains c)).length

/-- the key needing the fewest extra columns; ties: fewer columns; first wins -/
def bestKeyOf (ixs : List Index) (cols : List String) : List String :=
  let step := fun (best : Option (Nat × Nat × List String)) (k : Index) =>
    if k.mode == 'k' then
      let n := diffLen k.columns cols
      let nc := k.columns.length
      match best with
      | none => some (n, nc, k.columns)
      | some (bn, bc, _) => if n < bn || (n == bn && nc < bc) then some (n, nc, k.columns) else best
    else best
  match ixs.foldl step none with
  | some (_, _, c) => c
  | none => []

/-- SetBestKeys(nold): only the indexes at positions ≥ nold get a (new) BestKey -/
def setBestKeys (t : Table) (nold : Nat) : Table :=
  { t with indexes := t.indexes.zipIdx.map (fun (ix, i) =>
      if i ≥ nold && ix.mode != 'k' then { ix with bestKey := bestKeyOf t.indexes ix.columns } else ix) }

/-! ### createFkeys -/

/-- an index as it arrives from the parser: no links -/
def specIndex (s : Index) : Index := { s with bestKey := [], fkToHere := [], fk := { s.fk with iindex := 0 } }

/-- one iteration of createFkeys for the spec index `spec` of table `tn` -/
def createFkey1 (db : Db) (tn : String) (spec : Index) : Option Db :=
  if spec.fk.table == "" then some db else
  match getT db tn with
  | none => none
  | some ts =>
    match findIdx ts spec.columns with
    | none => none
    | some tsi =>
      let fk := (getIdx ts tsi).fk
      let fkCols := if fk.columns.isEmpty then spec.columns else fk.columns
      match getT db fk.table with
      | none => none                          -- can't create foreign key to nonexistent table
      | some target =>
        match findIdx target fkCols with
        | none => none                        -- … to nonexistent index
        | some j =>
          if (getIdx target j).mode != 'k' then none    -- foreign key must point to key
          else
            let db1 := modT db tn tsi (fun ix => { ix with fk := { ix.fk with iindex := j } })
            some (modT db1 fk.table j (fun ix =>
              { ix with fkToHere := ix.fkToHere ++ [⟨tn, spec.columns, tsi, fk.mode⟩] }))

def createFkeys (db : Db) (tn : String) : List Index → Option Db
  | [] => some db
  | s :: r => match createFkey1 db tn s with
    | none => none
    | some db1 => createFkeys db1 tn r

/-- PutNew does not run setFkeyIIndex; createFkeys writes `Fk.IIndex` through a pointer into the
schema value it was given, which is no longer the one held by the metaUpdate once a
self-referencing key has been processed (the self reference replaces it by a copy).  A later
foreign key to *another* table therefore keeps the parser's `IIndex = -1` and validate rejects
the request ("foreign key IIndex mismatch").  Mirrored as an explicit rejection. -/
def detachedReject (tn : String) : List Index → Bool
  | [] => false
  | s :: r => (s.fk.table == tn && r.any (fun q => q.fk.table != "" && q.fk.table != tn))
              || detachedReject tn r

/-! ### create (Database.Create → create → PutNew) -/

def create (db : Db) (name : String) (cols : List String) (specs : List Index) : Option Db :=
  if (getT db name).isSome then none else
  let t0 : Table := ⟨name, cols, specs.map specIndex⟩
  if !schemaCheck t0 then none else
  if detachedReject name specs then none else
  match createFkeys (putT db (setBestKeys t0 0)) name specs with
  | none => none
  | some db2 => if validate db2 then some db2 else none

/-! ### alter create / ensure -/

/-- createIndexes: append, rejecting duplicates (also among the new ones) -/
def appendIdxs (t : Table) : List Index → Option Table
  | [] => some t
  | s :: r =>
    if (findIdx t s.columns).isSome then none
    else appendIdxs { t with indexes := t.indexes ++ [specIndex s] } r

/-- setFkeyIIndex: recompute every Fk.IIndex of `ts` (target = `ts` itself for a self reference,
else the table in the current metadata); a missing table / index panics -/
def setFkeyIIndex (db : Db) (ts : Table) : Option Table :=
  let rec go (ixs : List Index) : Option (List Index) :=
    match ixs with
    | [] => some []
    | ix :: r =>
      if ix.fk.table == "" then (go r).map (ix :: ·) else
      match (if ix.fk.table == ts.name then some ts else getT db ix.fk.table) with
      | none => none
      | some target =>
        match findIdx target ix.fk.columns with
        | none => none
        | some j => (go r).map ({ ix with fk := { ix.fk with iindex := j } } :: ·)
  (go ts.indexes).map (fun ixs => { ts with indexes := ixs })

/-- Database.buildIndexes pre-checks that only run when the table has rows (`hasData`):
the fk target is looked up in the *old* metadata -/
def buildPrecheck (db : Db) (specs : List Index) : Bool :=
  specs.all (fun s => s.fk.table == "" ||
    match getT db s.fk.table with
    | none => false
    | some target => (findIdx target s.fk.columns).isSome)

def alterCreateMeta (db : Db) (name : String) (cols : List String) (specs : List Index) : Option Db :=
  match getT db name with
  | none => none
  | some ts =>
    if cols.any (fun c => ts.columns.contains c) then none else
    match appendIdxs { ts with columns := ts.columns ++ cols } specs with
    | none => none
    | some ts1 =>
      let ts2 := setBestKeys ts1 ts.indexes.length
      -- Ixspecs: colsToFlds asserts that the columns of the new indexes exist
      if !(ts2.indexes.drop ts.indexes.length).all (fun ix => ix.columns.all ts2.columns.contains) then none else
      match setFkeyIIndex db ts2 with
      | none => none
      | some ts3 =>
        match createFkeys (putT db ts3) name specs with
        | none => none
        | some db2 => if validate db2 then some db2 else none

def alterCreate (db : Db) (name : String) (hasData : Bool) (cols : List String) (specs : List Index) : Option Db :=
  if hasData && !specs.isEmpty && !buildPrecheck db specs then none
  else alterCreateMeta db name cols specs

def idxEqual (a b : Index) : Bool :=
  a.columns == b.columns && a.mode == b.mode && a.fk.table == b.fk.table &&
  a.fk.mode == b.fk.mode && a.fk.columns == b.fk.columns

/-- schemaSubset: some true = nothing to do, none = panic "index exists but is different" -/
def schemaSubset (ts : Table) (cols : List String) : List Index → Option Bool
  | [] => some true
  | s :: r =>
    match findIdx ts s.columns with
    | none => some false
    | some j => if idxEqual (getIdx ts j) s then schemaSubset ts cols r else none

def ensure (db : Db) (name : String) (hasData : Bool) (cols : List String) (specs : List Index) : Option Db :=
  match getT db name with
  | none => create db name cols specs
  | some ts =>
    match (if cols.all ts.columns.contains then schemaSubset ts cols specs else some false) with
    | none => none
    | some true => some db
    | some false =>
      let newIdxs := specs.filter (fun s => (findIdx ts s.columns).isNone)
      let newCols := cols.filter (fun c => !ts.columns.contains c)
      match alterCreateMeta db name newCols newIdxs with
      | none => none
      | some db2 =>
        if hasData && !newIdxs.isEmpty && !buildPrecheck db newIdxs then none else some db2

/-! ### dropFkeys, updateFkeysIIndex, alter drop, drop -/

/-- dropFkeys for the indexes (given by columns) `idxCols` of table `tn` as it is in `old`;
REPAIRED (finding 20): the self-referencing link is skipped only when the whole table goes
(`wholeTable`), not on `alter … drop index`. -/
def dropFkeys (old : Db) (db : Db) (tn : String) (wholeTable : Bool) : List (List String) → Db
  | [] => db
  | cols :: r =>
    let db1 :=
      match getT old tn with
      | none => db
      | some sch =>
        match findIdx sch cols with
        | none => db
        | some i =>
          let idx := getIdx sch i
          let fk := idx.fk
          if fk.table == "" || (wholeTable && fk.table == tn) then db else
          let fkCols := if fk.columns.isEmpty then idx.columns else fk.columns
          db.map (fun t => if t.name == fk.table then
            { t with indexes := t.indexes.map (fun ix =>
                if ix.columns == fkCols then
                  { ix with fkToHere := ix.fkToHere.filter (fun f => !(f.table == tn && f.columns == idx.columns)) }
                else ix) } else t)
    dropFkeys old db1 tn wholeTable r

/-- updateOtherFkToHere; REPAIRED (C21 finding): the entry is identified by the source index
columns too — the code sets the IIndex of *every* entry coming from `table`, which is wrong when
one table has two foreign keys to the same key. -/
def updFkToHere (db : Db) (table : String) (srcCols : List String) (fk : Fkey) (i : Nat) : Db :=
  db.map (fun t => if t.name == fk.table then
    { t with indexes := t.indexes.map (fun ix =>
        if ix.columns == fk.columns then
          { ix with fkToHere := ix.fkToHere.map (fun f =>
              if f.table == table && f.columns == srcCols then { f with iindex := i } else f) }
        else ix) } else t)

/-- updateOtherFk -/
def updFk (db : Db) (table : String) (fk : Fkey) (i : Nat) : Db :=
  db.map (fun t => if t.name == fk.table then
    { t with indexes := t.indexes.map (fun ix =>
        if ix.fk.table == table && ix.columns == fk.columns then { ix with fk := { ix.fk with iindex := i } }
        else ix) } else t)

def updateFkeysIIndex (db : Db) (sch : Table) : Db :=
  sch.indexes.zipIdx.foldl (fun db (ix, i) =>
    let db1 := if ix.fk.table != "" then updFkToHere db sch.name ix.columns ix.fk i else db
    ix.fkToHere.foldl (fun db f => updFk db sch.name f i) db1) db

def dropColumn (t : Table) (col : String) : Option Table :=
  if t.indexes.any (fun ix => ix.columns.contains col) then none
  else if t.columns.contains col then
    some { t with columns := t.columns.replace col "-" }
  else none

def dropColumns (t : Table) : List String → Option Table
  | [] => some t
  | c :: r => match dropColumn t c with
    | none => none
    | some t1 => dropColumns t1 r

/-- dropIndexes checks for one requested index -/
def dropIdxOk (ts : Table) (cols : List String) : Bool :=
  ts.indexes.any (fun ix => ix.columns == cols) &&
  ts.indexes.all (fun ix =>
    if ix.columns == cols then ix.fkToHere.isEmpty      -- can't drop index used by foreign keys
    else ix.bestKey != cols)                            -- can't drop key used to make index unique

def alterDrop (db : Db) (name : String) (cols : List String) (idxs : List (List String)) : Option Db :=
  match getT db name with
  | none => none
  | some ts =>
    if !idxs.all (dropIdxOk ts) then none else
    let kept := ts.indexes.filter (fun ix => !idxs.contains ix.columns)
    if !idxs.isEmpty && !hasKey kept then none else           -- can't drop all keys
    match dropColumns { ts with indexes := kept } cols with
    | none => none
    | some ts1 =>
      let db1 := putT db ts1
      let db2 := dropFkeys db db1 name false idxs
      -- updateFkeysIIndex iterates over the schema value put above; only its
      -- table/columns/Fk.table/FkToHere.table/columns fields are read
      let db3 := updateFkeysIIndex db2 ((getT db2 name).getD ts1)
      if validate db3 then some db3 else none

/-- Meta.Drop of a table -/
def drop (db : Db) (name : String) : Option Db :=
  match getT db name with
  | none => none
  | some ts =>
    if ts.indexes.any (fun ix => ix.fkToHere.any (fun f => f.table != name)) then none  -- used by foreign keys
    else
      let db1 := dropFkeys db (delT db name) name true (ts.indexes.map (·.columns))
      if validate db1 then some db1 else none

/-! ### alter rename (columns) -/

/-- replaceUnique: none = nonexistent `from` / existing `to` -/
def replaceUnique (l : List String) : List String → List String → Option (List String)
  | f :: fr, t :: tr =>
    if !l.contains f || l.contains t then none
    else replaceUnique (l.replace f t) fr tr
  | _, _ => some l

/-- replace: every occurrence, in from/to order -/
def replaceAll (l : List String) : List String → List String → List String
  | f :: fr, t :: tr => replaceAll (l.map (fun c => if c == f then t else c)) fr tr
  | _, _ => l

/-- renameFkey for index `i` of `tn` (already renamed in `db`) -/
def renameFkey (db : Db) (tn : String) (i : Nat) : Option Db :=
  match getT db tn with
  | none => none
  | some ts =>
    let ix := getIdx ts i
    let db1? : Option Db :=
      if ix.fk.table == "" then some db else
      match getT db ix.fk.table with
      | none => none
      | some target =>
        if (getIdx target ix.fk.iindex).fkToHere.any (fun f => f.table == tn && f.iindex == i) then
          some (modT db ix.fk.table ix.fk.iindex (fun tix =>
            { tix with fkToHere := tix.fkToHere.map (fun f =>
                if f.table == tn && f.iindex == i then { f with columns := ix.columns } else f) }))
        else none        -- assert.That(found)
    match db1? with
    | none => none
    | some db1 =>
      some (ix.fkToHere.foldl (fun db f =>
        modT db f.table f.iindex (fun rix => { rix with fk := { rix.fk with columns := ix.columns } })) db1)

def renameIdxs (tn : String) (from_ to : List String) : List Index → List Index → Option (List Index × List Nat)
  | _, [] => some ([], [])
  | done, ix :: r =>
    let cols := replaceAll ix.columns from_ to
    let changed := cols != ix.columns
    -- tsNew.FindIndex(cols) over the partially renamed list (done ++ ix :: r)
    if changed && (done ++ ix :: r).any (fun iy => iy.columns == cols) then none else
    let fk := if !ix.fk.columns.isEmpty && ix.fk.table == tn
              then { ix.fk with columns := replaceAll ix.fk.columns from_ to } else ix.fk
    let ix1 := { ix with columns := cols, bestKey := replaceAll ix.bestKey from_ to, fk := fk }
    match renameIdxs tn from_ to (done ++ [ix1]) r with
    | none => none
    | some (rest, aff) => some (ix1 :: rest, if changed then done.length :: aff else aff)

def alterRenameCol (db : Db) (name : String) (from_ to : List String) : Option Db :=
  match getT db name with
  | none => none
  | some ts =>
    match replaceUnique ts.columns from_ to with
    | none => none
    | some cols =>
      match renameIdxs name from_ to [] ts.indexes with
      | none => none
      | some (ixs, aff) =>
        let db1 := putT db { ts with columns := cols, indexes := ixs }
        let rec go (db : Db) : List Nat → Option Db
          | [] => some db
          | i :: r => match renameFkey db name i with
            | none => none
            | some db' => go db' r
        match go db1 aff with
        | none => none
        | some db2 => if validate db2 then some db2 else none

/-! ### rename table -/

/-- Meta.RenameTable: tombstone for `from`, copy under `to`, dropFkeys(old) + createFkeys(new).
A self-referencing key still names `from` (now a tombstone) → rejected by createFkeys; a table
that is the target of other tables' keys → rejected by validate (their Fk.Table names `from`). -/
def renameTable (db : Db) (from_ to : String) : Option Db :=
  match getT db from_ with
  | none => none
  | some ts =>
    if (getT db to).isSome then none else
    match setFkeyIIndex db ts with
    | none => none
    | some ts1 =>
      let tsNew := { ts1 with name := to }
      let db1 := (delT db from_) ++ [tsNew]
      let db2 := dropFkeys db db1 from_ true (ts.indexes.map (·.columns))
      if tsNew.indexes.any (fun ix => ix.fk.table == from_) then none else
      match createFkeys db2 to tsNew.indexes with
      | none => none
      | some db3 => if validate db3 then some db3 else none

/-! ### linkFkeys (ReadMeta) -/

def fkCols (ix : Index) : List String := if ix.fk.columns.isEmpty then ix.columns else ix.fk.columns

/-- the position linkFkeys resolves the foreign key of `ix` to -/
def resolve (db : Db) (ix : Index) : Option Nat :=
  if ix.fk.table == "" then none else
  match getT db ix.fk.table with
  | none => none
  | some target => findIdx target (fkCols ix)

/-- all links that resolve to index `j` of table `tn`, in table / index order:
what linkFkeys appends to `FkToHere` of that index -/
def expectedBack (db : Db) (tn : String) (j : Nat) : List Fkey :=
  db.flatMap (fun s => s.indexes.zipIdx.filterMap (fun (ix, i) =>
    if ix.fk.table == tn && resolve db ix == some j then some ⟨s.name, ix.columns, i, ix.fk.mode⟩ else none))

/-- linkFkeys: FkToHere is rebuilt from the Fk fields (the persisted schema has none);
Fk.IIndex is set to the resolved position (left alone when unresolved). -/
def linkFkeys (db : Db) : Db :=
  db.map (fun t => { t with indexes := t.indexes.zipIdx.map (fun (ix, j) =>
    { ix with fkToHere := expectedBack db t.name j,
              fk := match resolve db ix with
                    | some k => { ix.fk with iindex := k }
                    | none => ix.fk }) })

/-- what the admin entry point leaves behind: the new metadata when the request is accepted,
the old metadata when it is rejected (the driver's step function uses exactly this) -/
def keep (db : Db) : Option Db → Db
  | some d => d
  | none => db

/-! ### canonical text -/

def insertSorted (s : String) : List String → List String
  | [] => [s]
  | x :: r => if s < x then s :: x :: r else x :: insertSorted s r

def sortStrs (l : List String) : List String := l.foldr insertSorted []

def commas (l : List String) : String := ",".intercalate l

def showFkey (f : Fkey) : String :=
  f.table ++ ":" ++ commas f.columns ++ ":" ++ toString f.iindex ++ ":" ++ toString f.mode

def showIndex (ix : Index) : String :=
  String.singleton ix.mode ++ ":" ++ commas ix.columns ++ "~" ++ commas ix.bestKey ++
  (if ix.fk.table == "" then "" else ">" ++ showFkey ix.fk) ++
  String.join ((sortStrs (ix.fkToHere.map showFkey)).map (fun s => "<" ++ s))

def showTable (t : Table) : String :=
  t.name ++ "(" ++ commas t.columns ++ ")" ++ String.join (t.indexes.map (fun ix => "|" ++ showIndex ix))

/-- tables sorted by name, `;` separated; `-` for the empty database -/
def schemaText (db : Db) : String :=
  if db.isEmpty then "-" else ";".intercalate (sortStrs (db.map showTable))

end Gsu.SchemaAlg
