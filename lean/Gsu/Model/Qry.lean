/-
M-QRY: relational reference semantics of queries **as written** (core-only).

`evalQ db q` is the list of rows the query denotes; it follows the operators' own reference
evaluators (`Simple()` in `dbms/query/*.go`) applied to the *untransformed* tree:

* rows are association lists column → value, laid out in the order of `colsQ db q`
* `project` removes duplicates (keeps the first), `union` appends the rows of the second source
  that equal no row of the first; `union`/`intersect`/`minus` compare over the union of the two
  column sets, a missing column reading as `""` (`Compatible.equal` over `allCols`)
* `join`/`leftjoin` are natural joins on the common columns (`by` must equal them in the code)
* `summarize` groups by the `by` columns in order of first occurrence; `min`/`max` compare the
  stored encodings (`sumMin.add: raw < sum.raw`), `total` skips values that are not numbers;
  no source rows → no result rows. The *whole-row* form (`by` empty, one `min`/`max` on a key:
  `su.wholeRow`) returns the source row that holds the extreme value plus the summary column;
  the flag is part of the query as constructed (`NewSummarize`) and is carried in the AST.
* `sort` is a stable insertion sort on the stored encodings of the sort columns

Expressions use the language meaning `Gsu.QExpr.eval` (what `Where.Simple` does after `Unraw`).
-/
import Gsu.Model.QExpr
namespace Gsu.Qry
open Gsu.Proto Gsu.QVal Gsu.QExpr

inductive Agg where
  | count | total | min | max
  deriving DecidableEq, Repr

structure Table where
  cols : List Col
  rows : List Row
  deriving Repr, Inhabited

abbrev Db := List Table

inductive Query where
  | table (id : Nat)
  | where_ (q : Query) (e : Expr)
  | project (q : Query) (cs : List Col)
  | rename (q : Query) (frm to : List Col)
  | extend (q : Query) (c : Col) (e : Expr)
  | summarize (q : Query) (whole : Bool) (by_ : List Col) (aggs : List (Col × Agg × Col))
  | sort (q : Query) (rev : Bool) (cs : List Col)
  | join (a b : Query)
  | leftjoin (a b : Query)
  | times (a b : Query)
  | union (a b : Query)
  | intersect (a b : Query)
  | minus (a b : Query)
  deriving Repr, Inhabited

/-- keep the first occurrence of every element -/
def dedup {α} [DecidableEq α] : List α → List α
  | [] => []
  | a :: l => a :: (dedup l).filter (· ≠ a)

/-- `set.Union`: `a` followed by the elements of `b` not in `a` -/
def unionCols (a b : List Col) : List Col := a ++ b.filter (!a.contains ·)

def interCols (a b : List Col) : List Col := a.filter (b.contains ·)

def diffCols (a b : List Col) : List Col := a.filter (!b.contains ·)

/-- one rename step `from → to` on a column name -/
def ren1 (f t c : Col) : Col := if c = f then t else c

/-- `rename f1 to t1, f2 to t2, …` is applied left to right -/
def renCol : List Col → List Col → Col → Col
  | f :: fs, t :: ts, c => renCol fs ts (ren1 f t c)
  | _, _, c => c

/-- the row restricted / re-laid-out to the columns `cs` (absent columns read `""`) -/
def restrict (cs : List Col) (r : Row) : Row := cs.map fun c => (c, get r c)

/-- result columns, `Columns()` of the query as written -/
def colsQ (db : Db) : Query → List Col
  | .table id => (db.getD id default).cols
  | .where_ q _ => colsQ db q
  | .project _ cs => cs
  | .rename q f t => (colsQ db q).map (renCol f t)
  | .extend q c _ => colsQ db q ++ [c]
  | .summarize q whole by_ aggs =>
    if whole then unionCols (colsQ db q) (aggs.map (·.1)) else by_ ++ aggs.map (·.1)
  | .sort q _ _ => colsQ db q
  | .join a b => unionCols (colsQ db a) (colsQ db b)
  | .leftjoin a b => unionCols (colsQ db a) (colsQ db b)
  | .times a b => colsQ db a ++ colsQ db b
  | .union a b => unionCols (colsQ db a) (colsQ db b)
  | .intersect a b => interCols (colsQ db a) (colsQ db b)
  | .minus a _ => colsQ db a

/-- the first row minimal w.r.t. the stored encoding of column `c` (`sumMin`: strict `<`) -/
def minRow (c : Col) : Row → List Row → Row
  | best, [] => best
  | best, r :: rs =>
    if rawCmp (get r c) (get best c) == .lt then minRow c r rs else minRow c best rs

def maxRow (c : Col) : Row → List Row → Row
  | best, [] => best
  | best, r :: rs =>
    if rawCmp (get r c) (get best c) == .gt then maxRow c r rs else maxRow c best rs

/-- `sumTotal`: `OpAdd` over the values, conversions that fail are ignored -/
def total (c : Col) (rs : List Row) : Int :=
  rs.foldl (fun acc r => match toNum (get r c) with | some n => acc + n | none => acc) 0

/-- value of one summary operation over a non-empty group `r0 :: rs` -/
def aggVal (op : Agg) (on : Col) (r0 : Row) (rs : List Row) : Val :=
  match op with
  | .count => .int (Int.ofNat (rs.length + 1))
  | .total => .int (total on (r0 :: rs))
  | .min => get (minRow on r0 rs) on
  | .max => get (maxRow on r0 rs) on

/-- the `by` values of a row -/
def keyOf (by_ : List Col) (r : Row) : List Val := by_.map (get r)

/-- one output row per distinct `by` key, in order of first occurrence -/
def groupRows (by_ : List Col) (aggs : List (Col × Agg × Col)) (src : List Row) : List Row :=
  (dedup (src.map (keyOf by_))).filterMap fun k =>
    match src.filter (fun r => keyOf by_ r == k) with
    | [] => none
    | r0 :: rs => some (by_.zip k ++ aggs.map fun a => (a.1, aggVal a.2.1 a.2.2 r0 rs))

/-- whole-row summarize: the extreme row followed by the summary column -/
def wholeRows (srcCols : List Col) (aggs : List (Col × Agg × Col)) (src : List Row) : List Row :=
  match src, aggs with
  | r0 :: rs, [(c, op, on)] =>
    let best := if op == .min then minRow on r0 rs else maxRow on r0 rs
    [restrict srcCols best ++ (if srcCols.contains c then [] else [(c, get best on)])]
  | _, _ => []

/-- lexicographic comparison of two rows on the stored encodings of `cs` -/
def rowCmp (cs : List Col) (x y : Row) : Ordering :=
  match cs with
  | [] => .eq
  | c :: cs => match rawCmp (get x c) (get y c) with
    | .eq => rowCmp cs x y
    | o => o

def insertSorted (le : Row → Row → Bool) (x : Row) : List Row → List Row
  | [] => [x]
  | y :: ys => if le x y then x :: y :: ys else y :: insertSorted le x ys

def sortRows (le : Row → Row → Bool) : List Row → List Row
  | [] => []
  | x :: xs => insertSorted le x (sortRows le xs)

/-- equality of two rows over the columns `cs` -/
def eqOn (cs : List Col) (x y : Row) : Bool := cs.all fun c => get x c == get y c

/-- the rows the query denotes -/
def evalQ (db : Db) : Query → List Row
  | .table id => (db.getD id default).rows
  | .where_ q e => (evalQ db q).filter fun r => isTrue (eval r e)
  | .project q cs => dedup ((evalQ db q).map (restrict cs))
  | .rename q f t => (evalQ db q).map fun r => r.map fun cv => (renCol f t cv.1, cv.2)
  | .extend q c e => (evalQ db q).map fun r => r ++ [(c, eval r e)]
  | .summarize q whole by_ aggs =>
    if whole then wholeRows (colsQ db q) aggs (evalQ db q) else groupRows by_ aggs (evalQ db q)
  | .sort q rev cs =>
    sortRows (fun x y => if rev then rowCmp cs x y != .lt else rowCmp cs x y != .gt) (evalQ db q)
  | .join a b =>
    let ca := colsQ db a
    let cb := colsQ db b
    let common := interCols ca cb
    let rest := diffCols cb ca
    (evalQ db a).flatMap fun r1 =>
      ((evalQ db b).filter fun r2 => eqOn common r1 r2).map fun r2 => r1 ++ restrict rest r2
  | .leftjoin a b =>
    let ca := colsQ db a
    let cb := colsQ db b
    let common := interCols ca cb
    let rest := diffCols cb ca
    (evalQ db a).flatMap fun r1 =>
      match (evalQ db b).filter fun r2 => eqOn common r1 r2 with
      | [] => [r1 ++ restrict rest []]
      | ms => ms.map fun r2 => r1 ++ restrict rest r2
  | .times a b => (evalQ db a).flatMap fun r1 => (evalQ db b).map fun r2 => r1 ++ r2
  | .union a b =>
    let all := unionCols (colsQ db a) (colsQ db b)
    let r1s := (evalQ db a).map (restrict all)
    r1s ++ ((evalQ db b).map (restrict all)).filter fun r => !r1s.contains r
  | .intersect a b =>
    let ca := colsQ db a
    let cb := colsQ db b
    let all := unionCols ca cb
    let r2s := (evalQ db b).map (restrict all)
    ((evalQ db a).filter fun r => r2s.contains (restrict all r)).map (restrict (interCols ca cb))
  | .minus a b =>
    let all := unionCols (colsQ db a) (colsQ db b)
    let r2s := (evalQ db b).map (restrict all)
    (evalQ db a).filter fun r => !r2s.contains (restrict all r)

end Gsu.Qry
