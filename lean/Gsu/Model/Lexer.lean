/-
Mirror of /repo/compile/lexer/lexer.go (Lexer.next and everything it calls) for the code
lexer (`query = false`) and the query lexer (`query = true`: queryKeyword, nlwhite).

`next query rest` lexes one token at the head of the remaining source `rest` and returns the
item (token name as printed by tok.Token.String(), Item.Text) and the number of bytes
consumed; `nextAt` is the `Src → Pos → Item × Pos` form; `lexAll` the token stream.

Tables regenerated from the source (Gsu.Gen.Lexer): keyword tables of both lexers, the
operator table flattened from the `switch c` clauses.

`quotedString` mirrors the REPAIRED lexer (DESIGN §6 finding 6,
fixes/06-unterminated-string.patch): end of input inside a string with escapes is an error
like in the no-escape path. `quotedStringOld` is the code as it is today.

Core-only: linked into the drivers drv_c31 / drv_c32.
-/
import Gsu.Model.Ascii
import Gsu.Gen.Lexer
namespace Gsu.Lexer
open Gsu.Proto Gsu.Ascii

structure Item where
  tok : String
  text : Bytes
  deriving DecidableEq, Repr

/-- Lexer.read maps a NUL source byte to 0xff ("because 0 is eof") -/
def rd (c : UInt8) : UInt8 := if c = 0 then 255 else c

/-- matchWhile: number of leading bytes satisfying f -/
def spanWhile (f : UInt8 → Bool) : Bytes → Nat
  | [] => 0
  | c :: r => if f c then 1 + spanWhile f r else 0

/-- lexer.isIdentChar -/
def isIdentChar (c : UInt8) : Bool := c == 95 || isLetter c || isDigit c

/-- matchIdentTail: identifier characters then an optional `?` or else an optional `!` -/
def identTail (r : Bytes) : Nat :=
  let k := spanWhile isIdentChar r
  if r.getD k 0 = 63 then k + 1 else if r.getD k 0 = 33 then k + 1 else k

/-- keyword / queryKeyword: `switch len(s) { case n: if s == kw … }` -/
def lookupKw (table : List (Nat × Bytes × String)) (s : Bytes) : Option String :=
  match table.find? (fun e => e.1 == s.length && e.2.1 == s) with
  | some e => some e.2.2
  | none => none

def kwDefault : Bytes := [100, 101, 102, 97, 117, 108, 116]
def kwTrue : Bytes := [116, 114, 117, 101]
def kwFalse : Bytes := [102, 97, 108, 115, 101]
def txtUnused : Bytes := [117, 110, 117, 115, 101, 100]
/-- "missing closing quote" -/
def msgQuote : Bytes :=
  [109, 105, 115, 115, 105, 110, 103, 32, 99, 108, 111, 115, 105, 110, 103, 32, 113, 117, 111, 116, 101]
/-- "missing end of comment" -/
def msgComment : Bytes :=
  [109, 105, 115, 115, 105, 110, 103, 32, 101, 110, 100, 32, 111, 102, 32, 99, 111, 109, 109, 101, 110, 116]
/-- "invalid identifier or number" -/
def msgIdent : Bytes :=
  [105, 110, 118, 97, 108, 105, 100, 32, 105, 100, 101, 110, 116, 105, 102, 105, 101, 114, 32, 111, 114, 32,
   110, 117, 109, 98, 101, 114]

/-- Lexer.identifier (the first byte is already consumed) -/
def identifier (query : Bool) (rest : Bytes) : Item × Nat :=
  let n := 1 + identTail rest.tail
  let val := rest.take n
  let kw :=
    if rest.getD n 0 ≠ 58 ∨ val = kwDefault ∨ val = kwTrue ∨ val = kwFalse then
      lookupKw (if query then Gsu.Gen.Lexer.queryKeywords else Gsu.Gen.Lexer.keywords) val
    else none
  match kw with
  | some t => (⟨t, val⟩, n)
  | none => (⟨"Identifier", if val = [95] then txtUnused else val⟩, n)

/-- Lexer.whitespace; Newline unless nlwhite (query lexer) -/
def whitespace (query : Bool) (rest : Bytes) : Item × Nat :=
  let n := spanWhile isSpace rest
  let nl := !query && (rest.take n).any (fun c => c == 10 || c == 13)
  (⟨if nl then "Newline" else "Whitespace", rest.take n⟩, n)

/-- Lexer.lineComment (after `//`): up to but excluding `\n` or `\r\n` -/
def lineComment (rest : Bytes) : Item × Nat :=
  let body := rest.drop 2
  let k := spanWhile (fun c => c != 10) body
  let n := 2 + k
  let n := if k < body.length ∧ rest.getD (n - 1) 0 = 13 then n - 1 else n
  (⟨"Comment", rest.take n⟩, n)

/-- the loop of Lexer.spanComment: `prev` is the byte before the current position -/
def spanScan : UInt8 → Bytes → Nat → Option Nat
  | _, [], _ => none
  | prev, c :: r, n => if prev = 42 ∧ c = 47 then some (n + 1) else spanScan c r (n + 1)

/-- Lexer.spanComment (after `/*`) -/
def spanComment (rest : Bytes) : Item × Nat :=
  match spanScan 42 (rest.drop 2) 2 with
  | some n => (⟨"Comment", rest.take n⟩, n)
  | none => (⟨"Error", msgComment⟩, rest.length)

/-- Lexer.rawString (after the back quote) -/
def rawString (rest : Bytes) : Item × Nat :=
  let body := rest.tail
  let k := spanWhile (fun c => c != 96) body
  if k < body.length then (⟨"String", body.take k⟩, k + 2)
  else (⟨"Error", msgQuote⟩, rest.length)

/-- Lexer.doesc after the backslash was read; `r` = the bytes after the backslash.
Result: the byte and how many of `r` were consumed (0 = reset to after the backslash) -/
def doesc (r : Bytes) : UInt8 × Nat :=
  match r with
  | [] => (92, 0)
  | e0 :: r' =>
    let e := rd e0
    if e = 110 then (10, 1)
    else if e = 116 then (9, 1)
    else if e = 114 then (13, 1)
    else if e = 120 then
      let d1 := digit (rd (r'.getD 0 0)) 16
      let d2 := digit (rd (r'.getD 1 0)) 16
      if d1 ≠ -1 ∧ d2 ≠ -1 then (UInt8.ofNat (16 * d1 + d2).toNat, 3) else (92, 0)
    else if e = 92 ∨ e = 34 ∨ e = 39 then (e, 1)
    else (92, 0)

/-- the escape loop of quotedString: `skip` bytes still belong to the last escape;
`n` = bytes consumed so far (incl. the opening quote). `none` = end of input reached. -/
def escLoop (q : UInt8) : Nat → Bytes → Bytes → Nat → Option (Bytes × Nat)
  | _, [], _, _ => none
  | k + 1, _ :: r, acc, n => escLoop q k r acc (n + 1)
  | 0, c0 :: r, acc, n =>
    let c := rd c0
    if c = q then some (acc.reverse, n + 1)
    else if c = 92 then
      let (b, k) := doesc r
      escLoop q k r (b :: acc) (n + 1)
    else escLoop q 0 r (c :: acc) (n + 1)

/-- what the escape loop has collected when the input ends (today's code returns this as a
String token): same walk, but returning the text at the end of input -/
def escLoopOld (q : UInt8) : Nat → Bytes → Bytes → Nat → Bytes × Nat
  | _, [], acc, n => (acc.reverse, n)
  | k + 1, _ :: r, acc, n => escLoopOld q k r acc (n + 1)
  | 0, c0 :: r, acc, n =>
    let c := rd c0
    if c = q then (acc.reverse, n + 1)
    else if c = 92 then
      let (b, k) := doesc r
      escLoopOld q k r (b :: acc) (n + 1)
    else escLoopOld q 0 r (c :: acc) (n + 1)

/-- Lexer.quotedString, REPAIRED (finding 6): error at end of input on both paths -/
def quotedString (rest : Bytes) (quote : UInt8) : Item × Nat :=
  let src := rest.tail
  let i := spanWhile (fun c => c != 92 && c != quote) src
  if i ≥ src.length then (⟨"Error", msgQuote⟩, rest.length)
  else if src.getD i 0 = 92 then
    match escLoop quote 0 src [] 1 with
    | some (text, n) => (⟨"String", text⟩, n)
    | none => (⟨"Error", msgQuote⟩, rest.length)
  else (⟨"String", src.take i⟩, i + 2)

/-- Lexer.quotedString as it is in /repo today -/
def quotedStringOld (rest : Bytes) (quote : UInt8) : Item × Nat :=
  let src := rest.tail
  let i := spanWhile (fun c => c != 92 && c != quote) src
  if i ≥ src.length then (⟨"Error", msgQuote⟩, rest.length)
  else if src.getD i 0 = 92 then
    let (text, n) := escLoopOld quote 0 src [] 1
    (⟨"String", text⟩, n)
  else (⟨"String", src.take i⟩, i + 2)

/-- matchWithUnderscores: digits+ (`_` digits+)*. `ind` = the previous byte was a digit.
Returns (valid, position after the last byte consumed) -/
def mwu (f : UInt8 → Bool) : Bool → Bytes → Nat → Bool × Nat
  | ind, [], n => (ind, n)
  | ind, c :: r, n =>
    if f c then mwu f true r (n + 1)
    else if ind && c == 95 then mwu f false r (n + 1)
    else (ind, n)

/-- Lexer.nonWhiteRemaining -/
def nonWhite (r : Bytes) : Bool := r.any (fun c => !isSpace c)

inductive NumRes where
  | err (si : Nat)
  | ok (si : Nat)

/-- integer part: `if peek() != '.' { matchWithUnderscores(IsDigit) }` → (result, before) -/
def numInt (rest : Bytes) : NumRes × Bool :=
  if rest.getD 0 0 ≠ 46 then
    let (ok, k) := mwu isDigit false rest 0
    (if ok then .ok k else .err k, true)
  else (.ok 0, false)

/-- `match('.')`, fraction digits, `!before && !after` -/
def numFrac (rest : Bytes) (si : Nat) (before : Bool) : NumRes :=
  let si := if rest.getD si 0 = 46 then si + 1 else si
  if isDigit (rest.getD si 0) then
    let (ok, k) := mwu isDigit false (rest.drop si) si
    if ok then .ok k else .err k
  else if !before then .err si else .ok si

/-- exponent: e/E, optional sign, digits — or nothing consumed -/
def numExp (rest : Bytes) (si : Nat) : NumRes :=
  if rest.getD si 0 = 101 ∨ rest.getD si 0 = 69 then
    let sj := si + 1
    let sj := if rest.getD sj 0 = 43 ∨ rest.getD sj 0 = 45 then sj + 1 else sj
    if isDigit (rest.getD sj 0) then
      let (ok, k) := mwu isDigit false (rest.drop sj) sj
      if ok then .ok k else .err k
    else .ok si
  else .ok si

/-- "don't absorb trailing dot" -/
def numDot (rest : Bytes) (si : Nat) : Nat :=
  if rest.getD (si - 1) 0 = 46 ∧ nonWhite (rest.drop si) then si - 1 else si

def numItem (rest : Bytes) : NumRes → Item × Nat
  | .err si => (⟨"Error", rest.take si⟩, si)
  | .ok si => (⟨"Number", (rest.take si).filter (fun c => c != 95)⟩, si)

/-- Lexer.number -/
def number (rest : Bytes) : Item × Nat :=
  if rest.getD 0 0 = 48 ∧ (rest.getD 1 0 = 120 ∨ rest.getD 1 0 = 88) then
    let si := if rest.getD 2 0 = 95 then 3 else 2
    let (ok, k) := mwu isHexDigit false (rest.drop si) si
    numItem rest (if ok then .ok k else .err k)
  else
    match numInt rest with
    | (.err si, _) => numItem rest (.err si)
    | (.ok si, before) =>
      match numFrac rest si before with
      | .err si => numItem rest (.err si)
      | .ok si =>
        match numExp rest si with
        | .err si => numItem rest (.err si)
        | .ok si => numItem rest (.ok (numDot rest si))

/-- `s` is a prefix of `r` -/
def isPrefix : Bytes → Bytes → Bool
  | [], _ => true
  | _ :: _, [] => false
  | a :: s, b :: r => a == b && isPrefix s r

/-- the operator clauses: longest table entry that is a prefix of the input -/
def matchOp (table : List (Bytes × String)) (rest : Bytes) : Option (String × Nat) :=
  table.foldl (fun best e =>
    if isPrefix e.1 rest then
      match best with
      | some (_, k) => if e.1.length > k then some (e.2, e.1.length) else best
      | none => some (e.2, e.1.length)
    else best) none

/-- Lexer.next on the remaining source -/
def next (query : Bool) (rest : Bytes) : Item × Nat :=
  match rest with
  | [] => (⟨"Eof", []⟩, 0)
  | c0 :: r =>
    let c := rd c0
    if c = 35 then
      let p := r.getD 0 0
      if p = 95 ∨ isLetter p = true then
        let k := identTail r
        (⟨"Symbol", r.take k⟩, 1 + k)
      else (⟨"Hash", [c0]⟩, 1)
    else if c = 47 then
      if r.getD 0 0 = 47 then lineComment rest
      else if r.getD 0 0 = 42 then spanComment rest
      else if r.getD 0 0 = 61 then (⟨"DivEq", rest.take 2⟩, 2)
      else (⟨"Div", [c0]⟩, 1)
    else if c = 96 then rawString rest
    else if c = 34 ∨ c = 39 then quotedString rest c
    else if c = 46 then
      if r.getD 0 0 = 46 then (⟨"RangeTo", rest.take 2⟩, 2)
      else if isDigit (r.getD 0 0) then number rest
      else (⟨"Dot", [c0]⟩, 1)
    else if isDigit c then number rest
    else if c = 95 then
      let p := r.getD 0 0
      if isDigit p ∨ p = 95 ∨ p = 33 ∨ p = 63 then (⟨"Error", msgIdent⟩, 1)
      else identifier query rest
    else
      match matchOp Gsu.Gen.Lexer.opTable rest with
      | some (t, k) => (⟨t, rest.take k⟩, k)
      | none =>
        if isSpace c then whitespace query rest
        else if isLetter c then identifier query rest
        else (⟨Gsu.Gen.Lexer.fallToken, [c0]⟩, 1)

/-- `next : Src → Pos → Item × Pos` -/
def nextAt (query : Bool) (src : Bytes) (pos : Nat) : Item × Nat :=
  let (it, n) := next query (src.drop pos)
  (it, pos + n)

/-- the token stream from `rest` (which starts at `pos`): (item, start, end) up to and
including Eof; `fuel` bounds the number of tokens -/
def lexFrom (query : Bool) : Nat → Bytes → Nat → List (Item × Nat × Nat)
  | 0, _, _ => []
  | f + 1, rest, pos =>
    let (it, n) := next query rest
    (it, pos, pos + n) :: (if rest.isEmpty then [] else lexFrom query f (rest.drop n) (pos + n))

def lexAll (query : Bool) (src : Bytes) : List (Item × Nat × Nat) :=
  lexFrom query (src.length + 1) src 0

end Gsu.Lexer
