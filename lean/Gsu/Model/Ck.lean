/-
M-CK: executable mirror of the conflict checker `db19/check.go` (`Check`).

Core-only (linked into `drv_c01`).  One `Tran` per `CkTran` that is in `actvTran` (end = none) or
in `cmtdTran` (end = some e); the per-table `actions` of `bytable[table][start]` are kept inside
the transaction (`acts`, in the order of `t.tables`).  Read ranges / write key sets are the
abstract values of `ranges.Ranges` / `ordset.Set` (lists; the trees are C39's subject), except
that the *count* of coalesced ranges is mirrored exactly because `readCount`/`readMax` depend on it.

Nondeterminism of the Go code (map iteration order of `bytable[table]`, `rand.IntN(2)` in
`abort1of`) is resolved by two arguments of the operation: `order` (transactions visited first,
then all others) and `pick` (the partners that lose the coin toss).  The theorems quantify over
all operations, hence over every order and every outcome of the coin.
-/
namespace Gsu.Ck

abbrev Key := List UInt8

def inRange (f t k : Key) : Bool := decide (f ≤ k) && decide (k ≤ t)

/-- `actions` of one transaction on one table; reads/writes tagged with the index number -/
structure Acts where
  table : Nat
  outs : List (Nat × Key) := []
  dels : List (Nat × Key) := []
  reads : List (Nat × Key × Key) := []    -- every range inserted (abstract value of `ckreads`)
  creads : List (Nat × Key × Key) := []   -- the coalesced ranges, only used for the count
deriving Repr, BEq, DecidableEq

structure Tran where
  start : Nat
  end_ : Option Nat := none      -- none = math.MaxInt
  birth : Nat := 0
  readCount : Int := 0
  hasUpdates : Bool := false
  rc : Bool := false             -- readConflict != ""
  acts : List Acts := []
deriving Repr, BEq, DecidableEq

structure State where
  seq : Nat := 1
  oldest : Option Nat := none    -- none = math.MaxInt (recompute)
  clock : Nat := 0
  trans : List Tran := []        -- actvTran ∪ cmtdTran
  excl : List (Nat × Option Nat) := []
  deadRc : List Nat := []        -- handles that left the checker with readConflict set
deriving Repr

def readMax : Int := 20000

def Tran.active (t : Tran) : Bool := t.end_.isNone

/-- `overlap(t1, t2)` with MaxInt ends as `none` (tied to the generated def by `gen_overlap`) -/
def overlap (s1 : Nat) (e1 : Option Nat) (s2 : Nat) (e2 : Option Nat) : Bool :=
  (match e1 with | none => true | some e => decide (e > s2)) &&
  (match e2 with | none => true | some e => decide (e > s1))

def Acts.hasWrites (a : Acts) : Bool := !a.outs.isEmpty || !a.dels.isEmpty

/-- `ta.outputs.anyInRange || ta.deletes.anyInRange` on the actions of `tbl` -/
def Tran.writeInRange (t : Tran) (tbl idx : Nat) (f to : Key) : Bool :=
  t.acts.any fun a => a.table == tbl &&
    (a.outs.any (fun p => p.1 == idx && inRange f to p.2) ||
     a.dels.any (fun p => p.1 == idx && inRange f to p.2))

/-- `ta.reads.contains(idx, k)` on the actions of `tbl` -/
def Tran.readsContain (t : Tran) (tbl idx : Nat) (k : Key) : Bool :=
  t.acts.any fun a => a.table == tbl && a.reads.any (fun r => r.1 == idx && inRange r.2.1 r.2.2 k)

def State.find (s : State) (tn : Nat) : Option Tran := s.trans.find? (·.start == tn)

def State.modify (s : State) (tn : Nat) (f : Tran → Tran) : State :=
  { s with trans := s.trans.map fun t => if t.start == tn then f t else t }

def setRc (t : Tran) : Tran := { t with rc := true }

def minStart : List Tran → Option Nat
  | [] => none
  | t :: r => match minStart r with
    | none => some t.start
    | some m => some (if t.start < m then t.start else m)

/-- `e < ck.oldest` with MaxInt as `none` -/
def endedBefore (e : Option Nat) (oldest : Option Nat) : Bool :=
  match e, oldest with
  | some e, some o => decide (e < o)
  | some _, none => true
  | none, _ => false

def cleanEnded (s : State) : State :=
  let oldest := match s.oldest with
    | some o => some o
    | none => minStart (s.trans.filter (·.active))
  { s with oldest := oldest,
           trans := s.trans.filter (fun t => !endedBefore t.end_ oldest),
           excl := s.excl.filter (fun x => !endedBefore x.2 oldest) }

/-- `ck.abort(tn)`: only active transactions can be aborted -/
def abort (s : State) (tn : Nat) : State × Bool :=
  match s.trans.find? (fun t => t.start == tn && t.active) with
  | none => (s, false)
  | some t =>
    let s1 := { s with trans := s.trans.filter (fun t => !(t.start == tn && t.active)),
                       deadRc := if t.rc then tn :: s.deadRc else s.deadRc }
    if s.oldest == some tn || s.oldest == none then
      (cleanEnded { s1 with oldest := none }, true)
    else (s1, true)

/-- `abort1of(t1, t2)`; `pickT2` = the coin says "abort t2". Returns true iff t1 was aborted. -/
def abort1of (s : State) (t1 t2 : Tran) (pickT2 : Bool) : State × Bool :=
  if !t1.hasUpdates then (s.modify t1.start setRc, false)
  else if !t2.hasUpdates then (s.modify t2.start setRc, false)
  else if t2.end_.isSome || !pickT2 then ((abort s t1.start).1, true)
  else ((abort s t2.start).1, false)

/-- the loop `for _, ta := range bytable[table]` of Read/Output/Delete/Update.
`hit T B` is the conflict test of the operation; `ids` the visiting order. -/
def visit (hit : Tran → Tran → Bool) (pick : List Nat) (tn : Nat) : State → List Nat → State × Bool
  | s, [] => (s, false)
  | s, b :: rest =>
    match s.find tn, s.find b with
    | some T, some B =>
      if b != tn && hit T B then
        let r := abort1of s T B (pick.contains b)
        if r.2 then (r.1, true) else visit hit pick tn r.1 rest
      else visit hit pick tn s rest
    | _, _ => visit hit pick tn s rest

def allIds (s : State) : List Nat :=
  (s.trans.filter (·.hasUpdates)).map (·.start) ++ (s.trans.filter (!·.hasUpdates)).map (·.start)

/-- coalescing insert of `ranges.Ranges.Insert` on the abstract value; returns the increment -/
def insertRange (rs : List (Nat × Key × Key)) (idx : Nat) (f t : Key) : List (Nat × Key × Key) × Int :=
  if rs.any (fun r => r.1 == idx && decide (r.2.1 ≤ f) && decide (t ≤ r.2.2)) then (rs, 0)
  else
    let ov := rs.filter (fun r => r.1 == idx && decide (f ≤ r.2.2) && decide (r.2.1 ≤ t))
    let rest := rs.filter (fun r => !(r.1 == idx && decide (f ≤ r.2.2) && decide (r.2.1 ≤ t)))
    let nf := ov.foldl (fun m r => if r.2.1 ≤ m then r.2.1 else m) f
    let nt := ov.foldl (fun m r => if m ≤ r.2.2 then r.2.2 else m) t
    ((idx, nf, nt) :: rest, 1 - (ov.length : Int))

/-- `getActs` + update of the actions of `tbl` -/
def updActs (acts : List Acts) (tbl : Nat) (f : Acts → Acts) : List Acts :=
  if acts.any (·.table == tbl) then acts.map (fun a => if a.table == tbl then f a else a)
  else acts ++ [f { table := tbl }]

def getActs (acts : List Acts) (tbl : Nat) : Acts :=
  match acts.find? (·.table == tbl) with
  | some a => a
  | none => { table := tbl }

def readHit (tbl idx : Nat) (f t : Key) (T B : Tran) : Bool :=
  overlap T.start T.end_ B.start B.end_ && B.writeInRange tbl idx f t

/-- `saveRead` (+ the second, no-op, Abort in `Read`) -/
def saveRead (s : State) (tn tbl idx : Nat) (f t : Key) : State :=
  match s.find tn with
  | none => s
  | some T =>
    let r := insertRange (getActs T.acts tbl).creads idx f t
    let cnt := T.readCount + r.2
    if cnt ≥ readMax then (abort s tn).1
    else s.modify tn fun T => { T with readCount := cnt,
                                       acts := updActs T.acts tbl fun a =>
                                         { a with reads := (idx, f, t) :: a.reads, creads := r.1 } }

def read (s : State) (tn tbl idx : Nat) (f t : Key) (order pick : List Nat) : State × Bool :=
  match s.find tn with
  | none => (s, s.deadRc.contains tn)
  | some T =>
    if T.rc then (s, true)
    else if !T.active then (s, false)
    else
      let r := visit (readHit tbl idx f t) pick tn s (order ++ allIds s)
      if r.2 then (r.1, false) else (saveRead r.1 tn tbl idx f t, true)

/-- `t.start < ck.exclusive[table]` (missing = 0, MaxInt = none) -/
def exclBlocked (s : State) (tbl start : Nat) : Bool :=
  match s.excl.find? (·.1 == tbl) with
  | none => false
  | some (_, none) => true
  | some (_, some e) => decide (start < e)

/-- `gotUpdate`, the actvTran test and the exclusive test shared by Output/Delete/Update.
Returns the state and whether the operation goes on. -/
def writePre (s : State) (tn tbl : Nat) : State × Bool :=
  match s.find tn with
  | none => (s, false)
  | some T =>
    if !T.hasUpdates && T.rc then ((abort s tn).1, false)
    else
      let s1 := if T.hasUpdates then s else s.modify tn fun T => { T with hasUpdates := true }
      if !T.active then (s1, false)
      else
        if exclBlocked s1 tbl T.start then ((abort s1 tn).1, false) else (s1, true)

def zipIdx (ks : List Key) : List (Nat × Key) := (List.range ks.length).zip ks

/-- Output/Delete: some `keys[i]` is in a read range of `B` on index `i` -/
def keysHit (tbl : Nat) (ks : List (Nat × Key)) (_T B : Tran) : Bool :=
  B.active && ks.any fun p => B.readsContain tbl p.1 p.2

def addKeys (l : List (Nat × Key)) (ks : List (Nat × Key)) : List (Nat × Key) :=
  ks.foldl (fun l p => if l.contains p then l else l ++ [p]) l

def writeOp (s : State) (tn tbl : Nat) (chk : List (Nat × Key)) (dels outs : List (Nat × Key))
    (order pick : List Nat) : State × Bool :=
  let p := writePre s tn tbl
  if !p.2 then (p.1, false)
  else
    let r := visit (keysHit tbl chk) pick tn p.1 (order ++ allIds p.1)
    if r.2 then (r.1, false)
    else (r.1.modify tn fun T => { T with acts := updActs T.acts tbl fun a =>
            { a with dels := addKeys a.dels dels, outs := addKeys a.outs outs } }, true)

def output (s : State) (tn tbl : Nat) (keys : List Key) (order pick : List Nat) :=
  writeOp s tn tbl (zipIdx keys) [] (zipIdx keys) order pick

def delete (s : State) (tn tbl : Nat) (keys : List Key) (order pick : List Nat) :=
  writeOp s tn tbl (zipIdx keys) (zipIdx keys) [] order pick

/-- Update checks every old key and every new key that differs from the old one; the others are
equal to an old key that was checked.  (`newkeys[i]` with `i ≥ len(oldkeys)` panics in Go; the
harness keeps the lengths equal, the model checks such a key.) -/
def update (s : State) (tn tbl : Nat) (oldk newk : List Key) (order pick : List Nat) :=
  writeOp s tn tbl (zipIdx oldk ++ zipIdx newk) (zipIdx oldk) (zipIdx newk) order pick

def start (s : State) : State × Nat :=
  let n := s.seq + 2
  ({ s with seq := n, trans := s.trans ++ [{ start := n, birth := s.clock }] }, n)

/-- `commit`: none = "it's gone"; some tw = tables written -/
def commit (s : State) (tn : Nat) : State × Option (List Nat) :=
  match s.trans.find? (fun t => t.start == tn && t.active) with
  | none => (s, none)
  | some T =>
    let e := s.seq + 2
    let oldest := if s.oldest == some tn then none else s.oldest
    let s2 : State :=
      if T.hasUpdates then
        { s with seq := e, oldest := oldest,
                 trans := s.trans.map fun t => if t.start == tn && t.active then
                   { t with end_ := some e, acts := t.acts.map fun a => { a with reads := [], creads := [] } } else t }
      else
        { s with seq := e, oldest := oldest,
                 trans := s.trans.filter (fun t => !(t.start == tn && t.active)),
                 deadRc := if T.rc then tn :: s.deadRc else s.deadRc }
    let tw := if T.hasUpdates then (T.acts.filter (·.hasWrites)).map (·.table) else []
    (if s2.oldest == none then cleanEnded s2 else s2, some tw)

def abortAll (s : State) : List Nat → State
  | [] => s
  | t :: r => abortAll (abort s t).1 r

def tick (s : State) (maxAge : Nat) : State :=
  let s1 := { s with clock := s.clock + 1 }
  abortAll s1 ((s1.trans.filter fun t => t.active && decide ((s1.clock : Int) - t.birth ≥ maxAge)).map (·.start))

def addExcl (s : State) (tbl : Nat) : State × Bool :=
  match s.excl.find? (·.1 == tbl) with
  | some (_, none) => (s, false)
  | _ =>
    let vs := (s.trans.filter fun t => t.acts.any fun a => a.table == tbl && a.hasWrites).map (·.start)
    let s1 := abortAll s vs
    ({ s1 with excl := (s1.excl.filter (·.1 != tbl)) ++ [(tbl, none)] }, true)

def endExcl (s : State) (tbl : Nat) : State :=
  match s.excl.find? (·.1 == tbl) with
  | some (_, none) =>
    let e := s.seq + 2
    cleanEnded { s with seq := e,
                        excl := s.excl.map fun x => if x.1 == tbl then (tbl, some e) else x }
  | _ => s

def readCount (s : State) (tn : Nat) : Int :=
  match s.trans.find? (fun t => t.start == tn && t.active) with
  | some T => T.readCount
  | none => -1

/-! ### operations and the step function the driver executes -/

inductive Op
  | start
  | read (tn tbl idx : Nat) (f t : Key) (order pick : List Nat)
  | output (tn tbl : Nat) (keys : List Key) (order pick : List Nat)
  | delete (tn tbl : Nat) (keys : List Key) (order pick : List Nat)
  | update (tn tbl : Nat) (oldk newk : List Key) (order pick : List Nat)
  | commit (tn : Nat)
  | abort (tn : Nat)
  | tick (maxAge : Nat)
  | addExcl (tbl : Nat)
  | endExcl (tbl : Nat)
  | readCount (tn : Nat)
deriving Repr

inductive Out
  | id (n : Nat)
  | bool (b : Bool)
  | tables (tw : Option (List Nat))
  | int (i : Int)
  | unit
deriving Repr, BEq, DecidableEq

def step (s : State) : Op → State × Out
  | .start => let r := start s; (r.1, .id r.2)
  | .read tn tbl idx f t o p => let r := read s tn tbl idx f t o p; (r.1, .bool r.2)
  | .output tn tbl ks o p => let r := output s tn tbl ks o p; (r.1, .bool r.2)
  | .delete tn tbl ks o p => let r := delete s tn tbl ks o p; (r.1, .bool r.2)
  | .update tn tbl ok nk o p => let r := update s tn tbl ok nk o p; (r.1, .bool r.2)
  | .commit tn => let r := commit s tn; (r.1, .tables r.2)
  | .abort tn => let r := abort s tn; (r.1, .bool r.2)
  | .tick m => (tick s m, .unit)
  | .addExcl tbl => let r := addExcl s tbl; (r.1, .bool r.2)
  | .endExcl tbl => (endExcl s tbl, .unit)
  | .readCount tn => (s, .int (readCount s tn))

def run (s : State) : List Op → State
  | [] => s
  | op :: ops => run (step s op).1 ops

end Gsu.Ck
