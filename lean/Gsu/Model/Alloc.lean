/-
M-CONC instance 2 (C18): `db19/stor/stor.go` `Stor.Alloc` / `Stor.extend` as interleaved atomic
steps. `tstep` is one atomic step of one goroutine (its program counter carries its locals);
an interleaving is any sequence of `call`s and `tstep`s of any threads (`Step`). The driver
runs the same `tstep` for one thread to completion (`allocSeq`) and compares the offsets with
the real `Alloc` on a heap stor.

Shared state: `size` (atomic), `a` = `allocChunk` (atomic), `nchunks` = `len(chunks)` (atomic
value), `lock`; `ret` is the ghost list of intervals handed out, as `(chunk, end, n)`:
the interval is `[end - n, end)`. `C` is the chunk size (`1 << shift`; `x >> shift = x / C`).
The step order mirrored by `tstep` is `expectedAlloc` / `expectedExtend`, compared with the
regenerated `Gsu.Gen.Alloc.allocSteps` / `extendSteps` in `Gsu.Props.C18.gen_steps`.
Not modelled: `closedSize` (use after close), 64-bit wrap. Core-only: linked into `drv_c18`.
-/
import Gsu.Gen.Alloc
namespace Gsu.Alloc

/-- program counter + locals (`n` request size, `r` loop iterations left after the current one,
`ac` the loaded `allocChunk`, `new` the result of `size.Add`, `len` = `len(chunks)` as loaded) -/
inductive Pc where
  | idle
  | start (n r : Nat)                 -- loop head, `r` iterations left
  | loaded (n r ac : Nat)             -- after `allocChunk := s.allocChunk.Load()`
  | added (n r ac new : Nat)          -- after `newsize := s.size.Add(n)`; next: the endChunk compare
  | lockw (n r ac : Nat)              -- in `extend`, at `s.lock.Lock()`
  | locked (n r ac : Nat)             -- lock held; next: `chunks := s.chunks.Load()`
  | chunksLoaded (n r ac len : Nat)   -- next: `if allocChunk+1 < len(chunks) { return }`
  | appended (n r ac : Nat)           -- after append + `s.chunks.Store`; next: `s.size.Store((ac+1) << shift)`
  | sized (n r ac : Nat)              -- next: `s.allocChunk.Add(1)`
  | unlocking (n r : Nat)             -- next: deferred `s.lock.Unlock()`, then loop
  | returned (off n : Nat)            -- `Alloc` returned `off`
  | panicked                          -- `panic("Stor.Alloc too many retries")`
  deriving DecidableEq, Repr

structure Sh where
  size : Nat
  a : Nat
  nchunks : Nat
  lock : Option Nat
  ret : List (Nat × Nat × Nat)
  deriving Repr

/-- the atomic steps in program order, as named by the extractor -/
def expectedAlloc : List String := [
  "assertSize", "local:const maxRetries = 3", "retryLoop",
  "loadAllocChunk", "addSize",
  "closedCheck", "local:log.Println(\"stor: use after close\")", "local:runtime.Goexit()", "local:}",
  "endChunkOfNewsizeMinus1", "offsetIsNewsizeMinusN", "compareEndChunk", "returnOffset", "local:}",
  "callExtend", "local:}", "panicRetries"]

def expectedExtend : List String := [
  "lock", "deferUnlock", "loadChunks", "testBeaten", "local:return", "local:}",
  "appendChunk", "storeChunks", "storeSizeChunkStart", "bumpAllocChunk"]

/-- one atomic step of thread `t`; `none` = not enabled (waiting for the lock / not in a call) -/
def tstep (C : Nat) (t : Nat) (sh : Sh) : Pc → Option (Sh × Pc)
  | .idle => none
  | .start n r => if r = 0 then some (sh, .panicked) else some (sh, .loaded n (r - 1) sh.a)
  | .loaded n r ac => some ({ sh with size := sh.size + n }, .added n r ac (sh.size + n))
  | .added n r ac new =>
    if (new - 1) / C = ac then some ({ sh with ret := (ac, new, n) :: sh.ret }, .returned (new - n) n)
    else some (sh, .lockw n r ac)
  | .lockw n r ac => if sh.lock = none then some ({ sh with lock := some t }, .locked n r ac) else none
  | .locked n r ac => some (sh, .chunksLoaded n r ac sh.nchunks)
  | .chunksLoaded n r ac len =>
    if ac + 1 < len then some (sh, .unlocking n r)
    else some ({ sh with nchunks := len + 1 }, .appended n r ac)
  | .appended n r ac => some ({ sh with size := (ac + 1) * C }, .sized n r ac)
  | .sized n r _ => some ({ sh with a := sh.a + 1 }, .unlocking n r)
  | .unlocking n r => some ({ sh with lock := none }, .start n r)
  | .returned _ _ => some (sh, .idle)
  | .panicked => none

structure St where
  sh : Sh
  pcs : Nat → Pc

def upd (f : Nat → Pc) (t : Nat) (p : Pc) : Nat → Pc := fun u => if u = t then p else f u

/-- any thread may call `Alloc(n)` with `0 < n ≤ C` when it is not in a call; any thread may take
its next atomic step -/
inductive Step (C : Nat) : St → St → Prop where
  | call (s : St) (t n : Nat) (hi : s.pcs t = .idle) (hn : 0 < n ∧ n ≤ C) :
      Step C s { s with pcs := upd s.pcs t (.start n Gsu.Gen.Alloc.maxRetries) }
  | step (s : St) (t : Nat) (sh' : Sh) (pc' : Pc) (h : tstep C t s.sh (s.pcs t) = some (sh', pc')) :
      Step C s ⟨sh', upd s.pcs t pc'⟩

/-- a freshly opened storage: `NewStor(impl, C, size, chunks)` with `size` inside the last chunk -/
def initSt (size nchunks : Nat) : St :=
  ⟨⟨size, nchunks - 1, nchunks, none, []⟩, fun _ => .idle⟩

inductive Reach (C size0 nchunks0 : Nat) : St → Prop where
  | init : Reach C size0 nchunks0 (initSt size0 nchunks0)
  | step (s s') : Reach C size0 nchunks0 s → Step C s s' → Reach C size0 nchunks0 s'

/-- single-threaded run of one `Alloc(n)` (thread 0) on the shared state: the driver's op -/
def runSeq (C : Nat) : Nat → Sh → Pc → Sh × Pc
  | 0, sh, pc => (sh, pc)
  | fuel + 1, sh, pc =>
    match pc with
    | .returned _ _ => (sh, pc)
    | .panicked => (sh, pc)
    | _ => match tstep C 0 sh pc with
      | none => (sh, pc)
      | some (sh', pc') => runSeq C fuel sh' pc'

def allocSeq (C : Nat) (sh : Sh) (n : Nat) : Sh × Pc :=
  runSeq C 64 sh (.start n Gsu.Gen.Alloc.maxRetries)

end Gsu.Alloc
