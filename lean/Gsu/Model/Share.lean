/-
C02, sharing structure of a database state (the `no_shared_mutation` part of the property).

A transaction's snapshot is a *Meta.  What it reaches — hamt nodes, Schema structs, the
`Indexes` slice of a schema, the `FkToHere` slice of an index — is SHARED with every later state;
the schema mutators of db19/meta and util/hamt write in place into copies they made first.
This file models exactly that discipline over an explicit heap:

  * `Heap` = list of cells, an address is a position, allocation appends (so "allocated by this
    operation" = "address ≥ the heap size when the operation started");
  * cells: an `Indexes` array, an `FkToHere` array, a hamt node `{generation, vals, ptrs}`;
  * the mutators are mirrored write by write; whether they copy first is NOT assumed but read
    from the facts regenerated from the source (Gsu.Gen.Share):
      - `metaUpdate.getSchema`        (copies the Schema and clones `Indexes`)
      - `Meta.AlterRename`            (`tsNew.Indexes = slc.Clone(ts.Indexes)`, then writes
                                       `ix.Columns` through `&tsNew.Indexes[i]`)
      - `updateOtherFkToHere`         (per entry `ix.FkToHere = slc.Clone(ix.FkToHere)`, then
                                       `fk2.IIndex = iindex` through `&ix.FkToHere[j]`)
      - `node.pullUp` of util/hamt    (`if nd.generation != gen { nd = nd.dup(); … }`, then
                                       truncates `vals`/`ptrs` in place, recursively)
Column lists are values here (the Go code never writes into a column slice in place: `replace`
clones before its first write).  Other mutators (createFkeys/dropFkeys/renameFkey/updateOtherFk,
hamt `with`/`without`) follow the same two patterns and are covered by the generated guard facts
and by the correspondence suite, not by separate mirrors.

Core only (linked into drv_c02).
-/
import Gsu.Util.Proto
import Gsu.Gen.Share
namespace Gsu.Share
open Gsu.Proto

structure Fkey where
  table : Nat
  cols : List Nat
  iindex : Nat
  deriving DecidableEq, Repr

structure Index where
  cols : List Nat
  fkTable : Nat          -- 0 = no foreign key
  fkIIndex : Nat
  fkToHere : Nat         -- ADDRESS of the FkToHere array
  deriving DecidableEq, Repr

inductive Cell where
  | fks (l : List Fkey)
  | idxs (l : List Index)
  | node (gen : Nat) (vals : List Nat) (ptrs : List Nat)   -- ptrs are ADDRESSES of child nodes
  deriving DecidableEq, Repr

abbrev Heap := List Cell

structure Schema where
  table : Nat
  cols : List Nat
  indexes : Nat          -- ADDRESS of the Indexes array
  deriving DecidableEq, Repr

def alloc (h : Heap) (c : Cell) : Heap × Nat := (h ++ [c], h.length)

/-- slc.Clone of the array at `a` -/
def clone (h : Heap) (a : Nat) : Heap × Nat := alloc h (h.getD a (.fks []))

def rdIdxs (h : Heap) (a : Nat) : List Index :=
  match h[a]? with
  | some (.idxs l) => l
  | _ => []

def rdFks (h : Heap) (a : Nat) : List Fkey :=
  match h[a]? with
  | some (.fks l) => l
  | _ => []

/-- everything a transaction can read of a schema: per index its columns, the index position
of its foreign key target, and its FkToHere entries -/
def obs (h : Heap) (ts : Schema) : List (List Nat × Nat × List Fkey) :=
  (rdIdxs h ts.indexes).map fun ix => (ix.cols, ix.fkIIndex, rdFks h ix.fkToHere)

/-- `replace(list, from, to)` on column ids -/
def replace (l : List Nat) (frm to : Nat) : List Nat := l.map fun c => if c = frm then to else c

/-! ## metaUpdate.getSchema -/

def getSchemaMu (cloneIdx : Bool) (h : Heap) (ts : Schema) : Heap × Schema :=
  if cloneIdx then
    let (h1, a) := clone h ts.indexes
    (h1, { ts with indexes := a })
  else (h, ts)

/-! ## Meta.AlterRename -/

/-- `for i := range tsNew.Indexes { ix := &tsNew.Indexes[i]; ix.Columns = replace(…) }` -/
def renameLoop (frm to ia : Nat) : Nat → Nat → Heap → Heap
  | _, 0, h => h
  | i, n + 1, h =>
    match h[ia]? with
    | some (.idxs l) =>
      match l[i]? with
      | some ix => renameLoop frm to ia (i + 1) n
          (h.set ia (.idxs (l.set i { ix with cols := replace ix.cols frm to })))
      | none => h
    | _ => h

def alterRename (cloneIdx : Bool) (h : Heap) (ts : Schema) (frm to : Nat) : Heap × Schema :=
  let n := (rdIdxs h ts.indexes).length
  let (h1, ia) := if cloneIdx then clone h ts.indexes else (h, ts.indexes)
  (renameLoop frm to ia 0 n h1, { ts with cols := replace ts.cols frm to, indexes := ia })

/-! ## updateOtherFkToHere -/

/-- `ix.FkToHere = slc.Clone(ix.FkToHere)` for index `i` (= `ix`) of the Indexes array `l` at `ia`;
returns the heap and the address the following write goes through -/
def cloneStep (cloneFk : Bool) (h : Heap) (ia : Nat) (l : List Index) (i : Nat) (ix : Index) : Heap × Nat :=
  if cloneFk then
    ((clone h ix.fkToHere).1.set ia (.idxs (l.set i { ix with fkToHere := (clone h ix.fkToHere).2 })),
     (clone h ix.fkToHere).2)
  else (h, ix.fkToHere)

/-- `fk2 := &ix.FkToHere[j]; if … { fk2.IIndex = iindex }` through the array at `fa` -/
def writeStep (h : Heap) (fa j : Nat) (table : Nat) (cols fkCols : List Nat) (iindex : Nat) (ix : Index) : Heap :=
  match h[fa]? with
  | some (.fks fl) =>
    match fl[j]? with
    | some fk2 =>
      if fk2.table = table ∧ fk2.cols = cols ∧ ix.cols = fkCols then
        h.set fa (.fks (fl.set j { fk2 with iindex := iindex }))
      else h
    | none => h
  | _ => h

/-- the inner loop `for j := range ix.FkToHere` for index `i` of the schema whose Indexes array
is at `ia` -/
def fkLoop (cloneFk : Bool) (table : Nat) (cols fkCols : List Nat) (iindex ia i : Nat) :
    Nat → Nat → Heap → Heap
  | _, 0, h => h
  | j, n + 1, h =>
    match h[ia]? with
    | some (.idxs l) =>
      match l[i]? with
      | some ix =>
        fkLoop cloneFk table cols fkCols iindex ia i (j + 1) n
          (writeStep (cloneStep cloneFk h ia l i ix).1 (cloneStep cloneFk h ia l i ix).2 j
            table cols fkCols iindex ix)
      | none => h
    | _ => h

/-- the outer loop `for i := range ts.Indexes` -/
def idxLoop (cloneFk : Bool) (table : Nat) (cols fkCols : List Nat) (iindex ia : Nat) :
    Nat → Nat → Heap → Heap
  | _, 0, h => h
  | i, n + 1, h =>
    let nj := match (rdIdxs h ia)[i]? with
      | some ix => (rdFks h ix.fkToHere).length
      | none => 0
    idxLoop cloneFk table cols fkCols iindex ia (i + 1) n
      (fkLoop cloneFk table cols fkCols iindex ia i 0 nj h)

def updateOtherFkToHere (cloneIdx cloneFk : Bool) (h : Heap) (target : Schema)
    (table : Nat) (cols fkCols : List Nat) (iindex : Nat) : Heap × Schema :=
  let (h1, ts) := getSchemaMu cloneIdx h target
  (idxLoop cloneFk table cols fkCols iindex ts.indexes 0 (rdIdxs h1 ts.indexes).length h1, ts)

/-! ## util/hamt node.pullUp -/

/-- `if nd.generation != gen { nd = nd.dup(); nd.generation = gen }`: the heap, the address of
the node that is written from now on, and its generation -/
def dupStep (guard : Bool) (gen : Nat) (h : Heap) (a g : Nat) (vals ptrs : List Nat) : Heap × Nat × Nat :=
  if guard && g != gen then (h ++ [.node gen vals ptrs], h.length, gen) else (h, a, g)

/-- returns (heap, address of the node that replaces `a` or none if it became empty, item).
`fuel` bounds the depth (the trie has at most 7 levels). -/
def pullUp (guard : Bool) (gen : Nat) : Nat → Heap → Nat → Heap × Option Nat × Nat
  | 0, h, a => (h, some a, 0)
  | fuel + 1, h, a =>
    match h[a]? with
    | some (.node g vals ptrs) =>
      let d := dupStep guard gen h a g vals ptrs
      match ptrs.getLast? with
      | some cp =>
        -- have children: recurse into the last one
        let r := pullUp guard gen fuel d.1 cp
        match r.2.1 with
        | some c => (r.1.set d.2.1 (.node d.2.2 vals (ptrs.dropLast ++ [c])), some d.2.1, r.2.2)
        | none => (r.1.set d.2.1 (.node d.2.2 vals ptrs.dropLast), some d.2.1, r.2.2)
      | none =>
        if vals.length ≤ 1 then (d.1, none, vals.getLastD 0)
        else (d.1.set d.2.1 (.node d.2.2 vals.dropLast ptrs), some d.2.1, vals.getLastD 0)
    | _ => (h, some a, 0)

/-- all items below a node (what `All`/`Get` of an older version can reach) -/
def items : Nat → Heap → Nat → List Nat
  | 0, _, _ => []
  | fuel + 1, h, a =>
    match h[a]? with
    | some (.node _ vals ptrs) => vals ++ ptrs.flatMap (items fuel h)
    | _ => []

/-! ## driver scenarios (the same objects the Go suite builds with the real functions) -/

def showB (b : Bool) : String := if b then "t" else "f"

/-- table `t` with `nIdx` single-column indexes (column ids 1..nIdx), rename the column of
index `which` to 99 -/
def scenRename (nIdx which : Nat) : String :=
  let fa := 0
  let h0 : Heap := [.fks []]
  let idx : List Index := (List.range nIdx).map fun i => ⟨[i + 1], 0, 0, fa⟩
  let (h, ia) := alloc h0 (.idxs idx)
  let old : Schema := ⟨1, (List.range nIdx).map (· + 1), ia⟩
  let (h', nw) := alterRename Gsu.Gen.Share.cloneIndexesInAlterRename h old (which + 1) 99
  let renamed := match (rdIdxs h' nw.indexes)[which]? with
    | some ix => ix.cols == [99]
    | none => false
  s!"shared={showB (nw.indexes == old.indexes)} old-unchanged={showB (obs h' old == obs h old)} new-renamed={showB renamed}"

/-- parent `p` (key k = column 1) referenced by `nChild` child tables (table ids 10+i, column
3, foreign key index at position 2); `alter child_which drop index(x)` moves that child's
foreign key index to position 1 → updateOtherFkToHere(mu, child, [3], fk{p,[1]}, 1) -/
def scenDropIdx (nChild which : Nat) : String :=
  let fl : List Fkey := (List.range nChild).map fun i => ⟨10 + i, [3], 2⟩
  let (h1, fa) := alloc [] (.fks fl)
  let (h, ia) := alloc h1 (.idxs [⟨[1], 0, 0, fa⟩])
  let old : Schema := ⟨1, [1, 2], ia⟩
  let (h', nw) := updateOtherFkToHere Gsu.Gen.Share.getSchemaClonesIndexes
    Gsu.Gen.Share.cloneFkToHereBeforeWrite h old (10 + which) [3] [1] 1
  let nfa := match (rdIdxs h' nw.indexes)[0]? with
    | some ix => ix.fkToHere
    | none => 0
  let ni := match (rdFks h' nfa)[which]? with
    | some fk => fk.iindex
    | none => 0
  s!"idx-shared={showB (nw.indexes == old.indexes)} fk-shared={showB (nfa == fa)} old-unchanged={showB (obs h' old == obs h old)} new-iindex={ni}"

/-- a frozen trie of generation 1: root {val 100, one child}; below it a chain of `depth`
nodes each with one value and one child, ending in a node with `nvals` values (200, 201, …).
Delete(100) in generation 2: `without` copies the root and calls pullUp on the child chain. -/
def scenPullUp (nvals depth : Nat) : String :=
  let leaf : Cell := .node 1 ((List.range nvals).map (· + 200)) []
  -- chain built bottom up: address i+1 points to address i
  let h0 : Heap := (List.range depth).foldl (fun h i => h ++ [.node 1 [300 + i] [h.length - 1]]) [leaf]
  let top := h0.length - 1
  let (h, root) := alloc h0 (.node 1 [100] [top])
  let before := items 9 h root
  -- without(): the root is path copied (its own guard), then pullUp(child)
  let (h1, root2) := alloc h (.node 2 [100] [top])
  let (h2, child, item) := pullUp Gsu.Gen.Share.pullUpGuard 2 9 h1 top
  let h3 := match child with
    | some c => h2.set root2 (.node 2 [item] [c])
    | none => h2.set root2 (.node 2 [item] [])
  let sharedChild := match child with
    | some c => c == top
    | none => false
  s!"child-shared={showB sharedChild} old-unchanged={showB (items 9 h3 root == before)} pulled={item} new-count={(items 9 h3 root2).length}"

def drive : List String → String
  | ["sh-rename", n, w] => match parseNat n, parseNat w with
    | some n, some w => scenRename n w
    | _, _ => "bad-op"
  | ["sh-dropidx", n, w] => match parseNat n, parseNat w with
    | some n, some w => scenDropIdx n w
    | _, _ => "bad-op"
  | ["sh-pullup", n, d] => match parseNat n, parseNat d with
    | some n, some d => scenPullUp n d
    | _, _ => "bad-op"
  | _ => "bad-op"

end Gsu.Share
