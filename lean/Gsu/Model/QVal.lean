/-
M-QRY / M-LANG values (core-only): the small value domain the query model computes with
(booleans, integers, byte strings), the stored ("packed") encoding of those values
(`core/pack.go`, `core/suint64.go: packInt`, `core/sustr.go`), the language order
(`Value.Compare`: type order boolean < number < string, then by value) and the byte order of the
encodings that the query engine uses for `min`/`max`, `sort` and raw comparisons.

Integers are packed as `packInt` does (int64 range; the Dnum packing of an integral value yields
the same bytes). Dates, objects and non-integral numbers are not in this model.
-/
import Gsu.Util.Proto
namespace Gsu.QVal
open Gsu.Proto

inductive Val where
  | bool (b : Bool)
  | int (n : Int)
  | str (s : Bytes)
  deriving DecidableEq, Repr, Inhabited

/-- the empty string: what a missing column reads as -/
def Val.empty : Val := .str []

/-- `strings.Compare` on byte strings -/
def cmpB : Bytes → Bytes → Ordering
  | [], [] => .eq
  | [], _ :: _ => .lt
  | _ :: _, [] => .gt
  | a :: as, b :: bs => if a < b then .lt else if b < a then .gt else cmpB as bs

/-- decimal digits, most significant first (`buf[i..20)` in `packInt`; 20 digits cover uint64) -/
def digitsAux : Nat → Nat → List Nat → List Nat
  | 0, _, acc => acc
  | fuel + 1, n, acc => if n = 0 then acc else digitsAux fuel (n / 10) ((n % 10) :: acc)

def digits (n : Nat) : List Nat := digitsAux 20 n []

/-- drop trailing zero digits (`for ; lim > 0 && buf[lim] == 0; lim--`) -/
def stripZeros (ds : List Nat) : List Nat := (ds.reverse.dropWhile (· = 0)).reverse

/-- two decimal digits per byte, the last one padded with a zero digit -/
def pairs : List Nat → List Nat
  | [] => []
  | [a] => [a * 10]
  | a :: b :: r => (a * 10 + b) :: pairs r

def tagFalse : UInt8 := 0
def tagTrue : UInt8 := 1
def tagMinus : UInt8 := 2
def tagPlus : UInt8 := 3
def tagString : UInt8 := 4

/-- `packInt` after the sign has been split off: tag, exponent byte, coefficient bytes -/
def packNat (tag x : UInt8) (u : Nat) : Bytes :=
  if u = 0 then [tag]
  else
    let ds := digits u
    tag :: (UInt8.ofNat ds.length ^^^ 0x80 ^^^ x) ::
      (pairs (stripZeros ds)).map (fun d => UInt8.ofNat d ^^^ x)

/-- `core.Pack` for the modelled values -/
def pack : Val → Bytes
  | .bool false => [tagFalse]
  | .bool true => [tagTrue]
  | .int n => if n < 0 then packNat tagMinus 0xff n.natAbs else packNat tagPlus 0 n.natAbs
  | .str [] => []
  | .str (c :: s) => tagString :: c :: s

/-- type order of `Value.Compare` (`ordBool < ordNum < ordStr`) -/
def ord : Val → Nat
  | .bool _ => 0
  | .int _ => 1
  | .str _ => 2

/-- language comparison `x.Compare(y)` -/
def compare : Val → Val → Ordering
  | .bool a, .bool b => if a = b then .eq else if a = false then .lt else .gt
  | .int a, .int b => if a < b then .lt else if b < a then .gt else .eq
  | .str a, .str b => cmpB a b
  | a, b => if ord a < ord b then .lt else if ord b < ord a then .gt else .eq

/-- comparison of the stored encodings -/
def rawCmp (a b : Val) : Ordering := cmpB (pack a) (pack b)

/-- numeric reading used by `+ - *` and `total`: `""` is 0; `none` = "can't convert" -/
def toNum : Val → Option Int
  | .int n => some n
  | .str [] => some 0
  | _ => none

def isTrue (v : Val) : Bool := v == .bool true

/-- `UnpackBool` restricted to well-formed input (anything else is a type error in the code) -/
def unpackBool (b : Bytes) : Val := .bool (b == [tagTrue])

def packBool (b : Bool) : Bytes := if b then [tagTrue] else [tagFalse]

end Gsu.QVal
