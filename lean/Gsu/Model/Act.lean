/-
M-QRY actions: relational reference model of `dbms/query/action.go`
(`insertRecordAction`, `insertQueryAction`, `deleteAction`, `updateAction`) over two tables
t, u (k, a, b) key(k) with integer values (core-only).

Statements through `rename` / `project` / `extend` / nested `where` of a table are translated to
the base table by the harness (a renamed column is the stored column, an extended column is
`col + const`, a projected-away column is simply not mentioned): what this model then says about
them is that only the assigned columns of the selected rows change.

A statement selects rows by a predicate, changes exactly those, and reports their number.
`update` evaluates every `set` expression on the row as selected (the Go code evaluates with
`ctx.Row = row`) and applies all selected rows (finding 25 repaired: the selected rows are
collected before any is changed, so a statement never meets its own output).
A duplicate key makes the statement fail (the suite then aborts the transaction).
-/
import Gsu.Util.Proto
namespace Gsu.Act
open Gsu.Proto

structure R where
  k : Int
  a : Int
  b : Int
deriving DecidableEq

inductive Col | k | a | b
deriving DecidableEq

def R.get (r : R) : Col → Int
  | .k => r.k
  | .a => r.a
  | .b => r.b

def R.set (r : R) (c : Col) (v : Int) : R :=
  match c with
  | .k => { r with k := v }
  | .a => { r with a := v }
  | .b => { r with b := v }

inductive Cmp | eq | ne | lt | ge | le | gt

def Cmp.eval : Cmp → Int → Int → Bool
  | .eq, x, y => x == y
  | .ne, x, y => x != y
  | .lt, x, y => decide (x < y)
  | .ge, x, y => decide (x ≥ y)
  | .le, x, y => decide (x ≤ y)
  | .gt, x, y => decide (x > y)

inductive Pred
  | cmp (c : Col) (op : Cmp) (v : Int)
  /-- `c + off op v`: a comparison on an `extend`ed column `z = c + off` -/
  | cmpp (c : Col) (off : Int) (op : Cmp) (v : Int)
  | and (p q : Pred)
  | or (p q : Pred)
  | all

def Pred.eval : Pred → R → Bool
  | .cmp c op v, r => op.eval (r.get c) v
  | .cmpp c off op v, r => op.eval (r.get c + off) v
  | .and p q, r => p.eval r && q.eval r
  | .or p q, r => p.eval r || q.eval r
  | .all, _ => true

/-- `set col = v` or `set col = src + v` -/
inductive SetE
  | const (v : Int)
  | plus (src : Col) (v : Int)

def SetE.eval : SetE → R → Int
  | .const v, _ => v
  | .plus c v, r => r.get c + v

abbrev Asg := List (Col × SetE)

/-- all expressions read the selected row; assignments applied left to right -/
def applyAsg (asg : Asg) (r : R) : R :=
  asg.foldl (fun acc ce => acc.set ce.1 (ce.2.eval r)) r

def keys (rows : List R) : List Int := rows.map (·.k)

def dupFree : List Int → Bool
  | [] => true
  | x :: xs => !xs.contains x && dupFree xs

structure Db where
  t : List R
  u : List R
  /-- a third table w (a, d) key(a), only used as the other side of a join -/
  w : List (Int × Int) := []

def Db.get (d : Db) (i : Nat) : List R := if i = 0 then d.t else d.u
def Db.put (d : Db) (i : Nat) (rows : List R) : Db := if i = 0 then { d with t := rows } else { d with u := rows }

/-- result of a statement: new database and reported count, or failure -/
abbrev Res := Option (Db × Nat)

def insert (d : Db) (i : Nat) (r : R) : Res :=
  if (keys (d.get i)).contains r.k then none else some (d.put i (d.get i ++ [r]), 1)

def delete (d : Db) (i : Nat) (p : Pred) : Res :=
  some (d.put i ((d.get i).filter fun r => !p.eval r), ((d.get i).filter p.eval).length)

def update (d : Db) (i : Nat) (p : Pred) (asg : Asg) : Res :=
  let rows' := (d.get i).map fun r => if p.eval r then applyAsg asg r else r
  if dupFree (keys rows') then some (d.put i rows', ((d.get i).filter p.eval).length) else none

def insertW (d : Db) (a v : Int) : Res :=
  if (d.w.map (·.1)).contains a then none else some ({ d with w := d.w ++ [(a, v)] }, 1)

/-- the rows `insert (…) into u` takes from t: `t where p`, or `(t join w) where p` / `(w join t) where p`
(join by a, which is a key of w: a row of t joins with at most one row of w) -/
def selQ (d : Db) (p : Pred) (join : Bool) (r : R) : Bool :=
  p.eval r && (!join || (d.w.map (·.1)).contains r.a)

/-- `insert (t where p) into u`, `insert ((t join w) where p) into u` -/
def insertQuery (d : Db) (p : Pred) (join : Bool := false) : Res :=
  let sel := d.t.filter (selQ d p join)
  let rows' := d.u ++ sel
  if dupFree (keys rows') then some ({ d with u := rows' }, sel.length) else none

end Gsu.Act
