/-
Line protocol for the logical database model (drivers of C08 and C44). Core-only.

  reset <table>…          table = <ncols>/<idx>/<idx>…   idx = <mode>:<c.c.c>:<fk>   fk = - | <t>.<i>.<mode>
  trig <t> <kind>         0 none, 1 recording, 2 recording + throws on a row containing the field "!"
  dis <t> | ena <t>
  begin | commit | abort
  out <t> <f>…            → ok <log entries> | !dup | !fkout | !abort
  del <t> <f>…            → ok <log entries> | !fkdel | !norow | !abort
  upd <t> <n> <old f>… <new f>…
  state                   → committed rows of every table (sorted), tables separated by |
A log entry is <t>:<old>><new> with rows as comma separated x<hex> fields, - for "no row";
the entries of one operation are printed sorted (cascade order inside one operation follows
the physical index order, which the logical model does not have).
-/
import Gsu.Model.LDb
namespace Gsu.LDbDrive
open Gsu.Proto Gsu.LDb

def parseCols (s : String) : Option (List Nat) :=
  if s = "" then some [] else allSome ((s.splitOn ".").map parseNat)

def parseFk (s : String) : Option (Option Fk) :=
  if s = "-" then some none
  else match (s.splitOn ".").map parseNat with
    | [some t, some i, some m] => some (some ⟨t, i, m⟩)
    | _ => none

def parseIndex (s : String) : Option Index :=
  match s.splitOn ":" with
  | [m, cs, fk] =>
    match parseNat m, parseCols cs, parseFk fk with
    | some m, some cs, some fk => some ⟨m, cs, fk⟩
    | _, _, _ => none
  | _ => none

def parseTable (s : String) : Option Table :=
  match s.splitOn "/" with
  | n :: idxs =>
    match parseNat n, allSome (idxs.map parseIndex) with
    | some n, some ixs => some ⟨n, ixs⟩
    | _, _ => none
  | [] => none

def insertSorted (s : String) : List String → List String
  | [] => [s]
  | a :: as => if s ≤ a then s :: a :: as else a :: insertSorted s as

def sortStrings (l : List String) : List String := l.foldr insertSorted []

def showRow (r : Row) : String := ",".intercalate (r.map showBytes)

def showORow : Option Row → String
  | none => "-"
  | some r => showRow r

def showEntry (e : Entry) : String := s!"{e.table}:{showORow e.old}>{showORow e.new}"

def showErr : Err → String
  | .dup => "!dup"
  | .fkout => "!fkout"
  | .fkdel => "!fkdel"
  | .norow => "!norow"
  | _ => "!abort"

def emptySt : St := ⟨⟨[], fun _ => 0, fun _ => 0⟩, fun _ => [], ⟨fun _ => [], []⟩, false⟩

def pad (n : Nat) (r : Row) : Row := r ++ List.replicate (n - r.length) []

def ncolsOf (s : St) (t : Nat) : Nat :=
  match s.env.sch[t]? with
  | some tb => tb.ncols
  | none => 0

/-- run a row operation and print outcome + the trigger calls it made -/
def rowOp (s : St) (op : Op) : St × String :=
  if !s.alive then (s, "!ended")
  else
    let before := s.w.log.length
    match opRes s op with
    | none => (s, "bad-op")
    | some r =>
      let s' := applyRes s r
      match r with
      | .ok w =>
        let es := sortStrings ((w.log.drop before).map showEntry)
        (s', " ".intercalate ("ok" :: es))
      | .err e true => (s', showErr e)
      | .err _ false => (s', "!abort")

def step (s : St) (l : List String) : St × String :=
  match l with
  | "reset" :: tbs =>
    match allSome (tbs.map parseTable) with
    | some sch => ({ emptySt with env := ⟨sch, fun _ => 0, fun _ => 0⟩ }, "ok")
    | none => (s, "bad-op")
  | ["trig", t, k] =>
    match parseNat t, parseNat k with
    | some t, some k => ({ s with env := { s.env with trig := setCount s.env.trig t k } }, "ok")
    | _, _ => (s, "bad-op")
  | ["dis", t] =>
    match parseNat t with
    | some t => (LDb.step s (.dis t), "ok")
    | none => (s, "bad-op")
  | ["ena", t] =>
    match parseNat t with
    | some t => if s.env.dis t = 0 then (s, "!neg") else (LDb.step s (.ena t), "ok")
    | none => (s, "bad-op")
  | ["begin"] => (LDb.step s .begin, "ok")
  | ["commit"] => if s.alive then (LDb.step s .commit, "ok") else (s, "!aborted")
  | ["abort"] => (LDb.step s .abort, "ok")
  | "out" :: t :: fs =>
    match parseNat t, allSome (fs.map parseBytes) with
    | some t, some r => rowOp s (.out t (pad (ncolsOf s t) r))
    | _, _ => (s, "bad-op")
  | "del" :: t :: fs =>
    match parseNat t, allSome (fs.map parseBytes) with
    | some t, some r => rowOp s (.del t (pad (ncolsOf s t) r))
    | _, _ => (s, "bad-op")
  | "upd" :: t :: n :: fs =>
    match parseNat t, parseNat n, allSome (fs.map parseBytes) with
    | some t, some n, some r =>
      rowOp s (.upd t (pad (ncolsOf s t) (r.take n)) (pad (ncolsOf s t) (r.drop n)))
    | _, _, _ => (s, "bad-op")
  | ["state"] =>
    let tabs := (List.range s.env.sch.length).map fun t =>
      " ".intercalate (sortStrings ((s.committed t).map showRow))
    (s, " | ".intercalate tabs)
  | _ => (s, "bad-op")

end Gsu.LDbDrive
