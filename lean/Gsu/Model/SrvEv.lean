/-
Vocabulary of the regenerated server command table (C41, C40).

`tools/extract/t_srvcmds.go` walks every `cmdX` function of dbms/dbmsserver.go and emits, per
command, the list of its control-flow paths, each path a list of `Ev`.  The generated values
live in `Gsu.Gen.SrvCmds`; the interpretation of the events (what an unauthenticated
connection can reach) is `Gsu.Model.Srv`.  Core-only.
-/
namespace Gsu.SrvEv

/-- the kinds of server-side handles a request can name -/
inductive H where
  | tran     -- ss.tran(tn): ss.trans[tn] must exist, else ss.error
  | query    -- ss.getQuery / `q := ss.queries[qn]; if q == nil { ss.error }`
  | cursor   -- ss.getCursor / `c := ss.cursors[qn]; if c == nil { ss.error }`
  | qorc     -- ss.getQorC / ss.getQorTC: a query or a cursor must exist
  deriving DecidableEq, Repr

/-- one step on a control-flow path of a command function, in evaluation order -/
inductive Ev where
  /-- `ss.sc.dbms.<m>` is evaluated (called, or taken as a method value) -/
  | dbms (m : String)
  /-- `ss.getTran()`: transaction number 0 yields nil, any other number must name an open
      transaction of this session -/
  | tranOpt
  /-- a method of the (possibly nil) result of `ss.getTran()` is selected -/
  | useTran
  /-- a handle lookup that ends the request with `ss.error` when the handle does not exist -/
  | need (h : H)
  /-- `ss.<map>[k] = v` -/
  | store (m : String)
  /-- any other call / assignment target / map read, by name -/
  | call (f : String)
  /-- `panic(..)` / `ss.error(..)`: the request ends with an error response -/
  | fail
  deriving DecidableEq, Repr

structure Cmd where
  idx : Nat
  name : String
  paths : List (List Ev)
  deriving Repr

/-- what a method of the `DbmsUnauth` wrapper does -/
inductive UA where
  | refuse    -- body is `panic(notauth)`
  | delegate  -- body forwards to the wrapped DbmsLocal
  | other
  deriving DecidableEq, Repr

end Gsu.SrvEv
