/-
Executable functional mirrors of the secondary containers of property C39
(util/sortlist, util/bloom, util/roaring, util/lrucache, util/cache, util/shmap).
Core-only (linked into drv_c39aux). Every integer constant comes from Gsu.Gen.Containers
(regenerated from the Go source on every run).

Fidelity per container is stated at the head of each section.
-/
import Gsu.Gen.Containers

namespace Gsu.Containers
open Gsu.Gen.Containers

/-! ## sortlist  (util/sortlist/sortlist.go)

Mirror at *run level*: the builder state is the current (partial) block plus a stack of
sorted runs, one run = the flattened contents of `mergeSize` consecutive blocks (newest
first). Mirrored literally: `Add` (block of `blockSize` values, sorted when full, then
`merges(nb)`), the loop of `merges` (`bi&mergeSize == mergeSize`, `mergeSize <<= 1`), `merge`
(the "nothing to do" shortcut `zero(rightFirst) || less(leftLast, rightFirst)` and the merge
loop that takes the *right* value on ties), `Finish` (partial last block sorted, pushed, merged).
Abstracted: the slot arithmetic inside `b.blocks`, block recycling and terminators (a run is
a plain list); `sort.Sort` of one block is `List.mergeSort` (any correct sort gives the same
result when keys inside a block are distinct); `finishMerges` (padding with empty blocks up
to the next power of two so that the pending merges cascade) is modelled by its effect:
the remaining runs are merged newest to oldest (`collapse`); the worker goroutine is
sequentialised (Add waits for the worker before handing over the next block).
Values are `Nat`, the order is `less x y := key x < key y` for a key function `k`
(the driver uses `k x = x >>> shift`, so values with equal keys remain distinguishable and
the tie rule of the merge is observable).
-/
namespace SL

abbrev blockSize : Nat := sortlistBlockSize

/-- the merge loop of `Builder.merge`: `if less(aval,bval) {out a} else {out b}` -/
def mergeL (k : Nat → Nat) : List Nat → List Nat → List Nat
  | [], r => r
  | a :: l, [] => a :: l
  | a :: l, b :: r =>
    if k a < k b then a :: mergeL k l (b :: r) else b :: mergeL k (a :: l) r
termination_by l r => l.length + r.length

/-- `Builder.merge` on two adjacent runs (left = older) -/
def mergeRuns (k : Nat → Nat) (l r : List Nat) : List Nat :=
  match r with
  | [] => l                                   -- b.zero(rightFirst)
  | y :: _ =>
    match l.getLast? with
    | none => r
    | some x => if k x < k y then l ++ r      -- less(leftLast, rightFirst): nothing to do
                else mergeL k l r

/-- one `b.merge(nb, mergeSize)`: the two newest runs are merged -/
def mergeTop (k : Nat → Nat) : List (List Nat) → List (List Nat)
  | r :: l :: rest => mergeRuns k l r :: rest
  | st => st

/-- `for mergeSize := 1; bi&mergeSize == mergeSize; mergeSize <<= 1 { merge }` (fuel = int bits) -/
def mergesLoop (k : Nat → Nat) (bi : Nat) : Nat → Nat → List (List Nat) → List (List Nat)
  | 0, _, st => st
  | fuel + 1, m, st =>
    if bi &&& m == m then mergesLoop k bi fuel (m <<< 1) (mergeTop k st) else st

def merges (k : Nat → Nat) (nb : Nat) (st : List (List Nat)) : List (List Nat) :=
  mergesLoop k (nb - 1) 64 1 st

/-- `sort.Sort(ablock{…})` -/
def sortBlock (k : Nat → Nat) (b : List Nat) : List Nat :=
  b.mergeSort (fun x y => k x ≤ k y)

structure Builder where
  cur : List Nat := []          -- current block, newest value first
  i : Nat := 0                  -- index in current block
  st : List (List Nat) := []    -- runs, newest first
  nb : Nat := 0                 -- len(b.blocks)

/-- append a (full or final partial) block: sort it, `b.blocks = append(…)`, `merges(len(blocks))` -/
def Builder.flush (k : Nat → Nat) (b : Builder) : Builder :=
  { cur := [], i := 0, nb := b.nb + 1,
    st := merges k (b.nb + 1) (sortBlock k b.cur.reverse :: b.st) }

def Builder.add (k : Nat → Nat) (b : Builder) (x : Nat) : Builder :=
  let b' := { b with cur := x :: b.cur, i := b.i + 1 }
  if b'.i ≥ blockSize then b'.flush k else b'

/-- effect of `finishMerges`: merge the remaining runs, newest into older -/
def collapse (k : Nat → Nat) : List (List Nat) → List Nat
  | [] => []
  | r :: rest => rest.foldl (fun acc l => mergeRuns k l acc) r

def Builder.finish (k : Nat → Nat) (b : Builder) : List Nat :=
  collapse k (if b.i = 0 then b else b.flush k).st

/-- NewSorting; Add each value; Finish; iterate -/
def finish (k : Nat → Nat) (xs : List Nat) : List Nat :=
  (xs.foldl (Builder.add k) {}).finish k

end SL

/-! ## bloom  (util/bloom/bloom.go)

Faithful mirror of `New`, `Add`, `Test` with the real double-hash positions
`(h1 + i*h2) % (len(bits)*64)`, `h1 = uint32(h)`, `h2 = h>>32`.
The `[]int64` bitset is flattened to one `Nat` (bit `n` = word `n/64`, bit `n%64`).
-/
namespace Bloom

structure T where
  k : Nat
  nwords : Nat
  bits : Nat
  deriving Repr

def new (m k : Nat) : T := { k, nwords := (m + bloomNewRound) / bloomNewDiv, bits := 0 }

def pos (nwords h i : Nat) : Nat :=
  (h % 2 ^ bloomHashShift + i * (h >>> bloomHashShift)) % (nwords * bloomWordBits)

def positions (b : T) (h : Nat) : List Nat := (List.range b.k).map (pos b.nwords h)

def setBit (bits n : Nat) : Nat := bits ||| (1 <<< n)
def getBit (bits n : Nat) : Bool := bits.testBit n

def add (b : T) (h : Nat) : T := { b with bits := (positions b h).foldl setBit b.bits }
def test (b : T) (h : Nat) : Bool := (positions b h).all (getBit b.bits)

end Bloom

/-! ## shmap  (util/shmap/map.go) — SPEC LEVEL

The Swiss table (groups of `shmapGroupSize` slots, control bytes, tombstones, triangular
probing, growth at load factor `shmapLoadFactor`/8) is NOT mirrored. The model is the
abstract map it has to refine: an association list with at most one entry per key.
The tie to the Go code is the differential run (Put/Get/Del/Size/Iter-as-a-set, with
well-spread, clustered and fully colliding hash functions, across growth) only.
Concurrency: shmap has no internal locking; nothing about concurrent use is modelled.
-/
namespace Assoc

abbrev Map := List (Nat × Nat)

def get (m : Map) (k : Nat) : Option Nat := (m.find? (fun e => e.1 == k)).map (·.2)
def del (m : Map) (k : Nat) : Map := m.filter (fun e => e.1 != k)
def put (m : Map) (k v : Nat) : Map := (k, v) :: del m k
def size (m : Map) : Nat := m.length

end Assoc

/-! ## lrucache  (util/lrucache/lrucache.go)

Faithful mirror of `New` (size table), `Get` (hit: move to the newest end unless already in
the newest `size/8` positions), `Put` (append while not full, else replace `lru[0]`; note: `Put`
does not look for an existing entry of the key), `GetPut`, `Stats`, `Entries`, `Reset`, with
the embedded `shmap` at spec level (`Assoc`). Keys and values are `Nat`.
-/
namespace Lru

structure T where
  size : Nat
  lru : List Nat := []              -- entry indexes, oldest first
  entries : List (Nat × Nat) := []
  hm : Assoc.Map := []              -- key → entry index
  hits : Nat := 0
  misses : Nat := 0

def pickSize (req : Nat) : Nat :=
  match lruSizes.find? (fun n => req ≤ n) with
  | some n => n
  | none => lruMaxSize

def new (req : Nat) : T := { size := pickSize req }

def get (c : T) (key : Nat) : T × Option Nat :=
  match Assoc.get c.hm key with
  | none => ({ c with misses := c.misses + 1 }, none)
  | some ei =>
    let li := c.lru.idxOf ei                          -- bytes.IndexByte
    let lru := if li < c.size - c.size / lruNoMoveDiv
      then c.lru.eraseIdx li ++ [ei]                  -- copy(lru[li:], lru[li+1:]); lru[len-1] = ei
      else c.lru
    ({ c with lru := lru, hits := c.hits + 1 }, (c.entries[ei]?).map (·.2))

def put (c : T) (key val : Nat) : T :=
  let ei := c.entries.length
  if ei < c.size then
    { c with entries := c.entries ++ [(key, val)], lru := c.lru ++ [ei], hm := Assoc.put c.hm key ei }
  else
    let ei := c.lru.headD 0
    let old := (c.entries[ei]?).getD (0, 0)
    { c with entries := c.entries.set ei (key, val), lru := c.lru.drop 1 ++ [ei],
             hm := Assoc.put (Assoc.del c.hm old.1) key ei }

/-- `GetPut` with the value `fv` the getter returns for `key` (used only on a miss) -/
def getPut (c : T) (key fv : Nat) : T × Nat :=
  match get c key with
  | (c', some v) => (c', v)
  | (c', none) => (put c' key fv, fv)

def reset (c : T) : T := { size := c.size }

end Lru

/-! ## cache  (util/cache/cache.go)

Faithful mirror of `Cache.Get`: ring of `cacheSize` slots scanned from the current position,
on a miss the *next* slot is overwritten. `get` takes the value the getter returns for the
key (`fv`, used only on a miss) and also reports whether the getter was called.
`ConcCache` is the same under one mutex (not modelled separately).
-/
namespace Cache8

structure T where
  slots : List (Option (Nat × Nat)) := List.replicate cacheSize none
  i : Nat := 0

/-- the `for` loop: at most `cacheSize` slots starting at `c.i` -/
def scan (slots : List (Option (Nat × Nat))) (key : Nat) : Nat → Nat → Option (Nat × Nat)
  | 0, _ => none
  | n + 1, j =>
    match slots[j]? with
    | some (some (k, v)) => if k == key then some (j, v) else scan slots key n ((j + 1) % cacheSize)
    | _ => scan slots key n ((j + 1) % cacheSize)

def get (c : T) (key fv : Nat) : T × Nat × Bool :=
  match scan c.slots key cacheSize c.i with
  | some (j, v) => ({ c with i := j }, v, false)
  | none =>
    let j := (c.i + 1) % cacheSize
    ({ slots := c.slots.set j (some (key, fv)), i := j }, fv, true)

/-- `Get(key)` whose getter panics (the caller recovers): on a hit nothing but the cursor moves and the
value is returned; on a miss the cursor has been advanced to the slot that would have been reused,
no slot is written -/
def getFail (c : T) (key : Nat) : T × Option Nat :=
  match scan c.slots key cacheSize c.i with
  | some (j, v) => ({ c with i := j }, some v)
  | none => ({ c with i := (c.i + 1) % cacheSize }, none)

/-- `Get(key)` whose getter re-enters the cache with `Get(k2)` (inner getter result `fv2`) and then
returns `fv`. The outer call stores key and value together into the slot the cursor designates
*after* the getter has returned. Result: value, getter called, and the inner (value, called). -/
def getNest (c : T) (key k2 fv2 fv : Nat) : T × Nat × Bool × Option (Nat × Bool) :=
  match scan c.slots key cacheSize c.i with
  | some (j, v) => ({ c with i := j }, v, false, none)
  | none =>
    let c1 : T := { c with i := (c.i + 1) % cacheSize }
    let r := get c1 k2 fv2
    ({ slots := r.1.slots.set r.1.i (some (key, fv)), i := r.1.i }, fv, true, some (r.2.1, r.2.2))

end Cache8

/-! ## roaring  (util/roaring/roaring.go)

Mirror of `Add`/`Has` at the level the code works: containers keyed by `x>>16`, kept ordered
by base; an array container (sorted values) converts to a bitmap container when a new value
arrives while it holds `roaringArrayMax` values. The binary searches (`contPos`,
`slices.BinarySearch`) are modelled by what they compute on ordered data (lower bound by
linear scan / membership); a bitmap block (`[]uint16` of 4096 words) is flattened to one Nat.
-/
namespace Roaring

structure Cont where
  base : Nat
  bitmap : Bool := false
  arr : List Nat := []
  bits : Nat := 0

def insertSorted (v : Nat) : List Nat → List Nat
  | [] => [v]
  | a :: l => if v ≤ a then v :: a :: l else a :: insertSorted v l

def addBit (bits v : Nat) : Nat := bits ||| (1 <<< v)

def Cont.toBitmap (c : Cont) (v : Nat) : Cont :=
  { c with bitmap := true, arr := [], bits := addBit (c.arr.foldl addBit 0) v }

def Cont.add (c : Cont) (v : Nat) : Cont :=
  if c.bitmap then { c with bits := addBit c.bits v }
  else if v > c.arr.getLastD 0 then
    if c.arr.length < roaringArrayMax then { c with arr := c.arr ++ [v] } else c.toBitmap v
  else if c.arr.contains v then c
  else if c.arr.length < roaringArrayMax then { c with arr := insertSorted v c.arr } else c.toBitmap v

def Cont.has (c : Cont) (v : Nat) : Bool :=
  if c.bitmap then c.bits.testBit v else c.arr.contains v

abbrev T := List Cont

def addC : T → Nat → Nat → T
  | [], b, v => [{ base := b, arr := [v] }]
  | c :: cs, b, v =>
    if c.base < b then c :: addC cs b v
    else if c.base == b then c.add v :: cs
    else { base := b, arr := [v] } :: c :: cs

def hasC : T → Nat → Nat → Bool
  | [], _, _ => false
  | c :: cs, b, v =>
    if c.base < b then hasC cs b v
    else if c.base == b then c.has v
    else false

def add (t : T) (x : Nat) : T := addC t (x >>> roaringShift) (x &&& roaringLowMask)
def has (t : T) (x : Nat) : Bool := hasC t (x >>> roaringShift) (x &&& roaringLowMask)

end Roaring

end Gsu.Containers
