/-
M-NUM (C27): executable mirror of `util/dnum/div128.go` — the 64×54 → 128 bit product
`dividend · 10^16` on 32 bit halves and `divide128`, the two-digit base-2^32 long division
(Knuth D with a two digit divisor: quotient digit estimate from the high half of the divisor,
correction loop, multiply-subtract). uint64 / uint32 arithmetic is mirrored with explicit
`% 2^64` / `% 2^32` wherever the Go code could wrap. Core Lean only.

`Gsu.Dnum.div128` (Model/Dnum.lean) is the SPECIFICATION `a·10^16 / b`; `div128m` here is the
algorithm; `Gsu.Dnum.divide128_spec` (Proofs/Div128.lean) proves them equal on coefficients.
-/
import Gsu.Model.Dnum
namespace Gsu.Dnum

def two32 : Nat := 4294967296
/-- `e16 >> 32` -/
def e16Hi : Nat := 2328306
/-- `e16 & longMask` -/
def e16Lo : Nat := 1874919424

/-- `make64(hi, lo uint32) = uint64(hi)<<32 | uint64(lo)` (arguments truncated to uint32) -/
def make64 (hi lo : Nat) : Nat := (hi % two32) * two32 + lo % two32

/-- the first half of `div128`: `(dividendHi, dividendLo)` of `dividend * e16` -/
def mul128 (dividend : Nat) : Nat × Nat :=
  let d1Hi := dividend / two32
  let d1Lo := dividend % two32
  let product := (e16Lo * d1Lo) % two64
  let d0 := product % two32
  let d1 := product / two32
  let product := (e16Hi * d1Lo + d1) % two64
  let d1 := product % two32
  let d2 := product / two32
  let product := (e16Lo * d1Hi + d1) % two64
  let d1 := product % two32
  let d2 := (d2 + product / two32) % two64
  let d3 := d2 / two32
  let d2 := d2 % two32
  let product := (e16Hi * d1Hi + d2) % two64
  let d2 := product % two32
  let d3 := ((product / two32 + d3) % two64) % two32
  (make64 d3 d2, make64 d1 d0)

/-- `bits.LeadingZeros64` -/
def leadingZeros64 (x : Nat) : Nat := if x = 0 then 64 else 63 - Nat.log2 x

/-- `for q*v0 > make64(uint32(r), u) { q--; r += v1; if r >= divNumBase { break } }`
(an unbounded loop in Go; here recursion on `q`, which the loop decrements). Returns `(q, r)`. -/
def corrLoop (v1 v0 u : Nat) (q r : Nat) : Nat × Nat :=
  if h : (q * v0) % two64 > make64 r u then
    let r' := (r + v1) % two64
    if r' ≥ two32 then (q - 1, r') else corrLoop v1 v0 u (q - 1) r'
  else (q, r)
termination_by q
decreasing_by
  have : q ≠ 0 := by
    intro h0; subst h0; simp at h
  omega

/-- `mulsub(u1, u0, v1, v0 uint32, q0 uint64) = u1,u0 - v1,v0 * q0` (mod 2^64) -/
def mulsub (u1 u0 v1 v0 q0 : Nat) : Nat :=
  let tmp := (u0 + two64 - (q0 * v0) % two64) % two64
  make64 ((u1 + (tmp / two32) % two32 + two32 - (q0 * v1) % two32) % two32) (tmp % two32)

/-- `divide128(dividendHi, dividendLo, divisor)` -/
def divide128 (dividendHi dividendLo divisor : Nat) : Nat :=
  let shift := leadingZeros64 divisor
  let divisor := (divisor * 2 ^ shift) % two64
  let v1 := divisor / two32
  let v0 := divisor % two32
  let dls := (dividendLo * 2 ^ shift) % two64
  let u1 := dls / two32
  let u0 := dls % two32
  let tmp1 := ((dividendHi * 2 ^ shift) % two64) ||| (dividendLo >>> (64 - shift))
  let (q1, rtmp1) := if v1 = 1 then (tmp1, 0) else (tmp1 / v1, tmp1 % v1)
  let (q1, _) := corrLoop v1 v0 u1 q1 rtmp1
  let u2 := tmp1 % two32
  let tmp2 := mulsub u2 u1 v1 v0 q1
  let (q0, rtmp2) := if v1 = 1 then (tmp2, 0) else (tmp2 / v1, tmp2 % v1)
  let (q0, _) := corrLoop v1 v0 u0 q0 rtmp2
  make64 q1 q0

/-- `div128(dividend, divisor)` as implemented -/
def div128m (dividend divisor : Nat) : Nat :=
  let (hi, lo) := mul128 dividend
  divide128 hi lo divisor

/-- `Div` with the implemented `div128` (what the driver executes) -/
def divM (x y : Dnum) : Dnum :=
  let sign := x.sign * y.sign
  if x.sign = signZero then x
  else if y.sign = signZero then inf x.sign
  else if isInf x then
    (if isInf y then (if sign < 0 then negOne else one) else inf sign)
  else if isInf y then zero
  else new sign (div128m x.coef y.coef) (x.exp - y.exp)

end Gsu.Dnum
