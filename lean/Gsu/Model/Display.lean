/-
Mirror of the string side of Display: /repo/core/sustr.go (escape, bestQuote, escapeStr) and
of compile/lexer/isident.go + core/suobject.go Unquoted (member names written without quotes).

`isIdentifier` / `unquoted` mirror the REPAIRED code (DESIGN §6 finding 22,
fixes/22-isidentifier.patch): a `?` / `!` suffix needs at least one character before it, and
`_` (which the lexer turns into the identifier `unused`) is quoted like `true` / `false`.
`isIdentifierOld` is the function as it is today.
Core-only: linked into the driver drv_c31.
-/
import Gsu.Model.Lexer
namespace Gsu.Display
open Gsu.Proto Gsu.Ascii

/-- lower case hex digit (strconv.AppendInt base 16) -/
def hexd (n : Nat) : UInt8 := if n < 10 then UInt8.ofNat (48 + n) else UInt8.ofNat (87 + n)

/-- `if c < 16 {'0'}; strconv.AppendInt(buf, int64(c), 16)` -/
def hex2 (c : UInt8) : Bytes :=
  (if c < 16 then [48] else []) ++
  (if c.toNat < 16 then [hexd c.toNat] else [hexd (c.toNat / 16), hexd (c.toNat % 16)])

/-- one byte of the second loop of sustr.escape -/
def escByte (q c : UInt8) : Bytes :=
  if c = q then [92, q]
  else if c = 9 then [92, 116]
  else if c = 13 then [92, 114]
  else if c = 10 then [92, 110]
  else if c = 92 then [92, 92]
  else if c < 32 ∨ 126 < c then [92, 120] ++ hex2 c
  else [c]

/-- the first loop of sustr.escape copies bytes until one needs escaping -/
def escBody (q : UInt8) : Bytes → Bytes
  | [] => []
  | c :: r =>
    if c = q ∨ c = 92 ∨ c < 32 ∨ 126 < c then (c :: r).flatMap (escByte q)
    else c :: escBody q r

/-- sustr.escape -/
def escape (s : Bytes) (q : UInt8) : Bytes := q :: (escBody q s ++ [q])

structure Counts where
  badSingle : Nat := 0
  badDouble : Nat := 0
  canBack : Bool := true

/-- the counting loop of sustr.bestQuote -/
def countQuotes : Bytes → Counts → Counts
  | [], k => k
  | c :: r, k =>
    countQuotes r
      (if c = 39 then { k with badSingle := k.badSingle + 1 }
       else if c = 34 then { k with badDouble := k.badDouble + 1 }
       else if c = 92 then { k with badSingle := k.badSingle + 1, badDouble := k.badDouble + 1 }
       else
         let k := if c = 96 then { k with canBack := false } else k
         if c < 32 ∨ 126 < c then
           { badSingle := k.badSingle + 1, badDouble := k.badDouble + 1, canBack := false }
         else k)

/-- sustr.bestQuote -/
def bestQuote (s : Bytes) : UInt8 :=
  let k := countQuotes s {}
  if s.length = 1 ∧ (k.badSingle = 0 ∨ (!k.canBack ∧ k.badSingle ≤ k.badDouble)) then 39
  else if k.badDouble = 0 then 34
  else if k.badSingle = 0 then 39
  else if k.canBack then 96
  else if k.badSingle < k.badDouble then 39
  else 34

/-- sustr.escapeStr: which = 0 (best; `dsq` = DefaultSingleQuotes), 1 (single), 2 (double) -/
def escapeStr (s : Bytes) (which : Nat) (dsq : Bool) : Bytes :=
  let q := if which = 0 then (if dsq then 39 else bestQuote s) else if which = 1 then 39 else 34
  if q = 96 then 96 :: (s ++ [96]) else escape s q

/-- lexer.IsIdentifier, REPAIRED: `?` / `!` only after at least one character -/
def isIdentLoop (last : Nat) : Nat → Bytes → Bool
  | _, [] => true
  | i, c :: r =>
    if !(c == 95 || isLetter c || (decide (i > 0) && isDigit c) ||
        (decide (i > 0) && decide (i = last) && (c == 63 || c == 33))) then false
    else isIdentLoop last (i + 1) r

def isIdentifier (s : Bytes) : Bool :=
  if s.isEmpty then false
  else if !isIdentLoop (s.length - 1) 0 s then false
  else if s.length ≥ 2 && s.getD 0 0 == 95 && !isLetter (s.getD 1 0) then false
  else true

/-- lexer.IsIdentifier as it is today (accepts "?" and "!") -/
def isIdentLoopOld (last : Nat) : Nat → Bytes → Bool
  | _, [] => true
  | i, c :: r =>
    if !(c == 95 || isLetter c || (decide (i > 0) && isDigit c) ||
        (decide (i = last) && (c == 63 || c == 33))) then false
    else isIdentLoopOld last (i + 1) r

def isIdentifierOld (s : Bytes) : Bool :=
  if s.isEmpty then false
  else if !isIdentLoopOld (s.length - 1) 0 s then false
  else if s.length ≥ 2 && s.getD 0 0 == 95 && !isLetter (s.getD 1 0) then false
  else true

/-- core.Unquoted, REPAIRED: the member name is written bare iff it is an identifier other than
true / false / `_` -/
def unquoted (s : Bytes) : Bool :=
  s != Gsu.Lexer.kwTrue && s != Gsu.Lexer.kwFalse && s != [95] && isIdentifier s

/-- entstr's key: bare name or displayed string -/
def memberKey (s : Bytes) (dsq : Bool) : Bytes :=
  if unquoted s then s else escapeStr s 0 dsq

end Gsu.Display
