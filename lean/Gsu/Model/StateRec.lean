/-
Mirror of the database state record (db19/state.go writeState / readState), C04.
  magic1 (8) ++ time (8, big endian) ++ offSchema (5, little endian small offset)
  ++ offInfo (5) ++ checksum (cksum.Len bytes over everything before it) ++ magic2 (8)
The checksum function (low 16 bits of crc32-Castagnoli in the code) is a parameter.
Core only.
-/
namespace Gsu.StateRec

abbrev Bytes := List UInt8

def magic1 : Bytes := [1, 35, 69, 103, 137, 171, 205, 239]
def magic2 : Bytes := [254, 220, 186, 152, 118, 84, 50, 16]

/-- `n` bytes, least significant first (stor.WriteSmallOffset) -/
def putLE : Nat → Nat → Bytes
  | 0, _ => []
  | n+1, v => UInt8.ofNat (v % 256) :: putLE n (v / 256)

def getLE : Bytes → Nat
  | [] => 0
  | b :: r => b.toNat + 256 * getLE r

/-- binary.BigEndian.PutUint64 -/
def putBE (n v : Nat) : Bytes := (putLE n v).reverse
def getBE (bs : Bytes) : Nat := getLE bs.reverse

def encode (ck : Bytes → Bytes) (t offS offI : Nat) : Bytes :=
  magic1 ++ (putBE 8 t ++ (putLE 5 offS ++ (putLE 5 offI ++
    (ck (magic1 ++ putBE 8 t ++ putLE 5 offS ++ putLE 5 offI) ++ magic2))))

/-- `readState` at offset `off`: `none` = not a valid state (bad magic, checksum, or an offset
that does not precede the record) -/
def decode (ck : Bytes → Bytes) (off : Nat) (buf : Bytes) : Option (Nat × Nat × Nat) :=
  let m1 := buf.take 8
  let r1 := buf.drop 8
  let tb := r1.take 8
  let r2 := r1.drop 8
  let sb := r2.take 5
  let r3 := r2.drop 5
  let ib := r3.take 5
  let r4 := r3.drop 5
  let cb := r4.take 2
  let m2 := (r4.drop 2).take 8
  if m1 != magic1 then none
  else if cb != ck (m1 ++ tb ++ sb ++ ib) then none
  else if m2 != magic2 then none
  else
    let s := getLE sb
    let i := getLE ib
    if s ≥ off || i ≥ off then none else some (s, i, getBE tb)

/-! ## the checksum the code uses (util/cksum): low 16 bits of crc32-Castagnoli, little endian -/

/-- reversed Castagnoli polynomial (Go `crc32.Castagnoli`) -/
def crcPoly : UInt32 := 0x82F63B78

def crcBit (c : UInt32) : UInt32 :=
  if c &&& 1 == 1 then (c >>> 1) ^^^ crcPoly else c >>> 1

/-- one byte of the bitwise (table-free) crc: `crc32.simpleUpdate` with the table entry unfolded -/
def crcByte (c : UInt32) (b : UInt8) : UInt32 :=
  crcBit (crcBit (crcBit (crcBit (crcBit (crcBit (crcBit (crcBit (c ^^^ b.toUInt32))))))))

/-- `crc32.Checksum(data, crc32.MakeTable(crc32.Castagnoli))` -/
def crc32c (bs : Bytes) : UInt32 := (bs.foldl crcByte 0xFFFFFFFF) ^^^ 0xFFFFFFFF

/-- the two bytes `cksum.Update` stores: `byte(cs), byte(cs >> 8)` -/
def cksum (bs : Bytes) : Bytes :=
  let c := crc32c bs
  [c.toUInt8, (c >>> 8).toUInt8]

/-- `writeState` with the real checksum -/
def encodeReal (t offS offI : Nat) : Bytes := encode cksum t offS offI

/-- `readState` with the real checksum -/
def decodeReal (off : Nat) (buf : Bytes) : Option (Nat × Nat × Nat) := decode cksum off buf

/-- the position of every field in the 36 byte record, as the code computes them
(`i := len(magic1)`, `i += dateSize`, …, `magic2at`) -/
def fieldOffsets : List Nat := [0, 8, 16, 21, 26, 28, 36]

end Gsu.StateRec
