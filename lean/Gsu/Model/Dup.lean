/-
Duplicate-key checks of `UpdateTran.Output` / `UpdateTran.update` (db19/tran.go): which point
reads are registered with the conflict checker and when "duplicate key" is raised.
Mirror of the loop over `ts.Indexes` with `dupOutputBlock`, the generated `needsDupCheck` and the
`key()` branch, in the REPAIRED order of fixes/18-dup-read.patch (read registered before the
lookup / `Nrows` test).  Core-only.
-/
import Gsu.Model.Ck
import Gsu.Gen.Check
namespace Gsu.Dup
open Gsu.Ck

/-- per index: schema flags, facts about the record, and what the snapshot lookup finds -/
structure IxIn where
  emptyKey : Bool      -- ix.Mode == 'k' && len(ix.Columns) == 0
  primary : Bool
  modeU : Bool
  containsKey : Bool
  fieldsEmpty : List Bool -- per field of ix.Ixspec.Fields: rec.GetRaw(f) == ""
  changed : Bool       -- update: oldkeys[i] != newkeys[i] (Output: true)
  present : Bool       -- ov.Lookup(key) != 0, resp. ti.Nrows > 0 for key()
  key : Key
deriving Repr

/-- is the index duplicate-checked for this record.  `upd` = the call comes from `update`,
which has no `key()` branch (the empty key never changes). -/
def checked (upd : Bool) (x : IxIn) : Bool :=
  if upd then x.changed && Gsu.Gen.Check.needsDupCheck x.primary x.modeU x.containsKey (Gsu.Gen.Check.uniqueIndexEmpty x.fieldsEmpty)
  else if x.emptyKey then true
  else Gsu.Gen.Check.needsDupCheck x.primary x.modeU x.containsKey (Gsu.Gen.Check.uniqueIndexEmpty x.fieldsEmpty)

def readKey (upd : Bool) (x : IxIn) : Key := if !upd && x.emptyKey then [] else x.key

/-- the checks in index order: reads registered `(index, from, to)` and `true` iff no
"duplicate key" was raised (the loop stops at the first one) -/
def dupChecks (upd : Bool) : Nat → List IxIn → List (Nat × Key × Key) × Bool
  | _, [] => ([], true)
  | i, x :: r =>
    if checked upd x then
      if x.present then ([(i, readKey upd x, readKey upd x)], false)
      else ((i, readKey upd x, readKey upd x) :: (dupChecks upd (i + 1) r).1, (dupChecks upd (i + 1) r).2)
    else dupChecks upd (i + 1) r

end Gsu.Dup
