/-
Mirror of /repo/util/ascii/ascii.go (byte predicates and case conversion).
Shared by the string helpers (C38) and the lexer mirror (C31, C32).
Core-only: linked into drivers.
-/
import Gsu.Util.Proto
namespace Gsu.Ascii

/-- ascii.IsLower -/
def isLower (c : UInt8) : Bool := 97 ≤ c && c ≤ 122
/-- ascii.IsUpper -/
def isUpper (c : UInt8) : Bool := 65 ≤ c && c ≤ 90
/-- ascii.ToLower -/
def toLower (c : UInt8) : UInt8 := if 65 ≤ c ∧ c ≤ 90 then c + 32 else c
/-- ascii.ToUpper -/
def toUpper (c : UInt8) : UInt8 := if 97 ≤ c ∧ c ≤ 122 then c - 32 else c
/-- ascii.IsLetter -/
def isLetter (c : UInt8) : Bool := isLower c || isUpper c
/-- ascii.IsDigit -/
def isDigit (c : UInt8) : Bool := 48 ≤ c && c ≤ 57
/-- ascii.IsSpace: ' ', '\t', '\r', '\n', '\v' -/
def isSpace (c : UInt8) : Bool := c == 32 || c == 9 || c == 13 || c == 10 || c == 11
/-- ascii.IsHexDigit -/
def isHexDigit (c : UInt8) : Bool :=
  isDigit c || (97 ≤ c && c ≤ 102) || (65 ≤ c && c ≤ 70)

/-- ascii.Digit (and the identical lexer.digit): value of a digit in `radix`, else -1 -/
def digit (c : UInt8) (radix : Int) : Int :=
  let n : Int :=
    if isDigit c then (c - 48).toNat
    else if isHexDigit c then ((10 : UInt8) + toLower c - 97).toNat
    else 99
  if n < radix then n else -1

end Gsu.Ascii
