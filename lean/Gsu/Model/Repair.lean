/-
C05 / repair: executable mirror (core-only) of
  * `db19/repair.go: repair.search` — backward search for the newest good state: probe indexes
    0, 1, 3, 7, … (`skip` doubling) of the newest-first list of state offsets until a good one is
    found, then bisect between the last bad probe and the good one;
  * the tail marker logic of `db19/database.go: OpenDbStor/readTail`, the trailing-zero strip of
    `stor/mmapstor.go: MmapStor` and `repair.fix` (truncate after the good state, append the
    shutdown marker);
  * the crash model of the property: a file cut at a byte offset (tail absent / zeros / garbage).

`search` is modelled over an arbitrary predicate `good : Nat → Bool` (= `repair.check(i, offsets[i])`
is non-nil) and `n = len(offsets)` (the scanner's complete list; `getUpTo(i)` reports `done`
exactly when `n ≤ i`). `guarded = true` is the code as REPAIRED by fixes/04-repair-empty.patch
(DESIGN §6 finding 4); `guarded = false` is the unrepaired loop, whose `offsets[len(offsets)-1]`
with no offsets is the out-of-range access `oob`.
-/
import Gsu.Util.Proto
namespace Gsu.Repair
open Gsu.Proto

/-- result of `search`: no valid state (`return 0, 0, nil`), the index found, or an index
outside `offsets` (a Go panic) -/
inductive SRes where
  | none
  | found (i : Nat)
  | oob
deriving Repr, DecidableEq

/-- result of the first (exponential) loop -/
inductive PRes where
  | none
  | good (prev i : Nat)   -- `good = i` found, `prev` = index of the last probe before it
  | oob
deriving Repr, DecidableEq

/-- first loop: `for skip := 1; ; skip *= 2 { … }` with `i`, `prev` as in the code -/
def probe (guarded : Bool) (good : Nat → Bool) (n : Nat) : Nat → Nat → Nat → Nat → PRes
  | 0, _, _, _ => .none
  | fuel + 1, i, prev, skip =>
    if n ≤ i then                                   -- `offsets, done = scnr.getUpTo(i); if done`
      if n = 0 then (if guarded then .none else .oob) -- guard / `offsets[-1]`
      else
        let i' := n - 1                             -- `i = len(offsets) - 1`
        if i' = prev then .none                     -- `if i == prev { return 0, 0, nil }`
        else if good i' then .good prev i'          -- `last = true`; check; good → break
        else .none                                  -- `if last { return 0, 0, nil }`
    else if good i then .good prev i
    else probe guarded good n fuel (i + skip) i (skip * 2)   -- `prev = i; i += skip`

/-- second loop: `for lo < hi-1 { mid := lo + (hi-lo)/2; … }` -/
def bisect (good : Nat → Bool) : Nat → Nat → Nat → Nat
  | 0, _, hi => hi
  | fuel + 1, lo, hi =>
    if lo + 1 < hi then
      let mid := lo + (hi - lo) / 2
      if good mid then bisect good fuel lo mid else bisect good fuel mid hi
    else hi

def searchG (guarded : Bool) (good : Nat → Bool) (n : Nat) : SRes :=
  match probe guarded good n (n + 1) 0 0 1 with
  | .none => .none
  | .oob => .oob
  | .good prev i => .found (bisect good (i - prev) prev i)

/-- `repair.search` (repaired): index into the newest-first offsets -/
def search (good : Nat → Bool) (n : Nat) : SRes := searchG true good n

/-! ### state record layout and tail markers (regenerated constants are compared in Props/C05) -/

def magic1 : Bytes := [0x01, 0x23, 0x45, 0x67, 0x89, 0xab, 0xcd, 0xef]
def magic2 : Bytes := [0xfe, 0xdc, 0xba, 0x98, 0x76, 0x54, 0x32, 0x10]
def dateSize : Nat := 8
def smallOffsetLen : Nat := 5
def cksumLen : Nat := 2
def stateLen : Nat := magic1.length + dateSize + 2 * smallOffsetLen + magic2.length + cksumLen
def magic2at : Nat := stateLen - magic2.length
def tailSize : Nat := 8
def shutdown : Bytes := [0x2b, 0xc1, 0x85, 0x63, 0x8d, 0x71, 0x65, 0x6d]
def corrupt : Bytes := [0xff, 0xff, 0xff, 0xff, 0xff, 0xff, 0xff, 0xff]

/-- `MmapStor`: "ignore trailing zero bytes" -/
def stripZeros (f : Bytes) : Bytes := (f.reverse.dropWhile (· == 0)).reverse

/-- `readTail`: the last `tailSize` bytes below `store.Size()` -/
def tailOf (f : Bytes) : Bytes := f.drop (f.length - tailSize)

inductive OpenRes where
  | state (off : Nat)     -- tail is the shutdown marker: `ReadState(size - tailSize - stateLen)`
  | corruptMarker         -- "corruption previously detected"
  | notShutdown           -- "not shut down properly?"
deriving Repr, DecidableEq

/-- the decision `OpenDbStor` takes from the tail of the file -/
def openTail (file : Bytes) : OpenRes :=
  let f := stripZeros file
  let t := tailOf f
  if t = shutdown then .state (f.length - tailSize - stateLen)
  else if t = corrupt then .corruptMarker
  else .notShutdown

/-- `repair.fix(off)`: keep the file up to the end of the good state, add the shutdown marker -/
def fix (file : Bytes) (off : Nat) : Bytes := file.take (off + stateLen) ++ shutdown

/-! ### crash model -/

/-- `ends` = end offsets (`off + stateLen`) of the persisted states, oldest first. In a file cut at
`cut`, state number `i` counted from the NEWEST (the indexing of `search`) is intact iff it ends
at or below the cut. -/
def goodCut (ends : List Nat) (cut : Nat) (i : Nat) : Bool :=
  match ends.reverse[i]? with
  | some e => decide (e ≤ cut)
  | none => false

/-- the state (numbered from the oldest, 0-based) repair restores for a cut file, `none` if no
state is intact: `search` over all states with `goodCut` -/
def recovered (ends : List Nat) (cut : Nat) : Option Nat :=
  match search (goodCut ends cut) ends.length with
  | .found i => some (ends.length - 1 - i)
  | _ => none

end Gsu.Repair
