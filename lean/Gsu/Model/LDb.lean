/-
M-DB, logical layer: executable mirror of the row-change paths of `db19/tran.go`
(`UpdateTran.Output/Delete/update`, `fkeyOutputBlock`, `fkeyDeleteBlock`, `fkeyDeleteCascade`,
`fkeyUpdateCascade`) and of `db19/triggers.go` (core-only). Shared by C08 and C44.

Tables hold rows (lists of raw field values, exactly `ncols` long); an index is a list of
column numbers with a mode (key / index / unique) and an optional foreign key to a key of an
earlier (or the same) table. `FkToHere` is derived from the `Fk`s (the stored links are C21's
subject). Keys are compared as field tuples — that the encoded index keys compare like the
tuples is C12.

The recursion of the Go code (`Delete` → `fkeyDeleteCascade` → `Delete` …, `update` →
`fkeyUpdateCascade` → `update` …) is mirrored by two small stack machines (`runDel`, `runUpd`):
a pending `fin` task is a row change whose cascades are still running (Go: the frames that
have not yet reached their index update).

Repaired behaviour is modelled for DESIGN §6 findings 3 (`deleteBlocks`), 19 (empty-key guard in
the update cascade) and 24 (a trigger exception aborts the transaction).
-/
import Gsu.Util.Proto
namespace Gsu.LDb
open Gsu.Proto

abbrev Row := List Bytes
abbrev Key := List Bytes

/-- `schema.Fkey` mode bits -/
def mBlock : Nat := 0
def mCascadeUpdates : Nat := 1
def mCascadeDeletes : Nat := 2

structure Fk where
  table : Nat
  index : Nat
  mode : Nat
deriving DecidableEq

structure Index where
  /-- 0 = key, 1 = index, 2 = unique index -/
  mode : Nat
  cols : List Nat
  fk : Option Fk

structure Table where
  ncols : Nat
  idxs : List Index

abbrev Schema := List Table
abbrev Db := Nat → List Row

/-- an `FkToHere` entry: source table, source index, mode -/
structure FkTo where
  table : Nat
  index : Nat
  mode : Nat
deriving DecidableEq

def idxsOf (sch : Schema) (t : Nat) : List Index :=
  match sch[t]? with
  | some tb => tb.idxs
  | none => []

def colsOf (sch : Schema) (t i : Nat) : List Nat :=
  match (idxsOf sch t)[i]? with
  | some ix => ix.cols
  | none => []

def fkOf (sch : Schema) (t i : Nat) : Option Fk :=
  match (idxsOf sch t)[i]? with
  | some ix => ix.fk
  | none => none

/-- the links `meta.createFkeys` stores in the target index, in creation order -/
def fkToHere (sch : Schema) (t i : Nat) : List FkTo :=
  (List.range sch.length).flatMap fun s =>
    (List.range (idxsOf sch s).length).filterMap fun j =>
      match fkOf sch s j with
      | some fk => if fk.table = t ∧ fk.index = i then some ⟨s, j, fk.mode⟩ else none
      | none => none

def proj (cols : List Nat) (r : Row) : Key := cols.map fun c => r.getD c []

/-- `key == ""`: every field empty -/
def emptyKey (k : Key) : Bool := k.all fun f => f == []

/-- some row of `rows` has key `key` on `cols` -/
def hasKey (rows : List Row) (cols : List Nat) (key : Key) : Bool :=
  rows.any fun r => proj cols r == key

/-- source rows referencing `key` through `f` (the range `[key, rangeEnd key]` of the source index) -/
def refs (sch : Schema) (db : Db) (f : FkTo) (key : Key) : Bool :=
  hasKey (db f.table) (colsOf sch f.table f.index) key

/-- `fkeyDeleteBlock` on the delete path (finding 3 repaired: blocks unless the key cascades deletes) -/
def deleteBlocks (mode : Nat) : Bool := mode &&& mCascadeDeletes == 0
/-- `fkeyDeleteBlock` on the update path -/
def updateBlocks (mode : Nat) : Bool := mode &&& mCascadeUpdates == 0
def cascadesDeletes (mode : Nat) : Bool := mode &&& mCascadeDeletes != 0
def cascadesUpdates (mode : Nat) : Bool := mode &&& mCascadeUpdates != 0

/-- `fkeyDeleteBlock`: true = blocked -/
def blocked (sch : Schema) (db : Db) (t i : Nat) (key : Key) (blocks : Nat → Bool) : Bool :=
  !emptyKey key && (fkToHere sch t i).any fun f => blocks f.mode && refs sch db f key

/-- `fkeyOutputBlock`: true = blocked -/
def outBlocked (sch : Schema) (db : Db) (ix : Index) (row : Row) : Bool :=
  match ix.fk with
  | none => false
  | some fk =>
    let key := proj ix.cols row
    !emptyKey key && !hasKey (db fk.table) (colsOf sch fk.table fk.index) key

def keyCols (sch : Schema) (t : Nat) : List Nat := colsOf sch t 0

/-- `needsDupCheck` (one key per table, so the key is primary) -/
def needsDup (sch : Schema) (t : Nat) (ix : Index) (row : Row) : Bool :=
  ix.mode == 0 ||
    (ix.mode == 2 && !(keyCols sch t).all (fun c => ix.cols.contains c) && !emptyKey (proj ix.cols row))

inductive Err
  | dup | fkout | fkdel | toomany | trig | norow | fuel
deriving DecidableEq

structure Entry where
  table : Nat
  old : Option Row
  new : Option Row
deriving DecidableEq

/-- per transaction: the rows as the transaction sees them + the trigger calls made so far -/
structure W where
  db : Db
  log : List Entry

structure Env where
  sch : Schema
  /-- trigger of a table: 0 none, 1 recording, 2 recording and throwing on a "bad" row -/
  trig : Nat → Nat
  /-- `triggers.disabled` -/
  dis : Nat → Nat

def marker : Bytes := [0x21]
def isBad (r : Row) : Bool := r.any fun f => f == marker

def throws (old new : Option Row) : Bool :=
  match new, old with
  | some n, _ => isBad n
  | none, some o => isBad o
  | none, none => false

def applyChange (db : Db) (t : Nat) (old new : Option Row) : Db := fun t' =>
  if t' = t then
    match old, new with
    | none, some n => db t ++ [n]
    | some o, none => (db t).erase o
    | some o, some n => (db t).replace o n
    | none, none => db t
  else db t'

def enabled (env : Env) (t : Nat) : Bool := env.dis t == 0 && env.trig t != 0

/-- the index updates of `Output/Delete/update` followed by `CallTrigger` -/
def change (env : Env) (w : W) (t : Nat) (old new : Option Row) : Except Err W :=
  let db' := applyChange w.db t old new
  if enabled env t then
    if env.trig t == 2 && throws old new then .error .trig
    else .ok ⟨db', w.log ++ [⟨t, old, new⟩]⟩
  else .ok ⟨db', w.log⟩

def enumIdxs (sch : Schema) (t : Nat) : List (Index × Nat) := (idxsOf sch t).zipIdx

/-! ### delete -/

inductive DTask
  | del (t : Nat) (row : Row)
  | casc (f : FkTo) (key : Key)
  | fin (t : Nat) (row : Row)

def pendingDel (st : List DTask) (t : Nat) (row : Row) : Bool :=
  st.any fun
    | .fin t' r' => t' == t && r' == row
    | _ => false

def delBlocked (sch : Schema) (db : Db) (t : Nat) (row : Row) : Bool :=
  (enumIdxs sch t).any fun (ix, i) => blocked sch db t i (proj ix.cols row) deleteBlocks

/-- `fkeyDeleteCascade` for every index of the row, in order -/
def cascDel (sch : Schema) (t : Nat) (row : Row) : List DTask :=
  (enumIdxs sch t).flatMap fun (ix, i) =>
    let key := proj ix.cols row
    if emptyKey key then []
    else (fkToHere sch t i).filterMap fun f =>
      if cascadesDeletes f.mode then some (.casc f key) else none

def runDel (env : Env) : Nat → W → List DTask → Except Err W
  | _, w, [] => .ok w
  | 0, _, _ :: _ => .error .fuel
  | n + 1, w, .del t row :: st =>
    -- a row whose delete is still cascading is met again: the Go code recurses until `writeMax`
    if pendingDel st t row then .error .toomany
    else if !(w.db t).contains row then .error .norow
    else if delBlocked env.sch w.db t row then .error .fkdel
    else runDel env n w (cascDel env.sch t row ++ .fin t row :: st)
  | n + 1, w, .casc f key :: st =>
    match (w.db f.table).find? fun r => proj (colsOf env.sch f.table f.index) r == key with
    | none => runDel env n w st
    | some r => runDel env n w (.del f.table r :: .casc f key :: st)
  | n + 1, w, .fin t row :: st =>
    match change env w t (some row) none with
    | .error e => .error e
    | .ok w' => runDel env n w' st

/-! ### update -/

inductive UTask
  | upd (t : Nat) (old new : Row) (block : Bool)
  | casc (f : FkTo) (oldkey : Key) (tcols : List Nat) (trow : Row)
  | fin (t : Nat) (old new : Row)

def pendingUpd (st : List UTask) (t : Nat) (row : Row) : Bool :=
  st.any fun
    | .fin t' o _ => t' == t && o == row
    | _ => false

/-- the record `fkeyUpdateCascade` builds: source row with its fk columns taken from the new target row -/
def substFk (scols tcols : List Nat) (r trow : Row) : Row :=
  (List.range r.length).map fun c =>
    match scols.findIdx? (· == c) with
    | some j => if j < tcols.length then trow.getD (tcols.getD j 0) [] else r.getD c []
    | none => r.getD c []

/-- `Ixspec.Key`: what `oldkeys[i] != newkeys[i]` compares — a non-unique index key also holds the
table key, a unique index key holds it when its own fields are all empty -/
def ixKey (sch : Schema) (t : Nat) (ix : Index) (r : Row) : Key :=
  if ix.mode == 1 || (ix.mode == 2 && emptyKey (proj ix.cols r)) then proj (ix.cols ++ keyCols sch t) r
  else proj ix.cols r

def updCheck1 (sch : Schema) (db : Db) (t : Nat) (old new : Row) (block : Bool) (i : Nat) (ix : Index) :
    Option Err :=
  let ok := proj ix.cols old
  let nk := proj ix.cols new
  if ixKey sch t ix old == ixKey sch t ix new then none
  else if needsDup sch t ix new && hasKey (db t) ix.cols nk then some .dup
  else if blocked sch db t i ok updateBlocks then some .fkdel
  else if block && outBlocked sch db ix new then some .fkout
  else none

def firstErr {α} (f : α → Option Err) : List α → Option Err
  | [] => none
  | a :: as => match f a with
    | some e => some e
    | none => firstErr f as

def updChecks (sch : Schema) (db : Db) (t : Nat) (old new : Row) (block : Bool) : Option Err :=
  firstErr (fun (p : Index × Nat) => updCheck1 sch db t old new block p.2 p.1) (enumIdxs sch t)

/-- `fkeyUpdateCascade` for every index whose key changes (finding 19 repaired: not for the empty key) -/
def cascUpd (sch : Schema) (t : Nat) (old new : Row) : List UTask :=
  (enumIdxs sch t).flatMap fun (ix, i) =>
    let ok := proj ix.cols old
    if ok == proj ix.cols new || emptyKey ok then []
    else (fkToHere sch t i).filterMap fun f =>
      if cascadesUpdates f.mode then some (.casc f ok ix.cols new) else none

def runUpd (env : Env) : Nat → W → List UTask → Except Err W
  | _, w, [] => .ok w
  | 0, _, _ :: _ => .error .fuel
  | n + 1, w, .upd t old new block :: st =>
    if new == old then runUpd env n w st
    -- the cascade reaches a row whose own update is still pending: ixbuf panics ("… on same record")
    else if pendingUpd st t old then .error .toomany
    else if !(w.db t).contains old then .error .norow
    else match updChecks env.sch w.db t old new block with
      | some e => .error e
      | none => runUpd env n w (cascUpd env.sch t old new ++ .fin t old new :: st)
  | n + 1, w, .casc f ok tcols trow :: st =>
    let scols := colsOf env.sch f.table f.index
    match (w.db f.table).find? fun r => proj scols r == ok with
    | none => runUpd env n w st
    | some r => runUpd env n w (.upd f.table r (substFk scols tcols r trow) false :: .casc f ok tcols trow :: st)
  | n + 1, w, .fin t old new :: st =>
    match change env w t (some old) (some new) with
    | .error e => .error e
    | .ok w' => runUpd env n w' st

/-! ### the three operations of an update transaction -/

def outCheck1 (sch : Schema) (db : Db) (t : Nat) (row : Row) (ix : Index) : Option Err :=
  if needsDup sch t ix row && hasKey (db t) ix.cols (proj ix.cols row) then some .dup
  else if outBlocked sch db ix row then some .fkout
  else none

def outChecks (sch : Schema) (db : Db) (t : Nat) (row : Row) : Option Err :=
  firstErr (outCheck1 sch db t row) (idxsOf sch t)

def fuel0 : Nat := 1000000

/-- result of an operation: the transaction afterwards, or an error and whether the
transaction is still usable (`alive`) -/
inductive Res
  | ok (w : W)
  | err (e : Err) (alive : Bool)

def opOutput (env : Env) (w : W) (t : Nat) (row : Row) : Res :=
  match outChecks env.sch w.db t row with
  | some e => .err e true
  | none =>
    match change env w t none (some row) with
    | .ok w' => .ok w'
    | .error e => .err e false

def opDelete (env : Env) (w : W) (t : Nat) (row : Row) : Res :=
  if !(w.db t).contains row then .err .norow true
  else if delBlocked env.sch w.db t row then .err .fkdel true
  else match runDel env fuel0 w [.del t row] with
    | .ok w' => .ok w'
    | .error e => .err e false

def opUpdate (env : Env) (w : W) (t : Nat) (old new : Row) : Res :=
  if new == old then .ok w
  else if !(w.db t).contains old then .err .norow true
  else match updChecks env.sch w.db t old new true with
    | some e => .err e true
    | none =>
      match runUpd env fuel0 w [.upd t old new true] with
      | .ok w' => .ok w'
      | .error e => .err e false

/-! ### transactions and trigger switches -/

structure St where
  env : Env
  committed : Db
  w : W
  alive : Bool

inductive Op
  | begin
  | out (t : Nat) (row : Row)
  | del (t : Nat) (row : Row)
  | upd (t : Nat) (old new : Row)
  | commit
  | abort
  | dis (t : Nat)
  | ena (t : Nat)

def setCount (f : Nat → Nat) (t v : Nat) : Nat → Nat := fun t' => if t' = t then v else f t'

def applyRes (s : St) : Res → St
  | .ok w => { s with w := w }
  | .err _ true => s
  | .err _ false => { s with alive := false }

def opRes (s : St) : Op → Option Res
  | .out t row => some (opOutput s.env s.w t row)
  | .del t row => some (opDelete s.env s.w t row)
  | .upd t old new => some (opUpdate s.env s.w t old new)
  | _ => none

/-- one step of a (sequential) history; a row operation on an ended transaction does nothing -/
def step (s : St) (op : Op) : St :=
  match op with
  | .begin => { s with w := ⟨s.committed, []⟩, alive := true }
  | .commit => if s.alive then { s with committed := s.w.db, alive := false } else s
  | .abort => { s with alive := false }
  | .dis t => { s with env := { s.env with dis := setCount s.env.dis t (s.env.dis t + 1) } }
  | .ena t => { s with env := { s.env with dis := setCount s.env.dis t (s.env.dis t - 1) } }
  | op =>
    if s.alive then
      match opRes s op with
      | some r => applyRes s r
      | none => s
    else s

def run (s : St) (ops : List Op) : St := ops.foldl step s

end Gsu.LDb
