/-
M-ENC / ixkey: executable mirror of `db19/index/ixkey/ixkey.go` (core-only).

A record is modelled as the list of its raw field values (`Record.GetRaw i` = `getRaw rec i`,
`""` when `i` is out of range — `core/record.go: GetRaw`). `_lower!` fields (negative field
numbers) are not modelled here; the correspondence generator for this model does not use them.
-/
import Gsu.Util.Proto
namespace Gsu.Ixkey
open Gsu.Proto

/-- `ixkey.encode`: every zero byte is followed by a 1 -/
def enc : Bytes → Bytes
  | [] => []
  | b :: bs => if b = 0 then 0 :: 1 :: enc bs else b :: enc bs

/-- byte-wise comparison (`strings.Compare`) -/
def cmpB : Bytes → Bytes → Ordering
  | [], [] => .eq
  | [], _ :: _ => .lt
  | _ :: _, [] => .gt
  | a :: as, b :: bs => if a < b then .lt else if b < a then .gt else cmpB as bs

def sep : Bytes := [0, 0]

/-- join encoded fields with separators (`for i, f := range fields { if i > 0 {sep}; encode }`) -/
def joinEnc : List Bytes → Bytes
  | [] => []
  | [f] => enc f
  | f :: fs => enc f ++ 0 :: 0 :: joinEnc fs

def getRaw (rec : List Bytes) (i : Nat) : Bytes := rec.getD i []

/-- drop trailing empty fields (`fields[:lastNonEmpty+1]`) -/
def trimEmpty (vs : List Bytes) : List Bytes :=
  (vs.reverse.dropWhile (· = [])).reverse

def encodes (fields fields2 : List Nat) : Bool := fields.length > 1 || fields2.length > 0

/-- `Spec.Key` -/
def key (fields fields2 : List Nat) (rec : List Bytes) : Bytes :=
  match fields with
  | [] => []
  | f0 :: _ =>
    if !encodes fields fields2 then getRaw rec f0
    else
      let vs := fields.map (getRaw rec)
      if vs.all (· = []) then
        if fields2 = [] then []
        else (fields.flatMap fun _ => sep) ++ joinEnc (fields2.map (getRaw rec))
      else joinEnc (trimEmpty vs)

/-- `Spec.Compare` (without `_lower!`) -/
def cmpFields : List Bytes → List Bytes → Ordering
  | [], _ => .eq
  | _, [] => .eq
  | a :: as, b :: bs => match cmpB a b with
    | .eq => cmpFields as bs
    | o => o

def compare (fields fields2 : List Nat) (r1 r2 : List Bytes) : Ordering :=
  let v1 := fields.map (getRaw r1)
  let v2 := fields.map (getRaw r2)
  match cmpFields v1 v2 with
  | .eq =>
    if v1.all (· = []) && v2.all (· = []) then
      cmpFields (fields2.map (getRaw r1)) (fields2.map (getRaw r2))
    else .eq
  | o => o

/-- `HasPrefix` (prefix by field) -/
def hasPrefix (s p : Bytes) : Bool :=
  p.isPrefixOf s &&
    (s.length == p.length || (s.drop p.length).take 2 == sep && s.length ≥ p.length + 2)

/-- split an encoded key at separators: `strings.Split(comp, Sep)` (leftmost, non-overlapping) -/
def splitSep : Bytes → List Bytes
  | [] => [[]]
  | 0 :: 0 :: rest => [] :: splitSep rest
  | b :: rest =>
    match splitSep rest with
    | [] => [[b]]
    | p :: ps => (b :: p) :: ps

/-- `strings.ReplaceAll(p, "\x00\x01", "\x00")` -/
def unenc : Bytes → Bytes
  | [] => []
  | 0 :: 1 :: rest => 0 :: unenc rest
  | b :: rest => b :: unenc rest

/-- `Decode` -/
def decode (comp : Bytes) : List Bytes :=
  if comp = [] then [] else (splitSep comp).map unenc

def stripSeps (k : Bytes) : Bytes :=
  let r := k.reverse
  let rec go : Bytes → Bytes
    | 0 :: 0 :: rest => go rest
    | l => l
  (go r).reverse

/-- `SplitPrefixSuffix` scan: returns (prefix-before-nth-sep, suffix) -/
def splitScan : Bytes → Nat → Bytes → Bytes × Option Bytes
  | [], _, acc => (acc.reverse, none)
  | [b], _, acc => ((b :: acc).reverse, none)
  | 0 :: 0 :: rest, n, acc =>
    if n = 1 then (acc.reverse, some rest)
    else splitScan rest (n - 1) (0 :: 0 :: acc)
  | b :: c :: rest, n, acc => splitScan (c :: rest) n (b :: acc)

def splitPS (k : Bytes) (n : Nat) : Bytes × Bytes :=
  match splitScan k n [] with
  | (p, some s) => (stripSeps p, s)
  | (p, none) => (stripSeps p, [])

/-- `strings.Count(prefix, Sep)` (non-overlapping) -/
def countSep : Bytes → Nat
  | 0 :: 0 :: rest => countSep rest + 1
  | _ :: rest => countSep rest
  | [] => 0

/-- `JoinPrefixSuffix` (requires `countSep p < n`) -/
def joinPS (p : Bytes) (n : Nat) (s : Bytes) : Bytes :=
  p ++ (List.range (n - countSep p)).flatMap (fun _ => sep) ++ s

def maxKey : Bytes := [0xff, 0xff, 0xff, 0xff, 0xff, 0xff, 0xff, 0xff]

/-- `db19.rangeEnd`: copy the first `n` fields of `key` (with their separators), pad, append Max -/
def rangeEndScan : Bytes → Nat → Bytes → Bytes × Nat
  | [], n, acc => (acc.reverse, n)
  | 0 :: 0 :: rest, n, acc =>
    if n = 1 then ((0 :: 0 :: acc).reverse, 0) else rangeEndScan rest (n - 1) (0 :: 0 :: acc)
  | b :: rest, n, acc => rangeEndScan rest n (b :: acc)

def rangeEnd (k : Bytes) (n : Nat) : Bytes :=
  let (p, m) := rangeEndScan k n []
  p ++ (List.range m).flatMap (fun _ => sep) ++ maxKey

/-- cut at the leftmost separator, byte-wise (`strings.Index(s, Sep)`): (before, after) -/
def cutSep : Bytes → Option (Bytes × Bytes)
  | [] => none
  | 0 :: 0 :: rest => some ([], rest)
  | b :: rest =>
    match cutSep rest with
    | none => none
    | some (p, s) => some (b :: p, s)

/-- skip `i` separators (`pos += sepPos + sepLen`), `none` if there are fewer -/
def skipSeps : Bytes → Nat → Option Bytes
  | s, 0 => some s
  | s, i + 1 =>
    match cutSep s with
    | none => none
    | some (_, r) => skipSeps r i

/-- `Decode1` (for `i ≥ 0`) -/
def decode1 (comp : Bytes) (i : Nat) : Bytes :=
  if comp = [] then []
  else
    match skipSeps comp i with
    | none => []
    | some r =>
      match cutSep r with
      | none => unenc r
      | some (f, _) => unenc f

/-- prefix of `s` before its `(k+1)`-th separator, `none` if there are fewer -/
def cutBefore : Bytes → Nat → Option Bytes
  | s, 0 => (cutSep s).map (·.1)
  | s, k + 1 =>
    match cutSep s with
    | none => none
    | some (p, r) => (cutBefore r k).map (fun q => p ++ 0 :: 0 :: q)

/-- `TruncFunc(spec1, spec2)`: `nf` = `len(Fields)`, `enc` = `Spec.Encodes()` -/
def truncFn (nf1 nf2 : Nat) (enc1 enc2 : Bool) (comp : Bytes) : Bytes :=
  if !enc1 && !enc2 then comp
  else if !enc2 then decode1 comp 0
  else if nf1 = nf2 then comp
  else (cutBefore comp (nf2 - 1)).getD comp

/-! ### `_lower!` index fields (negative field numbers `-(idx+2)` in `Spec.Fields`) -/

/-- one entry of `Spec.Fields`: record field `idx`, case-folded when `lower` (`_lower!`) -/
structure Fld where
  idx : Nat
  lower : Bool
  deriving DecidableEq, Repr

/-- `ascii.ToLower` -/
def toLowerB (c : UInt8) : UInt8 := if 65 ≤ c ∧ c ≤ 90 then c + 32 else c

def packString : UInt8 := 4

/-- `PackedToLower`: `str.ToLower` of the whole packed value when it is a packed string -/
def packedToLower : Bytes → Bytes
  | [] => []
  | t :: r => if t = packString then (t :: r).map toLowerB else t :: r

/-- `str.CmpLower`: compare `ascii.ToLower` of each byte, then the lengths -/
def cmpLower : Bytes → Bytes → Ordering
  | [], [] => .eq
  | [], _ :: _ => .lt
  | _ :: _, [] => .gt
  | a :: as, b :: bs =>
    if toLowerB a < toLowerB b then .lt else if toLowerB b < toLowerB a then .gt else cmpLower as bs

/-- `PackedCmpLower`: `CmpLower` when both are packed strings, else `strings.Compare` -/
def packedCmpLower (s1 s2 : Bytes) : Ordering :=
  match s1, s2 with
  | t1 :: _, t2 :: _ => if t1 = packString ∧ t2 = packString then cmpLower s1 s2 else cmpB s1 s2
  | _, _ => cmpB s1 s2

/-- `ixkey.getRaw(rec, field)` incl. the `_lower!` case -/
def getL (rec : List Bytes) (f : Fld) : Bytes :=
  if f.lower then packedToLower (getRaw rec f.idx) else getRaw rec f.idx

/-- `Spec.Key` with `_lower!` fields (`fieldLen` looks at the raw field, `getRaw` folds it) -/
def keyL (fields : List Fld) (fields2 : List Nat) (rec : List Bytes) : Bytes :=
  match fields with
  | [] => []
  | f0 :: _ =>
    if !encodes (fields.map (·.idx)) fields2 then getL rec f0
    else
      if (fields.map fun f => getRaw rec f.idx).all (· = []) then
        if fields2 = [] then []
        else (fields.flatMap fun _ => sep) ++ joinEnc (fields2.map (getRaw rec))
      else joinEnc (trimEmpty (fields.map (getL rec)))

/-- one iteration of the loop of `Spec.Compare` -/
def cmpFld (f : Fld) (r1 r2 : List Bytes) : Ordering :=
  if f.lower then packedCmpLower (getRaw r1 f.idx) (getRaw r2 f.idx)
  else cmpB (getRaw r1 f.idx) (getRaw r2 f.idx)

def cmpFlds : List Fld → List Bytes → List Bytes → Ordering
  | [], _, _ => .eq
  | f :: fs, r1, r2 => match cmpFld f r1 r2 with
    | .eq => cmpFlds fs r1 r2
    | o => o

/-- `Spec.Compare` with `_lower!` fields (Fields2 are never `_lower!`) -/
def compareL (fields : List Fld) (fields2 : List Nat) (r1 r2 : List Bytes) : Ordering :=
  match cmpFlds fields r1 r2 with
  | .eq =>
    if (fields.map fun f => getRaw r1 f.idx).all (· = []) && (fields.map fun f => getRaw r2 f.idx).all (· = []) then
      cmpFields (fields2.map (getRaw r1)) (fields2.map (getRaw r2))
    else .eq
  | o => o

end Gsu.Ixkey
