/-
Mirrors of /repo/util/tr/tr.go (Replace, New, expandRanges, xindex) and of the loops in
/repo/util/str/str.go + join.go (ToLower, ToUpper, CmpLower, EqualCI, Capitalize, UnCapitalize,
CommonPrefixLen, Subi, Subn, Split, Join, Doesc), together with the declarative reference
definitions (`trSpec`, `expandSpec`, `splitSpec` …) the C38 theorems compare them with.
Core-only: linked into the driver drv_c38.
-/
import Gsu.Model.Ascii
namespace Gsu.Str
open Gsu.Proto Gsu.Ascii

/-! ## util/tr -/

/-- strings.IndexByte: index of the first occurrence, -1 when absent -/
def indexByte : Bytes → UInt8 → Int
  | [], _ => -1
  | b :: r, c => if b = c then 0 else
      let i := indexByte r c
      if i < 0 then -1 else i + 1

/-- tr.xindex -/
def xindex (frm : Bytes) (c : UInt8) (allbut : Bool) (lastto : Int) : Int :=
  let i := indexByte frm c
  if allbut then (if i = -1 then lastto + 1 else -1) else i

/-- `to[i]` -/
def toAt (to : Bytes) (i : Int) : UInt8 := to.getD i.toNat 0

/-- tail of the scan loop body: `if i < 0 {write c} else if lastto >= 0 {write to[i]}` -/
def emit (to : Bytes) (lastto : Int) (c : UInt8) (i : Int) : Bytes :=
  if i < 0 then [c] else if lastto ≥ 0 then [toAt to i] else []

/-- the `scan:` loop of tr.Replace. The flag is "inside the inner `for` that skips a run of
collapsed characters". -/
def scan (frm to : Bytes) (allbut collapse : Bool) (lastto : Int) : Bool → Bytes → Bytes
  | _, [] => []
  | false, c :: r =>
    let i := xindex frm c allbut lastto
    if collapse = true ∧ i ≥ lastto then toAt to lastto :: scan frm to allbut collapse lastto true r
    else emit to lastto c i ++ scan frm to allbut collapse lastto false r
  | true, c :: r =>
    let i := xindex frm c allbut lastto
    if i < lastto then emit to lastto c i ++ scan frm to allbut collapse lastto false r
    else scan frm to allbut collapse lastto true r

/-- the first loop of tr.Replace: index of the first character that will change -/
def firstHit (frm : Bytes) (allbut : Bool) : Bytes → Nat
  | [] => 0
  | c :: r => if allbut = decide (indexByte frm c = -1) then 0 else 1 + firstHit frm allbut r

/-- tr.Replace -/
def replace (src frm0 to : Bytes) : Bytes :=
  if src.isEmpty || frm0.isEmpty then src else
  let allbut := frm0.head? == some 94
  let frm := if allbut then frm0.tail else frm0
  let si := firstHit frm allbut src
  if si = src.length then src else
  let collapse := decide (to.length > 0) && (allbut || decide (to.length < frm.length))
  let lastto : Int := (to.length : Int) - 1
  src.take si ++ scan frm to allbut collapse lastto false (src.drop si)

/-- the inner loop of expandRanges `for c := int(s[i]); c <= int(s[i+2]); c++` (fuel 256) -/
def rangeLoop (c hi : Nat) : Nat → Bytes
  | 0 => []
  | f + 1 => if c ≤ hi then UInt8.ofNat c :: rangeLoop (c + 1) hi f else []

def rangeBytes (a b : UInt8) : Bytes := rangeLoop a.toNat b.toNat 256

/-- the main loop of expandRanges (after the optional `^`) -/
def expandLoop : Bytes → Bytes
  | a :: 45 :: b :: rest => rangeBytes a b ++ expandLoop rest
  | a :: rest => a :: expandLoop rest
  | [] => []

/-- tr.expandRanges (total here; the Go function indexes s[0] and is only called with len ≥ 3) -/
def expandRanges (s : Bytes) : Bytes :=
  match s with
  | 94 :: r => 94 :: expandLoop r
  | _ => expandLoop s

/-- tr.New -/
def trNew (s : Bytes) : Bytes :=
  if s.length < 3 then s else
  let i := if s.head? == some 94 then 1 else 0
  let mid := (s.drop (i + 1)).take (s.length - 1 - (i + 1))
  if indexByte mid 45 = -1 then s else expandRanges s

/-! ### reference definition of Replace: classify every source byte, then squeeze -/

inductive Cls where
  | keep (c : UInt8)   -- not in the from set: copied
  | del                -- in the set, empty to set: deleted
  | map (b : UInt8)    -- in the set: translated
  | sq                 -- in the set, translated to the repeated last `to` character: squeezed
  deriving DecidableEq, Repr

def classify (frm to : Bytes) (allbut : Bool) (c : UInt8) : Cls :=
  let member := if allbut then !frm.contains c else frm.contains c
  if !member then .keep c
  else if to.isEmpty then .del
  else
    let idx := if allbut then to.length else frm.idxOf c
    if idx ≥ to.length - 1 ∧ (allbut = true ∨ to.length < frm.length) then .sq
    else .map (to.getD idx 0)

/-- a squeezed class emits the last `to` byte unless the previous source byte was squeezed too -/
def squeeze (last : UInt8) : Bool → List Cls → Bytes
  | _, [] => []
  | prev, .sq :: r => (if prev then [] else [last]) ++ squeeze last true r
  | _, .keep c :: r => c :: squeeze last false r
  | _, .map b :: r => b :: squeeze last false r
  | _, .del :: r => squeeze last false r

def trSpec (src frm0 to : Bytes) : Bytes :=
  let allbut := frm0.head? == some 94
  let frm := if allbut then frm0.tail else frm0
  squeeze (to.getLastD 0) false (src.map (classify frm to allbut))

/-! ### reference definition of expandRanges: parse into items, denote each item -/

inductive Item where
  | single (c : UInt8)
  | range (a b : UInt8)

def parseItems : Bytes → List Item
  | a :: 45 :: b :: rest => .range a b :: parseItems rest
  | a :: rest => .single a :: parseItems rest
  | [] => []

def Item.denote : Item → Bytes
  | .single c => [c]
  | .range a b => (List.range' a.toNat (b.toNat + 1 - a.toNat)).map UInt8.ofNat

/-! ## util/str -/

/-- str.ToLower (loop: find the first upper case byte, then convert the rest) -/
def toLowerStr : Bytes → Bytes
  | [] => []
  | c :: r =>
    if 65 ≤ c ∧ c ≤ 90 then (c + 32) :: r.map (fun c => if 65 ≤ c ∧ c ≤ 90 then c + 32 else c)
    else c :: toLowerStr r

/-- str.ToUpper -/
def toUpperStr : Bytes → Bytes
  | [] => []
  | c :: r =>
    if 97 ≤ c ∧ c ≤ 122 then (c - 32) :: r.map (fun c => if 97 ≤ c ∧ c ≤ 122 then c - 32 else c)
    else c :: toUpperStr r

/-- cmp.Compare on lengths -/
def cmpNat (a b : Nat) : Int := if a < b then -1 else if a > b then 1 else 0

/-- str.CmpLower -/
def cmpLower : Bytes → Bytes → Int
  | a :: s, b :: t =>
    if toLower a < toLower b then -1
    else if toLower a > toLower b then 1
    else cmpLower s t
  | s, t => cmpNat s.length t.length

/-- reference: lexicographic byte comparison (strings.Compare) -/
def cmpBytes : Bytes → Bytes → Int
  | [], [] => 0
  | [], _ :: _ => -1
  | _ :: _, [] => 1
  | a :: s, b :: t => if a < b then -1 else if a > b then 1 else cmpBytes s t

/-- str.EqualCI -/
def equalCILoop : Bytes → Bytes → Bool
  | a :: s, b :: t => if toLower a != toLower b then false else equalCILoop s t
  | _, _ => true

def equalCI (x y : Bytes) : Bool := if x.length ≠ y.length then false else equalCILoop x y

/-- str.Capitalize -/
def capitalize : Bytes → Bytes
  | c :: r => if isLower c then toUpper c :: r else c :: r
  | [] => []

/-- str.UnCapitalize -/
def unCapitalize : Bytes → Bytes
  | c :: r => if isUpper c then toLower c :: r else c :: r
  | [] => []

/-- str.CommonPrefixLen -/
def commonPrefixLen : Bytes → Bytes → Nat
  | a :: s, b :: t => if a ≠ b then 0 else 1 + commonPrefixLen s t
  | _, _ => 0

/-- str.Subi for non-negative i ≤ j -/
def subi (s : Bytes) (i j : Nat) : Bytes :=
  if i ≥ s.length then [] else if j ≥ s.length then s.drop i else (s.take j).drop i

/-- str.Subn for non-negative i, n -/
def subn (s : Bytes) (i n : Nat) : Bytes :=
  if i ≥ s.length then [] else if i + n ≥ s.length then s.drop i else (s.take (i + n)).drop i

/-- str.HasPrefix -/
def hasPrefix : Bytes → Bytes → Bool
  | _, [] => true
  | [], _ :: _ => false
  | a :: s, b :: p => a == b && hasPrefix s p

/-- strings.Split for a non-empty separator: `cur` is the (reversed) current piece -/
def splitGo (sep : Bytes) : Nat → Bytes → Bytes → List Bytes
  | 0, cur, s => [cur.reverse ++ s]
  | _ + 1, cur, [] => [cur.reverse]
  | f + 1, cur, c :: r =>
    if hasPrefix (c :: r) sep then cur.reverse :: splitGo sep f [] ((c :: r).drop sep.length)
    else splitGo sep f (c :: cur) r

/-- str.Split (nil for the empty string) for a non-empty separator -/
def split (s sep : Bytes) : List Bytes :=
  if s.isEmpty then [] else splitGo sep (s.length + 1) [] s

/-- the writing loop of str.Join: `sep := ""; for { write sep; write s; sep = fmt }` -/
def joinLoop (fmt : Bytes) : Bool → List Bytes → Bytes
  | _, [] => []
  | first, s :: r => (if first then [] else fmt) ++ s ++ joinLoop fmt false r

def isOpen (c : UInt8) : Bool := c == 40 || c == 123 || c == 91

/-- str.Join; `none` = the slice-bounds panic for a one byte format that is an opening bracket -/
def join (fmt : Bytes) (list : List Bytes) : Option Bytes :=
  match fmt with
  | c :: rest =>
    if isOpen c then
      match rest.getLast? with
      | none => none
      | some suffix => some (c :: joinLoop rest.dropLast true list ++ [suffix])
    else some (joinLoop fmt true list)
  | [] => some (joinLoop [] true list)

/-- str.Doesc (as written: the `\x` case reads its first digit from the `x` itself, so it
never decodes) — returns the byte and the new index -/
def doesc (s : Bytes) (i : Nat) : UInt8 × Nat :=
  let c := s.getD i 0
  if c ≠ 92 || i + 1 ≥ s.length then (c, i) else
  let c := s.getD (i + 1) 0
  if c = 110 then (10, i + 1)
  else if c = 116 then (9, i + 1)
  else if c = 114 then (13, i + 1)
  else if c = 92 || c = 34 || c = 39 then (c, i + 1)
  else if c = 120 && i + 2 < s.length then
    let d1 := digit (s.getD (i + 1) 0) 16
    let d2 := digit (s.getD (i + 2) 0) 16
    if d1 ≠ -1 ∧ d2 ≠ -1 then (UInt8.ofNat (16 * d1 + d2).toNat, i + 3) else (92, i)
  else (92, i)

end Gsu.Str
