/-
C10 — the abstract B+-tree: executable mirror of the STRUCTURE of a stored btree
(`db19/index/btree`), above the byte level. Core-only.

* `Leaf` = a leaf node: the length `pre` of the stored shared prefix and the `(key, offset)` entries
  (`leafnode.go`; the prefix bytes are the first `pre` bytes of every key);
* `BT h` = a subtree of height `h`: `BT 0 = Leaf`, `BT (h+1) = (List (child × separator)) × last child`
  (`treenode.go`: `nkeys` separators, `nkeys + 1` offsets). A btree is `BTree = ⟨treeLevels, root⟩`;
  all leaves are at the same depth by construction, a tree node has at least one child by
  construction (the transient `emptyTree` of `treeNode.delete` is the `gone` result of the merge);
* `BT.lookup` = `btree.Lookup`: descend through `treeNode.search` (first separator `> key`), then
  search the leaf;
* `bulkBuild` = `Builder.Add*/Finish` (`builder.go`): the leaf level closes a leaf when
  `leafBuilder.tryAdd` refuses the key (count `splitCount` / byte size, `Model/BtreeLeaf.lean`),
  the separator pushed up is `Builder.sep(prev, key) = key[:commonPrefixLen+1]`; a tree level
  (`addTree`) closes its node when it has `splitCount` offsets or the next separator would not
  fit `maxNodeSize`, the triggering child becomes the node's final offset and the separator goes
  up; a new level exists iff the level below pushed something up; `Finish` closes the right edge.
  The Go code runs all levels as one pipeline; here each level is run to completion over the
  stream produced by the level below (same result: the correspondence compares the complete
  shape — every separator and every leaf — of the real tree with `bulkBuild`).
-/
import Gsu.Model.BtreeLeaf
namespace Gsu.Btree

structure Leaf where
  /-- length of the stored shared prefix (`nd[1]`) -/
  pre : Nat
  es : List KV
  deriving Repr, DecidableEq

/-- byte size of the stored leaf: 1 count + 1 prefix length + 7 per entry + 2 end offset +
prefix + suffixes -/
def Leaf.size (l : Leaf) : Nat :=
  4 + 7 * l.es.length + l.pre + (l.es.map fun e => e.1.length - l.pre).sum

@[reducible] def BT : Nat → Type
  | 0 => Leaf
  | h + 1 => List (BT h × Key) × BT h

structure BTree where
  h : Nat
  root : BT h

def BT.toList : (h : Nat) → BT h → List KV
  | 0, l => l.es
  | h + 1, t => (t.1.flatMap fun p => BT.toList h p.1) ++ BT.toList h t.2

def BTree.toList (t : BTree) : List KV := BT.toList t.h t.root

/-- `treeNode.search`: the child under the first separator that is `> key` (else the final one) -/
def pick {α} : List (α × Key) → α → Key → α
  | [], last, _ => last
  | (c, s) :: r, last, k => if k < s then c else pick r last k

/-- `btree.Lookup` -/
def BT.lookup : (h : Nat) → BT h → Key → Option Nat
  | 0, l, k => Btree.lookup l.es k
  | h + 1, t, k => BT.lookup h (pick t.1 t.2 k) k

def BTree.lookup (t : BTree) (k : Key) : Option Nat := BT.lookup t.h t.root k

/-- byte size of a stored tree node (`treeBuilder.size` = `entrySize + 8`) -/
def nodeSize {α} (kids : List (α × Key)) : Nat := 8 + (kids.map fun p => p.2.length + 7).sum

/-! ### bulk build -/

/-- `Builder.sep` -/
def sepKey (prev key : Key) : Key := key.take ((commonPrefix prev key).length + 1)

/-- the leaf `leafBuilder.finishInto` writes: a single key gets no prefix, the prefix is capped -/
def LB.finish (b : LB) (es : List KV) : Leaf :=
  { pre := if b.n = 1 then 0 else min 255 b.pre.length, es := es }

/-- `Builder.prev`: the key added last (`""` before the first) -/
def headKey : List KV → Key
  | [] => []
  | e :: _ => e.1

/-- leaf level of the Builder (`addLeaf` over the input + the final `leaf.finishTo`): the finished
`(leaf, separator)` pairs and the last leaf. `cur` = the entries of the open leaf, newest first;
its head is `Builder.prev`. -/
def buildLeaves (split : Nat) : List KV → LB → List KV → List (Leaf × Key) × Leaf
  | [], b, cur => ([], b.finish cur.reverse)
  | (k, o) :: r, b, cur =>
    match b.tryAdd split k with
    | some b' => buildLeaves split r b' ((k, o) :: cur)
    | none =>
      let res := buildLeaves split r (({} : LB).add k) [(k, o)]
      ((b.finish cur.reverse, sepKey (headKey cur) k) :: res.1, res.2)

/-- one tree level of the Builder (`addTree` over the pairs pushed up by the level below + the
`finishTo` of `Finish`). `cur` = the entries of the open node, newest first. -/
def buildLevel (split : Nat) {α} : List (α × Key) → α → List (α × Key) →
    List ((List (α × Key) × α) × Key) × (List (α × Key) × α)
  | [], last, cur => ([], (cur.reverse, last))
  | (c, s) :: r, last, cur =>
    if cur.length + 1 ≥ split ∨ nodeSize cur + s.length + 7 > maxNodeSizeM then
      let res := buildLevel split r last []
      (((cur.reverse, c), s) :: res.1, res.2)
    else buildLevel split r last ((c, s) :: cur)

/-- add levels while the level below pushed something up (`fuel` = an upper bound of the number of
levels; if it runs out — impossible for `split ≥ 2` and separators that fit a node — everything
left goes into one root) -/
def growUp (split : Nat) : Nat → (h : Nat) → List (BT h × Key) → BT h → BTree
  | _, h, [], last => ⟨h, last⟩
  | 0, h, ps, last => ⟨h + 1, (ps, last)⟩
  | fuel + 1, h, ps, last =>
    let res := buildLevel split ps last []
    growUp split fuel (h + 1) res.1 res.2

def bulkBuild (split : Nat) (kvs : List KV) : BTree :=
  let res := buildLeaves split kvs {} []
  growUp split res.1.length 0 res.1 res.2

end Gsu.Btree
