/-
M-LANG, constant folding (C30): expression AST, run-time evaluator, mirror of the folder rules.

Mirrors (bugs included)
  * compile/ast/folder.go   Folder.Unary/Binary/Trinary/In/Nary, commutative, foldMul, foldCat, ckMath
  * compile/codegen.go      evaluation order of unary/binary/nary/and-or/in/trinary
  * core/ops.go             OpAdd … OpBitNot, OpNot, OpBool, OpUnaryPlus/Minus, OpCat on the
                            boolean / integer / string fragment (ToInt/ToDnum: "" and false are 0)

Not mirrored (the generator of the correspondence suite stays outside): inexact division (the
reciprocal operands of `*` are mirrored with an abstract `Arith.div`), shifts, `=~`, dates/objects, foldRanges (`x > a and x < b` → InRange),
foldOrToIn (`x is a or x is b` → in), `set.Unique` on `in` lists (pointer identity, a no-op for
freshly parsed operands), Folder.Call.

Numbers: `Val.int` is an exact integer. The arithmetic of `+` and `*` is a parameter (`Arith`):
`exactA` for the fragment the correspondence replays (|values| < 10^15, where int64 and the 16
digit decimal are exact), `dec16` a one-fractional-digit slice of the 16 digit decimal addition
(values in tenths) used for the re-association counter-witness (finding 8).
Core Lean only.
-/
namespace Gsu.LangFold

abbrev Bytes := List UInt8

inductive Val where
  | bool (b : Bool)
  | int (i : Int)
  | str (s : Bytes)
  deriving DecidableEq, Repr, Inhabited

structure Arith where
  add : Int → Int → Int
  mul : Int → Int → Int
  div : Int → Int → Int

/-- exact integers; division only where it is exact (the int fast path of OpDiv), otherwise the
value is outside the replayed fragment (the suite does not replay such lines) -/
def exactA : Arith :=
  ⟨fun a b => a + b, fun a b => a * b, fun a b => if b ≠ 0 ∧ a % b = 0 then a / b else 0⟩

/-- 16-digit decimal addition restricted to numbers with at most one fractional digit, in units
of 1/10: mirrors `dnum.Add`/`align` for |larger| < 10^16 units·10 (the smaller operand is rounded
half-up to the ulp of the larger one and dropped entirely when below one ulp). -/
def dec16add (a b : Int) : Int :=
  let x := if a.natAbs ≥ b.natAbs then a else b
  let y := if a.natAbs ≥ b.natAbs then b else a
  if x.natAbs < 10000000000000000 then x + y
  else if y.natAbs < 10 then x
  else x + y.sign * (((y.natAbs + 5) / 10 * 10 : Nat) : Int)

def dec16 : Arith := ⟨dec16add, fun a b => a * b / 10, fun a b => if b = 0 then 0 else a * 10 / b⟩

inductive UOp where
  | plus | minus | not | bitnot | paren
  /-- the reciprocal operand `/ e` of a `*` list (`Unary(Div, e)`); evaluated alone it is `1 / e` -/
  | div
  deriving DecidableEq, Repr, Inhabited

inductive BOp where
  | is | isnt | lt | lte | gt | gte | mod
  deriving DecidableEq, Repr, Inhabited

inductive NOp where
  | add | mul | bitor | bitand | bitxor | or | and | cat
  deriving DecidableEq, Repr, Inhabited

inductive Expr where
  | const (v : Val)
  | var (i : Nat)
  | unary (op : UOp) (e : Expr)
  | binary (op : BOp) (l r : Expr)
  | trinary (c t f : Expr)
  | inn (e : Expr) (es : List Expr)
  | nary (op : NOp) (es : List Expr)
  deriving Repr, Inhabited

/-! ## values -/

def isNum : Val → Bool
  | .int _ => true
  | _ => false

/-- `ToInt` / `ToDnum`: numbers, and `""` and `false` as zero -/
def toNum : Val → Option Int
  | .int i => some i
  | .bool false => some 0
  | .str [] => some 0
  | _ => none

def digitsOf (i : Int) : Bytes := (toString i).toUTF8.toList

/-- `AsStr` -/
def asStr : Val → Bytes
  | .bool true => "true".toUTF8.toList
  | .bool false => "false".toUTF8.toList
  | .int i => digitsOf i
  | .str s => s

def cmpBytes : Bytes → Bytes → Ordering
  | [], [] => .eq
  | [], _ :: _ => .lt
  | _ :: _, [] => .gt
  | a :: as, b :: bs => if a < b then .lt else if b < a then .gt else cmpBytes as bs

def ordOf : Val → Nat
  | .bool _ => 0
  | .int _ => 1
  | .str _ => 2

/-- `Value.Compare` (boolean < number < string) -/
def cmpVal (x y : Val) : Ordering :=
  match x, y with
  | .bool a, .bool b => compare a.toNat b.toNat
  | .int a, .int b => compare a b
  | .str a, .str b => cmpBytes a b
  | _, _ => compare (ordOf x) (ordOf y)

def allones : Int := 4294967295

def bv (i : Int) : BitVec 64 := BitVec.ofInt 64 i

/-! ## operators (core/ops.go) -/

def evalU (A : Arith) (op : UOp) (v : Val) : Option Val :=
  match op with
  | .div => (toNum v).map fun i => .int (A.div 1 i)
  | .plus => match v with
    | .int i => some (.int i)
    | .bool false => some (.int 0)
    | .str [] => some (.int 0)
    | _ => none
  | .minus => (toNum v).map fun i => .int (-i)
  | .not => match v with
    | .bool b => some (.bool !b)
    | _ => none
  | .bitnot => (toNum v).map fun i => .int (-i - 1)
  | .paren => some v

def evalB (op : BOp) (l r : Val) : Option Val :=
  match op with
  | .is => some (.bool (l = r))
  | .isnt => some (.bool (l ≠ r))
  | .lt => some (.bool (cmpVal l r = .lt))
  | .lte => some (.bool (cmpVal l r ≠ .gt))
  | .gt => some (.bool (cmpVal l r = .gt))
  | .gte => some (.bool (cmpVal l r ≠ .lt))
  | .mod => match toNum l, toNum r with
    | some a, some b => if b = 0 then none else some (.int (Int.tmod a b))
    | _, _ => none

/-- the integer function of an arithmetic / bit n-ary operator -/
def nop (A : Arith) (op : NOp) (a b : Int) : Int :=
  match op with
  | .add => A.add a b
  | .mul => A.mul a b
  | .bitor => (bv a ||| bv b).toInt
  | .bitand => (bv a &&& bv b).toInt
  | .bitxor => (bv a ^^^ bv b).toInt
  | _ => 0

/-- one run-time step of an arithmetic / bit n-ary operator: `OpAdd(acc, v)` … -/
def nbin (A : Arith) (op : NOp) (a b : Val) : Option Val :=
  match toNum a, toNum b with
  | some x, some y => some (.int (nop A op x y))
  | _, _ => none

/-- the folder's `and` / `or` helper functions: `SuBool(OpBool(x) && OpBool(y))` -/
def boolBop (isAnd : Bool) (a b : Val) : Option Val :=
  match a, b with
  | .bool x, .bool y => some (.bool (if isAnd then x && y else x || y))
  | _, _ => none

/-! ## run-time evaluation (what codegen + interp do, without folding) -/

mutual
def eval (A : Arith) (env : List Val) : Expr → Option Val
  | .const v => some v
  | .var i => env[i]?
  | .unary op e => match eval A env e with
    | some v => evalU A op v
    | none => none
  | .binary op l r => match eval A env l with
    | some a => match eval A env r with
      | some b => evalB op a b
      | none => none
    | none => none
  | .trinary c t f => match eval A env c with
    | some (.bool true) => eval A env t
    | some (.bool false) => eval A env f
    | _ => none
  | .inn e es =>
    if es.isEmpty then some (.bool false)  -- codegen emits False without evaluating the lhs
    else match eval A env e with
      | some v => evalIn A env v es
      | none => none
  | .nary op es => match op with
    | .and => evalAnd A env es
    | .or => evalOr A env es
    | .cat => match evalCat A env es with
      | some s => some (.str s)
      | none => none
    | .mul => match es with
      | [] => none
      | e :: rest => match eval A env e with
        | some v => evalMulDiv A env v none rest
        | none => none
    | _ => match es with
      | [] => none
      | e :: rest => match eval A env e with
        | some v => evalFold A env op v rest
        | none => none

/-- `x in (e1, …)`: operands are evaluated until one is equal -/
def evalIn (A : Arith) (env : List Val) (v : Val) : List Expr → Option Val
  | [] => some (.bool false)
  | e :: rest => match eval A env e with
    | some w => if v = w then some (.bool true) else evalIn A env v rest
    | none => none

/-- `and`: every evaluated operand must be a boolean; stops at the first `false` -/
def evalAnd (A : Arith) (env : List Val) : List Expr → Option Val
  | [] => none
  | e :: rest => match eval A env e with
    | some (.bool true) => match rest with
      | [] => some (.bool true)
      | _ :: _ => evalAnd A env rest
    | some (.bool false) => some (.bool false)
    | _ => none

def evalOr (A : Arith) (env : List Val) : List Expr → Option Val
  | [] => none
  | e :: rest => match eval A env e with
    | some (.bool false) => match rest with
      | [] => some (.bool false)
      | _ :: _ => evalOr A env rest
    | some (.bool true) => some (.bool true)
    | _ => none

/-- `$`: all operands converted with AsStr and concatenated -/
def evalCat (A : Arith) (env : List Val) : List Expr → Option Bytes
  | [] => some []
  | e :: rest => match eval A env e with
    | some v => match evalCat A env rest with
      | some s => some (asStr v ++ s)
      | none => none
    | none => none

/-- `*` with reciprocal operands (codegen muldivExpr): the product of the plain operands divided
by the product of the reciprocal ones — `a / b / c` is `a / (b * c)` -/
def evalMulDiv (A : Arith) (env : List Val) (acc : Val) (dv : Option Val) :
    List Expr → Option Val
  | [] => match dv with
    | none => some acc
    | some d => match toNum acc, toNum d with
      | some x, some y => some (.int (A.div x y))
      | _, _ => none
  | .unary .div e :: rest => match eval A env e with
    | some v => match dv with
      | none => evalMulDiv A env acc (some v) rest
      | some d => match nbin A .mul d v with
        | some r => evalMulDiv A env acc (some r) rest
        | none => none
    | none => none
  | e :: rest => match eval A env e with
    | some v => match nbin A .mul acc v with
      | some r => evalMulDiv A env r dv rest
      | none => none
    | none => none

/-- `+ | & ^`: left fold; `a - b` is the operand `unary minus b` (dnum.Sub is Add of Neg) -/
def evalFold (A : Arith) (env : List Val) (op : NOp) (acc : Val) : List Expr → Option Val
  | [] => some acc
  | e :: rest => match eval A env e with
    | some v => match nbin A op acc v with
      | some r => evalFold A env op r rest
      | none => none
    | none => none
end

/-! ## the folder (compile/ast/folder.go) -/

inductive FoldErr where
  /-- "cannot do math on … literal" -/
  | literal
  /-- an operator applied at compile time panicked -/
  | eval
  deriving DecidableEq, Repr, Inhabited

abbrev FR := Except FoldErr Expr

def isConst : Expr → Bool
  | .const _ => true
  | _ => false

def inverseB : BOp → Option BOp
  | .is => some .isnt
  | .isnt => some .is
  | .lt => some .gte
  | .lte => some .gt
  | .gt => some .lte
  | .gte => some .lt
  | .mod => none

def reverseB : BOp → BOp
  | .lt => .gt
  | .lte => .gte
  | .gt => .lt
  | .gte => .lte
  | o => o

def rawOp : BOp → Bool
  | .mod => false
  | _ => true

def mathU : UOp → Bool
  | .plus | .minus | .bitnot | .div => true
  | _ => false

def mathB : BOp → Bool
  | .mod => true
  | _ => false

def constNonNum : Expr → Bool
  | .const v => !isNum v
  | _ => false

def fBinary (op : BOp) (l r : Expr) : FR :=
  if mathB op && (constNonNum l || constNonNum r) then .error .literal
  else match l, r with
    | .const a, .const b => match evalB op a b with
      | some v => .ok (.const v)
      | none => .error .eval
    | .const a, r => if rawOp op then .ok (.binary (reverseB op) r (.const a)) else .ok (.binary op (.const a) r)
    | l, r => .ok (.binary op l r)

def unwrap : Expr → Expr
  | .unary .paren e => e
  | e => e

def fUnary (op : UOp) (e : Expr) : FR :=
  match e with
  | .const c =>
    if mathU op && !isNum c then .error .literal
    else if op = .div then .ok (.unary .div (.const c))  -- a constant reciprocal is left to foldMul
    else match evalU exactA op c with
      | some v => .ok (.const v)
      | none => .error .eval
  | e =>
    if op = .not then
      match unwrap e with
      | .binary b l r => match inverseB b with
        | some b' => fBinary b' l r
        | none => .ok (.unary op e)
      | _ => .ok (.unary op e)
    else .ok (.unary op e)

def fTrinary (c t f : Expr) : FR :=
  match c with
  | .const (.bool true) => .ok t
  | .const (.bool false) => .ok f
  | .const _ => .error .eval
  | c => .ok (.trinary c t f)

/-- scan of `foldIn` with a constant lhs: `none` = leave the `in` unchanged -/
def inScan (c : Val) : List Expr → Option Bool
  | [] => some false
  | .const c2 :: rest => if c = c2 then some true else inScan c rest
  | _ :: _ => none

def fIn (e : Expr) (es : List Expr) : FR :=
  match es with
  | [] => .ok (.const (.bool false))
  | [x] => fBinary .is e x
  | es => match e with
    | .const c => match inScan c es with
      | some b => .ok (.const (.bool b))
      | none => .ok (.inn e es)
    | e => .ok (.inn e es)

def ckMath (es : List Expr) : Bool := es.all fun e => !constNonNum e

/-- zero (absorbing) and identity constants of `commutative`, as `foldNary` passes them -/
def zeroOf : NOp → Option Val
  | .bitor => some (.int allones)
  | .bitand => some (.int 0)
  | .or => some (.bool true)
  | .and => some (.bool false)
  | _ => none

def identOf : NOp → Val
  | .bitand => .int allones
  | .or => .bool false
  | .and => .bool true
  | _ => .int 0

/-- the binary function `commutative` merges constants with -/
def bopOf (A : Arith) (op : NOp) (a b : Val) : Option Val :=
  match op with
  | .or => boolBop false a b
  | .and => boolBop true a b
  | op => nbin A op a b

def nestedNary (op : NOp) : Expr → Option (List Expr)
  | .unary .paren (.nary op2 es) => if op2 = op then some es else none
  | _ => none

inductive CommRes where
  | zero (c : Val)
  | list (pre : List Expr) (k : Option Val) (post : List Expr)

/-- `commutative`: `pre` = kept operands before the first kept constant, `k` = the merged
constant (at the position of the first one), `post` = kept operands after it. -/
def commGo (A : Arith) (op : NOp) (pre : List Expr) (k : Option Val) (post : List Expr) :
    List Expr → Except FoldErr CommRes
  | [] => .ok (.list pre k post)
  | e :: rest =>
    match nestedNary op e with
    | some es2 => match k with
      | none => commGo A op (pre ++ es2) k post rest
      | some _ => commGo A op pre k (post ++ es2) rest
    | none => match e with
      | .const c =>
        if zeroOf op = some c then .ok (.zero c)
        else if c = identOf op then commGo A op pre k post rest
        else match k with
          | none => commGo A op pre (some c) post rest
          | some a => match bopOf A op a c with
            | some r => commGo A op pre (some r) post rest
            | none => .error .eval
      | e => match k with
        | none => commGo A op (pre ++ [e]) k post rest
        | some _ => commGo A op pre k (post ++ [e]) rest

def commutative (A : Arith) (op : NOp) (es : List Expr) : Except FoldErr (List Expr) :=
  match commGo A op [] none [] es with
  | .error x => .error x
  | .ok (.zero c) => .ok [.const c]
  | .ok (.list pre k post) =>
    match k, pre, post with
    | some v, [], [] => match bopOf A op (identOf op) v with
      | some r => .ok [.const r]
      | none => .error .eval
    | none, [], _ => .ok [.const (identOf op)]
    | none, [e], _ => .ok [e, .const (identOf op)]
    | none, pre, _ => .ok pre
    | some v, pre, post => .ok (pre ++ .const v :: post)

/-- scan of `foldMul`: product of the constant factors, product of the constant divisors, kept
operands; `none` = a constant zero factor -/
def mulGo (A : Arith) (m d : Int) (keep : List Expr) : List Expr → Option (Int × Int × List Expr)
  | [] => some (m, d, keep)
  | .unary _ (.const c) :: rest => match toNum c with
    | some n => mulGo A m (A.mul d n) keep rest
    | none => mulGo A m d keep rest
  | .const (.int 0) :: _ => none
  | .const c :: rest => match toNum c with
    | some n => mulGo A (A.mul m n) d keep rest
    | none => mulGo A m d keep rest
  | e :: rest => mulGo A m d (keep ++ [e]) rest

def unaryDivOrConstant : Expr → Bool
  | .unary .div _ => true
  | .const _ => true
  | _ => false

/-- `foldMul`: constants multiplied together (divisors separately) and moved to the end -/
def foldMul (A : Arith) (es : List Expr) : List Expr :=
  match mulGo A 1 1 [] es with
  | none => [.const (.int 0)]
  | some (m, d, keep) =>
    let md : Int × Int := if d ≠ 1 && (m ≠ 1 || keep.isEmpty) then (A.div m d, 1) else (m, d)
    let es1 :=
      if md.2 = 1 then (if md.1 ≠ 1 || keep.isEmpty then keep ++ [.const (.int md.1)] else keep)
      else keep ++ [.unary .div (.const (.int md.2))]
    match es1 with
    | [e] => if unaryDivOrConstant e then [e] else [e, .const (.int 1)]
    | es1 => es1

/-- `foldCat`: contiguous constants are concatenated (a lone constant is left as it is) -/
def catGo (out : List Expr) (cur : Option Val) : List Expr → List Expr
  | [] => match cur with
    | some c => out ++ [.const c]
    | none => out
  | .const c :: rest => match cur with
    | none => catGo out (some c) rest
    | some a => catGo out (some (.str (asStr a ++ asStr c))) rest
  | e :: rest => match cur with
    | some c => catGo (out ++ [.const c, e]) none rest
    | none => catGo (out ++ [e]) none rest

def foldCat (es : List Expr) : List Expr := catGo [] none es

def fNary (A : Arith) (op : NOp) (es : List Expr) : FR :=
  match es with
  | [e] => .ok e
  | es =>
    let r : Except FoldErr (List Expr) :=
      match op with
      | .add | .bitor | .bitand | .bitxor =>
        if ckMath es then commutative A op es else .error .literal
      | .mul => if ckMath es then .ok (foldMul A es) else .error .literal
      | .or | .and => commutative A op es
      | .cat => .ok (foldCat es)
    match r with
    | .error x => .error x
    | .ok [e] => .ok e
    | .ok es' => .ok (.nary op es')

-- the whole tree, bottom-up and left to right, as the parser calls the folder
mutual
def foldE (A : Arith) : Expr → FR
  | .const v => .ok (.const v)
  | .var i => .ok (.var i)
  | .unary op e => match foldE A e with
    | .ok e' => fUnary op e'
    | .error x => .error x
  | .binary op l r => match foldE A l with
    | .ok l' => match foldE A r with
      | .ok r' => fBinary op l' r'
      | .error x => .error x
    | .error x => .error x
  | .trinary c t f => match foldE A c with
    | .ok c' => match foldE A t with
      | .ok t' => match foldE A f with
        | .ok f' => fTrinary c' t' f'
        | .error x => .error x
      | .error x => .error x
    | .error x => .error x
  | .inn e es => match foldE A e with
    | .ok e' => match foldL A es with
      | .ok es' => fIn e' es'
      | .error x => .error x
    | .error x => .error x
  | .nary op es => match foldL A es with
    | .ok es' => fNary A op es'
    | .error x => .error x

def foldL (A : Arith) : List Expr → Except FoldErr (List Expr)
  | [] => .ok []
  | e :: rest => match foldE A e with
    | .ok e' => match foldL A rest with
      | .ok r' => .ok (e' :: r')
      | .error x => .error x
    | .error x => .error x
end

/-- what running the folded program gives: a compile error is an exception too -/
def evalFolded (A : Arith) (env : List Val) (e : Expr) : Option Val :=
  match foldE A e with
  | .ok e' => eval A env e'
  | .error _ => none

end Gsu.LangFold
