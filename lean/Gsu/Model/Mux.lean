/-
C40 model of dbms/mux: frame header layout, the reader's reassembly of interleaved frames into
per-session messages (`conn.reader`), and the buffered writer (`WriteBuf`).  Core-only.

Mirrors the code that exists, including: the size check is on the accumulated message
(`len(partial)+size > maxSize`), a final frame completing an *empty* message with no partial
buffer trips `assert.That(buf != nil)` (status `assert`), a final byte other than 0/1 stops the
reader (`badfinal`), `flush(false)` of an empty buffer emits an empty non-final frame.
-/
namespace Gsu.Mux

abbrev Bytes := List UInt8

def headerSize : Nat := 9
def maxSize : Nat := 1048576
def bufSize : Nat := 4096
/-- header layout: big-endian uint32 size at 0, big-endian uint32 session id at 4, final at 8 -/
def sizeOff : Nat := 0
def idOff : Nat := 4
def finalOff : Nat := 8

def be32 (n : Nat) : Bytes :=
  [UInt8.ofNat (n / 16777216 % 256), UInt8.ofNat (n / 65536 % 256), UInt8.ofNat (n / 256 % 256),
   UInt8.ofNat (n % 256)]

def rd32 (a b c d : UInt8) : Nat := a.toNat * 16777216 + b.toNat * 65536 + c.toNat * 256 + d.toNat

/-- `putHdr` -/
def encHdr (size sid : Nat) (fb : UInt8) : Bytes := be32 size ++ be32 sid ++ [fb]

/-- the reader's view of a 9 byte header: (size, session id, final byte) -/
def decHdr : Bytes → Option (Nat × Nat × UInt8)
  | [a, b, c, d, e, f, g, h, fb] => some (rd32 a b c d, rd32 e f g h, fb)
  | _ => none

structure Frame where
  sid : Nat
  payload : Bytes
  final : Bool
  deriving Repr, DecidableEq

def finalByte (b : Bool) : UInt8 := if b then 1 else 0

def encFrame (f : Frame) : Bytes := encHdr f.payload.length f.sid (finalByte f.final) ++ f.payload

def wire (fs : List Frame) : Bytes := fs.flatMap encFrame

/-! ### reader -/

inductive Status where
  | running
  | toobig     -- "message size greater than max"
  | badfinal   -- "bad final byte"
  | assert     -- assert.That(buf != nil): empty final message without a partial buffer
  | eof        -- the stream ended (possibly inside a frame)
  deriving DecidableEq, Repr

structure RSt where
  /-- `partial[sessionId]` ([] when absent) -/
  part : Nat → Bytes
  /-- delivered (session, message), oldest first -/
  out : List (Nat × Bytes)
  status : Status

def RSt.init : RSt := { part := fun _ => [], out := [], status := .running }

/-- one frame arriving at the reader; `fb` is the raw final byte.
    `a`: the reader asserts that the buffer of a completed message is not nil
    (regenerated: `Gsu.Gen.Mux.readerAssertsNonNil`). -/
def rstepRaw (a : Bool) (s : RSt) (sid : Nat) (payload : Bytes) (fb : UInt8) : RSt :=
  if s.status ≠ .running then s
  else if (s.part sid).length + payload.length > maxSize then { s with status := .toobig }
  else
    let buf := s.part sid ++ payload
    if fb = 0 then
      { s with part := fun i => if i = sid then buf else s.part i }
    else if fb = 1 then
      if a ∧ buf = [] then { s with status := .assert }   -- Go: nil slice, assert.That(buf != nil)
      else
        { s with part := fun i => if i = sid then [] else s.part i,
                 out := s.out ++ [(sid, buf)] }
    else { s with status := .badfinal }

def rstep (a : Bool) (s : RSt) (f : Frame) : RSt := rstepRaw a s f.sid f.payload (finalByte f.final)

def run (a : Bool) (s : RSt) (fs : List Frame) : RSt := fs.foldl (rstep a) s

/-- what session `i` has been delivered -/
def delivered (s : RSt) (i : Nat) : List Bytes := (s.out.filter (·.1 = i)).map (·.2)

/-- the reader on the byte stream (io.ReadFull of header, then of `size` bytes).
    `fuel` bounds the number of frames (every frame consumes ≥ 9 bytes). -/
def readerFuel (a : Bool) : Nat → RSt → Bytes → RSt
  | 0, s, _ => s
  | fuel + 1, s, bs =>
    if s.status ≠ .running then s
    else match decHdr (bs.take headerSize) with
      | none => { s with status := .eof }
      | some (size, sid, fb) =>
        let rest := bs.drop headerSize
        if (s.part sid).length + size > maxSize then { s with status := .toobig }
        else if rest.length < size then { s with status := .eof }
        else readerFuel a fuel (rstepRaw a s sid (rest.take size) fb) (rest.drop size)

def reader (a : Bool) (bs : Bytes) : RSt := readerFuel a (bs.length + 1) RSt.init bs

/-! ### WriteBuf -/

structure WSt where
  /-- buffered content (after the header space) -/
  buf : Bytes
  /-- frames handed to `conn.write`, oldest first -/
  sent : List Frame

def WSt.init : WSt := ⟨[], []⟩

/-- `space()`: bufSize - len(wb.buf), where wb.buf includes the header space; it is negative
    after a write of more than bufSize - HeaderSize but less than bufSize bytes -/
def space (w : WSt) : Int := (bufSize : Int) - ((headerSize : Int) + w.buf.length)

def flush (sid : Nat) (w : WSt) (final : Bool) : WSt :=
  { buf := [], sent := w.sent ++ [⟨sid, w.buf, final⟩] }

/-- `Write` / `WriteString` -/
def write (sid : Nat) (w : WSt) (data : Bytes) : WSt :=
  let w1 := if (data.length : Int) > space w then flush sid w false else w
  if data.length ≥ bufSize then { w1 with sent := w1.sent ++ [⟨sid, data, false⟩] }
  else { w1 with buf := w1.buf ++ data }

/-- `Write1` -/
def write1 (sid : Nat) (w : WSt) (b : UInt8) : WSt :=
  let w1 := if space w = 0 then flush sid w false else w
  { w1 with buf := w1.buf ++ [b] }

def endMsg (sid : Nat) (w : WSt) : WSt := flush sid w true

/-- a whole message: the writes, then EndMsg -/
def writeMsg (sid : Nat) (w : WSt) (ws : List Bytes) : WSt := endMsg sid (ws.foldl (write sid) w)

end Gsu.Mux
