/-
M-NUM: executable mirror of `util/dnum/dnum.go` (C26, C27, C28). Core Lean only.

A `Dnum` is `sign * 0.coef * 10^exp` (decimal point to the LEFT of a 16 digit coefficient):
value = sign * coef * 10^(exp-16).   sign ∈ {-2 (−inf), -1, 0, +1, +2 (+inf)}.

Mirrors, function by function: New (round loop, maxShift/ilog10), FromInt, ToInt64, Neg, Abs,
Equal, Compare, Add/add/align, Sub, Mul (9/7 split), Div (with `div128 a b := a*10^16/b`, the
*specification* of div128.go — the algorithm itself is mirrored in Model/Div128.lean as `div128m`
/ `divM` and proved equal to it on coefficients, Proofs/Div128.lean), String (REPAIRED: finding 14,
exponent printed as `int(exp)-1`), FromStr (getSign/getCoef/getExp), Hash.
uint64 arithmetic is mirrored with explicit `% 2^64` where the Go code could wrap.
-/
namespace Gsu.Dnum

structure Dnum where
  coef : Nat
  sign : Int
  exp  : Int
deriving DecidableEq, Repr, Inhabited

def signPosInf : Int := 2
def signPos : Int := 1
def signZero : Int := 0
def signNeg : Int := -1
def signNegInf : Int := -2
def expMin : Int := -128
def expMax : Int := 127
def coefMin : Nat := 1000000000000000
def coefMax : Nat := 9999999999999999
def digitsMax : Nat := 16
def shiftMax : Nat := 15
def two64 : Nat := 18446744073709551616

def zero : Dnum := ⟨0, 0, 0⟩
def one : Dnum := ⟨1000000000000000, 1, 1⟩
def negOne : Dnum := ⟨1000000000000000, -1, 1⟩
def posInf : Dnum := ⟨1, 2, 0⟩
def negInf : Dnum := ⟨1, -2, 0⟩

/-- the `pow10` table of dnum.go (19 entries + an implicit 0 at index 19) as a function -/
def pow10 (i : Nat) : Nat := if i < 19 then 10 ^ i else 0
/-- the `halfpow10` table (20 entries) -/
def halfpow10 (i : Nat) : Nat := if i = 0 then 0 else if i < 20 then 5 * 10 ^ (i - 1) else 0

def isInf (d : Dnum) : Bool := d.sign == signPosInf || d.sign == signNegInf
def isZero (d : Dnum) : Bool := d.sign == signZero

def inf (sign : Int) : Dnum :=
  if sign < 0 then negInf else if sign > 0 then posInf else zero

/-- `ilog10` (Hacker's Delight): `63 - LeadingZeros64 x = Nat.log2 x` for `x > 0` -/
def ilog10 (x : Nat) : Nat :=
  if x = 0 then 0 else
  let y := (19 * Nat.log2 x) / 64
  if y < 18 ∧ x ≥ pow10 (y + 1) then y + 1 else y

def maxShift (x : Nat) : Nat :=
  let i := ilog10 x
  if i > shiftMax then 0 else shiftMax - i

/-- `for coef > coefMax { coef = (coef + 5) / 10; exp++; atmax = true }` (uint64 `+` wraps).
A uint64 has at most 20 digits, so 6 rounds of fuel always suffice. -/
def roundLoop : Nat → Nat → Int → Bool → Nat × Int × Bool
  | 0, coef, exp, atmax => (coef, exp, atmax)
  | fuel + 1, coef, exp, atmax =>
    if coef > coefMax then roundLoop fuel (((coef + 5) % two64) / 10) (exp + 1) true
    else (coef, exp, atmax)

/-- `New(sign, coef, exp)` -/
def new (sign : Int) (coef : Nat) (exp : Int) : Dnum :=
  if sign = 0 ∨ coef = 0 ∨ exp < expMin then zero
  else if sign = signPosInf then posInf
  else if sign = signNegInf then negInf
  else
    let (coef, exp, atmax) := roundLoop 6 coef exp false
    let (coef, exp) :=
      if !atmax then
        let p := maxShift coef
        (coef * pow10 p, exp - p)
      else (coef, exp)
    -- REPAIRED (fixes/C27-new-underflow.patch): the current code has no check here and
    -- `int8(exp)` wraps around, e.g. New(+1, 7, -128) = 7e112
    if exp < expMin then zero
    else if exp > expMax then inf sign else ⟨coef, sign, exp⟩

/-- `FromInt(n int64)` -/
def fromInt (n : Int) : Dnum :=
  if n = 0 then zero
  else if n < 0 then new signNeg n.natAbs digitsMax
  else new signPos n.natAbs digitsMax

def minInt64 : Int := -9223372036854775808
def maxInt64 : Int := 9223372036854775807
/-- two's complement wrap of a mathematical integer into int64 -/
def wrap64 (n : Int) : Int := (n + 9223372036854775808) % 18446744073709551616 - 9223372036854775808

/-- `ToInt64` (REPAIRED: `coef <= MaxInt64/1000`, fixes/27-dnum-toint64-limit.patch; the current
code has `<` and so refuses 9223372036854775000) -/
def toInt64 (d : Dnum) : Option Int :=
  if d.sign = 0 then some 0
  else if d.sign ≠ signNegInf ∧ d.sign ≠ signPosInf then
    if 0 < d.exp ∧ d.exp < 16 ∧ d.coef % pow10 (16 - d.exp).toNat = 0 then
      some (d.sign * (d.coef / pow10 (16 - d.exp).toNat))
    else if d.exp = 16 then some (wrap64 (d.sign * wrap64 d.coef))
    else if d.exp = 17 then some (wrap64 (d.sign * wrap64 (wrap64 d.coef * 10)))
    else if d.exp = 18 then some (wrap64 (d.sign * wrap64 (wrap64 d.coef * 100)))
    else if d.exp = 19 ∧ d.coef ≤ 9223372036854775 then some (wrap64 (d.sign * wrap64 (wrap64 d.coef * 1000)))
    else none
  else none

def neg (d : Dnum) : Dnum := ⟨d.coef, -d.sign, d.exp⟩
def abs (d : Dnum) : Dnum := if d.sign < 0 then ⟨d.coef, -d.sign, d.exp⟩ else d

def equal (x y : Dnum) : Bool := x.sign == y.sign && x.exp == y.exp && x.coef == y.coef

/-- `Compare` : -1 / 0 / +1 -/
def compare (x y : Dnum) : Int :=
  if x.sign < y.sign then -1
  else if x.sign > y.sign then 1
  else if x = y then 0
  else
    let sign := x.sign
    if sign = 0 ∨ sign = signNegInf ∨ sign = signPosInf then 0
    else if x.exp < y.exp then -sign
    else if x.exp > y.exp then sign
    else if x.coef < y.coef then -sign
    else if x.coef > y.coef then sign
    else 0

/-- `align(&x, &y)` : `none` when y is negligible -/
def align (x y : Dnum) : Option Nat :=
  if x.exp = y.exp then some y.coef
  else
    let yshift := ilog10 y.coef
    let e := x.exp - y.exp
    if e > yshift then none
    else some ((y.coef + halfpow10 e.toNat) / pow10 e.toNat)

/-- unexported `add(x, y)` (requires `x.exp ≥ y.exp`) -/
def add' (x y : Dnum) : Dnum :=
  match align x y with
  | none => x
  | some ycoef =>
    if x.sign = y.sign then new x.sign (x.coef + ycoef) x.exp
    else if x.coef < ycoef then new (-x.sign) (ycoef - x.coef) x.exp
    else new x.sign (x.coef - ycoef) x.exp

def add (x y : Dnum) : Dnum :=
  if x.sign = signZero then y
  else if y.sign = signZero then x
  else if isInf x then (if y.sign = -x.sign then zero else x)
  else if isInf y then y
  else if x.exp < y.exp then add' y x
  else add' x y

def sub (x y : Dnum) : Dnum := add x (neg y)

def e7 : Nat := 10000000

def mul (x y : Dnum) : Dnum :=
  let sign := x.sign * y.sign
  if sign = signZero then zero
  else if isInf x || isInf y then inf sign
  else
    let e := x.exp + y.exp
    let xhi := x.coef / e7
    let xlo := x.coef % e7
    let yhi := y.coef / e7
    let ylo := y.coef % e7
    let c := xhi * yhi
    let c := if xlo ≠ 0 ∨ ylo ≠ 0 then c + (xlo * yhi + ylo * xhi) / e7 else c
    new sign c (e - 2)

/-- SPECIFICATION of `div128(dividend, divisor)` : `(1e16 * dividend) / divisor` -/
def div128 (a b : Nat) : Nat := (10000000000000000 * a) / b

def div (x y : Dnum) : Dnum :=
  let sign := x.sign * y.sign
  if x.sign = signZero then x
  else if y.sign = signZero then inf x.sign
  else if isInf x then
    (if isInf y then (if sign < 0 then negOne else one) else inf sign)
  else if isInf y then zero
  else new sign (div128 x.coef y.coef) (x.exp - y.exp)

/-! ### String -/

/-- `getDigits`: most significant first, trailing zeros dropped (loop ends when coef = 0) -/
def getDigits : Nat → Nat → Nat → List Char
  | 0, _, _ => []
  | fuel + 1, coef, i =>
    if coef = 0 then []
    else Char.ofNat (48 + coef / pow10 i) :: getDigits fuel (coef % pow10 i) (i - 1)

def zeros (n : Nat) : List Char := List.replicate n '0'

def intToChars (n : Int) : List Char := (toString n).toList

/-- `String()`, with finding 14 repaired (`strconv.Itoa(int(dn.exp) - 1)`) -/
def toChars (d : Dnum) : List Char :=
  if d.sign = 0 then ['0']
  else
    let sign : List Char := if d.sign < 0 then ['-'] else []
    if isInf d then sign ++ ['i', 'n', 'f']
    else
      let digits := getDigits 16 d.coef 15
      let nd : Int := digits.length
      let e : Int := d.exp - nd
      if -7 ≤ d.exp ∧ d.exp ≤ 0 then
        sign ++ ['.'] ++ zeros (-e - nd).toNat ++ digits
      else if -nd < e ∧ e ≤ -1 then
        let dec := (nd + e).toNat
        sign ++ digits.take dec ++ ['.'] ++ digits.drop dec
      else if 0 < d.exp ∧ d.exp ≤ 16 then
        sign ++ digits ++ zeros e.toNat
      else
        let after := if nd > 1 then '.' :: digits.drop 1 else []
        sign ++ digits.take 1 ++ after ++ ['e'] ++ intToChars (d.exp - 1)

/-- the UNREPAIRED exponent text of the current code: `int(dn.exp-1)` evaluated in int8 -/
def wrap8 (n : Int) : Int := (n + 128) % 256 - 128

def toStr (d : Dnum) : String := String.ofList (toChars d)

/-! ### FromStr -/

def isDigit (c : Char) : Bool := '0' ≤ c && c ≤ '9'

def dropZeros : List Char → List Char × Nat
  | '0' :: r => let (r', n) := dropZeros r; (r', n + 1)
  | r => (r, 0)

/-- the main loop of `getCoef` after the leading zeros. State: n, exp, p, digits, beforeDecimal.
Returns (rest, n, exp, digits). Structural on the input. -/
def coefLoop : List Char → Nat → Int → Int → Bool → Bool → List Char × Nat × Int × Bool
  | [], n, exp, p, digits, beforeDecimal =>
    if beforeDecimal then ([], n, 15 - p, digits) else ([], n, exp, digits)
  | c :: r, n, exp, p, digits, beforeDecimal =>
    if isDigit c then
      let n := if c ≠ '0' ∧ p ≥ 0 then n + (c.toNat - 48) * pow10 p.toNat else n
      coefLoop r n exp (p - 1) true beforeDecimal
    else if beforeDecimal then
      let exp := 15 - p
      if c = '.' then
        if !digits then
          -- for r.match('0') { digits = true; exp-- }
          let (r', k) := dropZeros r
          afterPoint r' n (exp - k) p (k > 0)
        else afterPoint r n exp p digits
      else (c :: r, n, exp, digits)
    else (c :: r, n, exp, digits)
where
  /-- the loop once `beforeDecimal = false` -/
  afterPoint : List Char → Nat → Int → Int → Bool → List Char × Nat × Int × Bool
  | [], n, exp, _, digits => ([], n, exp, digits)
  | c :: r, n, exp, p, digits =>
    if isDigit c then
      let n := if c ≠ '0' ∧ p ≥ 0 then n + (c.toNat - 48) * pow10 p.toNat else n
      afterPoint r n exp (p - 1) true
    else (c :: r, n, exp, digits)

/-- `getCoef` : none = panic "numbers require at least one digit" -/
def getCoef (s : List Char) : Option (List Char × Nat × Int) :=
  let (s1, nz) := dropZeros s
  let digits := nz > 0
  let digits := match s1 with
    | '.' :: _ :: _ => false
    | _ => digits
  let (rest, n, exp, digits) := coefLoop s1 0 0 15 digits true
  if !digits then none else some (rest, n, exp)

def getSign : List Char → Int × List Char
  | '-' :: r => (-1, r)
  | '+' :: r => (1, r)
  | r => (1, r)

def expDigits : List Char → Int → Int × List Char
  | c :: r, e => if isDigit c then expDigits r (e * 10 + (c.toNat - 48)) else (e, c :: r)
  | [], e => (e, [])

def getExp : List Char → Int × List Char
  | c :: r =>
    if c = 'e' ∨ c = 'E' then
      let (sg, r1) := getSign r
      let (e, r2) := expDigits r1 0
      (e * sg, r2)
    else (0, c :: r)
  | [] => (0, [])

/-- `FromStr` : none = panic -/
def fromChars (s : List Char) : Option Dnum :=
  let (sign, s1) := getSign s
  match s1 with
  | 'i' :: 'n' :: 'f' :: _ => some (inf sign)
  | _ =>
    match getCoef s1 with
    | none => none
    | some (s2, coef, exp) =>
      let (e, s3) := getExp s2
      let exp := exp + e
      if s3 ≠ [] then none
      else if coef = 0 ∨ exp < -128 then some zero
      else if exp > 127 then some (inf sign)
      else some ⟨coef, sign, exp⟩

def fromStr (s : String) : Option Dnum := fromChars s.toList

/-! ### Hash -/
def phi64 : UInt64 := 0x9e3779b97f4a7c15

def u64OfInt (n : Int) : UInt64 := UInt64.ofNat (n % 18446744073709551616).toNat

/-- `(coef ^ uint64(sign)<<16 ^ uint64(exp)<<8) * phi64` -/
def hash (d : Dnum) : UInt64 :=
  (UInt64.ofNat d.coef ^^^ (u64OfInt d.sign <<< 16) ^^^ (u64OfInt d.exp <<< 8)) * phi64

/-! ### protocol helpers (shared by the C26/C27/C28 drivers) -/

def showDnum (d : Dnum) : String := s!"{d.sign},{d.coef},{d.exp}"

def parseDnum (s : String) : Option Dnum :=
  match s.splitOn "," with
  | [a, b, c] =>
    match a.toInt?, b.toNat?, c.toInt? with
    | some sg, some co, some ex => some ⟨co, sg, ex⟩
    | _, _, _ => none
  | _ => none

end Gsu.Dnum
