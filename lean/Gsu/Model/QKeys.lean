/-
M-QRY keys (core-only): executable mirror of the `Keys()` derivations of the query operators
(`dbms/query/*.go`), over the query **as written**.

`keysQ db declared q` (`declared id`: the keys of the schema of table `id`) follows, operator by operator, what the constructors compute:

* table      `minimizeKeys(keys of the schema)`                     (table.go `Table.setup`)
* where      `source.Keys()`; over a source that is not a table: `{{}}` when the where's fixed
             values cover a key of the source (`optInit`). NOT mirrored: the `singleton` the index
             analysis finds over a table (`perIndex`) and `conflict` (both report `{{}}`).
* project    `projectKeys(src.Keys(), cols)`                        (project.go)
* rename     `renameIndexes(src.Keys())`                            (rename.go; `checkRename` is mirrored as
             `renOk`, a rename the constructor would panic on has no keys here)
* extend, sort, minus  `src.Keys()` / `src1.Keys()`
* summarize  `projectKeys(src.Keys(), by)`                          (summarize.go)
* join       by `getJoinType`: 1:1 `UnionFn(k1, k2)`, 1:n `k2`, n:1 `k1`, n:n `keypairs()`  (join.go)
* leftjoin   1:1, n:1 `k1`; otherwise `keypairs()`
* times      `keypairs()` (the constructor rejects common columns; then: no keys here)
* union      `{allCols}`, or with a `disjoint` column (`newCompatible`, from the fixed values)
             `minimizeKeys(keypairs() each with the disjoint column added)`   (union.go)
* intersect  `projectKeys(minimizeKeys(k1 ++ k2), columns)`          (intersect.go)

`hasKey(by, keys, fixed)` uses the mirrored `Fixed()` (`Gsu.QFixed.fixedQ`).
-/
import Gsu.Model.QFixed
namespace Gsu.QKeys
open Gsu.Proto Gsu.QVal Gsu.QExpr Gsu.Qry Gsu.QCursor Gsu.QFixed

/-- `set.HasSubset(sup, sub)` -/
def hasSubset (sup sub : List Col) : Bool := decide (sub.length ≤ sup.length) && sub.all (sup.contains ·)

/-- `set.Equal`: same length and every element of `x` matched with an unused equal one of `y` -/
def setEqual : List Col → List Col → Bool
  | [], ys => ys.isEmpty
  | x :: xs, ys => ys.contains x && setEqual xs (ys.erase x)

/-- `set.AddUniqueFn(keys, k, set.Equal)` -/
def addUniq (keys : List (List Col)) (k : List Col) : List (List Col) :=
  if keys.any (setEqual · k) then keys else keys ++ [k]

/-- `minimizeKeys`: drop proper supersets of another key, then duplicates -/
def minimizeKeys (keys : List (List Col)) : List (List Col) :=
  (keys.filter fun k1 => !keys.any fun k2 => decide (k1.length > k2.length) && hasSubset k1 k2).foldl
    addUniq []

/-- `projectKeys`: the keys inside `cols`, or all of `cols` -/
def projectKeys (keys : List (List Col)) (cols : List Col) : List (List Col) :=
  match keys.filter (hasSubset cols ·) with
  | [] => [cols]
  | ks => ks

/-- `Query2.keypairs`: the unions of one key of each side, without duplicates -/
def keypairs (ks1 ks2 : List (List Col)) : List (List Col) :=
  (ks1.flatMap fun k1 => ks2.map fun k2 => unionCols k1 k2).foldl addUniq []

/-- `set.UnionFn(ks1, ks2, set.Equal)` -/
def unionKeys (ks1 ks2 : List (List Col)) : List (List Col) :=
  ks1 ++ ks2.filter fun k2 => !ks1.any (setEqual · k2)

/-- `Fixed.Single(col)` -/
def single (fx : Fixed) (c : Col) : Bool := fx.any fun f => f.1 == c && f.2.length == 1

/-- `hasKey(by, keys, fixed)`: some key is covered by `by` and the single-valued fixed columns -/
def hasKey (by_ : List Col) (keys : List (List Col)) (fx : Fixed) : Bool :=
  keys.any fun k => k.all fun c => single fx c || by_.contains c

def isTable : Query → Bool
  | .table _ => true
  | _ => false

/-- `set.Disjoint` -/
def disjointVals (x y : List Val) : Bool := x.all (!y.contains ·)

/-- `newCompatible`: a column whose fixed values tell the two sources apart -/
def disjointCol (f1 f2 : Fixed) (cols1 cols2 : List Col) : Option Col :=
  match f1.findSome? fun x =>
      (f2.find? fun y => x.1 == y.1 && disjointVals x.2 y.2).map fun _ => x.1 with
  | some d => some d
  | none =>
    match f1.find? fun x => !cols2.contains x.1 && !x.2.contains Val.empty with
    | some x => some x.1
    | none => (f2.find? fun y => !cols1.contains y.1 && !y.2.contains Val.empty).map (·.1)

/-- `set.AddUnique` -/
def addCol (k : List Col) (d : Col) : List Col := if k.contains d then k else k ++ [d]

/-- the keys the operators report (`[]`: not mirrored / not constructible) -/
def keysQ (db : Db) (declared : Nat → List (List Col)) : Query → List (List Col)
  | .table id => minimizeKeys (declared id)
  | .where_ q e =>
    if !isTable q &&
        (keysQ db declared q).any (fun k => k.all (single (fixedQ db (.where_ q e)))) then [[]]
    else keysQ db declared q
  | .project q cs => projectKeys (keysQ db declared q) cs
  | .rename q f t =>
    if renOk (colsQ db q) f t then (keysQ db declared q).map (·.map (renCol f t)) else []
  | .extend q _ _ => keysQ db declared q
  | .summarize q whole by_ _ =>
    if whole && !by_.isEmpty then [] else projectKeys (keysQ db declared q) by_
  | .sort q _ _ => keysQ db declared q
  | .join a b =>
    let by_ := interCols (colsQ db a) (colsQ db b)
    let k1 := keysQ db declared a
    let k2 := keysQ db declared b
    if hasKey by_ k1 (fixedQ db a) then (if hasKey by_ k2 (fixedQ db b) then unionKeys k1 k2 else k2)
    else if hasKey by_ k2 (fixedQ db b) then k1 else keypairs k1 k2
  | .leftjoin a b =>
    let by_ := interCols (colsQ db a) (colsQ db b)
    let k1 := keysQ db declared a
    let k2 := keysQ db declared b
    if hasKey by_ k2 (fixedQ db b) then k1 else keypairs k1 k2
  | .times a b =>
    if (interCols (colsQ db a) (colsQ db b)).isEmpty then
      keypairs (keysQ db declared a) (keysQ db declared b)
    else []
  | .union a b =>
    match disjointCol (fixedQ db a) (fixedQ db b) (colsQ db a) (colsQ db b) with
    | none => [unionCols (colsQ db a) (colsQ db b)]
    | some d =>
      minimizeKeys ((keypairs (keysQ db declared a) (keysQ db declared b)).map (addCol · d))
  | .intersect a b =>
    projectKeys (minimizeKeys (keysQ db declared a ++ keysQ db declared b))
      (interCols (colsQ db a) (colsQ db b))
  | .minus a _ => keysQ db declared a

end Gsu.QKeys
