/-
M-IDX (part used by C11): executable mirror of db19/index/ixbuf/ixbuf.go

* `Chg`, `app`, `combine` (DEFINED THROUGH the generated decision table `Gsu.Gen.Ixbuf.combineTab`),
  `mergeKey` — the per-key algebra of changes.
* `Layer`, `applyLayer`, `merge2`, `mergeFlat` — the abstract (flat, un-chunked) meaning of merging.
* `Buf`, `insert`, `merge` — the faithful mirror of the chunked code: `ixbuf.Insert`
  (searchChunks, search, Combine on an existing key, remove, in-place insert, chunk split) and
  `Merge` / `merge.merge` / `passthru` / `outputSlot` / `outputChunk` / `flushbuf` using the
  generated `goal`.

Offsets are modelled as naturals (the low 40 bits of the Go `uint64`); the two flag bits are the
constructor of `Chg`.  Assumption (see checks/C11.json): offsets are non-zero, as in the
database (`Insert` panics on 0 and a combined result of 0 means "entry removed").
Core-only: linked into the driver.
-/
import Gsu.Gen.Ixbuf
import Gsu.Util.Proto
namespace Gsu.Ixbuf
open Gsu.Proto
open Gsu.Gen.Ixbuf (Res Old combineTab goal)

/-! ## per-key algebra -/

inductive Chg where
  | add (off : Nat) | upd (off : Nat) | del (off : Nat)
  deriving DecidableEq, Repr

/-- state of one key: `none` = absent, `some off` = present -/
abbrev KS := Option Nat

/-- apply one change to a key's state; outer `none` = invalid (add of a present key,
update/delete of an absent one) -/
def app : KS → Chg → Option KS
  | none,   .add o => some (some o)
  | some _, .upd o => some (some o)
  | some _, .del _ => some none
  | _, _ => none

/-- the flag bits of the Go offset: `off >> 62` -/
def Chg.code : Chg → Nat
  | .add _ => 0 | .upd _ => 1 | .del _ => 2

/-- `off & Mask` -/
def Chg.off : Chg → Nat
  | .add o => o | .upd o => o | .del o => o

/-- interpretation of a `result` shape of the generated table; `none` = panic (or an offset
with both flag bits set, which no code path accepts), `some none` = result 0 = entry removed -/
def interpRes : Res → Chg → Option (Option Chg)
  | .maskOff2, c2 => some (some (.add c2.off))
  | .zero, _ => some none
  | .off2, c2 => some (some c2)
  | .off2Update, .add o => some (some (.upd o))
  | .off2Update, .upd o => some (some (.upd o))
  | .off2Update, .del _ => none
  | .panic, _ => none

def interpOld : Old → Chg → Nat
  | .none, _ => 0
  | .maskOff1, c1 => c1.off

/-- `ixbuf.Combine` with both results: (result, oldoff). `ops = off1>>60 | off2>>62 = 4*code1 + code2`
(theorem `gen_ops_code` in Props/C11). -/
def combineOld (c1 c2 : Chg) : Option (Option Chg × Nat) :=
  let ro := combineTab (4 * c1.code + c2.code)
  (interpRes ro.1 c2).map (fun r => (r, interpOld ro.2 c1))

/-- `ixbuf.Combine`, result only: `some none` = entry removed, `none` = panic -/
def combine (c1 c2 : Chg) : Option (Option Chg) :=
  (combineOld c1 c2).map (·.1)

/-- applying an optional change -/
def appO (s : KS) : Option Chg → Option KS
  | none => some s
  | some c => app s c

def appAll (s : KS) : List Chg → Option KS
  | [] => some s
  | c :: cs => (app s c).bind (appAll · cs)

/-- one step of the per-key fold: what `Insert` / `outputSlot` do with the next change of a key -/
def mergeStep (acc : Option Chg) (c2 : Chg) : Option (Option Chg) :=
  match acc with
  | none => some (some c2)          -- entry had been removed (add+del); start again
  | some c1 => combine c1 c2

/-- merge of a sequence of changes of one key (oldest first) into at most one change -/
def mergeKey : List Chg → Option (Option Chg)
  | [] => some none
  | c :: cs => cs.foldlM mergeStep (some c)

/-! ## flat layers -/

abbrev Slot := Bytes × Chg
/-- a layer: slots sorted strictly by key (predicate `Sorted` in Proofs) -/
abbrev Layer := List Slot

abbrev Map := Bytes → KS

def setKey (m : Map) (k : Bytes) (s : KS) : Map := fun x => if x = k then s else m x

/-- apply a layer's changes to a key→state map; `none` when some change is invalid -/
def applyLayer (m : Map) : Layer → Option Map
  | [] => some m
  | (k, c) :: r =>
    match app (m k) c with
    | none => none
    | some s => applyLayer (setKey m k s) r

/-- apply a list of layers one after another -/
def applyLayers (m : Map) (ls : List Layer) : Option Map := ls.foldlM applyLayer m

/-- two-way sorted merge; equal keys are combined (older on the left), removed when the
combination is 0; `none` when a combination panics -/
def merge2 : Layer → Layer → Option Layer
  | [], l2 => some l2
  | s1 :: r1, [] => some (s1 :: r1)
  | (k1, c1) :: r1, (k2, c2) :: r2 =>
    if k1 < k2 then (merge2 r1 ((k2, c2) :: r2)).map ((k1, c1) :: ·)
    else if k2 < k1 then (merge2 ((k1, c1) :: r1) r2).map ((k2, c2) :: ·)
    else match combine c1 c2 with
      | none => none
      | some none => merge2 r1 r2
      | some (some c) => (merge2 r1 r2).map ((k1, c) :: ·)
termination_by l1 l2 => l1.length + l2.length
decreasing_by all_goals (simp only [List.length_cons]; omega)

/-- abstract meaning of `Merge`: fold of the two-way merge, oldest layer first -/
def mergeFlat (ls : List Layer) : Option Layer := ls.foldlM merge2 []

/-! ## the chunked mirror -/

abbrev Chunk := List Slot

/-- `ixbuf` : chunk list + the `size` field -/
structure Buf where
  chunks : List Chunk
  size : Nat
  deriving DecidableEq, Repr

def Buf.flatten (b : Buf) : Layer := b.chunks.flatten

/-- generated `goal` on naturals -/
def goalN (n : Nat) : Nat := (goal (Int.ofNat n)).toNat

def firstKey (c : Chunk) : Bytes :=
  match c with
  | [] => []
  | s :: _ => s.1

def lastKey (c : Chunk) : Bytes :=
  match c.getLast? with
  | none => []
  | some s => s.1

/-- the loop of `searchChunks` / `search`: `i, j := lo, hi; for i < j { h := (i+j)/2; if p h { i = h+1 } else { j = h } }` -/
def bsearch (p : Nat → Bool) : Nat → Nat → Nat → Nat
  | 0, i, _ => i
  | f + 1, i, j =>
    if i < j then
      let h := (i + j) / 2
      if p h then bsearch p f (h + 1) j else bsearch p f i h
    else i

/-- `ixbuf.searchChunks` -/
def searchChunks (cs : List Chunk) (k : Bytes) : Nat :=
  let i := bsearch (fun h => decide (lastKey (cs.getD h []) < k)) (cs.length + 1) 0 cs.length
  min i (cs.length - 1)

/-- `search(c, key)` -/
def search (c : Chunk) (k : Bytes) : Nat :=
  bsearch (fun h => decide (firstKey (c.drop h) < k)) (c.length + 1) 0 c.length

/-- split point of `Insert`: `n` = chunk length after the insert, `i` = position inserted at -/
def splitAt (n i : Nat) : Nat :=
  if i = 0 then n / 4
  else if i = n - 1 then n / 2 + n / 4
  else n / 2

/-- `ixbuf.remove` -/
def remove (b : Buf) (ci i : Nat) : Buf :=
  let c := b.chunks.getD ci []
  if c.length = 1 then { chunks := b.chunks.eraseIdx ci, size := b.size - 1 }
  else { chunks := b.chunks.set ci (c.eraseIdx i), size := b.size - 1 }

/-- the "insert in place" + split part of `Insert` -/
def insertNew (b : Buf) (ci i : Nat) (ch : Chunk) (k : Bytes) (c : Chg) : Buf :=
  let size := b.size + 1
  let ch' := ch.take i ++ (k, c) :: ch.drop i
  let n := ch'.length
  if n > goalN size then
    let sp := splitAt n i
    { chunks := b.chunks.take ci ++ ch'.take sp :: ch'.drop sp :: b.chunks.drop (ci + 1), size := size }
  else { chunks := b.chunks.set ci ch', size := size }

/-- `ixbuf.Insert(key, off)`: result buffer and `oldoff`; `none` = panic -/
def insert (b : Buf) (k : Bytes) (c : Chg) : Option (Buf × Nat) :=
  if c = .add 0 then none  -- "offset cannot be zero"
  else if b.chunks.isEmpty then some ({ chunks := [[(k, c)]], size := b.size + 1 }, 0)
  else
    let ci := searchChunks b.chunks k
    let ch := b.chunks.getD ci []
    let i := search ch k
    match ch[i]? with
    | some (k', c1) =>
      if k' = k then
        match combineOld c1 c with
        | none => none
        | some (none, old) => some (remove b ci i, old)
        | some (some c', old) => some ({ b with chunks := b.chunks.set ci (ch.set i (k, c')) }, old)
      else some (insertNew b ci i ch k c, 0)
    | none => some (insertNew b ci i ch k c, 0)

/-- a sequence of `Insert`s from the empty buffer; collects the non-zero `oldoff`s with the op index -/
def insertAll : Buf → Nat → List (Bytes × Chg) → Option (Buf × List (Nat × Nat))
  | b, _, [] => some (b, [])
  | b, n, (k, c) :: r =>
    match insert b k c with
    | none => none
    | some (b', old) =>
      match insertAll b' (n + 1) r with
      | none => none
      | some (b'', olds) => some (b'', if old = 0 then olds else (n, old) :: olds)

/-- state of `merge.merge`: per input the rest of its current chunk and its remaining chunks,
`buf`, `out`, `size`, the `passthru` flag -/
structure MS where
  ins : List (Chunk × List Chunk)
  buf : Chunk
  out : List Chunk
  sz : Nat
  pass : Bool
  deriving Repr

/-- `merge.flushbuf` -/
def flushbuf (st : MS) : MS :=
  if st.buf.isEmpty then st
  else { st with out := st.out ++ [st.buf], sz := st.sz + st.buf.length, buf := [] }

/-- the "find minimum" loop: strict `<`, so the earliest input wins ties -/
def minFrom (cur : Nat) (key : Bytes) (j : Nat) : List Bytes → Nat
  | [] => cur
  | k2 :: r => if k2 < key then minFrom j k2 (j + 1) r else minFrom cur key (j + 1) r

def minIdx : List Bytes → Nat
  | [] => 0
  | k :: r => minFrom 0 k 1 r

/-- the non-combining tail of `outputSlot` -/
def pushSlot (g : Nat) (st : MS) (s2 : Slot) : MS :=
  let st := if st.buf.length > g then flushbuf st else st
  { st with buf := st.buf ++ [s2] }

/-- `merge.outputSlot`; `none` = `Combine` panicked -/
def outputSlot (g : Nat) (st : MS) (s2 : Slot) : Option MS :=
  match st.buf.getLast? with
  | some s1 =>
    if s2.1 = s1.1 then
      match combine s1.2 s2.2 with
      | none => none
      | some none => some { st with buf := st.buf.dropLast }
      | some (some c) => some { st with buf := st.buf.dropLast ++ [(s1.1, c)] }
    else some (pushSlot g st s2)
  | none => some (pushSlot g st s2)

/-- `merge.outputChunk` -/
def outputChunk (g : Nat) (st : MS) (c : Chunk) : MS :=
  if c.length > g / 2 then
    let st := flushbuf st
    { st with out := st.out ++ [c], sz := st.sz + c.length }
  else { st with buf := st.buf ++ c }

/-- first keys of the other inputs' current chunks -/
def otherFirstKeys (ins : List (Chunk × List Chunk)) (i : Nat) : List Bytes :=
  (ins.eraseIdx i).map (fun p => firstKey p.1)

/-- `merge.passthru(in, i)`: `none` = returned false, `some st'` = chunk was output -/
def tryPass (g : Nat) (st : MS) (i : Nat) (cur : Chunk) : Option MS :=
  let lastkey := lastKey cur
  if (otherFirstKeys st.ins i).any (fun fk => !decide (lastkey < fk)) then none
  else
    match st.buf.getLast? with
    | some s1 => if firstKey cur = s1.1 then none else some (outputChunk g st cur)
    | none => some (outputChunk g st cur)

/-- "advance to next chunk" / "remove empty input"; sets `passthru = true` -/
def advance (st : MS) (i : Nat) (rest : List Chunk) : MS :=
  match rest with
  | c :: rest' => { st with ins := st.ins.set i (c, rest'), pass := true }
  | [] => { st with ins := st.ins.eraseIdx i, pass := true }

/-- one iteration of the loop of `merge.merge`; `none` = panic -/
def step (g : Nat) (st : MS) : Option MS :=
  let i := minIdx (st.ins.map (fun p => firstKey p.1))
  match st.ins[i]? with
  | none => none
  | some (cur, rest) =>
    match cur with
    | [] => none
    | s :: tl =>
      match (if st.pass then tryPass g st i cur else none) with
      | some st' => some (advance st' i rest)
      | none =>
        match outputSlot g st s with
        | none => none
        | some st' =>
          if tl.isEmpty then some (advance st' i rest)
          else some { st' with ins := st'.ins.set i (tl, rest) }

def loop (g : Nat) : Nat → MS → Option MS
  | 0, st => if st.ins.isEmpty then some st else none
  | f + 1, st => if st.ins.isEmpty then some st else (step g st).bind (loop g f)

def mergeFuel (ins : List Buf) : Nat :=
  (ins.map (fun b => b.chunks.length + b.chunks.flatten.length)).sum + 1

/-- `ixbuf.Merge(ibs...)`; `none` = panic (fewer than 2 arguments, malformed input, invalid
combination) -/
def merge (bs : List Buf) : Option Buf :=
  if bs.length ≤ 1 then none
  else
    let ins := bs.filter (fun b => b.size ≠ 0)
    match ins with
    | [] => some { chunks := [], size := 0 }
    | [b] => some b
    | _ =>
      if ins.any (fun b => b.chunks.isEmpty || b.chunks.any List.isEmpty) then none
      else
        let total := (ins.map (·.size)).sum
        let g := goalN total
        let st0 : MS := {
          ins := ins.map (fun b => match b.chunks with | c :: r => (c, r) | [] => ([], []))
          buf := [], out := [], sz := 0, pass := false }
        (loop g (mergeFuel ins) st0).map (fun st =>
          let st := flushbuf st
          { chunks := st.out, size := st.sz })

end Gsu.Ixbuf
