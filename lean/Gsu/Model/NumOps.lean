/-
C26: numbers in their three representations and the arithmetic / comparison entry points of
`core/ops.go`, `core/suint.go`, `core/suint64.go`, `core/sudnum.go`. Core Lean only.

The int fast paths are modelled over `Int` with the explicit two's complement wrap `wrap64`
(every Go `int` operation that can overflow is written `wrap64 (…)`), and mirror the REPAIRED
code of fixes/05-int-overflow.patch (overflow-checked fast path, else dnum):

  addInt x y = (z, (z > x) == (y > 0))            where z := x + y        (wrapping)
  subInt x y = (z, (z < x) == (y > 0))            where z := x - y        (wrapping)
  mulInt x y = x == 0 → (0, true) | (z, z/x == y && !(x == -1 && y == MinInt))   z := x * y
  OpDiv      : … xi%yi == 0 && !(xi == MinInt && yi == -1)
  OpUnaryMinus : … ok && xi != MinInt

`SuDnum.Equal(int)` mirrors the repaired code of fixes/02-dnum-int-hash.patch (exact: the dnum
must convert to exactly that int64), see findings/C28.md.
-/
import Gsu.Model.Dnum
namespace Gsu.Num
open Gsu.Dnum

/-- `*smi` (int16 range), `SuInt64`, `SuDnum` -/
inductive Num where
  | smi (n : Int)
  | i64 (n : Int)
  | dn (d : Dnum)
deriving DecidableEq, Repr, Inhabited

def minSuInt : Int := -32768
def maxSuInt : Int := 32767

def inInt64 (n : Int) : Prop := minInt64 ≤ n ∧ n ≤ maxInt64
instance (n : Int) : Decidable (inInt64 n) := by unfold inInt64; infer_instance

/-- `IntVal` -/
def intVal (n : Int) : Num := if minSuInt ≤ n ∧ n ≤ maxSuInt then .smi n else .i64 n
/-- `Int64Val` (strict bounds, as in the code) -/
def int64Val (n : Int) : Num := if minSuInt < n ∧ n < maxSuInt then .smi n else .i64 n

/-- `SuIntToInt` -/
def asInt : Num → Option Int
  | .smi n => some n
  | .i64 n => some n
  | .dn _ => none

/-- `ToDnum` -/
def toDnum : Num → Dnum
  | .smi n => fromInt n
  | .i64 n => fromInt n
  | .dn d => d

/-! ### overflow-checked int helpers (repaired code) -/

def addInt (x y : Int) : Int × Bool :=
  let z := wrap64 (x + y)
  (z, decide (z > x ↔ y > 0))

def subInt (x y : Int) : Int × Bool :=
  let z := wrap64 (x - y)
  (z, decide (z < x ↔ y > 0))

def mulInt (x y : Int) : Int × Bool :=
  if x = 0 then (0, true)
  else
    let z := wrap64 (x * y)
    (z, decide (wrap64 (Int.tdiv z x) = y ∧ ¬(x = -1 ∧ y = minInt64)))

/-! ### operations -/

def opAdd (a b : Num) : Num :=
  match asInt a, asInt b with
  | some x, some y =>
    let (z, ok) := addInt x y
    if ok then intVal z else .dn (Dnum.add (toDnum a) (toDnum b))
  | _, _ => .dn (Dnum.add (toDnum a) (toDnum b))

def opSub (a b : Num) : Num :=
  match asInt a, asInt b with
  | some x, some y =>
    let (z, ok) := subInt x y
    if ok then intVal z else .dn (Dnum.sub (toDnum a) (toDnum b))
  | _, _ => .dn (Dnum.sub (toDnum a) (toDnum b))

def opMul (a b : Num) : Num :=
  match asInt a, asInt b with
  | some x, some y =>
    let (z, ok) := mulInt x y
    if ok then intVal z else .dn (Dnum.mul (toDnum a) (toDnum b))
  | _, _ => .dn (Dnum.mul (toDnum a) (toDnum b))

def opDiv (a b : Num) : Num :=
  match asInt b, asInt a with
  | some y, some x =>
    if y ≠ 0 ∧ Int.tmod x y = 0 ∧ ¬(x = minInt64 ∧ y = -1) then intVal (Int.tdiv x y)
    else .dn (Dnum.div (toDnum a) (toDnum b))
  | _, _ => .dn (Dnum.div (toDnum a) (toDnum b))

def opNeg (a : Num) : Num :=
  match asInt a with
  | some x => if x ≠ minInt64 then intVal (-x) else .dn (Dnum.neg (toDnum a))
  | none => .dn (Dnum.neg (toDnum a))

def opAdd1 (a : Num) : Num :=
  match asInt a with
  | some x => if x ≠ maxInt64 then intVal (x + 1) else .dn (Dnum.add (toDnum a) Dnum.one)
  | none => .dn (Dnum.add (toDnum a) Dnum.one)

/-- `ToInt` (int is 64 bit) : none = "can't convert to integer" -/
def toInt : Num → Option Int
  | .smi n => some n
  | .i64 n => some n
  | .dn d => toInt64 d

/-- `OpMod` : error classes as strings -/
def opMod (a b : Num) : Except String Num :=
  match toInt a, toInt b with
  | some x, some y => if y = 0 then .error "!div0" else .ok (intVal (Int.tmod x y))
  | _, _ => .error "!notint"

def cmpInt (x y : Int) : Int := if x < y then -1 else if x > y then 1 else 0

/-- `Compare` between numbers (all three methods have this shape) -/
def compare (a b : Num) : Int :=
  match asInt a, asInt b with
  | some x, some y => cmpInt x y
  | _, _ => Dnum.compare (toDnum a) (toDnum b)

/-- `Equal` between numbers; int vs dnum goes through `ToInt64` on both sides (repaired) -/
def equal (a b : Num) : Bool :=
  match a, b with
  | .dn x, .dn y => Dnum.equal x y
  | .dn x, b => (match asInt b with | some i => toInt64 x == some i | none => false)
  | a, .dn y => (match asInt a with | some i => toInt64 y == some i | none => false)
  | a, b => asInt a == asInt b

def phi64 : UInt64 := 0x9e3779b97f4a7c15

/-- `Hash` : ints `uint64(n) * phi64`; a dnum that converts to an int64 hashes like that int
(repaired: finding 2 — the current code does so only inside the int16 range) -/
def hash : Num → UInt64
  | .smi n => u64OfInt n * phi64
  | .i64 n => u64OfInt n * phi64
  | .dn d => match toInt64 d with
    | some n => u64OfInt n * phi64
    | none => Dnum.hash d

/-! ### protocol -/

def showNum : Num → String
  | .smi n => s!"s{n}"
  | .i64 n => s!"l{n}"
  | .dn d => "d" ++ showDnum d

def parseNum (s : String) : Option Num :=
  match s.toList with
  | 's' :: r => (String.ofList r).toInt?.map .smi
  | 'l' :: r => (String.ofList r).toInt?.map .i64
  | 'd' :: r => (parseDnum (String.ofList r)).map .dn
  | _ => none

end Gsu.Num
