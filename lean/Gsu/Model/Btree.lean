/-
C10 — stored btrees as ordered maps: executable specification-level model (core-only).

What is modelled:
* the CONTENT of a btree: a list of `(key, offset)` strictly sorted by key (`toList` of the tree);
* `applyOne`/`applyBatch`: the map-level effect of `btree.MergeAndSave` = `state.modify` on the
  leaf that contains the key: `ixbuf.Insert` asserts the key is absent and inserts, `Update`
  asserts present and replaces the offset, `Delete` asserts present and removes
  (assert failure → `none` = the Go panic);
* `chunk`: the greedy packing of the bulk `Builder` (a node is closed when it holds `limit`
  entries; limit = `splitCount`), and `Tree`/`build`/`toList`: the tree of chunks built level by
  level, bottom up.
This file is the MAP LEVEL only. The structure is modelled in `BtreeTree.lean` (abstract B+-tree,
separators, lookup by descent, the bulk Builder), `BtreeMerge.lean` (`MergeAndSave` with node
splits and empty-node removal; proved to refine `applyBatch` here), `BtreeCodec.lean` (leaf node
bytes), `BtreeLeaf.lean` (leaf packing by byte size), `BtreeRangeFrac.lean` (`RangeFrac`).
`chunk`/`Tree`/`build` below are the older count-only bulk build (kept; superseded by `bulkBuild`).
-/
import Gsu.Util.Proto
namespace Gsu.Btree
open Gsu.Proto

abbrev Key := List UInt8
abbrev KV := Key × Nat

inductive Op | add | upd | del
  deriving DecidableEq, Repr

def updBit : Nat := 2 ^ 62
def delBit : Nat := 2 ^ 63
/-- `ixbuf.Mask` -/
def mask : Nat := 0xffffffffff

/-- raw offset of a batch entry → operation and masked offset (`off & ixbuf.Mask`) -/
def decode (raw : Nat) : Op × Nat :=
  if raw ≥ delBit then (.del, raw % (mask + 1))
  else if raw ≥ updBit then (.upd, raw % (mask + 1))
  else (.add, raw % (mask + 1))

def lookup : List KV → Key → Option Nat
  | [], _ => none
  | (k, o) :: r, x => if k = x then some o else lookup r x

/-- insert keeping the order; `none` if the key is already present (`assert.That(!found)`) -/
def ins : List KV → Key → Nat → Option (List KV)
  | [], k, o => some [(k, o)]
  | (k', o') :: r, k, o =>
    if k < k' then some ((k, o) :: (k', o') :: r)
    else if k = k' then none
    else (ins r k o).map ((k', o') :: ·)

/-- replace the offset; `none` if absent (`assert.That(found)`) -/
def upd : List KV → Key → Nat → Option (List KV)
  | [], _, _ => none
  | (k', o') :: r, k, o =>
    if k = k' then some ((k', o) :: r) else (upd r k o).map ((k', o') :: ·)

/-- remove; `none` if absent -/
def del : List KV → Key → Option (List KV)
  | [], _ => none
  | (k', o') :: r, k =>
    if k = k' then some r else (del r k).map ((k', o') :: ·)

def applyOne (m : List KV) (k : Key) (op : Op) (o : Nat) : Option (List KV) :=
  match op with
  | .add => ins m k o
  | .upd => upd m k o
  | .del => del m k

def applyBatch : List KV → List (Key × Op × Nat) → Option (List KV)
  | m, [] => some m
  | m, (k, op, o) :: b => match applyOne m k op o with
    | some m' => applyBatch m' b
    | none => none

/-! ### bulk build: greedy chunks, level by level -/

/-- close a node every `n` entries (`tryAdd` fails when the node holds `splitCount` entries) -/
def chunkAux (n : Nat) : List α → Nat → List α → List (List α)
  | [], _, cur => if cur.isEmpty then [] else [cur.reverse]
  | x :: xs, room, cur =>
    if room = 0 then cur.reverse :: chunkAux n xs (n - 1) [x]
    else chunkAux n xs (room - 1) (x :: cur)

def chunk (n : Nat) (l : List α) : List (List α) := chunkAux n l n []

inductive Tree where
  | leaf (es : List KV)
  | node (kids : List Tree)

mutual
def Tree.toList : Tree → List KV
  | .leaf es => es
  | .node kids => toListKids kids
def toListKids : List Tree → List KV
  | [] => []
  | t :: ts => t.toList ++ toListKids ts
end

/-- group the nodes of one level into parents until a single root remains (fuel = #levels) -/
def buildUp (n : Nat) : Nat → List Tree → Tree
  | 0, ts => .node ts
  | fuel + 1, ts =>
    match ts with
    | [t] => t
    | _ => buildUp n fuel ((chunk n ts).map Tree.node)

def build (n : Nat) (l : List KV) : Tree :=
  match chunk n l with
  | [] => .leaf []
  | cs => buildUp n l.length (cs.map Tree.leaf)

/-- checksum of an iteration (the suite computes the same over the real iterator) -/
def hstep (h x : Nat) : Nat := (h * 1000003 + x + 1) % 4294967291

def hashKV (h : Nat) (kv : KV) : Nat :=
  hstep (kv.1.foldl (fun h b => hstep h b.toNat) (hstep h kv.1.length)) kv.2

def hashList (l : List KV) : Nat := l.foldl hashKV 7

end Gsu.Btree
