/-
M-CONC instance 1, interleaving part (C17): `Put` and `Get` of `util/queue/priority_queue.go`
as atomic steps of any number of producer goroutines and one consumer goroutine over a mutex
(`pq.lock`) and two condition variables (`notFull`, `notEmpty`).

`sync.Mutex`: `Lock` is enabled only while the mutex is free. `sync.Cond.Wait` atomically
releases the mutex and parks the goroutine; a parked goroutine resumes (re-acquiring the mutex,
i.e. goes back to `want`) when a `Signal` picks it (`Signal` wakes one parked goroutine if there
is one, any one) — or spuriously (Go's Cond has no spurious wake-ups; allowing them only makes
the theorems stronger). The items/puts/delivered bookkeeping is `Gsu.Pq.Hist`, modified only by
the sequential `Gsu.Pq.put` / `Gsu.Pq.get` the driver executes.

The statement order mirrored here is regenerated as `Gsu.Gen.Pq.putBody` / `getBody` and compared
in `Gsu.Props.C17.gen_put_get_shape`.
-/
import Gsu.Model.Pq
namespace Gsu.PqConc
open Gsu.Pq

/-- where a producer is inside `Put(e)` -/
inductive PPc where
  | idle                 -- not in a call
  | want (e : Elem)      -- at `pq.lock.Lock()`, or re-acquiring the lock inside `notFull.Wait()`
  | hold (e : Elem)      -- holds the lock, about to evaluate `len(pq.items) >= bufSize`
  | wait (e : Elem)      -- parked inside `pq.notFull.Wait()`
  | ready (e : Elem)     -- loop left, about to `append`
  | appended             -- about to `pq.notEmpty.Signal()`
  | signalled            -- about to run the deferred `Unlock`
  deriving DecidableEq, Repr

/-- where the consumer is inside `Get()` -/
inductive CPc where
  | idle | want | hold | wait | ready | removed | signalled
  deriving DecidableEq, Repr

inductive Owner where
  | free | prod (i : Nat) | cons
  deriving DecidableEq, Repr

structure St where
  h : Hist
  lock : Owner
  pp : List PPc
  cp : CPc

def PPc.crit : PPc → Bool
  | .hold _ | .ready _ | .appended | .signalled => true
  | _ => false

def CPc.crit : CPc → Bool
  | .hold | .ready | .removed | .signalled => true
  | _ => false

/-- a producer that will still look at the queue without needing another wake-up -/
def PPc.active : PPc → Bool
  | .want _ | .hold _ | .ready _ => true
  | _ => false

def PPc.waiting : PPc → Bool
  | .wait _ => true
  | _ => false

def init (nproducers : Nat) : St :=
  { h := {}, lock := .free, pp := List.replicate nproducers .idle, cp := .idle }

/-- one atomic step of one goroutine -/
inductive Step : St → St → Prop where
  -- producer i
  | pCall (s i e) (hp : s.pp[i]? = some .idle) :
      Step s { s with pp := s.pp.set i (.want e) }
  | pLock (s i e) (hp : s.pp[i]? = some (.want e)) (hl : s.lock = .free) :
      Step s { s with lock := .prod i, pp := s.pp.set i (.hold e) }
  | pFull (s i e) (hp : s.pp[i]? = some (.hold e)) (hf : s.h.items.length ≥ bufSize) :
      Step s { s with lock := .free, pp := s.pp.set i (.wait e) }
  | pReady (s i e) (hp : s.pp[i]? = some (.hold e)) (hf : ¬ s.h.items.length ≥ bufSize) :
      Step s { s with pp := s.pp.set i (.ready e) }
  | pAppend (s i e) (hp : s.pp[i]? = some (.ready e)) :
      Step s { s with h := { s.h with items := put s.h.items e, puts := s.h.puts ++ [e] },
                      pp := s.pp.set i .appended }
  | pSignalNone (s i) (hp : s.pp[i]? = some .appended) (hc : s.cp ≠ .wait) :
      Step s { s with pp := s.pp.set i .signalled }
  | pSignalWake (s i) (hp : s.pp[i]? = some .appended) (hc : s.cp = .wait) :
      Step s { s with pp := s.pp.set i .signalled, cp := .want }
  | pUnlock (s i) (hp : s.pp[i]? = some .signalled) :
      Step s { s with lock := .free, pp := s.pp.set i .idle }
  | pSpurious (s i e) (hp : s.pp[i]? = some (.wait e)) :
      Step s { s with pp := s.pp.set i (.want e) }
  -- the consumer
  | cCall (s) (hc : s.cp = .idle) : Step s { s with cp := .want }
  | cLock (s) (hc : s.cp = .want) (hl : s.lock = .free) : Step s { s with lock := .cons, cp := .hold }
  | cEmpty (s) (hc : s.cp = .hold) (he : s.h.items.length = 0) :
      Step s { s with lock := .free, cp := .wait }
  | cReady (s) (hc : s.cp = .hold) (he : ¬ s.h.items.length = 0) : Step s { s with cp := .ready }
  | cRemove (s e rest) (hc : s.cp = .ready) (hg : get s.h.items = some (e, rest)) :
      Step s { s with h := { s.h with items := rest, delivered := s.h.delivered ++ [e] }, cp := .removed }
  | cSignalNone (s) (hc : s.cp = .removed) (hn : ∀ (j : Nat) (p : PPc), s.pp[j]? = some p → p.waiting = false) :
      Step s { s with cp := .signalled }
  | cSignalWake (s j e) (hc : s.cp = .removed) (hp : s.pp[j]? = some (.wait e)) :
      Step s { s with pp := s.pp.set j (.want e), cp := .signalled }
  | cUnlock (s) (hc : s.cp = .signalled) : Step s { s with lock := .free, cp := .idle }
  | cSpurious (s) (hc : s.cp = .wait) : Step s { s with cp := .want }

/-- the states reachable by any interleaving of `n` producers and the consumer -/
inductive Reach (n : Nat) : St → Prop where
  | init : Reach n (init n)
  | step (s s') : Reach n s → Step s s' → Reach n s'

end Gsu.PqConc
