/-
M-LANG record-rule machine: executable mirror of the rule cache of `core/surecord.go`
(`put`, `getIfPresent`, `callRule`, `addDependent`, `invalidate`, `invalidateDependents`,
`callObservers`, `delete`, `slice`/`Copy`) for records that are not backed by a database row.
Core Lean only (linked into drv_c35).

Go                                  | here
------------------------------------+----------------------------------------------
r.ob named members (string keys)    | Rec.vals      : List (Field × Int)
r.invalid  map[string]bool          | Rec.invalid   : List Field
r.dependents map[string][]string    | Rec.deps      : List (Field × List Field)   (to ↦ froms)
r.invalidated str.Queue             | Rec.queue
what a recording observer has seen  | Rec.log  (only if an observer is attached: Rec.obs)
Global "Rule_<field>" (pure exprs)  | Rules := List (Field × Expr)
th.rules (active rule stack)        | parameter `act` of `getN` (top first)
Fields are numbered (the suite names them f0, f1, …); a value is an integer or "" (`Val := Option
Int`, `none` = ""); a missing member reads as "" (the record default), "" is 0 in arithmetic, a
rule whose body is just `.f` returns the raw value (possibly "", which is then cached as a value). Recursion of rules / of `invalidate` is by fuel.
Not modelled: attached rules, `_lower!`, database rows (`userow`), default-value containers,
locking, observers that modify the record, `activeObservers`.
-/
namespace Gsu.RecRules

abbrev Field := Nat

inductive Expr where
  | lit (n : Int)
  | fld (f : Field)
  | add (a b : Expr)
  | sub (a b : Expr)
  | mul (a b : Expr)
  deriving Repr

/-- a rule: `function () { return body }`, or with a guard `function () { if guard > 0 { return
body } }` — a rule that yields nothing when the guard fails (then nothing is stored and the field
keeps whatever it had) -/
structure Rule where
  guard : Option Expr := none
  body : Expr
  deriving Repr

abbrev Rules := List (Field × Rule)

/-- a Suneido value of the suite: an integer or "" -/
abbrev Val := Option Int

structure Rec where
  vals : List (Field × Val) := []
  invalid : List Field := []
  deps : List (Field × List Field) := []
  queue : List Field := []
  log : List Field := []
  obs : Bool := false
  deriving Repr

def lk {α} (m : List (Field × α)) (k : Field) : Option α :=
  match m with
  | [] => none
  | (a, v) :: r => if a = k then some v else lk r k

def setv {α} (m : List (Field × α)) (k : Field) (v : α) : List (Field × α) :=
  (k, v) :: m.filter (fun p => decide (p.1 ≠ k))

def delv {α} (m : List (Field × α)) (k : Field) : List (Field × α) :=
  m.filter (fun p => decide (p.1 ≠ k))

/-- `r.dependents[k]` -/
def depsOf (r : Rec) (k : Field) : List Field := (lk r.deps k).getD []

/-- `addDependent(from, to)` -/
def addDependent (r : Rec) (frm to : Field) : Rec :=
  if frm = to then r
  else if frm ∈ depsOf r to then r
  else { r with deps := setv r.deps to (depsOf r to ++ [frm]) }

/-- `invalidate(key)` (fuel `n` bounds the recursion through `invalidateDependents`) -/
def invalidateN : Nat → Rec → Field → Rec
  | 0, r, _ => r
  | n + 1, r, key =>
    if key ∈ r.invalid then r
    else
      let r1 := { r with queue := r.queue ++ [key], invalid := key :: r.invalid }
      (depsOf r1 key).foldl (fun acc d => invalidateN n acc d) r1

/-- `invalidateDependents(key)` -/
def invalidateDependents (n : Nat) (r : Rec) (key : Field) : Rec :=
  (depsOf r key).foldl (fun acc d => invalidateN n acc d) r

/-- `callObservers(key)`: notify `key`, then drain the queue (skipping `key`) -/
def callObservers (r : Rec) (key : Field) : Rec :=
  let notes := key :: r.queue.filter (fun k => decide (k ≠ key))
  { r with queue := [], log := if r.obs then r.log ++ notes else r.log }

/-- `put(key, val)` for a string key -/
def put (n : Nat) (r : Rec) (k : Field) (v : Int) : Rec :=
  let old := lk r.vals k
  let r := { r with invalid := r.invalid.erase k, vals := setv r.vals k (some v) }
  if old = some (some v) then r
  else callObservers (invalidateDependents n r k) k

/-- `delete(key)` for a string key -/
def delete (n : Nat) (r : Rec) (k : Field) : Rec × Bool :=
  match lk r.vals k with
  | none => (r, false)
  | some _ =>
    let r := { r with vals := delv r.vals k }
    (callObservers (invalidateDependents n r k) k, true)

/-- `Invalidate(key)` (the public method) -/
def invalidateOp (n : Nat) (r : Rec) (k : Field) : Rec := callObservers (invalidateN n r k) k

/-- a rule body: every `.f` is `this.Get(f)`; "" reads as 0 -/
def evalE (getf : Rec → Field → Rec × Val) : Expr → Rec → Rec × Val
  | .lit n, r => (r, some n)
  | .fld f, r => getf r f
  | .add a b, r =>
    let x := evalE getf a r; let y := evalE getf b x.1; (y.1, some (x.2.getD 0 + y.2.getD 0))
  | .sub a b, r =>
    let x := evalE getf a r; let y := evalE getf b x.1; (y.1, some (x.2.getD 0 - y.2.getD 0))
  | .mul a b, r =>
    let x := evalE getf a r; let y := evalE getf b x.1; (y.1, some (x.2.getD 0 * y.2.getD 0))

/-- `getIfPresent(th, key)` with `callRule` inlined; `act` is the active-rule stack -/
def getN : Nat → Rules → List Field → Rec → Field → Rec × Option Val
  | 0, _, _, r, _ => (r, none)
  | n + 1, rules, act, r, k =>
    let result := lk r.vals k
    let r := match act with
      | top :: _ => addDependent r top k
      | [] => r
    if result.isNone || decide (k ∈ r.invalid) then
      -- callRule
      let r := { r with invalid := r.invalid.erase k }
      match lk rules k with
      | none => (r, result)
      | some rule =>
        if k ∈ act then (r, result)
        else
          let getf := fun (r : Rec) (f : Field) =>
            let y := getN n rules (k :: act) r f; (y.1, y.2.getD none)
          let g : Rec × Bool := match rule.guard with
            | none => (r, true)
            | some ge => let x := evalE getf ge r; (x.1, decide (x.2.getD 0 > 0))
          if g.2 then
            let x := evalE getf rule.body g.1
            ({ x.1 with vals := setv x.1.vals k x.2 }, some x.2)
          else (g.1, result) -- `val == nil`: nothing stored, the old (possibly stale) value stays
    else (r, result)

/-- `Copy()`: values, dependencies and invalid set are copied; observers and the pending queue
are not -/
def copy (r : Rec) : Rec := { vals := r.vals, invalid := r.invalid, deps := r.deps }

/-- `GetDeps(key)`: the fields `key` depends on -/
def getDeps (r : Rec) (k : Field) : List Field :=
  (r.deps.filter (fun p => decide (k ∈ p.2))).map (·.1)

/-- fuel used by the driver (more than the number of fields the suite uses) -/
def fuel : Nat := 40

end Gsu.RecRules
