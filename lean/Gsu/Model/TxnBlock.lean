/-
C42 model: the block form of `Transaction` (builtin/transaction.go) — the deferred function
that completes or rolls back the transaction when the block is left.  The two conditions and
the branch order are regenerated (`Gsu.Gen.TxnBlock`).  Core-only.
-/
import Gsu.Gen.TxnBlock
namespace Gsu.TxnBlock

/-- how control leaves the block body (`th.Call(block, st)`) -/
inductive Exit where
  | normal          -- falls off the end / yields a value
  | blockReturn     -- `return` inside the block: panic(BlockReturn), returns from the enclosing function
  | blockBreak      -- `break`: panic(BlockBreak) ("block:break")
  | blockContinue   -- `continue`: panic(BlockContinue)
  | throw           -- any other exception
  deriving DecidableEq, Repr

/-- status of the SuTran when the body is left: the body may have ended it explicitly -/
inductive Status where
  | active | completed | aborted
  deriving DecidableEq, Repr

inductive Db where
  | committed | rolledBack
  deriving DecidableEq, Repr

inductive Raised where
  | none            -- Transaction returns the block's value
  | same            -- the body's exception / block-return / break / continue propagates
  | completeFailed  -- "transaction.Complete failed: …" replaces it
  deriving DecidableEq, Repr

structure Outcome where
  db : Db
  raised : Raised
  deriving DecidableEq, Repr

/-- the deferred function, with `recover()` semantics: it runs on every exit; when it does not
    recover, a panic keeps propagating. `commitOk`: `st.Complete()` would succeed. -/
def leave (status : Status) (exit : Exit) (commitOk : Bool) : Outcome :=
  let eNil := exit == .normal
  let eBR := exit == .blockReturn
  match status with
  | .completed => ⟨.committed, if eNil then .none else .same⟩
  | .aborted => ⟨.rolledBack, if eNil then .none else .same⟩
  | .active =>
    let rollback := if Gsu.Gen.TxnBlock.thenIsRollback then Gsu.Gen.TxnBlock.cond1 eNil eBR
                    else !Gsu.Gen.TxnBlock.cond1 eNil eBR
    let re := if Gsu.Gen.TxnBlock.condRepanic eNil eBR then Raised.same else Raised.none
    if rollback then ⟨.rolledBack, re⟩
    else if commitOk then ⟨.committed, re⟩
    else ⟨.rolledBack, .completeFailed⟩   -- Complete panics inside the deferred function

end Gsu.TxnBlock
