/-
C41 model: what a client connection of the dbms server can do before it has authenticated.

Two parts, both executed by `Drive/C41.lean` and both the subject of the theorems in
`Gsu.Props.C41`:

1. `evalPath` / `cmdOuts`: an interpreter of the *regenerated* command table
   (`Gsu.Gen.SrvCmds`, one list of control-flow paths per `cmdX` of dbms/dbmsserver.go) for a
   connection whose `ss.sc.dbms` is the `DbmsUnauth` wrapper (table regenerated from
   dbms/dbmsunauth.go) and whose sessions own the handles `Hs`.
2. `step`: the authentication state machine `{authed, nonce, nonceOld}` per connection and the
   global one-time `tokens` (dbms/auth.go, `cmdAuth`, `serverSession.auth`, `cmdNonce`,
   `cmdToken`, `expireTokens`, `expireNonces`), parametric in the hash function.

Core-only.
-/
import Gsu.Model.SrvEv
namespace Gsu.Srv
open Gsu.SrvEv

abbrev Bytes := List UInt8

/-- the regenerated facts the model is run with -/
structure Cfg where
  cmds : List Cmd
  unauth : List (String × UA)
  /-- `AuthUser` returns false when the user has no password hash -/
  rejectEmpty : Bool

/-- which kinds of handles the sessions of a connection currently own -/
structure Hs where
  tran : Bool
  query : Bool
  cursor : Bool
  deriving DecidableEq, Repr

def Hs.none : Hs := ⟨false, false, false⟩

def Hs.has (hs : Hs) : H → Bool
  | .tran => hs.tran
  | .query => hs.query
  | .cursor => hs.cursor
  | .qorc => hs.query || hs.cursor

def Hs.store (hs : Hs) (m : String) : Hs :=
  if m = "trans" then { hs with tran := true }
  else if m = "queries" then { hs with query := true }
  else if m = "cursors" then { hs with cursor := true }
  else hs

def Hs.or (a b : Hs) : Hs := ⟨a.tran || b.tran, a.query || b.query, a.cursor || b.cursor⟩

/-- calls that only decode the request, encode the response, or convert values.
    `ss.sc.limitLog` bumps the log quota of the caller's own connection (it runs before the
    `Log` guard in `cmdLog`); nothing else is affected by it. -/
def benign : List String :=
  ["ss.GetInt", "ss.GetInt64", "ss.GetStr", "ss.GetBool", "ss.GetChar", "ss.GetByte",
   "ss.GetVal", "ss.GetRec",
   "ss.PutBool", "ss.PutInt", "ss.PutInt64", "ss.PutStr", "ss.PutStr_", "ss.PutStrs",
   "ss.PutVal", "ss.PutBuf", "ss.PutResult", "ss.rowResult",
   "len", "int", "int64", "uint64", "make",
   "ss.sc.limitLog"]

inductive Out where
  | refused                -- the request ends with an error response, nothing was reached
  | answered               -- the request is answered; only benign calls / delegated methods ran
  | effect (f : String)    -- a call outside `benign` was reached without a guard
  deriving DecidableEq, Repr

def lookupUA (ua : List (String × UA)) (m : String) : Option UA :=
  match ua.find? (fun p => p.1 == m) with
  | some p => some p.2
  | none => none

/-- run one control-flow path of a command.
    `authed`: `ss.sc.dbms` is the DbmsLocal itself; otherwise the DbmsUnauth wrapper `ua`.
    `tn0`: the request's transaction number (when it has one) is 0.
    `nil`: the variable bound from `ss.getTran()` is nil. -/
def evalPath (ua : List (String × UA)) (authed tn0 : Bool) : Hs → Bool → List Ev → Hs × Out
  | hs, _, [] => (hs, .answered)
  | hs, _, .fail :: _ => (hs, .refused)
  | hs, nil, .dbms m :: r =>
    if authed then evalPath ua authed tn0 hs nil r
    else match lookupUA ua m with
      | some .refuse => (hs, .refused)
      | some .delegate => evalPath ua authed tn0 hs nil r
      | _ => (hs, .effect ("dbms:" ++ m))
  | hs, _, .tranOpt :: r =>
    if tn0 then evalPath ua authed tn0 hs true r
    else if hs.tran then evalPath ua authed tn0 hs false r
    else (hs, .refused)
  | hs, nil, .useTran :: r =>
    if nil then (hs, .refused)   -- nil interface method → runtime panic → error response
    else evalPath ua authed tn0 hs nil r
  | hs, nil, .need h :: r =>
    if hs.has h then evalPath ua authed tn0 hs nil r else (hs, .refused)
  | hs, nil, .store m :: r => evalPath ua authed tn0 (hs.store m) nil r
  | hs, nil, .call f :: r =>
    if f ∈ benign then evalPath ua authed tn0 hs nil r else (hs, .effect f)

/-- the outcomes of all control-flow paths of a command -/
def cmdOuts (ua : List (String × UA)) (authed tn0 : Bool) (hs : Hs) (c : Cmd) : List (Hs × Out) :=
  c.paths.map (evalPath ua authed tn0 hs false)

def cmdRefused (ua : List (String × UA)) (authed tn0 : Bool) (hs : Hs) (c : Cmd) : Bool :=
  (cmdOuts ua authed tn0 hs c).all (fun o => o.2 == .refused)

/-- handles after the command: the union over its paths -/
def cmdHs (ua : List (String × UA)) (authed tn0 : Bool) (hs : Hs) (c : Cmd) : Hs :=
  (cmdOuts ua authed tn0 hs c).foldl (fun a o => a.or o.1) hs

/-- response class compared with the implementation -/
def cmdClass (ua : List (String × UA)) (authed tn0 : Bool) (hs : Hs) (c : Cmd) : String :=
  let os := cmdOuts ua authed tn0 hs c
  if os.all (fun o => o.2 == .refused) then "!refused"
  else if os.all (fun o => o.2 != .refused) then "answered"
  else "mixed"

/-- what an unauthenticated connection may do (the property's list): authenticate, obtain a
    nonce, set or read its session id, list and fetch library code, end its session -/
def allowed : List String :=
  ["cmdAuth", "cmdNonce", "cmdSessionId", "cmdLibGet", "cmdLibraries", "cmdEndSession"]

/-- commands outside `allowed` that may be *answered* (instead of refused) on an unauthenticated
    connection on some path, having reached only `benign` calls: `cmdLog` answers `true` without
    logging when the message is empty or the connection's log quota is used up
    (`limitLog` runs before the `Log` guard). -/
def quietOk : List String := ["cmdLog"]

def findCmd (cmds : List Cmd) (name : String) : Option Cmd := cmds.find? (fun c => c.name == name)

/-! ### the authentication machine -/

structure Conn where
  authed : Bool
  nonce : Bytes        -- [] = none (Go: "")
  nonceOld : Bool
  hs : Hs
  deriving Repr

def Conn.fresh (authed : Bool) : Conn := ⟨authed, [], false, Hs.none⟩

structure Tok where
  tok : Bytes
  old : Bool
  /-- ghost: the connection that obtained the token was authenticated -/
  byAuthed : Bool
  deriving Repr

structure St where
  /-- the `users` table: user ↦ passhash -/
  users : List (Bytes × Bytes)
  conns : Nat → Conn
  tokens : List Tok

def St.setConn (st : St) (c : Nat) (k : Conn) : St :=
  { st with conns := fun i => if i = c then k else st.conns i }

def passhash (users : List (Bytes × Bytes)) (u : Bytes) : Bytes :=
  match users.find? (fun p => p.1 == u) with
  | some p => p.2
  | none => []

/-- str.BeforeFirst(s, "\x00") -/
def beforeNul (s : Bytes) : Bytes := s.takeWhile (· != 0)

/-- dbms/auth.go AuthUser -/
def authUser (H : Bytes → Bytes) (rejectEmpty : Bool) (users : List (Bytes × Bytes))
    (s nonce : Bytes) : Bool :=
  if nonce = [] then false
  else
    let user := beforeNul s
    let ph := passhash users user
    if rejectEmpty && ph == [] then false
    else s == user ++ 0 :: H (nonce ++ ph)

def hasTok (ts : List Tok) (s : Bytes) : Bool := ts.any (fun t => t.tok == s)
def delTok (ts : List Tok) (s : Bytes) : List Tok := ts.filter (fun t => t.tok != s)

inductive Op where
  /-- cmdNonce; `n` is the random nonce the server drew -/
  | nonce (c : Nat) (n : Bytes)
  /-- cmdAuth with the client's string `s` -/
  | auth (c : Nat) (s : Bytes)
  /-- cmdToken; `t` is the random token the server drew (ignored when refused) -/
  | token (c : Nat) (t : Bytes)
  /-- any other command, by table index; `tn0`: its transaction number argument is 0 -/
  | cmd (c : Nat) (idx : Nat) (tn0 : Bool)
  /-- one tick of `background()`: expireTokens, expireNonces -/
  | expire

def expireToks (ts : List Tok) : List Tok :=
  (ts.filter (fun t => !t.old)).map (fun t => { t with old := true })

def expireConn (k : Conn) : Conn :=
  if k.nonceOld then { k with nonce := [], nonceOld := false }
  else if k.nonce != [] then { k with nonceOld := true }
  else k

def step (cfg : Cfg) (H : Bytes → Bytes) (st : St) : Op → St × String
  | .nonce c n =>
    let k := st.conns c
    (st.setConn c { k with nonce := n, nonceOld := false }, "ok")
  | .auth c s =>
    let k := st.conns c
    if k.authed then (st, "!already")
    else
      let k' := { k with nonce := [], nonceOld := false }
      if authUser H cfg.rejectEmpty st.users s k.nonce then
        (st.setConn c { k' with authed := true }, "t")
      else if hasTok st.tokens s then
        ({ st.setConn c { k' with authed := true } with tokens := delTok st.tokens s }, "t")
      else (st.setConn c k', "f")
  | .token c t =>
    let k := st.conns c
    match findCmd cfg.cmds "cmdToken" with
    | none => (st, "!refused")
    | some cmd =>
      if cmdRefused cfg.unauth k.authed false k.hs cmd then (st, "!refused")
      else ({ st with tokens := ⟨t, false, k.authed⟩ :: delTok st.tokens t }, "ok")
  | .cmd c idx tn0 =>
    let k := st.conns c
    match cfg.cmds[idx]? with
    | none => (st, "closed")      -- invalid command: the server closes the connection
    | some cmd =>
      if cmd.name = "cmdAuth" ∨ cmd.name = "cmdNonce" ∨ cmd.name = "cmdToken" then (st, "-")
      else if k.authed then (st, "-")   -- authenticated connections are C40's subject
      else
        (st.setConn c { k with hs := cmdHs cfg.unauth false tn0 k.hs cmd },
         cmdClass cfg.unauth false tn0 k.hs cmd)
  | .expire =>
    ({ st with tokens := expireToks st.tokens, conns := fun i => expireConn (st.conns i) }, "ok")

def run (cfg : Cfg) (H : Bytes → Bytes) (st : St) (ops : List Op) : St :=
  ops.foldl (fun s o => (step cfg H s o).1) st

/-- a server that has users, nobody connected has authenticated, no tokens issued -/
def init (users : List (Bytes × Bytes)) : St :=
  { users := users, conns := fun _ => Conn.fresh false, tokens := [] }

end Gsu.Srv
