/-
M-CONC instance 3 (C34): timestamps.

Server (`db19/timestamp.go`): the package variable `timestamp` under `tsLock`; `Timestamp()`
returns it and advances it; the `ticker` moves it forward to the wall clock.
Clients (`core/thread.go`, one per process: `tsLast`, `tsCount`, `tsLimit` under its own `tsLock`):
`Thread.Timestamp` hands out from its batch (fast path: `AddMs(1)` in batch mode, extra byte
otherwise) or fetches from the server; `tsExpire` forces the next call to fetch.
Every operation runs under a mutex, so the interleavings of any number of clients, direct server
callers and the ticker are exactly the sequences of the operations below.

Times are milliseconds from an arbitrary whole-second origin (`ms % 1000 = Millisecond()`);
a stamp is `(ms, extra)` — `SuDate` is `(ms, 0)`, `SuTimestamp{d, extra}` is `(ms, extra)`;
`slt` is `CompareSuTimestamp`. Constants are regenerated (`Gsu.Gen.Ts`). Core-only: linked
into `drv_c34`.
-/
import Gsu.Gen.Ts
namespace Gsu.Ts
open Gsu.Gen.Ts

abbrev Stamp := Nat × Nat

/-- `CompareSuTimestamp(a, b) < 0` -/
def slt (a b : Stamp) : Prop := a.1 < b.1 ∨ (a.1 = b.1 ∧ a.2 < b.2)

instance (a b : Stamp) : Decidable (slt a b) := by unfold slt; infer_instance

/-- mirror of `SuDate.AddMs` as it is: the fallback adds ONE millisecond whatever `k` is -/
def addMs (t k : Nat) : Nat := if t % 1000 + k < 1000 then t + k else t + 1

/-- client process state: `tsLast`, `tsCount`, `tsLimit` -/
structure Client where
  last : Nat
  count : Nat
  limit : Nat
  deriving Repr, DecidableEq

structure State where
  ts : Nat                 -- the server's `timestamp`
  clients : List Client
  deriving Repr

/-- how `db19.Timestamp` advances `timestamp` -/
def bump (ts : Nat) : Nat :=
  if ts % 1000 < srvThreshold then addMs ts srvBumpLow else addMs ts srvBumpHigh

inductive Op where
  | tick (t : Nat)        -- ticker critical section with `t = Now().WithoutMs()`
  | server                -- a direct call of `db19.Timestamp()` (server code, or a client without batching)
  | client (i : Nat)      -- `Thread.Timestamp()` in client process `i`
  | expire (i : Nat)      -- the body of `tsExpire` in client process `i`
  deriving Repr

/-- who received a stamp: `none` = a direct server caller, `some i` = client process `i` -/
abbrev Caller := Option Nat

def step (s : State) : Op → State × Option (Caller × Stamp)
  | .tick t => (if t > s.ts then { s with ts := t } else s, none)
  | .server => ({ s with ts := bump s.ts }, some (none, (s.ts, 0)))
  | .client i =>
    match s.clients[i]? with
    | none => (s, none)
    | some c =>
      let count := c.count + 1                       -- tsCount++
      if count < c.limit then
        if c.limit = tsInitialBatch then              -- batch mode: tsLast = tsLast.AddMs(1)
          let last := addMs c.last fastInc
          ({ s with clients := s.clients.set i { c with last := last, count := count } }, some (some i, (last, 0)))
        else                                          -- SuTimestamp{tsLast, uint8(tsCount)}
          ({ s with clients := s.clients.set i { c with count := count } }, some (some i, (c.last, count % 256)))
      else                                            -- tsLast = th.Dbms().Timestamp()
        let last := s.ts
        let limit := if last % 1000 < clientThreshold then clientBatch else extraLimit
        ({ ts := bump s.ts, clients := s.clients.set i ⟨last, 0, limit⟩ }, some (some i, (last, 0)))
  | .expire i =>
    match s.clients[i]? with
    | none => (s, none)
    | some c => ({ s with clients := s.clients.set i { c with count := c.limit + 1 } }, none)

/-- initial state: the server at any millisecond, `n` client processes that have fetched nothing -/
def init (ts0 n : Nat) : State := ⟨ts0, List.replicate n ⟨0, 0, 0⟩⟩

/-- run a schedule; the log is newest first -/
def run (s : State) (log : List (Caller × Stamp)) : List Op → State × List (Caller × Stamp)
  | [] => (s, log)
  | op :: ops =>
    match step s op with
    | (s', none) => run s' log ops
    | (s', some e) => run s' (e :: log) ops

end Gsu.Ts
