/-
C06 — Every index always agrees with its table.

"In every state any transaction can see, each index of a table contains exactly one entry per
row, under that row's key, and nothing else, so every index yields the same set of rows. This
holds while transaction buffers are merged and persisted in the background."

Model: Gsu/Model/Db.lean (what `drv_c06` executes). `Info.rows` is the logical table;
`keymap i rows` is the index that table should have on index `i`; `IAgree ti` says every
overlay of `ti` *means* exactly that (`ov.sem k = some (keymap i rows k)` for every key), and
`lookup_returns_sem` says the code's Lookup returns the meaning.

Global invariant (Gsu/Proofs/DbInv1–9.lean): `DbInv : State → Prop` — every table `TblInv`
(IAgree, LayersOK, DeltasOK, unique offsets and keys, exact row count), the pending merge /
persist result is the one of the current layers, a pending build is the one of the current rows,
every transaction's view = snapshot ⊕ own writes (`TVInv`) — is kept by EVERY `Op` of `step`
(`invariant_step`), so `index_agrees` / `index_agrees_tran` hold in all reachable states.
`OpsOK` (the hypotheses on a history): a table has ≥ 1 index; a written row carries one key per
index of its table; an index is built only if it is a key of the rows (in the Go code: Ixspec.Key
computes the keys, every table has a key, creating a unique index over duplicates fails).
-/
import Gsu.Proofs.DbInv9
import Gsu.Gen.Dbphys
namespace Gsu.Props.C06
open Gsu.Db

/-- what a transaction reads from an agreeing table is the table: Lookup of any key returns the
offset of the row with that key, or nothing -/
theorem lookup_returns_sem (ti : Info) (h : IAgree ti) (i : Nat) (ov : Overlay)
    (hi : ti.idx[i]? = some ov) (k : Key) : ov.lookup k = keymap i ti.rows k :=
  lookup_of_sem ov k _ (h i ov hi k)

/-- corollary: all indexes yield the same rows — index `i` finds a row under its key on `i` iff
index `j` finds it under its key on `j` (both find exactly the rows of the table) -/
theorem all_indexes_same_rows (ti : Info) (h : IAgree ti) (i j : Nat) (ovi ovj : Overlay)
    (hi : ti.idx[i]? = some ovi) (hj : ti.idx[j]? = some ovj) (r : Row) :
    (ovi.lookup (r.key i) = keymap i ti.rows (r.key i)) ∧ (ovj.lookup (r.key j) = keymap j ti.rows (r.key j)) :=
  ⟨lookup_returns_sem ti h i ovi hi _, lookup_returns_sem ti h j ovj hj _⟩

/-- index_agrees, background merge (any commits between compute and apply) -/
theorem index_agrees_merge (snap latest : Info) (n : Nat)
    (hext : Extends snap latest) (hn : ∀ ov ∈ snap.idx, n + 1 ≤ ov.layers.length)
    (h : IAgree latest) : IAgree (latest.applyMerge n (snap.mergeCompute n)) :=
  iagree_applyMerge snap latest n hext hn h

/-- index_agrees, background persist (any commits between compute and apply) -/
theorem index_agrees_persist (snap latest : Info)
    (hext : Extends snap latest) (hne : ∀ ov ∈ snap.idx, ov.layers ≠ [])
    (h : IAgree latest) : IAgree (latest.applyPersist snap.persistCompute) :=
  iagree_applyPersist snap latest hext hne h

/-- index_agrees, reopen: what ReadMeta rebuilds (btree + one empty layer) means the same as the
overlay for every key that no unsaved layer mentions -/
theorem index_agrees_reopen (ov : Overlay) (k : Key) (hl : ∀ l ∈ ov.layers, l.get k = none) :
    (overlayForN ov.bt 1).sem k = ov.sem k :=
  sem_disk ov k hl

/-- index_agrees, commit, key by key: after LayeredOnto every key the transaction did not write
keeps the meaning it has in the latest state and every key it wrote gets the meaning the
transaction saw in its own view, given the latest and snapshot lookups of the written keys agree
(`indep`). (Was `index_agrees_commit_partial`; the row-level step is `index_agrees_commit`.) -/
theorem index_agrees_commit_key (L S : Overlay) (m : Layer) (k : Key) (vL vS vT : KS)
    (hL : L.sem k = some vL) (hS : S.sem k = some vS) (hT : (S.withMut m).sem k = some vT)
    (hind : m.get k ≠ none → L.lookup k = S.lookup k) :
    (L.withMut m).sem k = some (if m.get k = none then vL else vT) :=
  sem_commit L S m k vL vS vT hL hS hT hind

/-- the transaction-view invariant is kept by Output, Delete and Update: what an open transaction
reads through every index (snapshot overlay + its own layer) is exactly its snapshot's rows
minus its deletes plus its adds, one entry per visible row (`TVInv`, Gsu/Proofs/DbInv2.lean) -/
theorem tran_view_kept (sti : Info) (d d' : TDif) (off : Off) (row : Row) (hT : TblInv sti)
    (h : TVInv sti d) (hrow : row.keys.length = sti.idx.length) :
    (tOut sti d row = .ok d' → TVInv sti d') ∧ (tDel sti d off = .ok d' → TVInv sti d') ∧
    (tUpd sti d off row = .ok d' → TVInv sti d') :=
  ⟨tvinv_out row h hrow, tvinv_del off hT h, tvinv_upd off row hT h hrow⟩

/-- index_agrees, commit — FULL (row level). LayeredOnto of a transaction that satisfies the view
invariant and passes the independence guard, onto a latest state any number of commits newer
than its snapshot, keeps the whole table invariant `TblInv`: every index means exactly `keymap`
of the NEW rows (latest rows − deletes + adds), offsets and keys stay unique, layers = deltas,
the delta sums and the row count stay exact. -/
theorem index_agrees_commit (sti lti : Info) (d : TDif) (hL : TblInv lti) (hS : TblInv sti)
    (hT : TVInv sti d) (hind : indep d sti lti = true) :
    TblInv (lay d lti) ∧ IAgree (lay d lti) ∧
    (lay d lti).rows = lti.rows.filter (fun r => !d.dels.contains r.off) ++ d.adds :=
  ⟨tblinv_lay hL hS hT hind, (tblinv_lay hL hS hT hind).agree, rfl⟩

/-- THE invariant step: every operation of `Gsu.Db.step` (create, begin, Output/Delete/Update,
abort, commit incl. the independence guard, merge compute/apply, persist compute/apply, index
build compute/apply) keeps the global invariant `DbInv` (Gsu/Proofs/DbInv5.lean: every table
`TblInv`; pending merge/persist results are those of the current layers; a pending build was
computed from the current rows of its exclusive table; every transaction's view = snapshot ⊕ own
writes). `OpOK`: a table has ≥ 1 index, a written row carries one key per index, the index being
built is a key of the rows it is built from. -/
theorem invariant_step (s : State) (op : Op) (h : DbInv s) (hok : OpOK s op) : DbInv (step s op).1 :=
  dbinv_step h op hok

/-- index_agrees — FULL, all reachable states: after ANY history of well-formed operations, every
index of every table of the visible state holds exactly one entry per row, under that row's key,
and nothing else (Lookup of any key = `keymap` of the rows; every row is found under its key;
everything found is a row) … -/
theorem index_agrees (ops : List Op) (hok : OpsOK State.init ops) (j : Nat) (ti : Info)
    (hj : (run State.init ops).mt[j]? = some ti) (i : Nat) (ov : Overlay) (hi : ti.idx[i]? = some ov) :
    IAgree ti ∧ (∀ k, ov.lookup k = keymap i ti.rows k) ∧
    (∀ r ∈ ti.rows, ov.lookup (r.key i) = some r.off) ∧
    (∀ k o, ov.lookup k = some o → ∃ r ∈ ti.rows, r.key i = k ∧ r.off = o) :=
  ⟨((dbinv_reachable ops hok).tbl j ti hj).agree,
   tbl_index_exact ((dbinv_reachable ops hok).tbl j ti hj) i ov hi⟩

/-- … and so does every index as any transaction (open or not) sees it through its own overlays:
exactly the rows of its view (snapshot − own deletes + own adds), in every reachable state,
whatever merges, persists, builds and other commits ran in between. -/
theorem index_agrees_tran (ops : List Op) (hok : OpsOK State.init ops) (t : Tran)
    (ht : t ∈ (run State.init ops).trans) (j : Nat) (sti : Info) (d : TDif)
    (hs : t.snap[j]? = some sti) (hd : t.dif[j]? = some d) (i : Nat) (ov : Overlay)
    (hi : (d.ovs sti)[i]? = some ov) :
    (∀ k, ov.lookup k = keymap i (d.view sti.rows) k) ∧
    (∀ r ∈ d.view sti.rows, ov.lookup (r.key i) = some r.off) ∧
    (∀ k o, ov.lookup k = some o → ∃ r ∈ d.view sti.rows, r.key i = k ∧ r.off = o) :=
  tran_index_exact ((dbinv_reachable ops hok).tran t ht j sti d hs hd).2 i ov hi

/-- all indexes of a reachable table yield the same rows: a row found through index `i` under its
key is found through index `i'` under its key, with the same offset -/
theorem all_indexes_same_rows_reachable (ops : List Op) (hok : OpsOK State.init ops) (j : Nat)
    (ti : Info) (hj : (run State.init ops).mt[j]? = some ti) (i i' : Nat) (ov ov' : Overlay)
    (hi : ti.idx[i]? = some ov) (hi' : ti.idx[i']? = some ov') (k : Key) (o : Off)
    (h : ov.lookup k = some o) : ∃ r ∈ ti.rows, r.key i = k ∧ r.off = o ∧ ov'.lookup (r.key i') = some o := by
  have hT := (dbinv_reachable ops hok).tbl j ti hj
  obtain ⟨r, hr, hk, ho⟩ := (tbl_index_exact hT i ov hi).2.2 k o h
  exact ⟨r, hr, hk, ho, ho ▸ (tbl_index_exact hT i' ov' hi').2.1 r hr⟩

/-- index creation: the old indexes are untouched, the new overlay means exactly its btree, and —
when the layer count is taken from the latest state — Info.Check's "layers = deltas" holds -/
theorem index_build (ti : Info) (b : Build) (n i : Nat) (ov : Overlay) (k : Key)
    (h : ti.idx[i]? = some ov) (hl : LayersOK ti) :
    (ti.applyBuild b n).idx[i]? = some ov ∧ (overlayForN b.bt n).sem k = some (b.bt.get k) ∧
    LayersOK (ti.applyBuild b (buildLayersWith true b ti)) :=
  ⟨applyBuild_idx_old ti b n i ov h, sem_overlayForN b.bt n k,
   layersOK_applyBuild ti b hl (by intro e; simp [e] at h)⟩

/-- finding 15 as a counter-witness: with the layer count of the *snapshot* (the code before
fixes/15-ensure-layers.patch) one merge between buildIndexes and the final UpdateState leaves the
new index with one layer more than the table has deltas. -/
theorem index_build_stale_counter :
    ∃ (ti : Info) (b : Build), LayersOK ti ∧ ti.idx ≠ [] ∧
      ¬ LayersOK (ti.applyBuild b (buildLayersWith false b ti)) := by
  refine ⟨⟨[], [overlayForN FMap.empty 1], 0, 0, 0, 0, [⟨0, 0⟩]⟩, ⟨0, 2, false, FMap.empty, []⟩, ?_, by simp, ?_⟩
  · intro ov h; simp at h; subst h; rfl
  · intro h
    have := h (overlayForN FMap.empty 2) (by simp [Info.applyBuild, buildLayersWith])
    simp [overlayForN, Info.applyBuild] at this

/-- (G) the code takes the layer count of a newly built index from the latest state: every call of
index.OverlayForN in database.go is inside the closure passed to UpdateState. (False for the code
before fixes/15-ensure-layers.patch — this theorem then fails to build and the suite exhibits the
failing schedule.) -/
theorem gen_layers_from_latest : Gsu.Gen.Dbphys.layersFromLatest = true := rfl

/-- persist skips a table only if NO index has unsaved changes in its base layer (with the test of
fixes/15b-persist-any-index-modified.patch): needed after an index build, when the new index has
rows in its btree that the older indexes still hold in their layers -/
theorem persist_skips_only_clean (ti : Info) (h : ti.modifiedWith true = false) :
    ∀ ov ∈ ti.idx, ∀ k, (ov.layers.headD FMap.empty).get k = none :=
  clean_of_not_modified ti h

/-- counter-witness for the test `ti.Indexes[0].Modified()`: index 0 has an empty base layer (an add
and a delete cancelled there) while a later built index, which has the row in its btree, holds
the delete — the table is skipped and the delete is never saved -/
theorem persist_first_index_only_counter :
    ∃ ti : Info, ti.modifiedWith false = false ∧ ∃ ov ∈ ti.idx, ov.modified = true :=
  ⟨⟨[], [⟨FMap.empty, [FMap.empty]⟩, ⟨FMap.empty, [Layer.ins FMap.empty [1] (.del 7)]⟩], 0, 0, 0, 0, [⟨0, 0⟩]⟩,
   by decide, ⟨_, List.mem_cons_of_mem _ (List.mem_cons_self ..), by decide⟩⟩

/-- (G) Meta.Persist decides "unsaved changes" by looking at every index of the table. (False for
the code before fixes/15b: `ti.Indexes[0].Modified()`.) -/
theorem gen_persist_checks_all_indexes : Gsu.Gen.Dbphys.persistChecksAllIndexes = true := rfl

/-- (G) the slice arithmetic of WithMerged / WithSaved is the one of the model (drop (n+1), drop 1) -/
theorem gen_overlay_slices :
    (∀ len n : Int, Gsu.Gen.Dbphys.withMergedMake len n = len - n ∧ Gsu.Gen.Dbphys.withMergedLo0 len n = 1 + n ∧
      Gsu.Gen.Dbphys.withMergedHi0 len n = len ∧ Gsu.Gen.Dbphys.withSavedMake len n = len ∧
      Gsu.Gen.Dbphys.withSavedLo0 len n = 1 ∧ Gsu.Gen.Dbphys.withSavedHi0 len n = len) ∧
    Gsu.Gen.Dbphys.withMergedSlices = 1 ∧ Gsu.Gen.Dbphys.withSavedSlices = 1 :=
  ⟨fun _ _ => ⟨rfl, rfl, rfl, rfl, rfl, rfl⟩, rfl, rfl⟩

-- non-vacuity: an agreeing table with a row, one committed unmerged layer
example : IAgree ⟨[⟨20, 5, [[1]]⟩], [⟨FMap.empty, [FMap.empty, Layer.ins FMap.empty [1] (.add 20)]⟩],
    1, 5, 0, 0, [⟨0, 0⟩, ⟨1, 5⟩]⟩ := by
  intro i ov hi k
  cases i with
  | zero =>
    simp only [List.getElem?_cons_zero, Option.some.injEq] at hi
    subst hi
    have e : chgs [FMap.empty, Layer.ins FMap.empty [1] (.add 20)] k =
        (if k = [1] then [Chg.add 20] else []) := by
      rw [chgs_cons, chgs_cons, FMap.get_empty, ins_get, FMap.get_empty]
      by_cases hk : k = [1] <;> simp [hk, chgs, comb, FMap.get_empty]
    simp only [Overlay.sem, e, FMap.get_empty, keymap, Row.key, List.find?_cons, List.find?_nil,
      List.getD_cons_zero]
    by_cases hk : k = [1]
    · subst hk; decide
    · have : ([1] == k) = false := by simpa using fun e => hk e.symm
      simp [hk, this, appAll]
  | succ i => simp at hi

/-- the hypotheses `OpsOK` / fresh offsets are CHECKED on every replayed history: the drivers of
C06 / C03 / C16 run `driveStepOK` (Gsu/Model/DbOK.lean), which answers `!hyp-opok` / `!hyp-fresh`
— a disagreement with any implementation output — for an operation that violates them; otherwise
the operation satisfies `OpOK` in the driver's current state, its record offset is new, and the
driver did exactly `step`. -/
theorem hypotheses_checked_by_driver (ds : DState) (l : List String) (op : Op) (h : parseOp l = some op)
    (h1 : (driveStepOK ds l).2 ≠ "!hyp-opok") (h2 : (driveStepOK ds l).2 ≠ "!hyp-fresh") :
    OpOK ds.s op ∧ (∀ row, okRow ds.s op = some row → row.off ∉ ds.used) ∧
    driveStepOK ds l = (⟨(step ds.s op).1, usedAfter ds.used ds.s op⟩, (step ds.s op).2) :=
  driveStepOK_checked ds l op h h1 h2

/-- a concrete history for the non-vacuity examples: two indexes; commits; an Update that keeps
the key on index 0 and changes it on index 1; a merge computed before and applied after a commit;
a persist computed before and applied after a commit (by a transaction whose snapshot is older
than both); an index build on the populated table; a commit onto the new index -/
def hist : List Op := [.table 2,
  .begin_ 0, .out 0 0 ⟨20, 5, [[1], [7]]⟩, .out 0 0 ⟨30, 6, [[2], [8]]⟩, .commit 0,
  .begin_ 1, .begin_ 2,
  .upd 1 0 20 ⟨40, 9, [[1], [9]]⟩,
  .mergeC 0 1, .commit 1, .mergeA,
  .del 2 0 30,
  .persistC, .commit 2, .persistA,
  .buildC 0 [(40, [3])], .buildA,
  .begin_ 3, .out 3 0 ⟨50, 4, [[4], [4], [4]]⟩, .commit 3]

def outs (s : State) : List Op → List String
  | [] => []
  | op :: ops => (step s op).2 :: outs (step s op).1 ops

-- non-vacuity of `index_agrees`: the history is well-formed, every one of its 20 steps succeeds
-- (all three commits included), and it ends with two rows on three indexes
example : OpsOK State.init hist := opsOKb_sound _ _ (by decide)
example : outs State.init hist = List.replicate 20 "ok" := by decide
example : ((run State.init hist).mt.map fun ti => (ti.rows.map (·.off), ti.idx.length)) = [([40, 50], 3)] := by
  decide
-- … so the theorem applies to it: e.g. index 1 finds row 40 under its key [9]
example : ∃ ti ov, (run State.init hist).mt[0]? = some ti ∧ ti.idx[1]? = some ov ∧ ov.lookup [9] = some 40 := by
  obtain ⟨ti, hti⟩ : ∃ ti, (run State.init hist).mt[0]? = some ti := ⟨_, rfl⟩
  obtain ⟨ov, hov⟩ : ∃ ov, ti.idx[1]? = some ov := by
    have : (run State.init hist).mt[0]? = some ti := hti
    cases hti; exact ⟨_, rfl⟩
  have h := (index_agrees hist (opsOKb_sound _ _ (by decide)) 0 ti hti 1 ov hov).2.1 [9]
  refine ⟨ti, ov, hti, hov, ?_⟩
  rw [h]; cases hti; decide

end Gsu.Props.C06
