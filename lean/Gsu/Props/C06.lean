/-
C06 — Every index always agrees with its table.

"In every state any transaction can see, each index of a table contains exactly one entry per
row, under that row's key, and nothing else, so every index yields the same set of rows. This
holds while transaction buffers are merged and persisted in the background."

Model: Gsu/Model/Db.lean (what `drv_c06` executes). `Info.rows` is the logical table;
`keymap i rows` is the index that table should have on index `i`; `IAgree ti` says every
overlay of `ti` *means* exactly that (`ov.sem k = some (keymap i rows k)` for every key), and
`lookup_returns_sem` says the code's Lookup returns the meaning.
-/
import Gsu.Proofs.DbStep
import Gsu.Gen.Dbphys
namespace Gsu.Props.C06
open Gsu.Db

/-- what a transaction reads from an agreeing table is the table: Lookup of any key returns the
offset of the row with that key, or nothing -/
theorem lookup_returns_sem (ti : Info) (h : IAgree ti) (i : Nat) (ov : Overlay)
    (hi : ti.idx[i]? = some ov) (k : Key) : ov.lookup k = keymap i ti.rows k :=
  lookup_of_sem ov k _ (h i ov hi k)

/-- corollary: all indexes yield the same rows — index `i` finds a row under its key on `i` iff
index `j` finds it under its key on `j` (both find exactly the rows of the table) -/
theorem all_indexes_same_rows (ti : Info) (h : IAgree ti) (i j : Nat) (ovi ovj : Overlay)
    (hi : ti.idx[i]? = some ovi) (hj : ti.idx[j]? = some ovj) (r : Row) :
    (ovi.lookup (r.key i) = keymap i ti.rows (r.key i)) ∧ (ovj.lookup (r.key j) = keymap j ti.rows (r.key j)) :=
  ⟨lookup_returns_sem ti h i ovi hi _, lookup_returns_sem ti h j ovj hj _⟩

/-- index_agrees, background merge (any commits between compute and apply) -/
theorem index_agrees_merge (snap latest : Info) (n : Nat)
    (hext : Extends snap latest) (hn : ∀ ov ∈ snap.idx, n + 1 ≤ ov.layers.length)
    (h : IAgree latest) : IAgree (latest.applyMerge n (snap.mergeCompute n)) :=
  iagree_applyMerge snap latest n hext hn h

/-- index_agrees, background persist (any commits between compute and apply) -/
theorem index_agrees_persist (snap latest : Info)
    (hext : Extends snap latest) (hne : ∀ ov ∈ snap.idx, ov.layers ≠ [])
    (h : IAgree latest) : IAgree (latest.applyPersist snap.persistCompute) :=
  iagree_applyPersist snap latest hext hne h

/-- index_agrees, reopen: what ReadMeta rebuilds (btree + one empty layer) means the same as the
overlay for every key that no unsaved layer mentions -/
theorem index_agrees_reopen (ov : Overlay) (k : Key) (hl : ∀ l ∈ ov.layers, l.get k = none) :
    (overlayForN ov.bt 1).sem k = ov.sem k :=
  sem_disk ov k hl

/-- index_agrees, commit — PARTIAL (key level). Full statement: `IAgree lti → TVInv sti d →
indep d sti lti → IAgree (lay d lti)` where the rows of `lay d lti` are the latest rows minus the
transaction's deletes plus its adds. Proved: after LayeredOnto every key the transaction did not
write keeps the meaning it has in the latest state and every key it wrote gets the meaning the
transaction saw in its own view, given the latest and snapshot lookups of the written keys agree
(`indep`). Missing: the row-level step from "meaning the transaction saw" to `keymap` of the new
rows, i.e. the transaction-view invariant maintained by tOut/tDel/tUpd (one entry per visible
row); that part is covered by the correspondence and the direct oracles only. -/
theorem index_agrees_commit_partial (L S : Overlay) (m : Layer) (k : Key) (vL vS vT : KS)
    (hL : L.sem k = some vL) (hS : S.sem k = some vS) (hT : (S.withMut m).sem k = some vT)
    (hind : m.get k ≠ none → L.lookup k = S.lookup k) :
    (L.withMut m).sem k = some (if m.get k = none then vL else vT) :=
  sem_commit L S m k vL vS vT hL hS hT hind

/-- index creation: the old indexes are untouched, the new overlay means exactly its btree, and —
when the layer count is taken from the latest state — Info.Check's "layers = deltas" holds -/
theorem index_build (ti : Info) (b : Build) (n i : Nat) (ov : Overlay) (k : Key)
    (h : ti.idx[i]? = some ov) (hl : LayersOK ti) :
    (ti.applyBuild b n).idx[i]? = some ov ∧ (overlayForN b.bt n).sem k = some (b.bt.get k) ∧
    LayersOK (ti.applyBuild b (buildLayersWith true b ti)) :=
  ⟨applyBuild_idx_old ti b n i ov h, sem_overlayForN b.bt n k,
   layersOK_applyBuild ti b hl (by intro e; simp [e] at h)⟩

/-- finding 15 as a counter-witness: with the layer count of the *snapshot* (the code before
fixes/15-ensure-layers.patch) one merge between buildIndexes and the final UpdateState leaves the
new index with one layer more than the table has deltas. -/
theorem index_build_stale_counter :
    ∃ (ti : Info) (b : Build), LayersOK ti ∧ ti.idx ≠ [] ∧
      ¬ LayersOK (ti.applyBuild b (buildLayersWith false b ti)) := by
  refine ⟨⟨[], [overlayForN FMap.empty 1], 0, 0, 0, 0, [⟨0, 0⟩]⟩, ⟨0, 2, false, FMap.empty, []⟩, ?_, by simp, ?_⟩
  · intro ov h; simp at h; subst h; rfl
  · intro h
    have := h (overlayForN FMap.empty 2) (by simp [Info.applyBuild, buildLayersWith])
    simp [overlayForN, Info.applyBuild] at this

/-- (G) the code takes the layer count of a newly built index from the latest state: every call of
index.OverlayForN in database.go is inside the closure passed to UpdateState. (False for the code
before fixes/15-ensure-layers.patch — this theorem then fails to build and the suite exhibits the
failing schedule.) -/
theorem gen_layers_from_latest : Gsu.Gen.Dbphys.layersFromLatest = true := rfl

/-- persist skips a table only if NO index has unsaved changes in its base layer (with the test of
fixes/15b-persist-any-index-modified.patch): needed after an index build, when the new index has
rows in its btree that the older indexes still hold in their layers -/
theorem persist_skips_only_clean (ti : Info) (h : ti.modifiedWith true = false) :
    ∀ ov ∈ ti.idx, ∀ k, (ov.layers.headD FMap.empty).get k = none :=
  clean_of_not_modified ti h

/-- counter-witness for the test `ti.Indexes[0].Modified()`: index 0 has an empty base layer (an add
and a delete cancelled there) while a later built index, which has the row in its btree, holds
the delete — the table is skipped and the delete is never saved -/
theorem persist_first_index_only_counter :
    ∃ ti : Info, ti.modifiedWith false = false ∧ ∃ ov ∈ ti.idx, ov.modified = true :=
  ⟨⟨[], [⟨FMap.empty, [FMap.empty]⟩, ⟨FMap.empty, [Layer.ins FMap.empty [1] (.del 7)]⟩], 0, 0, 0, 0, [⟨0, 0⟩]⟩,
   by decide, ⟨_, List.mem_cons_of_mem _ (List.mem_cons_self ..), by decide⟩⟩

/-- (G) Meta.Persist decides "unsaved changes" by looking at every index of the table. (False for
the code before fixes/15b: `ti.Indexes[0].Modified()`.) -/
theorem gen_persist_checks_all_indexes : Gsu.Gen.Dbphys.persistChecksAllIndexes = true := rfl

/-- (G) the slice arithmetic of WithMerged / WithSaved is the one of the model (drop (n+1), drop 1) -/
theorem gen_overlay_slices :
    (∀ len n : Int, Gsu.Gen.Dbphys.withMergedMake len n = len - n ∧ Gsu.Gen.Dbphys.withMergedLo0 len n = 1 + n ∧
      Gsu.Gen.Dbphys.withMergedHi0 len n = len ∧ Gsu.Gen.Dbphys.withSavedMake len n = len ∧
      Gsu.Gen.Dbphys.withSavedLo0 len n = 1 ∧ Gsu.Gen.Dbphys.withSavedHi0 len n = len) ∧
    Gsu.Gen.Dbphys.withMergedSlices = 1 ∧ Gsu.Gen.Dbphys.withSavedSlices = 1 :=
  ⟨fun _ _ => ⟨rfl, rfl, rfl, rfl, rfl, rfl⟩, rfl, rfl⟩

-- non-vacuity: an agreeing table with a row, one committed unmerged layer
example : IAgree ⟨[⟨20, 5, [[1]]⟩], [⟨FMap.empty, [FMap.empty, Layer.ins FMap.empty [1] (.add 20)]⟩],
    1, 5, 0, 0, [⟨0, 0⟩, ⟨1, 5⟩]⟩ := by
  intro i ov hi k
  cases i with
  | zero =>
    simp only [List.getElem?_cons_zero, Option.some.injEq] at hi
    subst hi
    have e : chgs [FMap.empty, Layer.ins FMap.empty [1] (.add 20)] k =
        (if k = [1] then [Chg.add 20] else []) := by
      rw [chgs_cons, chgs_cons, FMap.get_empty, ins_get, FMap.get_empty]
      by_cases hk : k = [1] <;> simp [hk, chgs, comb, FMap.get_empty]
    simp only [Overlay.sem, e, FMap.get_empty, keymap, Row.key, List.find?_cons, List.find?_nil,
      List.getD_cons_zero]
    by_cases hk : k = [1]
    · subst hk; decide
    · have : ([1] == k) = false := by simpa using fun e => hk e.symm
      simp [hk, this, appAll]
  | succ i => simp at hi

end Gsu.Props.C06
