/-
C03 — Commit is atomic and its outcome is reported truthfully.

"A transaction's changes become visible to later transactions all together and only if its
completion reports success; a transaction that is rolled back, aborted by a conflict, times out,
or whose completion reports failure leaves no visible change. Row counts and table sizes reported
by the database always equal the actual rows and bytes of the visible state."

Model: Gsu/Model/Db.lean; `step` is what `drv_c03` executes. `s.mt` is the state every later
transaction starts from.

`info_exact` (all reachable states) is a corollary of the global invariant `DbInv` + the size
invariant `SzInv` (Gsu/Proofs/DbInv1–9.lean), both kept by every `Op` of `step`. Hypotheses on
the history: `OpsOK` (see C06) and, for sizes, `(okOffs State.init ops).Nodup` — every record written gets
an offset no earlier record got (append-only store, C18).
-/
import Gsu.Proofs.DbInv9
import Gsu.Gen.Dbphys
namespace Gsu.Props.C03
open Gsu.Db

/-- commit_all_or_nothing, success: the completion reports "ok" only for a live transaction whose
writes are independent, and then the new state is LayeredOnto of *all* its buffers … -/
theorem commit_all (s : State) (id : Nat) (h : (step s (.commit id)).2 = "ok") :
    ∃ t, s.tran? id = some t ∧ t.ended = false ∧ indepAll t.dif t.snap s.mt = true ∧
      (step s (.commit id)).1.mt = layeredOnto t.dif s.mt :=
  commit_ok s id h

/-- … table by table: every touched table gets the transaction's layer on every index, its rows
and its deltas; every other table is untouched. -/
theorem commit_all_tables (ds : List TDif) (mt : Meta) (j : Nat) :
    (layeredOnto ds mt)[j]? = match mt[j]?, ds[j]? with
      | some ti, some d => some (if d.touched then lay d ti else ti)
      | some ti, none => some ti
      | none, _ => none :=
  layeredOnto_get ds mt j

/-- commit_all_or_nothing, failure: any other outcome (already aborted by a conflict / exclusive /
max age / write limit / explicit abort, or refused) leaves the visible state unchanged. -/
theorem commit_nothing (s : State) (id : Nat) (h : (step s (.commit id)).2 ≠ "ok") :
    (step s (.commit id)).1.mt = s.mt :=
  commit_fail s id h

/-- an abort, and every Output/Delete/Update of a still-open transaction (successful or not,
including the one that reaches the write limit), leave the visible state unchanged -/
theorem uncommitted_invisible (s : State) (id tbl : Nat) (row : Row) (off : Off) :
    (step s (.abort id)).1.mt = s.mt ∧ (step s (.out id tbl row)).1.mt = s.mt ∧
    (step s (.del id tbl off)).1.mt = s.mt ∧ (step s (.upd id tbl off row)).1.mt = s.mt :=
  ⟨abort_mt s id, tranWrite_mt s id tbl _, tranWrite_mt s id tbl _, tranWrite_mt s id tbl _⟩

/-- info_exact, the delta bookkeeping: `BtreeNrows + Σ deltas = Nrows` (and sizes) after
LayeredOnto against a later `latest`, after MergeUpdate.Apply1, after PersistUpdate.Apply1 and in
what a reopen reads. -/
theorem info_deltas (ti : Info) (d : TDif) (n : Nat) (res : List Layer) (bts : List Bt)
    (h : DeltasOK ti) :
    DeltasOK (lay d ti) ∧ DeltasOK (ti.applyMerge n res) ∧ DeltasOK (ti.applyPersist bts) ∧
    DeltasOK ti.disk :=
  ⟨deltasOK_lay d ti h, deltasOK_applyMerge ti n res h, deltasOK_applyPersist ti bts h,
   deltasOK_disk ti⟩

/-- merge and persist do not change the reported counts or the logical rows -/
theorem info_background (ti : Info) (n : Nat) (res : List Layer) (bts : List Bt) :
    (ti.applyMerge n res).nrows = ti.nrows ∧ (ti.applyMerge n res).size = ti.size ∧
    (ti.applyMerge n res).rows = ti.rows ∧
    (ti.applyPersist bts).nrows = ti.nrows ∧ (ti.applyPersist bts).size = ti.size ∧
    (ti.applyPersist bts).rows = ti.rows :=
  ⟨rfl, rfl, rfl, rfl, rfl, rfl⟩

/-- the commit adds exactly the transaction's deltas (`dn`, `ds`) to the counts and one delta to
the list (was `info_exact_partial`; the full statement is `info_exact` below) -/
theorem info_commit_deltas (d : TDif) (lti : Info) :
    (lay d lti).nrows = lti.nrows + d.dn ∧ (lay d lti).size = lti.size + d.ds ∧
    (lay d lti).deltas = lti.deltas ++ [⟨d.dn, d.ds⟩] :=
  ⟨rfl, rfl, rfl⟩

/-- what an open transaction itself reports (`sti.nrows + d.dn`, `sti.size + d.ds`) is the number
and the bytes of the rows it sees, given its snapshot's counts are exact -/
theorem info_exact_tran_view (sti : Info) (d : TDif) (h : TVInv sti d)
    (hn : sti.nrows = sti.rows.length) (hs : sti.size = rowsSize sti.rows) :
    sti.nrows + d.dn = (d.view sti.rows).length ∧ sti.size + d.ds = rowsSize (d.view sti.rows) :=
  ⟨hn ▸ h.cnt, hs ▸ h.sz⟩

/-- info_exact, one commit: LayeredOnto of a transaction that satisfies the view invariant and
passes the independence guard keeps `nrows = |rows|`, and — when the size of a row is the size of
the record at its offset (`RowsIn g`, what an append-only store gives) — `size = Σ row sizes`. -/
theorem info_exact_commit (sti lti : Info) (d : TDif) (hL : TblInv lti) (hS : TblInv sti)
    (hT : TVInv sti d) (hind : indep d sti lti = true) (g : Ghost)
    (hgL : RowsIn g lti.rows) (hgS : RowsIn g sti.rows) (hsz : lti.size = rowsSize lti.rows) :
    (lay d lti).nrows = (lay d lti).rows.length ∧ (lay d lti).size = rowsSize (lay d lti).rows :=
  ⟨(tblinv_lay hL hS hT hind).cnt, commit_size hL hS hT hind g hgL hgS hsz⟩

/-- info_exact, the row count — FULL, all reachable states, no further hypothesis: after any
history of well-formed operations every table reports `nrows = |rows|` and its delta bookkeeping
(`BtreeNrows + Σ deltas = Nrows`, sizes too) holds. -/
theorem info_count_exact (ops : List Op) (hok : OpsOK State.init ops) (j : Nat) (ti : Info)
    (hj : (run State.init ops).mt[j]? = some ti) :
    ti.nrows = ti.rows.length ∧ DeltasOK ti :=
  ⟨((dbinv_reachable ops hok).tbl j ti hj).cnt, ((dbinv_reachable ops hok).tbl j ti hj).deltas⟩

/-- info_exact — FULL, all reachable states: after any history of well-formed operations in which
every record a successful Output / Update adds gets an offset no earlier such record of the history got — what
the append-only store guarantees (C18) — every table of the visible state reports
`nrows = |rows|` and `size = Σ row sizes`. -/
theorem info_exact (ops : List Op) (hok : OpsOK State.init ops) (hfr : (okOffs State.init ops).Nodup)
    (j : Nat) (ti : Info) (hj : (run State.init ops).mt[j]? = some ti) :
    ti.nrows = ti.rows.length ∧ ti.size = rowsSize ti.rows :=
  info_exact_reachable ops hok hfr j ti hj

/-- … and so is what every transaction reports for every table it can see (what `info` shows
inside a transaction: snapshot counts + its own deltas) = the rows and bytes of its view -/
theorem info_exact_tran (ops : List Op) (hok : OpsOK State.init ops) (hfr : (okOffs State.init ops).Nodup)
    (t : Tran) (ht : t ∈ (run State.init ops).trans) (j : Nat) (sti : Info) (d : TDif)
    (hs : t.snap[j]? = some sti) (hd : t.dif[j]? = some d) :
    sti.nrows + d.dn = (d.view sti.rows).length ∧ sti.size + d.ds = rowsSize (d.view sti.rows) :=
  info_exact_tran_reachable ops hok hfr t ht j sti d hs hd

/-- the freshness hypothesis of `info_exact` is needed IN THE MODEL: if a history reuses the offset
of a deleted record for a record of another size (impossible in an append-only store), a
transaction whose snapshot still holds the old record can delete "offset 20" and subtract the
old size — the model's independence guard compares offsets only. (A property of the model's
abstraction "a row is its offset", not of the code: offsets are never reused, C18.) -/
theorem info_size_offset_reuse_counter :
    ∃ ops : List Op, OpsOK State.init ops ∧ ¬ (okOffs State.init ops).Nodup ∧
      ((run State.init ops).mt.map fun ti => (ti.size, rowsSize ti.rows)) = [(2, 0)] :=
  ⟨[.table 1, .begin_ 0, .out 0 0 ⟨20, 5, [[1]]⟩, .commit 0, .begin_ 1, .begin_ 2, .del 2 0 20, .commit 2,
    .begin_ 3, .out 3 0 ⟨20, 7, [[1]]⟩, .commit 3, .del 1 0 20, .commit 1],
   opsOKb_sound _ _ (by decide), by decide, by decide⟩

/-- the hypothesis "a table has a key" (`OpOK` of `table n`: n ≥ 1) is needed in the model: with no
index the independence guard has nothing to compare and two transactions delete the same row. (In
the code every table has a key.) -/
theorem info_keyless_table_counter :
    ∃ ops : List Op, ((run State.init ops).mt.map fun ti => (ti.nrows, ti.rows.length)) = [(-1, 0)] :=
  ⟨[.table 0, .begin_ 0, .out 0 0 ⟨20, 5, []⟩, .commit 0, .begin_ 1, .begin_ 2, .del 1 0 20, .del 2 0 20,
    .commit 1, .commit 2], by decide⟩

/-- (G) the write limit and its comparison are the ones in tran.go; the slice arithmetic of
MergeUpdate.Apply1 / WithMerged / WithSaved is the one the model uses (take/drop at 1+n). -/
theorem gen_write_limit_and_slices :
    Gsu.Gen.Dbphys.writeMax = 10000 ∧ Gsu.Gen.Dbphys.writeLimitOp = ">=" ∧
    (∀ len n : Int, Gsu.Gen.Dbphys.mergeApply1Lo0 len n = 0 ∧ Gsu.Gen.Dbphys.mergeApply1Hi0 len n = 1 + n ∧
      Gsu.Gen.Dbphys.mergeApply1Make len n = len - n ∧ Gsu.Gen.Dbphys.mergeApply1Lo1 len n = 1 + n ∧
      Gsu.Gen.Dbphys.mergeApply1Hi1 len n = len) ∧
    Gsu.Gen.Dbphys.mergeApply1Slices = 2 := by
  refine ⟨rfl, rfl, fun len n => ⟨rfl, rfl, rfl, rfl, rfl⟩, rfl⟩

-- non-vacuity: a real commit that reports ok
example : (step (run State.init [.table 1, .begin_ 0, .out 0 0 ⟨20, 5, [[1]]⟩]) (.commit 0)).2 = "ok" := by
  decide

/-- a concrete history: two indexes, three commits (one of them between the compute and the apply
of a merge, one between the compute and the apply of a persist, by a transaction with an older
snapshot), Update, Delete, an index build on the populated table and a commit onto it -/
def hist : List Op := [.table 2,
  .begin_ 0, .out 0 0 ⟨20, 5, [[1], [7]]⟩, .out 0 0 ⟨30, 6, [[2], [8]]⟩, .commit 0,
  .begin_ 1, .begin_ 2,
  .upd 1 0 20 ⟨40, 9, [[1], [9]]⟩,
  .mergeC 0 1, .commit 1, .mergeA,
  .del 2 0 30,
  .persistC, .commit 2, .persistA,
  .buildC 0 [(40, [3])], .buildA,
  .begin_ 3, .out 3 0 ⟨50, 4, [[4], [4], [4]]⟩, .commit 3]

-- non-vacuity of `info_exact`: the hypotheses hold for this history, all its steps succeed, and
-- the counts it ends with are the ones the theorem predicts (2 rows, 9 + 4 bytes)
example : OpsOK State.init hist ∧ (okOffs State.init hist).Nodup := ⟨opsOKb_sound _ _ (by decide), by decide⟩
example : (step (run State.init (hist.take 13)) (.commit 2)).2 = "ok" := by decide
example : ((run State.init hist).mt.map fun ti => (ti.nrows, ti.size, ti.rows.length, rowsSize ti.rows)) =
    [(2, 13, 2, 13)] := by decide

end Gsu.Props.C03
