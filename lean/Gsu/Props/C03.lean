/-
C03 — Commit is atomic and its outcome is reported truthfully.

"A transaction's changes become visible to later transactions all together and only if its
completion reports success; a transaction that is rolled back, aborted by a conflict, times out,
or whose completion reports failure leaves no visible change. Row counts and table sizes reported
by the database always equal the actual rows and bytes of the visible state."

Model: Gsu/Model/Db.lean; `step` is what `drv_c03` executes. `s.mt` is the state every later
transaction starts from.
-/
import Gsu.Proofs.DbStep
import Gsu.Gen.Dbphys
namespace Gsu.Props.C03
open Gsu.Db

/-- commit_all_or_nothing, success: the completion reports "ok" only for a live transaction whose
writes are independent, and then the new state is LayeredOnto of *all* its buffers … -/
theorem commit_all (s : State) (id : Nat) (h : (step s (.commit id)).2 = "ok") :
    ∃ t, s.tran? id = some t ∧ t.ended = false ∧ indepAll t.dif t.snap s.mt = true ∧
      (step s (.commit id)).1.mt = layeredOnto t.dif s.mt :=
  commit_ok s id h

/-- … table by table: every touched table gets the transaction's layer on every index, its rows
and its deltas; every other table is untouched. -/
theorem commit_all_tables (ds : List TDif) (mt : Meta) (j : Nat) :
    (layeredOnto ds mt)[j]? = match mt[j]?, ds[j]? with
      | some ti, some d => some (if d.touched then lay d ti else ti)
      | some ti, none => some ti
      | none, _ => none :=
  layeredOnto_get ds mt j

/-- commit_all_or_nothing, failure: any other outcome (already aborted by a conflict / exclusive /
max age / write limit / explicit abort, or refused) leaves the visible state unchanged. -/
theorem commit_nothing (s : State) (id : Nat) (h : (step s (.commit id)).2 ≠ "ok") :
    (step s (.commit id)).1.mt = s.mt :=
  commit_fail s id h

/-- an abort, and every Output/Delete/Update of a still-open transaction (successful or not,
including the one that reaches the write limit), leave the visible state unchanged -/
theorem uncommitted_invisible (s : State) (id tbl : Nat) (row : Row) (off : Off) :
    (step s (.abort id)).1.mt = s.mt ∧ (step s (.out id tbl row)).1.mt = s.mt ∧
    (step s (.del id tbl off)).1.mt = s.mt ∧ (step s (.upd id tbl off row)).1.mt = s.mt :=
  ⟨abort_mt s id, tranWrite_mt s id tbl _, tranWrite_mt s id tbl _, tranWrite_mt s id tbl _⟩

/-- info_exact, the delta bookkeeping: `BtreeNrows + Σ deltas = Nrows` (and sizes) after
LayeredOnto against a later `latest`, after MergeUpdate.Apply1, after PersistUpdate.Apply1 and in
what a reopen reads. -/
theorem info_deltas (ti : Info) (d : TDif) (n : Nat) (res : List Layer) (bts : List Bt)
    (h : DeltasOK ti) :
    DeltasOK (lay d ti) ∧ DeltasOK (ti.applyMerge n res) ∧ DeltasOK (ti.applyPersist bts) ∧
    DeltasOK ti.disk :=
  ⟨deltasOK_lay d ti h, deltasOK_applyMerge ti n res h, deltasOK_applyPersist ti bts h,
   deltasOK_disk ti⟩

/-- merge and persist do not change the reported counts or the logical rows -/
theorem info_background (ti : Info) (n : Nat) (res : List Layer) (bts : List Bt) :
    (ti.applyMerge n res).nrows = ti.nrows ∧ (ti.applyMerge n res).size = ti.size ∧
    (ti.applyMerge n res).rows = ti.rows ∧
    (ti.applyPersist bts).nrows = ti.nrows ∧ (ti.applyPersist bts).size = ti.size ∧
    (ti.applyPersist bts).rows = ti.rows :=
  ⟨rfl, rfl, rfl, rfl, rfl, rfl⟩

/-- info_exact — PARTIAL. Full statement: in every reachable state `nrows = rows.length` and
`size = Σ row sizes`. Proved: the commit adds exactly the transaction's deltas (`dn`, `ds`) and
nothing else changes the counts (`info_background`). Missing: `d.dn = |adds| - |dels|` and
`dels ⊆ latest rows` (the transaction-view invariant over Output/Delete/Update, and the
independence argument); these are checked by the correspondence and the direct oracle only. -/
theorem info_exact_partial (d : TDif) (lti : Info) :
    (lay d lti).nrows = lti.nrows + d.dn ∧ (lay d lti).size = lti.size + d.ds ∧
    (lay d lti).deltas = lti.deltas ++ [⟨d.dn, d.ds⟩] :=
  ⟨rfl, rfl, rfl⟩

/-- (G) the write limit and its comparison are the ones in tran.go; the slice arithmetic of
MergeUpdate.Apply1 / WithMerged / WithSaved is the one the model uses (take/drop at 1+n). -/
theorem gen_write_limit_and_slices :
    Gsu.Gen.Dbphys.writeMax = 10000 ∧ Gsu.Gen.Dbphys.writeLimitOp = ">=" ∧
    (∀ len n : Int, Gsu.Gen.Dbphys.mergeApply1Lo0 len n = 0 ∧ Gsu.Gen.Dbphys.mergeApply1Hi0 len n = 1 + n ∧
      Gsu.Gen.Dbphys.mergeApply1Make len n = len - n ∧ Gsu.Gen.Dbphys.mergeApply1Lo1 len n = 1 + n ∧
      Gsu.Gen.Dbphys.mergeApply1Hi1 len n = len) ∧
    Gsu.Gen.Dbphys.mergeApply1Slices = 2 := by
  refine ⟨rfl, rfl, fun len n => ⟨rfl, rfl, rfl, rfl, rfl⟩, rfl⟩

-- non-vacuity: a real commit that reports ok
example : (step (run State.init [.table 1, .begin_ 0, .out 0 0 ⟨20, 5, [[1]]⟩]) (.commit 0)).2 = "ok" := by
  decide

end Gsu.Props.C03
