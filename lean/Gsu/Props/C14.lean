/-
C14 — Stored records and binary encodings round-trip.

"Any list of packed field values built into a record reads back field-for-field identically,
for every header size class, and truncating a record keeps exactly its leading fields. The
storage integer/string writers and the client-server varint and size-prefixed encodings return
exactly what was written for every representable value."

Property theorems only; helper lemmas live in `Gsu/Proofs/{RecEnc,StorEnc,MuxEnc,C14Gen}.lean`.
The models (`Gsu.RecEnc`, `Gsu.StorEnc`, `Gsu.MuxEnc`) are the definitions `Drive/C14.lean`
executes against the Go code; `Gsu.Gen.*` is regenerated from `/repo` on every run.
-/
import Gsu.Proofs.RecEnc
import Gsu.Proofs.StorEnc
import Gsu.Proofs.MuxEnc
import Gsu.Proofs.C14Gen
namespace Gsu.Props.C14
open Gsu.Proto

/-! ## (G) the regenerated definitions are the ones the models use -/

/-- constants of `core/record.go`, and the two guards of `Build` in their order -/
theorem gen_record_consts :
    Gsu.Gen.RecEnc.c_hdrlen = Gsu.RecEnc.hdrlen ∧ Gsu.Gen.RecEnc.c_MaxValues = Gsu.RecEnc.maxValues ∧
    Gsu.Gen.RecEnc.c_maxRecordLen = Gsu.RecEnc.maxRecordLen ∧ Gsu.Gen.RecEnc.c_sizeMask + 1 = 16384 ∧
    Gsu.Gen.RecEnc.c_type8 = 1 ∧ Gsu.Gen.RecEnc.c_type16 = 2 ∧ Gsu.Gen.RecEnc.c_type32 = 3 ∧
    Gsu.Gen.RecEnc.buildGuards = ["> MaxValues", "> maxRecordLen"] := by decide

/-- the translated `tblength` is the model's -/
theorem gen_tblength (n d : Nat) : Gsu.Gen.RecEnc.tblength n d = (Gsu.RecEnc.tblength n d : Int) :=
  Gsu.RecEnc.gen_tblength n d

/-- the translated `mode` is the model's -/
theorem gen_mode (l : Nat) : Gsu.Gen.RecEnc.mode l = (Gsu.RecEnc.mode l : Int) :=
  Gsu.RecEnc.gen_mode l

/-- shape of `Writer.Put1…5` / `Reader.Get1…5` and the small-offset functions: range guard `256^k`,
little-endian shifts `0,8,…`, indexes `0…k-1`, the reader advances by `k` -/
theorem gen_stor_shape :
    let sh := fun k => (List.range k).map (· * 8)
    open Gsu.Gen.StorEnc in
    (put1Bound = 256 ^ 1 ∧ put2Bound = 256 ^ 2 ∧ put3Bound = 256 ^ 3 ∧ put4Bound = 256 ^ 4 ∧ put5Bound = 256 ^ 5) ∧
    (put1Shifts = sh 1 ∧ put2Shifts = sh 2 ∧ put3Shifts = sh 3 ∧ put4Shifts = sh 4 ∧ put5Shifts = sh 5) ∧
    (get1Shifts = sh 1 ∧ get2Shifts = sh 2 ∧ get3Shifts = sh 3 ∧ get4Shifts = sh 4 ∧ get5Shifts = sh 5) ∧
    (get1Idx = List.range 1 ∧ get2Idx = List.range 2 ∧ get3Idx = List.range 3 ∧ get4Idx = List.range 4 ∧
      get5Idx = List.range 5) ∧
    (get1Advance = 1 ∧ get2Advance = 2 ∧ get3Advance = 3 ∧ get4Advance = 4 ∧ get5Advance = 5) ∧
    (smallOffsetLen = 5 ∧ maxSmallOffset + 1 = 2 ^ 40 ∧ appendSmallShifts = sh 5 ∧ writeSmallShifts = sh 5 ∧
      writeSmallIdx = List.range 5 ∧ readSmallShifts = sh 5 ∧ readSmallIdx = List.range 5) := by decide

/-- the translated zig-zag expressions of `PutInt64` / `GetInt64` are the model's -/
theorem gen_zigzag : Gsu.Gen.MuxEnc.zigzag = Gsu.MuxEnc.zz ∧ Gsu.Gen.MuxEnc.unzigzag = Gsu.MuxEnc.unzz :=
  ⟨rfl, rfl⟩

/-- `maxio`, the literals of the two varint loops (`0x7f`, `0x80`, `7`, `63`) in source order,
and the body of `PutStr_` (limit, size, bytes) -/
theorem gen_mux_consts :
    Gsu.Gen.MuxEnc.maxio = Gsu.MuxEnc.maxio ∧
    Gsu.Gen.MuxEnc.putInt64Lits = [1, 63, 0x7f, 0x80, 7] ∧
    Gsu.Gen.MuxEnc.getInt64Lits = [0, 0, 0x7f, 7, 0, 0x80, 63, 63, 1, 1, 63] ∧
    Gsu.Gen.MuxEnc.putStrBody = ["limit(int64(len(s)))", "wb.putInt(len(s))", "wb.WriteString(s)", "return wb"] := by
  decide

/-! ## Records -/

/-- every field of a built record reads back identically, fields past the end read as "" —
for every field count and every header size class (`build` chooses the class through `mode`). -/
theorem record_getRaw (fs : List Bytes) (r : Bytes) (h : Gsu.RecEnc.build fs = .ok r) (i : Nat) :
    Gsu.RecEnc.getRaw r i = some (fs.getD i []) :=
  Gsu.RecEnc.getRaw_build fs r h i

example : Gsu.RecEnc.build [[1, 2], [], [3]] = .ok [0x40, 3, 9, 7, 7, 6, 3, 1, 2] := by decide

/-- `Count` of a built record is the number of fields built -/
theorem count_build (fs : List Bytes) (r : Bytes) (h : Gsu.RecEnc.build fs = .ok r) :
    Gsu.RecEnc.count r = some fs.length :=
  Gsu.RecEnc.count_build fs r h

/-- the length of a built record is the **generated** `tblength`, and `Len`/`RecLen` return it -/
theorem len_build (fs : List Bytes) (r : Bytes) (h : Gsu.RecEnc.build fs = .ok r) :
    (r.length : Int) = Gsu.Gen.RecEnc.tblength fs.length (Gsu.RecEnc.total fs) ∧
    Gsu.RecEnc.recLen r = some r.length := by
  obtain ⟨h1, h2⟩ := Gsu.RecEnc.len_build fs r h
  exact ⟨by rw [Gsu.RecEnc.gen_tblength, h1], h2⟩

/-- the header's two mode bits are the **generated** `mode` of the record length -/
theorem mode_build (fs : List Bytes) (r : Bytes) (h : Gsu.RecEnc.build fs = .ok r) (hne : fs ≠ []) :
    ∃ b0 t, r = b0 :: t ∧ ((b0.toNat / 64 : Nat) : Int) = Gsu.Gen.RecEnc.mode r.length := by
  obtain ⟨b0, t, h1, h2⟩ := Gsu.RecEnc.mode_bits_build fs r h hne
  exact ⟨b0, t, h1, by rw [Gsu.RecEnc.gen_mode, h2]⟩

/-- the error branches of `Build` are exactly the two documented guards -/
theorem build_guards (fs : List Bytes) :
    (Gsu.RecEnc.build fs = .tooMany ↔ fs.length > Gsu.RecEnc.maxValues) ∧
    (Gsu.RecEnc.build fs = .tooLarge ↔ fs.length ≤ Gsu.RecEnc.maxValues ∧
      Gsu.RecEnc.tblength fs.length (Gsu.RecEnc.total fs) > Gsu.RecEnc.maxRecordLen) :=
  ⟨Gsu.RecEnc.build_tooMany_iff fs, Gsu.RecEnc.build_tooLarge_iff fs⟩

/-- `Truncate(n)` of a built record succeeds and keeps exactly the leading `n` fields
(everything from field `n` on reads as "") -/
theorem truncate_spec (fs : List Bytes) (r : Bytes) (h : Gsu.RecEnc.build fs = .ok r) (n : Nat) :
    ∃ r', Gsu.RecEnc.truncate r n = some (.ok r') ∧
      ∀ i, Gsu.RecEnc.getRaw r' i = some (if i < n then fs.getD i [] else []) :=
  Gsu.RecEnc.truncate_build fs r h n

example : Gsu.RecEnc.truncate [0x40, 3, 9, 7, 7, 6, 3, 1, 2] 2 = some (.ok [0x40, 1, 6, 4, 1, 2]) := by decide

/-! ## Storage writers / readers -/

/-- `GetK` after `PutK(n)` returns `n` and leaves the rest, for `k` bytes and every `0 ≤ n < 256^k`;
outside that range `PutK` panics -/
theorem putN_getN (k : Nat) (n : Int) :
    (∀ b rest, Gsu.StorEnc.put k n = some b →
      Gsu.StorEnc.get k (b ++ rest) = some (n.toNat, rest) ∧ (n.toNat : Int) = n ∧ b.length = k) ∧
    (Gsu.StorEnc.put k n = none ↔ n < 0 ∨ (256 : Int) ^ k ≤ n) := by
  refine ⟨fun b rest h => ?_, ?_⟩
  · obtain ⟨h1, h2⟩ := Gsu.StorEnc.get_put k n b rest h
    obtain ⟨_, _, rfl⟩ := (Gsu.StorEnc.put_eq_some k n b).1 h
    exact ⟨h1, h2, Gsu.StorEnc.putN_length k _⟩
  · unfold Gsu.StorEnc.put
    by_cases hc : n < 0 ∨ (256 : Int) ^ k ≤ n
    · simp only [hc, if_true]
    · simp only [hc, if_false]; simp

example : Gsu.StorEnc.put 3 70000 = some [0x70, 0x11, 0x01] := by decide

/-- `GetStr` after `PutStr(s)` returns `s` (length < 64k; longer panics in `Put2`) -/
theorem putStr_getStr (s : Bytes) :
    (∀ b rest, Gsu.StorEnc.putStr s = some b → Gsu.StorEnc.getStr (b ++ rest) = some (s, rest)) ∧
    ((∃ b, Gsu.StorEnc.putStr s = some b) ↔ s.length < 65536) := by
  refine ⟨fun b rest h => Gsu.StorEnc.getStr_putStr s b rest h, ?_⟩
  constructor
  · rintro ⟨b, hb⟩; exact ((Gsu.StorEnc.putStr_eq_some s b).1 hb).1
  · intro h; exact ⟨_, (Gsu.StorEnc.putStr_eq_some s _).2 ⟨h, rfl⟩⟩

/-- `GetStrs` after `PutStrs(ss)` returns `ss` -/
theorem putStrs_getStrs (ss : List Bytes) :
    (∀ b rest, Gsu.StorEnc.putStrs ss = some b → Gsu.StorEnc.getStrs (b ++ rest) = some (ss, rest)) ∧
    (ss.length < 65536 → (∀ s ∈ ss, s.length < 65536) → ∃ b, Gsu.StorEnc.putStrs ss = some b) :=
  ⟨fun b rest h => Gsu.StorEnc.getStrs_putStrs ss b rest h, Gsu.StorEnc.putStrs_ok ss⟩

/-- small offsets: what is read is what was written modulo 2^40, hence the value itself below 2^40
(`WriteSmallOffset` has no range guard: larger values are silently truncated) -/
theorem smalloffset_roundtrip (off : Nat) (rest : Bytes) :
    Gsu.StorEnc.readSmallOffset (Gsu.StorEnc.writeSmallOffset off ++ rest) = some (off % 2 ^ 40) ∧
    (off < 2 ^ 40 → Gsu.StorEnc.readSmallOffset (Gsu.StorEnc.writeSmallOffset off ++ rest) = some off) := by
  have h := Gsu.StorEnc.readSmall_writeSmall off rest
  exact ⟨h, fun hlt => by rw [h, Nat.mod_eq_of_lt hlt]⟩

/-! ## Client-server encodings -/

/-- zig-zag decode ∘ encode is the identity on all 2^64 words — stated about the **generated**
bit expressions of `PutInt64` / `GetInt64` -/
theorem zigzag_roundtrip (i : BitVec 64) : Gsu.Gen.MuxEnc.unzigzag (Gsu.Gen.MuxEnc.zigzag i) = i :=
  Gsu.MuxEnc.zz_roundtrip i

/-- the varint loops: reading what `PutInt64`'s loop wrote for the uint64 `n` gives `n` and the rest -/
theorem varint_roundtrip (n : Nat) (rest : Bytes) (h : n < 2 ^ 64) :
    Gsu.MuxEnc.getVarint (Gsu.MuxEnc.putVarint n ++ rest) = some (n, rest) :=
  Gsu.MuxEnc.varint_roundtrip n rest h

/-- `GetInt64` after `PutInt64(i)` returns `i`, for every int64 -/
theorem int64_roundtrip (i : BitVec 64) (rest : Bytes) :
    Gsu.MuxEnc.getInt64 (Gsu.MuxEnc.putInt64 i ++ rest) = some (i, rest) :=
  Gsu.MuxEnc.getInt64_putInt64 i rest

example : Gsu.MuxEnc.getInt64 [0xd7, 0x04, 9] = some (BitVec.ofInt 64 (-300), [9]) := by decide

/-- size-prefixed strings/records/packed values: `GetStr` after `PutStr_(s)` returns `s` for every
length up to `maxio`; a longer one is refused by `limit` -/
theorem size_prefixed_roundtrip (s rest : Bytes) :
    (s.length ≤ Gsu.MuxEnc.maxio →
      ∃ b, Gsu.MuxEnc.putStr s = .ok b ∧ Gsu.MuxEnc.getStr (b ++ rest) = .ok (s, rest)) ∧
    (s.length > Gsu.MuxEnc.maxio → Gsu.MuxEnc.putStr s = .error .tooLarge) :=
  ⟨Gsu.MuxEnc.getStr_putStr s rest, Gsu.MuxEnc.putStr_error s⟩

/-- lists of size-prefixed strings -/
theorem strs_roundtrip (ss : List Bytes) (rest : Bytes) (hn : ss.length ≤ Gsu.MuxEnc.maxio)
    (h : ∀ s ∈ ss, s.length ≤ Gsu.MuxEnc.maxio) :
    ∃ b, Gsu.MuxEnc.putStrs ss = .ok b ∧ Gsu.MuxEnc.getStrs (b ++ rest) = .ok (ss, rest) :=
  Gsu.MuxEnc.getStrs_putStrs ss rest hn h

example : ∃ ss : List Bytes, ss.length ≤ Gsu.MuxEnc.maxio ∧ (∀ s ∈ ss, s.length ≤ Gsu.MuxEnc.maxio) ∧ ss ≠ [] :=
  ⟨[[1], []], by decide, by decide, by decide⟩

end Gsu.Props.C14
