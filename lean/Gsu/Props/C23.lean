/-
C23 — Query access operations honour their contracts.

"Rewinding then reading forwards and backwards returns the same rows in opposite orders and sticks
at the end; a requested order is respected; a lookup by a key returns exactly the matching row or
nothing; a select restricts reads to exactly the matching rows; and columns reported as keys are
unique and reported fixed values hold in every returned row."

Model: `Gsu.QCursor` — the cursor protocol (`get`/`run`/`drain` over row positions), `select`,
`lookup`, `IsKey`, `FixedIn`, `Sorted` over the reference rows `Gsu.Qry.evalQ` of the query as
written. The theorems state the contract on that reference model; that every executed query
(any strategy, any requirement) behaves like the model is tied by the differential run
(harness/inject/dbms/query/zz_verif_c23_test.go: cursor walks, selects, lookups replayed by the
driver; reported `Keys()`/`Fixed()` checked against the rows as written by direct oracles).
PARTIAL for keys/fixed: `Keys()`/`Fixed()` derivations of the code are not mirrored; proved are
the facts those derivations rest on for where/minus/summarize (`key_*`, `fixed_*`).
-/
import Gsu.Proofs.QCursor
namespace Gsu.Props.C23
open Gsu.Proto Gsu.QVal Gsu.QExpr Gsu.Qry Gsu.QCursor

/-- reading forwards after a rewind returns every row once, in order -/
theorem rewind_next_all (n : Nat) : drain n true (n + 1) .rewound = List.range n :=
  drain_next_rewound n

/-- reading backwards after a rewind returns the same rows in the opposite order -/
theorem rewind_get_prev_is_reverse (n : Nat) :
    drain n false (n + 1) .rewound = (drain n true (n + 1) .rewound).reverse := by
  rw [drain_prev_rewound, drain_next_rewound]

/-- once a read has returned nothing, every further read in either direction returns nothing
(until the next rewind) -/
theorem sticks_at_eof (n : Nat) (ops : List (Option Bool)) (h : ∀ o, o ∈ ops → o ≠ none) :
    ∀ x, x ∈ run n .eof ops → x = none :=
  run_eof n ops h

/-- a read past either end reaches the sticking state -/
theorem past_end_is_eof (n i : Nat) (h : i + 1 = n) :
    QCursor.get n (.at i) true = (.eof, none) ∧ QCursor.get n (.at 0) false = (.eof, none) := by
  constructor
  · simp only [QCursor.get, if_true]; rw [if_neg (by omega)]
  · simp [QCursor.get]

/-- `sort` returns exactly its source's rows … -/
theorem sort_is_permutation (db : Db) (q : Query) (rev : Bool) (cs : List Col) :
    (∀ r, r ∈ evalQ db (.sort q rev cs) ↔ r ∈ evalQ db q) ∧
      (evalQ db (.sort q rev cs)).length = (evalQ db q).length := by
  simp only [evalQ]
  exact ⟨fun r => mem_sortRows _ r _, length_sortRows _ _⟩

/-- … in the requested order (on the stored encodings of the sort columns, reversed or not) -/
theorem order_respected (db : Db) (q : Query) (rev : Bool) (cs : List Col) :
    Sorted (sortLe rev cs) (evalQ db (.sort q rev cs)) :=
  sorted_sort db q rev cs

/-- a select restricts reads to exactly the matching rows (selection values that occur nowhere,
or extra ones, simply match nothing) -/
theorem select_spec (rows : List Row) (sels : List (Col × Val)) (r : Row) :
    r ∈ QCursor.select rows sels ↔ r ∈ rows ∧ ∀ s, s ∈ sels → QExpr.get r s.1 = s.2 :=
  mem_select rows sels r

/-- a lookup returns a matching row, or nothing when no row matches; on a key the row it returns
is the only matching one -/
theorem lookup_spec (rows : List Row) (sels : List (Col × Val)) :
    (∀ r, QCursor.lookup rows sels = some r → r ∈ rows ∧ ∀ s, s ∈ sels → QExpr.get r s.1 = s.2) ∧
    (QCursor.lookup rows sels = none → ∀ r, r ∈ rows → ¬ ∀ s, s ∈ sels → QExpr.get r s.1 = s.2) ∧
    (∀ key, IsKey key rows → (∀ c, c ∈ key → ∃ v, (c, v) ∈ sels) →
      ∀ r r', QCursor.lookup rows sels = some r → r' ∈ rows →
        (∀ s, s ∈ sels → QExpr.get r' s.1 = s.2) → r' = r) :=
  ⟨fun r h => lookup_some rows sels r h, lookup_none rows sels,
    fun key hk hs r r' h hr' hm => lookup_unique rows key sels hk hs r r' h hr' hm⟩

/-- keys survive a restriction and a difference; the `by` columns are a key of a summarize
(the facts `Keys()` rests on for these operators; the derivation code itself is tied by the run) -/
theorem keys_unique_partial (db : Db) (q b : Query) (e : Expr) (cs by_ : List Col)
    (aggs : List (Col × Agg × Col)) :
    (IsKey cs (evalQ db q) → IsKey cs (evalQ db (.where_ q e))) ∧
    (IsKey cs (evalQ db q) → IsKey cs (evalQ db (.minus q b))) ∧
    IsKey by_ (evalQ db (.summarize q false by_ aggs)) :=
  ⟨key_where db q e cs, key_minus db q b cs, key_summarize db q by_ aggs⟩

/-- `c is v` / `c in (…)` fix the column, and a fixed column stays fixed under a restriction -/
theorem fixed_holds_partial (db : Db) (q : Query) (e : Expr) (c : Col) (v : Val) (vs : List Val) :
    FixedIn c [v] (evalQ db (.where_ q (.cmp .is (.col c) (.const v)))) ∧
    FixedIn c vs (evalQ db (.where_ q (.inl (.col c) vs))) ∧
    (FixedIn c vs (evalQ db q) → FixedIn c vs (evalQ db (.where_ q e))) :=
  ⟨fixed_where_is db q c v, fixed_where_in db q c vs, fixed_where_mono db q e c vs⟩

-- non-vacuity
example : drain 3 true 4 .rewound = [0, 1, 2] ∧ drain 3 false 4 .rewound = [2, 1, 0] := by decide
example : run 2 .rewound [some true, some false, some true, none, some false] =
    [some 0, none, none, some 1] := by decide

end Gsu.Props.C23
