/-
C23 — Query access operations honour their contracts.

"Rewinding then reading forwards and backwards returns the same rows in opposite orders and sticks
at the end; a requested order is respected; a lookup by a key returns exactly the matching row or
nothing; a select restricts reads to exactly the matching rows; and columns reported as keys are
unique and reported fixed values hold in every returned row."

Model: `Gsu.QCursor` — the cursor protocol (`get`/`run`/`drain` over row positions), `select`,
`lookup`, `IsKey`, `FixedIn`, `Sorted` over the reference rows `Gsu.Qry.evalQ` of the query as
written. The theorems state the contract on that reference model; that every executed query
(any strategy, any requirement) behaves like the model is tied by the differential run
(harness/inject/dbms/query/zz_verif_c23_test.go: cursor walks, selects, lookups replayed by the
driver; reported `Keys()`/`Fixed()` checked against the rows as written by direct oracles).
Keys and fixed values: `Gsu.QKeys.keysQ` (Model/QKeys.lean) and `Gsu.QFixed.fixedQ`
(Model/QFixed.lean) mirror the `Keys()` / `Fixed()` derivations of every operator (table, where,
project, rename, extend, summarize, sort, join, leftjoin, times, union, intersect, minus), the keys
using the mirrored fixed values as the code does (`hasKey(by, keys, fixed)` for the join type,
a where whose fixed values cover a key of a non-table source, the union's `disjoint` column).
`keysQ_sound` / `fixedQ_sound` prove, by structural induction over all queries, that every key so
derived is unique and every fixed entry holds in the rows as written. NOT mirrored (the model gives
the source's keys, also valid): the where `singleton` the index analysis finds over a table and the
where `conflict` (several analyses), both reported as `{{}}`; the `col <= ""` fixed rule. A rename
`checkRename` rejects, a times with common columns, a where reading a missing column, an extend of
an existing column, a whole-row summarize with `by` columns (all unconstructible) have no
keys / fixed in the model. The differential run compares `Keys()` and `Fixed()` of the real
untransformed query with `keysQ` / `fixedQ` (ops `keys`, `fixed`) outside the unmirrored cases.
-/
import Gsu.Proofs.QKeys2
namespace Gsu.Props.C23
open Gsu.Proto Gsu.QVal Gsu.QExpr Gsu.Qry Gsu.QCursor Gsu.QKeys Gsu.QFixed

/-- reading forwards after a rewind returns every row once, in order -/
theorem rewind_next_all (n : Nat) : drain n true (n + 1) .rewound = List.range n :=
  drain_next_rewound n

/-- reading backwards after a rewind returns the same rows in the opposite order -/
theorem rewind_get_prev_is_reverse (n : Nat) :
    drain n false (n + 1) .rewound = (drain n true (n + 1) .rewound).reverse := by
  rw [drain_prev_rewound, drain_next_rewound]

/-- once a read has returned nothing, every further read in either direction returns nothing
(until the next rewind) -/
theorem sticks_at_eof (n : Nat) (ops : List (Option Bool)) (h : ∀ o, o ∈ ops → o ≠ none) :
    ∀ x, x ∈ run n .eof ops → x = none :=
  run_eof n ops h

/-- a read past either end reaches the sticking state -/
theorem past_end_is_eof (n i : Nat) (h : i + 1 = n) :
    QCursor.get n (.at i) true = (.eof, none) ∧ QCursor.get n (.at 0) false = (.eof, none) := by
  constructor
  · simp only [QCursor.get, if_true]; rw [if_neg (by omega)]
  · simp [QCursor.get]

/-- `sort` returns exactly its source's rows … -/
theorem sort_is_permutation (db : Db) (q : Query) (rev : Bool) (cs : List Col) :
    (∀ r, r ∈ evalQ db (.sort q rev cs) ↔ r ∈ evalQ db q) ∧
      (evalQ db (.sort q rev cs)).length = (evalQ db q).length := by
  simp only [evalQ]
  exact ⟨fun r => mem_sortRows _ r _, length_sortRows _ _⟩

/-- … in the requested order (on the stored encodings of the sort columns, reversed or not) -/
theorem order_respected (db : Db) (q : Query) (rev : Bool) (cs : List Col) :
    Sorted (sortLe rev cs) (evalQ db (.sort q rev cs)) :=
  sorted_sort db q rev cs

/-- a select restricts reads to exactly the matching rows (selection values that occur nowhere,
or extra ones, simply match nothing) -/
theorem select_spec (rows : List Row) (sels : List (Col × Val)) (r : Row) :
    r ∈ QCursor.select rows sels ↔ r ∈ rows ∧ ∀ s, s ∈ sels → QExpr.get r s.1 = s.2 :=
  mem_select rows sels r

/-- a lookup returns a matching row, or nothing when no row matches; on a key the row it returns
is the only matching one -/
theorem lookup_spec (rows : List Row) (sels : List (Col × Val)) :
    (∀ r, QCursor.lookup rows sels = some r → r ∈ rows ∧ ∀ s, s ∈ sels → QExpr.get r s.1 = s.2) ∧
    (QCursor.lookup rows sels = none → ∀ r, r ∈ rows → ¬ ∀ s, s ∈ sels → QExpr.get r s.1 = s.2) ∧
    (∀ key, IsKey key rows → (∀ c, c ∈ key → ∃ v, (c, v) ∈ sels) →
      ∀ r r', QCursor.lookup rows sels = some r → r' ∈ rows →
        (∀ s, s ∈ sels → QExpr.get r' s.1 = s.2) → r' = r) :=
  ⟨fun r h => lookup_some rows sels r h, lookup_none rows sels,
    fun key hk hs r r' h hr' hm => lookup_unique rows key sels hk hs r r' h hr' hm⟩

/-- **the reported keys are unique**: if the stored tables are laid out in their declared columns
(`WfDb`) and every key the schema declares consists of columns of its table and is unique in the
table's rows (`DeclaredOk`), then every key the `Keys()` derivation (`keysQ`, all 13 operators)
reports for a query (using the mirrored `Fixed()`, `fixedQ`, where the code does) consists of result
columns and is unique in the rows of the query as written -/
theorem keysQ_sound (db : Db) (declared : Nat → List (List Col)) (hdb : WfDb db)
    (hd : DeclaredOk db declared) (q : Query) :
    ∀ k, k ∈ keysQ db declared q → IsKey k (evalQ db q) ∧ Sub k (colsQ db q) :=
  fun k hk => ⟨(keysQ_ok db declared hdb hd q k hk).2, (keysQ_ok db declared hdb hd q k hk).1⟩

/-- **the reported fixed values hold**: if the stored tables are laid out in their declared columns,
every entry (column, values) the `Fixed()` derivation (`fixedQ`, all 13 operators) reports for a
query names a result column, and that column takes one of the values in every row as written -/
theorem fixedQ_sound (db : Db) (hdb : WfDb db) (q : Query) :
    ∀ c vs, (c, vs) ∈ fixedQ db q → FixedIn c vs (evalQ db q) ∧ c ∈ colsQ db q :=
  fun c vs h => ⟨(fixedQ_ok db hdb q c vs h).2, (fixedQ_ok db hdb q c vs h).1⟩

/-- the code's rule "`col <= ""` fixes `col` to `""`" (`addFixed`, not mirrored by `fixedQ`) does
not hold: a number is `<= ""`, so the restriction keeps a row whose value is not `""`
(confirmed on the Go side: `Simple()` keeps such rows, `Fixed()` reports `""`, execution drops them) -/
theorem fixed_lte_empty_counter :
    ∃ (db : Db) (q : Query) (c : Col),
      ¬ FixedIn c [Val.empty] (evalQ db (.where_ q (.cmp .lte (.col c) (.const Val.empty)))) :=
  ⟨[⟨[0], [[(0, .int 1)]]⟩], .table 0, 0, fun h => absurd (h [(0, .int 1)] (by decide)) (by decide)⟩

/-- every row of a query as written is laid out in exactly the query's columns -/
theorem rows_shaped (db : Db) (hdb : WfDb db) (q : Query) :
    ∀ r, r ∈ evalQ db q → r.map (·.1) = colsQ db q :=
  shaped_evalQ db hdb q

/-- any key (reported or not) survives a restriction and a difference; the `by` columns are a key
of a summarize (general facts, independent of the derivation `keysQ_sound` covers) -/
theorem keys_preserved (db : Db) (q b : Query) (e : Expr) (cs by_ : List Col)
    (aggs : List (Col × Agg × Col)) :
    (IsKey cs (evalQ db q) → IsKey cs (evalQ db (.where_ q e))) ∧
    (IsKey cs (evalQ db q) → IsKey cs (evalQ db (.minus q b))) ∧
    IsKey by_ (evalQ db (.summarize q false by_ aggs)) :=
  ⟨key_where db q e cs, key_minus db q b cs, key_summarize db q by_ aggs⟩

/-- `c is v` / `c in (…)` fix the column, and any fixed column stays fixed under a restriction
(general facts, independent of the derivation `fixedQ_sound` covers) -/
theorem fixed_where (db : Db) (q : Query) (e : Expr) (c : Col) (v : Val) (vs : List Val) :
    FixedIn c [v] (evalQ db (.where_ q (.cmp .is (.col c) (.const v)))) ∧
    FixedIn c vs (evalQ db (.where_ q (.inl (.col c) vs))) ∧
    (FixedIn c vs (evalQ db q) → FixedIn c vs (evalQ db (.where_ q e))) :=
  ⟨fixed_where_is db q c v, fixed_where_in db q c vs, fixed_where_mono db q e c vs⟩

-- non-vacuity
-- t0(0,1) key (0); t1(1,2) keys (1),(2); t2(3) key ()
example :
    let db : Db := [⟨[0, 1], []⟩, ⟨[1, 2], []⟩, ⟨[3], []⟩]
    let decl : Nat → List (List Col) := fun id =>
      if id = 0 then [[0], [0, 1]] else if id = 1 then [[1], [2]] else [[]]
    keysQ db decl (.table 0) = [[0]] ∧
    keysQ db decl (.join (.table 0) (.table 1)) = [[0]] ∧            -- n:1
    keysQ db decl (.join (.table 1) (.table 0)) = [[0]] ∧            -- 1:n
    keysQ db decl (.leftjoin (.table 1) (.table 0)) = [[1, 0], [2, 0]] ∧
    keysQ db decl (.times (.table 0) (.table 2)) = [[0]] ∧
    keysQ db decl (.times (.table 0) (.table 1)) = [] ∧
    keysQ db decl (.project (.table 1) [2]) = [[2]] ∧
    keysQ db decl (.project (.table 0) [1]) = [[1]] ∧
    keysQ db decl (.rename (.table 1) [1, 2] [5, 1]) = [[5], [1]] ∧
    keysQ db decl (.summarize (.table 0) false [1] []) = [[1]] ∧
    keysQ db decl (.summarize (.table 0) true [] [(7, .max, 0)]) = [[]] ∧
    keysQ db decl (.intersect (.table 0) (.table 1)) = [[1]] ∧
    keysQ db decl (.union (.table 0) (.table 1)) = [[0, 1, 2]] ∧
    -- the fixed values: a disjoint union, a where that fixes a key, a join type through a fixed column
    fixedQ db (.where_ (.table 0) (.and (.cmp .is (.const (.int 1)) (.col 0)) (.inl (.col 1) [.int 2, .int 3]))) =
      [(0, [.int 1]), (1, [.int 2, .int 3])] ∧
    keysQ db decl (.union (.where_ (.table 0) (.cmp .is (.col 1) (.const (.int 1))))
      (.where_ (.table 0) (.cmp .is (.col 1) (.const (.int 2))))) = [[0, 1]] ∧
    keysQ db decl (.where_ (.extend (.table 0) 9 (.col 1)) (.cmp .is (.col 0) (.const (.int 1)))) = [[]] ∧
    keysQ db decl (.join (.where_ (.table 1) (.cmp .is (.col 2) (.const (.int 5)))) (.table 0)) = [[0]] := by
  decide
example : drain 3 true 4 .rewound = [0, 1, 2] ∧ drain 3 false 4 .rewound = [2, 1, 0] := by decide
example : run 2 .rewound [some true, some false, some true, none, some false] =
    [some 0, none, none, some 1] := by decide

end Gsu.Props.C23
